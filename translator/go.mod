module veriftranslator

go 1.23.0
