package main

// Translation of ast/sql.go (the hand-written SQL() methods, exprPrec, the prec constants) and the string constants
// of ast/ast_const.go into Coq data: one printer program per node type (Gen/PrintProg.v).
// Anything the translator cannot express becomes BOpaque (a loop, a type switch, an unknown call); the Coq side has
// hand models for an explicit list of such bodies and the per-run obligation demands that the lists coincide.

import (
	"fmt"
	"go/ast"
	"go/parser"
	"go/token"
	"path/filepath"
	"sort"
	"strconv"
	"strings"
)

type sqlCtx struct {
	recv   string
	consts map[string]string // const name -> value
	precs  map[string]int    // prec const name -> number
	svars  map[string]bool   // local string variables
	pvars  map[string]bool   // local prec variables
	bvars  map[string]bool   // local bool variables
	fields map[string]string // field name -> Go type of the receiver struct
	fail   string
}

func (c *sqlCtx) bad(format string, a ...any) string {
	if c.fail == "" {
		c.fail = fmt.Sprintf(format, a...)
	}
	return "(SBad)"
}

func (c *sqlCtx) field(e ast.Expr) (string, bool) {
	return recvField(e, c.recv)
}

func callName(e ast.Expr) string {
	switch f := e.(type) {
	case *ast.Ident:
		return f.Name
	case *ast.SelectorExpr:
		if x, ok := f.X.(*ast.Ident); ok {
			return x.Name + "." + f.Sel.Name
		}
	}
	return ""
}

// string-valued expression
func (c *sqlCtx) sexp(e ast.Expr) string {
	switch t := e.(type) {
	case *ast.ParenExpr:
		return c.sexp(t.X)
	case *ast.BasicLit:
		if t.Kind == token.STRING {
			v, err := strconv.Unquote(t.Value)
			if err != nil {
				return c.bad("string literal")
			}
			return fmt.Sprintf("(SLit %s)", coqBytes(v))
		}
	case *ast.BinaryExpr:
		if t.Op == token.ADD {
			return fmt.Sprintf("(SCat %s %s)", c.sexp(t.X), c.sexp(t.Y))
		}
	case *ast.Ident:
		if c.svars[t.Name] {
			return fmt.Sprintf("(SVar %s)", q(t.Name))
		}
		if t.Name == "indent" {
			return fmt.Sprintf("(SLit %s)", coqBytes("  "))
		}
		if v, ok := c.consts[t.Name]; ok {
			return fmt.Sprintf("(SLit %s)", coqBytes(v))
		}
	case *ast.SelectorExpr:
		if f, ok := c.field(t); ok { // recv.F used as a string
			return fmt.Sprintf("(SFieldStr %s)", q(f))
		}
	case *ast.CallExpr:
		name := callName(t.Fun)
		// recv.F.SQL()
		if sel, ok := t.Fun.(*ast.SelectorExpr); ok && sel.Sel.Name == "SQL" && len(t.Args) == 0 {
			if f, ok := c.field(sel.X); ok {
				return fmt.Sprintf("(SFieldSQL %s)", q(f))
			}
		}
		switch name {
		case "string":
			if len(t.Args) == 1 {
				if f, ok := c.field(t.Args[0]); ok {
					return fmt.Sprintf("(SFieldStr %s)", q(f))
				}
				if id, ok := t.Args[0].(*ast.Ident); ok {
					if v, ok := c.consts[id.Name]; ok {
						return fmt.Sprintf("(SLit %s)", coqBytes(v))
					}
				}
			}
		case "sqlOpt":
			if len(t.Args) == 3 {
				if f, ok := c.field(t.Args[1]); ok {
					return fmt.Sprintf("(SOpt %s %s %s)", c.sexp(t.Args[0]), q(f), c.sexp(t.Args[2]))
				}
			}
		case "sqlJoin":
			if len(t.Args) == 2 {
				if f, ok := c.field(t.Args[0]); ok {
					return fmt.Sprintf("(SJoin %s %s)", q(f), c.sexp(t.Args[1]))
				}
			}
		case "strOpt":
			if len(t.Args) == 2 {
				return fmt.Sprintf("(SStrOpt %s %s)", c.bexp(t.Args[0]), c.sexp(t.Args[1]))
			}
		case "strIfElse":
			if len(t.Args) == 3 {
				return fmt.Sprintf("(SIfElse %s %s %s)", c.bexp(t.Args[0]), c.sexp(t.Args[1]), c.sexp(t.Args[2]))
			}
		case "paren":
			if len(t.Args) == 2 {
				if f, ok := c.field(t.Args[1]); ok {
					return fmt.Sprintf("(SParen %s %s)", c.pexp(t.Args[0]), q(f))
				}
			}
		case "token.QuoteSQLIdent", "token.QuoteSQLString", "token.QuoteSQLBytes":
			if len(t.Args) == 1 {
				if f, ok := c.field(t.Args[0]); ok {
					return fmt.Sprintf("(SQuote Q%s %s)", strings.TrimPrefix(name, "token.QuoteSQL"), q(f))
				}
			}
		case "formatBoolUpper":
			if len(t.Args) == 1 {
				if f, ok := c.field(t.Args[0]); ok {
					return fmt.Sprintf("(SBool true %s)", q(f))
				}
			}
		case "strconv.FormatBool":
			if len(t.Args) == 1 {
				if f, ok := c.field(t.Args[0]); ok {
					return fmt.Sprintf("(SBool false %s)", q(f))
				}
			}
		}
	}
	return c.bad("string expression %T", e)
}

func (c *sqlCtx) pexp(e ast.Expr) string {
	switch t := e.(type) {
	case *ast.Ident:
		if c.pvars[t.Name] {
			return "PSelf"
		}
		if n, ok := c.precs[t.Name]; ok {
			return fmt.Sprintf("(PConst %d)", n)
		}
	case *ast.CallExpr:
		if callName(t.Fun) == "exprPrec" && len(t.Args) == 1 {
			if id, ok := t.Args[0].(*ast.Ident); ok && id.Name == c.recv {
				return "PSelf"
			}
		}
	}
	c.bad("prec expression")
	return "PSelf"
}

func (c *sqlCtx) bexp(e ast.Expr) string {
	switch t := e.(type) {
	case *ast.ParenExpr:
		return c.bexp(t.X)
	case *ast.Ident:
		if c.bvars[t.Name] {
			return fmt.Sprintf("(BVar %s)", q(t.Name))
		}
		if t.Name == "true" {
			return "BTrue"
		}
	case *ast.UnaryExpr:
		if t.Op == token.NOT {
			return fmt.Sprintf("(BNot %s)", c.bexp(t.X))
		}
	case *ast.SelectorExpr:
		if f, ok := c.field(t); ok {
			return fmt.Sprintf("(BField %s)", q(f))
		}
	case *ast.CallExpr:
		// recv.F.Invalid()
		if sel, ok := t.Fun.(*ast.SelectorExpr); ok && sel.Sel.Name == "Invalid" && len(t.Args) == 0 {
			if f, ok := c.field(sel.X); ok {
				return fmt.Sprintf("(BPosInvalid %s)", q(f))
			}
		}
		if callName(t.Fun) == "strings.HasPrefix" && len(t.Args) == 2 {
			return fmt.Sprintf("(BHasPrefix %s %s)", c.sexp(t.Args[0]), c.sexp(t.Args[1]))
		}
	case *ast.BinaryExpr:
		switch t.Op {
		case token.LAND:
			return fmt.Sprintf("(BAnd %s %s)", c.bexp(t.X), c.bexp(t.Y))
		case token.LOR:
			return fmt.Sprintf("(BOr %s %s)", c.bexp(t.X), c.bexp(t.Y))
		case token.GTR, token.EQL, token.NEQ:
			// len(recv.F) > n / == n
			if call, ok := t.X.(*ast.CallExpr); ok && callName(call.Fun) == "len" && len(call.Args) == 1 {
				if f, ok := c.field(call.Args[0]); ok {
					if lit, ok := t.Y.(*ast.BasicLit); ok && lit.Kind == token.INT {
						op := map[token.Token]string{token.GTR: "CGt", token.EQL: "CEq", token.NEQ: "CNe"}[t.Op]
						return fmt.Sprintf("(BLen %s %s %s)", op, q(f), lit.Value)
					}
				}
			}
			if t.Op == token.GTR {
				break
			}
			// recv.F == nil / != nil
			if id, ok := t.Y.(*ast.Ident); ok && id.Name == "nil" {
				if f, ok := c.field(t.X); ok {
					if t.Op == token.EQL {
						return fmt.Sprintf("(BNil %s)", q(f))
					}
					return fmt.Sprintf("(BNot (BNil %s))", q(f))
				}
			}
			// string comparison
			a, b := c.sexp(t.X), c.sexp(t.Y)
			if t.Op == token.EQL {
				return fmt.Sprintf("(BEqS %s %s)", a, b)
			}
			return fmt.Sprintf("(BNot (BEqS %s %s))", a, b)
		}
	}
	c.bad("bool expression %T", e)
	return "BTrue"
}

// body: sequence of := assignments, if-returns, final return
func (c *sqlCtx) body(stmts []ast.Stmt) string {
	if len(stmts) == 0 {
		c.bad("empty body")
		return "BOpaque"
	}
	switch s := stmts[0].(type) {
	case *ast.ReturnStmt:
		if len(s.Results) == 1 && len(stmts) == 1 {
			return fmt.Sprintf("(BRet %s)", c.sexp(s.Results[0]))
		}
	case *ast.AssignStmt:
		if s.Tok == token.DEFINE && len(s.Lhs) == 1 && len(s.Rhs) == 1 {
			x := s.Lhs[0].(*ast.Ident).Name
			// p := exprPrec(recv)
			if call, ok := s.Rhs[0].(*ast.CallExpr); ok && callName(call.Fun) == "exprPrec" {
				if c.pexp(s.Rhs[0]) == "PSelf" && c.fail == "" {
					c.pvars[x] = true
					return fmt.Sprintf("(BLetP %s)", c.body(stmts[1:]))
				}
			}
			// bool or string? decide by the syntactic shape of the right-hand side
			if isBoolExpr(s.Rhs[0]) {
				b := c.bexp(s.Rhs[0])
				c.bvars[x] = true
				return fmt.Sprintf("(BLetB %s %s %s)", q(x), b, c.body(stmts[1:]))
			}
			v := c.sexp(s.Rhs[0])
			c.svars[x] = true
			return fmt.Sprintf("(BLetS %s %s %s)", q(x), v, c.body(stmts[1:]))
		}
	case *ast.IfStmt:
		if s.Init == nil && s.Else == nil {
			return fmt.Sprintf("(BIf %s %s %s)", c.bexp(s.Cond), c.body(s.Body.List), c.body(stmts[1:]))
		}
		// if _, ok := recv.F.(*T); ok { ... }
		if as, ok := s.Init.(*ast.AssignStmt); ok && s.Else == nil && len(as.Lhs) == 2 && len(as.Rhs) == 1 {
			if ta, ok := as.Rhs[0].(*ast.TypeAssertExpr); ok {
				if f, ok := c.field(ta.X); ok {
					okName := as.Lhs[1].(*ast.Ident).Name
					if id, ok := s.Cond.(*ast.Ident); ok && id.Name == okName {
						ty := strings.TrimPrefix(typeString(ta.Type), "*")
						return fmt.Sprintf("(BIf (BIsType %s %s) %s %s)", q(f), q(ty), c.body(s.Body.List), c.body(stmts[1:]))
					}
				}
			}
		}
	}
	c.bad("statement %T", stmts[0])
	return "BOpaque"
}

func isBoolExpr(e ast.Expr) bool {
	switch t := e.(type) {
	case *ast.ParenExpr:
		return isBoolExpr(t.X)
	case *ast.UnaryExpr:
		return t.Op == token.NOT
	case *ast.BinaryExpr:
		switch t.Op {
		case token.LAND, token.LOR, token.EQL, token.NEQ, token.GTR, token.LSS, token.GEQ, token.LEQ:
			return true
		}
	case *ast.CallExpr:
		n := callName(t.Fun)
		return n == "strings.HasPrefix" || strings.HasSuffix(n, ".Invalid")
	}
	return false
}

func loadConsts(fset *token.FileSet) (map[string]string, []string) {
	fc, err := parser.ParseFile(fset, filepath.Join(*repo, "ast", "ast_const.go"), nil, 0)
	must(err)
	m := map[string]string{}
	var order []string
	for _, d := range fc.Decls {
		gd, ok := d.(*ast.GenDecl)
		if !ok || gd.Tok != token.CONST {
			continue
		}
		for _, s := range gd.Specs {
			vs := s.(*ast.ValueSpec)
			for i, n := range vs.Names {
				if i < len(vs.Values) {
					if lit, ok := vs.Values[i].(*ast.BasicLit); ok && lit.Kind == token.STRING {
						v, _ := strconv.Unquote(lit.Value)
						m[n.Name] = v
						order = append(order, n.Name)
					}
				}
			}
		}
	}
	return m, order
}

func genPrintProg(info *astInfo) {
	fset := token.NewFileSet()
	consts, constOrder := loadConsts(fset)
	f, err := parser.ParseFile(fset, filepath.Join(*repo, "ast", "sql.go"), nil, 0)
	must(err)
	// prec constants: const ( precLit prec = iota; ... )
	precs := map[string]int{}
	for _, d := range f.Decls {
		gd, ok := d.(*ast.GenDecl)
		if !ok || gd.Tok != token.CONST {
			continue
		}
		isPrec := false
		for i, s := range gd.Specs {
			vs := s.(*ast.ValueSpec)
			if i == 0 && vs.Type != nil && typeString(vs.Type) == "prec" && len(vs.Values) == 1 {
				if id, ok := vs.Values[0].(*ast.Ident); ok && id.Name == "iota" {
					isPrec = true
				}
			}
			if isPrec {
				for _, n := range vs.Names {
					precs[n.Name] = i
				}
			}
		}
	}
	var progRows, precRows []string
	opaque := []string{}
	seen := map[string]bool{}
	for _, d := range f.Decls {
		fd, ok := d.(*ast.FuncDecl)
		if !ok {
			continue
		}
		if fd.Recv == nil && fd.Name.Name == "exprPrec" {
			precRows = translateExprPrec(fd, consts, precs)
			continue
		}
		if fd.Recv == nil || fd.Name.Name != "SQL" {
			continue
		}
		ty := strings.TrimPrefix(typeString(fd.Recv.List[0].Type), "*")
		recv := ""
		if len(fd.Recv.List[0].Names) > 0 {
			recv = fd.Recv.List[0].Names[0].Name
		}
		c := &sqlCtx{recv: recv, consts: consts, precs: precs, svars: map[string]bool{}, pvars: map[string]bool{}, bvars: map[string]bool{}}
		b := c.body(fd.Body.List)
		if c.fail != "" {
			b = "BOpaque"
			opaque = append(opaque, fmt.Sprintf("%s: %s", ty, c.fail))
		}
		seen[ty] = true
		progRows = append(progRows, fmt.Sprintf("  (%s, %s)", q(ty), b))
	}
	var sb strings.Builder
	fmt.Fprintf(&sb, "(* GENERATED by /verif/translator from ast/sql.go, ast/ast_const.go -- do not edit *)\nFrom Coq Require Import String ZArith List.\nFrom Verif Require Import Tree.Tree Tree.Printer.\nImport ListNotations.\nLocal Open Scope string_scope.\n\n")
	sb.WriteString("(* bodies the translator could not express (loops, type switches): " + strings.Join(opaque, " | ") + " *)\n\n")
	sb.WriteString("Definition sql_prog : list (string * pbody) := [\n" + strings.Join(progRows, ";\n") + "\n].\n\n")
	sb.WriteString("Definition prec_table : list (string * prec_rule) := [\n" + strings.Join(precRows, ";\n") + "\n].\n\n")
	var cr []string
	for _, n := range constOrder {
		cr = append(cr, fmt.Sprintf("  (%s, %s)", q(n), coqBytes(consts[n])))
	}
	sb.WriteString("Definition string_consts : list (string * bytes) := [\n" + strings.Join(cr, ";\n") + "\n].\n\n")
	var pn []string
	type kv struct {
		k string
		v int
	}
	var kvs []kv
	for k, v := range precs {
		kvs = append(kvs, kv{k, v})
	}
	sort.Slice(kvs, func(i, j int) bool { return kvs[i].v < kvs[j].v })
	for _, e := range kvs {
		pn = append(pn, fmt.Sprintf("(%s, %d)", q(e.k), e.v))
	}
	sb.WriteString("Definition prec_names : list (string * nat) := [" + strings.Join(pn, "; ") + "].\n")
	writeOut("PrintProg.v", sb.String())
}

// exprPrec: switch e := e.(type) { case *A, *B: return precX; case *BinaryExpr: switch e.Op { case OpA, OpB: return precY } } panic(...)
func translateExprPrec(fd *ast.FuncDecl, consts map[string]string, precs map[string]int) []string {
	var rows []string
	if len(fd.Body.List) != 2 {
		return []string{`  ("?exprPrec", PrOpaque)`}
	}
	sw, ok := fd.Body.List[0].(*ast.TypeSwitchStmt)
	if !ok {
		return []string{`  ("?exprPrec", PrOpaque)`}
	}
	if es, ok := fd.Body.List[1].(*ast.ExprStmt); !ok {
		return []string{`  ("?exprPrec", PrOpaque)`}
	} else if call, ok := es.X.(*ast.CallExpr); !ok || callName(call.Fun) != "panic" {
		return []string{`  ("?exprPrec", PrOpaque)`}
	}
	for _, cc := range sw.Body.List {
		c := cc.(*ast.CaseClause)
		rule := "PrOpaque"
		if len(c.Body) == 1 {
			switch b := c.Body[0].(type) {
			case *ast.ReturnStmt:
				if len(b.Results) == 1 {
					if id, ok := b.Results[0].(*ast.Ident); ok {
						if n, ok := precs[id.Name]; ok {
							rule = fmt.Sprintf("(PrFixed %d)", n)
						}
					}
				}
			case *ast.SwitchStmt:
				// switch e.Op { case A, B: return precX ... }
				if sel, ok := b.Tag.(*ast.SelectorExpr); ok && b.Init == nil {
					good := true
					var ops []string
					for _, ic := range b.Body.List {
						icc := ic.(*ast.CaseClause)
						if len(icc.Body) != 1 || icc.List == nil {
							good = false
							break
						}
						rs, ok := icc.Body[0].(*ast.ReturnStmt)
						if !ok || len(rs.Results) != 1 {
							good = false
							break
						}
						id, ok := rs.Results[0].(*ast.Ident)
						n, ok2 := precs[id.Name]
						if !ok || !ok2 {
							good = false
							break
						}
						for _, ce := range icc.List {
							cid, ok := ce.(*ast.Ident)
							v, ok2 := consts[cid.Name]
							if !ok || !ok2 {
								good = false
								break
							}
							ops = append(ops, fmt.Sprintf("(%s, %d)", coqBytes(v), n))
						}
					}
					if good {
						rule = fmt.Sprintf("(PrByField %s [%s])", q(sel.Sel.Name), strings.Join(ops, "; "))
					}
				}
			}
		}
		for _, te := range c.List {
			rows = append(rows, fmt.Sprintf("  (%s, %s)", q(strings.TrimPrefix(typeString(te), "*")), rule))
		}
	}
	return rows
}
