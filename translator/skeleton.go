package main

// Control skeleton of the library's parser/lexer/splitter for the panic-escape analysis (C03/C09):
// per function the sites that can start or propagate a *Error panic -- raise sites and calls -- each with a flag
// saying whether a recovering defer of the same function protects it.  All data is abstracted away.
//
//   protected(site) = the function registered `defer func(){ if r := recover(); ... }()` in an EARLIER top-level
//                     statement of its body, and the site is not inside that deferred handler itself.
//
// Method calls are resolved by method name (every method of that name in the package: a superset of the real
// callee); function literals and method values passed as arguments are attributed to the call site where they are
// passed (a superset: they run inside the callee).  A call through a function-typed variable is ignored only when
// every function it can hold is passed visibly (FuncLit / method value); otherwise the site is SUnknown.

import (
	"fmt"
	"go/ast"
	"go/parser"
	"go/token"
	"path/filepath"
	"sort"
	"strings"
)

type skSite struct {
	prot bool
	kind string // Coq term
	line int
}

func genSkeleton() {
	fset := token.NewFileSet()
	var files []*ast.File
	for _, n := range []string{"parser.go", "lexer.go", "split.go", "parse_helpers.go", "error.go"} {
		f, err := parser.ParseFile(fset, filepath.Join(*repo, n), nil, 0)
		must(err)
		files = append(files, f)
	}
	// declared functions: key "Recv.name" or "name"
	type fn struct {
		key  string
		decl *ast.FuncDecl
	}
	var fns []fn
	methodsByName := map[string][]string{}
	funcParams := map[string][]int{} // function key -> indices of function-typed parameters
	for _, f := range files {
		for _, d := range f.Decls {
			fd, ok := d.(*ast.FuncDecl)
			if !ok || fd.Body == nil {
				continue
			}
			key := fd.Name.Name
			if fd.Recv != nil && len(fd.Recv.List) > 0 {
				key = strings.TrimPrefix(typeString(fd.Recv.List[0].Type), "*") + "." + fd.Name.Name
				methodsByName[fd.Name.Name] = append(methodsByName[fd.Name.Name], key)
			}
			fns = append(fns, fn{key, fd})
			idx := 0
			for _, p := range fd.Type.Params.List {
				n := len(p.Names)
				if n == 0 {
					n = 1
				}
				if _, isFunc := p.Type.(*ast.FuncType); isFunc {
					for k := 0; k < n; k++ {
						funcParams[key] = append(funcParams[key], idx+k)
					}
				}
				idx += n
			}
		}
	}
	declared := map[string]bool{}
	for _, f := range fns {
		declared[f.key] = true
	}
	var rows []string
	entries := []string{}
	for _, f := range fns {
		fd := f.decl
		// exported entry points: exported methods of Parser / Lexer.NextToken / exported package functions
		if ast.IsExported(fd.Name.Name) && fd.Name.Name != "Clone" && fd.Name.Name != "Error" && fd.Name.Name != "String" {
			entries = append(entries, f.key)
		}
		funcVars := map[string]bool{} // function-typed parameters and locals
		for _, p := range fd.Type.Params.List {
			if _, isFunc := p.Type.(*ast.FuncType); isFunc {
				for _, n := range p.Names {
					funcVars[n.Name] = true
				}
			}
		}
		var sites []skSite
		recoverAt := -1
		var visit func(n ast.Node, stmtIdx int, inHandler bool)
		addCall := func(key string, idx int, inHandler bool, pos token.Pos) {
			prot := recoverAt >= 0 && idx > recoverAt && !inHandler
			sites = append(sites, skSite{prot, fmt.Sprintf("(SCall %s)", q(key)), fset.Position(pos).Line})
		}
		visit = func(n ast.Node, stmtIdx int, inHandler bool) {
			ast.Inspect(n, func(x ast.Node) bool {
				switch c := x.(type) {
				case *ast.CallExpr:
					prot := recoverAt >= 0 && stmtIdx > recoverAt && !inHandler
					switch fun := c.Fun.(type) {
					case *ast.Ident:
						switch {
						case fun.Name == "panic":
							kind := "SRaiseBug"
							if len(c.Args) == 1 {
								if inner, ok := c.Args[0].(*ast.CallExpr); ok {
									nm := callName(inner.Fun)
									if strings.HasSuffix(nm, "errorf") || strings.HasSuffix(nm, "errorfAtToken") || strings.HasSuffix(nm, "errorfAtPosition") {
										kind = "SRaiseErr"
									}
								}
								if id, ok := c.Args[0].(*ast.Ident); ok && (id.Name == "err" || id.Name == "e") {
									kind = "SRaiseErr" // re-raise of a value of type *Error / error
								}
							}
							sites = append(sites, skSite{prot, kind, fset.Position(c.Pos()).Line})
						case funcVars[fun.Name]:
							// call through a function-typed parameter: attributed at the call sites of this function
						case declared[fun.Name]:
							addCall(fun.Name, stmtIdx, inHandler, c.Pos())
							// every function handed to a function-typed parameter must be syntactically visible here
							for _, pi := range funcParams[fun.Name] {
								if pi < len(c.Args) {
									switch c.Args[pi].(type) {
									case *ast.SelectorExpr, *ast.FuncLit:
									default:
										sites = append(sites, skSite{false, "SUnknown", fset.Position(c.Pos()).Line})
									}
								}
							}
						}
					case *ast.SelectorExpr:
						name := fun.Sel.Name
						if name == "nextToken" && len(c.Args) == 1 {
							if id, ok := c.Args[0].(*ast.Ident); ok && id.Name == "true" {
								// Lexer.nextToken(true): recovery mode never raises (theorem C03_recovery_mode_never_fails)
								return true
							}
						}
						for _, key := range methodsByName[name] {
							addCall(key, stmtIdx, inHandler, c.Pos())
						}
					case *ast.IndexExpr: // generic instantiation f[T](...)
						if id, ok := fun.X.(*ast.Ident); ok && declared[id.Name] {
							addCall(id.Name, stmtIdx, inHandler, c.Pos())
						}
					}
					// function values passed as arguments: method values and function literals run inside the callee
					for _, a := range c.Args {
						switch av := a.(type) {
						case *ast.SelectorExpr:
							if _, isCall := a.(*ast.CallExpr); !isCall {
								for _, key := range methodsByName[av.Sel.Name] {
									if _, isField := av.X.(*ast.Ident); isField {
										addCall(key, stmtIdx, inHandler, a.Pos())
									}
								}
							}
						case *ast.Ident:
							if funcVars[av.Name] {
								sites = append(sites, skSite{false, "SUnknown", fset.Position(a.Pos()).Line})
							}
						}
					}
				}
				return true
			})
		}
		for i, st := range fd.Body.List {
			// recovering defer?  defer func() { if r := recover(); r != nil { ... } }()
			if ds, ok := st.(*ast.DeferStmt); ok {
				if fl, ok := ds.Call.Fun.(*ast.FuncLit); ok {
					hasRecover := false
					ast.Inspect(fl.Body, func(x ast.Node) bool {
						if c, ok := x.(*ast.CallExpr); ok {
							if id, ok := c.Fun.(*ast.Ident); ok && id.Name == "recover" {
								hasRecover = true
							}
						}
						return true
					})
					if hasRecover && recoverAt < 0 {
						recoverAt = i
						visit(fl.Body, i, true) // the handler's own calls are not protected by it
						continue
					}
					// non-recovering deferred function: runs at exit, unprotected by later recovers of this function
					visit(fl.Body, i, true)
					continue
				}
			}
			visit(st, i, false)
		}
		var ss []string
		for _, s := range sites {
			p := "false"
			if s.prot {
				p = "true"
			}
			ss = append(ss, fmt.Sprintf("(%s, %s)", p, s.kind))
		}
		rows = append(rows, fmt.Sprintf("  (%s, [%s])", q(f.key), strings.Join(ss, "; ")))
	}
	// ---- C09: error-list discipline ----
	// (1) every write to the field `errors` is `x.errors = append(x.errors, <one value>)`
	// (2) every function that builds an ast.BadNode has called handleError earlier in its body (one error per placeholder)
	// (3) every Parser.ParseX entry ends with: if Token.Kind != EOF {append}; if len(errors) > 0 {return .., MultiError(errors)}; return .., nil
	var errWrites, badSites, shapes []string
	isErrorsSel := func(e ast.Expr) bool {
		sel, ok := e.(*ast.SelectorExpr)
		return ok && sel.Sel.Name == "errors"
	}
	for _, f := range fns {
		fd := f.decl
		ast.Inspect(fd.Body, func(x ast.Node) bool {
			as, ok := x.(*ast.AssignStmt)
			if !ok {
				return true
			}
			for i, l := range as.Lhs {
				if !isErrorsSel(l) {
					// writes through an index or slice of the errors field: x.errors[i] = ...
					if ix, ok := l.(*ast.IndexExpr); ok && isErrorsSel(ix.X) {
						errWrites = append(errWrites, fmt.Sprintf("(%s, false)", q(f.key)))
					}
					continue
				}
				good := false
				if as.Tok == token.ASSIGN && i < len(as.Rhs) {
					if c, ok := as.Rhs[i].(*ast.CallExpr); ok {
						if id, ok := c.Fun.(*ast.Ident); ok && id.Name == "append" && len(c.Args) == 2 && isErrorsSel(c.Args[0]) && c.Ellipsis == token.NoPos {
							good = true
						}
					}
				}
				errWrites = append(errWrites, fmt.Sprintf("(%s, %v)", q(f.key), good))
			}
			return true
		})
		// BadNode construction
		firstHandle, firstBad := token.NoPos, token.NoPos
		ast.Inspect(fd.Body, func(x ast.Node) bool {
			switch c := x.(type) {
			case *ast.CallExpr:
				if sel, ok := c.Fun.(*ast.SelectorExpr); ok && sel.Sel.Name == "handleError" && firstHandle == token.NoPos {
					firstHandle = c.Pos()
				}
			case *ast.CompositeLit:
				if typeString(c.Type) == "ast.BadNode" && firstBad == token.NoPos {
					firstBad = c.Pos()
				}
			}
			return true
		})
		if firstBad != token.NoPos {
			badSites = append(badSites, fmt.Sprintf("(%s, %v)", q(f.key), firstHandle != token.NoPos && firstHandle < firstBad))
		}
		// entry shape
		if strings.HasPrefix(f.key, "Parser.Parse") && ast.IsExported(fd.Name.Name) {
			n := len(fd.Body.List)
			ok := n >= 4
			if ok {
				// last: return x, nil
				r, isRet := fd.Body.List[n-1].(*ast.ReturnStmt)
				ok = isRet && len(r.Results) == 2
				if ok {
					id, isId := r.Results[1].(*ast.Ident)
					ok = isId && id.Name == "nil"
				}
			}
			if ok {
				// before: if len(p.errors) > 0 { return x, MultiError(p.errors) }
				is, isIf := fd.Body.List[n-2].(*ast.IfStmt)
								if isIf && is.Else == nil && is.Init == nil {
					ok = false
					if be, isBin := is.Cond.(*ast.BinaryExpr); isBin && be.Op == token.GTR {
						if c, isCall := be.X.(*ast.CallExpr); isCall && callName(c.Fun) == "len" && len(c.Args) == 1 && isErrorsSel(c.Args[0]) {
							if lit, isLit := be.Y.(*ast.BasicLit); isLit && lit.Value == "0" && len(is.Body.List) == 1 {
								if r, isRet := is.Body.List[0].(*ast.ReturnStmt); isRet && len(r.Results) == 2 {
									if c2, isCall := r.Results[1].(*ast.CallExpr); isCall && callName(c2.Fun) == "MultiError" && len(c2.Args) == 1 && isErrorsSel(c2.Args[0]) {
										ok = true
									}
								}
							}
						}
					}
				}
			}
			if ok {
				// before: if p.Token.Kind != token.TokenEOF { p.errors = append(p.errors, ...) }
				is, isIf := fd.Body.List[n-3].(*ast.IfStmt)
				ok = false
				if isIf && is.Else == nil && is.Init == nil && len(is.Body.List) == 1 {
					if be, isBin := is.Cond.(*ast.BinaryExpr); isBin && be.Op == token.NEQ {
						if sel, isSel := be.X.(*ast.SelectorExpr); isSel && sel.Sel.Name == "Kind" {
							if y, isSel := be.Y.(*ast.SelectorExpr); isSel && y.Sel.Name == "TokenEOF" {
								if as, isAs := is.Body.List[0].(*ast.AssignStmt); isAs && len(as.Lhs) == 1 && isErrorsSel(as.Lhs[0]) {
									ok = true
								}
							}
						}
					}
				}
			}
			// no other return statement in the body
			nret := 0
			ast.Inspect(fd.Body, func(x ast.Node) bool {
				if _, isFL := x.(*ast.FuncLit); isFL {
					return false
				}
				if _, isRet := x.(*ast.ReturnStmt); isRet {
					nret++
				}
				return true
			})
			shapes = append(shapes, fmt.Sprintf("(%s, %v)", q(f.key), ok && nret == 2))
		}
	}
	sort.Strings(entries)
	var es []string
	for _, e := range entries {
		es = append(es, q(e))
	}
	var sb strings.Builder
	sb.WriteString("(* GENERATED by /verif/translator from parser.go, lexer.go, split.go, parse_helpers.go, error.go -- do not edit *)\nFrom Coq Require Import String List.\nFrom Verif Require Import Skel.Skeleton.\nImport ListNotations.\nLocal Open Scope string_scope.\n\n")
	sb.WriteString("Definition skeleton : list (string * list (bool * site)) := [\n" + strings.Join(rows, ";\n") + "\n].\n\n")
	sb.WriteString("(* exported functions and methods *)\nDefinition entry_points : list string := [" + strings.Join(es, "; ") + "].\n")
	sb.WriteString("\n(* every assignment to a field named errors: (function, is it `x.errors = append(x.errors, v)`) *)\nDefinition errors_writes : list (string * bool) := [" + strings.Join(errWrites, "; ") + "].\n")
	sb.WriteString("(* functions that build an ast.BadNode: (function, handleError is called before) *)\nDefinition bad_sites : list (string * bool) := [" + strings.Join(badSites, "; ") + "].\n")
	sb.WriteString("(* exported Parser.ParseX methods: (method, body ends with the EOF test, the errors test and `return x, nil`, and has no other return) *)\nDefinition entry_shapes : list (string * bool) := [" + strings.Join(shapes, "; ") + "].\n")
	writeOut("SkeletonData.v", sb.String())
}
