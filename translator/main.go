// Command translator regenerates the Coq data files (coq/theories/Gen/*.v) from the current
// source of the repository.  It uses only go/parser + go/ast (no type checking, no network).
package main

import (
	"flag"
	"fmt"
	"os"
	"path/filepath"
)

var repo = flag.String("repo", "/repo", "repository root")
var outDir = flag.String("out", "", "output directory")

func must(err error) {
	if err != nil {
		fmt.Fprintln(os.Stderr, "translator:", err)
		os.Exit(1)
	}
}

func writeOut(name, content string) {
	must(os.WriteFile(filepath.Join(*outDir, name), []byte(content), 0o644))
}

func main() {
	flag.Parse()
	if *outDir == "" {
		fmt.Fprintln(os.Stderr, "usage: translator -repo /repo -out DIR")
		os.Exit(2)
	}
	must(os.MkdirAll(*outDir, 0o755))
	genKeywords()
	info := loadAst()
	genSchema(info)
	genPosSpec(info)
	genPosImpl(info)
	genWalkImpl(info)
	genPrintProg(info)
	genGlobals()
	genSkeleton()
	genListLoop()
}
