package main

// Summary of package-level state of the library packages (memefish, ast, token, char): every package-level variable,
// every syntactic write / address-of / in-place append to one of them with the enclosing function, every `go`
// statement and every import of sync, sync/atomic or unsafe, plus the struct fields written through a method
// receiver (per-call objects).  Emitted as Gen/Globals.v; the obligation on it is in GenChecks.v (C18).

import (
	"fmt"
	"go/ast"
	"go/parser"
	"go/token"
	"os"
	"path/filepath"
	"sort"
	"strings"
)

type gwrite struct{ pkg, fn, target, how, where string }

func libraryPackages() []string { return []string{".", "ast", "token", "char"} }

func genGlobals() {
	fset := token.NewFileSet()
	type fileInfo struct {
		pkg  string
		path string
		f    *ast.File
	}
	var files []fileInfo
	for _, dir := range libraryPackages() {
		ents, err := os.ReadDir(filepath.Join(*repo, dir))
		must(err)
		for _, e := range ents {
			n := e.Name()
			if e.IsDir() || !strings.HasSuffix(n, ".go") || strings.HasSuffix(n, "_test.go") {
				continue
			}
			p := filepath.Join(*repo, dir, n)
			f, err := parser.ParseFile(fset, p, nil, 0)
			must(err)
			// build-tagged hook files are compiled only with -tags verif; they export accessors and hold no state,
			// but they are summarised like everything else
			files = append(files, fileInfo{f.Name.Name, filepath.Join(dir, n), f})
		}
	}
	// package-level variables per package
	gvars := map[string]map[string]bool{}
	var gvarRows []string
	for _, fi := range files {
		if gvars[fi.pkg] == nil {
			gvars[fi.pkg] = map[string]bool{}
		}
		for _, d := range fi.f.Decls {
			gd, ok := d.(*ast.GenDecl)
			if !ok || gd.Tok != token.VAR {
				continue
			}
			for _, s := range gd.Specs {
				for _, n := range s.(*ast.ValueSpec).Names {
					if n.Name == "_" {
						continue
					}
					gvars[fi.pkg][n.Name] = true
					gvarRows = append(gvarRows, fmt.Sprintf("(%s, %s)", q(fi.pkg), q(n.Name)))
				}
			}
		}
	}
	var writes []gwrite
	var gos, imports []string
	var fieldWrites []string
	for _, fi := range files {
		for _, im := range fi.f.Imports {
			p := strings.Trim(im.Path.Value, `"`)
			if p == "sync" || p == "sync/atomic" || p == "unsafe" || p == "runtime" {
				imports = append(imports, fmt.Sprintf("(%s, %s)", q(fi.path), q(p)))
			}
		}
		for _, d := range fi.f.Decls {
			fd, ok := d.(*ast.FuncDecl)
			if !ok || fd.Body == nil {
				continue
			}
			fname := fd.Name.Name
			recvName := ""
			if fd.Recv != nil && len(fd.Recv.List) > 0 {
				fname = strings.TrimPrefix(typeString(fd.Recv.List[0].Type), "*") + "." + fname
				if len(fd.Recv.List[0].Names) > 0 {
					recvName = fd.Recv.List[0].Names[0].Name
				}
			}
			// names declared locally anywhere in the function (conservative shadowing: a local of the same name hides the global)
			locals := map[string]bool{}
			addFields := func(fl *ast.FieldList) {
				if fl == nil {
					return
				}
				for _, f := range fl.List {
					for _, n := range f.Names {
						locals[n.Name] = true
					}
				}
			}
			addFields(fd.Recv)
			addFields(fd.Type.Params)
			addFields(fd.Type.Results)
			ast.Inspect(fd.Body, func(n ast.Node) bool {
				switch s := n.(type) {
				case *ast.AssignStmt:
					if s.Tok == token.DEFINE {
						for _, l := range s.Lhs {
							if id, ok := l.(*ast.Ident); ok {
								locals[id.Name] = true
							}
						}
					}
				case *ast.ValueSpec:
					for _, id := range s.Names {
						locals[id.Name] = true
					}
				case *ast.RangeStmt:
					if s.Tok == token.DEFINE {
						if id, ok := s.Key.(*ast.Ident); ok {
							locals[id.Name] = true
						}
						if id, ok := s.Value.(*ast.Ident); ok {
							locals[id.Name] = true
						}
					}
				case *ast.FuncLit:
					addFields(s.Type.Params)
					addFields(s.Type.Results)
				case *ast.TypeSwitchStmt:
					if as, ok := s.Assign.(*ast.AssignStmt); ok {
						if id, ok := as.Lhs[0].(*ast.Ident); ok {
							locals[id.Name] = true
						}
					}
				}
				return true
			})
			root := func(e ast.Expr) (string, bool) { // root identifier of an lvalue and whether a field/index path was followed
				deref := false
				for {
					switch t := e.(type) {
					case *ast.Ident:
						return t.Name, deref
					case *ast.SelectorExpr:
						e, deref = t.X, true
					case *ast.IndexExpr:
						e, deref = t.X, true
					case *ast.StarExpr:
						e, deref = t.X, true
					case *ast.ParenExpr:
						e = t.X
					default:
						return "", deref
					}
				}
			}
			isGlobal := func(name string) bool { return name != "" && !locals[name] && gvars[fi.pkg][name] }
			note := func(target, how string, pos token.Pos) {
				writes = append(writes, gwrite{fi.pkg, fname, target, how, fmt.Sprintf("%s:%d", fi.path, fset.Position(pos).Line)})
			}
			ast.Inspect(fd.Body, func(n ast.Node) bool {
				switch s := n.(type) {
				case *ast.GoStmt:
					gos = append(gos, fmt.Sprintf("(%s, %s)", q(fi.path), q(fname)))
				case *ast.AssignStmt:
					if s.Tok == token.DEFINE {
						break
					}
					for _, l := range s.Lhs {
						r, deref := root(l)
						if isGlobal(r) {
							note(r, "assign", s.Pos())
						} else if r != "" && r == recvName && deref {
							if sel, ok := l.(*ast.SelectorExpr); ok {
								fieldWrites = append(fieldWrites, fmt.Sprintf("(%s, %s)", q(fname), q(sel.Sel.Name)))
							}
						}
					}
				case *ast.IncDecStmt:
					if r, _ := root(s.X); isGlobal(r) {
						note(r, "incdec", s.Pos())
					}
				case *ast.UnaryExpr:
					if s.Op == token.AND {
						if r, _ := root(s.X); isGlobal(r) {
							note(r, "address-of", s.Pos())
						}
					}
				case *ast.CallExpr:
					if id, ok := s.Fun.(*ast.Ident); ok && len(s.Args) > 0 {
						switch id.Name {
						case "append", "copy", "delete", "clear":
							if r, _ := root(s.Args[0]); isGlobal(r) {
								note(r, id.Name, s.Pos())
							}
						}
					}
					// sort.X(global) and similar in-place library calls on a global
					if sel, ok := s.Fun.(*ast.SelectorExpr); ok {
						if x, ok := sel.X.(*ast.Ident); ok && (x.Name == "sort" || x.Name == "slices") && len(s.Args) > 0 {
							if r, _ := root(s.Args[0]); isGlobal(r) {
								note(r, x.Name+"."+sel.Sel.Name, s.Pos())
							}
						}
					}
				}
				return true
			})
		}
	}
	sort.Strings(fieldWrites)
	fieldWrites = uniq(fieldWrites)
	var wr []string
	for _, w := range writes {
		wr = append(wr, fmt.Sprintf("  (%s, %s, %s, %s, %s)", q(w.pkg), q(w.fn), q(w.target), q(w.how), q(w.where)))
	}
	var sb strings.Builder
	sb.WriteString("(* GENERATED by /verif/translator from the non-test sources of packages memefish, ast, token, char -- do not edit *)\nFrom Coq Require Import String List.\nImport ListNotations.\nLocal Open Scope string_scope.\n\n")
	sb.WriteString("(* package-level variables: (package, name) *)\nDefinition global_vars : list (string * string) := [" + strings.Join(gvarRows, "; ") + "].\n\n")
	sb.WriteString("(* every syntactic write / address-of / in-place update of a package-level variable: (package, function, variable, how, where) *)\nDefinition global_writes : list (string * string * string * string * string) := [\n" + strings.Join(wr, ";\n") + "\n].\n\n")
	sb.WriteString("Definition go_statements : list (string * string) := [" + strings.Join(gos, "; ") + "].\n")
	sb.WriteString("Definition concurrency_imports : list (string * string) := [" + strings.Join(imports, "; ") + "].\n\n")
	sb.WriteString("(* struct fields assigned through a method receiver: (Type.method, field) -- state of per-call objects *)\nDefinition receiver_field_writes : list (string * string) := [\n  " + strings.Join(fieldWrites, ";\n  ") + "\n].\n")
	writeOut("Globals.v", sb.String())
}

func uniq(xs []string) []string {
	var out []string
	for i, x := range xs {
		if i == 0 || x != xs[i-1] {
			out = append(out, x)
		}
	}
	return out
}
