package main

// Translation of ast/ast.go (struct definitions, doc-comment position specifications), ast/pos.go (generated
// Pos/End methods) and ast/walk_internal.go (generated traversal switch) into Coq data.
// Nothing of the repository's own tools (astcatalog, poslang) is used: the doc comments are parsed by the
// POS parser below, written from the EBNF in ast/ast.go's package comment.

import (
	"fmt"
	"go/ast"
	"go/parser"
	"go/token"
	"path/filepath"
	"sort"
	"strconv"
	"strings"
)

type fieldDef struct {
	name, kind string // kind: Coq term of type fkind
	optional   bool
	goType     string
}

type structDef struct {
	name    string
	pos     string
	end     string
	fields  []fieldDef
	srcLine int
}

type astInfo struct {
	structs []*structDef
	byName  map[string]*structDef
	ifaces  map[string][]string // interface -> implementers in declaration order
	ifOrder []string
	consts  map[string]bool // named string types of ast_const.go
}

func q(s string) string { return strconv.Quote(s) }

func typeString(e ast.Expr) string {
	switch t := e.(type) {
	case *ast.Ident:
		return t.Name
	case *ast.StarExpr:
		return "*" + typeString(t.X)
	case *ast.ArrayType:
		return "[]" + typeString(t.Elt)
	case *ast.SelectorExpr:
		return typeString(t.X) + "." + t.Sel.Name
	}
	return fmt.Sprintf("?%T", e)
}

func loadAst() *astInfo {
	fset := token.NewFileSet()
	f, err := parser.ParseFile(fset, filepath.Join(*repo, "ast", "ast.go"), nil, parser.ParseComments)
	must(err)
	fc, err := parser.ParseFile(fset, filepath.Join(*repo, "ast", "ast_const.go"), nil, parser.ParseComments)
	must(err)
	info := &astInfo{byName: map[string]*structDef{}, ifaces: map[string][]string{}, consts: map[string]bool{}}
	for _, d := range fc.Decls {
		if gd, ok := d.(*ast.GenDecl); ok && gd.Tok == token.TYPE {
			for _, s := range gd.Specs {
				ts := s.(*ast.TypeSpec)
				info.consts[ts.Name.Name] = true
			}
		}
	}
	// pass 1: names
	structNames := map[string]bool{}
	for _, d := range f.Decls {
		gd, ok := d.(*ast.GenDecl)
		if !ok || gd.Tok != token.TYPE {
			continue
		}
		for _, s := range gd.Specs {
			ts := s.(*ast.TypeSpec)
			switch ts.Type.(type) {
			case *ast.StructType:
				structNames[ts.Name.Name] = true
			case *ast.InterfaceType:
				if ts.Name.Name != "Node" {
					info.ifaces[ts.Name.Name] = nil
					info.ifOrder = append(info.ifOrder, ts.Name.Name)
				}
			}
		}
	}
	// implementers: func (X) isIface() {}
	for _, d := range f.Decls {
		fd, ok := d.(*ast.FuncDecl)
		if !ok || fd.Recv == nil || !strings.HasPrefix(fd.Name.Name, "is") {
			continue
		}
		iface := strings.TrimPrefix(fd.Name.Name, "is")
		if _, ok := info.ifaces[iface]; !ok {
			continue
		}
		recv := typeString(fd.Recv.List[0].Type)
		recv = strings.TrimPrefix(recv, "*")
		info.ifaces[iface] = append(info.ifaces[iface], recv)
	}
	// pass 2: structs
	for _, d := range f.Decls {
		gd, ok := d.(*ast.GenDecl)
		if !ok || gd.Tok != token.TYPE {
			continue
		}
		for _, s := range gd.Specs {
			ts := s.(*ast.TypeSpec)
			st, ok := ts.Type.(*ast.StructType)
			if !ok {
				continue
			}
			sd := &structDef{name: ts.Name.Name, srcLine: fset.Position(ts.Pos()).Line}
			// pos/end comments: comment groups inside the struct braces
			for _, cg := range f.Comments {
				if cg.Pos() > st.Fields.Opening && cg.End() < st.Fields.Closing {
					for _, c := range cg.List {
						t := strings.TrimSpace(strings.TrimPrefix(c.Text, "//"))
						if strings.HasPrefix(t, "pos = ") && sd.pos == "" {
							sd.pos = strings.TrimPrefix(t, "pos = ")
						}
						if strings.HasPrefix(t, "end = ") && sd.end == "" {
							sd.end = strings.TrimPrefix(t, "end = ")
						}
					}
				}
			}
			for _, fl := range st.Fields.List {
				gt := typeString(fl.Type)
				kind := classify(gt, structNames, info)
				opt := fl.Comment != nil && strings.Contains(fl.Comment.Text(), "optional")
				for _, nm := range fl.Names {
					sd.fields = append(sd.fields, fieldDef{name: nm.Name, kind: kind, optional: opt, goType: gt})
				}
				if len(fl.Names) == 0 {
					sd.fields = append(sd.fields, fieldDef{name: "?embedded", kind: "(KOther " + q(gt) + ")", goType: gt})
				}
			}
			info.structs = append(info.structs, sd)
			info.byName[sd.name] = sd
		}
	}
	sort.SliceStable(info.structs, func(i, j int) bool { return info.structs[i].srcLine < info.structs[j].srcLine })
	return info
}

func classify(gt string, structNames map[string]bool, info *astInfo) string {
	switch gt {
	case "token.Pos":
		return "KPos"
	case "bool":
		return "KBool"
	case "int":
		return "KInt"
	case "string":
		return "KStr"
	case "[]byte":
		return "KStr"
	case "[]*token.Token":
		return "KToks"
	}
	if info.consts[gt] {
		return "KStr"
	}
	if strings.HasPrefix(gt, "[]") {
		el := gt[2:]
		if strings.HasPrefix(el, "*") && structNames[el[1:]] {
			return "(KNodes " + q(el[1:]) + " false)"
		}
		if _, ok := info.ifaces[el]; ok {
			return "(KNodes " + q(el) + " true)"
		}
	}
	if strings.HasPrefix(gt, "*") && structNames[gt[1:]] {
		return "(KNode " + q(gt[1:]) + " false)"
	}
	if _, ok := info.ifaces[gt]; ok {
		return "(KNode " + q(gt) + " true)"
	}
	return "(KOther " + q(gt) + ")"
}

const genHeader = "(* GENERATED by /verif/translator from %s -- do not edit *)\nFrom Coq Require Import String ZArith List.\nFrom Verif Require Import Tree.Tree Tree.PosLang.\nImport ListNotations.\nLocal Open Scope string_scope.\n\n"

func genSchema(info *astInfo) {
	var sb strings.Builder
	fmt.Fprintf(&sb, genHeader, "ast/ast.go, ast/ast_const.go")
	sb.WriteString("Definition schema : list (string * list (string * fkind)) := [\n")
	for i, s := range info.structs {
		var fs []string
		for _, f := range s.fields {
			fs = append(fs, fmt.Sprintf("(%s, %s)", q(f.name), f.kind))
		}
		sep := ";"
		if i == len(info.structs)-1 {
			sep = ""
		}
		fmt.Fprintf(&sb, "  (%s, [%s])%s\n", q(s.name), strings.Join(fs, "; "), sep)
	}
	sb.WriteString("].\n\nDefinition ifaces : list (string * list string) := [\n")
	for i, n := range info.ifOrder {
		var im []string
		for _, x := range info.ifaces[n] {
			im = append(im, q(x))
		}
		sep := ";"
		if i == len(info.ifOrder)-1 {
			sep = ""
		}
		fmt.Fprintf(&sb, "  (%s, [%s])%s\n", q(n), strings.Join(im, "; "), sep)
	}
	sb.WriteString("].\n\n(* fields marked `// optional` in ast.go (informational; cross-checked, not trusted) *)\nDefinition optional_marks : list (string * list string) := [\n")
	var rows []string
	for _, s := range info.structs {
		var o []string
		for _, f := range s.fields {
			if f.optional {
				o = append(o, q(f.name))
			}
		}
		if len(o) > 0 {
			rows = append(rows, fmt.Sprintf("  (%s, [%s])", q(s.name), strings.Join(o, "; ")))
		}
	}
	sb.WriteString(strings.Join(rows, ";\n") + "\n].\n")
	writeOut("Schema.v", sb.String())
}

// ---------------------------------------------------------------- POS language parser (from the EBNF in ast.go)

type posParser struct {
	s   string
	i   int
	err error
}

func (p *posParser) ws() {
	for p.i < len(p.s) && (p.s[p.i] == ' ' || p.s[p.i] == '\t') {
		p.i++
	}
}
func (p *posParser) eat(t string) bool {
	p.ws()
	if strings.HasPrefix(p.s[p.i:], t) {
		p.i += len(t)
		return true
	}
	return false
}
func (p *posParser) fail(msg string) {
	if p.err == nil {
		p.err = fmt.Errorf("pos expression %q at %d: %s", p.s, p.i, msg)
	}
}
func isLetter(c byte) bool { return c >= 'a' && c <= 'z' || c >= 'A' && c <= 'Z' }
func isDig(c byte) bool    { return c >= '0' && c <= '9' }
func (p *posParser) ident() string {
	p.ws()
	st := p.i
	if p.i < len(p.s) && isLetter(p.s[p.i]) {
		for p.i < len(p.s) && (isLetter(p.s[p.i]) || isDig(p.s[p.i]) || p.s[p.i] == '_') {
			p.i++
		}
	}
	return p.s[st:p.i]
}

// IntAtom -> IntVal | "len" "(" StringVar ")" | "(" BoolVar "?" IntAtom ":" IntAtom ")"
func (p *posParser) intAtom() string {
	p.ws()
	if p.eat("(") {
		c := p.ident()
		if c == "" || !p.eat("?") {
			p.fail("expected BoolVar ?")
		}
		t := p.intAtom()
		if !p.eat(":") {
			p.fail("expected :")
		}
		e := p.intAtom()
		if !p.eat(")") {
			p.fail("expected )")
		}
		return fmt.Sprintf("(IIte %s %s %s)", q(c), t, e)
	}
	if p.i < len(p.s) && isDig(p.s[p.i]) {
		st := p.i
		for p.i < len(p.s) && isDig(p.s[p.i]) {
			p.i++
		}
		return fmt.Sprintf("(ILit %s)", p.s[st:p.i])
	}
	id := p.ident()
	if id != "len" || !p.eat("(") {
		p.fail("expected int atom")
		return "(ILit 0)"
	}
	v := p.ident()
	if !p.eat(")") {
		p.fail("expected )")
	}
	return fmt.Sprintf("(ILen %s)", q(v))
}

// NodeAtom -> NodeVar | NodeSliceVar "[" (IntAtom | "$") "]"
func (p *posParser) nodeAtom() string {
	v := p.ident()
	if v == "" {
		p.fail("expected variable")
	}
	if p.eat("[") {
		if p.eat("$") {
			if !p.eat("]") {
				p.fail("expected ]")
			}
			return fmt.Sprintf("(ALast %s)", q(v))
		}
		ix := p.intAtom()
		if !p.eat("]") {
			p.fail("expected ]")
		}
		return fmt.Sprintf("(AIndex %s %s)", q(v), ix)
	}
	return fmt.Sprintf("(AVar %s)", q(v))
}

// PosAtom -> PosVar | NodeExpr "." ("pos" | "end");  returns term and whether it was a bare variable
func (p *posParser) posAtom() string {
	var n string
	bare := ""
	if p.eat("(") {
		atoms := []string{p.nodeAtom()}
		for p.eat("??") {
			atoms = append(atoms, p.nodeAtom())
		}
		if !p.eat(")") {
			p.fail("expected )")
		}
		n = fmt.Sprintf("(NChoice [%s])", strings.Join(atoms, "; "))
	} else {
		st := p.i
		a := p.nodeAtom()
		n = fmt.Sprintf("(NAtom %s)", a)
		if strings.HasPrefix(a, "(AVar ") {
			bare = strings.TrimSpace(p.s[st:p.i])
		}
	}
	if p.eat(".") {
		k := p.ident()
		switch k {
		case "pos":
			return fmt.Sprintf("(PNodePos %s)", n)
		case "end":
			return fmt.Sprintf("(PNodeEnd %s)", n)
		}
		p.fail("expected pos or end")
	}
	if bare == "" {
		p.fail("invalid position atom")
	}
	return fmt.Sprintf("(PVar %s)", q(bare))
}

// PosExpr -> PosAtom ("+" IntAtom)*
func (p *posParser) posExpr() string {
	e := p.posAtom()
	for p.eat("+") {
		e = fmt.Sprintf("(PAdd %s %s)", e, p.intAtom())
	}
	return e
}

// PosChoice -> PosExpr ("||" PosExpr)*
func parsePosSpec(s string) (string, error) {
	p := &posParser{s: s}
	es := []string{p.posExpr()}
	for p.eat("||") {
		es = append(es, p.posExpr())
	}
	p.ws()
	if p.i != len(p.s) {
		p.fail("trailing input")
	}
	if p.err != nil {
		return "", p.err
	}
	if len(es) == 1 {
		return fmt.Sprintf("(POne %s)", es[0]), nil
	}
	return fmt.Sprintf("(PChoice [%s])", strings.Join(es, "; ")), nil
}

func genPosSpec(info *astInfo) {
	var sb strings.Builder
	fmt.Fprintf(&sb, genHeader, "the `// pos =` / `// end =` doc comments of ast/ast.go")
	sb.WriteString("Definition pos_spec : list (string * (pexpr * pexpr)) := [\n")
	var rows []string
	for _, s := range info.structs {
		pe, err1 := parsePosSpec(s.pos)
		ee, err2 := parsePosSpec(s.end)
		if err1 != nil || err2 != nil || s.pos == "" || s.end == "" {
			// a node without a parsable specification: recorded with an expression that can never equal a compiled method
			if pe == "" {
				pe = "PMissing"
			}
			if ee == "" {
				ee = "PMissing"
			}
		}
		rows = append(rows, fmt.Sprintf("  (%s, (%s, %s)) (* pos = %s | end = %s *)", q(s.name), pe, ee, s.pos, s.end))
	}
	for i, r := range rows {
		if i < len(rows)-1 {
			r = strings.Replace(r, ")) (*", ")); (*", 1)
		}
		sb.WriteString(r + "\n")
	}
	sb.WriteString("].\n")
	writeOut("PosSpec.v", sb.String())
}

// ---------------------------------------------------------------- pos.go: Go expressions of the generated methods

func goNode(e ast.Expr, recv string) (string, bool) {
	c, ok := e.(*ast.CallExpr)
	if !ok {
		return "", false
	}
	fn, ok := c.Fun.(*ast.Ident)
	if !ok {
		return "", false
	}
	switch fn.Name {
	case "wrapNode":
		if f, ok := recvField(c.Args[0], recv); ok && len(c.Args) == 1 {
			return fmt.Sprintf("(GWrap %s)", q(f)), true
		}
	case "nodeSliceLast":
		if f, ok := recvField(c.Args[0], recv); ok && len(c.Args) == 1 {
			return fmt.Sprintf("(GSliceLast %s)", q(f)), true
		}
	case "nodeSliceIndex":
		if len(c.Args) == 2 {
			f, ok1 := recvField(c.Args[0], recv)
			ix, ok2 := goInt(c.Args[1], recv)
			if ok1 && ok2 {
				return fmt.Sprintf("(GSliceIndex %s %s)", q(f), ix), true
			}
		}
	case "nodeChoice":
		var xs []string
		for _, a := range c.Args {
			x, ok := goNode(a, recv)
			if !ok {
				return "", false
			}
			xs = append(xs, x)
		}
		return fmt.Sprintf("(GNodeChoice [%s])", strings.Join(xs, "; ")), true
	}
	return "", false
}

func recvField(e ast.Expr, recv string) (string, bool) {
	s, ok := e.(*ast.SelectorExpr)
	if !ok {
		return "", false
	}
	x, ok := s.X.(*ast.Ident)
	if !ok || x.Name != recv {
		return "", false
	}
	return s.Sel.Name, true
}

func goInt(e ast.Expr, recv string) (string, bool) {
	switch t := e.(type) {
	case *ast.BasicLit:
		if t.Kind == token.INT {
			return fmt.Sprintf("(GLit %s)", t.Value), true
		}
	case *ast.CallExpr:
		fn, ok := t.Fun.(*ast.Ident)
		if !ok {
			return "", false
		}
		if fn.Name == "len" && len(t.Args) == 1 {
			if f, ok := recvField(t.Args[0], recv); ok {
				return fmt.Sprintf("(GLen %s)", q(f)), true
			}
		}
		if fn.Name == "ifThenElse" && len(t.Args) == 3 {
			c, ok0 := recvField(t.Args[0], recv)
			a, ok1 := goInt(t.Args[1], recv)
			b, ok2 := goInt(t.Args[2], recv)
			if ok0 && ok1 && ok2 {
				return fmt.Sprintf("(GIte %s %s %s)", q(c), a, b), true
			}
		}
	}
	return "", false
}

func goPos(e ast.Expr, recv string) (string, bool) {
	if f, ok := recvField(e, recv); ok {
		return fmt.Sprintf("(GField %s)", q(f)), true
	}
	c, ok := e.(*ast.CallExpr)
	if !ok {
		return "", false
	}
	fn, ok := c.Fun.(*ast.Ident)
	if !ok {
		return "", false
	}
	switch fn.Name {
	case "nodePos", "nodeEnd":
		if len(c.Args) == 1 {
			if n, ok := goNode(c.Args[0], recv); ok {
				if fn.Name == "nodePos" {
					return fmt.Sprintf("(GNodePos %s)", n), true
				}
				return fmt.Sprintf("(GNodeEnd %s)", n), true
			}
		}
	case "posAdd":
		if len(c.Args) == 2 {
			p, ok1 := goPos(c.Args[0], recv)
			i, ok2 := goInt(c.Args[1], recv)
			if ok1 && ok2 {
				return fmt.Sprintf("(GPosAdd %s %s)", p, i), true
			}
		}
	case "posChoice":
		var xs []string
		for _, a := range c.Args {
			x, ok := goPos(a, recv)
			if !ok {
				return "", false
			}
			xs = append(xs, x)
		}
		return fmt.Sprintf("(GPosChoice [%s])", strings.Join(xs, "; ")), true
	}
	return "", false
}

func exprText(fset *token.FileSet, src []byte, e ast.Node) string {
	return string(src[fset.Position(e.Pos()).Offset:fset.Position(e.End()).Offset])
}

func genPosImpl(info *astInfo) {
	fset := token.NewFileSet()
	path := filepath.Join(*repo, "ast", "pos.go")
	f, err := parser.ParseFile(fset, path, nil, 0)
	must(err)
	type pe struct{ pos, end string }
	m := map[string]*pe{}
	var order []string
	for _, d := range f.Decls {
		fd, ok := d.(*ast.FuncDecl)
		if !ok || fd.Recv == nil || (fd.Name.Name != "Pos" && fd.Name.Name != "End") {
			continue
		}
		ty := strings.TrimPrefix(typeString(fd.Recv.List[0].Type), "*")
		recv := ""
		if len(fd.Recv.List[0].Names) > 0 {
			recv = fd.Recv.List[0].Names[0].Name
		}
		term := "GOpaque"
		if len(fd.Body.List) == 1 {
			if rs, ok := fd.Body.List[0].(*ast.ReturnStmt); ok && len(rs.Results) == 1 {
				if t, ok := goPos(rs.Results[0], recv); ok {
					term = fmt.Sprintf("(GRet %s)", t)
				}
			}
		}
		if m[ty] == nil {
			m[ty] = &pe{"GMissing", "GMissing"}
			order = append(order, ty)
		}
		if fd.Name.Name == "Pos" {
			m[ty].pos = term
		} else {
			m[ty].end = term
		}
	}
	var sb strings.Builder
	fmt.Fprintf(&sb, genHeader, "ast/pos.go")
	sb.WriteString("Definition pos_impl : list (string * (gbody * gbody)) := [\n")
	for i, ty := range order {
		sep := ";"
		if i == len(order)-1 {
			sep = ""
		}
		fmt.Fprintf(&sb, "  (%s, (%s, %s))%s\n", q(ty), m[ty].pos, m[ty].end, sep)
	}
	sb.WriteString("].\n")
	writeOut("PosImpl.v", sb.String())
}

// ---------------------------------------------------------------- walk_internal.go

func genWalkImpl(info *astInfo) {
	fset := token.NewFileSet()
	f, err := parser.ParseFile(fset, filepath.Join(*repo, "ast", "walk_internal.go"), nil, 0)
	must(err)
	var rows []string
	opaque := func(ty string) { rows = append(rows, fmt.Sprintf("  (%s, WOpaque)", q(ty))) }
	found := false
	for _, d := range f.Decls {
		fd, ok := d.(*ast.FuncDecl)
		if !ok || fd.Name.Name != "walkInternal" {
			continue
		}
		found = true
		// expected shape: switch n := node.(type) { case *T: stack = append(stack, &stackItem{...}) ... }; return stack
		// the body must be exactly: switch n := node.(type) {...}; return stack
		var sw *ast.TypeSwitchStmt
		if len(fd.Body.List) == 2 {
			if s, ok := fd.Body.List[0].(*ast.TypeSwitchStmt); ok {
				if r, ok := fd.Body.List[1].(*ast.ReturnStmt); ok && len(r.Results) == 1 {
					if id, ok := r.Results[0].(*ast.Ident); ok && id.Name == "stack" {
						sw = s
					}
				}
			}
		}
		if sw == nil {
			opaque("?walkInternal")
			break
		}
		bind := ""
		if as, ok := sw.Assign.(*ast.AssignStmt); ok {
			bind = as.Lhs[0].(*ast.Ident).Name
		}
		for _, cc := range sw.Body.List {
			c := cc.(*ast.CaseClause)
			for _, tyE := range c.List {
				ty := strings.TrimPrefix(typeString(tyE), "*")
				var pushes []string
				ok := true
				for _, st := range c.Body {
					p, good := walkPush(st, bind)
					if !good {
						ok = false
						break
					}
					pushes = append(pushes, p)
				}
				if c.List == nil || !ok || len(c.List) != 1 {
					opaque(ty)
				} else {
					rows = append(rows, fmt.Sprintf("  (%s, WPushes [%s])", q(ty), strings.Join(pushes, "; ")))
				}
			}
		}
	}
	_ = found
	var sb strings.Builder
	fmt.Fprintf(&sb, genHeader, "ast/walk_internal.go")
	sb.WriteString("Definition walk_impl : list (string * wbody) := [\n")
	sb.WriteString(strings.Join(rows, ";\n"))
	sb.WriteString("\n].\n")
	writeOut("WalkImpl.v", sb.String())
}

// stack = append(stack, &stackItem{node: wrapNode(n.F), visitor: v.Field("F")})   -> (F, false, "F")
// stack = append(stack, &stackItem{nodes: wrapNodes(n.F), visitor: v.Field("F")}) -> (F, true, "F")
func walkPush(st ast.Stmt, bind string) (string, bool) {
	as, ok := st.(*ast.AssignStmt)
	if !ok || len(as.Lhs) != 1 || len(as.Rhs) != 1 {
		return "", false
	}
	if id, ok := as.Lhs[0].(*ast.Ident); !ok || id.Name != "stack" {
		return "", false
	}
	call, ok := as.Rhs[0].(*ast.CallExpr)
	if !ok || len(call.Args) != 2 {
		return "", false
	}
	if fn, ok := call.Fun.(*ast.Ident); !ok || fn.Name != "append" {
		return "", false
	}
	if id, ok := call.Args[0].(*ast.Ident); !ok || id.Name != "stack" {
		return "", false
	}
	un, ok := call.Args[1].(*ast.UnaryExpr)
	if !ok || un.Op != token.AND {
		return "", false
	}
	cl, ok := un.X.(*ast.CompositeLit)
	if !ok || typeString(cl.Type) != "stackItem" || len(cl.Elts) != 2 {
		return "", false
	}
	field, many, label := "", false, ""
	seen := 0
	for _, el := range cl.Elts {
		kv, ok := el.(*ast.KeyValueExpr)
		if !ok {
			return "", false
		}
		k := kv.Key.(*ast.Ident).Name
		switch k {
		case "node", "nodes":
			c, ok := kv.Value.(*ast.CallExpr)
			if !ok || len(c.Args) != 1 {
				return "", false
			}
			fn, ok := c.Fun.(*ast.Ident)
			if !ok || (k == "node" && fn.Name != "wrapNode") || (k == "nodes" && fn.Name != "wrapNodes") {
				return "", false
			}
			f, ok := recvField(c.Args[0], bind)
			if !ok {
				return "", false
			}
			field, many = f, k == "nodes"
			seen++
		case "visitor":
			c, ok := kv.Value.(*ast.CallExpr)
			if !ok || len(c.Args) != 1 {
				return "", false
			}
			sel, ok := c.Fun.(*ast.SelectorExpr)
			if !ok || sel.Sel.Name != "Field" {
				return "", false
			}
			if x, ok := sel.X.(*ast.Ident); !ok || x.Name != "v" {
				return "", false
			}
			lit, ok := c.Args[0].(*ast.BasicLit)
			if !ok || lit.Kind != token.STRING {
				return "", false
			}
			label, _ = strconv.Unquote(lit.Value)
			seen++
		default:
			return "", false
		}
	}
	if seen != 2 {
		return "", false
	}
	m := "false"
	if many {
		m = "true"
	}
	return fmt.Sprintf("(%s, %s, %s)", q(field), m, q(label)), true
}
