REPLACE_FIELDS(
  NEW Book(
    "The Hummingbird" AS title,
    NEW BookDetails(10 AS chapters) AS details),
  "The Hummingbird II" AS title,
  11 AS details.chapters)