NEW googlesql.examples.music.Chart()
