NEW foo { bar: 1 + }
