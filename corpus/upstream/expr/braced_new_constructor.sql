-- Example from https://cloud.google.com/spanner/docs/reference/standard-sql/operators#new_operator
NEW Universe {
  name: "Sol"
  closest_planets: ["Mercury", "Venus", "Earth" ]
  star {
    radius_miles: 432690
    age: 4603000000
  }
  constellations: [{
    name: "Libra"
    index: 0
  }, {
    name: "Scorpio"
    index: 1
  }]
  all_planets: (SELECT planets FROM SolTable)
}