alter table foo drop constraint bar
