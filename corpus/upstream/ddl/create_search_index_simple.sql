-- no optional clauses
CREATE SEARCH INDEX AlbumsIndex
  ON Albums(AlbumTitle_Tokens)