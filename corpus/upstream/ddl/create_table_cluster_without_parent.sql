create table foo (
  foo int64,
  bar int64
) primary key (foo, bar),
  interleave in foobar
