CREATE CHANGE STREAM change_stream_name FOR table_name1, table_name2
