alter table foo add column if not exists baz string(max) not null
