CREATE TABLE sch1.ShoppingCarts (
  CartId INT64 NOT NULL,
  CustomerId INT64 NOT NULL,
  CustomerName STRING(MAX) NOT NULL,
  CONSTRAINT FKShoppingCartsCustomers FOREIGN KEY(CustomerId, CustomerName)
    REFERENCES sch1.Customers(CustomerId, CustomerName) ON DELETE CASCADE,
) PRIMARY KEY(CartId)