drop index foo_bar
