ALTER MODEL MyClassificationModel
SET OPTIONS (
    endpoints = [
        '//aiplatform.googleapis.com/projects/aaa/locations/tl/endpoints/aaa',
        '//aiplatform.googleapis.com/projects/aaa/locations/tl/endpoints/bbb'
    ],
    default_batch_size = 100
)