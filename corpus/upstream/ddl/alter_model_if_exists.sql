ALTER MODEL IF EXISTS MyClassificationModel
SET OPTIONS (
    endpoints = [
        '//aiplatform.googleapis.com/projects/aaa/locations/tl/endpoints/aaa',
        '//aiplatform.googleapis.com/projects/aaa/locations/tl/endpoints/bbb'
    ],
    default_batch_size = 100
)