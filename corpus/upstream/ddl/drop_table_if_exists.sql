drop table if exists foo
