create table if not exists foo (
  foo int64,
  bar float64 not null,
) primary key (foo, bar)
