ALTER SEQUENCE sch1.sequence
    SET OPTIONS (skip_range_min=1, skip_range_max=1234567)