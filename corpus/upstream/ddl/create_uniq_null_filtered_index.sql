create unique null_filtered index foo_bar on foo (foo)
