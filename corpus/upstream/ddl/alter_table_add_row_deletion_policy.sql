alter table foo add row deletion policy ( older_than ( bar, interval 30 day ))
