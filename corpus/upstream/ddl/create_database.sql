create database foo_bar_baz
