create index foo_bar on foo (
  foo desc
) storing (bar),
  interleave in foobar
