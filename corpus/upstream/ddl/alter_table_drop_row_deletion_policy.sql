alter table foo drop row deletion policy
