CREATE TABLE sch1.Singers (
    SingerId INT64 NOT NULL,
    FirstName STRING(1024),
    LastName STRING(1024),
    SingerInfo BYTES(MAX),
) PRIMARY KEY(SingerId)