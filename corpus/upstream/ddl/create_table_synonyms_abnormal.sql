-- It is still valid CREATE TABLE statement.
CREATE TABLE Singers (
    SYNONYM (Ignored),
    SingerId INT64 NOT NULL,
    SingerName STRING(1024),
    SYNONYM (Artists)
) PRIMARY KEY (SingerId)