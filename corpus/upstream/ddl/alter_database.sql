ALTER DATABASE dbname SET OPTIONS (
    optimizer_version=2,
    optimizer_statistics_package='auto_20191128_14_47_22UTC',
    version_retention_period='7d',
    enable_key_visualizer=true,
    default_leader='europe-west1'
  )