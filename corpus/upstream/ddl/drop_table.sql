drop table foo
