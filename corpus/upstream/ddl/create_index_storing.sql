create index foo_bar on foo (
  bar asc
) storing (foo, baz)
