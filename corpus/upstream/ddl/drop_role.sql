DROP ROLE hr_manager
