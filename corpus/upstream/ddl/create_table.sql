create table foo (
  foo int64,
  bar float64 not null,
  baz string(255) not null options(allow_commit_timestamp = null),
  qux string(255) not null as (concat(baz, "a")) stored,
  foreign key (foo) references t2 (t2key1),
  foreign key (bar) references t2 (t2key2) on delete cascade,
  foreign key (baz) references t2 (t2key3) on delete no action,
  constraint fkname foreign key (foo, bar) references t2 (t2key1, t2key2),
  constraint fkname2 foreign key (foo, bar) references t2 (t2key1, t2key2) on delete cascade enforced,
  constraint fkname3 foreign key (foo, bar) references t2 (t2key1, t2key2) not enforced,
  check (foo > 0),
  constraint cname check (bar > 0),
  quux json,
  corge timestamp not null default (current_timestamp())
) primary key (foo, bar)
