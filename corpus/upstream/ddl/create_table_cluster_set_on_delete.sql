create table foo (
  foo int64
) primary key (foo),
  interleave in parent foobar
             on delete cascade