alter index foo add stored column bar
