CREATE INDEX SingersByFirstLastName ON Singers(FirstName, LastName)
  OPTIONS (locality_group = 'spill_to_hdd')