create table foo (
  foo int64,
  bar int64,
  baz timestamp,
) primary key (),
  row deletion policy ( older_than ( baz, INTERVAL 30 DAY ) )
