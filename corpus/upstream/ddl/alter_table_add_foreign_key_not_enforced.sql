alter table foo add foreign key (bar) references t2 (t2key1) not enforced
