create index if not exists foo_bar on foo (bar)
