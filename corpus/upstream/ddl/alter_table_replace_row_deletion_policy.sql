alter table foo replace row deletion policy ( older_than ( bar, interval 30 day ))
