@{unknown_hint=1}
create table tbl(pk int64 primary key)