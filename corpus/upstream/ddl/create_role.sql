CREATE ROLE hr_manager
