alter table foo add constraint fkname foreign key (foo, bar) references t2 (t2key1, t2key2) on delete no action
