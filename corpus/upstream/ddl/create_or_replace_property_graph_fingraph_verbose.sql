CREATE OR REPLACE PROPERTY GRAPH FinGraph
  NODE TABLES (
    Account AS Account -- element_alias
      KEY (id) -- element_key in node_element_key in element_keys
      -- label_and_property_list
      LABEL DetailedAccount -- LABEL label_name in element_label
        PROPERTIES (create_time, is_blocked, nick_name AS name) -- derived_property_list
      DEFAULT LABEL -- DEFAULT LABEL in element_label
        NO PROPERTIES -- NO PROPERTIES in element_properties
    ,
    Person
      -- no element_keys
      -- no element_label because of direct element_properties
      PROPERTIES ARE ALL COLUMNS EXCEPT (city) -- properties_are
  )
  EDGE TABLES (
    PersonOwnAccount AS PersonOwnAccount
      KEY (id, account_id)
      SOURCE KEY (id) REFERENCES Person -- source_key without column_name_list
      DESTINATION KEY (account_id) REFERENCES Account -- destination_key without column_name_list
      LABEL Owns
        PROPERTIES ALL COLUMNS,
    AccountTransferAccount
      SOURCE KEY (id) REFERENCES Account (id) -- source_key
      DESTINATION KEY (to_id) REFERENCES Account (id) -- destination_key
      LABEL Transfers -- LABEL label_name in element_label
      -- without element_properties
  )