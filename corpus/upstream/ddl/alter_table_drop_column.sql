alter table foo drop column bar
