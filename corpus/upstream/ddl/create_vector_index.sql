CREATE VECTOR INDEX IF NOT EXISTS hello_vector_index ON hello(embedding)
OPTIONS(distance_type = 'COSINE')