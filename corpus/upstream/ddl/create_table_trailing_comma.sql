create table foo (
  foo int64,
  bar int64,
) primary key(
  foo asc,
  bar desc,
)
