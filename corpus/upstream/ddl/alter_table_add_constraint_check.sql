alter table foo add constraint cname check (c1 > 0)
