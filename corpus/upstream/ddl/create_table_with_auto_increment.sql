create table foo (
    id int64 not null auto_increment primary key
)
