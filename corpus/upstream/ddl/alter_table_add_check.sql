alter table foo add check (c1 > 0)
