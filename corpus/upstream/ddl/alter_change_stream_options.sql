ALTER CHANGE STREAM change_stream_name SET OPTIONS (retention_period = '1d', value_capture_type = 'OLD_AND_NEW_VALUES')
