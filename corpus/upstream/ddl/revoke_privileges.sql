REVOKE SELECT(name, level, location), UPDATE(location) ON TABLE employees, contractors FROM ROLE hr_manager, hr_member
