CREATE SEARCH INDEX AlbumsIndexFull
ON Albums(Title_Tokens, Studio_Tokens)
STORING(Genre)
PARTITION BY SingerId
ORDER BY ReleaseTimestamp DESC
WHERE Genre IS NOT NULL AND ReleaseTimestamp IS NOT NULL
, INTERLEAVE IN Singers
OPTIONS(sort_order_sharding=true)