drop index if exists foo_bar
