CREATE CHANGE STREAM change_stream_name FOR table_name
