CREATE TABLE Singers (
    SingerId INT64 NOT NULL,
    SingerName STRING(1024),
    SYNONYM (Artists)
) PRIMARY KEY (SingerId)