create table foo (
  foo int64,
  bar int64
) primary key (),
  interleave in parent foobar
