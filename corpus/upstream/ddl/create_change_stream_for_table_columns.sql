CREATE CHANGE STREAM change_stream_name FOR table_name(column1, column2)
