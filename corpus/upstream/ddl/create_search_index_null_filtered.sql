CREATE SEARCH INDEX AlbumsIndex
ON Albums(AlbumTitle_Tokens)
STORING(Genre)
WHERE Genre IS NOT NULL