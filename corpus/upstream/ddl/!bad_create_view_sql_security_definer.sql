create view singernames
sql security `definer`
as select
    singers.singerid as singerid,
    singers.firstname || ' ' || singers.lastname as name
from singers
