CREATE SEQUENCE sch1.sequence OPTIONS (
  sequence_kind = 'bit_reversed_positive'
)