REVOKE ROLE pii_access, pii_writter FROM ROLE hr_manager, hr_director
