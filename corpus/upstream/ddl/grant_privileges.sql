GRANT SELECT(name, level, location), UPDATE(location) ON TABLE employees, contractors TO ROLE hr_manager, hr_member
