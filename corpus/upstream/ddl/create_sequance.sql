CREATE SEQUENCE IF NOT EXISTS MySequence OPTIONS (
    sequence_kind='bit_reversed_positive',
    skip_range_min = 1,
    skip_range_max = 1000,
    start_with_counter = 50)
