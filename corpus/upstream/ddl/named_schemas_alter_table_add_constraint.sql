ALTER TABLE sch1.ShoppingCarts ADD CONSTRAINT FKShoppingCartsCustomers FOREIGN KEY(CustomerId, CustomerName)
    REFERENCES sch1.Customers(CustomerId, CustomerName) ON DELETE CASCADE