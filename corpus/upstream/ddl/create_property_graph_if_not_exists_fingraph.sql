CREATE PROPERTY GRAPH IF NOT EXISTS FinGraph
  NODE TABLES (
    Account,
    Person
  )
  EDGE TABLES (
    PersonOwnAccount
      SOURCE KEY (id) REFERENCES Person (id)
      DESTINATION KEY (account_id) REFERENCES Account (id)
      LABEL Owns,
    AccountTransferAccount
      SOURCE KEY (id) REFERENCES Account (id)
      DESTINATION KEY (to_id) REFERENCES Account (id)
      LABEL Transfers
  )