CREATE MODEL MyClassificationModel
INPUT (
  length FLOAT64,
  material STRING(MAX),
  tag_array ARRAY<STRING(MAX)>
)
OUTPUT (
  scores ARRAY<FLOAT64>,
  classes ARRAY<STRING(MAX)>
)
REMOTE
OPTIONS (
  endpoint = '//aiplatform.googleapis.com/projects/PROJECT/locations/LOCATION/endpoints/ENDPOINT_ID'
)