create table foo (
  foo int64,
  bar int64,
  baz timestamp,
) primary key (),
  interleave in parent foobar,
  row deletion policy ( older_than ( baz, INTERVAL 30 DAY ) )
