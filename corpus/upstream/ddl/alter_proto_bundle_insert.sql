ALTER PROTO BUNDLE INSERT (
  examples.shipping.OrderHistory
)