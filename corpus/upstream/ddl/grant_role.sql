GRANT ROLE pii_access, pii_writter TO ROLE hr_manager, hr_director
