-- If you're using a protocol buffer type and any part of the type name is a Spanner reserved keyword,
-- enclose the entire protocol buffer type name in backticks.
CREATE PROTO BUNDLE (
       `examples.shipping.Order`,
       `examples.shipping.Order.Address`,
       `examples.shipping.Order.Item`)