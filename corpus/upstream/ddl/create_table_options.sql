CREATE TABLE Singers (
  SingerId   INT64 NOT NULL,
  FirstName  STRING(1024),
  LastName   STRING(1024),
  Awards     ARRAY<STRING(MAX)> OPTIONS (locality_group = 'spill_to_hdd')
) PRIMARY KEY (SingerId), OPTIONS (locality_group = 'ssd_only')