CREATE VECTOR INDEX hello_vector_index ON hello(embedding)
WHERE embedding IS NOT NULL
OPTIONS(distance_type = 'COSINE')