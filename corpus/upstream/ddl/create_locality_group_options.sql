CREATE LOCALITY GROUP spill_to_hdd
OPTIONS (storage = 'ssd', ssd_to_hdd_spill_timespan = '10d')