DROP CHANGE STREAM change_stream_name
