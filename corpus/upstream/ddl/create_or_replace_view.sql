create or replace view singernames
sql security invoker
as select
    singers.singerid as singerid,
    singers.firstname || ' ' || singers.lastname as name
from singers
