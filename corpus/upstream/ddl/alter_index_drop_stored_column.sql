alter index foo drop stored column bar
