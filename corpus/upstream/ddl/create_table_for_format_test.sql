create table if not exists foo (
    foo int64,
    bar float64 not null,
    baz string(255) not null options(allow_commit_timestamp = null),
    qux string(255) not null as (concat(baz, "a")) stored,
    foreign key (foo) references t2 (t2key1),
    constraint fkname foreign key (foo, bar) references t2 (t2key1, t2key2),
    check (foo > 0),
    constraint cname check (bar > 0),
    corge timestamp not null default (current_timestamp())
) primary key (foo),
  interleave in parent foobar,
  row deletion policy ( older_than ( baz, INTERVAL 30 DAY ) )
