-- https://cloud.google.com/spanner/docs/full-text-search/search-indexes#search-index-schema-definitions
CREATE TABLE Albums (
                        AlbumId STRING(MAX) NOT NULL,
                        SingerId INT64 NOT NULL,
                        ReleaseTimestamp INT64 NOT NULL,
                        AlbumTitle STRING(MAX),
                        Rating FLOAT64,
                        AlbumTitle_Tokens TOKENLIST AS (TOKENIZE_FULLTEXT(AlbumTitle)) HIDDEN,
                        Rating_Tokens TOKENLIST AS (TOKENIZE_NUMBER(Rating)) HIDDEN
) PRIMARY KEY(AlbumId)