CREATE OR REPLACE MODEL GeminiPro
INPUT (prompt STRING(MAX))
OUTPUT (content STRING(MAX))
REMOTE OPTIONS (
  endpoint = '//aiplatform.googleapis.com/projects/fake-project/locations/asia-northeast1/publishers/google/models/gemini-pro',
  default_batch_size = 1
)