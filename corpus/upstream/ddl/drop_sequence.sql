DROP SEQUENCE my_sequence
