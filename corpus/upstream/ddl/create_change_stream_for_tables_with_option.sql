CREATE CHANGE STREAM change_stream_name FOR table_name1(column1, column2), table_name2(column1, column2)
OPTIONS(retention_period = '1d')
