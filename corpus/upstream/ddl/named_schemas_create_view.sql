CREATE VIEW sch1.SingerView SQL SECURITY INVOKER
AS Select s.FirstName, s.LastName, s.SingerInfo
   FROM sch1.Singers AS s WHERE s.SingerId = 123456