create index foo_bar on foo (
  bar desc,
  baz asc,
)
