-- https://github.com/google/zetasql/blob/a516c6b26d183efc4f56293256bba92e243b7a61/zetasql/parser/testdata/call.test#L15C1-L15C26
call schema.myprocedure()