@{unknown_hint=1}
CALL cancel_query("12345")