FROM Singers
|> WHERE FirstName = "John"
|> SELECT DISTINCT *