-- https://cloud.google.com/spanner/docs/ml-tutorial-generative-ai?hl=en#register_a_generative_ai_model_in_a_schema
SELECT content
FROM ML.PREDICT(
    MODEL TextBison,
    (SELECT "Is 13 prime?" AS prompt),
    STRUCT(256 AS maxOutputTokens, 0.2 AS temperature, 40 as topK, 0.95 AS topP)
) @{remote_udf_max_rows_per_rpc=1}