SELECT
  S.*,
  S.SingerId as ID,
  S.FirstName
FROM Singers S
