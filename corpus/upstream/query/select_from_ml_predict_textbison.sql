SELECT product_id, product_name, content
FROM ML.PREDICT(
    MODEL TextBison,
    (SELECT
         product.id as product_id,
         product.name as product_name,
         CONCAT("Is this product safe for infants?", "\n",
                "Product Name: ", product.name, "\n",
                "Category Name: ", category.name, "\n",
                "Product Description:", product.description) AS prompt
     FROM
         Products AS product JOIN Categories AS category
                                  ON product.category_id = category.id),
    STRUCT(100 AS maxOutputTokens)
) @{remote_udf_max_rows_per_rpc=1}