( SELECT * FROM Singers )
