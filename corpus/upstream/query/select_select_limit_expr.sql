select ((select 1) limit 1 offset 0) + 3
