SELECT
  *
FROM
  Singers
ORDER BY
  FirstName,
  LastName COLLATE "en_US",
  BirthDate DESC