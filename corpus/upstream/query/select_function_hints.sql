-- https://cloud.google.com/spanner/docs/reference/standard-sql/functions-reference#function_hints
SELECT
    SUBSTRING(CAST(x AS STRING), 2, 5) AS w,
    SUBSTRING(CAST(x AS STRING), 3, 7) AS y
FROM (SELECT SHA512(z) @{DISABLE_INLINE = TRUE} AS x FROM t)