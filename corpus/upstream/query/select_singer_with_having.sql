SELECT
  SingerID
FROM
  Singers
GROUP BY
  SingerID
HAVING
  SingerID = 1
