SELECT a, off
FROM UNNEST([STRUCT<arr ARRAY<STRING>>(["foo"])]) AS t,
     t.arr AS a WITH OFFSET AS off