SELECT
  *
FROM
  ComplexTable,
  ComplexTable.IntArray
