SELECT
  *
FROM
  Singers@{FORCE_INDEX=SingersByFirstLastName}
