select count(*) from singers
