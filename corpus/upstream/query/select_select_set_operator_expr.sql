select ((select 1) union all (select 2)) + 3,
       ((select 1) intersect all (select 1)) + 3,
       ((select 1) except all (select 1)) + 3
