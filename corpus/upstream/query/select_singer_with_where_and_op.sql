SELECT
  *
FROM
  Singers
WHERE
  SingerID = 1 OR FirstName = "foobar" AND LastName = "fizzbuzz"
