SELECT
  SingerId AS ID,
  FirstName,
  LastName,
  SingerInfo,
  BirthDate
FROM Singers
