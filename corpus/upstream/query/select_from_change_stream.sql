SELECT ChangeRecord FROM READ_SingersNameStream (
  start_timestamp => "2022-05-01T09:00:00Z",
  end_timestamp => NULL,
  partition_token => NULL,
  heartbeat_milliseconds => 10000
)