SELECT
  *
FROM
  Singers A
  CROSS JOIN
  Singers B
