SELECT
  *
FROM
  Singers
WHERE
  SingerID = 1
  OR SingerID < 1
  OR SingerID > 1
  OR SingerID <= 1
  OR SingerID >= 1
  OR SingerID != 1
  OR SingerID IN (1, 2, 3)
  OR SingerID NOT IN (1, 2, 3)
  OR SingerID BETWEEN 1 AND 3
  OR SingerID NOT BETWEEN 1 AND 3
  OR FirstName LIKE "%a"
  OR FirstName NOT LIKE "%a"
  OR NULL IS NULL
  OR NULL IS NOT NULL
  OR (SingerID = 1) IS TRUE
  OR (SingerID = 1) IS NOT TRUE
  OR (SingerID = 1) IS FALSE
  OR (SingerID = 1) IS NOT FALSE
