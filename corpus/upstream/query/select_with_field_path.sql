SELECT
  A.x,
  A.y,
  A.z.a,
  A.z.b
FROM
  UNNEST(
    ARRAY(
      SELECT AS STRUCT
        x,
        y,
        z
      FROM
        UNNEST(ARRAY<STRUCT<x INT64, y STRING, z STRUCT<a INT64, b INT64>>>[(1, 'foo', (2, 3)), (3, 'bar', (4, 5))])
    )
  ) AS A
WHERE A.z.a = 2
