-- https://cloud.google.com/spanner/docs/reference/standard-sql/query-syntax#correlated_join
SELECT A.name, item
FROM
  UNNEST(
    [
      STRUCT(
        'first' AS name,
        [1, 2, 3, 4] AS items),
      STRUCT(
          'second' AS name,
        [] AS items)]) AS A
    INNER JOIN
  A.items AS item
