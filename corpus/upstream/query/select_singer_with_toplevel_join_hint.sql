@{FORCE_JOIN_ORDER=TRUE}
SELECT
  *
FROM
  Singers A
  LEFT OUTER JOIN
  Singers B
  ON A.SingerID = B.SingerID
