SELECT (
  SELECT FirstName
  FROM Singers LIMIT 100
)
