with subq1 as (select c1 from foo), subq2 as (select c2 from foo) select * from subq1
