select 1 + 2, 1 - 2,
       1 * 2, 2 / 2,
       +1++1, -1+-1,
       +1.2, -3.4,
       ~1 ^ ~1,
       1 ^ 2, 2 & 1, 2 | 1,
       1 << 2, 2 >> 1,
       foo.bar * +foo.bar * -foo.bar,
       (select 1 `1`).1,
       NOT NOT true,
       [1, 2, 3][offset(1)],
       [1, 2, 3][`offset`(1)],
       [1, 2, 3][ordinal(1)],
       case
       when 1 = 1 then "1 = 1"
       else            "else"
       end,
       case 1
       when 1 then "1"
       when 2 then "2"
       else        "other"
       end,
       date_add(date "2019-09-01", interval 5 day),
       timestamp_add(timestamp "2019-09-01 08:11:22", interval 5 hour),
       1 in (1, 2, 3),
       2 in unnest([1, 2, 3]),
       3 in (select 1 union all select 2 union all select 3),
       [1] || [2],
       IF (1 > 1, 1, 2)+1 AS result,
