-- https://cloud.google.com/spanner/docs/full-text-search/ranked-search#score_multiple_columns
SELECT AlbumId
FROM Albums
WHERE SEARCH(Title_Tokens, @p1) AND SEARCH(Studio_Tokens, @p2)
ORDER BY WITH(
  TitleScore AS SCORE(Title_Tokens, @p1) * @titleweight,
  StudioScore AS SCORE(Studio_Tokens, @p2) * @studioweight,
  DaysOld AS (UNIX_MICROS(CURRENT_TIMESTAMP()) - ReleaseTimestamp) / 8.64e+10,
  FreshnessBoost AS (1 + @freshnessweight * GREATEST(0, 30 - DaysOld) / 30),
  PopularityBoost AS (1 + IF(HasGrammy, @grammyweight, 0)),
  (TitleScore + StudioScore) * FreshnessBoost * PopularityBoost)
LIMIT 2