select *
from (
    (((select 1 A union all (select 2)) union distinct (select 1)) limit 1)
  JOIN
    (select 1 A, 2 B) USING (A)
)
