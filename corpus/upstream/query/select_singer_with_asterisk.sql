SELECT
  *
FROM
  Singers
