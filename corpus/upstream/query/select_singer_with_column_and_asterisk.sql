SELECT
  SingerId,
  *
FROM
  Singers
