SELECT
  *
FROM
  Singers A
  JOIN
  Singers B
  ON A.SingerID = B.SingerID
  INNER JOIN
  Singers C
  ON A.SingerID = C.SingerID
  CROSS JOIN
  Singers D
  FULL JOIN
  Singers E
  ON A.SingerID = E.SingerID
  FULL OUTER JOIN
  Singers F
  ON A.SingerID = F.SingerID
  LEFT JOIN
  Singers G
  ON A.SingerID = G.SingerID
  LEFT OUTER JOIN
  Singers H
  ON A.SingerID = H.SingerID
  RIGHT JOIN
  Singers I
  ON A.SingerID = I.SingerID
  RIGHT OUTER JOIN
  Singers J
  ON A.SingerID = J.SingerID
