@ select 1
