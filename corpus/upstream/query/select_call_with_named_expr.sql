SELECT a.AlbumId, a.Description
FROM Albums a
WHERE a.SingerId = 1 AND SEARCH(a.DescriptionTokens, 'classic albums', enhance_query => TRUE)