SELECT
  *
FROM
  Singers
WHERE
  SingerId IN UNNEST(ARRAY[1, 2, 3])
