-- original: https://cloud.google.com/spanner/docs/reference/standard-sql/net_functions#nethost
SELECT
  FORMAT("%T", input) AS input,
  description,
  FORMAT("%T", NET.HOST(input)) AS host,
  FORMAT("%T", NET.PUBLIC_SUFFIX(input)) AS suffix,
  FORMAT("%T", NET.REG_DOMAIN(input)) AS domain,
  FORMAT("%T", SAFE.NET.HOST(input)) AS safe_host,
  FORMAT("%T", SAFE.NET.PUBLIC_SUFFIX(input)) AS safe_suffix,
  FORMAT("%T", SAFE.NET.REG_DOMAIN(input)) AS safe_domain
FROM (
    SELECT "" AS input, "invalid input" AS description
    UNION ALL SELECT "http://abc.xyz", "standard URL"
    UNION ALL SELECT "//user:password@a.b:80/path?query",
    "standard URL with relative scheme, port, path and query, but no public suffix"
    UNION ALL SELECT "https://[::1]:80", "standard URL with IPv6 host"
    UNION ALL SELECT "http://例子.卷筒纸.中国", "standard URL with internationalized domain name"
    UNION ALL SELECT "    www.Example.Co.UK    ",
    "non-standard URL with spaces, upper case letters, and without scheme"
    UNION ALL SELECT "mailto:?to=&subject=&body=", "URI rather than URL--unsupported"
)
