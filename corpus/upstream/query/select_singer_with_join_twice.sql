SELECT
  *
FROM
  Singers A
  JOIN
  Singers B
  ON A.SingerID = B.SingerID
  INNER JOIN
  Singers C
  ON A.SingerID = C.SingerID
