SELECT
  *
FROM
  Singers A
  LEFT OUTER JOIN@{FORCE_JOIN_ORDER=TRUE}
  Singers B
  ON A.SingerID = B.SingerID
  JOIN@{JOIN_TYPE=HASH_JOIN}
  Singers C
  ON A.SingerID = C.SingerID
  JOIN@{JOIN_TYPE=APPLY_JOIN}
  Singers D
  ON A.SingerID = D.SingerID
  JOIN@{JOIN_TYPE=LOOP_JOIN}
  Singers E
  ON A.SingerID = E.SingerID
