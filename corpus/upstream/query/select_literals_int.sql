SELECT
  123,
  0xABC,
  -123,
  -0xABC
