SELECT
  *
FROM
  Singers
WHERE
  SingerID = @singerID
  AND @singerID = SingerID
