select
