SELECT
  ARRAY(
    (
      SELECT AS STRUCT
        *
      FROM Singers LIMIT 100
    )
  )
