SELECT id, color, value
FROM ML.PREDICT(MODEL DiamondAppraise, TABLE Diamonds)