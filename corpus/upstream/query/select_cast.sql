select cast(1 as INT64), cast(0.1 as float32), cast((struct(), 1, [2, 3], ["4", "5"]) as struct<struct<>, x int64, y array<int64>, z array<string>>)
from x tablesample BERNOULLI (cast(0.1 as float64) percent),
     y tablesample BERNOULLI (cast(1 as int64) rows),
     z tablesample BERNOULLI (cast(@param as int64) rows)
limit cast(1 as INT64) offset cast(@foo as INT64)
