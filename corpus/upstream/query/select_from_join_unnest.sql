-- https://cloud.google.com/spanner/docs/reference/standard-sql/query-syntax#correlated_join
SELECT *
FROM
  Roster
    JOIN
  UNNEST(
      ARRAY(
        SELECT AS STRUCT *
      FROM PlayerStats
      WHERE PlayerStats.OpponentID = Roster.SchoolID
    )) AS PlayerMatches
  ON PlayerMatches.LastName = 'Buchanan'
