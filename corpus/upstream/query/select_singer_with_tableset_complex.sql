SELECT * FROM Singers
UNION ALL
(
  SELECT * FROM Singers
  UNION DISTINCT
  (
    SELECT * FROM Singers
    INTERSECT ALL
    (
      SELECT * FROM Singers
      INTERSECT DISTINCT
      (
        SELECT * FROM Singers
        EXCEPT ALL
        (
          SELECT * FROM Singers
          EXCEPT DISTINCT
          SELECT * FROM Singers
        )
      )
    )
  )
)
