-- foobar
select 1
