SELECT
  *
FROM
  Singers
WHERE
  SingerId IN UNNEST(@singerIDs)
