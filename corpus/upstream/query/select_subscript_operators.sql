select
    [1, 2, 3][offset(1)],
    [1, 2, 3][ordinal(1)],
    [1, 2, 3][safe_offset(1)],
    [1, 2, 3][ordinal(1)],
    [1, 2, 3][1],
    STRUCT(1, 2, 3)[offset(1)],
    STRUCT(1, 2, 3)[ordinal(1)],
    STRUCT(1, 2, 3)[safe_offset(1)],
    STRUCT(1, 2, 3)[ordinal(1)],
    STRUCT(1, 2, 3)[1],
    JSON '[1, 2, 3]'[1],
    JSON '{"a": 1, "b": 2, "c": 3}'['a']
