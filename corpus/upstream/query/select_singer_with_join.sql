SELECT
  *
FROM
  Singers A
  LEFT OUTER JOIN
  Singers B
  ON A.SingerID = B.SingerID
