-- https://cloud.google.com/spanner/docs/reference/standard-sql/operators#with_expression
SELECT WITH(a AS '123',       -- a is '123'
    b AS CONCAT(a, '456'),    -- b is '123456'
    c AS '789',               -- c is '789'
    CONCAT(b, c)) AS result   -- b + c is '123456789'