SELECT
  *
FROM
  Singers A
  HASH JOIN
  Singers B
  ON A.SingerID = B.SingerID