SELECT
  *
FROM
  Singers A
  LEFT OUTER JOIN
  Singers B
  USING (SingerID, FirstName)
