SELECT AlbumId, AlbumTitle, MarketingBudget
FROM Albums@{FORCE_INDEX=AlbumsByAlbumTitle}
WHERE AlbumTitle >= @startTitle AND AlbumTitle < @endTitle
