SELECT s.SingerId, s.FirstName, s.LastName FROM Singers AS s
JOIN
(SELECT SingerId FROM Albums WHERE MarketingBudget > 100000 FOR UPDATE) AS a
ON a.SingerId = s.SingerId
