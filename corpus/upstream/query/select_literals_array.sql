SELECT
  [1, 2, 3],
  ['x', 'y', 'xy'],
  ARRAY[1, 2, 3],
  ARRAY<string>['x', 'y', 'xy'],
  ARRAY<int64>[]
