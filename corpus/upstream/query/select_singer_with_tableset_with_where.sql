SELECT * FROM Singers
UNION ALL
SELECT * FROM Singers
WHERE
  SingerId = 1
ORDER BY
  FirstName
