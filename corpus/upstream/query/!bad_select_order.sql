select 1 order x asc
