SELECT
  *
FROM
  ComplexTable,
  UNNEST(ComplexTable.IntArray)
