select 1 A
