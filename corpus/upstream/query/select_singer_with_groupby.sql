SELECT
  FirstName, BirthDate
FROM
  Singers
GROUP BY
  FirstName, BirthDate
