SELECT
  *
FROM
  UNNEST(ARRAY<STRUCT<x INT64, y STRING>>[(1, 'foo'), (3, 'bar')])
