FROM Singers
|> SELECT ALL *