SELECT
  *
FROM (
  SELECT
    *
  FROM
    Singers
  WHERE
    SingerID = 1
) as S
