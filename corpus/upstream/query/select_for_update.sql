SELECT MarketingBudget
FROM Albums
WHERE SingerId = 1 and AlbumId = 1
FOR UPDATE