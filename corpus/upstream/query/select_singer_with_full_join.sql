SELECT
  *
FROM
  Singers AS A,
  Singers AS B
