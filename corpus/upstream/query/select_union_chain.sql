(select 1) union all (select 2) union all (select 3)
