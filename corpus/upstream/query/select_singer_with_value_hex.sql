SELECT
  *
FROM
  Singers
WHERE
  SingerID = 0xF
