@{hint1 = 1} with subq1 as (select c1 from foo) select * from subq1
