SELECT SAFE.SUBSTR('foo', 0, -2) AS safe_output UNION ALL
SELECT SAFE.SUBSTR('bar', 0, 2) AS safe_output