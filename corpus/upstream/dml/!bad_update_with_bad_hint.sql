@{invalid}
update foo set foo = bar, bar = foo, baz = DEFAULT where foo = 1
