insert foo (foo, bar)
select * from unnest([(1, 2), (3, 4)])