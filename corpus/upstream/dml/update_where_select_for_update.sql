update Albums set MarketingBudget = MarketingBudget + 100
where (SingerId, AlbumId) = (select as struct SingerId, AlbumId from Albums where AlbumTitle like "A%" for update)