@{pdml_max_parallelism=1}
update foo@{force_index=_base_table} set foo = bar, bar = foo, baz = DEFAULT where foo = 1