@{pdml_max_parallelism=1}
insert into foo@{force_index=_base_table} (foo, bar, baz)
values (1, 2, 3),
       (4, 5, 6)