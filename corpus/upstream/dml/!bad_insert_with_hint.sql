@{pdml_max_parallelism=1}
insert foo (foo, bar, baz)
vales (1, 2, 3),
      (4, 5, 6)