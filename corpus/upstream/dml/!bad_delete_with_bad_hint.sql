@{invalid}
delete foo where foo = 1 and bar = 2