insert into foo (foo, bar, baz)
values (1, 2, 3),
       (4, 5, 6)