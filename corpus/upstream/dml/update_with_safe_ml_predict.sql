-- https://cloud.google.com/spanner/docs/backfill-embeddings?hl=en#backfill
UPDATE products
SET
    products.desc_embed = (
        SELECT embeddings.values
        FROM SAFE.ML.PREDICT(
                MODEL gecko_model,
                (SELECT products.description AS content)
             ) @{remote_udf_max_rows_per_rpc=200}
    ),
    products.desc_embed_model_version = 3
WHERE products.desc_embed IS NULL