insert foo (foo, bar)
values (1, default)