@{pdml_max_parallelism=1}
delete foo filter foo = 1 and bar = 2