@{pdml_max_parallelism=1}
update foo set invalid where foo = 1