insert foo (foo, bar)
with cte AS (select 1 as foo, 2 as bar)
select *