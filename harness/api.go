package main

import (
	"fmt"

	"github.com/cloudspannerecosystem/memefish"
	"github.com/cloudspannerecosystem/memefish/ast"
)

// parseResult is what one public entry point returned (or how it died).
type parseResult struct {
	nodes    []ast.Node // returned node(s); nil entries preserved
	err      error
	panicked bool
	panicVal string
}

type entryPoint struct {
	name string
	list bool
	fn   func(path, s string) ([]ast.Node, error)
}

func one[T ast.Node](n T, err error) ([]ast.Node, error) { return []ast.Node{n}, err }
func many[T ast.Node](ns []T, err error) ([]ast.Node, error) {
	out := make([]ast.Node, len(ns))
	for i, n := range ns {
		out[i] = n
	}
	return out, err
}

var entryPoints = []entryPoint{
	{"ParseStatement", false, func(p, s string) ([]ast.Node, error) { return one(memefish.ParseStatement(p, s)) }},
	{"ParseStatements", true, func(p, s string) ([]ast.Node, error) { return many(memefish.ParseStatements(p, s)) }},
	{"ParseQuery", false, func(p, s string) ([]ast.Node, error) { return one(memefish.ParseQuery(p, s)) }},
	{"ParseExpr", false, func(p, s string) ([]ast.Node, error) { return one(memefish.ParseExpr(p, s)) }},
	{"ParseType", false, func(p, s string) ([]ast.Node, error) { return one(memefish.ParseType(p, s)) }},
	{"ParseDDL", false, func(p, s string) ([]ast.Node, error) { return one(memefish.ParseDDL(p, s)) }},
	{"ParseDDLs", true, func(p, s string) ([]ast.Node, error) { return many(memefish.ParseDDLs(p, s)) }},
	{"ParseDML", false, func(p, s string) ([]ast.Node, error) { return one(memefish.ParseDML(p, s)) }},
	{"ParseDMLs", true, func(p, s string) ([]ast.Node, error) { return many(memefish.ParseDMLs(p, s)) }},
}

func entryByName(name string) *entryPoint {
	for i := range entryPoints {
		if entryPoints[i].name == name {
			return &entryPoints[i]
		}
	}
	return nil
}

func callEntry(e *entryPoint, path, s string) (res parseResult) {
	defer func() {
		if r := recover(); r != nil {
			res.panicked = true
			res.panicVal = fmt.Sprintf("%T: %v", r, r)
		}
	}()
	res.nodes, res.err = e.fn(path, s)
	return
}

// allErrors flattens the error value of any public function into its *Error elements.
func allErrors(err error) []*memefish.Error {
	switch e := err.(type) {
	case nil:
		return nil
	case memefish.MultiError:
		return []*memefish.Error(e)
	case *memefish.Error:
		return []*memefish.Error{e}
	}
	return nil
}
