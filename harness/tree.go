package main

import (
	"fmt"
	"reflect"
	"strings"

	"github.com/cloudspannerecosystem/memefish/ast"
	"github.com/cloudspannerecosystem/memefish/token"
)

var (
	nodeIface  = reflect.TypeOf((*ast.Node)(nil)).Elem()
	posType    = reflect.TypeOf(token.Pos(0))
	tokPtrType = reflect.TypeOf((*token.Token)(nil))
)

// posMode: how positions are rendered in a dump
const (
	posExact    = 0 // the number
	posValidity = 1 // "+" valid, "-" invalid  (equality "up to position values")
)

func isNilNode(n ast.Node) bool {
	if n == nil {
		return true
	}
	v := reflect.ValueOf(n)
	return v.Kind() == reflect.Ptr && v.IsNil()
}

func typeName(n ast.Node) string {
	t := reflect.TypeOf(n)
	if t.Kind() == reflect.Ptr {
		t = t.Elem()
	}
	return t.Name()
}

// dumpNode renders the universal tree of n: (Type field...) with fields in declaration order.
// shift is added to every valid position (used by C11).
func dumpNode(n ast.Node, mode int, shift int) string {
	var sb strings.Builder
	dumpValue(&sb, reflect.ValueOf(n), mode, shift)
	return sb.String()
}

func dumpNodes(ns []ast.Node, mode int, shift int) string {
	var sb strings.Builder
	sb.WriteString("[")
	for i, n := range ns {
		if i > 0 {
			sb.WriteString(" ")
		}
		if isNilNode(n) {
			sb.WriteString("nil")
		} else {
			dumpValue(&sb, reflect.ValueOf(n), mode, shift)
		}
	}
	sb.WriteString("]")
	return sb.String()
}

func dumpPos(sb *strings.Builder, p int, mode int, shift int) {
	switch {
	case mode == posValidity && p < 0:
		sb.WriteString("P-")
	case mode == posValidity:
		sb.WriteString("P+")
	case p < 0:
		fmt.Fprintf(sb, "P%d", p)
	default:
		fmt.Fprintf(sb, "P%d", p+shift)
	}
}

func dumpValue(sb *strings.Builder, v reflect.Value, mode int, shift int) {
	switch v.Kind() {
	case reflect.Interface:
		if v.IsNil() {
			sb.WriteString("nil")
			return
		}
		dumpValue(sb, v.Elem(), mode, shift)
	case reflect.Ptr:
		if v.IsNil() {
			sb.WriteString("nil")
			return
		}
		if v.Type() == tokPtrType {
			t := v.Interface().(*token.Token)
			fmt.Fprintf(sb, "(tok %s %s %s ", hx(string(t.Kind)), hx(t.Raw), hx(t.AsString))
			dumpPos(sb, int(t.Pos), mode, shift)
			sb.WriteString(" ")
			dumpPos(sb, int(t.End), mode, shift)
			if mode == posExact {
				// does anything (whitespace or comments) separate this token from the previous one?  (read by BadNode.SQL)
				if len(t.Space) > 0 || len(t.Comments) > 0 {
					sb.WriteString(" B1")
				} else {
					sb.WriteString(" B0")
				}
			}
			sb.WriteString(")")
			return
		}
		dumpValue(sb, v.Elem(), mode, shift)
	case reflect.Struct:
		sb.WriteString("(")
		sb.WriteString(v.Type().Name())
		for i := 0; i < v.NumField(); i++ {
			sb.WriteString(" ")
			dumpValue(sb, v.Field(i), mode, shift)
		}
		sb.WriteString(")")
	case reflect.Slice:
		if v.Type().Elem().Kind() == reflect.Uint8 {
			fmt.Fprintf(sb, "S%s", hx(string(v.Bytes())))
			return
		}
		sb.WriteString("[")
		for i := 0; i < v.Len(); i++ {
			if i > 0 {
				sb.WriteString(" ")
			}
			dumpValue(sb, v.Index(i), mode, shift)
		}
		sb.WriteString("]")
	case reflect.Bool:
		if v.Bool() {
			sb.WriteString("B1")
		} else {
			sb.WriteString("B0")
		}
	case reflect.Int, reflect.Int64, reflect.Int32:
		if v.Type() == posType {
			dumpPos(sb, int(v.Int()), mode, shift)
		} else {
			fmt.Fprintf(sb, "I%d", v.Int())
		}
	case reflect.String:
		fmt.Fprintf(sb, "S%s", hx(v.String()))
	default:
		fmt.Fprintf(sb, "?%s", v.Kind())
	}
}

// childRef is one node-typed child reached through an exported field (and slice index).
type childRef struct {
	field  string
	index  int // -1 for a single node field
	node   ast.Node
	static reflect.Type // static type of the field (element type for slices)
}

// childrenOf lists the non-nil node children of n in field-declaration order (reflection, independent
// of ast/walk_internal.go).  emptySlices: also reports node-typed slice fields (with index -2, node nil).
func childrenOf(n ast.Node, withSlices bool) []childRef {
	var out []childRef
	v := reflect.ValueOf(n)
	if v.Kind() == reflect.Ptr {
		if v.IsNil() {
			return nil
		}
		v = v.Elem()
	}
	if v.Kind() != reflect.Struct {
		return nil
	}
	t := v.Type()
	for i := 0; i < v.NumField(); i++ {
		f := v.Field(i)
		ft := t.Field(i)
		if !ft.IsExported() {
			continue
		}
		switch f.Kind() {
		case reflect.Ptr, reflect.Interface:
			if !f.Type().Implements(nodeIface) {
				continue
			}
			if f.IsNil() {
				continue
			}
			c, ok := f.Interface().(ast.Node)
			if !ok || isNilNode(c) {
				continue
			}
			out = append(out, childRef{ft.Name, -1, c, f.Type()})
		case reflect.Slice:
			et := f.Type().Elem()
			if !et.Implements(nodeIface) {
				continue
			}
			if withSlices {
				out = append(out, childRef{ft.Name, -2, nil, et})
			}
			for j := 0; j < f.Len(); j++ {
				e := f.Index(j)
				if (e.Kind() == reflect.Ptr || e.Kind() == reflect.Interface) && e.IsNil() {
					continue
				}
				c, ok := e.Interface().(ast.Node)
				if !ok || isNilNode(c) {
					continue
				}
				out = append(out, childRef{ft.Name, j, c, et})
			}
		}
	}
	return out
}

// nodeInfo is a node with its parent link, for whole-tree oracles.
type nodeInfo struct {
	node   ast.Node
	parent int
	ref    childRef
	depth  int
}

func allNodes(roots []ast.Node) []nodeInfo {
	var out []nodeInfo
	var rec func(n ast.Node, parent int, ref childRef, depth int)
	rec = func(n ast.Node, parent int, ref childRef, depth int) {
		if isNilNode(n) || depth > 5000 {
			return
		}
		me := len(out)
		out = append(out, nodeInfo{n, parent, ref, depth})
		for _, c := range childrenOf(n, false) {
			rec(c.node, me, c, depth+1)
		}
	}
	for i, r := range roots {
		rec(r, -1, childRef{"root", i, r, nil}, 0)
	}
	return out
}

func isBad(n ast.Node) bool {
	switch n.(type) {
	case *ast.BadNode, *ast.BadStatement, *ast.BadQueryExpr, *ast.BadExpr, *ast.BadType, *ast.BadDDL, *ast.BadDML:
		return true
	}
	return false
}

// firstDiff returns a description of the first structural difference between two values
// ("" when equal), comparing positions by validity only when mode == posValidity.
func firstDiff(a, b reflect.Value, mode int, path string) string {
	for a.Kind() == reflect.Interface || a.Kind() == reflect.Ptr {
		if a.IsNil() {
			break
		}
		if a.Type() == tokPtrType {
			break
		}
		a = a.Elem()
	}
	for b.Kind() == reflect.Interface || b.Kind() == reflect.Ptr {
		if b.IsNil() {
			break
		}
		if b.Type() == tokPtrType {
			break
		}
		b = b.Elem()
	}
	an := (a.Kind() == reflect.Interface || a.Kind() == reflect.Ptr) && a.IsNil()
	bn := (b.Kind() == reflect.Interface || b.Kind() == reflect.Ptr) && b.IsNil()
	if an || bn {
		if an != bn {
			return path + ":nil-vs-node"
		}
		return ""
	}
	if a.Type() != b.Type() {
		return fmt.Sprintf("%s:type %s vs %s", path, a.Type(), b.Type())
	}
	switch a.Kind() {
	case reflect.Struct:
		for i := 0; i < a.NumField(); i++ {
			if d := firstDiff(a.Field(i), b.Field(i), mode, a.Type().Name()+"."+a.Type().Field(i).Name); d != "" {
				return d
			}
		}
	case reflect.Slice:
		if a.Type().Elem().Kind() == reflect.Uint8 {
			if string(a.Bytes()) != string(b.Bytes()) {
				return path
			}
			return ""
		}
		if a.Len() != b.Len() {
			return path + ":len"
		}
		for i := 0; i < a.Len(); i++ {
			if d := firstDiff(a.Index(i), b.Index(i), mode, path); d != "" {
				return d
			}
		}
	case reflect.Ptr: // *token.Token
		var sa, sb strings.Builder
		dumpValue(&sa, a, mode, 0)
		dumpValue(&sb, b, mode, 0)
		if sa.String() != sb.String() {
			return path
		}
	case reflect.Bool:
		if a.Bool() != b.Bool() {
			return path
		}
	case reflect.Int, reflect.Int64, reflect.Int32:
		if a.Type() == posType && mode == posValidity {
			if (a.Int() < 0) != (b.Int() < 0) {
				return path + ":validity"
			}
			return ""
		}
		if a.Int() != b.Int() {
			return path
		}
	case reflect.String:
		if a.String() != b.String() {
			return path
		}
	}
	return ""
}

func nodesDiff(a, b []ast.Node, mode int) string {
	if len(a) != len(b) {
		return "result:len"
	}
	for i := range a {
		if d := firstDiff(reflect.ValueOf(a[i]), reflect.ValueOf(b[i]), mode, "root"); d != "" {
			return d
		}
	}
	return ""
}
