package main

import (
	"fmt"
	"strings"
	"unicode"
	"unicode/utf8"

	"github.com/cloudspannerecosystem/memefish"
	"github.com/cloudspannerecosystem/memefish/token"
)

// Implementation-level oracles over byte strings: the property text evaluated on the real lexer.
// Each returns "" when the property holds on s and a short reason otherwise.
var lexOracles = map[string]func(s string) string{
	"c13": oracleC13,
}

func init() {
	commands["lex-prop"] = func(args []string) {
		o := lexOracles[args[0]]
		n := 0
		stdinLines(func(line string) {
			s := unhx(strings.TrimSpace(line))
			n++
			if why := o(s); why != "" {
				fmt.Fprintf(out, "FAIL %s %s\n", hx(s), why)
			}
		})
		fmt.Fprintf(out, "DONE %d\n", n)
	}
}

// lexPublic runs the public NextToken loop; ok=false when the lexer rejects the input.
func lexPublic(s string) (toks []token.Token, ok bool, panicked string) {
	defer func() {
		if r := recover(); r != nil {
			panicked = fmt.Sprint(r)
		}
	}()
	l := &memefish.Lexer{File: &token.File{Buffer: s}}
	for n := 0; n < 2*len(s)+4; n++ {
		if err := l.NextToken(); err != nil {
			return nil, false, ""
		}
		toks = append(toks, l.Token)
		if l.Token.Kind == token.TokenEOF {
			// calling NextToken again keeps returning <eof>
			for k := 0; k < 2; k++ {
				if err := l.NextToken(); err != nil || l.Token.Kind != token.TokenEOF || l.Token.Raw != "" ||
					int(l.Token.Pos) != len(s) || int(l.Token.End) != len(s) || len(l.Token.Comments) != 0 || l.Token.Space != "" {
					return toks, true, "NextToken after <eof> does not return a clean <eof>"
				}
			}
			return toks, true, ""
		}
	}
	return toks, true, "lexer does not reach <eof>"
}

func onlySpace(sp string) bool {
	for len(sp) > 0 {
		r, n := utf8.DecodeRuneInString(sp)
		if (r == utf8.RuneError && n <= 1) || !unicode.IsSpace(r) {
			return false
		}
		sp = sp[n:]
	}
	return true
}

// completeComment: `following` is the input text right after the comment.
func completeComment(raw, following string) bool {
	switch {
	case strings.HasPrefix(raw, "/*"):
		// closed by the first "*/" found when scanning from the first byte (so "/*/" is complete)
		i := strings.Index(raw, "*/")
		return i >= 0 && i+2 == len(raw)
	case strings.HasPrefix(raw, "#") || strings.HasPrefix(raw, "--") || strings.HasPrefix(raw, "//"):
		i := strings.IndexByte(raw, '\n')
		if i >= 0 {
			return i == len(raw)-1
		}
		return following == ""
	}
	return false
}

func oracleC13(s string) string {
	toks, ok, bad := lexPublic(s)
	if bad != "" {
		return bad
	}
	if !ok {
		return ""
	}
	var sb strings.Builder
	prevEnd := 0
	for i, t := range toks {
		last := i == len(toks)-1
		if (t.Kind == token.TokenEOF) != last {
			return "<eof> is not exactly the last token"
		}
		for _, c := range t.Comments {
			if int(c.Pos) < prevEnd+len(c.Space) || int(c.Pos) > int(c.End) || int(c.End) > len(s) {
				return "comment range out of order"
			}
			if s[c.Pos:c.End] != c.Raw {
				return "comment Raw != input[Pos:End]"
			}
			if !onlySpace(c.Space) {
				return "comment Space is not whitespace"
			}
			if c.Raw == "" || !completeComment(c.Raw, s[c.End:]) {
				return "incomplete comment"
			}
			sb.WriteString(c.Space)
			sb.WriteString(c.Raw)
			prevEnd = int(c.End)
		}
		if int(t.Pos) < prevEnd || int(t.Pos) > int(t.End) || int(t.End) > len(s) {
			return "token range out of order"
		}
		if s[t.Pos:t.End] != t.Raw {
			return "Raw != input[Pos:End]"
		}
		if !onlySpace(t.Space) {
			return "Space is not whitespace"
		}
		if !last && t.Raw == "" {
			return "empty token other than <eof>"
		}
		sb.WriteString(t.Space)
		sb.WriteString(t.Raw)
		prevEnd = int(t.End)
	}
	if sb.String() != s {
		return "concatenation of Comments/Space/Raw differs from the input"
	}
	return ""
}
