package main

import (
	"fmt"
	"strings"
	"unicode"
	"unicode/utf8"

	"github.com/cloudspannerecosystem/memefish"
	"github.com/cloudspannerecosystem/memefish/token"
)

func init() {
	commands["isprint-table"] = func(args []string) {
		// ranges [lo,hi] of runes with unicode.IsPrint
		lo := -1
		for r := 0; r <= 0x110000; r++ {
			p := r <= 0x10FFFF && unicode.IsPrint(rune(r))
			if p && lo < 0 {
				lo = r
			}
			if !p && lo >= 0 {
				fmt.Fprintf(out, "%d %d\n", lo, r-1)
				lo = -1
			}
		}
	}
	commands["quote-cases"] = func(args []string) {
		stdinLines(func(line string) {
			s := unhx(strings.TrimSpace(line))
			fmt.Fprintf(out, "%s => %s\n", hx(s), quoteLine(s))
		})
	}
	commands["quote-exh"] = quoteExh
	commands["quote-prop"] = func(args []string) {
		n := 0
		stdinLines(func(line string) {
			s := unhx(strings.TrimSpace(line))
			n++
			if why := oracleC15(s); why != "" {
				fmt.Fprintf(out, "FAIL %s %s\n", hx(s), why)
			}
		})
		fmt.Fprintf(out, "DONE %d\n", n)
	}
	commands["utf8-sweep"] = utf8Sweep
}

func quoteIdentSafe(s string) (r string) {
	defer func() {
		if x := recover(); x != nil {
			r = "CRASH"
		}
	}()
	return hx(token.QuoteSQLIdent(s))
}

func quoteLine(s string) string {
	return fmt.Sprintf("%s %s %s", hx(token.QuoteSQLString(s)), hx(token.QuoteSQLBytes([]byte(s))), quoteIdentSafe(s))
}

// oneToken lexes q and returns the single token before <eof>, or ok=false.
func oneToken(q string) (t token.Token, ok bool) {
	defer func() {
		if r := recover(); r != nil {
			ok = false
		}
	}()
	l := &memefish.Lexer{File: &token.File{Buffer: q}}
	if err := l.NextToken(); err != nil {
		return t, false
	}
	t = l.Token
	if err := l.NextToken(); err != nil || l.Token.Kind != token.TokenEOF {
		return t, false
	}
	if t.Pos != 0 || int(t.End) != len(q) {
		return t, false
	}
	return t, true
}

func identShaped(s string) bool {
	if s == "" {
		return false
	}
	for i := 0; i < len(s); i++ {
		c := s[i]
		letter := 'a' <= c && c <= 'z' || 'A' <= c && c <= 'Z' || c == '_'
		if !(letter || (i > 0 && '0' <= c && c <= '9')) {
			return false
		}
	}
	return true
}

// oracleC15: the statement of C15 on the real quote functions and the real lexer.
func oracleC15(s string) (why string) {
	defer func() {
		if r := recover(); r != nil {
			why = fmt.Sprint("panic: ", r)
		}
	}()
	if t, ok := oneToken(token.QuoteSQLString(s)); !ok || t.Kind != token.TokenString || t.AsString != s {
		return "QuoteSQLString(s) does not lex as one string literal with value s"
	}
	if t, ok := oneToken(token.QuoteSQLBytes([]byte(s))); !ok || t.Kind != token.TokenBytes || t.AsString != s {
		return "QuoteSQLBytes(b) does not lex as one bytes literal with value b"
	}
	if s != "" {
		q := token.QuoteSQLIdent(s)
		if t, ok := oneToken(q); !ok || t.Kind != token.TokenIdent || t.AsString != s {
			return "QuoteSQLIdent(s) does not lex as one identifier named s"
		}
		if q == s && (token.IsKeyword(s) || !identShaped(s)) {
			return "QuoteSQLIdent returned a keyword or a non identifier-shaped name unquoted"
		}
	}
	return ""
}

// quote-exh bytes <maxlen> <lo> <hi> [verbose-block]: every byte string of length <= maxlen whose first byte is in [lo,hi)
//            (plus the empty string when lo == 0);  quote-exh runes <lo> <hi> [verbose-block]: "a" + rune + "'" for runes in [lo,hi)
func quoteExh(args []string) {
	mode := args[0]
	verbose := -1
	count := 0
	var h uint64
	nontriv := 0
	emit := func(s string) {
		blk := count / 4096
		if verbose < 0 || blk == verbose {
			line := quoteLine(s)
			if token.QuoteSQLString(s) != "\""+s+"\"" {
				nontriv++ // needs an escape or the other quote character
			}
			if why := oracleC15(s); why != "" {
				fmt.Fprintf(out, "FAIL %s %s\n", hx(s), why)
			}
			if verbose >= 0 {
				fmt.Fprintf(out, "%s => %s\n", hx(s), line)
			} else {
				h = hashStr(h, line)
			}
		}
		count++
		if count%4096 == 0 {
			if verbose < 0 {
				fmt.Fprintf(out, "%d %d\n", count/4096, h)
			}
			h = 0
		}
	}
	if mode == "bytes" {
		maxlen, lo, hi := atoi(args[1]), atoi(args[2]), atoi(args[3])
		if len(args) > 4 {
			verbose = atoi(args[4])
		}
		var rec func(prefix []byte, n int)
		rec = func(prefix []byte, n int) {
			emit(string(prefix))
			if n < maxlen {
				for c := 0; c < 256; c++ {
					rec(append(prefix[:len(prefix):len(prefix)], byte(c)), n+1)
				}
			}
		}
		if lo == 0 {
			emit("")
		}
		for c := lo; c < hi; c++ {
			rec([]byte{byte(c)}, 1)
		}
	} else {
		lo, hi := atoi(args[1]), atoi(args[2])
		if len(args) > 3 {
			verbose = atoi(args[3])
		}
		for r := lo; r < hi; r++ {
			if r >= 0xD800 && r <= 0xDFFF {
				continue
			}
			var buf [4]byte
			n := utf8.EncodeRune(buf[:], rune(r))
			emit("a" + string(buf[:n]) + "'")
		}
	}
	if count%4096 != 0 && verbose < 0 {
		fmt.Fprintf(out, "%d %d\n", count/4096+1, h)
	}
	if verbose < 0 {
		fmt.Fprintf(out, "NONTRIV %d\n", nontriv)
	}
}

// utf8-sweep: decode/encode/IsSpace of Go for every code point and every 1..3-byte prefix class,
// printed as a rolling hash; compared with the model's Utf8.v.
func utf8Sweep(args []string) {
	var h uint64
	for r := 0; r <= 0x110000; r++ {
		var buf [4]byte
		n := utf8.EncodeRune(buf[:], rune(r))
		sp := 0
		if unicode.IsSpace(rune(r)) {
			sp = 1
		}
		h = hashStr(h, fmt.Sprintf("%d %s %d;", r, hx(string(buf[:n])), sp))
	}
	fmt.Fprintf(out, "encode %d\n", h)
	h = 0
	// all 2-byte strings, and 3/4-byte strings over boundary bytes
	bnd := []int{0x00, 0x7f, 0x80, 0x8f, 0x90, 0x9f, 0xa0, 0xbf, 0xc0, 0xc1, 0xc2, 0xdf, 0xe0, 0xe1, 0xec, 0xed, 0xee, 0xef, 0xf0, 0xf1, 0xf3, 0xf4, 0xf5, 0xff}
	dec := func(s string) {
		r, n := utf8.DecodeRuneInString(s)
		h = hashStr(h, fmt.Sprintf("%s %d %d;", hx(s), r, n))
	}
	dec("")
	for a := 0; a < 256; a++ {
		dec(string([]byte{byte(a)}))
		for b := 0; b < 256; b++ {
			dec(string([]byte{byte(a), byte(b)}))
		}
	}
	for _, a := range bnd {
		for _, b := range bnd {
			for _, c := range bnd {
				dec(string([]byte{byte(a), byte(b), byte(c)}))
				for _, d := range bnd {
					dec(string([]byte{byte(a), byte(b), byte(c), byte(d)}))
				}
			}
		}
	}
	fmt.Fprintf(out, "decode %d\n", h)
}
