package main

import (
	"os"
	"time"
	"fmt"
	"strings"

	"github.com/cloudspannerecosystem/memefish"
	"github.com/cloudspannerecosystem/memefish/token"
)

func init() {
	commands["lex-cases"] = lexCases
	commands["lex-exh"] = lexExh
}

func errClass(msg string) string {
	switch {
	case strings.HasPrefix(msg, "illegal input character"):
		return "illegal_char"
	case strings.HasPrefix(msg, "number literal cannot follow identifier"):
		return "number_ident"
	case strings.HasPrefix(msg, "invalid empty identifier"):
		return "empty_ident"
	case strings.HasPrefix(msg, "invalid escape sequence: \\<eof>"):
		return "escape_eof"
	case strings.HasPrefix(msg, "invalid escape sequence: hex escape"):
		return "hex2"
	case strings.HasPrefix(msg, "invalid escape sequence: octal"):
		return "octal3"
	case strings.HasPrefix(msg, "invalid escape sequence: invalid code point"):
		return "code_point"
	case strings.HasPrefix(msg, "invalid escape sequence: strconv"):
		return "parse_uint"
	case strings.Contains(msg, "is not allowed in"):
		return "u_in_bytes"
	case strings.Contains(msg, "must be followed by"):
		return "u_digits"
	case strings.HasPrefix(msg, "invalid escape sequence: \\"):
		return "bad_escape"
	case strings.HasPrefix(msg, "unclosed comment"):
		return "unclosed_comment"
	case strings.HasPrefix(msg, "unclosed") && strings.Contains(msg, "newline appears"):
		return "newline"
	case strings.HasPrefix(msg, "unclosed"):
		return "unclosed"
	}
	return "other"
}

func tokString(sb *strings.Builder, t *token.Token, lpos int, dot bool, proj string) {
	d := 0
	if dot {
		d = 1
	}
	switch proj {
	case "c13": // tiling observables only
		e := 0
		if t.Kind == token.TokenEOF {
			e = 1
		}
		fmt.Fprintf(sb, "%d,%d,%d,%s,%s,%d", e, t.Pos, t.End, hx(t.Raw), hx(t.Space), len(t.Comments))
		for _, c := range t.Comments {
			fmt.Fprintf(sb, ",%s,%s,%d,%d", hx(c.Space), hx(c.Raw), c.Pos, c.End)
		}
	case "c14r": // what the reference lexer defines: kind, raw text, decoded value, base
		fmt.Fprintf(sb, "%s,%s,%s,%d", hx(string(t.Kind)), hx(t.Raw), hx(t.AsString), t.Base)
	case "c14": // kinds, boundaries, decoded values
		fmt.Fprintf(sb, "%s,%d,%d,%s,%d", hx(string(t.Kind)), t.Pos, t.End, hx(t.AsString), t.Base)
	default:
		fmt.Fprintf(sb, "%s,%d,%d,%s,%s,%d,%s,%d,%d,%d", hx(string(t.Kind)), t.Pos, t.End, hx(t.Raw), hx(t.AsString), t.Base, hx(t.Space), lpos, d, len(t.Comments))
		for _, c := range t.Comments {
			fmt.Fprintf(sb, ",%s,%s,%d,%d", hx(c.Space), hx(c.Raw), c.Pos, c.End)
		}
	}
}

// lexLine lexes s completely in the given mode and renders the canonical line under a projection:
// full (every field, error class and range), c13 (tiling observables; "-" when not accepted),
// c14 (kinds/boundaries/values; "ERR" when rejected), c03 (outcome and error range only).
// lexLine with a watchdog: the lexer must return within 2 s on every input; a run that does not is reported as "TIMEOUT" and the
// process ends right after (the spinning goroutine cannot be stopped)
func lexLine(s string, np bool, proj string) (line string) {
	done := make(chan string, 1)
	go func() { done <- lexLineRaw(s, np, proj) }()
	select {
	case l := <-done:
		return l
	case <-time.After(2 * time.Second):
		fmt.Fprintf(out, "%s => TIMEOUT\n", hx(s))
		fmt.Fprintf(out, "FAIL %s timeout: the lexer did not return within 2s\n", hx(s))
		out.Flush()
		os.Exit(0)
		return ""
	}
}

func lexLineRaw(s string, np bool, proj string) (line string) {
	var sb strings.Builder
	fail := func(what string) string {
		switch proj {
		case "c13":
			return "-"
		case "c14", "c14r":
			if what == "CRASH" || what == "LOOP" {
				return what
			}
			return "ERR"
		case "c03":
			return what
		}
		return sb.String() + "| " + what
	}
	defer func() {
		if r := recover(); r != nil {
			line = fail("CRASH")
		}
	}()
	l := &memefish.Lexer{File: &token.File{FilePath: "", Buffer: s}}
	limit := 2*len(s) + 4
	for n := 0; n < limit; n++ {
		err := l.VerifNextToken(np)
		if err != nil {
			e := err.(*memefish.Error)
			if proj == "c03" {
				return fmt.Sprintf("ERR %d %d", e.Position.Pos, e.Position.End)
			}
			return fail(fmt.Sprintf("ERR %d %d %s", e.Position.Pos, e.Position.End, errClass(e.Message)))
		}
		if proj != "c03" {
			pos, dot, _ := l.VerifState()
			tokString(&sb, &l.Token, pos, dot, proj)
			sb.WriteString(" ")
		}
		if l.Token.Kind == token.TokenEOF {
			if proj == "c03" {
				return "OK"
			}
			sb.WriteString("| OK")
			return sb.String()
		}
	}
	return fail("LOOP")
}

// lex-cases <p|np> <proj>
func lexCases(args []string) {
	np := len(args) > 0 && args[0] == "np"
	proj := "full"
	if len(args) > 1 {
		proj = args[1]
	}
	stdinLines(func(line string) {
		s := unhx(strings.TrimSpace(line))
		fmt.Fprintf(out, "%s => %s\n", hx(s), lexLine(s, np, proj))
	})
}

func parseAlphabet(a string) []string {
	var out []string
	for _, h := range strings.Split(a, ",") {
		out = append(out, unhx(h))
	}
	return out
}

const hashMask = (1 << 40) - 1

func hashStr(h uint64, s string) uint64 {
	for i := 0; i < len(s); i++ {
		h = (h*1000003 + uint64(s[i])) & hashMask
	}
	return h
}

// lex-exh <alphabet hex,hex,...> <maxlen> <np|p> <prefix_hex> <first|-1> <proj> <oracle|-> [verbose-block]
// enumerates prefix+w for all words w of up to maxlen symbols (only those starting with symbol
// number `first` when first >= 0) and prints a rolling hash per block of 4096 strings; with
// verbose-block prints that block's lines instead.
func lexExh(args []string) {
	alpha := parseAlphabet(args[0])
	maxlen := atoi(args[1])
	np := args[2] == "np"
	prefix0 := unhx(args[3])
	first := atoi(args[4])
	proj := args[5]
	oracle := lexOracles[args[6]]
	verbose := -1
	if len(args) > 7 {
		verbose = atoi(args[7])
	}
	count := 0
	nt3, nt4 := 0, 0 // accepted lines with at least 2 / 3 records before "| OK" (pieces, or tokens incl. <eof>)
	var h uint64
	flush := func() {
		if verbose < 0 {
			fmt.Fprintf(out, "%d %d\n", count/4096, h)
		}
		h = 0
	}
	var rec func(prefix string, n int)
	rec = func(prefix string, n int) {
		blk := count / 4096
		if verbose < 0 || blk == verbose {
			var line string
			if strings.HasPrefix(proj, "fn:") {
				line = lexLiners[proj[3:]](prefix)
			} else {
				line = lexLine(prefix, np, proj)
			}
			if oracle != nil {
				if why := oracle(prefix); why != "" {
					fmt.Fprintf(out, "FAIL %s %s\n", hx(prefix), why)
				}
			}
			if verbose >= 0 {
				fmt.Fprintf(out, "%s => %s\n", hx(prefix), line)
			} else {
				h = hashStr(h, line)
				if strings.HasSuffix(line, "| OK") {
					if sp := strings.Count(line, " "); sp >= 4 {
						nt4++
						nt3++
					} else if sp >= 3 {
						nt3++
					}
				}
			}
		}
		count++
		if count%4096 == 0 {
			flush()
		}
		if n < maxlen {
			for k, a := range alpha {
				if n == 0 && first >= 0 && k != first {
					continue
				}
				rec(prefix+a, n+1)
			}
		}
	}
	rec(prefix0, 0)
	if count%4096 != 0 {
		count = (count/4096 + 1) * 4096
		flush()
	}
	if verbose < 0 {
		fmt.Fprintf(out, "NONTRIV %d %d\n", nt3, nt4)
	}
}
