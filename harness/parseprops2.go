package main

import (
	"crypto/sha1"
	"time"
	"fmt"
	goast "go/ast"
	goparser "go/parser"
	gotoken "go/token"
	"hash/fnv"
	"math/rand"
	"os"
	"path/filepath"
	"reflect"
	"strconv"
	"strings"
	"sync"

	"github.com/cloudspannerecosystem/memefish"
	"github.com/cloudspannerecosystem/memefish/ast"
	"github.com/cloudspannerecosystem/memefish/token"
	"github.com/cloudspannerecosystem/memefish/tools/util/astcatalog"
	"github.com/cloudspannerecosystem/memefish/tools/util/poslang"
)

func repoDir() string {
	if d := os.Getenv("VERIF_REPO"); d != "" {
		return d
	}
	return "/repo"
}

// pseudoKeywords: the names the parser compares identifiers with (arguments of IsKeywordLike / IsIdent /
// expectKeywordLike / expectIdent and the type-name tables), read from the current parser.go.
var pseudoKeywords = map[string]bool{}

func init() {
	fset := gotoken.NewFileSet()
	f, err := goparser.ParseFile(fset, filepath.Join(repoDir(), "parser.go"), nil, 0)
	if err != nil {
		return
	}
	goast.Inspect(f, func(n goast.Node) bool {
		switch v := n.(type) {
		case *goast.CallExpr:
			sel, ok := v.Fun.(*goast.SelectorExpr)
			if !ok {
				return true
			}
			switch sel.Sel.Name {
			case "IsKeywordLike", "IsIdent", "expectKeywordLike", "expectIdent":
				for _, a := range v.Args {
					if bl, ok := a.(*goast.BasicLit); ok && bl.Kind == gotoken.STRING {
						if s, err := strconv.Unquote(bl.Value); err == nil {
							pseudoKeywords[strings.ToUpper(s)] = true
						}
					}
				}
			}
		case *goast.ValueSpec:
			for i, nm := range v.Names {
				if (nm.Name == "simpleTypes" || nm.Name == "scalarSchemaTypes" || nm.Name == "sizedSchemaTypes") && i < len(v.Values) {
					if cl, ok := v.Values[i].(*goast.CompositeLit); ok {
						for _, e := range cl.Elts {
							if bl, ok := e.(*goast.BasicLit); ok {
								if s, err := strconv.Unquote(bl.Value); err == nil {
									pseudoKeywords[strings.ToUpper(s)] = true
								}
							}
						}
					}
				}
			}
		}
		return true
	})
}

var globalSeed int64

func seedFor(x string) int64 {
	h := fnv.New64a()
	h.Write([]byte(x))
	return int64(h.Sum64()) ^ globalSeed
}

// ---------------------------------------------------------------- C16
var triviaForms = []string{" ", "  ", "\n", "\t", " /*c*/ ", " -- c\n", " # c\n", " // c\n", "\r\n", " /* a\n b */ ", " /**/ ",
	// every Unicode White_Space character the lexer's skipSpaces must accept
	"\f", "\v", "\r", "\u0085", "\u00a0", "\u1680", "\u2003", "\u2028", "\u2029", "\u202f", "\u205f", "\u3000",
	// empty and degenerate comments, comments next to each other, comment openers inside comments
	" #\n", " --\n", " //\n", " /***/", " /* * / */", " #a\n#b\n", " /*--*/", " -- /*\n", " /*#*/", " #*/\n", " /*\n*/\n", " --\r\n", " /*'*/", " /*`*/ ", " # \"\n"}

func randCase(rnd *rand.Rand, s string) string {
	b := []byte(s)
	for i, c := range b {
		if rnd.Intn(2) == 0 {
			if 'a' <= c && c <= 'z' {
				b[i] = c - 32
			} else if 'A' <= c && c <= 'Z' {
				b[i] = c + 32
			}
		}
	}
	return string(b)
}

// respell rewrites the trivia between the tokens of x and the letter case of reserved keywords and of
// identifier tokens that are not user identifiers (i.e. not the extent of an *ast.Ident of the tree).
func respell(rnd *rand.Rand, x string, roots []ast.Node) (string, bool) {
	toks, ok, bad := lexPublic(x)
	if !ok || bad != "" {
		return "", false
	}
	userIdent := map[[2]int]bool{}
	for _, ni := range allNodes(roots) {
		if id, ok := ni.node.(*ast.Ident); ok {
			userIdent[[2]int{int(id.NamePos), int(id.NameEnd)}] = true
		}
	}
	var sb strings.Builder
	for i, t := range toks {
		hadTrivia := len(t.Comments) > 0 || t.Space != ""
		if i > 0 || hadTrivia {
			if hadTrivia || rnd.Intn(3) == 0 {
				if i > 0 || rnd.Intn(2) == 0 {
					sb.WriteString(triviaForms[rnd.Intn(len(triviaForms))])
				}
				if rnd.Intn(4) == 0 {
					sb.WriteString(triviaForms[rnd.Intn(len(triviaForms))])
				}
			}
		}
		raw := t.Raw
		_, isKw := token.KeywordsMap[t.Kind]
		switch {
		case isKw:
			raw = randCase(rnd, raw)
		case t.Kind == token.TokenIdent && !strings.HasPrefix(raw, "`") && !userIdent[[2]int{int(t.Pos), int(t.End)}]:
			raw = randCase(rnd, raw)
		}
		sb.WriteString(raw)
	}
	return sb.String(), true
}

func init() {
	// expr-respell: for every input accepted by ParseExpr, three re-spellings (trivia, keyword case, pseudo-keyword case): "hex(x) hex(y)"
	commands["expr-respell"] = func(args []string) {
		e := entryByName("ParseExpr")
		stdinLines(func(line string) {
			h := strings.TrimSpace(line)
			x := unhx(h)
			n1, ok := accepted(e, x)
			if !ok {
				return
			}
			rnd := rand.New(rand.NewSource(seedFor(x)))
			for k := 0; k < 3; k++ {
				if y, ok := respell(rnd, x, n1); ok {
					fmt.Fprintf(out, "%s %s\n", h, hx(y))
				}
			}
		})
	}
	parseOracles["C16"] = func(e *entryPoint, x string) (string, string, bool) {
		n1, ok := accepted(e, x)
		if !ok {
			return "", "", true
		}
		stats.accepted++
		noteTypes(allNodes(n1))
		rnd := rand.New(rand.NewSource(seedFor(x)))
		for k := 0; k < 3; k++ {
			y, ok := respell(rnd, x, n1)
			if !ok {
				return "", "", true
			}
			r := callEntry(e, "", y)
			if r.panicked || r.err != nil {
				return "respelling-rejected", fmt.Sprintf("%q: %v %s", y, r.err, r.panicVal), false
			}
			if d := nodesDiff(n1, r.nodes, posValidity); d != "" {
				return "respelling-changes-ast:" + d, fmt.Sprintf("%q", y), false
			}
		}
		return "", "", false
	}
}

// ---------------------------------------------------------------- C17
type recorder struct {
	events []string
	count  int
	prune  func(k int) bool
}

type recVisitor struct {
	rec  *recorder
	path string
}

func (v recVisitor) Visit(n ast.Node) ast.Visitor {
	k := v.rec.count
	v.rec.count++
	v.rec.events = append(v.rec.events, fmt.Sprintf("V %s %s@%d", v.path, typeName(n), n.Pos()))
	if v.rec.prune != nil && v.rec.prune(k) {
		return nil
	}
	return v
}
func (v recVisitor) VisitMany(ns []ast.Node) ast.Visitor {
	v.rec.events = append(v.rec.events, fmt.Sprintf("M %s %d", v.path, len(ns)))
	return v
}
func (v recVisitor) Field(name string) ast.Visitor { return recVisitor{v.rec, v.path + "." + name} }
func (v recVisitor) Index(i int) ast.Visitor {
	return recVisitor{v.rec, v.path + "[" + strconv.Itoa(i) + "]"}
}

// expected events by reflection over exported node-typed fields in declaration order
func expectWalk(rec *recorder, n ast.Node, path string) {
	k := rec.count
	rec.count++
	rec.events = append(rec.events, fmt.Sprintf("V %s %s@%d", path, typeName(n), n.Pos()))
	if rec.prune != nil && rec.prune(k) {
		return
	}
	v := reflect.ValueOf(n)
	if v.Kind() == reflect.Ptr {
		v = v.Elem()
	}
	t := v.Type()
	for i := 0; i < v.NumField(); i++ {
		f := v.Field(i)
		ft := t.Field(i)
		if !ft.IsExported() {
			continue
		}
		switch f.Kind() {
		case reflect.Ptr, reflect.Interface:
			if !f.Type().Implements(nodeIface) || f.IsNil() {
				continue
			}
			c := f.Interface().(ast.Node)
			if isNilNode(c) {
				continue
			}
			expectWalk(rec, c, path+"."+ft.Name)
		case reflect.Slice:
			if !f.Type().Elem().Implements(nodeIface) {
				continue
			}
			rec.events = append(rec.events, fmt.Sprintf("M %s %d", path+"."+ft.Name, f.Len()))
			for j := 0; j < f.Len(); j++ {
				c := f.Index(j).Interface().(ast.Node)
				if isNilNode(c) {
					continue
				}
				expectWalk(rec, c, path+"."+ft.Name+"["+strconv.Itoa(j)+"]")
			}
		}
	}
}

func diffEvents(a, b []string) string {
	for i := 0; i < len(a) || i < len(b); i++ {
		var x, y string
		if i < len(a) {
			x = a[i]
		}
		if i < len(b) {
			y = b[i]
		}
		if x != y {
			return fmt.Sprintf("event %d: walk=%q reflection=%q", i, x, y)
		}
	}
	return ""
}

func init() {
	parseOracles["C17"] = func(e *entryPoint, x string) (string, string, bool) {
		r := callEntry(e, "", x)
		if r.panicked {
			return "", "", true
		}
		var roots []ast.Node
		for _, n := range r.nodes {
			if !isNilNode(n) {
				roots = append(roots, n)
			}
		}
		if len(roots) == 0 {
			return "", "", true
		}
		stats.accepted++
		noteTypes(allNodes(roots))
		rnd := rand.New(rand.NewSource(seedFor(x)))
		for _, root := range roots {
			total := len(allNodes([]ast.Node{root}))
			for trial := 0; trial < 4; trial++ {
				var prune func(int) bool
				if trial > 0 {
					m := 1 + rnd.Intn(5)
					o := rnd.Intn(m)
					prune = func(k int) bool { return k > 0 && k%m == o }
				}
				got := &recorder{prune: prune}
				ast.Walk(root, recVisitor{got, "$"})
				want := &recorder{prune: prune}
				expectWalk(want, root, "$")
				if d := diffEvents(got.events, want.events); d != "" {
					return "walk-differs-from-reflection", d, false
				}
			}
			// "each once": the tree is a tree -- no node value is reachable along two paths (a shared pointer would be visited twice,
			// the second time out of source order)
			seen := map[[2]uintptr]bool{}
			shared := ""
			ast.Inspect(root, func(n ast.Node) bool {
				v := reflect.ValueOf(n)
				if v.Kind() == reflect.Ptr && !v.IsNil() {
					key := [2]uintptr{reflect.ValueOf(v.Type()).Pointer(), v.Pointer()}
					if seen[key] && shared == "" {
						shared = fmt.Sprintf("%s@%d", typeName(n), n.Pos())
					}
					seen[key] = true
				}
				return true
			})
			if shared != "" {
				return "node-visited-twice", shared + " is reachable along two paths", false
			}
			// Inspect = preorder of all nodes; Preorder stops as soon as the consumer stops
			var pre []string
			for _, ni := range allNodes([]ast.Node{root}) {
				pre = append(pre, fmt.Sprintf("%s@%d", typeName(ni.node), ni.node.Pos()))
			}
			var ins []string
			ast.Inspect(root, func(n ast.Node) bool { ins = append(ins, fmt.Sprintf("%s@%d", typeName(n), n.Pos())); return true })
			if strings.Join(ins, " ") != strings.Join(pre, " ") {
				return "inspect-order", "", false
			}
			stop := rnd.Intn(total + 1)
			var got []string
			for n := range ast.Preorder(root) {
				if len(got) == stop {
					break
				}
				got = append(got, fmt.Sprintf("%s@%d", typeName(n), n.Pos()))
			}
			if strings.Join(got, " ") != strings.Join(pre[:stop], " ") {
				return "preorder-stop", fmt.Sprintf("stop after %d", stop), false
			}
			calls := 0
			for range ast.Preorder(root) {
				calls++
				if calls > stop {
					break
				}
			}
			if calls > stop+1 {
				return "preorder-yields-after-stop", "", false
			}
			// an iterator VALUE is reusable: ranging over the same iter.Seq again after an early stop visits everything again
			seq := ast.Preorder(root)
			count := func() int {
				k := 0
				for range seq {
					k++
				}
				return k
			}
			n1 := count()
			for range seq {
				break
			}
			k2 := 0
			for range seq {
				k2++
				if k2 > stop {
					break
				}
			}
			if n3 := count(); n1 != total || n3 != total {
				return "preorder-seq-not-reusable", fmt.Sprintf("full=%d after early stops=%d want %d", n1, n3, total), false
			}
		}
		if e.list && len(roots) > 0 {
			seqm := ast.PreorderMany(roots)
			tot := len(allNodes(roots))
			for range seqm {
				break
			}
			k := 0
			for range seqm {
				k++
			}
			if k != tot {
				return "preordermany-seq-not-reusable", fmt.Sprintf("after an early stop %d want %d", k, tot), false
			}
		}
		// WalkMany over the list
		if e.list {
			got := &recorder{}
			ast.WalkMany(roots, recVisitor{got, "$"})
			want := &recorder{}
			want.events = append(want.events, fmt.Sprintf("M $ %d", len(roots)))
			for i, root := range roots {
				expectWalk(want, root, "$["+strconv.Itoa(i)+"]")
			}
			if d := diffEvents(got.events, want.events); d != "" {
				return "walkmany-differs-from-reflection", d, false
			}
		}
		return "", "", false
	}
}

// ---------------------------------------------------------------- C18
func fullResult(e *entryPoint, x string) string {
	r := callEntry(e, "f.sql", x)
	if r.panicked {
		return "PANIC " + r.panicVal
	}
	var sb strings.Builder
	sb.WriteString(dumpNodes(r.nodes, posExact, 0))
	for _, er := range allErrors(r.err) {
		sb.WriteString(" E:" + er.Error())
	}
	func() {
		defer func() { recover() }()
		for _, n := range r.nodes {
			if !isNilNode(n) {
				sb.WriteString(" SQL:" + n.SQL())
			}
		}
	}()
	return sb.String()
}

// scramble mutates every string / bytes / slice field of a returned tree in place.
func scramble(n ast.Node) {
	for _, ni := range allNodes([]ast.Node{n}) {
		v := reflect.ValueOf(ni.node)
		if v.Kind() != reflect.Ptr || v.IsNil() {
			continue
		}
		v = v.Elem()
		for i := 0; i < v.NumField(); i++ {
			f := v.Field(i)
			if !f.CanSet() {
				continue
			}
			switch f.Kind() {
			case reflect.String:
				f.SetString(f.String() + "!")
			case reflect.Slice:
				if f.Type().Elem().Kind() == reflect.Uint8 {
					b := f.Bytes()
					for j := range b {
						b[j] ^= 0xff
					}
				} else if f.Len() > 0 {
					f.Set(f.Slice(0, f.Len()-1))
				}
			case reflect.Int, reflect.Int64:
				f.SetInt(f.Int() + 7)
			}
		}
	}
}

func init() {
	// c18 reads ALL inputs first, then checks: repeatability, order independence, concurrency, no shared state
	// c18-each: one line per case, in the order given: entry, input, digest of the complete result (tree with positions, error messages, SQL)
	commands["c18-each"] = func(args []string) {
		stdinLines(func(line string) {
			f := strings.Fields(line)
			if len(f) == 2 {
				if e := entryByName(f[0]); e != nil {
					fmt.Fprintf(out, "%s %s %x\n", f[0], f[1], sha1.Sum([]byte(fullResult(e, unhx(f[1])))))
				}
			}
		})
	}
	commands["c18"] = func(args []string) {
		if len(args) > 0 {
			globalSeed = int64(atoi(args[0]))
		}
		type cs struct {
			e *entryPoint
			x string
		}
		var cases []cs
		stdinLines(func(line string) {
			f := strings.Fields(line)
			if len(f) == 2 {
				cases = append(cases, cs{entryByName(f[0]), unhx(f[1])})
			}
		})
		base := make([]string, len(cases))
		for i, c := range cases {
			base[i] = fullResult(c.e, c.x)
		}
		fail := func(i int, why string) {
			fmt.Fprintf(out, "FAIL %s %s %s | \n", cases[i].e.name, hx(cases[i].x), why)
		}
		// repeat, reversed order
		for i := len(cases) - 1; i >= 0; i-- {
			if fullResult(cases[i].e, cases[i].x) != base[i] {
				fail(i, "result-depends-on-call-order")
			}
		}
		// mutate returned trees, then parse again
		for i, c := range cases {
			r := callEntry(c.e, "f.sql", c.x)
			if r.panicked {
				continue
			}
			func() {
				defer func() { recover() }()
				for _, n := range r.nodes {
					if !isNilNode(n) {
						scramble(n)
					}
				}
			}()
			if fullResult(c.e, c.x) != base[i] {
				fail(i, "returned-ast-shares-state-with-later-parses")
			}
		}
		// concurrent
		workers := 8
		var wg sync.WaitGroup
		var mu sync.Mutex
		for w := 0; w < workers; w++ {
			wg.Add(1)
			go func(w int) {
				defer wg.Done()
				rnd := rand.New(rand.NewSource(int64(w) + globalSeed))
				for k := 0; k < len(cases); k++ {
					i := rnd.Intn(len(cases))
					got := fullResult(cases[i].e, cases[i].x)
					if got != base[i] {
						mu.Lock()
						fail(i, "result-differs-under-concurrency")
						mu.Unlock()
					}
					// Walk and SplitRawStatements concurrently as well
					_, _ = memefish.SplitRawStatements("f.sql", cases[i].x)
				}
			}(w)
		}
		wg.Wait()
		fmt.Fprintf(out, "STAT cases=%d skipped=0 accepted=%d nodes=0 types=\n", len(cases)*(2+workers)+len(cases), len(cases))
	}
}

// ---------------------------------------------------------------- C19
var posCatalog map[string][2]poslang.PosExpr

func loadPosCatalog() error {
	if posCatalog != nil {
		return nil
	}
	cat, err := astcatalog.Load(filepath.Join(repoDir(), "ast", "ast.go"), filepath.Join(repoDir(), "ast", "ast_const.go"))
	if err != nil {
		return err
	}
	posCatalog = map[string][2]poslang.PosExpr{}
	for _, sd := range cat.Structs {
		p, err := poslang.Parse(sd.Pos)
		if err != nil {
			return fmt.Errorf("%s pos: %v", sd.Name, err)
		}
		q, err := poslang.Parse(sd.End)
		if err != nil {
			return fmt.Errorf("%s end: %v", sd.Name, err)
		}
		posCatalog[string(sd.Name)] = [2]poslang.PosExpr{p, q}
	}
	return nil
}

func init() {
	parseOracles["C19"] = func(e *entryPoint, x string) (string, string, bool) {
		if err := loadPosCatalog(); err != nil {
			return "catalog", err.Error(), false
		}
		r := callEntry(e, "", x)
		if r.panicked {
			return "", "", true
		}
		var roots []ast.Node
		for _, n := range r.nodes {
			if !isNilNode(n) {
				roots = append(roots, n)
			}
		}
		ns := allNodes(roots)
		if len(ns) == 0 {
			return "", "", true
		}
		stats.accepted++
		noteTypes(ns)
		for _, ni := range ns {
			tn := typeName(ni.node)
			ex, ok := posCatalog[tn]
			if !ok {
				return "no-documented-pos:" + tn, "", false
			}
			var ip, iq token.Pos
			if why := safely("poslang.EvalPos", func() { ip, iq = ex[0].EvalPos(ni.node), ex[1].EvalPos(ni.node) }); why != "" {
				return "interpreter-panic:" + tn, why, false
			}
			if ip != ni.node.Pos() {
				return "pos-differs-from-documentation:" + tn, fmt.Sprintf("Pos()=%d documented=%d", ni.node.Pos(), ip), false
			}
			if iq != ni.node.End() {
				return "end-differs-from-documentation:" + tn, fmt.Sprintf("End()=%d documented=%d", ni.node.End(), iq), false
			}
		}
		return "", "", false
	}
}

// ---------------------------------------------------------------- C03
// Every entry point returns normally within a time bound, never panics; failures only through typed errors; the
// single-node functions return a non-nil node.  Each call runs under a watchdog so that a non-terminating parse is
// reported instead of hanging the harness.
func init() {
	parseOracles["C03"] = func(e *entryPoint, x string) (string, string, bool) {
		type outcome struct {
			r parseResult
		}
		ch := make(chan outcome, 1)
		go func() { ch <- outcome{callEntry(e, "t.sql", x)} }()
		var r parseResult
		select {
		case o := <-ch:
			r = o.r
		case <-time.After(3 * time.Second):
			return "timeout", "no result after 3s (the goroutine is abandoned)", false
		}
		if r.panicked {
			return "panic", r.panicVal, false
		}
		stats.accepted++
		if r.err != nil {
			me, ok := r.err.(memefish.MultiError)
			if !ok {
				return "error-not-MultiError", fmt.Sprintf("%T", r.err), false
			}
			if len(me) == 0 {
				return "empty-MultiError", "", false
			}
			for _, er := range me {
				if er == nil {
					return "nil-element-in-MultiError", "", false
				}
			}
		}
		if !e.list {
			if len(r.nodes) != 1 || isNilNode(r.nodes[0]) {
				return "nil-node", "", false
			}
		}
		// lexer and splitter on the same input
		var why string
		done := make(chan string, 1)
		go func() {
			w := safely("Lexer/Split", func() {
				l := &memefish.Lexer{File: &token.File{FilePath: "t.sql", Buffer: x}}
				for n := 0; n < 2*len(x)+4; n++ {
					if err := l.NextToken(); err != nil {
						if _, ok := err.(*memefish.Error); !ok {
							panic(fmt.Sprintf("lexer error of type %T", err))
						}
						break
					}
					if l.Token.Kind == token.TokenEOF {
						break
					}
					if n == 2*len(x)+3 {
						panic("lexer does not reach <eof>")
					}
				}
				if _, err := memefish.SplitRawStatements("t.sql", x); err != nil {
					if _, ok := err.(*memefish.Error); !ok {
						panic(fmt.Sprintf("splitter error of type %T", err))
					}
				}
			})
			done <- w
		}()
		select {
		case why = <-done:
		case <-time.After(3 * time.Second):
			return "timeout", "lexer/splitter: no result after 3s", false
		}
		if why != "" {
			return "panic", why, false
		}
		return "", "", false
	}
}

// bad-nodes: for "entry hex" lines, every Bad node of the returned tree with the node type that wraps it:
// "entry hex => W:pos:end:ntokens;..." (W = Stmt, DDL, DML, Query, Expr, Type, or Node for a bare BadNode)
func init() {
	commands["bad-nodes"] = func(args []string) {
		stdinLines(func(line string) {
			f := strings.Fields(line)
			if len(f) != 2 {
				return
			}
			e := entryByName(f[0])
			r := callEntry(e, "", unhx(f[1]))
			if r.panicked {
				fmt.Fprintf(out, "%s %s => PANIC\n", f[0], f[1])
				return
			}
			var roots []ast.Node
			for _, n := range r.nodes {
				if !isNilNode(n) {
					roots = append(roots, n)
				}
			}
			ns := allNodes(roots)
			var sb strings.Builder
			for _, ni := range ns {
				b, ok := ni.node.(*ast.BadNode)
				if !ok {
					continue
				}
				w := "Node"
				if ni.parent >= 0 {
					switch ns[ni.parent].node.(type) {
					case *ast.BadStatement:
						w = "Stmt"
					case *ast.BadDDL:
						w = "DDL"
					case *ast.BadDML:
						w = "DML"
					case *ast.BadQueryExpr:
						w = "Query"
					case *ast.BadExpr:
						w = "Expr"
					case *ast.BadType:
						w = "Type"
					}
				}
				fmt.Fprintf(&sb, "%s:%d:%d:%d;", w, b.NodePos, b.NodeEnd, len(b.Tokens))
			}
			fmt.Fprintf(out, "%s %s => %s\n", f[0], f[1], sb.String())
		})
	}
}
