// Command harness runs the real memefish code on the same cases as the extracted Coq models
// (correspondence) and evaluates the implementation-level oracle of each property (search/replay).
package main

import (
	"bufio"
	"encoding/hex"
	"fmt"
	"os"
	"strconv"
)

var out = bufio.NewWriterSize(os.Stdout, 1<<20)

func hx(s string) string {
	if s == "" {
		return "-"
	}
	return hex.EncodeToString([]byte(s))
}

func unhx(h string) string {
	if h == "-" {
		return ""
	}
	b, err := hex.DecodeString(h)
	if err != nil {
		panic(err)
	}
	return string(b)
}

func atoi(s string) int {
	n, err := strconv.Atoi(s)
	if err != nil {
		panic(err)
	}
	return n
}

func stdinLines(f func(line string)) {
	sc := bufio.NewScanner(os.Stdin)
	sc.Buffer(make([]byte, 1<<20), 1<<28)
	for sc.Scan() {
		f(sc.Text())
	}
}

type command func(args []string)

var commands = map[string]command{}

func main() {
	defer out.Flush()
	if len(os.Args) < 2 {
		fmt.Fprintln(os.Stderr, "usage: harness <cmd> [args]")
		os.Exit(2)
	}
	c, ok := commands[os.Args[1]]
	if !ok {
		fmt.Fprintln(os.Stderr, "unknown command", os.Args[1])
		os.Exit(2)
	}
	c(os.Args[2:])
}
