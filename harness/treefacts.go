package main

import (
	"fmt"
	"reflect"
	"strconv"
	"strings"

	"github.com/cloudspannerecosystem/memefish/ast"
	"github.com/cloudspannerecosystem/memefish/token"
)

// Tree-level correspondence commands: the real Pos()/End(), the repository's POS interpreter, and the real
// Walk/WalkMany callback traces, printed in the format the extracted Coq interpreters print (ocaml/treedrv.ml).

func eachCase(f func(ename, hex string, e *entryPoint, x string)) {
	stdinLines(func(line string) {
		fs := strings.Fields(line)
		if len(fs) < 2 {
			return
		}
		e := entryByName(fs[0])
		if e == nil {
			return
		}
		f(fs[0], fs[1], e, unhx(fs[1]))
	})
}

func peString(f func() (int, int)) (s string) {
	defer func() {
		if r := recover(); r != nil {
			s = "X"
		}
	}()
	p, e := f()
	return fmt.Sprintf("%d,%d", p, e)
}

func init() {
	// tree-pe impl|spec : per node in pre-order "Type:pos,end"; impl = n.Pos()/n.End(), spec = tools/util/poslang.EvalPos
	commands["tree-pe"] = func(args []string) {
		which := args[0]
		// impl-mut|spec-mut: every method is called once, then every valid position field of every node is shifted by 3 in place
		mutate := strings.HasSuffix(which, "-mut")
		which = strings.TrimSuffix(which, "-mut")
		if which == "spec" {
			if err := loadPosCatalog(); err != nil {
				panic(err)
			}
		}
		eachCase(func(ename, hex string, e *entryPoint, x string) {
			r := callEntry(e, "", x)
			if r.panicked {
				fmt.Fprintf(out, "%s %s => PANIC\n", ename, hex)
				return
			}
			if mutate {
				seen := map[ast.Node]bool{}
				for _, ni := range allNodes(r.nodes) {
					n := ni.node
					if seen[n] {
						continue
					}
					seen[n] = true
					safely("warm", func() { _ = n.Pos(); _ = n.End() })
				}
				for n := range seen {
					shiftPosFields(n, 3)
				}
			}
			var sb strings.Builder
			for _, ni := range allNodes(r.nodes) {
				n := ni.node
				tn := typeName(n)
				sb.WriteString(tn)
				sb.WriteString(":")
				if which == "impl" {
					sb.WriteString(peString(func() (int, int) { return int(n.Pos()), int(n.End()) }))
				} else {
					ex, ok := posCatalog[tn]
					if !ok {
						sb.WriteString("X")
					} else {
						sb.WriteString(peString(func() (int, int) { return int(ex[0].EvalPos(n)), int(ex[1].EvalPos(n)) }))
					}
				}
				sb.WriteString(" ")
			}
			fmt.Fprintf(out, "%s %s => %s\n", ename, hex, sb.String())
		})
	}
	// tree-sql : per node in pre-order "Type:hex(SQL())", X when SQL() panics
	commands["tree-sql"] = func(args []string) {
		eachCase(func(ename, hex string, e *entryPoint, x string) {
			r := callEntry(e, "", x)
			if r.panicked {
				fmt.Fprintf(out, "%s %s => PANIC\n", ename, hex)
				return
			}
			var sb strings.Builder
			for _, ni := range allNodes(r.nodes) {
				n := ni.node
				sb.WriteString(typeName(n))
				sb.WriteString(":")
				var s string
				if why := safely("SQL", func() { s = n.SQL() }); why != "" {
					sb.WriteString("X")
				} else {
					sb.WriteString(hx(s))
				}
				sb.WriteString(" ")
			}
			fmt.Fprintf(out, "%s %s => %s\n", ename, hex, sb.String())
		})
	}
	// tree-walk m o : Walk over every root with the recording visitor; prune the k-th Visit when k>0 && k%m==o (m=0: never)
	commands["tree-walk"] = func(args []string) {
		m, o := atoi(args[0]), atoi(args[1])
		eachCase(func(ename, hex string, e *entryPoint, x string) {
			r := callEntry(e, "", x)
			if r.panicked {
				fmt.Fprintf(out, "%s %s => PANIC\n", ename, hex)
				return
			}
			var sb strings.Builder
			for _, root := range r.nodes {
				if isNilNode(root) {
					continue
				}
				rec := &recorder{}
				if m > 0 {
					rec.prune = func(k int) bool { return k > 0 && k%m == o }
				}
				why := safely("Walk", func() { ast.Walk(root, recVisitor{rec, "$"}) })
				if why != "" {
					sb.WriteString("PANIC " + why)
				} else {
					sb.WriteString(strings.Join(rec.events, ";"))
				}
				sb.WriteString(" | ")
			}
			fmt.Fprintf(out, "%s %s => %s\n", ename, hex, sb.String())
		})
	}
	// tree-walk-h m o : same trace as tree-walk, but produced inside a HISTORY of other traversals: before each recorded
	// Walk an earlier tree is traversed by a visitor that panics at some Visit (recovered here), and during the recorded
	// Walk every third Visit callback runs a nested Inspect/Preorder on the current node.  Walk is a function of its
	// arguments only, so the recorded trace must not change.
	commands["tree-walk-h"] = func(args []string) {
		m, o := atoi(args[0]), atoi(args[1])
		var prev ast.Node
		caseNo := 0
		eachCase(func(ename, hex string, e *entryPoint, x string) {
			r := callEntry(e, "", x)
			if r.panicked {
				fmt.Fprintf(out, "%s %s => PANIC\n", ename, hex)
				return
			}
			var sb strings.Builder
			for _, root := range r.nodes {
				if isNilNode(root) {
					continue
				}
				caseNo++
				if prev != nil {
					k := 0
					limit := 1 + caseNo%7
					safely("aborted Walk", func() {
						ast.Inspect(prev, func(n ast.Node) bool {
							k++
							if k >= limit {
								panic("visitor gives up")
							}
							return true
						})
					})
					if caseNo%3 == 0 {
						if why := safely("early-stopped Preorder", func() {
							cnt := 0
							for range ast.Preorder(prev) {
								cnt++
								if cnt >= limit {
									break
								}
							}
						}); why != "" {
							sb.WriteString("PANIC " + why + ";")
						}
					}
				}
				rec := &recorder{}
				if m > 0 {
					rec.prune = func(k int) bool { return k > 0 && k%m == o }
				}
				why := safely("Walk", func() { ast.Walk(root, nestingVisitor{recVisitor{rec, "$"}}) })
				if why != "" {
					sb.WriteString("PANIC " + why)
				} else {
					sb.WriteString(strings.Join(rec.events, ";"))
				}
				sb.WriteString(" | ")
				prev = root
			}
			fmt.Fprintf(out, "%s %s => %s\n", ename, hex, sb.String())
		})
	}
	commands["tree-walkmany"] = func(args []string) {
		eachCase(func(ename, hex string, e *entryPoint, x string) {
			r := callEntry(e, "", x)
			if r.panicked {
				fmt.Fprintf(out, "%s %s => PANIC\n", ename, hex)
				return
			}
			var roots []ast.Node
			for _, root := range r.nodes {
				if !isNilNode(root) {
					roots = append(roots, root)
				}
			}
			rec := &recorder{}
			why := safely("WalkMany", func() { ast.WalkMany(roots, recVisitor{rec, "$"}) })
			s := strings.Join(rec.events, ";")
			if why != "" {
				s = "PANIC " + why
			}
			fmt.Fprintf(out, "%s %s => %s | \n", ename, hex, s)
		})
	}
}

// nestingVisitor wraps the recording visitor; every third Visit it runs a nested traversal of the current node
// (re-entrancy) before delegating.
type nestingVisitor struct{ inner recVisitor }

func (v nestingVisitor) Visit(n ast.Node) ast.Visitor {
	if v.inner.rec.count%3 == 2 {
		c := 0
		ast.Inspect(n, func(ast.Node) bool { c++; return c < 4 })
	}
	r := v.inner.Visit(n)
	if r == nil {
		return nil
	}
	return nestingVisitor{r.(recVisitor)}
}
func (v nestingVisitor) VisitMany(ns []ast.Node) ast.Visitor {
	return nestingVisitor{v.inner.VisitMany(ns).(recVisitor)}
}
func (v nestingVisitor) Field(name string) ast.Visitor { return nestingVisitor{v.inner.Field(name).(recVisitor)} }
func (v nestingVisitor) Index(i int) ast.Visitor       { return nestingVisitor{v.inner.Index(i).(recVisitor)} }

// expr-toks: one input per line (hex) -> "hex => kind,raw,str,pos,end,base;..." (the public lexer's tokens incl. <eof>), or LEXERR
// expr-go:   one input per line (hex) -> "hex => <number of errors> <dump of the returned expression>"
func init() {
	commands["expr-toks"] = func(args []string) {
		stdinLines(func(line string) {
			h := strings.TrimSpace(line)
			x := unhx(h)
			toks, ok, bad := lexPublic(x)
			if !ok || bad != "" {
				fmt.Fprintf(out, "%s => LEXERR\n", h)
				return
			}
			var sb strings.Builder
			for _, t := range toks {
				fmt.Fprintf(&sb, "%s,%s,%s,%d,%d,%d;", hx(string(t.Kind)), hx(t.Raw), hx(t.AsString), t.Pos, t.End, t.Base)
			}
			fmt.Fprintf(out, "%s => %s\n", h, sb.String())
		})
	}
	// type-go: one input per line (hex) -> "hex => <number of errors> <position of the first error> <dump of the returned type>"
	commands["type-go"] = func(args []string) {
		e := entryByName("ParseType")
		stdinLines(func(line string) {
			h := strings.TrimSpace(line)
			r := callEntry(e, "", unhx(h))
			if r.panicked {
				fmt.Fprintf(out, "%s => PANIC %s\n", h, r.panicVal)
				return
			}
			first := -1
			if errs := allErrors(r.err); len(errs) > 0 && errs[0].Position != nil {
				first = int(errs[0].Position.Pos)
			}
			fmt.Fprintf(out, "%s => %d %d %s\n", h, len(allErrors(r.err)), first, dumpNode(r.nodes[0], posExact, 0))
		})
	}
	// stmt-go <entry>: "hex => <number of errors> <dump of node 1> ; <dump of node 2> ..." (every position exact; for list entry points all nodes)
	commands["stmt-go"] = func(args []string) {
		e := entryByName(args[0])
		stdinLines(func(line string) {
			h := strings.TrimSpace(line)
			r := callEntry(e, "", unhx(h))
			if r.panicked {
				fmt.Fprintf(out, "%s => PANIC %s\n", h, r.panicVal)
				return
			}
			var ds []string
			for _, n := range r.nodes {
				if !isNilNode(n) {
					ds = append(ds, dumpNode(n, posExact, 0))
				}
			}
			fmt.Fprintf(out, "%s => %d %s\n", h, len(allErrors(r.err)), strings.Join(ds, " ; "))
		})
	}
	// type-sql: "hex => <hex of SQL() of the returned type>" for inputs accepted without error, "hex => ERR" otherwise
	commands["type-sql"] = func(args []string) {
		e := entryByName("ParseType")
		stdinLines(func(line string) {
			h := strings.TrimSpace(line)
			r := callEntry(e, "", unhx(h))
			if r.panicked || r.err != nil {
				fmt.Fprintf(out, "%s => ERR\n", h)
				return
			}
			fmt.Fprintf(out, "%s => %s\n", h, hx(r.nodes[0].SQL()))
		})
	}
	// type-go-all: "hex => <number of errors> [<position of every error>] <number of Bad nodes> <dump of the returned type>"
	commands["type-go-all"] = func(args []string) {
		e := entryByName("ParseType")
		stdinLines(func(line string) {
			h := strings.TrimSpace(line)
			r := callEntry(e, "", unhx(h))
			if r.panicked {
				fmt.Fprintf(out, "%s => PANIC %s\n", h, r.panicVal)
				return
			}
			var ps []string
			for _, er := range allErrors(r.err) {
				if er.Position != nil {
					ps = append(ps, strconv.Itoa(int(er.Position.Pos)))
				} else {
					ps = append(ps, "?")
				}
			}
			nbad := 0
			for _, ni := range allNodes([]ast.Node{r.nodes[0]}) {
				if strings.HasPrefix(typeName(ni.node), "Bad") && typeName(ni.node) != "BadNode" {
					nbad++
				}
			}
			fmt.Fprintf(out, "%s => %d [%s] %d %s\n", h, len(ps), strings.Join(ps, ","), nbad, dumpNode(r.nodes[0], posExact, 0))
		})
	}
	commands["expr-go"] = func(args []string) {
		e := entryByName("ParseExpr")
		stdinLines(func(line string) {
			h := strings.TrimSpace(line)
			r := callEntry(e, "", unhx(h))
			if r.panicked {
				fmt.Fprintf(out, "%s => PANIC %s\n", h, r.panicVal)
				return
			}
			fmt.Fprintf(out, "%s => %d %s\n", h, len(allErrors(r.err)), dumpNode(r.nodes[0], posExact, 0))
		})
	}
}

// expr-shape: the grouping of the parsed expression in a compact notation (operators, ParenExpr, no positions); ERR on error
func exprShape(n ast.Node) string {
	switch e := n.(type) {
	case *ast.BinaryExpr:
		return fmt.Sprintf("(%s %s %s)", strings.ReplaceAll(string(e.Op), " ", "_"), exprShape(e.Left), exprShape(e.Right))
	case *ast.UnaryExpr:
		return fmt.Sprintf("(%s %s)", e.Op, exprShape(e.Expr))
	case *ast.ParenExpr:
		return fmt.Sprintf("(paren %s)", exprShape(e.Expr))
	case *ast.IsNullExpr:
		return fmt.Sprintf("(is%s_NULL %s)", map[bool]string{true: "_not", false: ""}[e.Not], exprShape(e.Left))
	case *ast.IsBoolExpr:
		return fmt.Sprintf("(is%s_%s %s)", map[bool]string{true: "_not", false: ""}[e.Not], strings.ToUpper(fmt.Sprint(e.Right)), exprShape(e.Left))
	case *ast.BetweenExpr:
		return fmt.Sprintf("(%sbetween %s %s %s)", map[bool]string{true: "not_", false: ""}[e.Not], exprShape(e.Left), exprShape(e.RightStart), exprShape(e.RightEnd))
	case *ast.InExpr:
		s := fmt.Sprintf("(%sin %s", map[bool]string{true: "not_", false: ""}[e.Not], exprShape(e.Left))
		if v, ok := e.Right.(*ast.ValuesInCondition); ok {
			for _, x := range v.Exprs {
				s += " " + exprShape(x)
			}
		} else {
			s += " ?"
		}
		return s + ")"
	case *ast.SelectorExpr:
		return fmt.Sprintf("(. %s %s)", exprShape(e.Expr), e.Ident.Name)
	case *ast.IndexExpr:
		ix := "?"
		if a, ok := e.Index.(*ast.ExprArg); ok {
			ix = exprShape(a.Expr)
		}
		return fmt.Sprintf("([] %s %s)", exprShape(e.Expr), ix)
	case *ast.Path:
		var ps []string
		for _, i := range e.Idents {
			ps = append(ps, i.Name)
		}
		return strings.Join(ps, ".")
	case *ast.Ident:
		return e.Name
	}
	if isNilNode(n) {
		return "nil"
	}
	return n.SQL()
}

func init() {
	commands["expr-shape"] = func(args []string) {
		e := entryByName("ParseExpr")
		stdinLines(func(line string) {
			h := strings.TrimSpace(line)
			r := callEntry(e, "", unhx(h))
			if r.panicked || r.err != nil {
				fmt.Fprintf(out, "%s => ERR %v %s\n", h, r.err, r.panicVal)
				return
			}
			s := ""
			if why := safely("shape", func() { s = exprShape(r.nodes[0]) }); why != "" {
				s = "PANIC " + why
			}
			// SQL() of the result must need no parenthesis that was not in the source, and add none
			fmt.Fprintf(out, "%s => %s | %s\n", h, s, hx(r.nodes[0].SQL()))
		})
	}
}


// shiftPosFields adds d to every valid token.Pos field of the node's own struct (not of its children)
func shiftPosFields(n ast.Node, d int) {
	v := reflect.ValueOf(n)
	if v.Kind() != reflect.Ptr || v.IsNil() {
		return
	}
	v = v.Elem()
	if v.Kind() != reflect.Struct {
		return
	}
	posType := reflect.TypeOf(token.Pos(0))
	for i := 0; i < v.NumField(); i++ {
		f := v.Field(i)
		if f.Type() == posType && f.CanSet() && f.Int() >= 0 {
			f.SetInt(f.Int() + int64(d))
		}
	}
}
