package main

import (
	"fmt"
	"strings"
	"unicode"
	"unicode/utf8"

	"github.com/cloudspannerecosystem/memefish"
	"github.com/cloudspannerecosystem/memefish/token"
)

func init() {
	commands["split-cases"] = func(args []string) {
		stdinLines(func(line string) {
			s := unhx(strings.TrimSpace(line))
			fmt.Fprintf(out, "%s => %s\n", hx(s), splitLine(s))
		})
	}
	commands["split-prop"] = func(args []string) {
		n := 0
		stdinLines(func(line string) {
			s := unhx(strings.TrimSpace(line))
			n++
			if why := oracleC12(s); why != "" {
				fmt.Fprintf(out, "FAIL %s %s\n", hx(s), why)
			}
		})
		fmt.Fprintf(out, "DONE %d\n", n)
	}
	lexOracles["c12"] = oracleC12
	lexLiners["split"] = splitLine
}

// lexLiners: alternative per-string renderers usable by lex-exh through proj "fn:<name>"
var lexLiners = map[string]func(s string) string{}

func splitLine(s string) (line string) {
	defer func() {
		if r := recover(); r != nil {
			line = "CRASH"
		}
	}()
	ps, err := memefish.SplitRawStatements("", s)
	if err != nil {
		if e, ok := err.(*memefish.Error); ok {
			return fmt.Sprintf("ERR %d %d", e.Position.Pos, e.Position.End)
		}
		return "ERR other"
	}
	var sb strings.Builder
	for _, p := range ps {
		fmt.Fprintf(&sb, "%d,%d,%s ", p.Pos, p.End, hx(p.Statement))
	}
	sb.WriteString("| OK")
	return sb.String()
}

func isSpaceOnly(sp string) bool {
	for len(sp) > 0 {
		r, n := utf8.DecodeRuneInString(sp)
		if (r == utf8.RuneError && n <= 1) || !unicode.IsSpace(r) {
			return false
		}
		sp = sp[n:]
	}
	return true
}

// oracleC12: the statement of C12 evaluated on SplitRawStatements + the real lexer.
func oracleC12(s string) (why string) {
	defer func() {
		if r := recover(); r != nil {
			why = fmt.Sprint("panic: ", r)
		}
	}()
	toks, ok, bad := lexPublic(s)
	if bad != "" {
		return "" // lexer misbehaviour is C13's business
	}
	ps, err := memefish.SplitRawStatements("", s)
	if (err != nil) != !ok {
		return "SplitRawStatements fails iff the input has a lexical error: violated"
	}
	if err != nil {
		if _, isErr := err.(*memefish.Error); !isErr {
			return "error is not *Error"
		}
		return ""
	}
	if len(ps) == 0 {
		return "empty result (minimum output is one empty piece)"
	}
	prev := 0
	for i, p := range ps {
		if int(p.Pos) < 0 || p.Pos > p.End || int(p.End) > len(s) {
			return "piece range out of bounds"
		}
		if s[p.Pos:p.End] != p.Statement {
			return "Statement != input[Pos:End]"
		}
		if i > 0 {
			if int(p.Pos) < prev {
				return "pieces overlap or are out of order"
			}
		}
		_ = i
		prev = int(p.End)
	}
	in := func(a, b int) int { // number of pieces containing [a,b)
		n := 0
		for _, p := range ps {
			if int(p.Pos) <= a && b <= int(p.End) {
				n++
			}
		}
		return n
	}
	// the only legitimate empty-result shape: a single {0,0,""} for an input without tokens other than ';'-free trivia
	semis := []token.Token{}
	for _, t := range toks {
		for _, c := range t.Comments {
			if in(int(c.Pos), int(c.End)) != 1 {
				return "a comment is not inside exactly one piece"
			}
		}
		switch t.Kind {
		case ";":
			semis = append(semis, t)
			for _, p := range ps {
				if int(p.Pos) <= int(t.Pos) && int(t.Pos) < int(p.End) {
					return "a piece contains a ';' token"
				}
			}
		case token.TokenEOF:
		default:
			if in(int(t.Pos), int(t.End)) != 1 {
				return "a token is not inside exactly one piece"
			}
		}
	}
	// text between consecutive pieces, and after the last: exactly one ';' token plus whitespace
	gaps := []string{}
	for i := 0; i+1 < len(ps); i++ {
		gaps = append(gaps, s[ps[i].End:ps[i+1].Pos])
	}
	last := s[ps[len(ps)-1].End:]
	for _, g := range gaps {
		if !strings.HasPrefix(g, ";") || !isSpaceOnly(g[1:]) {
			return "text between two pieces is not one ';' plus whitespace"
		}
	}
	if last != "" && (!strings.HasPrefix(last, ";") || !isSpaceOnly(last[1:])) {
		return "text after the last piece is not one ';' plus whitespace"
	}
	wantSemis := len(gaps)
	if last != "" {
		wantSemis++
	}
	if wantSemis != len(semis) {
		return "number of ';' tokens does not match the number of cuts"
	}
	// before the first piece: nothing
	if ps[0].Pos != 0 {
		return "first piece does not start at 0"
	}
	return ""
}
