package main

import (
	"github.com/cloudspannerecosystem/memefish/char"
	"fmt"
	"os"
	"reflect"
	"sort"
	"strings"

	"github.com/cloudspannerecosystem/memefish"
	"github.com/cloudspannerecosystem/memefish/ast"
	"github.com/cloudspannerecosystem/memefish/token"
)

// Implementation-level oracles for the parser properties: the property text evaluated on the real code.
// Each oracle returns (key, detail): key == "" when the property holds on this (entry, input);
// otherwise key is a short structural reason (used to match known findings) and detail is free text.
// skipped == true when the property's precondition is not met by the input.
type parseOracle func(e *entryPoint, x string) (key, detail string, skipped bool)

var parseOracles = map[string]parseOracle{}

var stats struct {
	cases, skipped, accepted int
	nodes                    int
	types                    map[string]int
}

func init() {
	stats.types = map[string]int{}
	commands["parse-prop"] = func(args []string) {
		o := parseOracles[args[0]]
		if o == nil {
			panic("no oracle " + args[0])
		}
		stdinLines(func(line string) {
			f := strings.Fields(line)
			if len(f) != 2 {
				return
			}
			e := entryByName(f[0])
			x := unhx(f[1])
			stats.cases++
			key, detail, skipped := runOracle(o, e, x)
			if skipped {
				stats.skipped++
			}
			if key != "" {
				if key == "timeout" {
					// the abandoned goroutine may spin and allocate forever: report and stop this harness process now
					fmt.Fprintf(out, "FAIL %s %s timeout tags=- | %s\n", f[0], f[1], detail)
					fmt.Fprintf(out, "STAT cases=%d skipped=%d accepted=%d nodes=%d types=ABORTED-AFTER-TIMEOUT\n", stats.cases, stats.skipped, stats.accepted, stats.nodes)
					out.Flush()
					os.Exit(0)
				}
				fmt.Fprintf(out, "FAIL %s %s %s tags=%s | %s\n", f[0], f[1], strings.ReplaceAll(key, " ", "_"), findingTags(e, x), strings.ReplaceAll(detail, "\n", "\\n"))
			}
		})
		var ts []string
		for t := range stats.types {
			ts = append(ts, t)
		}
		sort.Strings(ts)
		fmt.Fprintf(out, "STAT cases=%d skipped=%d accepted=%d nodes=%d types=%s\n", stats.cases, stats.skipped, stats.accepted, stats.nodes, strings.Join(ts, ","))
	}
	commands["parse-dump"] = func(args []string) {
		stdinLines(func(line string) {
			f := strings.Fields(line)
			if len(f) != 2 {
				return
			}
			e := entryByName(f[0])
			x := unhx(f[1])
			r := callEntry(e, "", x)
			if r.panicked {
				fmt.Fprintf(out, "%s %s => PANIC %s\n", f[0], f[1], r.panicVal)
				return
			}
			fmt.Fprintf(out, "%s %s => %d %s\n", f[0], f[1], len(allErrors(r.err)), dumpNodes(r.nodes, posExact, 0))
		})
	}
}

func runOracle(o parseOracle, e *entryPoint, x string) (key, detail string, skipped bool) {
	defer func() {
		if r := recover(); r != nil {
			key, detail = "panic", fmt.Sprintf("%v", r)
		}
	}()
	return o(e, x)
}

func noteTypes(ns []nodeInfo) {
	stats.nodes += len(ns)
	for _, n := range ns {
		stats.types[typeName(n.node)]++
	}
}

func sqlOf(e *entryPoint, nodes []ast.Node) string {
	var parts []string
	for _, n := range nodes {
		parts = append(parts, n.SQL())
	}
	if e.list {
		return strings.Join(parts, ";\n")
	}
	return strings.Join(parts, "")
}

// accepted: E(x) error-free (no panic, nil error, non-nil nodes)
func accepted(e *entryPoint, x string) ([]ast.Node, bool) {
	r := callEntry(e, "", x)
	if r.panicked || r.err != nil {
		return nil, false
	}
	for _, n := range r.nodes {
		if isNilNode(n) {
			return nil, false
		}
	}
	return r.nodes, true
}

// ---------------------------------------------------------------- C01
func init() {
	parseOracles["C01"] = func(e *entryPoint, x string) (string, string, bool) {
		n1, ok := accepted(e, x)
		if !ok {
			return "", "", true
		}
		stats.accepted++
		noteTypes(allNodes(n1))
		s1 := sqlOf(e, n1)
		r2 := callEntry(e, "", s1)
		if r2.panicked {
			return "reparse-panic", r2.panicVal + " sql=" + s1, false
		}
		if r2.err != nil {
			return "reparse-error", r2.err.Error() + " sql=" + s1, false
		}
		if d := nodesDiff(n1, r2.nodes, posValidity); d != "" {
			return "ast-differs:" + d, "sql=" + s1, false
		}
		if s2 := sqlOf(e, r2.nodes); s2 != s1 {
			return "sql-not-fixpoint", s1 + " ==> " + s2, false
		}
		return "", "", false
	}
}

// ---------------------------------------------------------------- C02
var noiseKinds = map[string]bool{"INNER": true, "OUTER": true, "INTO": true}

type sigTok struct{ kind, val string }

// significant-token signature: identifiers by name, literals by decoded value, numbers by spelling,
// keywords/punctuation by kind.  ok=false when the text does not lex.
func signature(s string) (sig []sigTok, ok bool) {
	toks, ok, bad := lexPublic(s)
	if !ok || bad != "" {
		return nil, false
	}
	for _, t := range toks {
		switch t.Kind {
		case token.TokenEOF:
		case token.TokenIdent:
			sig = append(sig, sigTok{"<ident>", t.AsString})
		case token.TokenString, token.TokenBytes, token.TokenParam:
			sig = append(sig, sigTok{string(t.Kind), t.AsString})
		case token.TokenInt, token.TokenFloat:
			sig = append(sig, sigTok{string(t.Kind), t.Raw})
		default:
			sig = append(sig, sigTok{string(t.Kind), ""})
		}
	}
	return sig, true
}

// canonSig removes exactly the documented canonicalisations.  identSpans: [pos,end) of the *ast.Ident
// nodes... not available at signature level, so identifier case is folded only for names that the
// parser treats as pseudo keywords (pseudoKeywords) - see C16 for the exact treatment.
func canonSig(sig []sigTok) []sigTok {
	var out []sigTok
	for i := 0; i < len(sig); i++ {
		t := sig[i]
		switch {
		case noiseKinds[t.kind]:
			continue
		case t.kind == "<ident>" && strings.EqualFold(t.val, "ARE"):
			continue
		case t.kind == ",":
			continue // trailing / optional commas: commas carry no information beyond the element boundary
		case t.kind == "<>":
			t = sigTok{"!=", ""}
		case t.kind == ">>":
			// white space and comments are canonicalised away: "> >" closing two type brackets and ">>" are the same text;
			// the lexer splits them differently, so compare both as two '>' (a shift operator is split on both sides alike)
			out = append(out, sigTok{">", ""})
			t = sigTok{">", ""}
		case t.kind == "FROM" && len(out) > 0 && out[len(out)-1].kind == "<ident>" && strings.EqualFold(out[len(out)-1].val, "DELETE"):
			continue
		case t.kind == "<ident>" && pseudoKeywords[strings.ToUpper(t.val)]:
			t = sigTok{"<ident>", strings.ToUpper(t.val)}
		}
		out = append(out, t)
	}
	return out
}

func sigString(sig []sigTok) string {
	var sb strings.Builder
	for _, t := range sig {
		sb.WriteString(t.kind)
		if t.val != "" {
			sb.WriteString(":" + t.val)
		}
		sb.WriteString(" ")
	}
	return sb.String()
}

func init() {
	parseOracles["C02"] = func(e *entryPoint, x string) (string, string, bool) {
		n1, ok := accepted(e, x)
		if !ok {
			return "", "", true
		}
		stats.accepted++
		a, ok1 := signature(x)
		s1 := sqlOf(e, n1)
		b, ok2 := signature(s1)
		if !ok1 {
			return "", "", true
		}
		if !ok2 {
			return "sql-does-not-lex", s1, false
		}
		ca, cb := canonSig(a), canonSig(b)
		// CREATE TABLE groups its elements by kind: compare as multisets
		multiset := false
		for _, n := range allNodes(n1) {
			if _, isCT := n.node.(*ast.CreateTable); isCT {
				multiset = true
			}
		}
		// ';' between list elements: SQL() of a list is joined by us
		if e.list {
			ca, cb = dropKind(ca, ";"), dropKind(cb, ";")
		}
		if multiset {
			sa, sb := sortedSig(ca), sortedSig(cb)
			if sigString(sa) != sigString(sb) {
				return "tokens-differ:" + firstSigDiff(sa, sb), sigString(ca) + " ==> " + sigString(cb), false
			}
			return "", "", false
		}
		if sigString(ca) != sigString(cb) {
			return "tokens-differ:" + firstSigDiff(ca, cb), sigString(ca) + " ==> " + sigString(cb), false
		}
		return "", "", false
	}
}

func dropKind(s []sigTok, k string) []sigTok {
	var out []sigTok
	for _, t := range s {
		if t.kind != k {
			out = append(out, t)
		}
	}
	return out
}

func sortedSig(s []sigTok) []sigTok {
	out := append([]sigTok(nil), s...)
	sort.Slice(out, func(i, j int) bool {
		if out[i].kind != out[j].kind {
			return out[i].kind < out[j].kind
		}
		return out[i].val < out[j].val
	})
	return out
}

func firstSigDiff(a, b []sigTok) string {
	for i := 0; i < len(a) || i < len(b); i++ {
		var x, y sigTok
		if i < len(a) {
			x = a[i]
		}
		if i < len(b) {
			y = b[i]
		}
		if x != y {
			return fmt.Sprintf("%s:%s/%s:%s", x.kind, x.val, y.kind, y.val)
		}
	}
	return ""
}

// ---------------------------------------------------------------- C04
func safely(what string, f func()) (why string) {
	defer func() {
		if r := recover(); r != nil {
			why = fmt.Sprintf("%s panicked: %v", what, r)
		}
	}()
	f()
	return ""
}

type nopVisitor struct{}

func (nopVisitor) Visit(ast.Node) ast.Visitor       { return nopVisitor{} }
func (nopVisitor) VisitMany([]ast.Node) ast.Visitor { return nopVisitor{} }
func (nopVisitor) Field(string) ast.Visitor         { return nopVisitor{} }
func (nopVisitor) Index(int) ast.Visitor            { return nopVisitor{} }

func init() {
	parseOracles["C04"] = func(e *entryPoint, x string) (string, string, bool) {
		r := callEntry(e, "", x)
		if r.panicked {
			return "", "", true // C03's business
		}
		var roots []ast.Node
		for _, n := range r.nodes {
			if !isNilNode(n) {
				roots = append(roots, n)
			}
		}
		var ns []nodeInfo
		if why := safely("reflection walk", func() { ns = allNodes(roots) }); why != "" {
			return "panic", why, false
		}
		noteTypes(ns)
		for _, ni := range ns {
			n := ni.node
			tn := typeName(n)
			if why := safely(tn+".SQL()", func() { _ = n.SQL() }); why != "" {
				return "sql-panic:" + tn, why, false
			}
			if why := safely(tn+".Pos()", func() { _ = n.Pos() }); why != "" {
				return "pos-panic:" + tn, why, false
			}
			if why := safely(tn+".End()", func() { _ = n.End() }); why != "" {
				return "end-panic:" + tn, why, false
			}
		}
		for _, root := range roots {
			root := root
			if why := safely("Walk", func() { ast.Walk(root, nopVisitor{}) }); why != "" {
				return "walk-panic", why, false
			}
			if why := safely("Inspect", func() { ast.Inspect(root, func(ast.Node) bool { return true }) }); why != "" {
				return "walk-panic", why, false
			}
			if why := safely("Preorder", func() {
				for range ast.Preorder(root) {
				}
			}); why != "" {
				return "walk-panic", why, false
			}
			// traversal with pruning, and Preorder loops left early (after 1, 2, half of the nodes)
			if why := safely("Inspect with pruning", func() {
				k := 0
				ast.Inspect(root, func(ast.Node) bool { k++; return k%3 != 0 })
			}); why != "" {
				return "walk-panic", why, false
			}
			for _, stop := range []int{1, 2, len(ns)/2 + 1} {
				stop := stop
				if why := safely("Preorder left early", func() {
					k := 0
					for range ast.Preorder(root) {
						k++
						if k >= stop {
							break
						}
					}
				}); why != "" {
					return "preorder-break-panic", why, false
				}
			}
		}
		if e.list && len(roots) > 0 {
			if why := safely("PreorderMany/WalkMany", func() {
				ast.WalkMany(roots, nopVisitor{})
				k := 0
				for range ast.PreorderMany(roots) {
					k++
					if k >= 2 {
						break
					}
				}
			}); why != "" {
				return "walk-panic", why, false
			}
		}
		return "", "", false
	}
}

// ---------------------------------------------------------------- C05
// token boundaries of x: starts and ends of the lexer's tokens, plus the split points inside ">>" and "<>"
func boundaries(x string) (starts, ends map[int]bool, ok bool) {
	toks, ok, bad := lexPublic(x)
	if !ok || bad != "" {
		return nil, nil, false
	}
	starts, ends = map[int]bool{}, map[int]bool{}
	for _, t := range toks {
		if t.Kind == token.TokenEOF {
			continue
		}
		starts[int(t.Pos)] = true
		ends[int(t.End)] = true
		if t.Kind == ">>" || t.Kind == "<>" {
			starts[int(t.Pos)+1] = true
			ends[int(t.Pos)+1] = true
		}
	}
	return starts, ends, true
}

func init() {
	parseOracles["C05"] = func(e *entryPoint, x string) (string, string, bool) {
		r := callEntry(e, "", x)
		if r.panicked {
			return "", "", true
		}
		clean := r.err == nil
		var roots []ast.Node
		for _, n := range r.nodes {
			if !isNilNode(n) {
				roots = append(roots, n)
			}
		}
		ns := allNodes(roots)
		if clean {
			stats.accepted++
			noteTypes(ns)
		}
		var starts, ends map[int]bool
		if clean {
			var ok bool
			starts, ends, ok = boundaries(x)
			if !ok {
				return "", "", true
			}
		}
		pos := make([]int, len(ns))
		end := make([]int, len(ns))
		for i, ni := range ns {
			p, q := int(ni.node.Pos()), int(ni.node.End())
			pos[i], end[i] = p, q
			tn := typeName(ni.node)
			if clean {
				if !(0 <= p && p < q && q <= len(x)) {
					return "range:" + tn, fmt.Sprintf("%s Pos=%d End=%d len=%d", tn, p, q, len(x)), false
				}
				if !starts[p] {
					return "pos-not-token-start:" + tn, fmt.Sprintf("%s Pos=%d", tn, p), false
				}
				if !ends[q] {
					return "end-not-token-end:" + tn, fmt.Sprintf("%s End=%d", tn, q), false
				}
			} else if !(0 <= p && p <= q && q <= len(x)) {
				return "range-err:" + tn, fmt.Sprintf("%s Pos=%d End=%d len=%d", tn, p, q, len(x)), false
			}
		}
		// nesting and sibling order
		lastChildEnd := map[int]int{}
		for i, ni := range ns {
			if ni.parent < 0 {
				continue
			}
			pp := ni.parent
			ptn := typeName(ns[pp].node)
			if pos[i] < pos[pp] || end[i] > end[pp] {
				return "nesting:" + ptn + "." + ni.ref.field, fmt.Sprintf("child %s [%d,%d) outside parent %s [%d,%d)", typeName(ni.node), pos[i], end[i], ptn, pos[pp], end[pp]), false
			}
			if _, isCT := ns[pp].node.(*ast.CreateTable); isCT {
				continue
			}
			if le, ok := lastChildEnd[pp]; ok && pos[i] < le {
				return "sibling-order:" + ptn + "." + ni.ref.field, fmt.Sprintf("child %s starts at %d before previous sibling ends at %d", typeName(ni.node), pos[i], le), false
			}
			lastChildEnd[pp] = end[i]
		}
		return "", "", false
	}
}

// ---------------------------------------------------------------- C06
var (
	exprIface  = reflect.TypeOf((*ast.Expr)(nil)).Elem()
	typeIface  = reflect.TypeOf((*ast.Type)(nil)).Elem()
	queryIface = reflect.TypeOf((*ast.QueryExpr)(nil)).Elem()
	stmtIface  = reflect.TypeOf((*ast.Statement)(nil)).Elem()
	ddlIface   = reflect.TypeOf((*ast.DDL)(nil)).Elem()
	dmlIface   = reflect.TypeOf((*ast.DML)(nil)).Elem()
)

var simpleTypeNames = map[string]bool{"BOOL": true, "INT64": true, "FLOAT32": true, "FLOAT64": true, "DATE": true, "TIMESTAMP": true,
	"NUMERIC": true, "STRING": true, "BYTES": true, "JSON": true, "TOKENLIST": true}

func c01Holds(e *entryPoint, x string) ([]ast.Node, bool) {
	k, _, sk := parseOracles["C01"](e, x)
	if sk || k != "" {
		return nil, false
	}
	n, ok := accepted(e, x)
	return n, ok
}

func init() {
	parseOracles["C06"] = func(e *entryPoint, x string) (string, string, bool) {
		roots, ok := c01Holds(e, x)
		if !ok {
			return "", "", true
		}
		stats.accepted++
		ns := allNodes(roots)
		noteTypes(ns)
		whole := dumpNodes(roots, posValidity, 0)
		for _, ni := range ns {
			n := ni.node
			tn := typeName(n)
			p, q := int(n.Pos()), int(n.End())
			if !(0 <= p && p < q && q <= len(x)) {
				return "", "", true // C05's business
			}
			// (a) stand-alone parse of the slice, for nodes sitting in an Expr/Type/QueryExpr/Statement position
			st := ni.ref.static
			var sub *entryPoint
			var pick func(r []ast.Node) ast.Node
			first := func(r []ast.Node) ast.Node { return r[0] }
			switch {
			case st == nil:
			case st == exprIface:
				sub, pick = entryByName("ParseExpr"), first
			case st == typeIface:
				sub, pick = entryByName("ParseType"), first
			case st == queryIface:
				sub = entryByName("ParseQuery")
				pick = func(r []ast.Node) ast.Node {
					qs := r[0].(*ast.QueryStatement)
					if qs.Hint != nil {
						return nil
					}
					return qs.Query
				}
			case st == stmtIface || st == ddlIface || st == dmlIface:
				sub, pick = entryByName("ParseStatement"), first
			}
			if sub != nil {
				skipA := false
				switch v := n.(type) {
				case *ast.Path:
					skipA = len(v.Idents) == 1
				case *ast.NamedType:
					skipA = len(v.Path) == 1 && simpleTypeNames[strings.ToUpper(v.Path[0].Name)]
				case *ast.Query:
					// a Query whose own text starts with WITH etc. is fine; nothing to skip
				}
				if !skipA {
					r := callEntry(sub, "", x[p:q])
					if r.panicked || r.err != nil {
						return "slice-reparse-fails:" + tn, fmt.Sprintf("%s [%d,%d) %q", tn, p, q, x[p:q]), false
					}
					got := pick(r.nodes)
					if got != nil {
						if d := firstDiff(reflect.ValueOf(n), reflect.ValueOf(got), posValidity, tn); d != "" {
							return "slice-reparse-differs:" + tn, fmt.Sprintf("%s [%d,%d) %q diff at %s", tn, p, q, x[p:q], d), false
						}
					}
				}
			}
			// (b) replace the range by SQL() padded with blanks
			y := x[:p] + " " + n.SQL() + " " + x[q:]
			r := callEntry(e, "", y)
			if r.panicked || r.err != nil {
				return "replace-reparse-fails:" + tn, fmt.Sprintf("%s [%d,%d) => %q", tn, p, q, y), false
			}
			if dumpNodes(r.nodes, posValidity, 0) != whole {
				return "replace-reparse-differs:" + tn, fmt.Sprintf("%s [%d,%d) => %q diff at %s", tn, p, q, y, nodesDiff(roots, r.nodes, posValidity)), false
			}
		}
		return "", "", false
	}
}

// ---------------------------------------------------------------- C08 (entry agreement part)
var specificOf = map[string][]string{
	"query": {"ParseQuery"}, "ddl": {"ParseDDL"}, "dml": {"ParseDML"}, "statement": {},
}

func init() {
	// input: the entry name is the SPECIFIC entry point (ParseQuery / ParseDDL / ParseDML / ParseStatement);
	// the sentence must be accepted by it and by ParseStatement with equal trees, and the list entry points
	// must accept "s", "s;", "s; s" with the same per-statement tree.
	parseOracles["C08"] = func(e *entryPoint, x string) (string, string, bool) {
		r := callEntry(e, "", x)
		if r.panicked {
			return "panic", r.panicVal, false
		}
		if r.err != nil {
			return "rejected:" + e.name, r.err.Error(), false
		}
		stats.accepted++
		noteTypes(allNodes(r.nodes))
		if e.name == "ParseExpr" || e.name == "ParseType" {
			return "", "", false
		}
		rs := callEntry(entryByName("ParseStatement"), "", x)
		if rs.panicked || rs.err != nil {
			return "rejected:ParseStatement", fmt.Sprint(rs.err, rs.panicVal), false
		}
		if d := nodesDiff(r.nodes, rs.nodes, posExact); d != "" {
			return "entry-points-differ:" + d, "", false
		}
		lists := []string{"ParseStatements"}
		switch e.name {
		case "ParseDDL":
			lists = append(lists, "ParseDDLs")
		case "ParseDML":
			lists = append(lists, "ParseDMLs")
		}
		for _, ln := range lists {
			le := entryByName(ln)
			for _, form := range []struct {
				text string
				n    int
			}{{x, 1}, {x + "\n;", 1}, {x + "\n ; " + x, 2}, {x + "\n;\n" + x + "\n;", 2}} {
				rl := callEntry(le, "", form.text)
				if rl.panicked || rl.err != nil {
					return "list-rejected:" + ln, fmt.Sprint(rl.err, rl.panicVal, " text=", form.text), false
				}
				if len(rl.nodes) != form.n {
					return "list-length:" + ln, form.text, false
				}
				if d := firstDiff(reflect.ValueOf(rl.nodes[0]), reflect.ValueOf(r.nodes[0]), posExact, "root"); d != "" {
					return "list-element-differs:" + ln + ":" + d, form.text, false
				}
			}
		}
		return "", "", false
	}
}

// ---------------------------------------------------------------- C09
func countBadNodes(ns []nodeInfo) (bad int, anyBad bool) {
	for _, n := range ns {
		if _, ok := n.node.(*ast.BadNode); ok {
			bad++
		}
		if isBad(n.node) {
			anyBad = true
		}
	}
	return
}

func init() {
	parseOracles["C09"] = func(e *entryPoint, x string) (string, string, bool) {
		r := callEntry(e, "p.sql", x)
		if r.panicked {
			return "", "", true // C03
		}
		var roots []ast.Node
		for _, n := range r.nodes {
			if !isNilNode(n) {
				roots = append(roots, n)
			}
		}
		ns := allNodes(roots)
		nbad, anyBad := countBadNodes(ns)
		if r.err == nil {
			stats.accepted++
			if anyBad {
				return "nil-error-with-bad-node", "", false
			}
			// whole input consumed: every token is inside the returned node(s), except ';' for lists
			toks, ok, _ := lexPublic(x)
			if !ok {
				return "nil-error-on-unlexable-input", "", false
			}
			// the token stream itself must reach the end of the input (an <eof> token before that hides the rest from every check below)
			if n := len(toks); n == 0 || toks[n-1].Kind != token.TokenEOF || int(toks[n-1].End) != len(x) {
				return "nil-error-but-input-remains", fmt.Sprintf("the token stream ends before the input does (%d bytes)", len(x)), false
			}
			for ti, t := range toks {
				if t.Kind == token.TokenEOF && ti != len(toks)-1 {
					return "nil-error-but-input-remains", fmt.Sprintf("<eof> token at %d in the middle of the input", t.Pos), false
				}
				if t.Kind == token.TokenEOF || (e.list && t.Kind == ";") {
					continue
				}
				// a trailing comma of a select list (documented as optional) is consumed but belongs to no node
				if t.Kind == "," && ti+1 < len(toks) && (toks[ti+1].Kind == token.TokenEOF || toks[ti+1].Kind == ";") {
					continue
				}
				in := false
				for _, rt := range roots {
					// overlap, not containment: whether node ranges are exact is C05/C06's business; a token the parser
					// did not consume lies entirely after the returned tree
					if int(t.Pos) < int(rt.End()) && int(rt.Pos()) < int(t.End) {
						in = true
					}
				}
				if !in {
					return "nil-error-but-input-remains", fmt.Sprintf("token %q at %d outside the returned tree", t.Raw, t.Pos), false
				}
			}
			return "", "", false
		}
		me, ok := r.err.(memefish.MultiError)
		if !ok {
			return "error-not-MultiError", fmt.Sprintf("%T", r.err), false
		}
		if len(me) == 0 {
			return "empty-MultiError", "", false
		}
		if len(me) < nbad {
			return "fewer-errors-than-bad-nodes", fmt.Sprintf("%d errors, %d BadNode", len(me), nbad), false
		}
		for _, er := range me {
			if er == nil || er.Message == "" || er.Position == nil {
				return "error-without-message-or-position", "", false
			}
			p, q := int(er.Position.Pos), int(er.Position.End)
			if !(0 <= p && p <= q && q <= len(x)) {
				return "error-position-out-of-range", fmt.Sprintf("Pos=%d End=%d len=%d msg=%s", p, q, len(x), er.Message), false
			}
		}
		return "", "", false
	}
}

// ---------------------------------------------------------------- C10
func lexRecovery(s string) (toks []token.Token, ok bool) {
	defer func() {
		if r := recover(); r != nil {
			ok = false
		}
	}()
	l := &memefish.Lexer{File: &token.File{Buffer: s}}
	for n := 0; n < 2*len(s)+4; n++ {
		if err := l.VerifNextToken(true); err != nil {
			return nil, false
		}
		toks = append(toks, l.Token)
		if l.Token.Kind == token.TokenEOF {
			return toks, true
		}
	}
	return nil, false
}

func init() {
	parseOracles["C10"] = func(e *entryPoint, x string) (string, string, bool) {
		r := callEntry(e, "", x)
		if r.panicked {
			return "", "", true
		}
		var roots []ast.Node
		for _, n := range r.nodes {
			if !isNilNode(n) {
				roots = append(roots, n)
			}
		}
		ns := allNodes(roots)
		all, ok := lexRecovery(x)
		if !ok {
			return "", "", true
		}
		found := false
		for _, ni := range ns {
			b, isB := ni.node.(*ast.BadNode)
			if !isB {
				continue
			}
			found = true
			p, q := int(b.NodePos), int(b.NodeEnd)
			if !(0 <= p && p <= q && q <= len(x)) {
				return "bad-range", fmt.Sprintf("[%d,%d) len=%d", p, q, len(x)), false
			}
			if len(b.Tokens) == 0 {
				if p != q {
					return "empty-bad-node-with-range", fmt.Sprintf("[%d,%d)", p, q), false
				}
				continue
			}
			// expected: the recovery-mode tokens of the input lying in [p,q)
			var want []token.Token
			for _, t := range all {
				if t.Kind == token.TokenEOF {
					continue
				}
				tp := int(t.Pos)
				if t.Kind == ">>" && tp+1 == p { // the second half of a split ">>"
					tp = p
				}
				if p <= tp && int(t.End) <= q && int(t.End) > p {
					want = append(want, t)
				}
			}
			if len(want) != len(b.Tokens) {
				return "bad-token-count", fmt.Sprintf("[%d,%d) has %d tokens, input range has %d", p, q, len(b.Tokens), len(want)), false
			}
			for i, t := range b.Tokens {
				w := want[i]
				kindOK := t.Kind == w.Kind || (w.Kind == ">>" && t.Kind == ">")
				if !kindOK || t.Raw != w.Raw || t.End != w.End {
					return "bad-token-differs", fmt.Sprintf("token %d: %s %q vs %s %q", i, t.Kind, t.Raw, w.Kind, w.Raw), false
				}
			}
			if int(b.Tokens[0].Pos) != p {
				return "bad-pos-not-first-token", fmt.Sprintf("NodePos=%d first=%d", p, b.Tokens[0].Pos), false
			}
			if int(b.Tokens[len(b.Tokens)-1].End) != q {
				return "bad-end-not-last-token", fmt.Sprintf("NodeEnd=%d last=%d", q, b.Tokens[len(b.Tokens)-1].End), false
			}
			// SQL() of the Bad node re-lexes to the same kinds and spellings
			sql := b.SQL()
			// the lexer's dot-identifier mode depends on the token before a '.': re-lex in the state the Bad node started in,
			// i.e. with the raw text of the preceding input token in front when the node starts with '.'
			ctx := ""
			if b.Tokens[0].Kind == "." {
				for _, t := range all {
					if int(t.End) <= p && t.Kind != token.TokenEOF {
						ctx = t.Raw + " "
					}
				}
			}
			re, ok := lexRecovery(ctx + sql)
			if !ok {
				return "bad-sql-does-not-lex", sql, false
			}
			re = re[:len(re)-1]
			if ctx != "" && len(re) > 0 {
				re = re[1:]
			}
			// a split ">>" keeps Raw ">>" with kind ">"; it re-lexes as ">>": compare spellings, and kinds modulo that
			if len(re) != len(b.Tokens) {
				return "bad-sql-relex-count", fmt.Sprintf("%q: %d vs %d", sql, len(re), len(b.Tokens)), false
			}
			for i, t := range b.Tokens {
				if re[i].Raw != t.Raw || !(re[i].Kind == t.Kind || (re[i].Kind == ">>" && t.Kind == ">")) {
					return "bad-sql-relex-differs", fmt.Sprintf("%q token %d: %s %q vs %s %q", sql, i, re[i].Kind, re[i].Raw, t.Kind, t.Raw), false
				}
			}
		}
		if found {
			stats.accepted++
		}
		return "", "", !found
	}
}

// ---------------------------------------------------------------- C11
var singleOf = map[string]string{"ParseStatements": "ParseStatement", "ParseDDLs": "ParseDDL", "ParseDMLs": "ParseDML"}

func init() {
	parseOracles["C11"] = func(e *entryPoint, x string) (string, string, bool) {
		sn, ok := singleOf[e.name]
		if !ok {
			return "", "", true
		}
		single := entryByName(sn)
		pieces, err := memefish.SplitRawStatements("", x)
		if err != nil {
			return "", "", true // does not lex
		}
		rl := callEntry(e, "", x)
		if rl.panicked {
			return "", "", true
		}
		allOK := true
		var alone [][]ast.Node
		var offs []int
		for _, pc := range pieces {
			toks, lok, _ := lexPublic(pc.Statement)
			if !lok || len(toks) <= 1 {
				continue // empty statement (no token)
			}
			r := callEntry(single, "", pc.Statement)
			if r.panicked || r.err != nil {
				allOK = false
				continue
			}
			alone = append(alone, r.nodes)
			offs = append(offs, int(pc.Pos))
		}
		if (rl.err == nil) != allOK {
			return "list-vs-pieces-acceptance", fmt.Sprintf("list error=%v, all pieces accepted=%v", rl.err, allOK), false
		}
		if rl.err != nil {
			return "", "", false
		}
		stats.accepted++
		if len(rl.nodes) != len(alone) {
			return "list-length", fmt.Sprintf("%d statements vs %d non-empty pieces", len(rl.nodes), len(alone)), false
		}
		for i := range alone {
			a := dumpNode(rl.nodes[i], posExact, 0)
			b := dumpNode(alone[i][0], posExact, offs[i])
			if a != b {
				return "statement-differs", fmt.Sprintf("statement %d: %s", i, firstDiff(reflect.ValueOf(rl.nodes[i]), reflect.ValueOf(alone[i][0]), posValidity, "root")), false
			}
		}
		return "", "", false
	}
}

// findingTags names the structural features of the parsed input that recorded known findings are keyed on
// (see /verif/known_findings.json); "-" when none is present.
func findingTags(e *entryPoint, x string) string {
	var tags []string
	add := func(t string) {
		for _, u := range tags {
			if u == t {
				return
			}
		}
		tags = append(tags, t)
	}
	r := callEntry(e, "", x)
	if r.panicked {
		return "-"
	}
	for _, ni := range allNodes(r.nodes) {
		switch n := ni.node.(type) {
		case *ast.Join:
			if n.Method != "" {
				add("join-method")
			}
		case *ast.CreateTable:
			if !n.PrimaryKeyRparen.Invalid() && len(n.PrimaryKeys) == 0 {
				add("empty-primary-key")
			}
		case *ast.ChangeStreamForAll:
			add("change-stream-for-all")
		case *ast.SimpleType:
			if p := int(n.NamePos); p >= 0 && p < len(x) && x[p] == '`' {
				add("quoted-builtin-type-name")
			}
		case *ast.ScalarSchemaType:
			if p := int(n.NamePos); p >= 0 && p < len(x) && x[p] == '`' {
				add("quoted-builtin-type-name")
			}
		case *ast.SizedSchemaType:
			if p := int(n.NamePos); p >= 0 && p < len(x) && x[p] == '`' {
				add("quoted-builtin-type-name")
			}
		case *ast.BadNode:
			for _, t := range n.Tokens {
				if t.Raw == "" && len(t.Comments) > 0 {
					add("bad-unterminated-comment")
				}
			}
			// the last skipped token is a number glued to an identifier character that lies OUTSIDE the node (a stop keyword
			// such as THEN / FROM / AS follows without a space): the recovery lexer calls the number <bad> because of that next byte
			if k := len(n.Tokens); k > 0 {
				t := n.Tokens[k-1]
				if t.Kind == token.TokenBad && t.Raw != "" && (t.Raw[0] == '.' || (t.Raw[0] >= '0' && t.Raw[0] <= '9')) &&
					int(t.End) < len(x) && char.IsIdentPart(x[t.End]) {
					add("bad-glued-number-at-end")
				}
			}
		}
	}
	// a back-quoted identifier whose bare spelling is a pseudo keyword in column-definition / TVF-argument / SELECT AS position
	if toks, ok, _ := lexPublic(x); ok {
		for _, t := range toks {
			if t.Kind == token.TokenIdent && strings.HasPrefix(t.Raw, "`") {
				switch strings.ToUpper(t.AsString) {
				case "CHECK", "CONSTRAINT", "FOREIGN", "SYNONYM", "SEQUENCE", "VALUE":
					add("quoted-pseudo-keyword")
				}
			}
		}
	}
	if len(tags) == 0 {
		return "-"
	}
	return strings.Join(tags, ",")
}
