module verifharness

go 1.23.0

require github.com/cloudspannerecosystem/memefish v0.0.0

replace github.com/cloudspannerecosystem/memefish => /repo
