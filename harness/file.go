package main

import (
	"fmt"
	"strings"

	"github.com/cloudspannerecosystem/memefish"
	"github.com/cloudspannerecosystem/memefish/token"
)

func init() {
	commands["file-exh"] = fileExh
	commands["file-cases"] = fileCases
	commands["file-exh-h"] = fileExhHistory
	commands["file-cases-h"] = fileCasesHistory
	commands["errstr-cases"] = errstrCases
}

func fileCase(text string, pos, end int) {
	defer func() {
		if r := recover(); r != nil {
			fmt.Fprintf(out, "%s %d %d CRASH\n", hx(text), pos, end)
		}
	}()
	f := &token.File{FilePath: "", Buffer: text}
	p := f.Position(token.Pos(pos), token.Pos(end))
	fmt.Fprintf(out, "%s %d %d %d %d %d %d %s\n", hx(text), pos, end, p.Line, p.Column, p.EndLine, p.EndColumn, hx(p.Source))
}

var fileAlphabet = []string{"a", "\n", "\r", "\xc3\xa9"}

func fileExh(args []string) {
	maxlen := atoi(args[0])
	var rec func(prefix string, n int)
	rec = func(prefix string, n int) {
		l := len(prefix)
		for p := -1; p <= l+1; p++ {
			for e := -1; e <= l+1; e++ {
				fileCase(prefix, p, e)
			}
		}
		if n < maxlen {
			for _, s := range fileAlphabet {
				rec(prefix+s, n+1)
			}
		}
	}
	rec("", 0)
}

func fileCases(args []string) {
	stdinLines(func(line string) {
		f := strings.Fields(line)
		if len(f) != 3 {
			return
		}
		fileCase(unhx(f[0]), atoi(f[1]), atoi(f[2]))
	})
}

// errstr-cases: path_hex text_hex pos end msg_hex -> hex of (*memefish.Error).Error()
func errstrCases(args []string) {
	stdinLines(func(line string) {
		f := strings.Fields(line)
		if len(f) != 5 {
			return
		}
		func() {
			defer func() {
				if r := recover(); r != nil {
					fmt.Fprintln(out, "CRASH")
				}
			}()
			file := &token.File{FilePath: unhx(f[0]), Buffer: unhx(f[1])}
			e := &memefish.Error{Message: unhx(f[4]), Position: file.Position(token.Pos(atoi(f[2])), token.Pos(atoi(f[3])))}
			fmt.Fprintln(out, hx(e.Error()))
		}()
	})
}

// errs-of: for each input (hex) run every entry point, the lexer and the splitter; print one line
// per returned *Error:  path_hex text_hex pos end msg_hex | errorstring_hex
func errsOf(args []string) {
	path := "p.sql"
	stdinLines(func(line string) {
		s := unhx(strings.TrimSpace(line))
		emit := func(es []*memefish.Error) {
			for _, e := range es {
				if e == nil || e.Position == nil {
					continue
				}
				fmt.Fprintf(out, "%s %s %d %d %s | %s\n", hx(path), hx(s), e.Position.Pos, e.Position.End, hx(e.Message), hx(e.Error()))
			}
		}
		for i := range entryPoints {
			r := callEntry(&entryPoints[i], path, s)
			if !r.panicked {
				emit(allErrors(r.err))
			}
		}
		func() {
			defer func() { recover() }()
			_, err := memefish.SplitRawStatements(path, s)
			emit(allErrors(err))
		}()
	})
}

func init() { commands["errs-of"] = errsOf }

// History variants: ONE token.File per text is reused for the whole sequence of Position calls (ascending, then
// descending order of (pos, end)), the way a parser reuses its File for every error it reports.  Position is
// specified as a function of (text, pos, end), so every answer must equal the fresh-File answer.
func fileLineOn(f *token.File, text string, pos, end int) (line string) {
	defer func() {
		if r := recover(); r != nil {
			line = fmt.Sprintf("%s %d %d CRASH", hx(text), pos, end)
		}
	}()
	p := f.Position(token.Pos(pos), token.Pos(end))
	return fmt.Sprintf("%s %d %d %d %d %d %d %s", hx(text), pos, end, p.Line, p.Column, p.EndLine, p.EndColumn, hx(p.Source))
}

func fileExhHistory(args []string) {
	maxlen := atoi(args[0])
	var rec func(prefix string, n int)
	rec = func(prefix string, n int) {
		l := len(prefix)
		f := &token.File{FilePath: "", Buffer: prefix}
		for p := -1; p <= l+1; p++ {
			for e := -1; e <= l+1; e++ {
				fmt.Fprintln(out, fileLineOn(f, prefix, p, e))
			}
		}
		// descending pass on the same File, printed in ascending order
		var lines []string
		for p := l + 1; p >= -1; p-- {
			for e := l + 1; e >= -1; e-- {
				lines = append(lines, fileLineOn(f, prefix, p, e))
			}
		}
		for i := len(lines) - 1; i >= 0; i-- {
			fmt.Fprintln(out, "D "+lines[i])
		}
		if n < maxlen {
			for _, s := range fileAlphabet {
				rec(prefix+s, n+1)
			}
		}
	}
	rec("", 0)
}

func fileCasesHistory(args []string) {
	var f *token.File
	stdinLines(func(line string) {
		fs := strings.Fields(line)
		if len(fs) != 3 {
			return
		}
		text := unhx(fs[0])
		if f == nil || f.Buffer != text {
			f = &token.File{FilePath: "", Buffer: text}
		}
		fmt.Fprintln(out, fileLineOn(f, text, atoi(fs[1]), atoi(fs[2])))
	})
}
