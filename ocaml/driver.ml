(* Correspondence driver: runs the extracted Coq models on the same cases as the Go harness
   and prints the same canonical lines.  Trusted for the correspondence only. *)
module M = Models
open M [@@warning "-33"]
type string = Stdlib.String.t

let byte_of_int (i : int) : byte = Obj.magic i
let int_of_byte (b : byte) : int = Obj.magic b
let rec nat_of_int n = if n <= 0 then O else S (nat_of_int (n - 1))
let rec int_of_nat = function O -> 0 | S n -> 1 + int_of_nat n
let rec pos_of_int n = if n <= 1 then XH else if n land 1 = 0 then XO (pos_of_int (n lsr 1)) else XI (pos_of_int (n lsr 1))
let rec int_of_pos = function XH -> 1 | XO p -> 2 * int_of_pos p | XI p -> 2 * int_of_pos p + 1
let z_of_int n = if n = 0 then Z0 else if n > 0 then Zpos (pos_of_int n) else Zneg (pos_of_int (-n))
let int_of_z = function Z0 -> 0 | Zpos p -> int_of_pos p | Zneg p -> - (int_of_pos p)
let n_of_int n = if n = 0 then N0 else Npos (pos_of_int n)
let int_of_n = function N0 -> 0 | Npos p -> int_of_pos p

let bytes_of_string (s : string) : byte list =
  let r = ref [] in
  for i = String.length s - 1 downto 0 do r := byte_of_int (Char.code s.[i]) :: !r done; !r
let string_of_bytes (l : byte list) : string =
  let b = Buffer.create 64 in List.iter (fun c -> Buffer.add_char b (Char.chr (int_of_byte c))) l; Buffer.contents b
let hex_of_string s = if s = "" then "-" else
  let b = Buffer.create (2 * String.length s) in
  String.iter (fun c -> Buffer.add_string b (Printf.sprintf "%02x" (Char.code c))) s; Buffer.contents b
let string_of_hex h = if h = "-" then "" else
  let n = String.length h / 2 in
  String.init n (fun i -> Char.chr (int_of_string ("0x" ^ String.sub h (2 * i) 2)))
let hexb l = hex_of_string (string_of_bytes l)

(* ---------- C20: token.File ---------- *)
let file_case out text pos end_ =
  let b = bytes_of_string text in
  (match position_of b (z_of_int pos) (z_of_int end_) with
   | None -> Printf.fprintf out "%s %d %d CRASH\n" (hex_of_string text) pos end_
   | Some p ->
     Printf.fprintf out "%s %d %d %d %d %d %d %s\n" (hex_of_string text) pos end_
       (int_of_z p.p_line) (int_of_z p.p_col) (int_of_z p.p_eline) (int_of_z p.p_ecol) (hexb p.p_source))

let file_alphabet = [| "a"; "\n"; "\r"; "\xc3\xa9" |]

let file_exh out maxlen =
  let rec go prefix len =
    let n = String.length prefix in
    for p = -1 to n + 1 do for e = -1 to n + 1 do file_case out prefix p e done done;
    if len < maxlen then Array.iter (fun s -> go (prefix ^ s) (len + 1)) file_alphabet
  in go "" 0

let file_cases out =
  try while true do
    let line = input_line stdin in
    match String.split_on_char ' ' line with
    | [h; p; e] -> file_case out (string_of_hex h) (int_of_string p) (int_of_string e)
    | _ -> ()
  done with End_of_file -> ()

let errstr_cases out =
  (* path_hex text_hex pos end msg_hex -> hex of Error.Error() *)
  try while true do
    let line = input_line stdin in
    match String.split_on_char ' ' line with
    | [ph; h; p; e; mh] ->
      let b = bytes_of_string (string_of_hex h) in
      (match position_of b (z_of_int (int_of_string p)) (z_of_int (int_of_string e)) with
       | None -> Printf.fprintf out "CRASH\n"
       | Some pp -> Printf.fprintf out "%s\n" (hexb (error_string (bytes_of_string (string_of_hex ph)) pp (bytes_of_string (string_of_hex mh)))))
    | _ -> ()
  done with End_of_file -> ()

let () =
  let out = stdout in
  (match Array.to_list Sys.argv |> List.tl with
   | ["file-exh"; n] -> file_exh out (int_of_string n)
   | ["file-cases"] -> file_cases out
   | ["errstr-cases"] -> errstr_cases out
   | _ -> prerr_endline "usage: driver <cmd>"; exit 2);
  flush out
