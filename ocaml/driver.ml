(* Correspondence driver: runs the extracted Coq models on the same cases as the Go harness
   and prints the same canonical lines.  Trusted for the correspondence only. *)
module M = Models
open M [@@warning "-33"]
type string = Stdlib.String.t

let byte_of_int (i : int) : byte = Obj.magic i
let int_of_byte (b : byte) : int = Obj.magic b
let rec nat_of_int n = if n <= 0 then O else S (nat_of_int (n - 1))
let rec int_of_nat = function O -> 0 | S n -> 1 + int_of_nat n
let rec pos_of_int n = if n <= 1 then XH else if n land 1 = 0 then XO (pos_of_int (n lsr 1)) else XI (pos_of_int (n lsr 1))
let rec int_of_pos = function XH -> 1 | XO p -> 2 * int_of_pos p | XI p -> 2 * int_of_pos p + 1
let z_of_int n = if n = 0 then Z0 else if n > 0 then Zpos (pos_of_int n) else Zneg (pos_of_int (-n))
let int_of_z = function Z0 -> 0 | Zpos p -> int_of_pos p | Zneg p -> - (int_of_pos p)
let n_of_int n = if n = 0 then N0 else Npos (pos_of_int n)
let int_of_n = function N0 -> 0 | Npos p -> int_of_pos p

let bytes_of_string (s : string) : byte list =
  let r = ref [] in
  for i = String.length s - 1 downto 0 do r := byte_of_int (Char.code s.[i]) :: !r done; !r
let string_of_bytes (l : byte list) : string =
  let b = Buffer.create 64 in List.iter (fun c -> Buffer.add_char b (Char.chr (int_of_byte c))) l; Buffer.contents b
let hex_of_string s = if s = "" then "-" else
  let b = Buffer.create (2 * String.length s) in
  String.iter (fun c -> Buffer.add_string b (Printf.sprintf "%02x" (Char.code c))) s; Buffer.contents b
let string_of_hex h = if h = "-" then "" else
  let n = String.length h / 2 in
  String.init n (fun i -> Char.chr (int_of_string ("0x" ^ String.sub h (2 * i) 2)))
let hexb l = hex_of_string (string_of_bytes l)

let hash_mask = (1 lsl 40) - 1
let hash_str h s =
  let h = ref h in
  String.iter (fun c -> h := (!h * 1000003 + Char.code c) land hash_mask) s; !h

(* ---------- C20: token.File ---------- *)
let file_case out text pos end_ =
  let b = bytes_of_string text in
  (match position_of b (z_of_int pos) (z_of_int end_) with
   | None -> Printf.fprintf out "%s %d %d CRASH\n" (hex_of_string text) pos end_
   | Some p ->
     Printf.fprintf out "%s %d %d %d %d %d %d %s\n" (hex_of_string text) pos end_
       (int_of_z p.p_line) (int_of_z p.p_col) (int_of_z p.p_eline) (int_of_z p.p_ecol) (hexb p.p_source))

let file_alphabet = [| "a"; "\n"; "\r"; "\xc3\xa9" |]

let file_exh out maxlen =
  let rec go prefix len =
    let n = String.length prefix in
    for p = -1 to n + 1 do for e = -1 to n + 1 do file_case out prefix p e done done;
    if len < maxlen then Array.iter (fun s -> go (prefix ^ s) (len + 1)) file_alphabet
  in go "" 0

let file_cases out =
  try while true do
    let line = input_line stdin in
    match String.split_on_char ' ' line with
    | [h; p; e] -> file_case out (string_of_hex h) (int_of_string p) (int_of_string e)
    | _ -> ()
  done with End_of_file -> ()

let errstr_cases out =
  (* path_hex text_hex pos end msg_hex -> hex of Error.Error() *)
  try while true do
    let line = input_line stdin in
    match String.split_on_char ' ' line with
    | [ph; h; p; e; mh] ->
      let b = bytes_of_string (string_of_hex h) in
      (match position_of b (z_of_int (int_of_string p)) (z_of_int (int_of_string e)) with
       | None -> Printf.fprintf out "CRASH\n"
       | Some pp -> Printf.fprintf out "%s\n" (hexb (error_string (bytes_of_string (string_of_hex ph)) pp (bytes_of_string (string_of_hex mh)))))
    | _ -> ()
  done with End_of_file -> ()


(* ---------- lexer (C13, C12, C03, C10, C14) ---------- *)
let class_name = function
  | E_illegal_char -> "illegal_char" | E_number_ident -> "number_ident" | E_empty_ident -> "empty_ident"
  | E_escape_eof -> "escape_eof" | E_hex2 -> "hex2" | E_parse_uint -> "parse_uint" | E_u_in_bytes -> "u_in_bytes"
  | E_u_digits -> "u_digits" | E_code_point -> "code_point" | E_octal3 -> "octal3" | E_bad_escape -> "bad_escape"
  | E_newline -> "newline" | E_unclosed -> "unclosed" | E_unclosed_comment -> "unclosed_comment"

let tok_string b (t : token) lpos dot proj =
  let comments () =
    List.iter (fun c -> Printf.bprintf b ",%s,%s,%d,%d" (hexb c.c_space) (hexb c.c_raw) (int_of_nat c.c_pos) (int_of_nat c.c_end))
      t.t_comments in
  match proj with
  | "c13" ->
    Printf.bprintf b "%d,%d,%d,%s,%s,%d" (if t.t_kind = bytes_of_string "<eof>" then 1 else 0) (int_of_nat t.t_pos) (int_of_nat t.t_end)
      (hexb t.t_raw) (hexb t.t_space) (List.length t.t_comments);
    comments ()
  | "c14" ->
    Printf.bprintf b "%s,%d,%d,%s,%d" (hexb t.t_kind) (int_of_nat t.t_pos) (int_of_nat t.t_end) (hexb t.t_str) (int_of_nat t.t_base)
  | _ ->
    Printf.bprintf b "%s,%d,%d,%s,%s,%d,%s,%d,%d,%d" (hexb t.t_kind) (int_of_nat t.t_pos) (int_of_nat t.t_end)
      (hexb t.t_raw) (hexb t.t_str) (int_of_nat t.t_base) (hexb t.t_space) lpos (if dot then 1 else 0)
      (List.length t.t_comments);
    comments ()

let k_eof = bytes_of_string "<eof>"

let lex_line (s : string) (np : bool) (proj : string) : string =
  let b = Buffer.create 256 in
  let limit = 2 * String.length s + 4 in
  let fail what =
    match proj with
    | "c13" -> "-"
    | "c14" -> if what = "CRASH" || what = "LOOP" then what else "ERR"
    | "c03" -> what
    | _ -> Buffer.contents b ^ "| " ^ what in
  let rec go l n =
    if n >= limit then fail "LOOP"
    else match next_token np l with
      | LCrash -> fail "CRASH"
      | LErr e ->
        if proj = "c03" then Printf.sprintf "ERR %d %d" (int_of_nat e.e_pos) (int_of_nat e.e_end)
        else fail (Printf.sprintf "ERR %d %d %s" (int_of_nat e.e_pos) (int_of_nat e.e_end) (class_name e.e_class))
      | LOk l' ->
        if proj <> "c03" then begin
          tok_string b l'.l_tok (int_of_nat l'.l_pos) l'.l_dot proj;
          Buffer.add_char b ' ' end;
        if l'.l_tok.t_kind = k_eof then (if proj = "c03" then "OK" else (Buffer.add_string b "| OK"; Buffer.contents b))
        else go l' (n + 1)
  in
  go (init_lexer (bytes_of_string s)) 0

(* ---------- quote (C15) ---------- *)
let isprint_table : (int * int) array ref = ref [||]
let load_isprint path =
  let ic = open_in path in
  let l = ref [] in
  (try while true do
      let line = input_line ic in
      match String.split_on_char ' ' line with
      | [a; b] -> l := (int_of_string a, int_of_string b) :: !l
      | _ -> ()
    done with End_of_file -> ());
  close_in ic;
  isprint_table := Array.of_list (List.rev !l)
let is_print_n (r : n) : bool =
  let r = int_of_n r in
  let t = !isprint_table in
  let lo = ref 0 and hi = ref (Array.length t - 1) and found = ref false in
  while not !found && !lo <= !hi do
    let mid = (!lo + !hi) / 2 in
    let (a, b) = t.(mid) in
    if r < a then hi := mid - 1 else if r > b then lo := mid + 1 else found := true
  done; !found

let quote_line (s : string) : string =
  let b = bytes_of_string s in
  Printf.sprintf "%s %s %s" (hexb (quote_string is_print_n b)) (hexb (quote_bytes b))
    (match quote_ident is_print_n b with None -> "CRASH" | Some q -> hexb q)

let quote_cases out =
  try while true do
    let s = string_of_hex (String.trim (input_line stdin)) in
    Printf.fprintf out "%s => %s\n" (hex_of_string s) (quote_line s)
  done with End_of_file -> ()

let encode_rune_int r = string_of_bytes (encode_rune (n_of_int r))

let quote_exh out mode a b c verbose =
  let count = ref 0 and h = ref 0 in
  let emit s =
    let blk = !count / 4096 in
    if verbose < 0 || blk = verbose then begin
      let line = quote_line s in
      if verbose >= 0 then Printf.fprintf out "%s => %s\n" (hex_of_string s) line
      else h := hash_str !h line
    end;
    incr count;
    if !count mod 4096 = 0 then begin (if verbose < 0 then Printf.fprintf out "%d %d\n" (!count / 4096) !h); h := 0 end in
  if mode = "bytes" then begin
    let maxlen = a and lo = b and hi = c in
    let rec go prefix n =
      emit prefix;
      if n < maxlen then for c = 0 to 255 do go (prefix ^ String.make 1 (Char.chr c)) (n + 1) done in
    if lo = 0 then emit "";
    for c = lo to hi - 1 do go (String.make 1 (Char.chr c)) 1 done
  end else begin
    for r = a to b - 1 do
      if not (r >= 0xD800 && r <= 0xDFFF) then emit ("a" ^ encode_rune_int r ^ "'")
    done
  end;
  if !count mod 4096 <> 0 && verbose < 0 then Printf.fprintf out "%d %d\n" (!count / 4096 + 1) !h

let utf8_sweep out =
  let h = ref 0 in
  for r = 0 to 0x110000 do
    let e = encode_rune_int r in
    let sp = if is_space_rune (n_of_int r) then 1 else 0 in
    h := hash_str !h (Printf.sprintf "%d %s %d;" r (hex_of_string e) sp)
  done;
  Printf.fprintf out "encode %d\n" !h;
  h := 0;
  let bnd = [0x00; 0x7f; 0x80; 0x8f; 0x90; 0x9f; 0xa0; 0xbf; 0xc0; 0xc1; 0xc2; 0xdf; 0xe0; 0xe1; 0xec; 0xed; 0xee; 0xef; 0xf0; 0xf1; 0xf3; 0xf4; 0xf5; 0xff] in
  let str l = String.init (List.length l) (fun i -> Char.chr (List.nth l i)) in
  let dec s =
    let (r, n) = decode_rune (bytes_of_string s) in
    h := hash_str !h (Printf.sprintf "%s %d %d;" (hex_of_string s) (int_of_n r) (int_of_nat n)) in
  dec "";
  for a = 0 to 255 do
    dec (str [a]);
    for b = 0 to 255 do dec (str [a; b]) done
  done;
  List.iter (fun a -> List.iter (fun b -> List.iter (fun c ->
    dec (str [a; b; c]);
    List.iter (fun d -> dec (str [a; b; c; d])) bnd) bnd) bnd) bnd;
  Printf.fprintf out "decode %d\n" !h

(* ---------- split (C12) ---------- *)
let split_line (s : string) : string =
  match split (bytes_of_string s) with
  | LCrash -> "CRASH"
  | LErr e -> Printf.sprintf "ERR %d %d" (int_of_nat e.e_pos) (int_of_nat e.e_end)
  | LOk ps ->
    let b = Buffer.create 128 in
    List.iter (fun p -> Printf.bprintf b "%d,%d,%s " (int_of_nat p.pc_pos) (int_of_nat p.pc_end) (hexb p.pc_stmt)) ps;
    Buffer.add_string b "| OK"; Buffer.contents b

(* the REFERENCE lexer (Lex/Reference.v), same line format as projection c14r of the implementation *)
let ref_line (s : string) : string =
  match ref_lex (bytes_of_string s) with
  | None -> "ERR"
  | Some ts ->
    let b = Buffer.create 128 in
    List.iter (fun (((k, r), v), base) -> Printf.bprintf b "%s,%s,%s,%d " (hexb k) (hexb r) (hexb v) (int_of_nat base)) ts;
    Buffer.add_string b "| OK"; Buffer.contents b

let line_fn proj s np =
  if proj = "fn:split" then split_line s else if proj = "c14r" then ref_line s else lex_line s np proj

let split_cases out =
  try while true do
    let s = string_of_hex (String.trim (input_line stdin)) in
    Printf.fprintf out "%s => %s\n" (hex_of_string s) (split_line s)
  done with End_of_file -> ()

let lex_cases out np proj =
  try while true do
    let line = String.trim (input_line stdin) in
    let s = string_of_hex line in
    Printf.fprintf out "%s => %s\n" (hex_of_string s) (line_fn proj s np)
  done with End_of_file -> ()


let lex_exh out alpha maxlen np prefix0 first proj verbose =
  let alpha = List.map string_of_hex (String.split_on_char ',' alpha) in
  let count = ref 0 and h = ref 0 in
  let flush () = (if verbose < 0 then Printf.fprintf out "%d %d\n" (!count / 4096) !h); h := 0 in
  let rec go prefix n =
    let blk = !count / 4096 in
    if verbose < 0 || blk = verbose then begin
      let line = line_fn proj prefix np in
      if verbose >= 0 then Printf.fprintf out "%s => %s\n" (hex_of_string prefix) line
      else h := hash_str !h line
    end;
    incr count;
    if !count mod 4096 = 0 then flush ();
    if n < maxlen then List.iteri (fun k a -> if not (n = 0 && first >= 0 && k <> first) then go (prefix ^ a) (n + 1)) alpha
  in
  go prefix0 0;
  if !count mod 4096 <> 0 then begin count := (!count / 4096 + 1) * 4096; flush () end

let () =
  let out = stdout in
  (match Array.to_list Sys.argv |> List.tl with
   | ["file-exh"; n] -> file_exh out (int_of_string n)
   | ["file-cases"] -> file_cases out
   | ["errstr-cases"] -> errstr_cases out
   | ["split-cases"] -> split_cases out
   | ["quote-cases"; tbl] -> load_isprint tbl; quote_cases out
   | ["quote-exh"; tbl; "bytes"; n; lo; hi] -> load_isprint tbl; quote_exh out "bytes" (int_of_string n) (int_of_string lo) (int_of_string hi) (-1)
   | ["quote-exh"; tbl; "bytes"; n; lo; hi; v] -> load_isprint tbl; quote_exh out "bytes" (int_of_string n) (int_of_string lo) (int_of_string hi) (int_of_string v)
   | ["quote-exh"; tbl; "runes"; lo; hi] -> load_isprint tbl; quote_exh out "runes" (int_of_string lo) (int_of_string hi) 0 (-1)
   | ["quote-exh"; tbl; "runes"; lo; hi; v] -> load_isprint tbl; quote_exh out "runes" (int_of_string lo) (int_of_string hi) 0 (int_of_string v)
   | ["utf8-sweep"] -> utf8_sweep out
   | ["lex-cases"; m; proj] -> lex_cases out (m = "np") proj
   | ["lex-exh"; a; n; m; p; f; proj; _] -> lex_exh out a (int_of_string n) (m = "np") (string_of_hex p) (int_of_string f) proj (-1)
   | ["lex-exh"; a; n; m; p; f; proj; _; v] -> lex_exh out a (int_of_string n) (m = "np") (string_of_hex p) (int_of_string f) proj (int_of_string v)
   | args -> if not (Treedrv.run args) then (prerr_endline "usage: driver <cmd>"; exit 2));
  flush out
