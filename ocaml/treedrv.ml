(* Tree-level correspondence: parses the harness' universal-tree dumps and runs the extracted interpreters
   (generated position programs, traversal model, printer programs) on them.  Trusted for the correspondence only. *)
module M = Models
open M [@@warning "-33"]
type string = Stdlib.String.t

let byte_of_int (i : int) : byte = Obj.magic i
let int_of_byte (b : byte) : int = Obj.magic b
let rec nat_of_int n = if n <= 0 then O else S (nat_of_int (n - 1))
let rec int_of_nat = function O -> 0 | S n -> 1 + int_of_nat n
let rec pos_of_int n = if n <= 1 then XH else if n land 1 = 0 then XO (pos_of_int (n lsr 1)) else XI (pos_of_int (n lsr 1))
let rec int_of_pos = function XH -> 1 | XO p -> 2 * int_of_pos p | XI p -> 2 * int_of_pos p + 1
let z_of_int n = if n = 0 then Z0 else if n > 0 then Zpos (pos_of_int n) else Zneg (pos_of_int (-n))
let int_of_z = function Z0 -> 0 | Zpos p -> int_of_pos p | Zneg p -> - (int_of_pos p)
let bytes_of_string (s : string) : byte list =
  let r = ref [] in
  for i = String.length s - 1 downto 0 do r := byte_of_int (Char.code s.[i]) :: !r done; !r
let string_of_bytes (l : byte list) : string =
  let b = Buffer.create 64 in List.iter (fun c -> Buffer.add_char b (Char.chr (int_of_byte c))) l; Buffer.contents b
let string_of_hex h = if h = "-" then "" else
  let n = String.length h / 2 in
  String.init n (fun i -> Char.chr (int_of_string ("0x" ^ String.sub h (2 * i) 2)))
let hex_of_string s = if s = "" then "-" else
  let b = Buffer.create (2 * String.length s) in
  String.iter (fun c -> Buffer.add_string b (Printf.sprintf "%02x" (Char.code c))) s; Buffer.contents b

(* Coq strings (type [string] of Coq.Strings.String) <-> OCaml strings *)
let ascii_of_char (c : char) : ascii =
  let n = Char.code c in
  let b i = (n lsr i) land 1 = 1 in
  Ascii (b 0, b 1, b 2, b 3, b 4, b 5, b 6, b 7)
let char_of_ascii (Ascii (b0, b1, b2, b3, b4, b5, b6, b7)) : char =
  let v b i = if b then 1 lsl i else 0 in
  Char.chr (v b0 0 + v b1 1 + v b2 2 + v b3 3 + v b4 4 + v b5 5 + v b6 6 + v b7 7)
let coq_of_string (s : string) : M.string =
  let r = ref EmptyString in
  for i = String.length s - 1 downto 0 do r := String (ascii_of_char s.[i], !r) done; !r
let rec string_of_coq (s : M.string) : string =
  match s with EmptyString -> "" | String (c, r) -> String.make 1 (char_of_ascii c) ^ string_of_coq r

(* ---------- parser of the dump format: (Type f...) | (tok k r s Pn Pn) | [x...] | nil | Pn | B0 | B1 | In | Shex ---------- *)
exception Bad_dump of string
let parse_dump (s : string) : tree list =
  let n = String.length s in
  let i = ref 0 in
  let skip () = while !i < n && s.[!i] = ' ' do incr i done in
  let atom () =
    let st = !i in
    while !i < n && s.[!i] <> ' ' && s.[!i] <> ')' && s.[!i] <> ']' && s.[!i] <> '(' && s.[!i] <> '[' do incr i done;
    String.sub s st (!i - st) in
  let posnum a = int_of_string (String.sub a 1 (String.length a - 1)) in
  let rec value () : tree =
    skip ();
    if !i >= n then Stdlib.raise (Bad_dump "eof");
    match s.[!i] with
    | '(' ->
      incr i;
      let ty = atom () in
      if ty = "tok" then begin
        skip (); let k = atom () in skip (); let r = atom () in skip (); let a = atom () in
        skip (); let p = atom () in skip (); let e = atom () in skip ();
        let sep = if !i < n && s.[!i] = 'B' then (let a = atom () in skip (); a = "B1") else false in
        if !i < n && s.[!i] = ')' then incr i else Stdlib.raise (Bad_dump "tok )");
        TTok (bytes_of_string (string_of_hex k), bytes_of_string (string_of_hex r), bytes_of_string (string_of_hex a),
              z_of_int (posnum p), z_of_int (posnum e), sep)
      end else begin
        let fs = ref [] in
        skip ();
        while !i < n && s.[!i] <> ')' do fs := value () :: !fs; skip () done;
        if !i < n then incr i else Stdlib.raise (Bad_dump ")");
        TNode (coq_of_string ty, List.rev !fs)
      end
    | '[' ->
      incr i;
      let xs = ref [] in
      skip ();
      while !i < n && s.[!i] <> ']' do xs := value () :: !xs; skip () done;
      if !i < n then incr i else Stdlib.raise (Bad_dump "]");
      TList (List.rev !xs)
    | _ ->
      let a = atom () in
      if a = "nil" then TNil
      else if a = "" then Stdlib.raise (Bad_dump "empty atom")
      else match a.[0] with
        | 'P' -> TPos (z_of_int (posnum a))
        | 'B' -> TBool (a = "B1")
        | 'I' -> TInt (z_of_int (posnum a))
        | 'S' -> TStr (bytes_of_string (string_of_hex (String.sub a 1 (String.length a - 1))))
        | _ -> Stdlib.raise (Bad_dump ("atom " ^ a))
  in
  match value () with
  | TList l -> l
  | t -> [t]

(* all nodes in pre-order over node-typed fields in declaration order (as the harness' allNodes) *)
let rec all_nodes (t : tree) (acc : tree list ref) : unit =
  match t with
  | TNode (_, fs) -> acc := t :: !acc; List.iter (fun f -> all_nodes f acc) fs
  | TList l -> List.iter (fun f -> all_nodes f acc) l
  | _ -> ()

let ty_of = function TNode (ty, _) -> string_of_coq ty | _ -> "?"

(* ---------- input lines: "<entry> <hex> => <nerr> <dump>" ---------- *)
let each_case (f : string -> string -> tree list option -> unit) : unit =
  try while true do
    let line = input_line stdin in
    match String.index_opt line '=' with
    | None -> ()
    | Some k ->
      let head = String.trim (String.sub line 0 k) in
      let rest = String.sub line (k + 3) (String.length line - k - 3) in
      (match String.split_on_char ' ' head with
       | [entry; hex] ->
         if String.length rest >= 5 && String.sub rest 0 5 = "PANIC" then f entry hex None
         else begin
           let sp = String.index rest ' ' in
           let dump = String.sub rest (sp + 1) (String.length rest - sp - 1) in
           f entry hex (Some (parse_dump dump))
         end
       | _ -> ())
  done with End_of_file -> ()

let pe_str = function None -> "X" | Some (p, e) -> Printf.sprintf "%d,%d" (int_of_z p) (int_of_z e)

(* tree-pe: per node (pre-order) the (Pos,End) computed by the compiled-method model and by the documented expressions *)
let tree_pe out which =
  each_case (fun entry hex roots ->
      match roots with
      | None -> Printf.fprintf out "%s %s => PANIC\n" entry hex
      | Some roots ->
        let acc = ref [] in
        List.iter (fun r -> all_nodes r acc) roots;
        let ns = List.rev !acc in
        let b = Buffer.create 256 in
        List.iter (fun n ->
            let v = if which = "impl" then pe_impl Models.schema Models.pos_impl n else pe_spec Models.schema Models.pos_spec n in
            Buffer.add_string b (ty_of n); Buffer.add_char b ':'; Buffer.add_string b (pe_str v); Buffer.add_char b ' ') ns;
        Printf.fprintf out "%s %s => %s\n" entry hex (Buffer.contents b))

(* tree-walk m o: callback trace of Walk over every root with the recording visitor of the harness
   (prune the k-th Visit when k > 0 && k mod m = o; m = 0: never prune) *)
let tree_walk out m o many =
  each_case (fun entry hex roots ->
      match roots with
      | None -> Printf.fprintf out "%s %s => PANIC\n" entry hex
      | Some roots ->
        let roots = List.filter (function TNode _ -> true | _ -> false) roots in
        let pos_of n = match pe_impl Models.schema Models.pos_impl n with Some (p, _) -> int_of_z p | None -> -999 in
        let visit (k, ev) path a =
          let ev = Printf.sprintf "V %s %s@%d" path (ty_of a) (pos_of a) :: ev in
          ((k + 1, ev), if m > 0 && k > 0 && k mod m = o then None else Some path) in
        let visit_many (k, ev) path l = ((k, Printf.sprintf "M %s %d" path (List.length l) :: ev), path) in
        let field s path name = (s, path ^ "." ^ string_of_coq name) in
        let index s path i = (s, path ^ "[" ^ string_of_int (int_of_nat i) ^ "]") in
        let b = Buffer.create 256 in
        let emit res =
          (match res with
           | None -> Buffer.add_string b "OUT-OF-FUEL"
           | Some (_, ev) -> Buffer.add_string b (String.concat ";" (List.rev ev)));
          Buffer.add_string b " | " in
        if many then emit (walk_many visit visit_many field index (List.map (to_rose Models.schema) roots) "$" (0, []))
        else List.iter (fun r -> emit (walk visit visit_many field index (to_rose Models.schema r) "$" (0, []))) roots;
        Printf.fprintf out "%s %s => %s\n" entry hex (Buffer.contents b))

(* ---------- printer: SQL() of every node by the extracted interpreter on the regenerated programs ---------- *)
let isprint_table : (int * int) array ref = ref [||]
let load_isprint path =
  let ic = open_in path in
  let l = ref [] in
  (try while true do
       let line = input_line ic in
       match String.split_on_char ' ' line with
       | [a; b] -> l := (int_of_string a, int_of_string b) :: !l
       | _ -> ()
     done with End_of_file -> ());
  close_in ic;
  isprint_table := Array.of_list (List.rev !l)
let rec int_of_posn = function XH -> 1 | XO p -> 2 * int_of_posn p | XI p -> 2 * int_of_posn p + 1
let is_print_n (r : n) : bool =
  let r = match r with N0 -> 0 | Npos p -> int_of_posn p in
  let t = !isprint_table in
  let lo = ref 0 and hi = ref (Array.length t - 1) and found = ref false in
  while not !found && !lo <= !hi do
    let mid = (!lo + !hi) / 2 in
    let (a, b) = t.(mid) in
    if r < a then hi := mid - 1 else if r > b then lo := mid + 1 else found := true
  done; !found

let tree_sql out =
  each_case (fun entry hex roots ->
      match roots with
      | None -> Printf.fprintf out "%s %s => PANIC\n" entry hex
      | Some roots ->
        let b = Buffer.create 256 in
        (* info is computed once per root; every node's SQL is read off the annotated tree by re-running on the subtree *)
        let rec go (t : tree) =
          match t with
          | TNode (_, fs) ->
            let s = sql is_print_n Models.schema Models.sql_prog Models.prec_table t in
            Buffer.add_string b (ty_of t); Buffer.add_char b ':';
            Buffer.add_string b (match s with None -> "X" | Some v -> hex_of_string (string_of_bytes v));
            Buffer.add_char b ' ';
            List.iter go fs
          | TList l -> List.iter go l
          | _ -> () in
        List.iter go roots;
        Printf.fprintf out "%s %s => %s\n" entry hex (Buffer.contents b))

(* ---------- expression fragment: extracted parser model on the token list produced by the real lexer ---------- *)
let rec dump_tree (b : Buffer.t) (t : tree) : unit =
  match t with
  | TNil -> Buffer.add_string b "nil"
  | TPos p -> Buffer.add_string b ("P" ^ string_of_int (int_of_z p))
  | TBool v -> Buffer.add_string b (if v then "B1" else "B0")
  | TInt z -> Buffer.add_string b ("I" ^ string_of_int (int_of_z z))
  | TStr s -> Buffer.add_string b ("S" ^ hex_of_string (string_of_bytes s))
  | TList l -> Buffer.add_char b '['; List.iteri (fun i x -> if i > 0 then Buffer.add_char b ' '; dump_tree b x) l; Buffer.add_char b ']'
  | TTok (k, r, a, p, e, _) ->
    let hx s = if s = "" then "-" else hex_of_string s in
    Buffer.add_string b (Printf.sprintf "(tok %s %s %s P%d P%d)" (hx (string_of_bytes k)) (hx (string_of_bytes r)) (hx (string_of_bytes a)) (int_of_z p) (int_of_z e))
  | TNode (ty, fs) ->
    Buffer.add_char b '('; Buffer.add_string b (string_of_coq ty);
    List.iter (fun x -> Buffer.add_char b ' '; dump_tree b x) fs; Buffer.add_char b ')'

let parse_tok (s : string) : ptok =
  match String.split_on_char ',' s with
  | [k; r; a; p; e; bse] ->
    { pk = bytes_of_string (string_of_hex k); praw = bytes_of_string (string_of_hex r); pstr = bytes_of_string (string_of_hex a);
      ppos = z_of_int (int_of_string p); pend = z_of_int (int_of_string e); pbase = z_of_int (int_of_string bse) }
  | _ -> Stdlib.raise (Bad_dump ("token " ^ s))

let expr_model out =
  try while true do
    let line = input_line stdin in
    match String.split_on_char ' ' line with
    | [hex; "=>"; "LEXERR"] -> Printf.fprintf out "%s => LEXERR\n" hex
    | [hex; "=>"; toks] ->
      let ts = List.map parse_tok (List.filter (fun x -> x <> "") (String.split_on_char ';' toks)) in
      (* the hypothesis of the span theorems, evaluated on this real token list *)
      if not (input_okb ts) then Printf.fprintf out "%s => NOT-INPUT-OK\n" hex else
      (match parse_expr ts with
       | Ok (e, rest) ->
         let b = Buffer.create 256 in
         dump_tree b (to_tree e);
         (* epos/eend (proved equal to the generated Pos/End) must agree with the interpreter run on the generated programs *)
         (match pe_impl Models.schema Models.pos_impl (to_tree e) with
          | Some (p, q) when int_of_z p = int_of_z (epos e) && int_of_z q = int_of_z (eend e) -> ()
          | _ -> Buffer.add_string b " POS-MISMATCH");
         Printf.fprintf out "%s => OK %d %s\n" hex (List.length rest) (Buffer.contents b)
       | Err p -> Printf.fprintf out "%s => ERR %d\n" hex (int_of_z p)
       | Unsup -> Printf.fprintf out "%s => UNSUP\n" hex
       | Fuel -> Printf.fprintf out "%s => FUEL\n" hex)
    | _ -> ()
  done with End_of_file -> ()

(* type-model: lines "hex => <tokens>": the extracted model of the type grammar (Parse/TypeModel.v) on the real lexer's tokens *)
let type_model out =
  try while true do
    let line = input_line stdin in
    match String.split_on_char ' ' line with
    | [hex; "=>"; "LEXERR"] -> Printf.fprintf out "%s => LEXERR\n" hex
    | [hex; "=>"; toks] ->
      let ts = List.map parse_tok (List.filter (fun x -> x <> "") (String.split_on_char ';' toks)) in
      (* the hypotheses of the span theorem for types, evaluated on this real token list *)
      if not (type_input_okb ts) then Printf.fprintf out "%s => NOT-INPUT-OK\n" hex else
      (match parse_type ts with
       | Ok (t, _) ->
         let b = Buffer.create 256 in
         dump_tree b (ty_tree t);
         (match pe_impl Models.schema Models.pos_impl (ty_tree t) with
          | Some (p, q) when int_of_z p = int_of_z (ty_pos t) && int_of_z q = int_of_z (ty_end t) -> ()
          | _ -> Buffer.add_string b " POS-MISMATCH");
         Printf.fprintf out "%s => OK %s\n" hex (Buffer.contents b)
       | Err p -> Printf.fprintf out "%s => ERR %d\n" hex (int_of_z p)
       | Unsup -> Printf.fprintf out "%s => UNSUP\n" hex
       | Fuel -> Printf.fprintf out "%s => FUEL\n" hex)
    | _ -> ()
  done with End_of_file -> ()

(* type-recover: the total model of ParseType (Parse/TypeRecover.v): tree with Bad nodes, positions of all errors *)
let type_recover out =
  try while true do
    let line = input_line stdin in
    match String.split_on_char ' ' line with
    | [hex; "=>"; "LEXERR"] -> Printf.fprintf out "%s => LEXERR\n" hex
    | [hex; "=>"; toks] ->
      let ts = List.map parse_tok (List.filter (fun x -> x <> "") (String.split_on_char ';' toks)) in
      (match parse_typeR ts with
       | Some (t, errs) ->
         let b = Buffer.create 256 in
         dump_tree b (rty_tree t);
         Printf.fprintf out "%s => %d [%s] %d %s\n" hex (List.length errs) (String.concat "," (List.map (fun z -> string_of_int (int_of_z z)) errs))
           (int_of_nat (bads t)) (Buffer.contents b)
       | None -> Printf.fprintf out "%s => FUEL\n" hex)
    | _ -> ()
  done with End_of_file -> ()

(* type-c01: lines "<toks of x> | <toks of SQL(ParseType x)>": the hypotheses of the type round-trip theorem on real data: the tree the model
   returns for x is well formed (wf_tyb), and its spelling agrees with the tokens the real lexer produced for the printed text, every ">>"
   read as two closing brackets (same_type_tokensb) *)
let type_c01 out =
  let toks_of s = List.map parse_tok (List.filter (fun x -> x <> "") (String.split_on_char ';' (String.trim s))) in
  try while true do
    let line = input_line stdin in
    match String.split_on_char '|' line with
    | [a; b] ->
      (match parse_type (toks_of a) with
       | Ok (t, _) ->
         if not (wf_tyb t) then Printf.fprintf out "NOT-WF\n"
         else if same_type_tokensb (zspell t @ [eof_tok]) (unfuse (toks_of b)) then Printf.fprintf out "OK\n"
         else Printf.fprintf out "DIFF\n"
       | _ -> Printf.fprintf out "ERR\n")
    | _ -> Printf.fprintf out "BAD-LINE\n"
  done with End_of_file -> ()

(* stmt-model <entry>: the statement family of Parse/StmtModel.v (with recovery) under the entry points ParseDDL / ParseStatement and,
   through the list loop of Parse/ListLoop.v, ParseDDLs / ParseStatements; UNSUP when a statement outside the family is met *)
exception Outside
let stmt_model out entry =
  let sp0 = (match entry with "ParseDDL" | "ParseDDLs" -> sp_ddl | _ -> sp_stmt) in
  let sp ts = (match sp0 ts with Some r -> r | None -> Stdlib.raise Outside) in
  let many = (entry = "ParseDDLs" || entry = "ParseStatements") in
  try while true do
    let line = input_line stdin in
    match String.split_on_char ' ' line with
    | [hex; "=>"; "LEXERR"] -> Printf.fprintf out "%s => LEXERR\n" hex
    | [hex; "=>"; toks] ->
      let ts = List.map parse_tok (List.filter (fun x -> x <> "") (String.split_on_char ';' toks)) in
      (try
        let (nodes, errs) = if many then parse_many sp ts else (let (n, e) = parse_one sp ts in ([n], e)) in
        let b = Buffer.create 256 in
        List.iteri (fun i n -> if i > 0 then Buffer.add_string b " ; "; dump_tree b (dnode_tree n)) nodes;
        Printf.fprintf out "%s => %d %s\n" hex (int_of_nat errs) (Buffer.contents b)
       with Outside -> Printf.fprintf out "%s => UNSUP\n" hex)
    | _ -> ()
  done with End_of_file -> ()

(* expr-sim: lines "<toks of x> | <toks of y>": the hypothesis of the C16 theorems on two real token lists *)
let expr_sim out =
  let toks_of s = List.map parse_tok (List.filter (fun x -> x <> "") (String.split_on_char ';' (String.trim s))) in
  try while true do
    let line = input_line stdin in
    match String.split_on_char '|' line with
    | [a; b] ->
      let x = toks_of a and y = toks_of b in
      Printf.fprintf out "%s\n" (if same_tokensb x y then "SAME" else if same_tokens_cib x y then "SAME-CI" else "DIFFERENT")
    | _ -> Printf.fprintf out "BAD-LINE\n"
  done with End_of_file -> ()

(* stmt-sim: lines "<toks of x> | <toks of y>": the hypothesis of the C16 theorems on the statement family on two real token lists *)
let stmt_sim out =
  let toks_of s = List.map parse_tok (List.filter (fun x -> x <> "") (String.split_on_char ';' (String.trim s))) in
  try while true do
    let line = input_line stdin in
    match String.split_on_char '|' line with
    | [a; b] -> Printf.fprintf out "%s\n" (if same_stmt_tokensb (toks_of a) (toks_of b) then "SAME" else "DIFFERENT")
    | _ -> Printf.fprintf out "BAD-LINE\n"
  done with End_of_file -> ()

(* expr-c01: lines "<toks of x> | <toks of SQL(parse x)>": the hypotheses of the fragment round-trip theorem on real data: the tree the
   parser model returns for x, positions erased, is canonical (canb 12), and its canonical spelling agrees with the tokens the real lexer
   produced for the printed text (same_tokensb) *)
let expr_c01 out =
  let toks_of s = List.map parse_tok (List.filter (fun x -> x <> "") (String.split_on_char ';' (String.trim s))) in
  try while true do
    let line = input_line stdin in
    match String.split_on_char '|' line with
    | [a; b] ->
      (match parse_expr (toks_of a) with
       | Ok (e, rest) when List.length rest = 1 ->
         let c = strip e in
         if not (canb (nat_of_int 12) c) then Printf.fprintf out "NOT-CANONICAL\n"
         else if same_tokensb (spell c @ [eof_tok]) (toks_of b) then Printf.fprintf out "OK\n"
         else Printf.fprintf out "DIFF\n"
       | Ok _ -> Printf.fprintf out "REST\n"
       | Unsup -> Printf.fprintf out "UNSUP\n"
       | _ -> Printf.fprintf out "ERR\n")
    | _ -> Printf.fprintf out "BAD-LINE\n"
  done with End_of_file -> ()

(* bad-model: lines "entry hex => W:pos:end:n;...": the recovery handlers of Parse/Recovery.v run from the state of the recovery-mode
   scan whose current token starts at NodePos; the predicted (NodeEnd, number of tokens) must equal the Bad node of the real tree for
   one of the handlers that can produce a Bad node wrapped this way *)
let bad_model out =
  let handlers w =
    match w with
    | "Stmt" | "DDL" | "DML" | "Node" -> [HStmt]
    | "Query" -> [HQuery true; HQuery false; HStmt]
    | "Expr" -> [HExpr]
    | "Type" -> [HType]
    | _ -> [] in
  try while true do
    let line = input_line stdin in
    match String.split_on_char ' ' line with
    | [entry; hex; "=>"; "PANIC"] -> Printf.fprintf out "%s %s => PANIC\n" entry hex
    | entry :: hex :: "=>" :: rest ->
      let bads = List.filter (fun x -> x <> "") (String.split_on_char ';' (String.concat "" rest)) in
      let states = np_scan (bytes_of_string (string_of_hex hex)) in
      let b = Buffer.create 64 in
      List.iter (fun bd ->
          match String.split_on_char ':' bd with
          | [w; p; e; n] ->
            let p = int_of_string p and e = int_of_string e and n = int_of_string n in
            let cands = List.filter (fun l -> int_of_nat l.l_tok.t_pos = p) states in
            if cands = [] then Buffer.add_string b "NOSTATE;"
            else begin
              let preds = List.concat_map (fun l -> List.filter_map (fun h ->
                  match handle h l with
                  | Some (bd, _) -> Some (int_of_nat bd.b_pos, int_of_nat bd.b_end, List.length bd.b_toks)
                  | None -> None) (handlers w)) cands in
              if List.mem (p, e, n) preds then Buffer.add_string b "OK;"
              else Printf.bprintf b "MISMATCH(%s:%d:%d:%d predicted %s);" w p e n
                  (String.concat "," (List.map (fun (a, c, d) -> Printf.sprintf "%d:%d:%d" a c d) preds))
            end
          | _ -> Buffer.add_string b "BAD-FIELD;") bads;
      Printf.fprintf out "%s %s => %s\n" entry hex (Buffer.contents b)
    | _ -> ()
  done with End_of_file -> ()

(* tree-wt: is every returned tree well typed against the regenerated schema (field count, kinds, interface conformance)? *)
let tree_wt out =
  each_case (fun entry hex roots ->
      match roots with
      | None -> Printf.fprintf out "%s %s => PANIC\n" entry hex
      | Some roots ->
        let bad = List.filter (fun r -> match r with TNode _ -> not (wt Models.schema Models.ifaces r) | _ -> false) roots in
        Printf.fprintf out "%s %s => %s\n" entry hex (if bad = [] then "wt" else "ILL-TYPED " ^ String.concat "," (List.map ty_of bad)))

(* gen-check: the per-run obligations evaluated outside the kernel, with diagnostics (which node types fail) *)
let gen_check out =
  let names l = String.concat "," (List.map string_of_coq l) in
  Printf.fprintf out "schema_ok %b\n" (schema_ok Models.schema Models.ifaces);
  Printf.fprintf out "pos_tables_ok %b failing=[%s] types=%d spec=%d impl=%d\n" (pos_tables_ok Models.schema Models.pos_spec Models.pos_impl)
    (names (pos_table_failures Models.schema Models.pos_spec Models.pos_impl))
    (List.length Models.schema) (List.length Models.pos_spec) (List.length Models.pos_impl);
  Printf.fprintf out "walk_table_ok %b failing=[%s] cases=%d\n" (walk_table_ok Models.schema Models.walk_impl)
    (names (walk_table_failures Models.schema Models.walk_impl)) (List.length Models.walk_impl);
  Printf.fprintf out "printer_ok %b failing=[%s] prec_missing=[%s] programs=%d\n"
    (printer_ok Models.schema Models.ifaces Models.sql_prog Models.prec_table)
    (names (printer_failures Models.schema Models.sql_prog)) (names (prec_missing Models.ifaces Models.prec_table)) (List.length Models.sql_prog);
  let unread = unread_fields Models.schema Models.sql_prog in
  Printf.fprintf out "unread_fields %b [%s]\n" (unread = [])
    (String.concat "," (List.map (fun (t, f) -> string_of_coq t ^ "." ^ string_of_coq f) unread));
  let bs = bad_separators Models.sql_prog in
  Printf.fprintf out "separators_ok %b [%s]\n" (bs = []) (names bs);
  let esc = escaping Models.skeleton in
  let bad_entries = List.filter (fun f -> smem f esc) Models.entry_points in
  Printf.fprintf out "escape_ok %b postfix=%b escaping_entries=[%s] functions=%d may_escape=%d entries=%d\n"
    (is_postfix Models.skeleton esc && bad_entries = []) (is_postfix Models.skeleton esc) (names bad_entries)
    (List.length Models.skeleton) (List.length esc) (List.length Models.entry_points);
  let pc = List.map coq_of_string ["Parser"; "Lexer"; "File"] in
  Printf.fprintf out "globals_ok %b vars=%d writes=[%s] go=%d imports=%d receiver_fields=%d\n"
    (globals_ok Models.global_writes Models.go_statements Models.concurrency_imports Models.receiver_field_writes pc)
    (List.length Models.global_vars)
    (String.concat "," (List.map (fun ((((p, f), v), h), w) -> string_of_coq f ^ ":" ^ string_of_coq v ^ ":" ^ string_of_coq h ^ "@" ^ string_of_coq w) Models.global_writes))
    (List.length Models.go_statements) (List.length Models.concurrency_imports) (List.length Models.receiver_field_writes)

let run (args : string list) : bool =
  let out = stdout in
  (match args with
   | ["gen-check"] -> gen_check out; true
   | ["tree-pe"; which] -> tree_pe out which; true
   | ["tree-walk"; m; o] -> tree_walk out (int_of_string m) (int_of_string o) false; true
   | ["tree-sql"; tbl] -> load_isprint tbl; tree_sql out; true
   | ["tree-wt"] -> tree_wt out; true
   | ["expr-model"] -> expr_model out; true
   | ["expr-sim"] -> expr_sim out; true
   | ["bad-model"] -> bad_model out; true
   | ["expr-c01"] -> expr_c01 out; true
   | ["type-model"] -> type_model out; true
   | ["stmt-model"; entry] -> stmt_model out entry; true
   | ["stmt-sim"] -> stmt_sim out; true
   | ["type-recover"] -> type_recover out; true
   | ["type-c01"] -> type_c01 out; true
   | ["tree-walkmany"] -> tree_walk out 0 0 true; true
   | _ -> false)
