(* Extraction of the executable models for the correspondence driver.
   ExtrOcamlBasic only: bool, option, unit, list, prod, sumbool map to OCaml's own;
   nat, N, Z, positive, byte stay extracted inductive datatypes. *)
From Coq Require Import Extraction ExtrOcamlBasic.
From Verif Require Import Base.Bytes Base.Utf8 Bytes.FileModel Lex.Lexer Lex.Reference Bytes.Split Bytes.Quote.
From Verif Require Import Tree.Tree Tree.PosLang Tree.Walk Tree.PosProofs Tree.Checkers Gen.Schema Gen.PosSpec Gen.PosImpl Gen.WalkImpl Tree.Printer Gen.PrintProg Gen.Globals Skel.Skeleton Gen.SkeletonData Parse.ExprModel Parse.Span Parse.SpanProofs Parse.Respell Parse.Recovery Parse.Spell Parse.Canon Parse.TypeModel Parse.TypeSpan Parse.TypeRecover.
Extraction "models.ml" Reference.ref_lex FileModel.position_of FileModel.resolve_pos FileModel.error_string
  Split.split Quote.quote_string Quote.quote_bytes Quote.quote_ident Lexer.next_token Lexer.init_lexer Lexer.lex_all Lexer.lex_all_np Utf8.decode_rune Utf8.encode_rune Utf8.is_space_rune
  Tree.wt PosLang.pe_impl PosLang.pe_spec Walk.walk Walk.walk_many Walk.to_rose Walk.inspect Walk.preorder
  Schema.schema Schema.ifaces PosSpec.pos_spec PosImpl.pos_impl WalkImpl.walk_impl Printer.sql Printer.info Printer.hand_modelled PrintProg.sql_prog PrintProg.prec_table PrintProg.string_consts
  Checkers.schema_ok PosProofs.pos_tables_ok Checkers.walk_table_ok Checkers.pos_table_failures Checkers.walk_table_failures Checkers.printer_ok Checkers.unread_fields Checkers.bad_separators Checkers.prec_missing Checkers.printer_failures Checkers.globals_ok Globals.global_vars Globals.global_writes Globals.go_statements Globals.concurrency_imports Globals.receiver_field_writes Skeleton.escaping Skeleton.is_postfix Skeleton.smem SkeletonData.skeleton SkeletonData.entry_points ExprModel.parse_expr ExprModel.to_tree SpanProofs.input_okb Span.epos Span.eend Respell.same_tokens_cib Respell.same_tokensb Recovery.handle Recovery.np_scan Canon.canb Spell.spell Respell.strip TypeModel.parse_type TypeModel.ty_tree TypeModel.ty_pos TypeModel.ty_end TypeSpan.type_input_okb TypeRecover.parse_typeR TypeRecover.rty_tree TypeRecover.bads.
