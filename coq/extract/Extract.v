(* Extraction of the executable models for the correspondence driver.
   ExtrOcamlBasic only: bool, option, unit, list, prod, sumbool map to OCaml's own;
   nat, N, Z, positive, byte stay extracted inductive datatypes. *)
From Coq Require Import Extraction ExtrOcamlBasic.
From Verif Require Import Base.Bytes Bytes.FileModel.
Extraction "models.ml" FileModel.position_of FileModel.resolve_pos FileModel.error_string.
