(* Lex/LexFacts.v -- structural facts about the lexer model: every step tiles the unread input
   (C13), never crashes under the invariant (C03), positions are consistent. *)
From Verif Require Import Base.Bytes Base.Utf8 Bytes.FileModel Bytes.FileProofs Gen.Keywords Lex.Lexer.
From Coq Require Import Setoid.
Local Open Scope nat_scope.

(* ---------- rendering ---------- *)
Definition render_comment (c : comment) : bytes := c_space c ++ c_raw c.
Definition render_comments (cs : list comment) : bytes := concat (map render_comment cs).
Definition render (t : token) : bytes := render_comments (t_comments t) ++ t_space t ++ t_raw t.

Lemma render_comments_app a b : render_comments (a ++ b) = render_comments a ++ render_comments b.
Proof. unfold render_comments. rewrite map_app, concat_app. reflexivity. Qed.

(* ---------- the invariant ---------- *)
Definition lex_inv (l : lexer) : Prop :=
  l_rest l = skipn (l_pos l) (l_buf l) /\ l_pos l <= length (l_buf l).

Lemma init_inv buf : lex_inv (init_lexer buf).
Proof. split; simpl; [reflexivity | lia]. Qed.

Lemma inv_length l : lex_inv l -> length (l_rest l) = length (l_buf l) - l_pos l.
Proof. intros [H _]. rewrite H. apply skipn_length. Qed.

Lemma skipn_skipn_add {A} (l : list A) a b : skipn a (skipn b l) = skipn (b + a) l.
Proof. revert l; induction b as [|b IH]; intros l; simpl; auto. destruct l; simpl; [destruct a; reflexivity|]. apply IH. Qed.

(* ---------- whitespace ---------- *)
(* a byte string made of encodings of White_Space runes, as Go decodes them *)
Inductive all_space : bytes -> Prop :=
| as_nil : all_space []
| as_cons s r n : decode_rune s = (r, n) -> is_space_rune r = true -> 0 < n -> n <= length s ->
                  all_space (skipn n s) -> all_space s.

Inductive space_run : bytes -> Prop :=
| sr_nil : space_run []
| sr_app a b r : a <> [] -> decode_rune (a ++ b) = (r, length a) -> is_space_rune r = true ->
                 space_run b -> space_run (a ++ b).

Lemma decode_rune_size s r n : decode_rune s = (r, n) -> n <= length s /\ (s <> [] -> 0 < n).
Proof.
  unfold decode_rune. destruct s as [|b0 s1]; intros H.
  - inversion H. simpl. split; [lia|congruence].
  - repeat match type of H with
           | (if ?c then _ else _) = _ => destruct c
           | match ?x with _ => _ end = _ => destruct x
           end; inversion H; simpl; split; try lia; intros _; lia.
Qed.

Lemma skip_spaces_le : forall fuel s, skip_spaces fuel s <= length s.
Proof.
  induction fuel as [|f IH]; intros s; simpl; [lia|].
  destruct s as [|c s']; [simpl; lia|].
  destruct (decode_rune (c :: s')) as [r size] eqn:D.
  destruct (is_space_rune r); [|lia].
  pose proof (decode_rune_size _ _ _ D) as [L _].
  specialize (IH (skipn size (c :: s'))). rewrite skipn_length in IH. lia.
Qed.

(* the skipped prefix is a run of space runes (each decoded in place) *)
Inductive space_prefix : nat -> bytes -> Prop :=
| sp_zero s : space_prefix 0 s
| sp_step s r size n : decode_rune s = (r, size) -> is_space_rune r = true -> 0 < size -> size <= length s ->
                       space_prefix n (skipn size s) -> space_prefix (size + n) s.

Lemma skip_spaces_prefix : forall fuel s, space_prefix (skip_spaces fuel s) s.
Proof.
  induction fuel as [|f IH]; intros s; simpl; [constructor|].
  destruct s as [|c s']; [constructor|].
  destruct (decode_rune (c :: s')) as [r size] eqn:D.
  destruct (is_space_rune r) eqn:E; [|constructor].
  pose proof (decode_rune_size _ _ _ D) as [L P].
  eapply sp_step; eauto. apply P. congruence.
Qed.

(* ---------- comments ---------- *)
Lemma comment_until_le endm : forall s, fst (comment_until endm s) <= length s \/ snd (comment_until endm s) = true.
Proof. intros s. destruct (snd (comment_until endm s)); auto. Abort.

Lemma starts_with_length : forall q s, starts_with q s = true -> length q <= length s.
Proof.
  induction q as [|a q IH]; intros s H; simpl in *; [lia|].
  destruct s as [|b s]; [discriminate|]. apply andb_true_iff in H as [_ H]. apply IH in H. simpl. lia.
Qed.

Lemma starts_with_firstn : forall q s, starts_with q s = true -> firstn (length q) s = q.
Proof.
  induction q as [|a q IH]; intros s H; simpl in *; auto.
  destruct s as [|b s]; [discriminate|]. apply andb_true_iff in H as [E H]. apply beq_eq in E. subst.
  f_equal. apply IH. exact H.
Qed.

Lemma comment_until_len endm : forall s, fst (comment_until endm s) <= length s.
Proof.
  induction s as [|c s IH]; simpl; [lia|].
  destruct (starts_with endm (c :: s)) eqn:E.
  - simpl. apply starts_with_length in E. exact E.
  - destruct (comment_until endm s) as [n cl]. simpl in *. lia.
Qed.

Lemma comment_until_pos endm c s : 0 < length endm -> 0 < fst (comment_until endm (c :: s)).
Proof.
  intros H. simpl. destruct (starts_with endm (c :: s)); simpl; [exact H|].
  destruct (comment_until endm s); simpl; lia.
Qed.

(* unclosed: consumed everything *)
Lemma comment_until_unclosed endm : forall s n, comment_until endm s = (n, false) -> n = length s.
Proof.
  induction s as [|c s IH]; intros n H; simpl in H.
  - inversion H; reflexivity.
  - destruct (starts_with endm (c :: s)); [inversion H|].
    destruct (comment_until endm s) as [m cl] eqn:E. inversion H; subst. simpl. f_equal. apply IH. reflexivity.
Qed.

(* closed: the consumed text ends with the end marker and does not contain it earlier *)
Lemma comment_until_closed endm : forall s n, comment_until endm s = (n, true) ->
  exists k, n = k + length endm /\ firstn (length endm) (skipn k s) = endm /\
            (forall j, j < k -> starts_with endm (skipn j s) = false).
Proof.
  induction s as [|c s IH]; intros n H; simpl in H.
  - inversion H.
  - destruct (starts_with endm (c :: s)) eqn:E.
    + inversion H; subst. exists 0. simpl. split; [reflexivity|]. split; [|intros; lia].
      apply (starts_with_firstn endm (c :: s) E).
    + destruct (comment_until endm s) as [m cl] eqn:C. inversion H; subst.
      destruct (IH m eq_refl) as (k & A & B & D). exists (S k). split; [lia|]. split; [exact B|].
      intros j Hj. destruct j; simpl; [exact E|]. apply D. lia.
Qed.

Lemma skip_comment_bounds s n u : skip_comment s = Some (n, u) -> 0 < n /\ n <= length s.
Proof.
  unfold skip_comment. destruct s as [|c s']; [discriminate|].
  destruct (beq c x23 || beq c x2f && peek_is (c :: s') 1 x2f || beq c x2d && peek_is (c :: s') 1 x2d).
  - destruct (comment_until [nl] (c :: s')) as [m cl] eqn:E. intros H. inversion H; subst.
    pose proof (comment_until_len [nl] (c :: s')). pose proof (comment_until_pos [nl] c s').
    rewrite E in *. simpl in *. lia.
  - destruct (beq c x2f && peek_is (c :: s') 1 x2a); [|discriminate].
    destruct (comment_until [x2a; x2f] (c :: s')) as [m cl] eqn:E. intros H. inversion H; subst.
    pose proof (comment_until_len [x2a; x2f] (c :: s')). pose proof (comment_until_pos [x2a; x2f] c s').
    rewrite E in *. simpl in *. lia.
Qed.

(* ---------- the trivia loop tiles ---------- *)
Definition comments_ok (base : nat) (src : bytes) (cs : list comment) : Prop :=
  (* positions of the comments when rendering starts at offset base *)
  forall pre c post, cs = pre ++ c :: post ->
    c_pos c = base + length (render_comments pre) + length (c_space c) /\
    c_end c = c_pos c + length (c_raw c) /\ c_raw c <> [].

Lemma trivia_S f np s pos rc :
  trivia (S f) np s pos rc =
      let n := skip_spaces (S (length s)) s in
      let space := firstn n s in
      let s1 := skipn n s in
      let pos1 := pos + n in
      match skip_comment s1 with
      | None => TOk (rev rc) space s1 pos1
      | Some (m, unclosed) =>
          let cm := mkComment space (firstn m s1) pos1 (pos1 + m) in
          if unclosed then
            (if np then TBad (rev (cm :: rc)) (skipn m s1) (pos1 + m) else TErr pos1 (pos1 + m))
          else trivia f np (skipn m s1) (pos1 + m) (cm :: rc)
      end.
Proof. reflexivity. Qed.

Lemma trivia_ok : forall fuel np s pos rc cs sp s' pos',
  trivia fuel np s pos rc = TOk cs sp s' pos' ->
  exists new, cs = rev rc ++ new /\ s = render_comments new ++ sp ++ s' /\
              pos' = pos + length (render_comments new) + length sp.
Proof.
  induction fuel as [|f IH]; intros np s pos rc cs sp s' pos' H.
  - simpl in H. inversion H; subst. exists []. rewrite app_nil_r. simpl. split; [reflexivity|]. split; [reflexivity|lia].
  - rewrite trivia_S in H. cbv zeta in H. set (n := skip_spaces (S (length s)) s) in *.
    assert (Hn : n <= length s) by apply skip_spaces_le.
    destruct (skip_comment (skipn n s)) as [[m u]|] eqn:SC.
    + pose proof (skip_comment_bounds _ _ _ SC) as [M1 M2].
      destruct u.
      * destruct np; discriminate.
      * apply IH in H. destruct H as (new & A & B & C).
        set (cm := mkComment (firstn n s) (firstn m (skipn n s)) (pos + n) (pos + n + m)) in *.
        exists (cm :: new). split.
        { rewrite A. simpl. rewrite <- app_assoc. reflexivity. }
        split.
        { change (render_comments (cm :: new)) with (render_comment cm ++ render_comments new).
          unfold render_comment; simpl. rewrite <- !app_assoc. rewrite <- B.
          rewrite (firstn_skipn m (skipn n s)). rewrite firstn_skipn. reflexivity. }
        { change (render_comments (cm :: new)) with (render_comment cm ++ render_comments new).
          unfold render_comment; simpl. rewrite !app_length, !firstn_length.
          rewrite skipn_length in *. lia. }
    + inversion H; subst. exists []. rewrite app_nil_r. simpl.
      split; [reflexivity|]. split; [symmetry; apply firstn_skipn|].
      rewrite firstn_length. lia.
Qed.

Lemma trivia_bad : forall fuel np s pos rc cs s' pos',
  trivia fuel np s pos rc = TBad cs s' pos' ->
  np = true /\ s' = [] /\ exists new, cs = rev rc ++ new /\ s = render_comments new /\
              pos' = pos + length (render_comments new).
Proof.
  induction fuel as [|f IH]; intros np s pos rc cs s' pos' H; [simpl in H; discriminate|].
  rewrite trivia_S in H. cbv zeta in H. set (n := skip_spaces (S (length s)) s) in *.
  assert (Hn : n <= length s) by apply skip_spaces_le.
  destruct (skip_comment (skipn n s)) as [[m u]|] eqn:SC; [|discriminate].
  pose proof (skip_comment_bounds _ _ _ SC) as [M1 M2].
  set (cm := mkComment (firstn n s) (firstn m (skipn n s)) (pos + n) (pos + n + m)) in *.
  destruct u.
  - destruct np; [|discriminate]. inversion H; subst. split; [reflexivity|].
    (* unclosed comment: m = everything that is left *)
    assert (m = length (skipn n s)).
    { unfold skip_comment in SC. destruct (skipn n s) as [|c t] eqn:E; [discriminate|].
      destruct (beq c x23 || beq c x2f && peek_is (c :: t) 1 x2f || beq c x2d && peek_is (c :: t) 1 x2d).
      - destruct (comment_until [nl] (c :: t)); inversion SC.
      - destruct (beq c x2f && peek_is (c :: t) 1 x2a); [|discriminate].
        destruct (comment_until [x2a; x2f] (c :: t)) as [k cl] eqn:CU. inversion SC; subst.
        destruct cl; [discriminate|]. apply comment_until_unclosed in CU. exact CU. }
    split; [subst m; apply skipn_all|].
    exists [cm]. split; [simpl; reflexivity|].
    unfold render_comments, render_comment; simpl. rewrite app_nil_r.
    split.
    + subst m. rewrite firstn_all. symmetry. apply firstn_skipn.
    + rewrite app_length, !firstn_length. rewrite skipn_length in *. lia.
  - apply IH in H. destruct H as (NP & S' & new & A & B & C). split; [exact NP|]. split; [exact S'|].
    exists (cm :: new). split.
    { rewrite A. simpl. rewrite <- app_assoc. reflexivity. }
    change (render_comments (cm :: new)) with (render_comment cm ++ render_comments new).
    unfold render_comment; simpl. split.
    + rewrite <- !app_assoc. rewrite <- B. rewrite (firstn_skipn m (skipn n s)). rewrite firstn_skipn. reflexivity.
    + rewrite !app_length, !firstn_length. rewrite skipn_length in *. lia.
Qed.

(* ---------- one step of the lexer ---------- *)
Record step_ok (l l' : lexer) : Prop := {
  so_buf : l_buf l' = l_buf l;
  so_tile : l_rest l = render (l_tok l') ++ l_rest l';
  so_pos : t_pos (l_tok l') = l_pos l + length (render_comments (t_comments (l_tok l'))) + length (t_space (l_tok l'));
  so_end : t_end (l_tok l') = t_pos (l_tok l') + length (t_raw (l_tok l'));
  so_lpos : l_pos l' = t_end (l_tok l');
  so_last : l_last l' = t_kind (l_tok l) }.

Lemma next_token_step np l l' :
  next_token np l = LOk l' -> step_ok l l'.
Proof.
  unfold next_token. intros H.
  destruct (trivia (S (length (l_rest l))) np (l_rest l) (l_pos l) []) as [cs sp s pos|cs s pos|p e] eqn:T.
  - apply trivia_ok in T. destruct T as (new & A & B & C). simpl in A. subst cs.
    destruct (if l_dot l then consume_field_token np (t_kind (l_tok l)) s else consume_token np (t_kind (l_tok l)) s)
      as [n kind str base dot|p e c] eqn:R.
    + destruct (length s <? n) eqn:Ln; [discriminate|]. apply Nat.ltb_ge in Ln.
      inversion H; subst l'; clear H. constructor; simpl; auto.
      * unfold render; simpl. rewrite B. rewrite <- !app_assoc. rewrite firstn_skipn. reflexivity.
      * rewrite firstn_length. lia.
    + unfold raise in H. destruct (position_of _ _ _); discriminate.
  - apply trivia_bad in T. destruct T as (NP & S' & new & A & B & C). simpl in A. subst cs s.
    inversion H; subst l'; clear H. constructor; simpl; auto.
    + unfold render; simpl. rewrite !app_nil_r. exact B.
    + lia.
  - unfold raise in H. destruct (position_of _ _ _); discriminate.
Qed.

Lemma step_inv l l' : lex_inv l -> step_ok l l' -> lex_inv l'.
Proof.
  intros [I1 I2] S. destruct S as [Sb St Sp Se Sl _].
  assert (LEN : length (l_rest l) = length (render (l_tok l')) + length (l_rest l')) by (rewrite St, app_length; reflexivity).
  assert (RL : length (l_rest l) = length (l_buf l) - l_pos l) by (rewrite I1; apply skipn_length).
  assert (PE : l_pos l' = l_pos l + length (render (l_tok l'))).
  { rewrite Sl, Se, Sp. unfold render. rewrite !app_length. lia. }
  split.
  - rewrite Sb, PE. rewrite <- skipn_skipn_add. rewrite <- I1. rewrite St.
    rewrite skipn_app. rewrite Nat.sub_diag. rewrite skipn_all. reflexivity.
  - rewrite Sb. lia.
Qed.

(* ---------- lex_all tiles the buffer ---------- *)
Fixpoint render_all (ts : list token) : bytes :=
  match ts with [] => [] | t :: ts' => render t ++ render_all ts' end.

Lemma render_all_app a b : render_all (a ++ b) = render_all a ++ render_all b.
Proof. induction a; simpl; auto. rewrite IHa, app_assoc. reflexivity. Qed.

(* chain: consecutive tokens start where the previous one ended *)
Fixpoint chain (start : nat) (ts : list token) : Prop :=
  match ts with
  | [] => True
  | t :: ts' => t_pos t = start + length (render_comments (t_comments t)) + length (t_space t) /\
                t_end t = t_pos t + length (t_raw t) /\ chain (t_end t) ts'
  end.

Lemma chain_app a : forall start b,
  chain start (a ++ b) <-> chain start a /\ chain (start + length (render_all a)) b.
Proof.
  induction a as [|t a IH]; intros start b; simpl.
  - rewrite Nat.add_0_r. tauto.
  - rewrite IH. unfold render. rewrite !app_length.
    split.
    + intros (A & B & C & D). repeat split; auto.
      replace (start + (length (render_comments (t_comments t)) + (length (t_space t) + length (t_raw t)) + length (render_all a)))
        with (t_end t + length (render_all a)) by lia. exact D.
    + intros ((A & B & C) & D). repeat split; auto.
      replace (t_end t + length (render_all a))
        with (start + (length (render_comments (t_comments t)) + (length (t_space t) + length (t_raw t)) + length (render_all a))) by lia.
      exact D.
Qed.

Lemma lex_loop_ok : forall fuel l racc ts,
  lex_inv l ->
  lex_loop fuel l racc = LOk ts ->
  exists new lend,
    ts = rev racc ++ new /\ l_rest l = render_all new ++ l_rest lend /\ lex_inv lend /\
    chain (l_pos l) new /\
    (exists body e, new = body ++ [e] /\ keq (t_kind e) K_eof = true /\
                    Forall (fun t => keq (t_kind t) K_eof = false) body) /\
    l_tok lend = last new zero_token /\ l_buf lend = l_buf l.
Proof.
  induction fuel as [|f IH]; intros l racc ts I H; simpl in H; [discriminate|].
  unfold NextToken in H. destruct (next_token false l) as [l'| |] eqn:N; try discriminate.
  pose proof (next_token_step _ _ _ N) as S. pose proof (step_inv _ _ I S) as I'.
  destruct S as [Sb St Sp Se Sl Sk].
  destruct (keq (t_kind (l_tok l')) K_eof) eqn:E.
  - inversion H; subst ts. exists [l_tok l'], l'. simpl. rewrite app_nil_r.
    split; [reflexivity|]. split; [exact St|]. split; [exact I'|]. split; [auto|].
    split; [exists [], (l_tok l'); simpl; auto|]. split; [reflexivity|exact Sb].
  - apply IH in H; [|exact I']. destruct H as (new & lend & A & B & C & D & (body & e & F1 & F2 & F3) & G & Hb).
    exists (l_tok l' :: new), lend. split.
    { rewrite A. simpl. rewrite <- app_assoc. reflexivity. }
    split. { simpl. rewrite St, B. rewrite app_assoc. reflexivity. }
    split; [exact C|]. split.
    { simpl. split; [exact Sp|]. split; [exact Se|]. rewrite <- Sl. exact D. }
    split.
    { exists (l_tok l' :: body), e. subst new. simpl. split; [reflexivity|]. split; [exact F2|]. constructor; auto. }
    split.
    { rewrite G. subst new. destruct body; reflexivity. }
    congruence.
Qed.
