(* Lex/LexTiling.v -- C13: tokens tile the input; Raw/Pos/End consistent; trivia well formed. *)
From Verif Require Import Base.Bytes Base.Utf8 Bytes.FileModel Gen.Keywords Lex.Lexer Lex.LexFacts.
Local Open Scope nat_scope.

(* ---------- comments: completeness ---------- *)
Definition no_marker (endm raw : bytes) (k : nat) : Prop :=
  forall j, j < k -> starts_with endm (skipn j raw) = false.

(* a complete comment, given the text that follows it *)
Definition comment_complete (raw following : bytes) : Prop :=
  (* line comment: runs to the first newline (included), or to the end of the input *)
  ((starts_with [x23] raw = true \/ starts_with [x2f; x2f] raw = true \/ starts_with [x2d; x2d] raw = true) /\
   ((exists k, length raw = k + 1 /\ skipn k raw = [nl] /\ no_marker [nl] raw k) \/
    (no_marker [nl] raw (length raw) /\ following = []))) \/
  (* block comment: closed by the first "*/" found when scanning from its first byte *)
  (starts_with [x2f; x2a] raw = true /\
   exists k, length raw = k + 2 /\ skipn k raw = [x2a; x2f] /\ no_marker [x2a; x2f] raw k).

Lemma starts_with_firstn_ge : forall q s n, length q <= n -> starts_with q (firstn n s) = starts_with q s.
Proof.
  induction q as [|x q IH]; intros s n H; simpl in *; auto.
  destruct n; [lia|]. destruct s as [|y s]; simpl; auto. rewrite IH by lia. reflexivity.
Qed.

Lemma comment_until_cons endm c s :
  comment_until endm (c :: s) =
    if starts_with endm (c :: s) then (length endm, true)
    else let '(n, cl) := comment_until endm s in (S n, cl).
Proof. reflexivity. Qed.

Lemma comment_until_ge2 endm c d t :
  0 < length endm -> starts_with endm (c :: d :: t) = false -> 2 <= fst (comment_until endm (c :: d :: t)).
Proof.
  intros L H. rewrite comment_until_cons. rewrite H.
  pose proof (comment_until_pos endm d t L) as P.
  destruct (comment_until endm (d :: t)) as [n cl]. simpl in *. lia.
Qed.

Lemma comment_until_unclosed_nomarker endm : forall t n,
  comment_until endm t = (n, false) -> forall j, j < length t -> starts_with endm (skipn j t) = false.
Proof.
  induction t as [|x t IH]; intros n H j Hj; [simpl in Hj; lia|].
  simpl in H. destruct (starts_with endm (x :: t)) eqn:SW; [inversion H|].
  destruct (comment_until endm t) as [n1 c1] eqn:CU1. inversion H; subst.
  destruct j; [exact SW|]. simpl. eapply IH; eauto. simpl in Hj. lia.
Qed.

(* closed after k bytes: the k+|endm| consumed bytes end with the marker *)
Lemma closed_shape endm s n :
  comment_until endm s = (n, true) ->
  exists k, n = k + length endm /\ n <= length s /\ skipn k (firstn n s) = endm /\ no_marker endm (firstn n s) k.
Proof.
  intros CU. pose proof (comment_until_len endm s) as LE. rewrite CU in LE. simpl in LE.
  apply comment_until_closed in CU. destruct CU as (k & A & B & D).
  exists k. split; [exact A|]. split; [exact LE|]. split.
  - rewrite skipn_firstn_comm. replace (n - k) with (length endm) by lia. exact B.
  - intros j Hj. rewrite skipn_firstn_comm. rewrite starts_with_firstn_ge by lia. apply D. exact Hj.
Qed.

Lemma two_byte_opener a b c s' :
  beq c a && peek_is (c :: s') 1 b = true -> exists t, c :: s' = a :: b :: t.
Proof.
  intros H. apply andb_true_iff in H as [H1 H2]. apply beq_eq in H1. subst c.
  unfold peek_is in H2. simpl in H2. destruct s' as [|d t]; [discriminate|]. simpl in H2.
  apply beq_eq in H2. subst d. eauto.
Qed.

Lemma skip_comment_complete s m :
  skip_comment s = Some (m, false) -> comment_complete (firstn m s) (skipn m s).
Proof.
  unfold skip_comment. destruct s as [|c s']; [discriminate|].
  destruct (beq c x23 || beq c x2f && peek_is (c :: s') 1 x2f || beq c x2d && peek_is (c :: s') 1 x2d) eqn:L.
  - destruct (comment_until [nl] (c :: s')) as [n cl] eqn:CU. intros H. inversion H; subst m. clear H.
    left. split.
    { apply orb_true_iff in L as [L|L]; [apply orb_true_iff in L as [L|L]|].
      - left. apply beq_eq in L. subst c.
        pose proof (comment_until_pos [nl] x23 s' ltac:(simpl; lia)) as P. rewrite CU in P. simpl in P.
        rewrite starts_with_firstn_ge by (simpl; lia). reflexivity.
      - right; left. apply two_byte_opener in L. destruct L as [t E]. rewrite E in *.
        pose proof (comment_until_ge2 [nl] x2f x2f t ltac:(simpl; lia) eq_refl) as P. rewrite CU in P. simpl in P.
        rewrite starts_with_firstn_ge by (simpl; lia). reflexivity.
      - right; right. apply two_byte_opener in L. destruct L as [t E]. rewrite E in *.
        pose proof (comment_until_ge2 [nl] x2d x2d t ltac:(simpl; lia) eq_refl) as P. rewrite CU in P. simpl in P.
        rewrite starts_with_firstn_ge by (simpl; lia). reflexivity. }
    destruct cl.
    + left. apply closed_shape in CU. destruct CU as (k & A & LE & B & D). simpl in A.
      exists k. split; [rewrite firstn_length; lia|]. split; [exact B|exact D].
    + right. pose proof (comment_until_unclosed_nomarker _ _ _ CU) as G.
      apply comment_until_unclosed in CU. subst n. rewrite firstn_all, skipn_all. split; [exact G|reflexivity].
  - destruct (beq c x2f && peek_is (c :: s') 1 x2a) eqn:L2; [|discriminate].
    destruct (comment_until [x2a; x2f] (c :: s')) as [n cl] eqn:CU. intros H. inversion H; subst m.
    destruct cl; [|discriminate]. clear H. right.
    apply two_byte_opener in L2. destruct L2 as [t E]. rewrite E in *.
    pose proof (comment_until_ge2 [x2a; x2f] x2f x2a t ltac:(simpl; lia) eq_refl) as P. rewrite CU in P. simpl in P.
    split; [rewrite starts_with_firstn_ge by (simpl; lia); reflexivity|].
    apply closed_shape in CU. destruct CU as (k & A & LE & B & D). simpl in A.
    exists k. split; [rewrite firstn_length; lia|]. split; [exact B|exact D].
Qed.

(* ---------- trivia: comment positions, completeness, whitespace ---------- *)
Fixpoint cchain (start : nat) (cs : list comment) : Prop :=
  match cs with
  | [] => True
  | c :: cs' => c_pos c = start + length (c_space c) /\ c_end c = c_pos c + length (c_raw c) /\
                c_raw c <> [] /\ cchain (c_end c) cs'
  end.

(* every comment is complete w.r.t. what follows it in [src], and every Space is a whitespace run *)
Fixpoint trivia_wf (src : bytes) (cs : list comment) : Prop :=
  match cs with
  | [] => True
  | c :: cs' =>
      space_prefix (length (c_space c)) src /\
      comment_complete (c_raw c) (skipn (length (render_comment c)) src) /\
      trivia_wf (skipn (length (render_comment c)) src) cs'
  end.

Lemma firstn_app_exact {A} (a b : list A) : firstn (length a) (a ++ b) = a.
Proof. rewrite firstn_app, Nat.sub_diag, firstn_all. simpl. apply app_nil_r. Qed.
Lemma skipn_app_exact {A} (a b : list A) : skipn (length a) (a ++ b) = b.
Proof. rewrite skipn_app, Nat.sub_diag, skipn_all. reflexivity. Qed.

Lemma trivia_wf_ok : forall fuel np s pos rc cs sp s' pos',
  trivia fuel np s pos rc = TOk cs sp s' pos' ->
  exists new, cs = rev rc ++ new /\ cchain pos new /\ trivia_wf s new /\
              space_prefix (length sp) (skipn (length (render_comments new)) s).
Proof.
  induction fuel as [|f IH]; intros np s pos rc cs sp s' pos' H.
  - simpl in H. inversion H; subst. exists []. rewrite app_nil_r. simpl. repeat split; auto. constructor.
  - rewrite trivia_S in H. cbv zeta in H. set (n := skip_spaces (S (length s)) s) in *.
    assert (Hn : n <= length s) by apply skip_spaces_le.
    assert (SP : space_prefix n s) by apply skip_spaces_prefix.
    destruct (skip_comment (skipn n s)) as [[m u]|] eqn:SC.
    + pose proof (skip_comment_bounds _ _ _ SC) as [M1 M2]. rewrite skipn_length in M2.
      destruct u; [destruct np; discriminate|].
      pose proof (skip_comment_complete _ _ SC) as CC.
      apply IH in H. destruct H as (new & A & B & C & D).
      set (cm := mkComment (firstn n s) (firstn m (skipn n s)) (pos + n) (pos + n + m)) in *.
      assert (RL : length (render_comment cm) = n + m).
      { unfold render_comment; simpl. rewrite app_length, !firstn_length, skipn_length. lia. }
      assert (SK : skipn (length (render_comment cm)) s = skipn m (skipn n s)).
      { rewrite RL. rewrite skipn_skipn_add. reflexivity. }
      exists (cm :: new). split; [rewrite A; simpl; rewrite <- app_assoc; reflexivity|].
      split.
      { simpl. rewrite !firstn_length, skipn_length.
        split; [lia|]. split; [lia|]. split.
        - intro X. apply (f_equal (@length byte)) in X. rewrite firstn_length, skipn_length in X. simpl in X. lia.
        - replace (pos + n + Nat.min m (length s - n)) with (pos + n + m) by lia. exact B. }
      split.
      { cbn [trivia_wf]. rewrite SK. split; [|split; [exact CC|exact C]].
        simpl. rewrite firstn_length. replace (Nat.min n (length s)) with n by lia. exact SP. }
      { change (render_comments (cm :: new)) with (render_comment cm ++ render_comments new).
        rewrite app_length. rewrite <- skipn_skipn_add. rewrite SK. exact D. }
    + inversion H; subst. exists []. rewrite app_nil_r. simpl. repeat split; auto.
      rewrite firstn_length. replace (Nat.min n (length s)) with n by lia. exact SP.
Qed.

(* ---------- EOF ---------- *)
Lemma K_eof_not_keyword : existsb (bytes_eqb K_eof) keywords = false.
Proof. vm_compute. reflexivity. Qed.

Lemma keyword_not_eof w : is_keyword w = true -> keq (to_upper w) K_eof = false.
Proof.
  unfold is_keyword. intros H. destruct (keq (to_upper w) K_eof) eqn:E; auto.
  apply bytes_eqb_eq in E. rewrite E in H. rewrite K_eof_not_keyword in H. discriminate.
Qed.

Ltac kill_kind :=
  match goal with
  | H : keq ?k K_eof = true |- _ =>
      first [ discriminate H
            | (exfalso; cbn in H; repeat rewrite ?andb_false_r, ?andb_false_l in H; discriminate H) ]
  end.

Lemma keq_single c : keq [c] K_eof = false.
Proof. unfold keq, K_eof. simpl. apply andb_false_r. Qed.
Lemma keq_double c d : keq [c; d] K_eof = false.
Proof. unfold keq, K_eof. simpl. rewrite !andb_false_r. reflexivity. Qed.

Lemma ident_or_keyword_not_eof s n k str b d :
  ident_or_keyword s = COk n k str b d -> keq k K_eof = false.
Proof.
  unfold ident_or_keyword. destruct (is_keyword _) eqn:E; intros H; inversion H; subst.
  - apply keyword_not_eof. exact E.
  - reflexivity.
Qed.

Lemma consume_number_not_eof np s n k str b d :
  consume_number np s = COk n k str b d -> keq k K_eof = false.
Proof.
  unfold consume_number. destruct (num_loop _ _ _ _ _) as [i isint].
  destruct (nth_error s i) as [c|]; [destruct (is_ident_part c); [destruct np|]|];
    intros H; inversion H; subst; destruct isint; reflexivity.
Qed.

Lemma consume_token_eof np last s n k str b d :
  consume_token np last s = COk n k str b d -> keq k K_eof = true -> s = [] /\ n = 0.
Proof.
  unfold consume_token. destruct s as [|c s1]; [intros H _; inversion H; auto|].
  intros H E. exfalso.
  repeat match type of H with
  | (if ?x then _ else _) = _ => destruct x eqn:?
  | match ?x with _ => _ end = _ => destruct x eqn:?
  end;
  try discriminate H;
  try (inversion H; subst; first [ rewrite keq_single in E; discriminate E
                                 | rewrite keq_double in E; discriminate E
                                 | discriminate E ]);
  try (apply ident_or_keyword_not_eof in H; congruence);
  try (apply consume_number_not_eof in H; congruence);
  try (inversion H; subst;
       repeat match type of E with context[if ?h then _ else _] => destruct h end; discriminate E).
Qed.

Lemma consume_field_token_eof np last s n k str b d :
  consume_field_token np last s = COk n k str b d -> keq k K_eof = true -> s = [] /\ n = 0.
Proof.
  unfold consume_field_token. destruct s as [|c s1].
  - apply consume_token_eof.
  - destruct (is_ident_part c).
    + intros H E. inversion H; subst. discriminate E.
    + apply consume_token_eof.
Qed.

(* an <eof> token is produced only when nothing is left, and it is empty *)
Lemma next_token_eof np l l' :
  next_token np l = LOk l' -> keq (t_kind (l_tok l')) K_eof = true ->
  l_rest l' = [] /\ t_raw (l_tok l') = [].
Proof.
  unfold next_token. intros H E.
  destruct (trivia _ _ _ _ _) as [cs sp s pos|cs s pos|p e] eqn:T.
  - destruct (if l_dot l then _ else _) as [n kind str base dot|p e c] eqn:R.
    + destruct (length s <? n); [discriminate|]. inversion H; subst l'; clear H. simpl in *.
      assert (s = [] /\ n = 0) as [-> ->].
      { destruct (l_dot l); [eapply consume_field_token_eof|eapply consume_token_eof]; eauto. }
      simpl. auto.
    + unfold raise in H. destruct (position_of _ _ _); discriminate.
  - inversion H; subst l'. simpl in E. discriminate E.
  - unfold raise in H. destruct (position_of _ _ _); discriminate.
Qed.

(* at end of input NextToken keeps returning <eof>, without moving *)
Lemma next_token_at_eof np l :
  l_rest l = [] ->
  exists l', next_token np l = LOk l' /\ t_kind (l_tok l') = K_eof /\ l_rest l' = [] /\ l_pos l' = l_pos l /\
             t_pos (l_tok l') = l_pos l /\ t_end (l_tok l') = l_pos l /\ t_raw (l_tok l') = [] /\
             t_comments (l_tok l') = [] /\ t_space (l_tok l') = [].
Proof.
  intros R. unfold next_token. rewrite R. simpl.
  destruct (l_dot l); simpl; eexists; (split; [reflexivity|]); simpl; rewrite ?Nat.add_0_r; repeat split; reflexivity.
Qed.

(* ---------- no token other than <eof> is empty ---------- *)
Lemma num_loop_ge : forall n s hex isint exp i, length s <= n -> i <= fst (num_loop hex s isint exp i).
Proof.
  induction n as [|n IH]; intros s hex isint exp i L.
  - destruct s; simpl in *; lia.
  - destruct s as [|c s']; [simpl; lia|]. cbn [num_loop]. simpl in L.
    repeat match goal with
    | |- context[if ?x then _ else _] => destruct x
    | |- context[match ?x with [] => _ | _ :: _ => _ end] => destruct x
    end; cbn [fst]; try lia.
    all: match goal with |- _ <= fst (num_loop ?h ?t ?a ?b ?j) =>
      let X := fresh in assert (X : length t <= n) by (simpl in *; lia); pose proof (IH t h a b j X) end; lia.
Qed.

Lemma quoted_ge : forall fuel np q raw uni isid s i racc herr c n h,
  quoted fuel np q raw uni isid s i racc herr = QDone c n h -> i <= n.
Proof.
  induction fuel as [|f IH]; intros np q raw uni isid s i racc herr c n h H.
  - simpl in H. inversion H; lia.
  - cbn [quoted] in H.
    repeat match type of H with
    | (if ?x then _ else _) = _ => destruct x
    | match ?x with _ => _ end = _ => destruct x
    end; try discriminate H; try (inversion H; subst; lia); try (apply IH in H; lia).
Qed.

Lemma ident_start_part c : is_ident_start c = true -> is_ident_part c = true.
Proof.
  unfold is_ident_start, is_ident_part. intros H.
  apply orb_true_iff in H as [H|H]; [apply orb_true_iff in H as [H|H]|]; rewrite H; rewrite ?orb_true_r; reflexivity.
Qed.

Lemma span_pos p c s : p c = true -> 0 < span p (c :: s).
Proof. intros H. simpl. rewrite H. lia. Qed.

Lemma consume_number_pos np c s1 n k str b d :
  consume_number np (c :: s1) = COk n k str b d -> is_digit c = true \/ c = x2e -> 0 < n.
Proof.
  unfold consume_number. intros H Hc.
  set (hex := peek_is (c :: s1) 0 x30 && (peek_is (c :: s1) 1 x78 || peek_is (c :: s1) 1 x58) &&
              match nth_error (c :: s1) 2 with Some d0 => is_hex_digit d0 | None => false end) in *.
  destruct (num_loop hex (skipn (if hex then 2 else 0) (c :: s1)) true false (if hex then 2 else 0)) as [i isint] eqn:NL.
  assert (P : 0 < i).
  { destruct hex eqn:HX.
    - pose proof (num_loop_ge _ (skipn 2 (c :: s1)) true true false 2 (le_n _)) as G. rewrite NL in G. simpl in G. lia.
    - cbn [skipn num_loop] in NL. destruct Hc as [Hc|Hc].
      + rewrite Hc in NL. simpl in NL.
        pose proof (num_loop_ge _ s1 false true false 1 (le_n _)) as G. rewrite NL in G. simpl in G. lia.
      + subst c. simpl in NL.
        pose proof (num_loop_ge _ s1 false false false 1 (le_n _)) as G. rewrite NL in G. simpl in G. lia. }
  destruct (nth_error (c :: s1) i) as [x|]; [destruct (is_ident_part x); [destruct np|]|]; inversion H; subst; exact P.
Qed.

Lemma consume_token_pos np last c s1 n k str b d :
  consume_token np last (c :: s1) = COk n k str b d -> 0 < n.
Proof.
  unfold consume_token. intros H.
  repeat match type of H with
  | (if ?x then _ else _) = _ => destruct x eqn:?
  | match ?x with _ => _ end = _ => destruct x eqn:?
  end;
  try discriminate H;
  try (inversion H; subst; lia);
  try (eapply consume_number_pos; [exact H|]; first [left; assumption | right; apply beq_eq; assumption]);
  try (unfold ident_or_keyword in H; destruct (is_keyword _); inversion H; subst;
       apply span_pos; apply ident_start_part; assumption).
  (* back-quoted identifier *)
  all: try (inversion H; subst;
            match goal with Q : quoted _ _ _ _ _ _ _ _ _ _ = QDone _ _ _ |- _ => apply quoted_ge in Q; lia end).
  (* prefixed / plain string and bytes literals *)
  all: inversion H; subst;
    match goal with
    | LP : literal_prefix _ _ _ _ _ = Some (?i, _, _), Q : consume_quoted_literal _ _ _ _ = QDone _ ?m _ |- _ =>
        destruct i; [|lia]; cbn [skipn] in Q; unfold consume_quoted_literal in Q;
        apply quoted_ge in Q; destruct (peek_is _ 1 _ && peek_is _ 2 _); simpl in Q; lia
    end.
Qed.

Lemma consume_field_token_pos np last c s1 n k str b d :
  consume_field_token np last (c :: s1) = COk n k str b d -> 0 < n.
Proof.
  unfold consume_field_token. destruct (is_ident_part c) eqn:E.
  - intros H. inversion H; subst. apply span_pos. exact E.
  - apply consume_token_pos.
Qed.

(* in panic mode every token other than <eof> has a non-empty Raw *)
Lemma next_token_nonempty l l' :
  next_token false l = LOk l' -> keq (t_kind (l_tok l')) K_eof = false -> t_raw (l_tok l') <> [].
Proof.
  unfold next_token. intros H E.
  destruct (trivia _ _ _ _ _) as [cs sp s pos|cs s pos|p e] eqn:T.
  - destruct (if l_dot l then _ else _) as [n kind str base dot|p e c] eqn:R.
    + destruct (length s <? n) eqn:LN; [discriminate|]. apply Nat.ltb_ge in LN.
      inversion H; subst l'; clear H. simpl in *.
      destruct s as [|c s1].
      * exfalso. destruct (l_dot l); simpl in R; inversion R; subst; discriminate E.
      * assert (0 < n) by (destruct (l_dot l); [eapply consume_field_token_pos|eapply consume_token_pos]; eauto).
        destruct n; [lia|]. simpl. discriminate.
    + unfold raise in H. destruct (position_of _ _ _); discriminate.
  - apply trivia_bad in T. destruct T as [X _]. discriminate.
  - unfold raise in H. destruct (position_of _ _ _); discriminate.
Qed.

(* ---------- per-token trivia facts (panic mode) ---------- *)
Definition tok_trivia_wf (src : bytes) (start : nat) (t : token) : Prop :=
  cchain start (t_comments t) /\ trivia_wf src (t_comments t) /\
  space_prefix (length (t_space t)) (skipn (length (render_comments (t_comments t))) src).

Lemma next_token_trivia l l' :
  next_token false l = LOk l' -> tok_trivia_wf (l_rest l) (l_pos l) (l_tok l').
Proof.
  unfold next_token. intros H.
  destruct (trivia _ _ _ _ _) as [cs sp s pos|cs s pos|p e] eqn:T.
  - apply trivia_wf_ok in T. destruct T as (new & A & B & C & D). simpl in A. subst cs.
    destruct (if l_dot l then _ else _) as [n kind str base dot|p e c] eqn:R.
    + destruct (length s <? n); [discriminate|]. inversion H; subst l'. unfold tok_trivia_wf. simpl. auto.
    + unfold raise in H. destruct (position_of _ _ _); discriminate.
  - apply trivia_bad in T. destruct T as [X _]. discriminate.
  - unfold raise in H. destruct (position_of _ _ _); discriminate.
Qed.

Fixpoint tokens_wf (src : bytes) (start : nat) (ts : list token) : Prop :=
  match ts with
  | [] => True
  | t :: ts' => tok_trivia_wf src start t /\ tokens_wf (skipn (length (render t)) src) (t_end t) ts'
  end.

(* ---------- the full statement about lex_loop ---------- *)
Lemma lex_loop_full : forall fuel l racc ts,
  lex_inv l ->
  lex_loop fuel l racc = LOk ts ->
  exists body e,
    ts = rev racc ++ body ++ [e] /\
    l_rest l = render_all (body ++ [e]) /\
    chain (l_pos l) (body ++ [e]) /\
    tokens_wf (l_rest l) (l_pos l) (body ++ [e]) /\
    keq (t_kind e) K_eof = true /\ t_raw e = [] /\
    Forall (fun t => keq (t_kind t) K_eof = false /\ t_raw t <> []) body.
Proof.
  induction fuel as [|f IH]; intros l racc ts I H; simpl in H; [discriminate|].
  unfold NextToken in H. destruct (next_token false l) as [l'| |] eqn:N; try discriminate.
  pose proof (next_token_step _ _ _ N) as S. pose proof (step_inv _ _ I S) as I'.
  pose proof (next_token_trivia _ _ N) as TW.
  destruct S as [Sb St Sp Se Sl Sk].
  destruct (keq (t_kind (l_tok l')) K_eof) eqn:E.
  - inversion H; subst ts. destruct (next_token_eof _ _ _ N E) as [R0 RW].
    exists [], (l_tok l'). simpl.
    split; [reflexivity|]. split; [rewrite St, R0; reflexivity|]. split; [auto|]. split; [auto|]. auto.
  - pose proof (next_token_nonempty _ _ N E) as NE.
    apply IH in H; [|exact I']. destruct H as (body & e & A & B & C & D & F1 & F2 & F3).
    exists (l_tok l' :: body), e.
    split; [rewrite A; simpl; rewrite <- app_assoc; reflexivity|].
    split; [simpl; rewrite St, B; reflexivity|].
    split; [simpl; split; [exact Sp|]; split; [exact Se|]; rewrite <- Sl; exact C|].
    split.
    { simpl. split; [exact TW|]. rewrite <- Sl. rewrite St. rewrite skipn_app_exact. exact D. }
    split; [exact F1|]. split; [exact F2|]. constructor; auto.
Qed.

(* Raw == input[Pos:End] for every token of a tiling chain *)
Lemma slice_mid (a m b : bytes) lo hi :
  lo = length a -> hi = length a + length m -> slice (a ++ m ++ b) lo hi = Some m.
Proof.
  intros -> ->. unfold slice.
  destruct (length a <=? length a + length m) eqn:X; [|apply Nat.leb_gt in X; lia].
  destruct (length a + length m <=? length (a ++ m ++ b)) eqn:Y; [|apply Nat.leb_gt in Y; rewrite !app_length in Y; lia].
  simpl. rewrite skipn_app_exact. replace (length a + length m - length a) with (length m) by lia.
  rewrite firstn_app_exact. reflexivity.
Qed.

Lemma chain_slices : forall ts pre post t,
  chain (length pre) ts -> In t ts ->
  slice (pre ++ render_all ts ++ post) (t_pos t) (t_end t) = Some (t_raw t).
Proof.
  induction ts as [|a ts IH]; intros pre post t C HI; [destruct HI|].
  simpl in C. destruct C as (P & E & C). destruct HI as [<-|HI].
  - simpl render_all. unfold render.
    replace (pre ++ ((render_comments (t_comments a) ++ t_space a ++ t_raw a) ++ render_all ts) ++ post)
      with ((pre ++ render_comments (t_comments a) ++ t_space a) ++ t_raw a ++ (render_all ts ++ post))
      by (rewrite <- !app_assoc; reflexivity).
    apply slice_mid; rewrite !app_length; lia.
  - simpl render_all.
    replace (pre ++ (render a ++ render_all ts) ++ post) with ((pre ++ render a) ++ render_all ts ++ post)
      by (rewrite <- !app_assoc; reflexivity).
    apply IH; [|exact HI].
    replace (length (pre ++ render a)) with (t_end a); [exact C|].
    unfold render. rewrite !app_length. lia.
Qed.

(* comments as well: Raw == input[Pos:End] *)
Lemma cchain_slices : forall cs pre post c,
  cchain (length pre) cs -> In c cs ->
  slice (pre ++ render_comments cs ++ post) (c_pos c) (c_end c) = Some (c_raw c).
Proof.
  induction cs as [|a cs IH]; intros pre post c C HI; [destruct HI|].
  simpl in C. destruct C as (P & E & NE & C).
  change (render_comments (a :: cs)) with (render_comment a ++ render_comments cs).
  destruct HI as [<-|HI].
  - unfold render_comment.
    replace (pre ++ ((c_space a ++ c_raw a) ++ render_comments cs) ++ post)
      with ((pre ++ c_space a) ++ c_raw a ++ (render_comments cs ++ post))
      by (rewrite <- !app_assoc; reflexivity).
    apply slice_mid; rewrite !app_length; lia.
  - replace (pre ++ (render_comment a ++ render_comments cs) ++ post)
      with ((pre ++ render_comment a) ++ render_comments cs ++ post) by (rewrite <- !app_assoc; reflexivity).
    apply IH; [|exact HI].
    replace (length (pre ++ render_comment a)) with (c_end a); [exact C|].
    unfold render_comment. rewrite !app_length. lia.
Qed.
