(* Lex/Reference.v -- a REFERENCE lexer written from the GoogleSQL lexical-structure page (Spanner dialect), independently of
   the control structure of lexer.go: token classes are given by regular-expression-like recognisers, string/bytes
   literals by a two-pass definition (find the closing delimiter, then decode the body), operators by a longest-match table.
   Lex/RefProofs.v proves that the line-by-line model of lexer.go (Lex/Lexer.v) computes exactly this function on every input.
   Where the page is silent the pinned behaviour is followed; those places are marked DOC-SILENT. *)
From Verif Require Import Base.Bytes Base.Utf8 Gen.Keywords.
Local Open Scope nat_scope.

Definition R_eof := bs "<eof>".     Definition R_ident := bs "<ident>". Definition R_param := bs "<param>".
Definition R_int := bs "<int>".     Definition R_float := bs "<float>".
Definition R_string := bs "<string>". Definition R_bytes := bs "<bytes>".

(* a recognised token: kind, number of bytes, decoded value (AsString), integer base *)
Record rtok := RT { r_kind : bytes; r_len : nat; r_str : bytes; r_base : nat }.

(* ---- generic recognisers ---- *)
Fixpoint many (p : byte -> bool) (s : bytes) : nat :=          (* p* , longest *)
  match s with c :: t => if p c then S (many p t) else 0 | [] => 0 end.

Fixpoint has_prefix (pre s : bytes) : bool :=
  match pre, s with
  | [], _ => true
  | a :: pre', b :: s' => beq b a && has_prefix pre' s'
  | _ :: _, [] => false
  end.

(* index of the first occurrence of pat in s *)
Fixpoint index_of (pat s : bytes) : option nat :=
  match s with
  | [] => None
  | _ :: t => if has_prefix pat s then Some 0 else option_map S (index_of pat t)
  end.

Definition byte_in (cs : bytes) (c : byte) : bool := existsb (beq c) cs.

(* ---- whitespace and comments ---- *)
(* whitespace: any run of Unicode White_Space code points *)
Fixpoint ws_len (fuel : nat) (s : bytes) : nat :=
  match fuel with
  | O => 0
  | S f => match s with
           | [] => 0
           | _ => let '(r, size) := decode_rune s in if is_space_rune r then size + ws_len f (skipn size s) else 0
           end
  end.

Inductive cmt := NoComment | Comment (len : nat) | Unterminated.

(* hash, dash-dash, slash-slash: up to and including the end of the line (or the end of input); slash-star: up to the first star-slash *)
Definition comment_at (s : bytes) : cmt :=
  if has_prefix (bs "#") s || has_prefix (bs "--") s || has_prefix (bs "//") s then
    match index_of [x0a] s with Some k => Comment (k + 1) | None => Comment (length s) end
  else if has_prefix (bs "/*") s then
    (* DOC-SILENT: the terminator is searched from the start of the comment, so slash-star-slash is a complete comment *)
    match index_of (bs "*/") s with Some k => Comment (k + 2) | None => Unterminated end
  else NoComment.

(* (whitespace | comment)* : total length, or None for an unterminated block comment *)
Fixpoint trivia_len (fuel : nat) (s : bytes) : option nat :=
  match fuel with
  | O => Some 0
  | S f =>
      let n := ws_len (S (length s)) s in
      match comment_at (skipn n s) with
      | NoComment => Some n
      | Unterminated => None
      | Comment m => option_map (fun k => n + m + k) (trivia_len f (skipn (n + m) s))
      end
  end.

(* ---- numbers ----
     hex integer      0[xX][0-9a-fA-F]+
     decimal integer  [0-9]+
     floating point   [0-9]+ '.' [0-9]* exponent?  |  '.' [0-9]+ exponent?  |  [0-9]+ exponent      exponent = [eE][+-]?[0-9]+
   and a number may not be glued to an identifier character *)
Definition exponent_len (s : bytes) : nat :=
  match s with
  | e :: t =>
      if byte_in (bs "eE") e then
        match t with
        | d :: t' =>
            if is_digit d then 1 + many is_digit t
            else if byte_in (bs "+-") d then
              match t' with d2 :: _ => if is_digit d2 then 2 + many is_digit t' else 0 | [] => 0 end
            else 0
        | [] => 0
        end
      else 0
  | [] => 0
  end.

Definition number_at (s : bytes) : option rtok :=
  let is_hex := match s with
                | z :: x :: h :: _ => beq z x30 && byte_in (bs "xX") x && is_hex_digit h
                | _ => false
                end in
  let '(n, is_int, base) :=
    if is_hex then (2 + many is_hex_digit (skipn 2 s), true, 16)
    else
      let n1 := many is_digit s in
      let frac := match skipn n1 s with d :: t => if beq d x2e then 1 + many is_digit t else 0 | [] => 0 end in
      let ex := exponent_len (skipn (n1 + frac) s) in
      (n1 + frac + ex, (frac =? 0) && (ex =? 0), 10) in
  match nth_error s n with
  | Some c => if is_ident_part c then None
              else Some (RT (if is_int then R_int else R_float) n [] (if is_int then base else 0))
  | None => Some (RT (if is_int then R_int else R_float) n [] (if is_int then base else 0))
  end.

(* ---- quoted literals: two passes ---- *)
(* pass 1: where the literal ends.  A backslash protects the byte after it (in raw literals too); a literal that is not
   triple-quoted may not contain a line feed.  DOC-SILENT: a protected line feed (backslash + LF) is not an unescaped newline. *)
Fixpoint find_close (q : bytes) (multiline : bool) (s : bytes) : option nat :=
  match s with
  | [] => None
  | c :: t =>
      if has_prefix q s then Some 0
      else if beq c x5c then
        match t with
        | [] => None
        | _ :: t' => option_map (fun k => 2 + k) (find_close q multiline t')
        end
      else if beq c x0a && negb multiline then None
      else option_map S (find_close q multiline t)
  end.

(* the escape sequences of the page: what follows the backslash -> (decoded bytes, bytes consumed after the backslash) *)
Definition hexv (s : bytes) : N := fold_left (fun acc c => (acc * 16 + match hex_val c with Some v => v | None => 0 end)%N) s 0%N.
Definition octv (s : bytes) : N := fold_left (fun acc c => (acc * 8 + (bN c - 48))%N) s 0%N.
Definition all_of (p : byte -> bool) (n : nat) (s : bytes) : bool := (n <=? length s) && forallb p (firstn n s).

Definition simple_escapes : list (byte * byte) :=
  [(x61, x07); (x62, x08); (x66, x0c); (x6e, x0a); (x72, x0d); (x74, x09); (x76, x0b);     (* \a \b \f \n \r \t \v *)
   (x5c, x5c); (x3f, x3f); (x22, x22); (x27, x27); (x60, x60)].                            (* backslash, question mark, the three quote characters *)

Definition escape_at (unicode : bool) (s : bytes) : option (bytes * nat) :=
  match s with
  | [] => None
  | e :: t =>
      match find (fun p => beq e (fst p)) simple_escapes with
      | Some (_, v) => Some ([v], 1)
      | None =>
          if byte_in (bs "xX") e then                                       (* \xHH *)
            if all_of is_hex_digit 2 t then Some ([byte_of_N (hexv (firstn 2 t))], 3) else None
          else if beq e x75 then                                            (* \uHHHH, strings and identifiers only *)
            if unicode && all_of is_hex_digit 4 t && valid_rune (hexv (firstn 4 t))
            then Some (encode_rune (hexv (firstn 4 t)), 5) else None
          else if beq e x55 then                                            (* \UHHHHHHHH *)
            if unicode && all_of is_hex_digit 8 t && valid_rune (hexv (firstn 8 t))
            then Some (encode_rune (hexv (firstn 8 t)), 9) else None
          else if byte_in (bs "0123") e then                                (* \ooo, 000..377 *)
            if all_of is_octal_digit 2 t then Some ([byte_of_N (octv (firstn 3 s))], 3) else None
          else None
      end
  end.

(* pass 2: decode the body *)
Fixpoint decode_body (fuel : nat) (unicode : bool) (s : bytes) : option bytes :=
  match fuel with
  | O => match s with [] => Some [] | _ => None end
  | S f =>
      match s with
      | [] => Some []
      | c :: t =>
          if beq c x5c then
            match escape_at unicode t with
            | Some (v, n) => option_map (app v) (decode_body f unicode (skipn n t))
            | None => None
            end
          else option_map (cons c) (decode_body f unicode t)
      end
  end.

(* s starts right after the opening delimiter q: (value, length including the closing delimiter) *)
Definition quoted_at (q : bytes) (raw unicode : bool) (s : bytes) : option (bytes * nat) :=
  match find_close q (length q =? 3) s with
  | None => None
  | Some k =>
      let body := firstn k s in
      match (if raw then Some body else decode_body (length body) unicode body) with
      | Some v => Some (v, k + length q)
      | None => None
      end
  end.

(* string and bytes literals: optional prefix r, b, rb, br (any case), then a single or double quote, alone or tripled *)
Definition literal_prefixes : list (bytes * bool * bool) :=        (* prefix, bytes?, raw? *)
  [(bs "", false, false);
   (bs "r", false, true); (bs "R", false, true);
   (bs "b", true, false); (bs "B", true, false);
   (bs "rb", true, true); (bs "rB", true, true); (bs "Rb", true, true); (bs "RB", true, true);
   (bs "br", true, true); (bs "bR", true, true); (bs "Br", true, true); (bs "BR", true, true)].

Definition is_quote (c : byte) : bool := beq c x22 || beq c x27.

Definition literal_at (s : bytes) : option (option rtok) :=       (* None: not a literal here; Some None: malformed literal *)
  match find (fun p => let pre := fst (fst p) in has_prefix pre s &&
                       match nth_error s (length pre) with Some c => is_quote c | None => false end) literal_prefixes with
  | None => None
  | Some (pre, is_bytes, raw) =>
      let s1 := skipn (length pre) s in
      match s1 with
      | qc :: _ =>
          let q := if has_prefix [qc; qc; qc] s1 then [qc; qc; qc] else [qc] in
          match quoted_at q raw (negb is_bytes) (skipn (length q) s1) with
          | Some (v, n) => Some (Some (RT (if is_bytes then R_bytes else R_string) (length pre + length q + n) v 0))
          | None => Some None
          end
      | [] => None
      end
  end.

(* ---- operators and punctuation: longest match ---- *)
Definition operators : list bytes :=
  [bs "<<"; bs "<="; bs "<>"; bs ">>"; bs ">="; bs "+="; bs "-="; bs "->"; bs "=>"; bs "|>"; bs "||"; bs "!="; bs "@@";
   bs "("; bs ")"; bs "{"; bs "}"; bs ";"; bs ","; bs "["; bs "]"; bs "~"; bs "*"; bs "/"; bs "&"; bs "^"; bs "%"; bs ":";
   bs "?"; bs "\"; bs "$"; bs "."; bs "<"; bs ">"; bs "+"; bs "-"; bs "="; bs "|"; bs "!"; bs "@"].

Definition operator_at (s : bytes) : option rtok :=
  match find (fun op => has_prefix op s) operators with       (* two-character operators are listed first *)
  | Some op => Some (RT op (length op) [] 0)
  | None => None
  end.

(* ---- identifiers, keywords, parameters ---- *)
Definition word_at (s : bytes) : rtok :=                       (* [A-Za-z_][A-Za-z0-9_]* ; reserved keywords in any case *)
  let n := many is_ident_part s in
  let w := firstn n s in
  if existsb (bytes_eqb (to_upper w)) keywords then RT (to_upper w) n [] 0 else RT R_ident n w 0.

(* the previous token can end a path expression: identifier, parameter, ')' or ']' *)
Definition ends_path (prev : bytes) : bool :=
  bytes_eqb prev R_ident || bytes_eqb prev R_param || bytes_eqb prev (bs ")") || bytes_eqb prev (bs "]").

(* one token at s (trivia already removed); prev = kind of the previous token.  None = reject *)
Definition token_at (prev : bytes) (s : bytes) : option rtok :=
  match s with
  | [] => Some (RT R_eof 0 [] 0)
  | c :: t =>
      let next_digit := match t with d :: _ => is_digit d | [] => false end in
      let next_start := match t with d :: _ => is_ident_start d | [] => false end in
      if is_digit c || (beq c x2e && next_digit && negb (ends_path prev)) then number_at s
      else if beq c x60 then                                                       (* `quoted identifier`, not empty *)
        match quoted_at [x60] false true t with
        | Some (v, n) => match v with [] => None | _ => Some (RT R_ident (1 + n) v 0) end
        | None => None
        end
      else match literal_at s with
      | Some r => r
      | None =>
          if is_ident_start c then Some (word_at s)
          else if beq c x40 && next_start && negb (has_prefix (bs "@@") s) then   (* @parameter *)
            let n := many is_ident_part t in Some (RT R_param (1 + n) (firstn n t) 0)
          else operator_at s
      end
  end.

(* after the '.' of a path expression an identifier-like run (even digits or a keyword) is an identifier *)
Definition field_token_at (prev : bytes) (s : bytes) : option rtok :=
  match s with
  | c :: _ => if is_ident_part c then let n := many is_ident_part s in Some (RT R_ident n (firstn n s) 0) else token_at prev s
  | [] => token_at prev s
  end.

(* the token sequence of a whole input: (kind, raw text, value, base) per token, <eof> last; None = rejected *)
Definition rtoken := (bytes * bytes * bytes * nat)%type.

Fixpoint ref_loop (fuel : nat) (prev : bytes) (after_path_dot : bool) (s : bytes) (racc : list rtoken) : option (list rtoken) :=
  match fuel with
  | O => None
  | S f =>
      match trivia_len (S (length s)) s with
      | None => None
      | Some n =>
          let s1 := skipn n s in
          match (if after_path_dot then field_token_at prev s1 else token_at prev s1) with
          | None => None
          | Some (RT kind len str base) =>
              let tok := (kind, firstn len s1, str, base) in
              if bytes_eqb kind R_eof then Some (rev (tok :: racc))
              else ref_loop f kind (negb after_path_dot && bytes_eqb kind (bs ".") && ends_path prev) (skipn len s1) (tok :: racc)
          end
      end
  end.

Definition ref_lex (buf : bytes) : option (list rtoken) := ref_loop (length buf + 2) [] false buf [].
