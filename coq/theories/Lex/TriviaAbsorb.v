(* Lex/TriviaAbsorb.v -- C16, lexer half: white space and complete comments in front of the unread input are absorbed by the
   reference lexer (and therefore, by Lex/RefLoop.v, by the model of lexer.go): the token stream from there on is the same with or
   without them.  White space: every Unicode White_Space character in its UTF-8 encoding; comments: '#', '--', '//' up to and
   including the line feed, '/* ... */'. *)
From Verif Require Import Base.Bytes Base.Utf8 Gen.Keywords Lex.Reference.
Local Open Scope nat_scope.

(* the UTF-8 encodings of the 25 White_Space code points *)
Definition ws_chunks : list bytes :=
  [[x09]; [x0a]; [x0b]; [x0c]; [x0d]; [x20]; [xc2; x85]; [xc2; xa0]; [xe1; x9a; x80];
   [xe2; x80; x80]; [xe2; x80; x81]; [xe2; x80; x82]; [xe2; x80; x83]; [xe2; x80; x84]; [xe2; x80; x85]; [xe2; x80; x86];
   [xe2; x80; x87]; [xe2; x80; x88]; [xe2; x80; x89]; [xe2; x80; x8a]; [xe2; x80; xa8]; [xe2; x80; xa9]; [xe2; x80; xaf];
   [xe2; x81; x9f]; [xe3; x80; x80]].

Lemma ws_chunk_decodes w : In w ws_chunks -> forall s, exists r, decode_rune (w ++ s) = (r, length w) /\ is_space_rune r = true.
Proof.
  intros H s. cbn [ws_chunks In] in H.
  repeat (destruct H as [<- | H]; [eexists; split; [reflexivity|reflexivity]|]). destruct H.
Qed.

Lemma ws_chunk_nonempty w : In w ws_chunks -> w <> [].
Proof. intros H. cbn [ws_chunks In] in H. repeat (destruct H as [<- | H]; [discriminate|]). destruct H. Qed.

(* ---- fuel of ws_len is irrelevant once it covers the input ---- *)
Lemma decode_size s r n : decode_rune s = (r, n) -> s <> [] -> 1 <= n /\ n <= length s.
Proof.
  destruct s as [|b0 s1]; [congruence|]. intros D _. unfold decode_rune in D.
  repeat match type of D with
         | (if ?c then _ else _) = _ => destruct c
         | match ?x with _ => _ end = _ => destruct x
         end; inversion D; subst; cbn [length]; lia.
Qed.

Lemma ws_len_fuel : forall f1 f2 s, length s < f1 -> length s < f2 -> ws_len f1 s = ws_len f2 s.
Proof.
  induction f1 as [|f1 IH]; intros f2 s L1 L2; [lia|]. destruct f2 as [|f2]; [lia|].
  cbn [ws_len]. destruct s as [|c s']; [reflexivity|].
  destruct (decode_rune (c :: s')) as [r n] eqn:D. destruct (is_space_rune r); [|reflexivity].
  destruct (decode_size _ _ _ D ltac:(discriminate)) as [N1 N2].
  f_equal. apply IH; rewrite skipn_length; cbn [length] in *; lia.
Qed.

Lemma ws_len_S f s : ws_len (S f) s =
  match s with [] => 0 | _ => let '(r, size) := decode_rune s in if is_space_rune r then size + ws_len f (skipn size s) else 0 end.
Proof. reflexivity. Qed.

Lemma ws_len_chunk w s : In w ws_chunks -> ws_len (S (length (w ++ s))) (w ++ s) = length w + ws_len (S (length s)) s.
Proof.
  intros H. destruct (ws_chunk_decodes w H s) as (r & D & SP). pose proof (ws_chunk_nonempty w H) as NE.
  rewrite (ws_len_S (length (w ++ s)) (w ++ s)). rewrite D, SP.
  destruct (w ++ s) as [|c t] eqn:E; [destruct w; [congruence|discriminate]|]. rewrite <- E.
  f_equal. rewrite skipn_app, skipn_all, Nat.sub_diag. cbn [app skipn].
  apply ws_len_fuel; [|lia]. rewrite app_length. destruct w; [congruence|cbn [length]; lia].
Qed.

(* ---- prefixes and first occurrences survive appending ---- *)
Lemma has_prefix_app_true p : forall x s, has_prefix p x = true -> has_prefix p (x ++ s) = true.
Proof.
  induction p as [|a p IH]; intros x s H; [reflexivity|]. destruct x as [|b x]; [discriminate|].
  cbn [has_prefix app] in *. apply andb_true_iff in H as [H1 H2]. rewrite H1, (IH x s H2). reflexivity.
Qed.

Lemma has_prefix_app p : forall x s, length p <= length x -> has_prefix p (x ++ s) = has_prefix p x.
Proof.
  induction p as [|a p IH]; intros x s L; [reflexivity|]. destruct x as [|b x]; [cbn in L; lia|].
  cbn [has_prefix app]. rewrite IH; [reflexivity|cbn in L; lia].
Qed.

Lemma has_prefix_length p : forall x, has_prefix p x = true -> length p <= length x.
Proof.
  induction p as [|a p IH]; intros x H; [cbn; lia|]. destruct x as [|b x]; [discriminate|].
  cbn [has_prefix] in H. apply andb_true_iff in H as [_ H]. apply IH in H. cbn. lia.
Qed.

Lemma index_of_bound p : forall c k, index_of p c = Some k -> k + length p <= length c.
Proof.
  induction c as [|a c IH]; intros k H; [discriminate|]. cbn [index_of] in H.
  destruct (has_prefix p (a :: c)) eqn:HP.
  - inversion H; subst. apply has_prefix_length in HP. lia.
  - destruct (index_of p c) as [k'|]; [|discriminate]. inversion H; subst. specialize (IH k' eq_refl). cbn [length]. lia.
Qed.

Lemma index_of_app p : forall c s k, index_of p c = Some k -> index_of p (c ++ s) = Some k.
Proof.
  induction c as [|a c IH]; intros s k H; [discriminate|]. cbn [index_of app] in *.
  destruct (has_prefix p (a :: c)) eqn:HP.
  - change (a :: c ++ s) with ((a :: c) ++ s). rewrite (has_prefix_app_true p (a :: c) s HP). exact H.
  - destruct (index_of p c) as [k'|] eqn:IX; [|discriminate].
    pose proof (index_of_bound p c k' IX) as B.
    change (a :: c ++ s) with ((a :: c) ++ s). rewrite has_prefix_app by (cbn [length]; lia). rewrite HP.
    rewrite (IH s k' eq_refl). exact H.
Qed.

(* ---- complete comments ---- *)
Definition line_opener (c : bytes) : bool := has_prefix (bs "#") c || has_prefix (bs "--") c || has_prefix (bs "//") c.

Definition closed_comment (c : bytes) : Prop :=
  (line_opener c = true /\ exists k, index_of [x0a] c = Some k /\ k + 1 = length c) \/
  (line_opener c = false /\ has_prefix (bs "/*") c = true /\ exists k, index_of (bs "*/") c = Some k /\ k + 2 = length c).

Lemma line_opener_app c s : line_opener c = true -> line_opener (c ++ s) = true.
Proof.
  unfold line_opener. intros H. apply orb_true_iff in H as [H | H]; [apply orb_true_iff in H as [H | H]|];
    rewrite (has_prefix_app_true _ c s H); rewrite ?orb_true_r; reflexivity.
Qed.

Lemma block_not_line c s : has_prefix (bs "/*") c = true -> line_opener (c ++ s) = false.
Proof.
  change (bs "/*") with [x2f; x2a]. intros H. destruct c as [|a [|b c']]; cbn [has_prefix] in H; try discriminate;
    [rewrite andb_false_r in H; discriminate|].
  apply andb_true_iff in H as [H1 H2]. apply andb_true_iff in H2 as [H2 _]. apply beq_eq in H1, H2. subst. reflexivity.
Qed.

Lemma closed_comment_at c s : closed_comment c -> comment_at (c ++ s) = Comment (length c).
Proof.
  intros [[LO (k & IX & KL)] | [LO [BO (k & IX & KL)]]]; unfold comment_at.
  - fold (line_opener (c ++ s)). rewrite (line_opener_app c s LO). rewrite (index_of_app _ c s k IX). f_equal. exact KL.
  - fold (line_opener (c ++ s)). rewrite (block_not_line c s BO). rewrite (has_prefix_app_true _ c s BO).
    rewrite (index_of_app _ c s k IX). f_equal. exact KL.
Qed.

Lemma closed_comment_nonempty c : closed_comment c -> 1 <= length c.
Proof. intros [[_ (k & _ & KL)] | [_ [_ (k & _ & KL)]]]; lia. Qed.

(* a comment does not start with white space *)
Lemma closed_comment_no_ws c s : closed_comment c -> ws_len (S (length (c ++ s))) (c ++ s) = 0.
Proof.
  intros H. assert (F : exists a c', c = a :: c' /\ (a = x23 \/ a = x2d \/ a = x2f)).
  { destruct H as [[LO _] | [_ [BO _]]].
    - unfold line_opener in LO. destruct c as [|a c']; [discriminate|]. exists a, c'. split; [reflexivity|].
      change (bs "#") with [x23] in LO. change (bs "--") with [x2d; x2d] in LO. change (bs "//") with [x2f; x2f] in LO.
      cbn [has_prefix] in LO. destruct (beq a x23) eqn:E1; [apply beq_eq in E1; auto|].
      destruct (beq a x2d) eqn:E2; [apply beq_eq in E2; auto|]. destruct (beq a x2f) eqn:E3; [apply beq_eq in E3; auto|].
      cbn in LO. discriminate.
    - destruct c as [|a c']; [discriminate|]. exists a, c'. split; [reflexivity|]. change (bs "/*") with [x2f; x2a] in BO.
      cbn [has_prefix] in BO. apply andb_true_iff in BO as [B _]. apply beq_eq in B. auto. }
  destruct F as (a & c' & -> & A). rewrite ws_len_S. cbn [app]. destruct A as [-> | [-> | ->]]; reflexivity.
Qed.

(* ---- trivia_len ---- *)
Lemma trivia_len_S f s : trivia_len (S f) s =
  let n := ws_len (S (length s)) s in
  match comment_at (skipn n s) with
  | NoComment => Some n
  | Unterminated => None
  | Comment m => option_map (fun k => n + m + k) (trivia_len f (skipn (n + m) s))
  end.
Proof. reflexivity. Qed.

Lemma index_le p s k : index_of p s = Some k -> k <= length s.
Proof. intros H. apply index_of_bound in H. lia. Qed.

Lemma comment_at_bounds x m : comment_at x = Comment m -> 1 <= m /\ m <= length x.
Proof.
  unfold comment_at. destruct (_ || _ || _) eqn:LO.
  - destruct (index_of [x0a] x) as [k|] eqn:IX; intros H; inversion H; subst.
    + apply index_of_bound in IX. cbn [length] in IX. lia.
    + destruct x; [cbn in LO; discriminate|cbn [length]; lia].
  - destruct (has_prefix (bs "/*") x) eqn:BO; [|discriminate].
    destruct (index_of (bs "*/") x) as [k|] eqn:IX; intros H; inversion H; subst.
    apply index_of_bound in IX. change (length (bs "*/")) with 2 in IX. lia.
Qed.

Lemma trivia_len_fuel : forall f1 f2 s, length s < f1 -> length s < f2 -> trivia_len f1 s = trivia_len f2 s.
Proof.
  induction f1 as [|f1 IH]; intros f2 s L1 L2; [lia|]. destruct f2 as [|f2]; [lia|].
  rewrite !trivia_len_S. cbv zeta. destruct (comment_at _) as [|m|] eqn:C; try reflexivity.
  apply comment_at_bounds in C as [M1 M2]. rewrite skipn_length in M2.
  f_equal. apply IH; rewrite skipn_length; lia.
Qed.

Lemma skipn_add_app {A} (w r : list A) a : skipn (length w + a) (w ++ r) = skipn a r.
Proof. rewrite skipn_app. replace (length w + a - length w) with a by lia. rewrite skipn_all2 by lia. reflexivity. Qed.

(* one white-space character in front *)
Lemma ws_step w r : In w ws_chunks ->
  trivia_len (S (length (w ++ r))) (w ++ r) = option_map (fun n => length w + n) (trivia_len (S (length r)) r).
Proof.
  intros H. pose proof (ws_chunk_nonempty w H) as NE. rewrite !trivia_len_S. cbv zeta. rewrite (ws_len_chunk w r H).
  set (n' := ws_len (S (length r)) r). rewrite skipn_add_app.
  destruct (comment_at (skipn n' r)) as [|m|] eqn:C; try reflexivity.
  apply comment_at_bounds in C as [M1 M2]. rewrite skipn_length in M2.
  replace (length w + n' + m) with (length w + (n' + m)) by lia. rewrite skipn_add_app.
  rewrite (trivia_len_fuel (length (w ++ r)) (length r)).
  - destruct (trivia_len (length r) (skipn (n' + m) r)); cbn [option_map]; [f_equal; lia|reflexivity].
  - rewrite skipn_length, app_length. destruct w; [congruence|cbn [length]; lia].
  - rewrite skipn_length. lia.
Qed.

(* one complete comment in front *)
Lemma comment_step c r : closed_comment c ->
  trivia_len (S (length (c ++ r))) (c ++ r) = option_map (fun n => length c + n) (trivia_len (S (length r)) r).
Proof.
  intros H. pose proof (closed_comment_nonempty c H) as NE. rewrite (trivia_len_S (length (c ++ r))). cbv zeta.
  rewrite (closed_comment_no_ws c r H). cbn [skipn]. rewrite (closed_comment_at c r H). cbn [Nat.add].
  rewrite skipn_app, skipn_all, Nat.sub_diag. cbn [app skipn].
  rewrite (trivia_len_fuel (length (c ++ r)) (S (length r))); [reflexivity|rewrite app_length; lia|lia].
Qed.

(* white space and complete comments, in any order *)
Inductive closed_trivia : bytes -> Prop :=
| ct_nil : closed_trivia []
| ct_ws w j : In w ws_chunks -> closed_trivia j -> closed_trivia (w ++ j)
| ct_comment c j : closed_comment c -> closed_trivia j -> closed_trivia (c ++ j).

Theorem trivia_absorb j : closed_trivia j -> forall s,
  trivia_len (S (length (j ++ s))) (j ++ s) = option_map (fun n => length j + n) (trivia_len (S (length s)) s).
Proof.
  induction 1 as [|w j H C IH|c j H C IH]; intros s.
  - cbn [app length]. destruct (trivia_len _ s); reflexivity.
  - rewrite <- app_assoc. rewrite (ws_step w (j ++ s) H), IH. rewrite app_length.
    destruct (trivia_len (S (length s)) s); cbn [option_map]; [f_equal; lia|reflexivity].
  - rewrite <- app_assoc. rewrite (comment_step c (j ++ s) H), IH. rewrite app_length.
    destruct (trivia_len (S (length s)) s); cbn [option_map]; [f_equal; lia|reflexivity].
Qed.

(* C16, lexer half: trivia in front of the unread input does not change the tokens that follow -- at any point of the scan
   (any previous token kind, path-dot mode or not, any tokens already produced) *)
Theorem ref_loop_absorbs j : closed_trivia j -> forall f prev apd s racc,
  ref_loop (S f) prev apd (j ++ s) racc = ref_loop (S f) prev apd s racc.
Proof.
  intros C f prev apd s racc. cbn [ref_loop]. rewrite (trivia_absorb j C s).
  destruct (trivia_len (S (length s)) s) as [n|]; cbn [option_map]; [|reflexivity].
  rewrite skipn_add_app. reflexivity.
Qed.

Corollary ref_lex_leading_trivia j s : closed_trivia j ->
  ref_loop (length (j ++ s) + 2) [] false (j ++ s) [] = ref_loop (length (j ++ s) + 2) [] false s [].
Proof. intros C. replace (length (j ++ s) + 2) with (S (length (j ++ s) + 1)) by lia. apply ref_loop_absorbs, C. Qed.

(* non-vacuity: a mix of every kind *)
Example closed_trivia_example :
  closed_trivia (bs " " ++ bs "/* a */" ++ [xe3; x80; x80] ++ (bs "-- x" ++ [x0a]) ++ (bs "#" ++ [x0a]) ++ bs "/**/" ++ [x09] ++ []).
Proof.
  apply ct_ws; [cbn; tauto|]. apply ct_comment; [right; cbn; repeat split; eexists; split; reflexivity|].
  apply ct_ws; [cbn; tauto|]. apply ct_comment; [left; cbn; split; [reflexivity|eexists; split; reflexivity]|].
  apply ct_comment; [left; cbn; split; [reflexivity|eexists; split; reflexivity]|].
  apply ct_comment; [right; cbn; repeat split; eexists; split; reflexivity|].
  apply ct_ws; [cbn; tauto|]. apply ct_nil.
Qed.

(* keyword recognition is insensitive to letter case: two words with the same upper-casing get the same kind *)
Lemma word_kind_case s s' :
  to_upper (firstn (many is_ident_part s) s) = to_upper (firstn (many is_ident_part s') s') -> r_kind (word_at s) = r_kind (word_at s').
Proof. unfold word_at. intros H. rewrite H. destruct (existsb _ keywords); reflexivity. Qed.
