(* Lex/RefProofs.v -- C14: the model of lexer.go computes exactly the reference lexer (Lex/Reference.v) on every input. *)
From Verif Require Import Base.Bytes Base.Utf8 Bytes.FileModel Gen.Keywords Lex.Lexer Lex.LexFacts Lex.LexTiling Lex.LexTotal Lex.Reference.
Local Open Scope nat_scope.

(* ---- generic recognisers ---- *)
Lemma many_span p s : many p s = span p s.
Proof. induction s as [|c s IH]; simpl; [reflexivity|]. rewrite IH. reflexivity. Qed.

Lemma has_prefix_starts q : forall s, has_prefix q s = starts_with q s.
Proof. induction q as [|a q IH]; intros [|b s]; simpl; auto. rewrite IH, beq_sym_bool. reflexivity. Qed.

(* ---- comments ---- *)
Lemma comment_until_index endm : forall s,
  comment_until endm s = match index_of endm s with Some k => (k + length endm, true) | None => (length s, false) end.
Proof.
  induction s as [|c s IH]; [reflexivity|].
  cbn [comment_until index_of]. rewrite has_prefix_starts. destruct (starts_with endm (c :: s)); [reflexivity|].
  rewrite IH. destruct (index_of endm s); reflexivity.
Qed.

Lemma peek1 c s x : peek_is (c :: s) 1 x = match s with d :: _ => beq d x | [] => false end.
Proof. destruct s; reflexivity. Qed.

Lemma skip_comment_ref s :
  skip_comment s = match comment_at s with
                   | NoComment => None
                   | Comment m => Some (m, false)
                   | Unterminated => Some (length s, true)
                   end.
Proof.
  destruct s as [|c s1]; [reflexivity|].
  unfold skip_comment, comment_at. rewrite !peek1. rewrite !comment_until_index.
  change (bs "#") with [x23]. change (bs "--") with [x2d; x2d]. change (bs "//") with [x2f; x2f]. change (bs "/*") with [x2f; x2a].
  change (bs "*/") with [x2a; x2f]. change [nl] with [x0a].
  cbn [has_prefix]. rewrite !andb_true_r.
  destruct s1 as [|d s2].
  - cbn [andb orb]. rewrite !andb_false_r, !orb_false_r.
    destruct (beq c x23) eqn:E; [|reflexivity].
    destruct (index_of [x0a] [c]); reflexivity.
  - rewrite !andb_true_r.
    replace (beq d x2d && beq c x2d) with (beq c x2d && beq d x2d) by apply andb_comm.
    replace (beq d x2f && beq c x2f) with (beq c x2f && beq d x2f) by apply andb_comm.
    replace (beq d x2a && beq c x2f) with (beq c x2f && beq d x2a) by apply andb_comm.
    destruct (beq c x23), (beq c x2d), (beq c x2f), (beq d x2d), (beq d x2f), (beq d x2a); cbn [andb orb];
      try destruct (index_of [x0a] (c :: d :: s2)); try destruct (index_of [x2a; x2f] (c :: d :: s2)); reflexivity.
Qed.

Lemma ws_len_skip : forall fuel s, ws_len fuel s = skip_spaces fuel s.
Proof. induction fuel as [|f IH]; intros s; [reflexivity|]. cbn [ws_len skip_spaces]. destruct s; [reflexivity|].
  destruct (decode_rune (b :: s)) as [r size]. destruct (is_space_rune r); [|reflexivity]. rewrite IH. reflexivity. Qed.

(* the trivia loop (public mode): where it stops *)
Lemma trivia_ref : forall fuel s pos rc,
  match trivia fuel false s pos rc with
  | TOk _ _ s' pos' => exists n, trivia_len fuel s = Some n /\ s' = skipn n s /\ pos' = pos + n
  | TBad _ _ _ => False
  | TErr _ _ => trivia_len fuel s = None
  end.
Proof.
  induction fuel as [|f IH]; intros s pos rc.
  - cbn [trivia trivia_len]. exists 0. rewrite Nat.add_0_r. auto.
  - cbn [trivia trivia_len]. change (ws_len (S (length s)) s) with (skip_spaces (S (length s)) s). set (n := skip_spaces (S (length s)) s).
    rewrite skip_comment_ref. destruct (comment_at (skipn n s)) as [|m|] eqn:C.
    + exists n. auto.
    + cbn [negb]. rewrite <- (skipn_skipn_add s m n).
      specialize (IH (skipn m (skipn n s)) (pos + n + m) (mkComment (firstn n s) (firstn m (skipn n s)) (pos + n) (pos + n + m) :: rc)).
      destruct (trivia f false (skipn m (skipn n s)) (pos + n + m) _) as [cs sp s' pos'| |]; auto.
      * destruct IH as (k & -> & -> & ->). exists (n + m + k). cbn [option_map]. rewrite !skipn_skipn_add. repeat split; auto.
        f_equal; lia. lia.
      * rewrite IH. reflexivity.
    + cbn [negb]. reflexivity.
Qed.

(* ---- numbers ---- *)
Lemma num_hex : forall s isint exp i, num_loop true s isint exp i = (i + many is_hex_digit s, isint).
Proof.
  induction s as [|c s IH]; intros isint exp i; cbn [num_loop many]; [rewrite Nat.add_0_r; reflexivity|].
  cbn [negb andb]. destruct (is_hex_digit c); cbn [andb].
  - rewrite IH. f_equal. lia.
  - rewrite !andb_false_r. rewrite Nat.add_0_r. reflexivity.
Qed.

Lemma num_after_exp : forall s i, num_loop false s false true i = (i + many is_digit s, false).
Proof.
  induction s as [|c s IH]; intros i; cbn [num_loop many]; [rewrite Nat.add_0_r; reflexivity|].
  cbn [negb andb]. destruct (is_digit c).
  - rewrite IH. f_equal. lia.
  - rewrite Nat.add_0_r. reflexivity.
Qed.

Lemma byte_in_eE c : byte_in (bs "eE") c = beq c x45 || beq c x65.
Proof. unfold byte_in. change (bs "eE") with [x65; x45]. cbn [existsb]. destruct (beq c x45), (beq c x65); reflexivity. Qed.
Lemma byte_in_sign c : byte_in (bs "+-") c = beq c x2b || beq c x2d.
Proof. unfold byte_in. change (bs "+-") with [x2b; x2d]. cbn [existsb]. rewrite orb_false_r. reflexivity. Qed.

(* the exponent branch of the loop: taken only when [eE][+-]?[0-9] follows *)
Lemma model_exponent c s' i isint : beq c x45 || beq c x65 = true ->
  match s' with
  | d :: s'' =>
      if is_digit d then num_loop false s' false true (S i)
      else if beq d x2b || beq d x2d then
        match s'' with
        | d2 :: _ => if is_digit d2 then num_loop false s'' false true (S (S i)) else (i, isint)
        | [] => (i, isint)
        end
      else (i, isint)
  | [] => (i, isint)
  end = if exponent_len (c :: s') =? 0 then (i, isint) else (i + exponent_len (c :: s'), false).
Proof.
  intros E. unfold exponent_len. rewrite byte_in_eE, E.
  destruct s' as [|d s'']; [reflexivity|].
  destruct (is_digit d) eqn:D.
  - rewrite num_after_exp. cbn [many]. rewrite D. cbn [Nat.add Nat.eqb]. f_equal. lia.
  - rewrite byte_in_sign. destruct (beq d x2b || beq d x2d); [|reflexivity].
    destruct s'' as [|d2 s3]; [reflexivity|]. destruct (is_digit d2) eqn:D2; [|reflexivity].
    rewrite num_after_exp. cbn [Nat.add Nat.eqb]. f_equal. lia.
Qed.

Lemma exponent_not_e c s' : beq c x45 || beq c x65 = false -> exponent_len (c :: s') = 0.
Proof. intros E. unfold exponent_len. rewrite byte_in_eE, E. reflexivity. Qed.

Lemma digit_not_special c : is_digit c = true -> beq c x2e = false /\ beq c x45 || beq c x65 = false.
Proof. destruct c; try discriminate; auto. Qed.

(* after the decimal point: [0-9]* exponent? *)
Lemma num_after_point : forall s i,
  num_loop false s false false i = (i + many is_digit s + exponent_len (skipn (many is_digit s) s), false).
Proof.
  induction s as [|c s IH]; intros i; cbn [num_loop many]; [cbn; f_equal; lia|].
  cbn [negb andb]. destruct (is_digit c) eqn:D.
  - rewrite IH. cbn [skipn]. f_equal. lia.
  - cbn [skipn]. destruct (beq c x45 || beq c x65) eqn:E.
    + rewrite (model_exponent c) by exact E. destruct (exponent_len (c :: s) =? 0) eqn:Z.
      * apply Nat.eqb_eq in Z. rewrite Z. f_equal. lia.
      * f_equal. lia.
    + rewrite exponent_not_e by exact E. f_equal. lia.
Qed.

Definition ref_decimal (s : bytes) : nat * bool :=
  let n1 := many is_digit s in
  let frac := match skipn n1 s with d :: t => if beq d x2e then 1 + many is_digit t else 0 | [] => 0 end in
  let ex := exponent_len (skipn (n1 + frac) s) in
  (n1 + frac + ex, (frac =? 0) && (ex =? 0)).

Lemma num_decimal : forall s i, num_loop false s true false i = (i + fst (ref_decimal s), snd (ref_decimal s)).
Proof.
  induction s as [|c s IH]; intros i; [cbn; f_equal; lia|].
  cbn [num_loop]. cbn [negb andb]. unfold ref_decimal. cbn [many]. destruct (is_digit c) eqn:D.
  - rewrite IH. unfold ref_decimal. cbn [skipn fst snd Nat.add]. f_equal. lia.
  - cbn [skipn Nat.add]. destruct (beq c x2e) eqn:P.
    + rewrite num_after_point. cbn [fst snd skipn Nat.add Nat.eqb andb]. f_equal. lia.
    + destruct (beq c x45 || beq c x65) eqn:E.
      * rewrite (model_exponent c) by exact E. cbn [fst snd Nat.eqb andb].
        destruct (exponent_len (c :: s) =? 0) eqn:Z.
        -- cbn [skipn]. rewrite Z. apply Nat.eqb_eq in Z. rewrite Z. f_equal; lia.
        -- cbn [skipn]. rewrite Z. f_equal; lia.
      * cbn [skipn fst snd]. rewrite exponent_not_e by exact E. f_equal. lia.
Qed.

Definition proj_c (r : cres) : option rtok :=
  match r with COk n k str base _ => Some (RT k n str base) | CErr _ _ _ => None end.

Lemma consume_number_ref s : proj_c (consume_number false s) = number_at s.
Proof.
  unfold consume_number, number_at.
  set (hexm := peek_is s 0 x30 && (peek_is s 1 x78 || peek_is s 1 x58) && match nth_error s 2 with Some d => is_hex_digit d | None => false end).
  set (hexr := match s with z :: x :: h :: _ => beq z x30 && byte_in (bs "xX") x && is_hex_digit h | _ => false end).
  assert (H : hexm = hexr).
  { unfold hexm, hexr, peek_is, byte_in. change (bs "xX") with [x78; x58]. destruct s as [|z [|x [|h t]]]; cbn [nth_error existsb]; rewrite ?andb_false_r; auto.
    rewrite orb_false_r. reflexivity. }
  rewrite H. clear H hexm. destruct hexr.
  - rewrite num_hex. cbn [negb]. destruct (nth_error s (2 + many is_hex_digit (skipn 2 s))) as [c|]; [destruct (is_ident_part c)|]; reflexivity.
  - cbn [skipn]. rewrite num_decimal. unfold ref_decimal. cbn [fst snd Nat.add].
    set (n1 := many is_digit s).
    set (frac := match skipn n1 s with d :: t => if beq d x2e then S (many is_digit t) else 0 | [] => 0 end).
    set (ex := exponent_len (skipn (n1 + frac) s)).
    destruct ((frac =? 0) && (ex =? 0)); destruct (nth_error s (n1 + frac + ex)) as [c|]; try destruct (is_ident_part c); reflexivity.
Qed.
