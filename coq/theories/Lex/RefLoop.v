(* Lex/RefLoop.v -- C14: the whole token stream.  lex_all (model of lexer.go) = ref_lex (reference) on every input. *)
From Verif Require Import Base.Bytes Base.Utf8 Bytes.FileModel Gen.Keywords Lex.Lexer Lex.LexFacts Lex.LexTiling Lex.LexTotal
  Lex.Reference Lex.RefProofs Lex.RefQuoted Lex.RefToken.
Local Open Scope nat_scope.

(* ---- which tokens switch the lexer to field mode ---- *)
Lemma dot_not_keyword : existsb (bytes_eqb [x2e]) keywords = false.
Proof. vm_compute. reflexivity. Qed.

Lemma ident_or_keyword_dot s n k str b d : ident_or_keyword s = COk n k str b d -> d = false /\ keq k [x2e] = false.
Proof.
  unfold ident_or_keyword. destruct (is_keyword _) eqn:E; intros H; inversion H; subst; split; auto.
  unfold is_keyword in E. destruct (keq (to_upper (firstn (span is_ident_part s) s)) [x2e]) eqn:K; auto.
  apply bytes_eqb_eq in K. rewrite K, dot_not_keyword in E. discriminate.
Qed.

Lemma consume_number_dot np s n k str b d : consume_number np s = COk n k str b d -> d = false /\ keq k [x2e] = false.
Proof.
  unfold consume_number. destruct (num_loop _ _ _ _ _) as [i isint].
  destruct (nth_error s i) as [c|]; [destruct (is_ident_part c); [destruct np|]|];
    intros H; inversion H; subst; destruct isint; auto.
Qed.

Lemma consume_token_dot last s n k str b dot :
  consume_token false last s = COk n k str b dot -> dot = keq k [x2e] && is_next_dot_ident last.
Proof.
  destruct s as [|c s1]; [intros H; inversion H; reflexivity|].
  destruct c; cbn -[consume_number literal_prefix consume_quoted_literal ident_or_keyword quoted is_next_dot_ident]; intros H;
  repeat match type of H with
  | (if ?x then _ else _) = _ => destruct x eqn:?
  | match ?x with _ => _ end = _ => destruct x eqn:?
  end;
  try discriminate H;
  try (apply ident_or_keyword_dot in H as [-> ->]; reflexivity);
  try (apply consume_number_dot in H as [-> ->]; reflexivity);
  try (inversion H; subst; reflexivity);
  try (inversion H; subst; repeat match goal with |- context[if ?h then _ else _] => destruct h end; reflexivity).
Qed.

Lemma consume_field_token_dot last s n k str b dot :
  consume_field_token false last s = COk n k str b dot -> dot = keq k [x2e] && is_next_dot_ident last.
Proof.
  unfold consume_field_token. destruct s as [|c s1]; [apply consume_token_dot|].
  destruct (is_ident_part c); [|apply consume_token_dot]. intros H; inversion H; reflexivity.
Qed.

(* ---- the loop ---- *)
Definition proj (t : token) : rtoken := (t_kind t, t_raw t, t_str t, t_base t).

Lemma raise_not_ok {A} buf p e c (x : A) : raise buf p e c <> LOk x.
Proof. unfold raise. destruct (position_of _ _ _); discriminate. Qed.

(* one step: NextToken against one round of the reference loop *)
Lemma step_ref l :
  match NextToken l with
  | LOk l' =>
      exists n len str,
        trivia_len (S (length (l_rest l))) (l_rest l) = Some n /\
        (if l_dot l then field_token_at (t_kind (l_tok l)) (skipn n (l_rest l)) else token_at (t_kind (l_tok l)) (skipn n (l_rest l)))
          = Some (RT (t_kind (l_tok l')) len str (t_base (l_tok l'))) /\
        t_raw (l_tok l') = firstn len (skipn n (l_rest l)) /\ t_str (l_tok l') = str /\
        l_rest l' = skipn len (skipn n (l_rest l)) /\
        l_dot l' = negb (l_dot l) && bytes_eqb (t_kind (l_tok l')) (bs ".") && ends_path (t_kind (l_tok l))
  | LErr _ =>
      match trivia_len (S (length (l_rest l))) (l_rest l) with
      | None => True
      | Some n => (if l_dot l then field_token_at (t_kind (l_tok l)) (skipn n (l_rest l)) else token_at (t_kind (l_tok l)) (skipn n (l_rest l))) = None
      end
  | LCrash => True
  end.
Proof.
  unfold NextToken, next_token.
  pose proof (trivia_ref (S (length (l_rest l))) (l_rest l) (l_pos l) []) as T.
  destruct (trivia (S (length (l_rest l))) false (l_rest l) (l_pos l) []) as [cs sp s pos|cs s pos|p e].
  - destruct T as (n & TL & -> & ->). rewrite TL.
    set (last := t_kind (l_tok l)). set (s := skipn n (l_rest l)).
    assert (R : proj_c (if l_dot l then consume_field_token false last s else consume_token false last s) =
                if l_dot l then field_token_at last s else token_at last s).
    { destruct (l_dot l); [apply field_token_ref|apply token_ref]. }
    assert (D : forall m k str b dot, (if l_dot l then consume_field_token false last s else consume_token false last s) = COk m k str b dot ->
                                      dot = keq k [x2e] && is_next_dot_ident last).
    { intros m k str b dot. destruct (l_dot l); [apply consume_field_token_dot|apply consume_token_dot]. }
    destruct (if l_dot l then consume_field_token false last s else consume_token false last s) as [m k str b dot|p e c].
    + specialize (D m k str b dot eq_refl). destruct (length s <? m); [exact I|].
      exists n, m, str. cbn [l_tok t_kind t_base t_raw t_str l_rest l_dot]. cbn [proj_c] in R. subst last s. rewrite <- R. repeat split; auto.
      rewrite D. destruct (l_dot l); cbn [negb andb]; reflexivity.
    + destruct (raise _ _ _ _) eqn:RA; [exfalso; eapply raise_not_ok; eauto| |exact I]. subst last s. rewrite <- R. reflexivity.
  - destruct T.
  - rewrite T. destruct (raise _ _ _ _) eqn:RA; [exfalso; eapply raise_not_ok; eauto|exact I|exact I].
Qed.

Lemma loop_ref : forall fuel l racc,
  match lex_loop fuel l racc with
  | LOk ts => ref_loop fuel (t_kind (l_tok l)) (l_dot l) (l_rest l) (map proj racc) = Some (map proj ts)
  | LErr _ => ref_loop fuel (t_kind (l_tok l)) (l_dot l) (l_rest l) (map proj racc) = None
  | LCrash => True
  end.
Proof.
  induction fuel as [|f IH]; intros l racc; [exact I|].
  cbn [lex_loop ref_loop]. pose proof (step_ref l) as ST.
  destruct (NextToken l) as [l'|e|]; [|destruct (trivia_len _ _) as [n|]; [rewrite ST|]; reflexivity|exact I].
  destruct ST as (n & len & str & TL & TK & RAW & STR & REST & DOT). rewrite TL, TK.
  change (keq (t_kind (l_tok l')) K_eof) with (bytes_eqb (t_kind (l_tok l')) R_eof).
  assert (PJ : (t_kind (l_tok l'), firstn len (skipn n (l_rest l)), str, t_base (l_tok l')) = proj (l_tok l')).
  { unfold proj. rewrite RAW, STR. reflexivity. }
  rewrite PJ. destruct (bytes_eqb (t_kind (l_tok l')) R_eof).
  - rewrite map_rev. reflexivity.
  - specialize (IH l' (l_tok l' :: racc)). rewrite REST, DOT in IH. exact IH.
Qed.

(* C14: for every input the model of lexer.go accepts exactly when the reference lexer does, and then both give the same kinds,
   token texts, decoded values and integer bases; the model never dies *)
Theorem lex_all_is_reference buf :
  match lex_all buf with
  | LOk ts => ref_lex buf = Some (map proj ts)
  | LErr _ => ref_lex buf = None
  | LCrash => False
  end.
Proof.
  pose proof (lex_all_total buf) as NC. pose proof (loop_ref (length buf + 2) (init_lexer buf) []) as L.
  unfold lex_all in *. destruct (lex_loop _ _ _); [exact L|exact L|congruence].
Qed.
