(* Lex/RefToken.v -- C14: one token.  consumeToken / consumeFieldToken (model, public mode) = token_at / field_token_at (reference) *)
From Verif Require Import Base.Bytes Base.Utf8 Bytes.FileModel Gen.Keywords Lex.Lexer Lex.LexFacts Lex.LexTotal Lex.Reference Lex.RefProofs Lex.RefQuoted.
Local Open Scope nat_scope.

(* ---- literal prefixes ---- *)
Definition other_byte (c : byte) : Prop :=
  beq c x42 = false /\ beq c x62 = false /\ beq c x52 = false /\ beq c x72 = false /\ beq c x22 = false /\ beq c x27 = false.

Lemma classify c : c = x42 \/ c = x62 \/ c = x52 \/ c = x72 \/ c = x22 \/ c = x27 \/ other_byte c.
Proof.
  unfold other_byte.
  destruct (beq c x42) eqn:E1; [apply beq_eq in E1; auto|].
  destruct (beq c x62) eqn:E2; [apply beq_eq in E2; auto|].
  destruct (beq c x52) eqn:E3; [apply beq_eq in E3; auto|].
  destruct (beq c x72) eqn:E4; [apply beq_eq in E4; auto 6|].
  destruct (beq c x22) eqn:E5; [apply beq_eq in E5; auto 7|].
  destruct (beq c x27) eqn:E6; [apply beq_eq in E6; auto 8|].
  do 6 right. auto 10.
Qed.

Definition lit_pred (s : bytes) (p : bytes * bool * bool) : bool :=
  let pre := fst (fst p) in has_prefix pre s && match nth_error s (length pre) with Some c => is_quote c | None => false end.

Ltac by_class c :=
  destruct (classify c) as [-> | [-> | [-> | [-> | [-> | [-> | (?&?&?&?&?&?)]]]]]].

Lemma literal_prefix_ref s :
  literal_prefix 3 s 0 false false =
  match find (lit_pred s) literal_prefixes with Some (pre, isb, raw) => Some (length pre, isb, raw) | None => None end.
Proof.
  Ltac fin := unfold lit_pred, is_quote; cbn; repeat match goal with H : beq _ _ = false |- _ => rewrite H end; cbn; reflexivity.
  destruct s as [|c0 [|c1 [|c2 s3]]].
  - reflexivity.
  - by_class c0; fin.
  - by_class c0; by_class c1; fin.
  - by_class c0; by_class c1; by_class c2; fin.
Qed.

(* ---- literal content ---- *)
Lemma quote_cases qc : is_quote qc = true -> qc = x22 \/ qc = x27.
Proof. unfold is_quote. intros H. apply orb_true_iff in H as [H | H]; apply beq_eq in H; auto. Qed.

Lemma triple_ref qc rest :
  peek_is (qc :: rest) 1 qc && peek_is (qc :: rest) 2 qc = has_prefix [qc; qc; qc] (qc :: rest).
Proof.
  unfold peek_is. cbn [has_prefix nth_error]. rewrite beq_refl. cbn [andb].
  destruct rest as [|a [|b r]]; cbn [nth_error]; rewrite ?andb_false_r, ?andb_true_r; reflexivity.
Qed.

(* what consumeString / consumeBytes / ... return, against the reference *)
Lemma quoted_literal_ref isb raw qc rest i : is_quote qc = true ->
  let s1 := qc :: rest in
  let q := if has_prefix [qc; qc; qc] s1 then [qc; qc; qc] else [qc] in
  proj_c (match consume_quoted_literal false isb raw s1 with
          | QDone content n herr => COk (i + n) (if herr then K_bad else if isb then K_bytes else K_string) content 0 false
          | QPanic p e cls => CErr (i + p) (i + e) cls
          end) =
  match quoted_at q raw (negb isb) (skipn (length q) s1) with
  | Some (v, n) => Some (RT (if isb then R_bytes else R_string) (i + length q + n) v 0)
  | None => None
  end.
Proof.
  intros IQ s1 q. unfold consume_quoted_literal, s1. cbv beta iota zeta. rewrite triple_ref. fold s1. fold q.
  assert (HQ : qdelim q).
  { unfold q, qdelim. destruct (quote_cases qc IQ) as [-> | ->]; destruct (has_prefix _ s1); auto 6. }
  pose proof (quoted_ref q raw (negb isb) false HQ (S (length s1)) (skipn (length q) s1) (length q) []) as P.
  specialize (P ltac:(rewrite skipn_length; lia)).
  destruct (quoted_at q raw (negb isb) (skipn (length q) s1)) as [[v k]|]; cbn [Post andb rev app] in P.
  - rewrite P. cbn [proj_c]. destruct isb; (f_equal; f_equal; lia).
  - destruct P as (p & e & c & ->). reflexivity.
Qed.

Lemma literal_ref s fm fr : proj_c fm = fr ->
  proj_c (match literal_prefix 3 s 0 false false with
          | Some (i, isb, israw) =>
              match consume_quoted_literal false isb israw (skipn i s) with
              | QDone content n herr => COk (i + n) (if herr then K_bad else if isb then K_bytes else K_string) content 0 false
              | QPanic p e cls => CErr (i + p) (i + e) cls
              end
          | None => fm
          end) =
  match literal_at s with Some r => r | None => fr end.
Proof.
  intros HF. rewrite literal_prefix_ref. unfold literal_at. fold (lit_pred s).
  destruct (find (lit_pred s) literal_prefixes) as [[[pre isb] raw]|] eqn:F; [|exact HF].
  apply find_some in F as [_ F]. unfold lit_pred in F. cbn [fst] in F. apply andb_true_iff in F as [F1 F2].
  destruct (nth_error s (length pre)) as [qc|] eqn:N; [|discriminate].
  assert (S1 : skipn (length pre) s = qc :: skipn (S (length pre)) s).
  { clear -N. revert s N. generalize (length pre) as n. induction n as [|n IH]; intros [|a s] N; try discriminate.
    - inversion N; reflexivity. - cbn [skipn nth_error] in *. apply IH, N. }
  rewrite S1. rewrite (quoted_literal_ref isb raw qc _ (length pre) F2).
  destruct (quoted_at _ raw (negb isb) _) as [[v n]|]; reflexivity.
Qed.

(* ---- back-quoted identifiers ---- *)
Lemma backquote_ref s1 :
  proj_c (match quoted (S (length (x60 :: s1))) false [x60] false true true s1 1 [] false with
          | QDone content n herr => COk n (if herr then K_bad else K_ident) content 0 false
          | QPanic p e cls => CErr p e cls
          end) =
  match quoted_at [x60] false true s1 with
  | Some (v, n) => match v with [] => None | _ => Some (RT R_ident (1 + n) v 0) end
  | None => None
  end.
Proof.
  assert (HQ : qdelim [x60]) by (unfold qdelim; auto).
  pose proof (quoted_ref [x60] false true true HQ (S (length (x60 :: s1))) s1 1 [] ltac:(cbn [length]; lia)) as P.
  destruct (quoted_at [x60] false true s1) as [[v k]|]; cbn [Post andb rev app] in P.
  - destruct v as [|a v]; cbn [is_nil] in P.
    + destruct P as (p & e & c & ->). reflexivity.
    + rewrite P. reflexivity.
  - destruct P as (p & e & c & ->). reflexivity.
Qed.

(* ---- words ---- *)
Lemma word_ref s : proj_c (ident_or_keyword s) = Some (word_at s).
Proof.
  unfold ident_or_keyword, word_at, is_keyword. change (many is_ident_part s) with (span is_ident_part s).
  destruct (existsb _ keywords); reflexivity.
Qed.

Lemma ends_path_eq last : is_next_dot_ident last = ends_path last.
Proof. reflexivity. Qed.

(* ---- the dispatch on the first byte ---- *)
Ltac number_case s :=
  change (proj_c (consume_number false s) = number_at s); apply consume_number_ref.

Ltac word_case s :=
  change (proj_c (ident_or_keyword s) = Some (word_at s)); apply word_ref.

Ltac literal_word_case s :=
  change (proj_c (match literal_prefix 3 s 0 false false with
          | Some (i, isb, israw) =>
              match consume_quoted_literal false isb israw (skipn i s) with
              | QDone content n herr => COk (i + n) (if herr then K_bad else if isb then K_bytes else K_string) content 0 false
              | QPanic p e cls => CErr (i + p) (i + e) cls
              end
          | None => ident_or_keyword s
          end) = match literal_at s with Some r => r | None => Some (word_at s) end);
  apply literal_ref, word_ref.

Ltac literal_quote_case s :=
  change (proj_c (match literal_prefix 3 s 0 false false with
          | Some (i, isb, israw) =>
              match consume_quoted_literal false isb israw (skipn i s) with
              | QDone content n herr => COk (i + n) (if herr then K_bad else if isb then K_bytes else K_string) content 0 false
              | QPanic p e cls => CErr (i + p) (i + e) cls
              end
          | None => CErr 0 0 E_illegal_char
          end) = match literal_at s with Some r => r | None => None end);
  apply literal_ref; reflexivity.

Ltac op_case s1 :=
  destruct s1 as [|d s2]; [reflexivity|];
  match goal with |- _ = token_at ?l ?s => change (token_at l s) with (operator_at s) end;
  unfold operator_at; cbn; try reflexivity;
  repeat match goal with |- context[beq d ?x] => destruct (beq d x) eqn:?; cbn end; reflexivity.

Ltac with_s tac := match goal with |- proj_c (consume_token false ?l ?s) = _ => tac s end.

Lemma token_ref last s : proj_c (consume_token false last s) = token_at last s.
Proof.
  destruct s as [|c s1]; [reflexivity|].
  destruct c.
  all: try (with_s number_case).
  all: try (with_s word_case).
  all: try (with_s literal_word_case).
  all: try (with_s literal_quote_case).
  all: try (change (proj_c (consume_token false last (x60 :: s1))) with
              (proj_c (match quoted (S (length (x60 :: s1))) false [x60] false true true s1 1 [] false with
                       | QDone content n herr => COk n (if herr then K_bad else K_ident) content 0 false
                       | QPanic p e cls => CErr p e cls
                       end)); apply backquote_ref).
  (* what remains: operators and punctuation; '.' and '@' depend on the byte after them *)
  all: try (match goal with |- proj_c (consume_token false _ (?c :: _)) = _ =>
              first [ constr_eq c x2e; fail 1 | constr_eq c x40; fail 1 | idtac ] end; op_case s1).
  - (* '.' *)
    change (proj_c (if negb (is_next_dot_ident last) && match s1 with d :: _ => is_digit d | [] => false end
                    then consume_number false (x2e :: s1) else COk 1 [x2e] [] 0 (is_next_dot_ident last)) =
            if match s1 with d :: _ => is_digit d | [] => false end && negb (ends_path last) then number_at (x2e :: s1)
            else Some (RT [x2e] 1 [] 0)).
    rewrite ends_path_eq. rewrite andb_comm. destruct (_ && _); [apply consume_number_ref|reflexivity].
  - (* '@' *)
    destruct s1 as [|d s2]; [reflexivity|].
    change (proj_c (if beq d x40 then COk 2 [x40; x40] [] 0 false
                    else if is_ident_start d then COk (S (span is_ident_part (d :: s2))) K_param (firstn (S (span is_ident_part (d :: s2)) - 1) (d :: s2)) 0 false
                    else COk 1 [x40] [] 0 false) =
            if is_ident_start d && negb (beq d x40 && true)
            then Some (RT R_param (1 + many is_ident_part (d :: s2)) (firstn (many is_ident_part (d :: s2)) (d :: s2)) 0)
            else match (if beq d x40 && true then Some [x40; x40] else Some [x40]) with Some op => Some (RT op (length op) [] 0) | None => None end).
    rewrite andb_true_r. destruct (beq d x40) eqn:E.
    + apply beq_eq in E. subst d. reflexivity.
    + rewrite andb_true_r. change (many is_ident_part (d :: s2)) with (span is_ident_part (d :: s2)).
      destruct (is_ident_start d); [|reflexivity]. cbn [proj_c]. rewrite Nat.sub_1_r. reflexivity.
Qed.

Lemma field_token_ref last s : proj_c (consume_field_token false last s) = field_token_at last s.
Proof.
  unfold consume_field_token, field_token_at. destruct s as [|c s1]; [apply token_ref|].
  destruct (is_ident_part c); [|apply token_ref]. change (many is_ident_part (c :: s1)) with (span is_ident_part (c :: s1)). reflexivity.
Qed.
