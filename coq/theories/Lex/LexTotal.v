(* Lex/LexTotal.v -- C03 (lexer part): under the invariant the lexer never dies with a Go runtime
   panic, in either mode; the recovery mode never raises an error; lex_all never runs out of fuel. *)
From Verif Require Import Base.Bytes Base.Utf8 Bytes.FileModel Bytes.FileProofs Gen.Keywords Lex.Lexer Lex.LexFacts Lex.LexTiling.
Local Open Scope nat_scope.

Lemma first_bad_none : forall p size s j, first_bad p size s j = None -> size <= length s.
Proof.
  induction size as [|n IH]; intros s j H; simpl in *; [lia|].
  destruct s as [|c s']; [discriminate|]. destruct (p c); [|discriminate]. apply IH in H. simpl. lia.
Qed.

(* i + |unread| never grows; panics point inside the scanned text *)
Lemma quoted_bounds : forall fuel np q raw uni isid s i racc herr,
  match quoted fuel np q raw uni isid s i racc herr with
  | QDone _ n _ => n <= i + length s
  | QPanic p e _ => p <= e /\ p <= i + length s
  end.
Proof.
  induction fuel as [|f IH]; intros np q raw uni isid s i racc herr; [simpl; lia|].
  cbn [quoted].
  repeat match goal with
  | |- match (if ?x then _ else _) with _ => _ end => destruct x eqn:?
  | |- match (match ?x with _ => _ end) with _ => _ end => destruct x eqn:?
  end;
  repeat match goal with
         | FB : first_bad _ _ _ _ = None |- _ => apply first_bad_none in FB
         | SW : starts_with _ _ = true |- _ => apply starts_with_length in SW
         end;
  try (simpl in *; lia);
  match goal with
  | |- match quoted f ?a ?b ?c ?d ?e ?s' ?i' ?r ?h with _ => _ end =>
      let X := fresh in pose proof (IH a b c d e s' i' r h) as X;
      destruct (quoted f a b c d e s' i' r h);
      rewrite ?skipn_length in *; cbn [length] in *; lia
  end.
Qed.

Lemma quoted_np_no_panic : forall fuel q raw uni isid s i racc herr p e c,
  quoted fuel true q raw uni isid s i racc herr <> QPanic p e c.
Proof.
  induction fuel as [|f IH]; intros q raw uni isid s i racc herr p e c; [simpl; discriminate|].
  cbn [quoted negb]. cbv zeta.
  repeat match goal with
  | |- (if ?x then _ else _) <> _ => destruct x eqn:?
  | |- (match ?x with _ => _ end) <> _ => destruct x eqn:?
  end; try discriminate; try apply IH.
  all: match goal with H : _ && false = true |- _ => rewrite andb_false_r in H; discriminate H end.
Qed.

Lemma num_loop_le : forall n s hex isint exp i, length s <= n -> fst (num_loop hex s isint exp i) <= i + length s.
Proof.
  induction n as [|n IH]; intros s hex isint exp i L.
  - destruct s; simpl in *; lia.
  - destruct s as [|c s']; [simpl; lia|]. cbn [num_loop]. simpl in L.
    repeat match goal with
    | |- context[if ?x then _ else _] => destruct x
    | |- context[match ?x with [] => _ | _ :: _ => _ end] => destruct x
    end; cbn [fst length] in *; try lia.
    all: match goal with |- fst (num_loop ?h ?t ?a ?b ?j) <= _ =>
      let X := fresh in assert (X : length t <= n) by (simpl in *; lia); pose proof (IH t h a b j X) end;
      cbn [length] in *; lia.
Qed.

Lemma span_le p : forall s, span p s <= length s.
Proof. induction s as [|c s IH]; simpl; [lia|]. destruct (p c); lia. Qed.

Lemma consume_number_bounds np s :
  match consume_number np s with
  | COk n _ _ _ _ => n <= length s
  | CErr p e _ => p <= e /\ p <= length s
  end.
Proof.
  unfold consume_number.
  set (hex := peek_is s 0 x30 && (peek_is s 1 x78 || peek_is s 1 x58) &&
              match nth_error s 2 with Some d0 => is_hex_digit d0 | None => false end).
  destruct (num_loop hex (skipn (if hex then 2 else 0) s) true false (if hex then 2 else 0)) as [i isint] eqn:NL.
  assert (B : i <= length s).
  { pose proof (num_loop_le _ (skipn (if hex then 2 else 0) s) hex true false (if hex then 2 else 0) (le_n _)) as G.
    rewrite NL in G. simpl in G. rewrite skipn_length in G.
    destruct hex eqn:HX; [|lia].
    assert (2 <= length s).
    { unfold hex in HX. apply andb_true_iff in HX as [_ HX].
      destruct (nth_error s 2) eqn:N; [|discriminate].
      assert (2 < length s) by (apply nth_error_Some; congruence). lia. }
    lia. }
  destruct (nth_error s i) as [x|]; [destruct (is_ident_part x); [destruct np|]|]; simpl; lia.
Qed.

Lemma literal_prefix_bound : forall n s i isb israw j b r,
  literal_prefix n s i isb israw = Some (j, b, r) -> i <= j /\ j - i < length s.
Proof.
  induction n as [|n IH]; intros s i isb israw j b r H; simpl in H; [discriminate|].
  destruct s as [|c s']; [discriminate|].
  repeat match type of H with
  | (if ?x then _ else _) = _ => destruct x
  end; try discriminate;
  try (apply IH in H; simpl; lia).
  inversion H; subst. simpl. lia.
Qed.

Lemma peek_is_length s i c : peek_is s i c = true -> i < length s.
Proof. unfold peek_is. destruct (nth_error s i) eqn:E; [|discriminate]. intros _. apply nth_error_Some. congruence. Qed.

Lemma consume_quoted_literal_bounds np isb raw t :
  match consume_quoted_literal np isb raw t with
  | QDone _ n _ => n <= length t
  | QPanic p e _ => p <= e /\ p <= length t
  end.
Proof.
  unfold consume_quoted_literal. destruct t as [|c0 t0]; [simpl; lia|]. cbv zeta.
  match goal with |- match quoted ?f ?a ?b ?c ?d ?e ?s' ?i' ?r ?h with _ => _ end =>
    pose proof (quoted_bounds f a b c d e s' i' r h) as X; destruct (quoted f a b c d e s' i' r h) end;
  rewrite skipn_length in X;
  (destruct (peek_is (c0 :: t0) 1 c0 && peek_is (c0 :: t0) 2 c0) eqn:TR;
   [ apply andb_true_iff in TR as [_ TR]; apply peek_is_length in TR | ]);
  cbn [length] in *; lia.
Qed.

Lemma consume_token_bounds np last s :
  match consume_token np last s with
  | COk n _ _ _ _ => n <= length s
  | CErr p e _ => p <= e /\ p <= length s
  end.
Proof.
  unfold consume_token. destruct s as [|c s1]; [simpl; lia|].
  pose proof (consume_number_bounds np (c :: s1)) as NB.
  pose proof (span_le is_ident_part (c :: s1)) as SB.
  pose proof (span_le is_ident_part s1) as SB1.
  repeat match goal with
  | |- match (if ?x then _ else _) with _ => _ end => destruct x eqn:?
  | |- match (match ?x with _ => _ end) with _ => _ end => destruct x eqn:?
  | |- match ident_or_keyword _ with _ => _ end => unfold ident_or_keyword
  end; cbn [length] in *; try lia; try exact NB.
  (* back-quoted identifiers *)
  all: try match goal with
       | Q : quoted ?f ?a ?b ?c ?d ?e ?s' ?i' ?r ?h = _ |- _ =>
           let X := fresh in pose proof (quoted_bounds f a b c d e s' i' r h) as X; rewrite Q in X; cbn [length] in *; lia
       end.
  all: repeat match goal with H : peek_is _ _ _ = true |- _ => apply peek_is_length in H end;
       cbn [length] in *; try lia.
  (* literals with prefixes *)
  all: match goal with
       | LP : literal_prefix _ _ _ _ _ = Some (?j, _, _), Q : consume_quoted_literal ?a ?b ?c ?t = _ |- _ =>
           apply literal_prefix_bound in LP;
           let X := fresh in pose proof (consume_quoted_literal_bounds a b c t) as X; rewrite Q in X;
           rewrite skipn_length in X; cbn [length] in *; lia
       end.
Qed.

Lemma consume_field_token_bounds np last s :
  match consume_field_token np last s with
  | COk n _ _ _ _ => n <= length s
  | CErr p e _ => p <= e /\ p <= length s
  end.
Proof.
  unfold consume_field_token. destruct s as [|c s1]; [apply consume_token_bounds|].
  destruct (is_ident_part c); [|apply consume_token_bounds]. apply span_le.
Qed.

(* ---------- recovery mode never raises ---------- *)
Lemma consume_number_np s p e c : consume_number true s <> CErr p e c.
Proof.
  unfold consume_number. destruct (num_loop _ _ _ _ _) as [i isint].
  destruct (nth_error s i) as [x|]; [destruct (is_ident_part x)|]; discriminate.
Qed.

Lemma consume_token_np last s p e c : consume_token true last s <> CErr p e c.
Proof.
  unfold consume_token. destruct s as [|c0 s1]; [discriminate|].
  repeat match goal with
  | |- (if ?x then _ else _) <> _ => destruct x eqn:?
  | |- (match ?x with _ => _ end) <> _ => destruct x eqn:?
  | |- ident_or_keyword _ <> _ => unfold ident_or_keyword
  end; try discriminate; try apply consume_number_np.
  all: exfalso;
    match goal with
    | Q : quoted _ true _ _ _ _ _ _ _ _ = QPanic _ _ _ |- _ => eapply quoted_np_no_panic; exact Q
    | Q : consume_quoted_literal true _ _ ?t = QPanic _ _ _ |- _ =>
        unfold consume_quoted_literal in Q; destruct t; [discriminate Q|eapply quoted_np_no_panic; exact Q]
    end.
Qed.

Lemma consume_field_token_np last s p e c : consume_field_token true last s <> CErr p e c.
Proof.
  unfold consume_field_token. destruct s as [|c0 s1]; [apply consume_token_np|].
  destruct (is_ident_part c0); [discriminate|apply consume_token_np].
Qed.

(* ---------- no Go runtime panic ---------- *)
Lemma raise_no_crash {A} buf p e c : p <= e -> p <= length buf -> @raise A buf p e c <> LCrash.
Proof.
  intros H1 H2. unfold raise.
  set (e' := if length buf <? e then length buf else e).
  assert (p <= e' /\ e' <= length buf) as [A1 A2].
  { unfold e'. destruct (length buf <? e) eqn:X; [apply Nat.ltb_lt in X|apply Nat.ltb_ge in X]; lia. }
  pose proof (position_total buf p e' A1 A2) as T.
  destruct (position_of buf (Z.of_nat p) (Z.of_nat e')); [discriminate|congruence].
Qed.

Lemma trivia_err : forall fuel np s pos rc p e,
  trivia fuel np s pos rc = TErr p e -> np = false /\ p <= e /\ p <= pos + length s.
Proof.
  induction fuel as [|f IH]; intros np s pos rc p e H; [simpl in H; discriminate|].
  rewrite trivia_S in H. cbv zeta in H. set (n := skip_spaces (S (length s)) s) in *.
  assert (Hn : n <= length s) by apply skip_spaces_le.
  destruct (skip_comment (skipn n s)) as [[m u]|] eqn:SC; [|discriminate].
  pose proof (skip_comment_bounds _ _ _ SC) as [M1 M2]. rewrite skipn_length in M2.
  destruct u.
  - destruct np; [discriminate|]. inversion H; subst. split; [reflexivity|]. lia.
  - apply IH in H. rewrite !skipn_length in H. destruct H as (A & B & C). split; [exact A|]. lia.
Qed.

Lemma trivia_np_no_err : forall fuel s pos rc p e, trivia fuel true s pos rc <> TErr p e.
Proof. intros fuel s pos rc p e H. apply trivia_err in H. destruct H; discriminate. Qed.

Theorem next_token_no_crash np l : lex_inv l -> next_token np l <> LCrash.
Proof.
  intros I. pose proof (inv_length _ I) as RL. destruct I as [I1 I2].
  unfold next_token.
  destruct (trivia _ _ _ _ _) as [cs sp s pos|cs s pos|p e] eqn:T.
  - apply trivia_ok in T. destruct T as (new & A & B & C).
    assert (LS : pos + length s = length (l_buf l)).
    { apply (f_equal (@length byte)) in B. rewrite !app_length in B. lia. }
    pose proof (consume_token_bounds np (t_kind (l_tok l)) s) as CB.
    pose proof (consume_field_token_bounds np (t_kind (l_tok l)) s) as FB.
    destruct (l_dot l).
    + destruct (consume_field_token _ _ _) as [n k str b d|p e c].
      * destruct (length s <? n) eqn:X; [apply Nat.ltb_lt in X; lia|discriminate].
      * apply raise_no_crash; lia.
    + destruct (consume_token _ _ _) as [n k str b d|p e c].
      * destruct (length s <? n) eqn:X; [apply Nat.ltb_lt in X; lia|discriminate].
      * apply raise_no_crash; lia.
  - discriminate.
  - (* unclosed comment in panic mode: the error range is the comment *)
    apply trivia_err in T. apply raise_no_crash; lia.
Qed.

(* the recovery mode never reports an error *)
Theorem next_token_np_no_error l e : next_token true l <> LErr e.
Proof.
  unfold next_token.
  destruct (trivia _ _ _ _ _) as [cs sp s pos|cs s pos|p e0] eqn:T.
  - destruct (l_dot l).
    + destruct (consume_field_token _ _ _) as [n k str b d|p e0 c] eqn:R.
      * destruct (length s <? n); discriminate.
      * exfalso. eapply consume_field_token_np; eauto.
    + destruct (consume_token _ _ _) as [n k str b d|p e0 c] eqn:R.
      * destruct (length s <? n); discriminate.
      * exfalso. eapply consume_token_np; eauto.
  - discriminate.
  - exfalso. eapply trivia_np_no_err; eauto.
Qed.

(* errors of the public mode carry positions inside the buffer *)
Theorem next_token_error_range l e :
  lex_inv l -> next_token false l = LErr e -> e_pos e <= e_end e /\ e_end e <= length (l_buf l).
Proof.
  intros I. pose proof (inv_length _ I) as RL. destruct I as [I1 I2].
  unfold next_token.
  assert (R : forall p e0 c, @raise lexer (l_buf l) p e0 c = LErr e -> p <= e0 -> p <= length (l_buf l) ->
                             e_pos e <= e_end e /\ e_end e <= length (l_buf l)).
  { intros p e0 c H A B. unfold raise in H. destruct (position_of _ _ _); [|discriminate].
    inversion H; subst; simpl. destruct (length (l_buf l) <? e0) eqn:X; [apply Nat.ltb_lt in X|apply Nat.ltb_ge in X]; lia. }
  intros H.
  destruct (trivia _ _ _ _ _) as [cs sp s pos|cs s pos|p e0] eqn:T.
  - apply trivia_ok in T. destruct T as (new & A & B & C).
    assert (LS : pos + length s = length (l_buf l)).
    { apply (f_equal (@length byte)) in B. rewrite !app_length in B. lia. }
    pose proof (consume_token_bounds false (t_kind (l_tok l)) s) as CB.
    pose proof (consume_field_token_bounds false (t_kind (l_tok l)) s) as FB.
    destruct (l_dot l).
    + destruct (consume_field_token _ _ _) as [n k str b d|p e0 c].
      * destruct (length s <? n); discriminate.
      * eapply R; [exact H| |]; lia.
    + destruct (consume_token _ _ _) as [n k str b d|p e0 c].
      * destruct (length s <? n); discriminate.
      * eapply R; [exact H| |]; lia.
  - discriminate.
  - apply trivia_err in T. eapply R; [exact H| |]; lia.
Qed.

(* ---------- enough fuel: the loop over a whole buffer never stops for lack of fuel ---------- *)
Lemma lex_loop_total : forall fuel l racc,
  lex_inv l -> length (l_rest l) < fuel -> lex_loop fuel l racc <> LCrash.
Proof.
  induction fuel as [|f IH]; intros l racc I L; [lia|].
  simpl. unfold NextToken. pose proof (next_token_no_crash false l I) as NC.
  destruct (next_token false l) as [l'| |] eqn:N; [|discriminate|congruence].
  destruct (keq (t_kind (l_tok l')) K_eof) eqn:E; [discriminate|].
  pose proof (next_token_step _ _ _ N) as S. pose proof (step_inv _ _ I S) as I'.
  pose proof (next_token_nonempty _ _ N E) as NE.
  apply IH; [exact I'|].
  destruct S as [_ St _ _ _ _]. apply (f_equal (@length byte)) in St.
  unfold render in St. rewrite !app_length in St.
  destruct (t_raw (l_tok l')); [congruence|]. simpl in St. lia.
Qed.

Theorem lex_all_total buf : lex_all buf <> LCrash.
Proof. unfold lex_all. apply lex_loop_total; [apply init_inv|simpl; lia]. Qed.
