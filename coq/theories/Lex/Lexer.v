(* Lex/Lexer.v -- executable model of lexer.go (both panic mode and the recovery "noPanic" mode).
   Hand transcription; tie: correspondence (harness lex-* commands).  Function names follow lexer.go.
   Keyword table: Gen/Keywords.v, regenerated from token/keywords.go on every run. *)
From Verif Require Import Base.Bytes Base.Utf8 Bytes.FileModel Gen.Keywords.
Local Open Scope nat_scope.

(* ---- tokens ---- *)
Record comment := mkComment { c_space : bytes; c_raw : bytes; c_pos : nat; c_end : nat }.

Record token := mkTok {
  t_kind : bytes;                 (* the Go TokenKind string itself: "<ident>", "SELECT", "(", ... *)
  t_comments : list comment;
  t_space : bytes;
  t_raw : bytes;
  t_str : bytes;                  (* AsString *)
  t_base : nat;
  t_pos : nat; t_end : nat }.

Definition zero_token : token := mkTok [] [] [] [] [] 0 0 0.

Definition K_bad := bs "<bad>".     Definition K_eof := bs "<eof>".
Definition K_ident := bs "<ident>". Definition K_param := bs "<param>".
Definition K_int := bs "<int>".     Definition K_float := bs "<float>".
Definition K_string := bs "<string>". Definition K_bytes := bs "<bytes>".

Definition keq (a b : bytes) : bool := bytes_eqb a b.

(* ---- errors ---- *)
Inductive eclass :=
| E_illegal_char | E_number_ident | E_empty_ident | E_escape_eof | E_hex2 | E_parse_uint
| E_u_in_bytes | E_u_digits | E_code_point | E_octal3 | E_bad_escape | E_newline | E_unclosed
| E_unclosed_comment.

Record lex_error := mkErr { e_pos : nat; e_end : nat; e_class : eclass }.

(* LErr = panic(Error), which NextToken returns as an error; LCrash = Go runtime panic *)
Inductive lres (A : Type) := LOk (a : A) | LErr (e : lex_error) | LCrash.
Arguments LOk {A} a. Arguments LErr {A} e. Arguments LCrash {A}.

Record lexer := mkLex {
  l_buf : bytes;
  l_rest : bytes;                 (* = skipn l_pos l_buf *)
  l_pos : nat;
  l_tok : token;
  l_last : bytes;                 (* lastTokenKind *)
  l_dot : bool }.                 (* dotIdent *)

Definition init_lexer (buf : bytes) : lexer := mkLex buf buf 0 zero_token [] false.

(* errorfAtPosition: building the Error calls File.Position, which may itself die *)
Definition raise {A} (buf : bytes) (p e0 : nat) (c : eclass) : lres A :=
  let e := if length buf <? e0 then length buf else e0 in     (* end is clamped to the buffer *)
  match position_of buf (Z.of_nat p) (Z.of_nat e) with
  | Some _ => LErr (mkErr p e c)
  | None => LCrash
  end.

(* ---- helpers on the unread suffix ---- *)
Definition peek_is (s : bytes) (i : nat) (c : byte) : bool :=
  match nth_error s i with Some d => beq d c | None => false end.

Fixpoint starts_with (q s : bytes) : bool :=
  match q, s with
  | [], _ => true
  | a :: q', b :: s' => beq a b && starts_with q' s'
  | _ :: _, [] => false
  end.

Fixpoint span (p : byte -> bool) (s : bytes) : nat :=
  match s with
  | c :: s' => if p c then S (span p s') else 0
  | [] => 0
  end.

Definition is_keyword (s : bytes) : bool := existsb (bytes_eqb (to_upper s)) keywords.

Definition is_next_dot_ident (k : bytes) : bool :=
  keq k K_ident || keq k K_param || keq k [x29] || keq k [x5d].

(* ---- skipSpaces ---- *)
Fixpoint skip_spaces (fuel : nat) (s : bytes) : nat :=
  match fuel with
  | O => 0
  | S f =>
      match s with
      | [] => 0
      | _ => let '(r, size) := decode_rune s in
             if is_space_rune r then size + skip_spaces f (skipn size s) else 0
      end
  end.

(* ---- skipCommentUntil: returns (bytes consumed, closed?) ---- *)
Fixpoint comment_until (endm : bytes) (s : bytes) : nat * bool :=
  match s with
  | [] => (0, false)
  | _ :: s' => if starts_with endm s then (length endm, true)
               else let '(n, c) := comment_until endm s' in (S n, c)
  end.

(* skipComment: None = no comment here; Some (n, unclosed) *)
Definition skip_comment (s : bytes) : option (nat * bool) :=
  match s with
  | c :: _ =>
      if beq c x23 || (beq c x2f && peek_is s 1 x2f) || (beq c x2d && peek_is s 1 x2d)
      then let '(n, _) := comment_until [nl] s in Some (n, false)
      else if beq c x2f && peek_is s 1 x2a
      then let '(n, closed) := comment_until [x2a; x2f] s in Some (n, negb closed)
      else None
  | [] => None
  end.

(* ---- consumeNumber ---- *)
Fixpoint num_loop (hex : bool) (s : bytes) (isint exp : bool) (i : nat) : nat * bool :=
  match s with
  | [] => (i, isint)
  | c :: s' =>
      if negb hex && is_digit c then num_loop hex s' isint exp (S i)
      else if hex && is_hex_digit c then num_loop hex s' isint exp (S i)
      else if negb exp && isint && negb hex && beq c x2e then num_loop hex s' false exp (S i)
      else if negb exp && negb hex && (beq c x45 || beq c x65) then
        match s' with
        | d :: s'' =>
            if is_digit d then num_loop hex s' false true (S i)
            else if beq d x2b || beq d x2d then
              match s'' with
              | d2 :: _ => if is_digit d2 then num_loop hex s'' false true (S (S i)) else (i, isint)
              | [] => (i, isint)
              end
            else (i, isint)
        | [] => (i, isint)
        end
      else (i, isint)
  end.

(* result of consuming one token: bytes consumed, kind, AsString, Base, new dotIdent *)
Inductive cres :=
| COk (n : nat) (kind str : bytes) (base : nat) (dot : bool)
| CErr (p e : nat) (c : eclass).      (* positions relative to the token start *)

Definition consume_number (np : bool) (s : bytes) : cres :=
  let hex := peek_is s 0 x30 && (peek_is s 1 x78 || peek_is s 1 x58) &&
             match nth_error s 2 with Some d => is_hex_digit d | None => false end in
  let i0 := if hex then 2 else 0 in
  let '(i, isint) := num_loop hex (skipn i0 s) true false i0 in
  let kind := if isint then K_int else K_float in
  let base := if isint then (if hex then 16 else 10) else 0 in
  match nth_error s i with
  | Some c =>
      if is_ident_part c then
        (if np then COk i K_bad [] base false else CErr i i E_number_ident)
      else COk i kind [] base false
  | None => COk i kind [] base false
  end.

(* ---- consumeQuotedContent ---- *)
Inductive qres :=
| QDone (content : bytes) (consumed : nat) (has_err : bool)
| QPanic (p e : nat) (c : eclass).     (* relative to l.pos at the call *)


Fixpoint hex_value (s : bytes) (acc : N) : N :=
  match s with
  | [] => acc
  | c :: s' => hex_value s' (acc * 16 + match hex_val c with Some v => v | None => 0 end)%N
  end.
Fixpoint octal_value (s : bytes) (acc : N) : N :=
  match s with
  | [] => acc
  | c :: s' => octal_value s' (acc * 8 + (bN c - 48))%N
  end.

(* index of the first of the [size] positions of s that is missing or fails p (the `for j` loop) *)
Fixpoint first_bad (p : byte -> bool) (size : nat) (s : bytes) (j : nat) : option nat :=
  match size with
  | O => None
  | S size' =>
      match s with
      | c :: s' => if p c then first_bad p size' s' (S j) else Some j
      | [] => Some j
      end
  end.

Definition simple_escape (c : byte) : option byte :=
  if beq c x61 then Some x07 else if beq c x62 then Some x08 else if beq c x66 then Some x0c
  else if beq c x6e then Some x0a else if beq c x72 then Some x0d else if beq c x74 then Some x09
  else if beq c x76 then Some x0b
  else if beq c x5c || beq c x3f || beq c x22 || beq c x27 || beq c x60 then Some c
  else None.

(* one loop of consumeQuotedContent.  s = unread bytes at index i (relative to l.pos);
   racc = content so far, reversed.  lq = len(q). *)
Fixpoint quoted (fuel : nat) (np : bool) (q : bytes) (raw uni isident : bool)
         (s : bytes) (i : nat) (racc : bytes) (herr : bool) : qres :=
  match fuel with
  | O => QDone [] i true
  | S fuel' =>
    let continue_ s' i' racc' herr' := quoted fuel' np q raw uni isident s' i' racc' herr' in
    match s with
    | [] => if np then QDone [] i true else QPanic 0 i E_unclosed
    | c :: s1 =>
      if starts_with q s then
        let empty_id := isident && match racc with [] => true | _ => false end in
        if empty_id && negb np then QPanic 0 (i + length q) E_empty_ident
        else if herr || empty_id then QDone [] (i + length q) true
        else QDone (rev racc) (i + length q) false
      else if beq c x5c then
        match s1 with
        | [] => if np then continue_ [] (S i) racc true else QPanic i (S i) E_escape_eof
        | e :: s2 =>
          let i2 := S (S i) in
          if raw then continue_ s2 i2 (e :: x5c :: racc) herr
          else match simple_escape e with
          | Some b => continue_ s2 i2 (b :: racc) herr
          | None =>
            if beq e x78 || beq e x58 then
              match first_bad is_hex_digit 2 s2 0 with
              | Some j =>
                  if np then continue_ s2 i2 racc true      (* `continue loop` *)
                  else QPanic (i2 - 2) (i2 + j + 1) E_hex2
              | None => continue_ (skipn 2 s2) (i2 + 2) (byte_of_N (hex_value (firstn 2 s2) 0) :: racc) herr
              end
            else if beq e x75 || beq e x55 then
              if negb uni then (if np then continue_ s2 i2 racc true else QPanic (i2 - 2) i2 E_u_in_bytes)
              else
                let size := if beq e x55 then 8 else 4 in
                let sl := firstn size s2 in
                match first_bad is_hex_digit size s2 0 with
                | Some j => if np then continue_ s2 i2 racc true else QPanic (i2 - 2) (i2 + j + 1) E_u_digits
                | None =>
                    let u := hex_value sl 0 in
                    if valid_rune u then continue_ (skipn size s2) (i2 + size) (rev (encode_rune u) ++ racc) herr
                    else if np then continue_ s2 i2 racc true else QPanic (i2 - 2) (i2 + size) E_code_point
                end
            else if in_range 48 51 e then
              let sl := firstn 3 (e :: s2) in
              match first_bad is_octal_digit 2 s2 0 with
              | Some j => if np then continue_ s2 i2 racc true else QPanic (i2 - 2) (i2 + j + 1) E_octal3
              | None => continue_ (skipn 2 s2) (i2 + 2) (byte_of_N (octal_value sl 0) :: racc) herr
              end
            else if np then continue_ s2 i2 racc true else QPanic (i2 - 2) i2 E_bad_escape
          end
        end
      else if beq c nl && negb (length q =? 3) then
        if np then continue_ s1 (S i) racc true else QPanic 0 i E_newline
      else continue_ s1 (S i) (c :: racc) herr
    end
  end.

(* peekDelimiter + consumeQuotedContent for string / bytes literals; s starts at the quote *)
Definition consume_quoted_literal (np : bool) (is_bytes raw : bool) (s : bytes) : qres :=
  match s with
  | c :: _ =>
      let triple := peek_is s 1 c && peek_is s 2 c in
      let q := if triple then [c; c; c] else [c] in
      quoted (S (length s)) np q raw (negb is_bytes) false (skipn (length q) s) (length q) [] false
  | [] => QDone [] 0 true
  end.

(* the literal-prefix loop of consumeToken: Some (prefix length, bytes?, raw?) when a quote is found *)
Fixpoint literal_prefix (n : nat) (s : bytes) (i : nat) (isb israw : bool) : option (nat * bool * bool) :=
  match n with
  | O => None
  | S n' =>
      match s with
      | [] => None
      | c :: s' =>
          if negb isb && (beq c x42 || beq c x62) then literal_prefix n' s' (S i) true israw
          else if negb israw && (beq c x52 || beq c x72) then literal_prefix n' s' (S i) isb true
          else if beq c x22 || beq c x27 then Some (i, isb, israw)
          else None
      end
  end.

Definition punct1 (c : byte) : bool :=
  existsb (beq c) [x28; x29; x7b; x7d; x3b; x2c; x5b; x5d; x7e; x2a; x2f; x26; x5e; x25; x3a; x3f; x5c; x24].

Definition ident_or_keyword (s : bytes) : cres :=
  let i := span is_ident_part s in
  let w := firstn i s in
  if is_keyword w then COk i (to_upper w) [] 0 false else COk i K_ident w 0 false.

(* consumeToken.  last = lastTokenKind.  s = unread bytes at the token start. *)
Definition consume_token (np : bool) (last : bytes) (s : bytes) : cres :=
  match s with
  | [] => COk 0 K_eof [] 0 false
  | c :: s1 =>
    let two k := COk 2 k [] 0 false in
    let one k := COk 1 k [] 0 false in
    let fallback :=
      if is_ident_start c then ident_or_keyword s
      else if np then COk 1 K_bad [] 0 false
      else CErr 0 0 E_illegal_char in
    if punct1 c then one [c]
    else if beq c x2e then
      let nd := is_next_dot_ident last in
      if negb nd && match s1 with d :: _ => is_digit d | [] => false end
      then consume_number np s
      else COk 1 [x2e] [] 0 nd
    else if beq c x3c then
      if peek_is s 1 x3c then two [x3c; x3c] else if peek_is s 1 x3d then two [x3c; x3d]
      else if peek_is s 1 x3e then two [x3c; x3e] else one [x3c]
    else if beq c x3e then
      if peek_is s 1 x3e then two [x3e; x3e] else if peek_is s 1 x3d then two [x3e; x3d] else one [x3e]
    else if beq c x2b then (if peek_is s 1 x3d then two [x2b; x3d] else one [x2b])
    else if beq c x2d then
      if peek_is s 1 x3d then two [x2d; x3d] else if peek_is s 1 x3e then two [x2d; x3e] else one [x2d]
    else if beq c x3d then (if peek_is s 1 x3e then two [x3d; x3e] else one [x3d])
    else if beq c x7c then
      if peek_is s 1 x3e then two [x7c; x3e] else if peek_is s 1 x7c then two [x7c; x7c] else one [x7c]
    else if beq c x21 then (if peek_is s 1 x3d then two [x21; x3d] else one [x21])
    else if beq c x40 then
      if peek_is s 1 x40 then two [x40; x40]
      else match s1 with
           | d :: _ =>
               if is_ident_start d then
                 let i := S (span is_ident_part s1) in
                 COk i K_param (firstn (i - 1) s1) 0 false
               else one [x40]
           | [] => one [x40]
           end
    else if beq c x60 then
      match quoted (S (length s)) np [x60] false true true s1 1 [] false with
      | QDone content n herr => COk n (if herr then K_bad else K_ident) content 0 false
      | QPanic p e cls => CErr p e cls
      end
    else if is_digit c then consume_number np s
    else if beq c x42 || beq c x62 || beq c x52 || beq c x72 || beq c x22 || beq c x27 then
      match literal_prefix 3 s 0 false false with
      | Some (i, isb, israw) =>
          match consume_quoted_literal np isb israw (skipn i s) with
          | QDone content n herr =>
              COk (i + n) (if herr then K_bad else if isb then K_bytes else K_string) content 0 false
          | QPanic p e cls => CErr (i + p) (i + e) cls
          end
      | None => fallback
      end
    else fallback
  end.

(* consumeFieldToken *)
Definition consume_field_token (np : bool) (last : bytes) (s : bytes) : cres :=
  match s with
  | c :: _ =>
      if is_ident_part c then let i := span is_ident_part s in COk i K_ident (firstn i s) 0 false
      else consume_token np last s
  | [] => consume_token np last s
  end.

(* ---- the trivia loop of nextToken ---- *)
Inductive tres :=
| TOk (comments : list comment) (space : bytes) (s : bytes) (pos : nat)
| TBad (comments : list comment) (s : bytes) (pos : nat)          (* unclosed comment, noPanic *)
| TErr (p e : nat).                                               (* unclosed comment, panic mode *)

Fixpoint trivia (fuel : nat) (np : bool) (s : bytes) (pos : nat) (rcomments : list comment) : tres :=
  match fuel with
  | O => TOk (rev rcomments) [] s pos
  | S f =>
      let n := skip_spaces (S (length s)) s in
      let space := firstn n s in
      let s1 := skipn n s in
      let pos1 := pos + n in
      match skip_comment s1 with
      | None => TOk (rev rcomments) space s1 pos1
      | Some (m, unclosed) =>
          let cm := mkComment space (firstn m s1) pos1 (pos1 + m) in
          if unclosed then
            (if np then TBad (rev (cm :: rcomments)) (skipn m s1) (pos1 + m) else TErr pos1 (pos1 + m))
          else trivia f np (skipn m s1) (pos1 + m) (cm :: rcomments)
      end
  end.

(* ---- nextToken ---- *)
Definition next_token (np : bool) (l : lexer) : lres lexer :=
  let last := t_kind (l_tok l) in
  match trivia (S (length (l_rest l))) np (l_rest l) (l_pos l) [] with
  | TErr p e => raise (l_buf l) p e E_unclosed_comment
  | TBad comments s pos =>
      LOk (mkLex (l_buf l) s pos (mkTok K_bad comments [] [] [] 0 pos pos) last (l_dot l))
  | TOk comments space s pos =>
      let r := if l_dot l then consume_field_token np last s else consume_token np last s in
      match r with
      | CErr p e c => raise (l_buf l) (pos + p) (pos + e) c
      | COk n kind str base dot =>
          if length s <? n then LCrash       (* l.Buffer[i:l.pos] with l.pos > len: slice out of range *)
          else
            let tok := mkTok kind comments space (firstn n s) str base pos (pos + n) in
            LOk (mkLex (l_buf l) (skipn n s) (pos + n) tok last (if l_dot l then false else dot))
      end
  end.

(* Lexer.NextToken = nextToken(false) with Error panics turned into the returned error *)
Definition NextToken (l : lexer) : lres lexer := next_token false l.

(* all tokens of a buffer up to and including <eof>, in the public (panic) mode *)
Fixpoint lex_loop (fuel : nat) (l : lexer) (racc : list token) : lres (list token) :=
  match fuel with
  | O => LCrash
  | S f =>
      match NextToken l with
      | LOk l' => if keq (t_kind (l_tok l')) K_eof then LOk (rev (l_tok l' :: racc))
                  else lex_loop f l' (l_tok l' :: racc)
      | LErr e => LErr e
      | LCrash => LCrash
      end
  end.

Definition lex_all (buf : bytes) : lres (list token) := lex_loop (length buf + 2) (init_lexer buf) [].

(* the recovery-mode token sequence (used for Bad nodes); never raises LErr *)
Fixpoint lex_loop_np (fuel : nat) (l : lexer) (racc : list token) : lres (list token) :=
  match fuel with
  | O => LCrash
  | S f =>
      match next_token true l with
      | LOk l' => if keq (t_kind (l_tok l')) K_eof then LOk (rev (l_tok l' :: racc))
                  else lex_loop_np f l' (l_tok l' :: racc)
      | LErr e => LErr e
      | LCrash => LCrash
      end
  end.
Definition lex_all_np (buf : bytes) : lres (list token) := lex_loop_np (2 * length buf + 3) (init_lexer buf) [].
