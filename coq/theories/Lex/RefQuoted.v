(* Lex/RefQuoted.v -- C14, literals: the one-pass loop consumeQuotedContent (model: Lexer.quoted, public mode) computes the
   two-pass reference definition (find the closing delimiter, then decode the body) on every input. *)
From Verif Require Import Base.Bytes Base.Utf8 Bytes.FileModel Gen.Keywords Lex.Lexer Lex.LexFacts Lex.LexTotal Lex.Reference Lex.RefProofs.
Local Open Scope nat_scope.

Definition qdelim (q : bytes) : Prop :=
  q = [x22] \/ q = [x27] \/ q = [x60] \/ q = [x22; x22; x22] \/ q = [x27; x27; x27].

Definition qhead (q : bytes) (c : byte) : bool := match q with a :: _ => beq c a | [] => false end.

(* a byte that can neither close the literal, nor start an escape, nor be a line feed *)
Definition inert (q : bytes) (c : byte) : bool := negb (qhead q c) && negb (beq c x5c) && negb (beq c x0a).

Definition map_res (f : bytes -> bytes) (d : nat) (o : option (bytes * nat)) : option (bytes * nat) :=
  match o with Some (v, k) => Some (f v, d + k) | None => None end.

Lemma has_prefix_head q c t : qhead q c = false -> q <> [] -> has_prefix q (c :: t) = false.
Proof. destruct q as [|a q']; [congruence|]. cbn [qhead has_prefix]. intros -> _. reflexivity. Qed.

Lemma qdelim_nonempty q : qdelim q -> q <> [].
Proof. intros [-> | [-> | [-> | [-> | ->]]]]; discriminate. Qed.

Lemma qdelim_head_bsl q : qdelim q -> qhead q x5c = false.
Proof. intros [-> | [-> | [-> | [-> | ->]]]]; reflexivity. Qed.

(* ---- decode_body: fuel is irrelevant once it covers the input ---- *)
Lemma escape_at_consumed uni s v n : escape_at uni s = Some (v, n) -> 1 <= n.
Proof.
  unfold escape_at. destruct s as [|e t]; [discriminate|].
  destruct (find _ simple_escapes) as [[? ?]|]; [intros H; inversion H; lia|].
  repeat match goal with |- (if ?c then _ else _) = _ -> _ => destruct c end; intros H; inversion H; lia.
Qed.

Lemma decode_body_fuel : forall f1 f2 uni s, length s <= f1 -> length s <= f2 -> decode_body f1 uni s = decode_body f2 uni s.
Proof.
  induction f1 as [|f1 IH]; intros f2 uni s L1 L2.
  - destruct s; [|cbn in L1; lia]. destruct f2; reflexivity.
  - destruct s as [|c t]; [destruct f2; reflexivity|]. destruct f2 as [|f2]; [cbn in L2; lia|].
    cbn [decode_body length] in *. destruct (beq c x5c).
    + destruct (escape_at uni t) as [[v n]|]; [|reflexivity].
      rewrite (IH f2); [reflexivity| |]; rewrite skipn_length; lia.
    + rewrite (IH f2); [reflexivity| |]; lia.
Qed.

Lemma decode_bsl f uni t : decode_body (S f) uni (x5c :: t) =
  match escape_at uni t with Some (v, n) => option_map (app v) (decode_body f uni (skipn n t)) | None => None end.
Proof. reflexivity. Qed.

Lemma decode_plain f uni c t : beq c x5c = false -> decode_body (S f) uni (c :: t) = option_map (cons c) (decode_body f uni t).
Proof. intros H. cbn [decode_body]. rewrite H. reflexivity. Qed.

Definition dec (raw uni : bool) (body : bytes) : option bytes :=
  if raw then Some body else decode_body (length body) uni body.

Lemma quoted_at_unfold q raw uni s :
  quoted_at q raw uni s =
  match find_close q (length q =? 3) s with
  | None => None
  | Some k => match dec raw uni (firstn k s) with Some v => Some (v, k + length q) | None => None end
  end.
Proof. reflexivity. Qed.

(* ---- unfolding the reference along the steps of the loop ---- *)
Section Spec.
  Variables (q : bytes) (raw uni : bool).
  Hypothesis HQ : qdelim q.
  Let ml := length q =? 3.
  Let S_ := quoted_at q raw uni.

  Lemma U_nil : S_ [] = None.
  Proof. reflexivity. Qed.

  Lemma U_close s : has_prefix q s = true -> s <> [] -> S_ s = Some ([], length q).
  Proof.
    intros H NE. unfold S_. rewrite quoted_at_unfold. destruct s as [|c t]; [congruence|]. cbn [find_close]. rewrite H.
    unfold dec. cbn [firstn length decode_body]. destruct raw; reflexivity.
  Qed.

  Lemma U_plain c t : has_prefix q (c :: t) = false -> beq c x5c = false -> beq c x0a && negb ml = false ->
    S_ (c :: t) = map_res (cons c) 1 (S_ t).
  Proof.
    intros H1 H2 H3. unfold S_. rewrite !quoted_at_unfold. cbn [find_close]. fold ml. rewrite H1, H2, H3.
    destruct (find_close q ml t) as [k|]; [|reflexivity]. cbn [option_map firstn map_res].
    unfold dec. destruct raw.
    - reflexivity.
    - cbn [length]. rewrite decode_plain by exact H2. destruct (decode_body (length (firstn k t)) uni (firstn k t)); reflexivity.
  Qed.

  Lemma U_newline c t : has_prefix q (c :: t) = false -> beq c x5c = false -> beq c x0a && negb ml = true -> S_ (c :: t) = None.
  Proof. intros H1 H2 H3. unfold S_. rewrite quoted_at_unfold. cbn [find_close]. fold ml. rewrite H1, H2, H3. reflexivity. Qed.

  Lemma bsl_not_close t : has_prefix q (x5c :: t) = false.
  Proof. apply has_prefix_head; [apply qdelim_head_bsl, HQ|apply qdelim_nonempty, HQ]. Qed.

  Lemma U_bsl_eof : S_ [x5c] = None.
  Proof. unfold S_. rewrite quoted_at_unfold. cbn [find_close]. rewrite bsl_not_close. reflexivity. Qed.

  Lemma find_close_bsl e t' : find_close q ml (x5c :: e :: t') = option_map (fun k => 2 + k) (find_close q ml t').
  Proof. cbn [find_close]. rewrite bsl_not_close. reflexivity. Qed.

  Lemma U_raw e t' : raw = true -> S_ (x5c :: e :: t') = map_res (fun v => x5c :: e :: v) 2 (S_ t').
  Proof.
    intros R. unfold S_. rewrite !quoted_at_unfold. fold ml. rewrite find_close_bsl.
    destruct (find_close q ml t') as [k|]; [|reflexivity]. cbn [option_map map_res]. unfold dec. rewrite R. reflexivity.
  Qed.

  (* a run of inert bytes is skipped by pass 1 *)
  Lemma find_close_inert : forall l t, forallb (inert q) l = true ->
    find_close q ml (l ++ t) = option_map (fun k => length l + k) (find_close q ml t).
  Proof.
    induction l as [|c l IH]; intros t F.
    - cbn [app length]. destruct (find_close q ml t); reflexivity.
    - cbn [forallb] in F. apply andb_true_iff in F as [Fc F]. unfold inert in Fc.
      apply andb_true_iff in Fc as [Fc F3]. apply andb_true_iff in Fc as [F1 F2].
      apply negb_true_iff in F1, F2, F3.
      cbn [app find_close]. rewrite (has_prefix_head q c _ F1 (qdelim_nonempty q HQ)), F2, F3. cbn [andb].
      rewrite IH by exact F. destruct (find_close q ml t); reflexivity.
  Qed.

  (* an escape sequence whose payload l is inert *)
  Lemma U_escape e l t v : raw = false -> forallb (inert q) l = true ->
    (forall X, escape_at uni (e :: l ++ X) = Some (v, S (length l))) ->
    S_ (x5c :: e :: l ++ t) = map_res (app v) (2 + length l) (S_ t).
  Proof.
    intros R F E. unfold S_. rewrite !quoted_at_unfold. fold ml. rewrite find_close_bsl, find_close_inert by exact F.
    destruct (find_close q ml t) as [k|]; [|reflexivity]. cbn [option_map map_res].
    unfold dec. rewrite R.
    replace (firstn (2 + (length l + k)) (x5c :: e :: l ++ t)) with (x5c :: e :: l ++ firstn k t).
    2:{ change (2 + (length l + k)) with (S (S (length l + k))). cbn [firstn]. f_equal. f_equal. rewrite firstn_app.
        replace (length l + k - length l) with k by lia. rewrite (@firstn_all2 _ (length l + k) l) by lia. reflexivity. }
    cbn [length]. rewrite decode_bsl.
    rewrite (E (firstn k t)). cbn [skipn]. rewrite skipn_app, skipn_all, Nat.sub_diag. cbn [app skipn].
    rewrite (decode_body_fuel (S (length (l ++ firstn k t))) (length (firstn k t)) uni (firstn k t)); [|rewrite app_length; lia|lia].
    destruct (decode_body (length (firstn k t)) uni (firstn k t)); [|reflexivity]. cbn [option_map map_res]. f_equal. f_equal. lia.
  Qed.

  (* an escape the page does not define, or whose payload is cut short: the literal is rejected *)
  Lemma U_bad_escape e t' : raw = false -> (forall k, escape_at uni (e :: firstn k t') = None) -> S_ (x5c :: e :: t') = None.
  Proof.
    intros R E. unfold S_. rewrite quoted_at_unfold. fold ml. rewrite find_close_bsl.
    destruct (find_close q ml t') as [k|]; [|reflexivity]. cbn [option_map]. unfold dec. rewrite R.
    cbn [Nat.add firstn length]. rewrite decode_bsl. rewrite (E k). reflexivity.
  Qed.
End Spec.

(* ---- the escape table of the reference, in terms of the tests the loop performs ---- *)
Lemma simple_escape_table e : find (fun p => beq e (fst p)) simple_escapes =
  match simple_escape e with Some b => Some (e, b) | None => None end.
Proof. destruct e; reflexivity. Qed.

Lemma byte_in_0123 e : byte_in (bs "0123") e = in_range 48 51 e.
Proof. destruct e; reflexivity. Qed.

Lemma hexv_value l : hexv l = hex_value l 0.
Proof.
  unfold hexv. set (a := 0%N) at 2 3. clearbody a. revert a.
  induction l as [|c l IH]; intros acc; simpl; [reflexivity|]. apply IH.
Qed.
Lemma octv_value l : octv l = octal_value l 0.
Proof.
  unfold octv. set (a := 0%N). clearbody a. revert a.
  induction l as [|c l IH]; intros acc; simpl; [reflexivity|]. apply IH.
Qed.

Lemma first_bad_split p : forall n t j, first_bad p n t j = None ->
  exists l t', t = l ++ t' /\ length l = n /\ forallb p l = true.
Proof.
  induction n as [|n IH]; intros t j H.
  - exists [], t. auto.
  - cbn [first_bad] in H. destruct t as [|c t]; [discriminate|]. destruct (p c) eqn:P; [|discriminate].
    destruct (IH t (S j) H) as (l & t' & -> & L & F). exists (c :: l), t'. cbn [forallb length app]. rewrite P, F, L. auto.
Qed.

Lemma first_bad_app p : forall l t j, forallb p l = true -> first_bad p (length l) (l ++ t) j = None.
Proof.
  induction l as [|c l IH]; intros t j F; [reflexivity|]. cbn [forallb] in F. apply andb_true_iff in F as [F1 F2].
  cbn [length app first_bad]. rewrite F1. apply IH, F2.
Qed.

Lemma all_of_first_bad p n t : all_of p n t = match first_bad p n t 0 with None => true | Some _ => false end.
Proof.
  unfold all_of. generalize 0 as j. revert t. induction n as [|n IH]; intros t j; [reflexivity|].
  destruct t as [|c t]; [reflexivity|]. cbn [first_bad firstn forallb length]. destruct (p c); [|rewrite andb_false_r; reflexivity].
  cbn [andb]. rewrite <- (IH t (S j)). reflexivity.
Qed.

Lemma first_bad_firstn p : forall n k t j, first_bad p n (firstn k t) j = None -> first_bad p n t j = None /\ firstn n (firstn k t) = firstn n t.
Proof.
  induction n as [|n IH]; intros k t j H; [split; reflexivity|].
  destruct k as [|k]; [cbn in H; discriminate|]. destruct t as [|c t]; [cbn in H; discriminate|].
  cbn [firstn first_bad] in *. destruct (p c); [|discriminate]. destruct (IH k t (S j) H) as [A B]. rewrite B. auto.
Qed.

Lemma escape_model uni e t :
  escape_at uni (e :: t) =
  match simple_escape e with
  | Some b => Some ([b], 1)
  | None =>
      if beq e x78 || beq e x58 then
        match first_bad is_hex_digit 2 t 0 with
        | None => Some ([byte_of_N (hex_value (firstn 2 t) 0)], 3)
        | Some _ => None
        end
      else if beq e x75 || beq e x55 then
        if negb uni then None
        else let size := if beq e x55 then 8 else 4 in
             match first_bad is_hex_digit size t 0 with
             | Some _ => None
             | None => let u := hex_value (firstn size t) 0 in if valid_rune u then Some (encode_rune u, S size) else None
             end
      else if in_range 48 51 e then
        match first_bad is_octal_digit 2 t 0 with
        | Some _ => None
        | None => Some ([byte_of_N (octal_value (firstn 3 (e :: t)) 0)], 3)
        end
      else None
  end.
Proof.
  unfold escape_at. rewrite simple_escape_table. destruct (simple_escape e) as [b|]; [reflexivity|].
  unfold byte_in at 1. change (bs "xX") with [x78; x58]. cbn [existsb]. rewrite orb_false_r.
  destruct (beq e x78 || beq e x58).
  { rewrite all_of_first_bad, hexv_value. destruct (first_bad is_hex_digit 2 t 0); reflexivity. }
  rewrite byte_in_0123, !all_of_first_bad, !hexv_value, octv_value.
  destruct (beq e x75) eqn:E1.
  { assert (beq e x55 = false) by (apply beq_eq in E1; subst e; reflexivity). rewrite H. cbn [orb]. cbv zeta.
    destruct uni; cbn [negb andb]; [|reflexivity]. destruct (first_bad is_hex_digit 4 t 0); cbn [andb]; [reflexivity|].
    destruct (valid_rune (hex_value (firstn 4 t) 0)); reflexivity. }
  destruct (beq e x55) eqn:E2.
  { cbn [orb]. cbv zeta. destruct uni; cbn [negb andb]; [|reflexivity]. destruct (first_bad is_hex_digit 8 t 0); cbn [andb]; [reflexivity|].
    destruct (valid_rune (hex_value (firstn 8 t) 0)); reflexivity. }
  cbn [orb]. destruct (in_range 48 51 e); [|reflexivity].
  destruct (first_bad is_octal_digit 2 t 0); reflexivity.
Qed.

Lemma digit_inert c : is_hex_digit c = true ->
  beq c x22 = false /\ beq c x27 = false /\ beq c x60 = false /\ beq c x5c = false /\ beq c x0a = false.
Proof. destruct c; try discriminate; auto. Qed.

Lemma octal_is_hex c : is_octal_digit c = true -> is_hex_digit c = true.
Proof. destruct c; try discriminate; auto. Qed.

Lemma hex_inert q l : qdelim q -> forallb is_hex_digit l = true -> forallb (inert q) l = true.
Proof.
  intros HQ F. rewrite forallb_forall in *. intros c Hc. specialize (F c Hc).
  destruct (digit_inert c F) as (A & B & C & D & E). unfold inert, qhead.
  destruct HQ as [-> | [-> | [-> | [-> | ->]]]]; rewrite ?A, ?B, ?C, D, E; reflexivity.
Qed.

Lemma octal_inert q l : qdelim q -> forallb is_octal_digit l = true -> forallb (inert q) l = true.
Proof.
  intros HQ F. apply hex_inert; [exact HQ|]. rewrite forallb_forall in *. intros c Hc. apply octal_is_hex, F, Hc.
Qed.

(* ---- the loop computes the reference ---- *)
Definition is_nil {A} (l : list A) : bool := match l with [] => true | _ => false end.

(* what the loop returns, given what the reference says about the unread text *)
Definition Post (isid : bool) (i : nat) (racc : bytes) (r : qres) (sp : option (bytes * nat)) : Prop :=
  match sp with
  | Some (v, k) =>
      if isid && is_nil (rev racc ++ v) then exists p e c, r = QPanic p e c
      else r = QDone (rev racc ++ v) (i + k) false
  | None => exists p e c, r = QPanic p e c
  end.

Lemma Post_step isid i racc r v0 d sp :
  Post isid (i + d) (rev v0 ++ racc) r sp -> Post isid i racc r (map_res (app v0) d sp).
Proof.
  destruct sp as [[v k]|]; cbn [map_res Post]; [|auto].
  rewrite rev_app_distr, rev_involutive, <- app_assoc, Nat.add_assoc. auto.
Qed.

Section Loop.
  Variables (q : bytes) (raw uni isid : bool).
  Hypothesis HQ : qdelim q.

  Theorem quoted_ref : forall fuel s i racc, length s < fuel ->
    Post isid i racc (quoted fuel false q raw uni isid s i racc false) (quoted_at q raw uni s).
  Proof.
    induction fuel as [|f IH]; intros s i racc L; [lia|].
    destruct s as [|c s1].
    { cbn [quoted]. rewrite U_nil. cbn [Post]. eauto. }
    cbn [quoted negb]. cbv zeta. rewrite <- has_prefix_starts.
    destruct (has_prefix q (c :: s1)) eqn:CL.
    { (* the closing delimiter *)
      rewrite (U_close q raw uni (c :: s1) CL ltac:(discriminate)). cbn [Post]. rewrite app_nil_r, andb_true_r.
      replace (is_nil (rev racc)) with (is_nil racc) by (destruct racc; [reflexivity|]; cbn [rev]; destruct (rev racc); reflexivity).
      destruct (isid && is_nil racc) eqn:EM.
      - replace (isid && match racc with [] => true | _ :: _ => false end) with true by exact (eq_sym EM). eauto.
      - replace (isid && match racc with [] => true | _ :: _ => false end) with false by exact (eq_sym EM). cbn [orb]. reflexivity. }
    destruct (beq c x5c) eqn:BS.
    { apply beq_eq in BS. subst c. destruct s1 as [|e s2].
      { rewrite (U_bsl_eof q raw uni HQ). cbn [Post]. eauto. }
      destruct raw eqn:RAW.
      { rewrite (U_raw q true uni HQ e s2 eq_refl). change (fun v => x5c :: e :: v) with (app [x5c; e]).
        apply Post_step. replace (i + 2) with (S (S i)) by lia. apply IH. cbn [length] in L. lia. }
      pose proof (escape_model uni e) as EM.
      destruct (simple_escape e) as [b|] eqn:SE.
      { pose proof (U_escape q false uni HQ e [] s2 [b] eq_refl eq_refl (fun X => EM X)) as U. cbn [app length] in U. rewrite U.
        apply (Post_step isid i racc _ [b] (2 + 0) (quoted_at q false uni s2)). replace (i + (2 + 0)) with (S (S i)) by lia. apply IH. cbn [length] in L. lia. }
      destruct (beq e x78 || beq e x58) eqn:EX.
      { destruct (first_bad is_hex_digit 2 s2 0) as [j|] eqn:FB.
        - rewrite (U_bad_escape q false uni HQ e s2 eq_refl); [cbn [Post]; eauto|].
          intros k. rewrite EM. destruct (first_bad is_hex_digit 2 (firstn k s2) 0) eqn:FB'; [reflexivity|].
          apply first_bad_firstn in FB' as [FB' _]. congruence.
        - destruct (first_bad_split _ _ _ _ FB) as (l & t' & -> & Ll & Fl).
          rewrite firstn_app, Ll, Nat.sub_diag, <- Ll, firstn_all. cbn [firstn]. rewrite app_nil_r.
          rewrite skipn_app, skipn_all, Nat.sub_diag. cbn [skipn app].
          rewrite (U_escape q false uni HQ e l t' [byte_of_N (hex_value l 0)] eq_refl (hex_inert q l HQ Fl)).
          2:{ intros X. rewrite EM. rewrite <- Ll at 1. rewrite first_bad_app by exact Fl.
              rewrite firstn_app, <- Ll, Nat.sub_diag, firstn_all. cbn [firstn]. rewrite app_nil_r. reflexivity. }
          apply Post_step. rewrite Ll. replace (i + (2 + 2)) with (S (S i) + 2) by lia. apply IH.
          cbn [length] in L. rewrite app_length in L. lia. }
      destruct (beq e x75 || beq e x55) eqn:EU.
      { destruct uni eqn:UNI; cbn [negb].
        2:{ rewrite (U_bad_escape q false false HQ e s2 eq_refl); [cbn [Post]; eauto|]. intros k. rewrite (escape_model false e), SE, EX, EU. reflexivity. }
        set (size := if beq e x55 then 8 else 4) in *.
        destruct (first_bad is_hex_digit size s2 0) as [j|] eqn:FB.
        - rewrite (U_bad_escape q false true HQ e s2 eq_refl); [cbn [Post]; eauto|].
          intros k. rewrite (escape_model true e), SE, EX, EU. cbn [negb]. fold size.
          destruct (first_bad is_hex_digit size (firstn k s2) 0) eqn:FB'; [reflexivity|].
          apply first_bad_firstn in FB' as [FB' _]. congruence.
        - destruct (valid_rune (hex_value (firstn size s2) 0)) eqn:VR.
          + destruct (first_bad_split _ _ _ _ FB) as (l & t' & -> & Ll & Fl).
            rewrite firstn_app, Ll, Nat.sub_diag, <- Ll, firstn_all in *. cbn [firstn] in *. rewrite app_nil_r in *.
            rewrite skipn_app, skipn_all, Nat.sub_diag. cbn [skipn app].
            rewrite (U_escape q false true HQ e l t' (encode_rune (hex_value l 0)) eq_refl (hex_inert q l HQ Fl)).
            2:{ intros X. rewrite (escape_model true e), SE, EX, EU. cbn [negb]. fold size. rewrite <- Ll at 1. rewrite first_bad_app by exact Fl.
                rewrite <- Ll. rewrite firstn_app, Nat.sub_diag, firstn_all. cbn [firstn]. rewrite app_nil_r, VR. reflexivity. }
            apply Post_step. replace (i + (2 + length l)) with (S (S i) + length l) by lia. apply IH.
            cbn [length] in L. rewrite app_length in L. lia.
          + rewrite (U_bad_escape q false true HQ e s2 eq_refl); [cbn [Post]; eauto|].
            intros k. rewrite (escape_model true e), SE, EX, EU. cbn [negb]. fold size.
            destruct (first_bad is_hex_digit size (firstn k s2) 0) eqn:FB'; [reflexivity|].
            apply first_bad_firstn in FB' as [_ FB']. cbv zeta. rewrite FB', VR. reflexivity. }
      destruct (in_range 48 51 e) eqn:OC.
      { destruct (first_bad is_octal_digit 2 s2 0) as [j|] eqn:FB.
        - rewrite (U_bad_escape q false uni HQ e s2 eq_refl); [cbn [Post]; eauto|].
          intros k. rewrite EM. destruct (first_bad is_octal_digit 2 (firstn k s2) 0) eqn:FB'; [reflexivity|].
          apply first_bad_firstn in FB' as [FB' _]. congruence.
        - destruct (first_bad_split _ _ _ _ FB) as (l & t' & -> & Ll & Fl).
          assert (F3 : firstn 3 (e :: l ++ t') = e :: l).
          { change (firstn 3 (e :: l ++ t')) with (e :: firstn 2 (l ++ t')). f_equal.
            rewrite <- Ll, firstn_app, Nat.sub_diag, firstn_all. cbn [firstn]. apply app_nil_r. }
          rewrite F3. rewrite skipn_app, <- Ll, skipn_all, Nat.sub_diag. cbn [skipn app].
          rewrite (U_escape q false uni HQ e l t' [byte_of_N (octal_value (e :: l) 0)] eq_refl (octal_inert q l HQ Fl)).
          2:{ intros X. rewrite EM. rewrite <- Ll at 1. rewrite first_bad_app by exact Fl.
              replace (firstn 3 (e :: l ++ X)) with (e :: l); [rewrite Ll; reflexivity|].
              change (firstn 3 (e :: l ++ X)) with (e :: firstn 2 (l ++ X)). f_equal.
              rewrite <- Ll, firstn_app, Nat.sub_diag, firstn_all. cbn [firstn]. symmetry. apply app_nil_r. }
          apply Post_step. rewrite Ll. replace (i + (2 + 2)) with (S (S i) + 2) by lia. apply IH.
          cbn [length] in L. rewrite app_length in L. lia. }
      rewrite (U_bad_escape q false uni HQ e s2 eq_refl); [cbn [Post]; eauto|]. intros k. rewrite EM. reflexivity. }
    change nl with x0a.
    destruct (beq c x0a && negb (length q =? 3)) eqn:NL.
    { rewrite (U_newline q raw uni c s1 CL BS NL). cbn [Post]. eauto. }
    rewrite (U_plain q raw uni c s1 CL BS NL). change (cons c) with (app [c]). apply Post_step.
    replace (i + 1) with (S i) by lia. apply IH. cbn [length] in L. lia.
  Qed.
End Loop.
