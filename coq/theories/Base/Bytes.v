(* Base/Bytes.v -- byte strings, slicing, decimal/hex formatting.
   Everything here is executable and axiom free (stdlib only). *)
From Coq Require Export List Arith ZArith Lia Bool.
From Coq Require Export Strings.Byte.
From Coq Require Strings.String.
Export ListNotations.
Export String.StringSyntax.
Delimit Scope string_scope with string.

Definition bytes := list byte.

(* "abc" as a list of bytes, evaluated by computation *)
Definition bs (s : String.string) : bytes := String.list_byte_of_string s.
Arguments bs _%string.

Definition beq (a b : byte) : bool := N.eqb (Byte.to_N a) (Byte.to_N b).

Lemma beq_eq a b : beq a b = true <-> a = b.
Proof.
  unfold beq. rewrite N.eqb_eq. split; [|congruence].
  intro H. assert (Some a = Some b) by (rewrite <- (Byte.of_to_N a), <- (Byte.of_to_N b); congruence).
  congruence.
Qed.

Lemma beq_refl a : beq a a = true.
Proof. apply beq_eq; reflexivity. Qed.

Lemma beq_neq a b : beq a b = false <-> a <> b.
Proof.
  split; intros H.
  - intro E. apply beq_eq in E. congruence.
  - destruct (beq a b) eqn:E; auto. apply beq_eq in E. contradiction.
Qed.

Lemma beq_sym_bool a b : beq a b = beq b a.
Proof. unfold beq. apply N.eqb_sym. Qed.

Lemma firstn_plus {A} (l : list A) p k : firstn (p + k) l = firstn p l ++ firstn k (skipn p l).
Proof. revert l; induction p as [|p IH]; intros l; simpl; auto. destruct l; simpl; [destruct k; reflexivity|]. f_equal. apply IH. Qed.

Fixpoint bytes_eqb (a b : bytes) : bool :=
  match a, b with
  | [], [] => true
  | x :: a', y :: b' => beq x y && bytes_eqb a' b'
  | _, _ => false
  end.

Lemma bytes_eqb_eq a b : bytes_eqb a b = true <-> a = b.
Proof.
  revert b; induction a as [|x a IH]; intros [|y b]; simpl; split; intro H; try congruence; auto.
  - apply andb_true_iff in H as [H1 H2]. apply beq_eq in H1. apply IH in H2. congruence.
  - inversion H; subst. rewrite beq_refl. simpl. apply IH. reflexivity.
Qed.

Lemma bytes_eqb_refl a : bytes_eqb a a = true.
Proof. apply bytes_eqb_eq; reflexivity. Qed.

(* code of a byte as nat / N *)
Definition bnat (b : byte) : nat := Byte.to_nat b.
Definition bN (b : byte) : N := Byte.to_N b.
Definition byte_of_nat (n : nat) : byte :=
  match Byte.of_nat n with Some b => b | None => x00 end.
Definition byte_of_N (n : N) : byte :=
  match Byte.of_N n with Some b => b | None => x00 end.

(* b[lo:hi] with Go's bounds discipline: None = "slice bounds out of range" *)
Definition slice (b : bytes) (lo hi : nat) : option bytes :=
  if (lo <=? hi) && (hi <=? length b) then Some (firstn (hi - lo) (skipn lo b)) else None.

(* character classes of package char *)
Definition in_range (lo hi : N) (c : byte) : bool := (lo <=? bN c)%N && (bN c <=? hi)%N.
Definition is_digit (c : byte) : bool := in_range 48 57 c.
Definition is_hex_digit (c : byte) : bool := in_range 48 57 c || in_range 97 102 c || in_range 65 70 c.
Definition is_octal_digit (c : byte) : bool := in_range 48 55 c.
Definition is_ident_start (c : byte) : bool := in_range 97 122 c || in_range 65 90 c || beq c x5f.
Definition is_ident_part (c : byte) : bool := in_range 48 57 c || in_range 97 122 c || in_range 65 90 c || beq c x5f.
Definition is_print_ascii (c : byte) : bool := in_range 32 126 c.   (* char.IsPrint *)

Definition to_upper_byte (c : byte) : byte :=
  if in_range 97 122 c then byte_of_N (bN c - 32) else c.
Definition to_upper (s : bytes) : bytes := map to_upper_byte s.
Definition equal_fold (s t : bytes) : bool := bytes_eqb (to_upper s) (to_upper t).

(* decimal rendering of a natural number (fmt %d) *)
Definition digit_byte (d : nat) : byte := byte_of_nat (48 + d).
Fixpoint dec_aux (fuel n : nat) (acc : bytes) : bytes :=
  match fuel with
  | O => acc
  | S f => let acc' := digit_byte (n mod 10) :: acc in
           if n <? 10 then acc' else dec_aux f (n / 10) acc'
  end.
Definition dec_of_nat (n : nat) : bytes := dec_aux (S n) n [].

Definition repeat_byte (c : byte) (n : nat) : bytes := repeat c n.
(* fmt %3d : right aligned, padded with blanks to width 3 *)
Definition dec3 (n : nat) : bytes :=
  let d := dec_of_nat n in repeat_byte x20 (3 - length d) ++ d.

(* lower-case hex digit, fmt %x *)
Definition hex_digit (d : nat) : byte := if d <? 10 then byte_of_nat (48 + d) else byte_of_nat (87 + d).
Definition hex_val (c : byte) : option N :=
  if in_range 48 57 c then Some (bN c - 48)%N
  else if in_range 97 102 c then Some (bN c - 87)%N
  else if in_range 65 70 c then Some (bN c - 55)%N
  else None.

Definition count_byte (c : byte) (b : bytes) : nat := length (filter (beq c) b).
