(* Base/Utf8.v -- Go's utf8.DecodeRuneInString / EncodeRune and unicode.IsSpace, as executable models.
   Modelled (not verified against the Go standard library); swept against Go by the harness. *)
From Verif Require Import Base.Bytes.
Local Open Scope N_scope.

Definition rune := N.
Definition rune_error : rune := 65533.   (* U+FFFD *)

Definition cont (c : byte) : bool := in_range 128 191 c.   (* 0x80..0xBF *)

(* (rune, size).  Empty input: (RuneError, 0).  Invalid or short: (RuneError, 1). *)
Definition decode_rune (s : bytes) : rune * nat :=
  match s with
  | [] => (rune_error, 0%nat)
  | b0 :: s1 =>
      let n0 := bN b0 in
      if n0 <? 128 then (n0, 1%nat)
      else if (194 <=? n0) && (n0 <=? 223) then           (* C2..DF : 2 bytes *)
        match s1 with
        | b1 :: _ => if cont b1 then ((n0 - 192) * 64 + (bN b1 - 128), 2%nat) else (rune_error, 1%nat)
        | _ => (rune_error, 1%nat)
        end
      else if (224 <=? n0) && (n0 <=? 239) then           (* E0..EF : 3 bytes *)
        match s1 with
        | b1 :: b2 :: _ =>
            let lo := if n0 =? 224 then 160 else 128 in   (* E0: A0..BF *)
            let hi := if n0 =? 237 then 159 else 191 in   (* ED: 80..9F *)
            if in_range lo hi b1 && cont b2
            then ((n0 - 224) * 4096 + (bN b1 - 128) * 64 + (bN b2 - 128), 3%nat)
            else (rune_error, 1%nat)
        | _ => (rune_error, 1%nat)
        end
      else if (240 <=? n0) && (n0 <=? 244) then           (* F0..F4 : 4 bytes *)
        match s1 with
        | b1 :: b2 :: b3 :: _ =>
            let lo := if n0 =? 240 then 144 else 128 in   (* F0: 90..BF *)
            let hi := if n0 =? 244 then 143 else 191 in   (* F4: 80..8F *)
            if in_range lo hi b1 && cont b2 && cont b3
            then ((n0 - 240) * 262144 + (bN b1 - 128) * 4096 + (bN b2 - 128) * 64 + (bN b3 - 128), 4%nat)
            else (rune_error, 1%nat)
        | _ => (rune_error, 1%nat)
        end
      else (rune_error, 1%nat)
  end.

Definition is_surrogate (r : rune) : bool := (55296 <=? r) && (r <=? 57343).
Definition valid_rune (r : rune) : bool := (r <=? 1114111) && negb (is_surrogate r).

(* utf8.EncodeRune / bytes.Buffer.WriteRune: invalid runes are written as U+FFFD *)
Definition encode_rune (r0 : rune) : bytes :=
  let r := if valid_rune r0 then r0 else rune_error in
  if r <? 128 then [byte_of_N r]
  else if r <? 2048 then [byte_of_N (192 + r / 64); byte_of_N (128 + r mod 64)]
  else if r <? 65536 then [byte_of_N (224 + r / 4096); byte_of_N (128 + (r / 64) mod 64); byte_of_N (128 + r mod 64)]
  else [byte_of_N (240 + r / 262144); byte_of_N (128 + (r / 4096) mod 64);
        byte_of_N (128 + (r / 64) mod 64); byte_of_N (128 + r mod 64)].

(* unicode.IsSpace *)
Definition is_space_rune (r : rune) : bool :=
  if r <=? 255 then
    ((9 <=? r) && (r <=? 13)) || (r =? 32) || (r =? 133) || (r =? 160)
  else
    (r =? 5760) || ((8192 <=? r) && (r <=? 8202)) || (r =? 8232) || (r =? 8233) ||
    (r =? 8239) || (r =? 8287) || (r =? 12288).
