(* Skel/ErrorContract.v -- the error-list discipline behind C09, as a trace model.
   Events on the parser's error list and on Bad-placeholder creation; the per-run obligations on Gen/SkeletonData.v say that
   the code can only produce traces of the shape described here (errors are only appended, one element at a time; every
   function that builds an ast.BadNode appends an error first; every entry point ends with the same epilogue). *)
From Coq Require Import List Arith Lia Bool.
Import ListNotations.

Inductive event := AppendErr | MkBad.

Definition errs (t : list event) : nat := length (filter (fun e => match e with AppendErr => true | _ => false end) t).
Definition bads (t : list event) : nat := length (filter (fun e => match e with MkBad => true | _ => false end) t).

(* what the discipline allows: plain error appends (expect failures at the entry, lexical errors recorded by
   nextTokenOrBad) and recovery handlers, each of which appends exactly one error and then builds at most one Bad node *)
Inductive disciplined : list event -> Prop :=
| DNil : disciplined []
| DAppend t : disciplined t -> disciplined (t ++ [AppendErr])
| DHandler t : disciplined t -> disciplined (t ++ [AppendErr; MkBad]).

Lemma errs_app a b : errs (a ++ b) = errs a + errs b.
Proof. unfold errs. rewrite filter_app, app_length. reflexivity. Qed.
Lemma bads_app a b : bads (a ++ b) = bads a + bads b.
Proof. unfold bads. rewrite filter_app, app_length. reflexivity. Qed.

(* at every point of every disciplined execution there are at least as many errors as Bad placeholders:
   a MultiError has at least one element per BadNode of the tree (Bad nodes discarded by an outer recovery only help) *)
Theorem errors_cover_bad_nodes t : disciplined t -> bads t <= errs t.
Proof. induction 1; rewrite ?errs_app, ?bads_app; cbn; lia. Qed.

Theorem bad_node_implies_error t : disciplined t -> 0 < bads t -> 0 < errs t.
Proof. intros D B. pose proof (errors_cover_bad_nodes t D). lia. Qed.

(* errors are never removed: every prefix has no more errors than the whole *)
Theorem errors_only_grow a b : errs a <= errs (a ++ b).
Proof. rewrite errs_app. lia. Qed.

(* the epilogue shared by all Parse* methods:
     if Token.Kind != EOF { errors = append(errors, ...) }; if len(errors) > 0 { return x, MultiError(errors) }; return x, nil *)
Definition epilogue (n_errors : nat) (at_eof : bool) : option nat :=      (* None = nil error; Some k = MultiError of k elements *)
  let n := if at_eof then n_errors else S n_errors in
  if Nat.ltb 0 n then Some n else None.

Theorem nil_error_iff_clean n at_eof : epilogue n at_eof = None <-> (n = 0 /\ at_eof = true).
Proof.
  unfold epilogue. destruct at_eof; cbn.
  - destruct n; cbn; split; intros H; try discriminate; auto. destruct H; discriminate.
  - split; intros H; [discriminate|destruct H; discriminate].
Qed.

Theorem non_nil_error_is_non_empty n at_eof k : epilogue n at_eof = Some k -> 0 < k /\ n <= k.
Proof.
  unfold epilogue. destruct at_eof; cbn.
  - destruct n; cbn; intros H; inversion H; lia.
  - intros H; inversion H; lia.
Qed.

(* a nil error implies that no Bad node was ever created in a disciplined run *)
Theorem nil_error_implies_no_bad_node t at_eof : disciplined t -> epilogue (errs t) at_eof = None -> bads t = 0 /\ at_eof = true.
Proof.
  intros D E. apply nil_error_iff_clean in E as [E1 E2]. pose proof (errors_cover_bad_nodes t D). split; [lia|exact E2].
Qed.
