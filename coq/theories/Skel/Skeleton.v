(* Skel/Skeleton.v -- panic-escape analysis over the control skeleton of parser.go / lexer.go / split.go (C03, C09).
   The skeleton (Gen/SkeletonData.v, regenerated every run) lists per function its raise sites and call sites, each
   flagged as protected (a recovering defer of the same function is active there) or not.  [escapes prog f] is the
   exact reachability relation "a *Error panic started somewhere can leave f"; the checker verifies a proposed set of
   escaping functions as a post-fixpoint, and the soundness theorem holds for every skeleton and every such set. *)
From Coq Require Import String List Bool.
Import ListNotations.
Local Open Scope string_scope.

Inductive site :=
| SRaiseErr            (* panic(p.errorf...(..)) / panic(err): a *Error panic starts here *)
| SRaiseBug            (* panic of any other value ("BUG: ...", re-panic in handleError): reported separately *)
| SCall (g : string)   (* call (or function value handed to a callee) *)
| SUnknown.            (* call whose target the translator could not see *)

Definition skeleton_t := list (string * list (bool * site)).

Fixpoint sassoc {A} (k : string) (l : list (string * A)) : option A :=
  match l with [] => None | (k', v) :: r => if String.eqb k k' then Some v else sassoc k r end.
Fixpoint smem (k : string) (l : list string) : bool :=
  match l with [] => false | x :: r => String.eqb k x || smem k r end.

(* a *Error panic can leave f *)
Inductive escapes (prog : skeleton_t) : string -> Prop :=
| EscRaise f sites : sassoc f prog = Some sites -> In (false, SRaiseErr) sites -> escapes prog f
| EscUnknown f sites : sassoc f prog = Some sites -> In (false, SUnknown) sites -> escapes prog f
| EscCall f sites g : sassoc f prog = Some sites -> In (false, SCall g) sites -> escapes prog g -> escapes prog f.

(* [A] (a list of function names) is closed under the rules *)
Definition closed_site (A : list string) (f : string) (s : bool * site) : bool :=
  match s with
  | (true, _) => true
  | (false, SRaiseErr) | (false, SUnknown) => smem f A
  | (false, SCall g) => negb (smem g A) || smem f A
  | (false, SRaiseBug) => true
  end.
Definition is_postfix (prog : skeleton_t) (A : list string) : bool :=
  forallb (fun '(f, sites) => forallb (closed_site A f) sites) prog.

Lemma sassoc_in {A} k (l : list (string * A)) v : sassoc k l = Some v -> In (k, v) l.
Proof.
  induction l as [|[k' v'] l IH]; cbn; try discriminate.
  destruct (String.eqb k k') eqn:E; [apply String.eqb_eq in E; intros H; inversion H; subst; auto|auto].
Qed.

Theorem escape_sound prog A : is_postfix prog A = true -> forall f, escapes prog f -> smem f A = true.
Proof.
  intros P f E. unfold is_postfix in P. rewrite forallb_forall in P.
  induction E as [f sites Hs Hin|f sites Hs Hin|f sites g Hs Hin Hg IH];
    specialize (P _ (sassoc_in _ _ _ Hs)); cbn in P; rewrite forallb_forall in P; specialize (P _ Hin); cbn in P; auto.
  rewrite IH in P. cbn in P. exact P.
Qed.

(* hence: a function outside a verified post-fixpoint lets no *Error panic out *)
Corollary no_escape prog A f : is_postfix prog A = true -> smem f A = false -> ~ escapes prog f.
Proof. intros P N E. rewrite (escape_sound prog A P f E) in N. discriminate. Qed.

(* the least post-fixpoint, by iteration (used to PROPOSE the set; only is_postfix is trusted) *)
Definition step_set (prog : skeleton_t) (A : list string) : list string :=
  fold_right (fun '(f, sites) acc =>
                if smem f acc then acc
                else if forallb (closed_site acc f) sites then acc else f :: acc) A prog.
Fixpoint iterate (n : nat) (prog : skeleton_t) (A : list string) : list string :=
  match n with
  | O => A
  | S m => let A' := step_set prog A in if Nat.eqb (length A') (length A) then A else iterate m prog A'
  end.
Definition escaping (prog : skeleton_t) : list string := iterate (length prog) prog [].

(* the same for "bug" panics (non-*Error values), reported as residual assumptions *)
Definition closed_site_bug (A : list string) (f : string) (s : bool * site) : bool :=
  match s with
  | (_, SRaiseBug) => smem f A
  | (_, SCall g) => negb (smem g A) || smem f A
  | _ => true
  end.
