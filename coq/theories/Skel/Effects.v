(* Skel/Effects.v -- an abstract machine for "parsing is a pure function of its arguments" (C18):
   a shared global store (the package-level variables, fixed once init() has run), any number of calls running as
   threads, each a deterministic program that may read the shared store and keeps everything else private.
   Theorem: if no call writes the shared store (the per-run obligation on Gen/Globals.v), then under EVERY interleaving
   each call does exactly what it does when run alone, the shared store never changes, and no two steps of different
   calls conflict.  What this machine cannot exhibit (Go memory model, aliasing through returned values) is left to the
   race-detector / mutate-after-return runs of the harness (support, not proof). *)
From Coq Require Import List Arith Lia Bool.
Import ListNotations.

Section Machine.
  Variables loc val result : Type.
  Definition store := loc -> val.

  (* a call: reads and writes of shared locations, ending in a result; private state lives in the continuations *)
  Inductive prog :=
  | Ret (r : result)
  | Rd (l : loc) (k : val -> prog)
  | Wr (l : loc) (v : val) (k : prog).

  Variable loc_eqb : loc -> loc -> bool.
  Definition upd (s : store) (l : loc) (v : val) : store := fun l' => if loc_eqb l' l then v else s l'.

  (* one step of one call *)
  Definition step (s : store) (p : prog) : store * prog :=
    match p with
    | Ret r => (s, Ret r)
    | Rd l k => (s, k (s l))
    | Wr l v k => (upd s l v, k)
    end.

  (* a call never writes the shared store, whatever it reads *)
  Inductive no_write : prog -> Prop :=
  | NwRet r : no_write (Ret r)
  | NwRd l k : (forall v, no_write (k v)) -> no_write (Rd l k).

  (* the machine: threads indexed by position; a schedule names which thread steps next *)
  Fixpoint step_nth (s : store) (ts : list prog) (i : nat) : store * list prog :=
    match ts, i with
    | [], _ => (s, [])
    | p :: r, O => let '(s', p') := step s p in (s', p' :: r)
    | p :: r, S j => let '(s', r') := step_nth s r j in (s', p :: r')
    end.

  Fixpoint run (s : store) (ts : list prog) (sched : list nat) : store * list prog :=
    match sched with
    | [] => (s, ts)
    | i :: rest => let '(s', ts') := step_nth s ts i in run s' ts' rest
    end.

  (* running one call alone for n steps *)
  Fixpoint solo (s : store) (p : prog) (n : nat) : prog :=
    match n with O => p | S m => solo s (snd (step s p)) m end.

  Lemma no_write_step s p : no_write p -> fst (step s p) = s /\ no_write (snd (step s p)).
  Proof. intros H; destruct H; cbn; split; auto; constructor. Qed.

  Lemma solo_no_write s p n : no_write p -> no_write (solo s p n).
  Proof. revert p; induction n as [|n IH]; intros p H; cbn; auto. apply IH. apply (no_write_step s p H). Qed.

  Definition count (i : nat) (sched : list nat) : nat := length (filter (Nat.eqb i) sched).

  Lemma step_nth_no_write s ts i : Forall no_write ts ->
    fst (step_nth s ts i) = s /\ Forall no_write (snd (step_nth s ts i)) /\
    length (snd (step_nth s ts i)) = length ts /\
    forall j d, nth j (snd (step_nth s ts i)) d = if Nat.eqb j i then (if j <? length ts then snd (step s (nth j ts d)) else d) else nth j ts d.
  Proof.
    revert i; induction ts as [|p r IH]; intros i H.
    - cbn. repeat split; auto. intros j d. destruct j; destruct (Nat.eqb _ i); reflexivity.
    - inversion H as [|? ? Hp Hr]; subst. destruct i as [|i]; cbn [step_nth].
      + destruct (no_write_step s p Hp) as [E N]. destruct (step s p) as [s' p'] eqn:St. cbn in *. subst s'.
        repeat split; auto. intros j d. destruct j; cbn; [rewrite St; reflexivity|reflexivity].
      + destruct (IH i Hr) as (E & N & L & Nth). destruct (step_nth s r i) as [s' r'] eqn:St. cbn in *. subst s'.
        repeat split; auto. intros j d. destruct j as [|j]; cbn; [reflexivity|].
        rewrite Nth. destruct (Nat.eqb j i); [|reflexivity].
        replace (S j <? S (length r)) with (j <? length r) by (destruct (Nat.ltb_spec j (length r)), (Nat.ltb_spec (S j) (S (length r))); auto; lia).
        reflexivity.
  Qed.

  (* NON-INTERFERENCE: under every schedule, the shared store is unchanged and thread j is exactly where it would be after
     running alone, from the initial store, for as many steps as the schedule gave it *)
  Theorem noninterference s ts sched : Forall no_write ts ->
    fst (run s ts sched) = s /\
    forall j d, j < length ts -> nth j (snd (run s ts sched)) d = solo s (nth j ts d) (count j sched).
  Proof.
    revert ts; induction sched as [|i rest IH]; intros ts H.
    - cbn. split; auto.
    - cbn [run]. destruct (step_nth_no_write s ts i H) as (E & N & L & Nth).
      destruct (step_nth s ts i) as [s' ts'] eqn:St. cbn [fst snd] in *. subst s'.
      destruct (IH ts' N) as [E' R]. split; [exact E'|].
      intros j d Hj. rewrite R by lia. rewrite Nth. unfold count. cbn [filter].
      rewrite (Nat.eqb_sym j i). destruct (Nat.eqb i j) eqn:Eij.
      + cbn [length solo]. destruct (Nat.ltb_spec j (length ts)); [reflexivity|lia].
      + reflexivity.
  Qed.

  (* in particular: a call that has finished under some interleaving returned what it returns when run alone *)
  Corollary result_is_solo_result s ts sched j d r : Forall no_write ts -> j < length ts ->
    nth j (snd (run s ts sched)) d = Ret r -> solo s (nth j ts d) (count j sched) = Ret r.
  Proof. intros H Hj E. rewrite <- (proj2 (noninterference s ts sched H) j d Hj). exact E. Qed.

  (* data-race freedom: a conflict needs a write; write-free calls never execute one *)
  Definition is_write (p : prog) : bool := match p with Wr _ _ _ => true | _ => false end.
  Lemma no_write_not_write p : no_write p -> is_write p = false.
  Proof. intros H; destruct H; reflexivity. Qed.

  Theorem no_write_ever_executed s ts sched : Forall no_write ts ->
    Forall (fun p => is_write p = false) (snd (run s ts sched)).
  Proof.
    revert ts; induction sched as [|i rest IH]; intros ts H; cbn [run].
    - cbn. eapply Forall_impl; [|exact H]. intros p Hp. apply no_write_not_write; exact Hp.
    - destruct (step_nth_no_write s ts i H) as (E & N & _). destruct (step_nth s ts i) as [s' ts']. cbn [fst snd] in *. subst s'. apply IH; exact N.
  Qed.
End Machine.
