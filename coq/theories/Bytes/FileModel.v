(* Bytes/FileModel.v -- model of token/file.go (File.init, ResolvePos, Position)
   and of Position.String / Error.Error prefix formatting (error.go).
   Tie: hand model + correspondence (harness `file` commands). *)
From Verif Require Import Base.Bytes.
Local Open Scope nat_scope.

Definition nl : byte := x0a.

(* strings.Split(buf, "\n"): always at least one piece *)
Fixpoint split_nl (b : bytes) : list bytes :=
  match b with
  | [] => [[]]
  | c :: t =>
      if beq c nl then [] :: split_nl t
      else match split_nl t with
           | l :: ls => (c :: l) :: ls
           | [] => [[c]]
           end
  end.

(* lines := []Pos{0}; for i, line := range parts { lines = append(lines, lines[i]+len(line)+1) } *)
Fixpoint build_lines (start : nat) (parts : list bytes) : list nat :=
  match parts with
  | [] => []
  | p :: ps => let nx := start + length p + 1 in nx :: build_lines nx ps
  end.

Definition file_lines (b : bytes) : list nat := 0 :: build_lines 0 (split_nl b).

(* for line = len(lines)-1; line >= 0; line-- { if lines[line] <= pos { column = pos - lines[line]; return } }
   = the LAST index whose entry is <= pos (computed front to back). *)
Fixpoint find_line (lines : list nat) (idx pos : nat) (best : option (nat * nat)) : option (nat * nat) :=
  match lines with
  | [] => best
  | lp :: ls => find_line ls (S idx) pos (if lp <=? pos then Some (idx, pos - lp) else best)
  end.

(* ResolvePos: (-1,-1) for an invalid position or when no line start is <= pos *)
Definition resolve_pos (b : bytes) (pos : Z) : Z * Z :=
  if (pos <? 0)%Z then ((-1)%Z, (-1)%Z)
  else match find_line (file_lines b) 0 (Z.to_nat pos) None with
       | Some (l, c) => (Z.of_nat l, Z.of_nat c)
       | None => ((-1)%Z, (-1)%Z)
       end.

Record position := {
  p_pos : Z; p_end : Z;
  p_line : Z; p_col : Z; p_eline : Z; p_ecol : Z;
  p_source : bytes }.

(* f.Buffer[f.lines[l] : f.lines[l+1]-1]; None = index / slice out of range (Go runtime panic) *)
Definition line_buffer (b : bytes) (lines : list nat) (l : nat) : option bytes :=
  match nth_error lines l, nth_error lines (S l) with
  | Some lo, Some hi1 =>
      match hi1 with
      | O => None            (* hi = -1: slice bounds out of range *)
      | S hi => slice b lo hi
      end
  | _, _ => None
  end.

Definition bar2 : bytes := [x7c; x20; x20].   (* "|  " *)

(* fmt.Fprintf("%3d|  %s", l+1, lineBuffer) *)
Definition fmt_line (l : nat) (lb : bytes) : bytes := dec3 (S l) ++ bar2 ++ lb.

Fixpoint multi_lines (b : bytes) (lines : list nat) (l n : nat) : option bytes :=
  match n with
  | O => Some []
  | S n' =>
      match line_buffer b lines l with
      | None => None
      | Some lb =>
          match multi_lines b lines (S l) n' with
          | None => None
          | Some restv => Some ((if 0 <? l then [nl] else []) ++ fmt_line l lb ++ restv)
          end
      end
  end.

(* File.Position.  None = the call panics with a Go runtime error. *)
Definition position_of (b : bytes) (pos end_ : Z) : option position :=
  let '(line, col) := resolve_pos b pos in
  let '(eline, ecol) := resolve_pos b end_ in
  let lines := file_lines b in
  let mk src := Some {| p_pos := pos; p_end := end_; p_line := line; p_col := col;
                        p_eline := eline; p_ecol := ecol; p_source := src |} in
  if ((pos <? 0) || (end_ <? 0))%Z then mk []
  else if (line =? eline)%Z then
    (* line >= 0 here whenever the table is non-empty; a negative line indexes out of range *)
    if (line <? 0)%Z then None else
    match line_buffer b lines (Z.to_nat line) with
    | None => None
    | Some lb =>
        let count := Z.to_nat (ecol - col - 1) in
        mk (fmt_line (Z.to_nat line) lb ++ [nl] ++
            [x20; x20; x20] ++ bar2 ++ repeat_byte x20 (Z.to_nat col) ++ [x5e] ++ repeat_byte x7e count)
    end
  else if (line <? eline)%Z then
    if (line <? 0)%Z then None else
    match multi_lines b lines (Z.to_nat line) (Z.to_nat (eline - line + 1)) with
    | None => None
    | Some s => mk s
    end
  else mk [].

(* Position.String(): "%s:%d:%d" FilePath, Line+1, Column+1.  Only defined for Line, Column >= 0
   (which is all that errors of in-range positions produce). *)
Definition dec_of_Z (z : Z) : bytes :=
  if (z <? 0)%Z then x2d :: dec_of_nat (Z.to_nat (- z)) else dec_of_nat (Z.to_nat z).
Definition position_string (path : bytes) (p : position) : bytes :=
  path ++ [x3a] ++ dec_of_Z (p_line p + 1) ++ [x3a] ++ dec_of_Z (p_col p + 1).

(* Error.Error(): "syntax error: %s: %s" *)
Definition error_string (path : bytes) (p : position) (msg : bytes) : bytes :=
  bs "syntax error: " ++ position_string path p ++ [x3a; x20] ++ msg.
