(* Bytes/QuoteProofs.v -- C15: the quoting functions are right inverses of the lexer model, for every byte string and every
   unicode.IsPrint predicate. *)
From Verif Require Import Base.Bytes Base.Utf8 Bytes.FileModel Gen.Keywords Lex.Lexer Lex.LexFacts Bytes.Quote.
From Coq Require Import ZifyN ZifyNat ZifyBool NArith Nnat.
Local Open Scope nat_scope.
Ltac Zify.zify_post_hook ::= Z.div_mod_to_equations.

(* ---- bytes and numbers ---- *)
Lemma bN_lt b : (bN b < 256)%N.
Proof. unfold bN. pose proof (Byte.to_N_bounded b). lia. Qed.

Lemma byte_of_bN b : byte_of_N (bN b) = b.
Proof. unfold byte_of_N, bN. rewrite Byte.of_to_N. reflexivity. Qed.

Lemma bN_of_N n : (n < 256)%N -> bN (byte_of_N n) = n.
Proof.
  intros H. unfold byte_of_N, bN. destruct (Byte.of_N n) eqn:E.
  - apply Byte.to_of_N in E. exact E.
  - apply Byte.of_N_None_iff in E. lia.
Qed.

Lemma bN_inj a b : bN a = bN b -> a = b.
Proof. intros H. rewrite <- (byte_of_bN a), <- (byte_of_bN b), H. reflexivity. Qed.

Lemma beq_bN a b : beq a b = (bN a =? bN b)%N.
Proof. reflexivity. Qed.

(* ---- hexadecimal ---- *)
Lemma hex_digit_ok m : (m < 16)%N -> is_hex_digit (hex_digit_N m) = true /\ hex_val (hex_digit_N m) = Some m.
Proof.
  intros H.
  assert (E : (m = 0 \/ m = 1 \/ m = 2 \/ m = 3 \/ m = 4 \/ m = 5 \/ m = 6 \/ m = 7 \/ m = 8 \/ m = 9 \/ m = 10 \/ m = 11 \/
              m = 12 \/ m = 13 \/ m = 14 \/ m = 15)%N) by lia.
  repeat destruct E as [E|E]; subst m; vm_compute; auto.
Qed.

Lemma hex_fixed_length d : forall n, length (hex_fixed d n) = d.
Proof. induction d as [|d IH]; intros n; cbn [hex_fixed]; [reflexivity|]. rewrite app_length, IH. simpl. lia. Qed.

Lemma hex_fixed_digits d : forall n, forallb is_hex_digit (hex_fixed d n) = true.
Proof.
  induction d as [|d IH]; intros n; cbn [hex_fixed]; [reflexivity|].
  rewrite forallb_app, IH. cbn [forallb]. rewrite (proj1 (hex_digit_ok (n mod 16) ltac:(lia))). reflexivity.
Qed.

Lemma hex_value_app s : forall t acc, hex_value (s ++ t) acc = hex_value t (hex_value s acc).
Proof. induction s as [|c s IH]; intros t acc; simpl; [reflexivity|]. apply IH. Qed.

Lemma hex_value_fixed d : forall n acc, hex_value (hex_fixed d n) acc = (acc * 16 ^ N.of_nat d + n mod 16 ^ N.of_nat d)%N.
Proof.
  induction d as [|d IH]; intros n acc.
  - cbn [hex_fixed hex_value]. change (16 ^ N.of_nat 0)%N with 1%N. rewrite N.mod_1_r. lia.
  - cbn [hex_fixed]. rewrite hex_value_app, IH. cbn [hex_value].
    rewrite (proj2 (hex_digit_ok (n mod 16) ltac:(lia))).
    rewrite Nat2N.inj_succ, N.pow_succ_r'.
    rewrite (N.mod_mul_r n 16 (16 ^ N.of_nat d)) by (try apply N.pow_nonzero; lia).
    lia.
Qed.

Lemma first_bad_all p : forall l rest j, forallb p l = true -> first_bad p (length l) (l ++ rest) j = None.
Proof.
  induction l as [|c l IH]; intros rest j H; [reflexivity|].
  cbn [forallb] in H. apply andb_true_iff in H as [H1 H2]. cbn [length app first_bad]. rewrite H1. apply IH, H2.
Qed.

Lemma firstn_app_len {A} (a b : list A) n : n = length a -> firstn n (a ++ b) = a.
Proof. intros ->. rewrite firstn_app, Nat.sub_diag, firstn_all. simpl. apply app_nil_r. Qed.
Lemma skipn_app_len {A} (a b : list A) n : n = length a -> skipn n (a ++ b) = b.
Proof. intros ->. rewrite skipn_app, Nat.sub_diag, skipn_all. reflexivity. Qed.

(* the two hex digits of a byte *)
Lemma hex2_ok b : exists h1 h2, hex_fixed 2 (bN b) = [h1; h2] /\ is_hex_digit h1 = true /\ is_hex_digit h2 = true /\
                                byte_of_N (hex_value [h1; h2] 0) = b.
Proof.
  pose proof (bN_lt b) as L.
  exists (hex_digit_N ((bN b / 16) mod 16)), (hex_digit_N (bN b mod 16)).
  split; [reflexivity|].
  split; [apply hex_digit_ok; lia|]. split; [apply hex_digit_ok; lia|].
  cbn [hex_value]. rewrite (proj2 (hex_digit_ok ((bN b / 16) mod 16) ltac:(lia))), (proj2 (hex_digit_ok (bN b mod 16) ltac:(lia))).
  replace (((0 * 16 + (bN b / 16) mod 16) * 16 + bN b mod 16))%N with (bN b) by lia. apply byte_of_bN.
Qed.

(* ---- UTF-8: whatever DecodeRune accepts is a valid rune and EncodeRune gives back exactly the bytes read ---- *)
Ltac byte_eq b := apply bN_inj; rewrite bN_of_N.

Lemma decode_valid s r size :
  decode_rune s = (r, size) -> s <> [] -> (r =? rune_error)%N && (size =? 1) = false ->
  valid_rune r = true /\ encode_rune r = firstn size s.
Proof.
  destruct s as [|b0 s1]; [congruence|]. intros D _ NE.
  pose proof (bN_lt b0) as L0.
  unfold decode_rune in D.
  destruct (bN b0 <? 128)%N eqn:C1.
  { inversion D; subst r size. unfold encode_rune, valid_rune, is_surrogate.
    replace ((bN b0 <=? 1114111)%N && negb ((55296 <=? bN b0)%N && (bN b0 <=? 57343)%N)) with true by lia. cbv beta iota zeta.
    rewrite C1. cbn [firstn]. rewrite byte_of_bN. auto. }
  destruct ((194 <=? bN b0)%N && (bN b0 <=? 223)%N) eqn:C2.
  { destruct s1 as [|b1 s2]; [inversion D; subst; cbn in NE; discriminate|].
    pose proof (bN_lt b1) as L1. unfold cont, in_range in D.
    destruct ((128 <=? bN b1)%N && (bN b1 <=? 191)%N) eqn:C3; [|inversion D; subst; cbn in NE; discriminate].
    inversion D; subst r size. clear D NE.
    set (r := ((bN b0 - 192) * 64 + (bN b1 - 128))%N).
    assert (R : (128 <= r < 2048)%N) by (unfold r; lia).
    unfold encode_rune, valid_rune, is_surrogate.
    replace ((r <=? 1114111)%N && negb ((55296 <=? r)%N && (r <=? 57343)%N)) with true by lia. cbv beta iota zeta.
    replace (r <? 128)%N with false by lia. replace (r <? 2048)%N with true by lia.
    split; [reflexivity|]. cbn [firstn]. f_equal; [byte_eq b0; unfold r in *; lia|]. f_equal. byte_eq b1; unfold r in *; lia. }
  destruct ((224 <=? bN b0)%N && (bN b0 <=? 239)%N) eqn:C3.
  { destruct s1 as [|b1 [|b2 s3]]; try (inversion D; subst; cbn in NE; discriminate).
    pose proof (bN_lt b1) as L1. pose proof (bN_lt b2) as L2. unfold cont, in_range in D.
    match type of D with (if ?c then _ else _) = _ => destruct c eqn:C4 end; [|inversion D; subst; cbn in NE; discriminate].
    inversion D; subst r size. clear D NE.
    set (r := ((bN b0 - 224) * 4096 + (bN b1 - 128) * 64 + (bN b2 - 128))%N).
    assert (R : (2048 <= r < 65536 /\ ~ (55296 <= r <= 57343))%N).
    { unfold r. destruct (bN b0 =? 224)%N eqn:?, (bN b0 =? 237)%N eqn:?; lia. }
    assert (B : (128 <= bN b1 <= 191 /\ 128 <= bN b2 <= 191)%N).
    { destruct (bN b0 =? 224)%N eqn:?, (bN b0 =? 237)%N eqn:?; lia. }
    unfold encode_rune, valid_rune, is_surrogate.
    replace ((r <=? 1114111)%N && negb ((55296 <=? r)%N && (r <=? 57343)%N)) with true by lia. cbv beta iota zeta.
    replace (r <? 128)%N with false by lia. replace (r <? 2048)%N with false by lia. replace (r <? 65536)%N with true by lia.
    split; [reflexivity|]. cbn [firstn]. f_equal; [byte_eq b0; unfold r in *; lia|]. f_equal; [byte_eq b1; unfold r in *; lia|].
    f_equal. byte_eq b2; unfold r in *; lia. }
  destruct ((240 <=? bN b0)%N && (bN b0 <=? 244)%N) eqn:C4.
  { destruct s1 as [|b1 [|b2 [|b3 s4]]]; try (inversion D; subst; cbn in NE; discriminate).
    pose proof (bN_lt b1) as L1. pose proof (bN_lt b2) as L2. pose proof (bN_lt b3) as L3. unfold cont, in_range in D.
    match type of D with (if ?c then _ else _) = _ => destruct c eqn:C5 end; [|inversion D; subst; cbn in NE; discriminate].
    inversion D; subst r size. clear D NE.
    set (r := ((bN b0 - 240) * 262144 + (bN b1 - 128) * 4096 + (bN b2 - 128) * 64 + (bN b3 - 128))%N).
    assert (B : (128 <= bN b1 <= 191 /\ 128 <= bN b2 <= 191 /\ 128 <= bN b3 <= 191)%N).
    { destruct (bN b0 =? 240)%N eqn:?, (bN b0 =? 244)%N eqn:?; lia. }
    assert (R : (65536 <= r <= 1114111)%N).
    { unfold r. destruct (bN b0 =? 240)%N eqn:?, (bN b0 =? 244)%N eqn:?; lia. }
    unfold encode_rune, valid_rune, is_surrogate.
    replace ((r <=? 1114111)%N && negb ((55296 <=? r)%N && (r <=? 57343)%N)) with true by lia. cbv beta iota zeta.
    replace (r <? 128)%N with false by lia. replace (r <? 2048)%N with false by lia. replace (r <? 65536)%N with false by lia.
    split; [reflexivity|]. cbn [firstn]. f_equal; [byte_eq b0; unfold r in *; lia|]. f_equal; [byte_eq b1; unfold r in *; lia|].
    f_equal; [byte_eq b2; unfold r in *; lia|]. f_equal. byte_eq b3; unfold r in *; lia. }
  inversion D; subst; cbn in NE; discriminate.
Qed.

(* the bytes EncodeRune writes for a non-ASCII rune are all >= 0x80; an ASCII rune is written as itself *)
Lemma encode_ascii r : (r < 128)%N -> encode_rune r = [byte_of_N r].
Proof.
  intros H. unfold encode_rune, valid_rune, is_surrogate.
  replace ((r <=? 1114111)%N && negb ((55296 <=? r)%N && (r <=? 57343)%N)) with true by lia. cbv beta iota zeta.
  replace (r <? 128)%N with true by lia. reflexivity.
Qed.

Lemma encode_high r : (128 <= r)%N -> Forall (fun c => (128 <= bN c)%N) (encode_rune r).
Proof.
  intros H. unfold encode_rune. cbv zeta.
  match goal with |- context[(?x <? 128)%N] => set (r' := x) end.
  assert (R : (128 <= r' <= 1114111)%N).
  { unfold r', valid_rune, rune_error. destruct ((r <=? 1114111)%N && negb (is_surrogate r)) eqn:E; lia. }
  clearbody r'. clear H.
  destruct (r' <? 128)%N eqn:?; [lia|].
  destruct (r' <? 2048)%N eqn:?; [|destruct (r' <? 65536)%N eqn:?].
  all: repeat (apply Forall_cons; [rewrite bN_of_N; lia|]); apply Forall_nil.
Qed.

(* ---- one iteration of consumeQuotedContent on each kind of chunk the quoting functions emit ---- *)
Definition qchar (qc : byte) : Prop := qc = dq \/ qc = sq \/ qc = bq.
Notation Q fuel qc uni isid s i racc := (quoted fuel false [qc] false uni isid s i racc false).

Definition plain (qc c : byte) : Prop := c <> qc /\ c <> bsl /\ c <> nl.

Lemma Q_copy qc uni isid : forall cs rest fuel i racc,
  Forall (plain qc) cs -> length (cs ++ rest) < fuel ->
  Q fuel qc uni isid (cs ++ rest) i racc = Q (fuel - length cs) qc uni isid rest (i + length cs) (rev cs ++ racc).
Proof.
  induction cs as [|c cs IH]; intros rest fuel i racc F L.
  - cbn [app length rev]. rewrite Nat.sub_0_r, Nat.add_0_r. reflexivity.
  - inversion F as [|? ? [P1 [P2 P3]] F']; subst. destruct fuel as [|f]; [cbn in L; lia|].
    cbn [app quoted starts_with].
    replace (beq qc c) with false by (symmetry; apply beq_neq; congruence).
    replace (beq c x5c) with false by (symmetry; apply beq_neq; exact P2).
    replace (beq c nl) with false by (symmetry; apply beq_neq; exact P3).
    cbn [andb]. rewrite IH by (auto; cbn [app length] in L; lia).
    cbn [length rev]. rewrite <- app_assoc. cbn [app]. f_equal; lia.
Qed.

Lemma qchar_not_bsl qc : qchar qc -> beq qc bsl = false.
Proof. intros [-> | [-> | ->]]; reflexivity. Qed.

(* backslash + a one-letter escape *)
Lemma Q_simple qc uni isid e b rest f i racc :
  qchar qc -> simple_escape e = Some b ->
  Q (S f) qc uni isid (bsl :: e :: rest) i racc = Q f qc uni isid rest (S (S i)) (b :: racc).
Proof.
  intros HQ SE. cbn [quoted starts_with]. rewrite (qchar_not_bsl qc HQ). cbn [andb].
  change (beq bsl x5c) with true. cbv beta iota zeta. rewrite SE. reflexivity.
Qed.

(* \xHH *)
Lemma Q_hex2 qc uni isid h1 h2 rest f i racc :
  qchar qc -> is_hex_digit h1 = true -> is_hex_digit h2 = true ->
  Q (S f) qc uni isid (bsl :: x78 :: h1 :: h2 :: rest) i racc =
  Q f qc uni isid rest (i + 4) (byte_of_N (hex_value [h1; h2] 0) :: racc).
Proof.
  intros HQ H1 H2. cbn [quoted starts_with]. rewrite (qchar_not_bsl qc HQ). cbn [andb].
  change (beq bsl x5c) with true. cbv beta iota zeta.
  change (simple_escape x78) with (@None byte). change (beq x78 x78) with true. cbn [orb first_bad].
  rewrite H1, H2. cbn [skipn firstn]. replace (S (S i) + 2) with (i + 4) by lia. reflexivity.
Qed.

Lemma forallb4 {A} (p : A -> bool) l : length l = 4 -> forallb p l = true ->
  exists a b c d, l = [a; b; c; d] /\ p a = true /\ p b = true /\ p c = true /\ p d = true.
Proof.
  destruct l as [|a [|b [|c [|d [|]]]]]; try discriminate. intros _ H. cbn [forallb] in H.
  repeat (apply andb_true_iff in H as [? H]). eauto 10.
Qed.

Lemma forallb8 {A} (p : A -> bool) l : length l = 8 -> forallb p l = true ->
  exists a b c d e f g h, l = [a; b; c; d; e; f; g; h] /\ p a = true /\ p b = true /\ p c = true /\ p d = true /\
                          p e = true /\ p f = true /\ p g = true /\ p h = true.
Proof.
  destruct l as [|a [|b [|c [|d [|e [|f [|g [|h [|]]]]]]]]]; try discriminate. intros _ H. cbn [forallb] in H.
  repeat (apply andb_true_iff in H as [? H]). eauto 20.
Qed.

(* \uHHHH *)
Lemma Q_u4 qc isid l rest f i racc :
  qchar qc -> length l = 4 -> forallb is_hex_digit l = true -> valid_rune (hex_value l 0) = true ->
  Q (S f) qc true isid (bsl :: x75 :: l ++ rest) i racc =
  Q f qc true isid rest (i + 6) (rev (encode_rune (hex_value l 0)) ++ racc).
Proof.
  intros HQ L4 FA V. destruct (forallb4 _ _ L4 FA) as (a & b & c & d & -> & Ha & Hb & Hc & Hd).
  cbn [quoted starts_with app]. rewrite (qchar_not_bsl qc HQ). cbn [andb].
  change (beq bsl x5c) with true. cbv beta iota zeta.
  change (simple_escape x75) with (@None byte). change (beq x75 x78) with false. change (beq x75 x58) with false.
  change (beq x75 x75) with true. change (beq x75 x55) with false. cbn [orb negb first_bad].
  rewrite Ha, Hb, Hc, Hd. cbn [firstn skipn]. rewrite V. replace (S (S i) + 4) with (i + 6) by lia. reflexivity.
Qed.

(* \UHHHHHHHH *)
Lemma Q_u8 qc isid l rest f i racc :
  qchar qc -> length l = 8 -> forallb is_hex_digit l = true -> valid_rune (hex_value l 0) = true ->
  Q (S f) qc true isid (bsl :: x55 :: l ++ rest) i racc =
  Q f qc true isid rest (i + 10) (rev (encode_rune (hex_value l 0)) ++ racc).
Proof.
  intros HQ L8 FA V. destruct (forallb8 _ _ L8 FA) as (a & b & c & d & e' & f' & g & h & -> & Ha & Hb & Hc & Hd & He & Hf & Hg & Hh).
  cbn [quoted starts_with app]. rewrite (qchar_not_bsl qc HQ). cbn [andb].
  change (beq bsl x5c) with true. cbv beta iota zeta.
  change (simple_escape x55) with (@None byte). change (beq x55 x78) with false. change (beq x55 x58) with false.
  change (beq x55 x75) with false. change (beq x55 x55) with true. cbn [orb negb first_bad].
  rewrite Ha, Hb, Hc, Hd, He, Hf, Hg, Hh. cbn [firstn skipn]. rewrite V. replace (S (S i) + 8) with (i + 10) by lia. reflexivity.
Qed.

(* the closing quote *)
Lemma Q_close qc uni isid rest f i racc :
  (isid = true -> racc <> []) ->
  Q (S f) qc uni isid (qc :: rest) i racc = QDone (rev racc) (i + 1) false.
Proof.
  intros NE. cbn [quoted starts_with]. rewrite beq_refl. cbn [andb length].
  destruct isid; cbn [andb orb negb].
  - destruct racc; [exfalso; apply NE; auto|]. reflexivity.
  - reflexivity.
Qed.

Lemma qchar_low qc : qchar qc -> (bN qc < 128)%N.
Proof. intros [-> | [-> | ->]]; vm_compute; reflexivity. Qed.

Lemma qchar_simple qc : qchar qc -> simple_escape qc = Some qc.
Proof. intros [-> | [-> | ->]]; reflexivity. Qed.

Section WithIsPrint.
  Variable is_print : N -> bool.

  (* one rune of quoteSQLStringContent is read back as exactly the bytes EncodeRune writes for it *)
  Lemma Q_rune qc isid r rest fuel i racc :
    qchar qc -> valid_rune r = true -> length (quote_rune is_print qc r ++ rest) < fuel ->
    exists fuel', length rest < fuel' /\
      Q fuel qc true isid (quote_rune is_print qc r ++ rest) i racc =
      Q fuel' qc true isid rest (i + length (quote_rune is_print qc r)) (rev (encode_rune r) ++ racc).
  Proof.
    intros HQ V L. pose proof (qchar_low qc HQ) as QL.
    assert (V' : (r <= 1114111)%N) by (unfold valid_rune in V; lia).
    unfold quote_rune in *. unfold single_escape in *. cbn [andb] in *.
    destruct (r =? bN qc)%N eqn:E1.
    { assert (r = bN qc) by lia. subst r. destruct fuel as [|f]; [lia|]. exists f. split; [cbn [app length] in L; lia|].
      cbn [app length]. rewrite (Q_simple qc true isid qc qc) by auto using qchar_simple.
      rewrite encode_ascii by exact QL. rewrite byte_of_bN. cbn [rev app]. f_equal; lia. }
    destruct (r =? 10)%N eqn:E2.
    { assert (r = 10%N) by lia. subst r. destruct fuel as [|f]; [lia|]. exists f. split; [cbn [app length] in L; lia|].
      cbn [app length]. rewrite (Q_simple qc true isid x6e x0a) by auto. f_equal; lia. }
    destruct (r =? 13)%N eqn:E3.
    { assert (r = 13%N) by lia. subst r. destruct fuel as [|f]; [lia|]. exists f. split; [cbn [app length] in L; lia|].
      cbn [app length]. rewrite (Q_simple qc true isid x72 x0d) by auto. f_equal; lia. }
    destruct (r =? 9)%N eqn:E4.
    { assert (r = 9%N) by lia. subst r. destruct fuel as [|f]; [lia|]. exists f. split; [cbn [app length] in L; lia|].
      cbn [app length]. rewrite (Q_simple qc true isid x74 x09) by auto. f_equal; lia. }
    destruct (r =? 92)%N eqn:E5.
    { assert (r = 92%N) by lia. subst r. destruct fuel as [|f]; [lia|]. exists f. split; [cbn [app length] in L; lia|].
      cbn [app length]. rewrite (Q_simple qc true isid x5c x5c) by auto. f_equal; lia. }
    destruct (is_print r) eqn:PR.
    { (* written raw *)
      assert (F : Forall (plain qc) (encode_rune r)).
      { destruct (r <? 128)%N eqn:A.
        - rewrite encode_ascii by lia. constructor; [|constructor].
          unfold plain. repeat split; intro X; apply (f_equal bN) in X; rewrite bN_of_N in X by lia;
            [ | change (bN bsl) with 92%N in X | change (bN nl) with 10%N in X ]; lia.
        - eapply Forall_impl; [|apply encode_high; lia]. intros c Hc. unfold plain.
          repeat split; intro X; subst c; [ | change (bN bsl) with 92%N in Hc | change (bN nl) with 10%N in Hc ]; lia. }
      exists (fuel - length (encode_rune r)). rewrite app_length in L. split; [lia|].
      apply Q_copy; [exact F|rewrite app_length; lia]. }
    destruct (r <? 128)%N eqn:A.
    { destruct (hex2_ok (byte_of_N r)) as (h1 & h2 & HX & D1 & D2 & HV). rewrite bN_of_N in HX by lia.
      rewrite HX in *. destruct fuel as [|f]; [lia|]. exists f. split; [cbn [app length] in L; lia|].
      cbn [app length]. rewrite Q_hex2 by auto. rewrite HV, encode_ascii by lia. cbn [rev app]. reflexivity. }
    destruct (65535 <? r)%N eqn:B.
    { destruct fuel as [|f]; [lia|]. exists f. cbn [app length] in *. rewrite app_length, hex_fixed_length in L. split; [lia|].
      assert (HV : hex_value (hex_fixed 8 r) 0 = r).
      { rewrite hex_value_fixed. change (16 ^ N.of_nat 8)%N with 4294967296%N. rewrite N.mod_small; lia. }
      rewrite Q_u8; rewrite ?HV; auto using hex_fixed_length, hex_fixed_digits. }
    { destruct fuel as [|f]; [lia|]. exists f. cbn [app length] in *. rewrite app_length, hex_fixed_length in L. split; [lia|].
      assert (HV : hex_value (hex_fixed 4 r) 0 = r).
      { rewrite hex_value_fixed. change (16 ^ N.of_nat 4)%N with 65536%N. rewrite N.mod_small; lia. }
      rewrite Q_u4; rewrite ?HV; auto using hex_fixed_length, hex_fixed_digits. }
  Qed.

  (* the whole content followed by the closing quote *)
  Lemma Q_content qc isid : qchar qc -> forall n s, length s <= n -> forall fuel i racc tl,
    length (quote_content is_print n qc s ++ qc :: tl) < fuel -> (isid = true -> s <> [] \/ racc <> []) ->
    Q fuel qc true isid (quote_content is_print n qc s ++ qc :: tl) i racc =
    QDone (rev racc ++ s) (i + length (quote_content is_print n qc s) + 1) false.
  Proof.
    intros HQ. induction n as [|n IH]; intros s Ls fuel i racc tl L NE.
    - destruct s; [|cbn in Ls; lia]. cbn [quote_content app length] in *. destruct fuel as [|f]; [lia|].
      rewrite Q_close by (intros X; destruct (NE X); congruence). rewrite app_nil_r. f_equal; lia.
    - destruct s as [|b0 s'].
      { cbn [quote_content app length] in *. destruct fuel as [|f]; [lia|].
        rewrite Q_close by (intros X; destruct (NE X); congruence). rewrite app_nil_r. f_equal; lia. }
      cbn [quote_content] in *. set (s := b0 :: s') in *.
      destruct (decode_rune s) as [r size] eqn:D.
      destruct (decode_rune_size s r size D) as [Sz1 Sz2]. specialize (Sz2 ltac:(discriminate)).
      assert (NEs : firstn size s <> []) by (unfold s; destruct size; [lia|discriminate]).
      destruct ((r =? rune_error)%N && (size =? 1)) eqn:INV.
      + (* a byte that is not UTF-8: \xHH of the byte itself *)
        assert (size = 1) by lia. subst size.
        destruct (hex2_ok b0) as (h1 & h2 & HX & D1 & D2 & HV). rewrite HX in *.
        cbn [app length] in *. destruct fuel as [|f]; [lia|].
        rewrite Q_hex2 by auto. rewrite HV.
        rewrite IH; [ | unfold s in *; cbn [skipn length] in *; lia | lia | intros _; right; discriminate].
        unfold s. cbn [skipn rev app]. rewrite <- app_assoc. cbn [app]. f_equal. lia.
      + destruct (decode_valid s r size D ltac:(discriminate) INV) as [V EQ].
        rewrite <- app_assoc in *.
        destruct (Q_rune qc isid r (quote_content is_print n qc (skipn size s) ++ qc :: tl) fuel i racc HQ V L) as (fuel' & L' & ->).
        rewrite IH; [ | rewrite skipn_length; unfold s in *; cbn [length] in *; lia | exact L'
                      | intros _; right; rewrite EQ; intro X; apply app_eq_nil in X as [X _]; apply (f_equal (@rev byte)) in X;
                        rewrite rev_involutive in X; auto ].
        rewrite EQ, rev_app_distr, rev_involutive, <- app_assoc, firstn_skipn. f_equal. rewrite app_length. lia.
  Qed.
End WithIsPrint.

(* ---- bytes literals ---- *)
Lemma quote_byte_cases qc b : qchar qc ->
  (b = qc /\ quote_byte qc b = [bsl; qc]) \/ (b = bsl /\ quote_byte qc b = [bsl; bsl]) \/
  (plain qc b /\ quote_byte qc b = [b]) \/
  (exists h1 h2, quote_byte qc b = [bsl; x78; h1; h2] /\ is_hex_digit h1 = true /\ is_hex_digit h2 = true /\
                 byte_of_N (hex_value [h1; h2] 0) = b).
Proof.
  intros HQ. pose proof (qchar_low qc HQ) as QL. pose proof (bN_lt b) as Lb.
  unfold quote_byte, single_escape. cbn [andb].
  destruct (bN b =? bN qc)%N eqn:E1.
  { left. split; [apply bN_inj; lia|reflexivity]. }
  destruct (bN b =? 92)%N eqn:E2.
  { right; left. split; [apply bN_inj; change (bN bsl) with 92%N; lia|reflexivity]. }
  destruct (is_print_ascii b) eqn:PR.
  { right; right; left. split; [|reflexivity]. unfold plain, is_print_ascii, in_range in *.
    repeat split; intro X; subst b; [ | change (bN bsl) with 92%N in * | change (bN nl) with 10%N in * ]; lia. }
  right; right; right. destruct (hex2_ok b) as (h1 & h2 & HX & D1 & D2 & HV). exists h1, h2. rewrite HX. auto.
Qed.

Lemma Qb_content qc : qchar qc -> forall bs fuel i racc tl,
  length (concat (map (quote_byte qc) bs) ++ qc :: tl) < fuel ->
  Q fuel qc false false (concat (map (quote_byte qc) bs) ++ qc :: tl) i racc =
  QDone (rev racc ++ bs) (i + length (concat (map (quote_byte qc) bs)) + 1) false.
Proof.
  intros HQ.
  induction bs as [|b bs IH]; intros fuel i racc tl L.
  - cbn [map concat app length] in *. destruct fuel as [|f]; [lia|]. rewrite Q_close by discriminate. rewrite app_nil_r. f_equal; lia.
  - cbn [map concat] in *. rewrite <- app_assoc in *. rewrite app_length in L.
    destruct (quote_byte_cases qc b HQ) as [[-> EQ] | [[-> EQ] | [[PL EQ] | (h1 & h2 & EQ & D1 & D2 & HV)]]]; rewrite EQ in *; clear EQ;
      cbn [app length] in *.
    + destruct fuel as [|f]; [lia|]. rewrite (Q_simple qc false false qc qc) by auto using qchar_simple.
      rewrite IH by lia. cbn [rev]. rewrite <- app_assoc. cbn [app]. f_equal. lia.
    + destruct fuel as [|f]; [lia|]. rewrite (Q_simple qc false false bsl bsl) by auto.
      rewrite IH by lia. cbn [rev]. rewrite <- app_assoc. cbn [app]. f_equal. lia.
    + change (b :: concat (map (quote_byte qc) bs) ++ qc :: tl) with ([b] ++ concat (map (quote_byte qc) bs) ++ qc :: tl).
      rewrite (Q_copy qc false false [b]) by (auto; rewrite app_length; cbn [length]; lia).
      cbn [length]. rewrite IH by lia. cbn [rev app]. rewrite <- app_assoc. cbn [app]. f_equal. lia.
    + destruct fuel as [|f]; [lia|]. rewrite Q_hex2 by auto. rewrite HV.
      rewrite IH by lia. cbn [rev]. rewrite <- app_assoc. cbn [app]. f_equal. lia.
Qed.

(* ---- the first byte of a quoted content is never the quote itself ---- *)
Lemma encode_nonempty r : encode_rune r <> [].
Proof. unfold encode_rune. cbv zeta. repeat match goal with |- context[if ?c then _ else _] => destruct c end; discriminate. Qed.

Section Heads.
  Variable is_print : N -> bool.

  Lemma quote_rune_head qc r : qchar qc -> exists c t, quote_rune is_print qc r = c :: t /\ c <> qc.
  Proof.
    intros HQ. pose proof (qchar_low qc HQ) as QL. pose proof (qchar_not_bsl qc HQ) as NB.
    assert (NB' : bsl <> qc) by (intro X; subst qc; discriminate).
    unfold quote_rune, single_escape. cbn [andb].
    destruct (r =? bN qc)%N eqn:E1; [eauto|].
    destruct (r =? 10)%N; [eauto|]. destruct (r =? 13)%N; [eauto|]. destruct (r =? 9)%N; [eauto|]. destruct (r =? 92)%N; [eauto|].
    destruct (is_print r).
    - destruct (encode_rune r) as [|c t] eqn:EN; [destruct (encode_nonempty r EN)|]. exists c, t. split; [reflexivity|].
      destruct (r <? 128)%N eqn:A.
      + rewrite encode_ascii in EN by lia. inversion EN; subst. intro X. apply (f_equal bN) in X. rewrite bN_of_N in X by lia. lia.
      + pose proof (encode_high r ltac:(lia)) as F. rewrite EN in F. inversion F; subst. intro X; subst c. lia.
    - destruct (r <? 128)%N; [|destruct (65535 <? r)%N]; cbn [app]; eauto.
  Qed.

  Lemma content_head qc n s : qchar qc -> match quote_content is_print n qc s with c :: _ => c <> qc | [] => True end.
  Proof.
    intros HQ. destruct n as [|n]; [exact I|]. destruct s as [|b0 s']; [exact I|]. cbn [quote_content].
    destruct (decode_rune (b0 :: s')) as [r size]. destruct ((r =? rune_error)%N && (size =? 1)).
    - cbn [app]. intro X; subst qc; pose proof (qchar_not_bsl _ HQ); discriminate.
    - destruct (quote_rune_head qc r HQ) as (c & t & -> & NE). exact NE.
  Qed.
End Heads.

Lemma quote_byte_head qc b : qchar qc -> exists c t, quote_byte qc b = c :: t /\ c <> qc.
Proof.
  intros HQ. assert (NB' : bsl <> qc) by (intro X; subst qc; pose proof (qchar_not_bsl _ HQ); discriminate).
  unfold quote_byte, single_escape. cbn [andb].
  destruct (bN b =? bN qc)%N eqn:E; [eauto|]. destruct (bN b =? 92)%N; [eauto|].
  destruct (is_print_ascii b); [|cbn [app]; eauto]. exists b, []. split; [reflexivity|]. intro X; subst b. lia.
Qed.

Lemma suitable_quote_cases b : suitable_quote b = dq \/ suitable_quote b = sq.
Proof. unfold suitable_quote. destruct (_ && _); auto. Qed.

(* ---- a buffer holding a single token ---- *)
Definition starter (c : byte) : Prop :=
  (bN c < 128)%N /\ is_space_rune (bN c) = false /\ beq c x23 = false /\ beq c x2f = false /\ beq c x2d = false.

Lemma trivia_starter c rest f pos : starter c -> trivia (S f) false (c :: rest) pos [] = TOk [] [] (c :: rest) pos.
Proof.
  intros (A & B & C1 & C2 & C3). cbn [trivia]. cbn [skip_spaces length].
  assert (D : decode_rune (c :: rest) = (bN c, 1)) by (unfold decode_rune; replace (bN c <? 128)%N with true by lia; reflexivity).
  rewrite D, B. cbn [firstn skipn]. unfold skip_comment. rewrite C1, C2, C3. cbn [orb andb rev]. rewrite Nat.add_0_r. reflexivity.
Qed.

Definition tok1 (kind buf str : bytes) : token := mkTok kind [] [] buf str 0 0 (length buf).
Definition tok_eof (n : nat) : token := mkTok K_eof [] [] [] [] 0 n n.

Lemma lex_single c rest kind str :
  starter c -> consume_token false [] (c :: rest) = COk (length (c :: rest)) kind str 0 false -> keq kind K_eof = false ->
  lex_all (c :: rest) = LOk [tok1 kind (c :: rest) str; tok_eof (length (c :: rest))].
Proof.
  intros ST CT NE. set (buf := c :: rest) in *.
  unfold lex_all. replace (length buf + 2) with (S (S (length buf))) by lia. cbn [lex_loop].
  unfold NextToken at 1. unfold next_token. cbn [init_lexer l_rest l_pos l_tok l_buf l_dot zero_token t_kind].
  unfold buf at 2. rewrite trivia_starter by exact ST. fold buf. rewrite CT.
  rewrite Nat.ltb_irrefl. cbn [l_tok t_kind]. rewrite NE.
  rewrite firstn_all, skipn_all. cbn [lex_loop].
  unfold NextToken, next_token. cbn [l_rest l_pos l_tok l_buf l_dot t_kind length trivia skip_spaces firstn skipn skip_comment rev].
  cbn [consume_token Nat.ltb Nat.leb length firstn skipn l_tok t_kind]. change (keq K_eof K_eof) with true. cbv iota.
  unfold tok1, tok_eof. cbn [rev app]. rewrite !Nat.add_0_r. reflexivity.
Qed.

Lemma starter_quote q : qchar q -> starter q.
Proof. intros [-> | [-> | ->]]; repeat split. Qed.

Lemma consume_token_quote q rest : q = dq \/ q = sq ->
  consume_token false [] (q :: rest) =
  match consume_quoted_literal false false false (q :: rest) with
  | QDone content n herr => COk (0 + n) (if herr then K_bad else K_string) content 0 false
  | QPanic p e cls => CErr (0 + p) (0 + e) cls
  end.
Proof. intros [-> | ->]; reflexivity. Qed.

Lemma consume_token_bquote q rest : q = dq \/ q = sq ->
  consume_token false [] (x62 :: q :: rest) =
  match consume_quoted_literal false true false (q :: rest) with
  | QDone content n herr => COk (1 + n) (if herr then K_bad else K_bytes) content 0 false
  | QPanic p e cls => CErr (1 + p) (1 + e) cls
  end.
Proof. intros [-> | ->]; reflexivity. Qed.

(* a one-quote literal: the opening quote is not taken for a triple quote because the content never starts with the quote *)
Lemma quoted_literal_single q isb content :
  qchar q -> match content with c :: _ => c <> q | [] => True end ->
  consume_quoted_literal false isb false (q :: content ++ [q]) =
  quoted (S (length (q :: content ++ [q]))) false [q] false (negb isb) false (content ++ [q]) 1 [] false.
Proof.
  intros HQ HD. unfold consume_quoted_literal.
  assert (T : peek_is (q :: content ++ [q]) 1 q && peek_is (q :: content ++ [q]) 2 q = false).
  { unfold peek_is. cbn [nth_error]. destruct content as [|c t]; cbn [app nth_error].
    - rewrite beq_refl. reflexivity.
    - replace (beq c q) with false by (symmetry; apply beq_neq; exact HD). reflexivity. }
  rewrite T. reflexivity.
Qed.

Section Theorems.
  Variable is_print : N -> bool.     (* unicode.IsPrint: the theorems hold whatever it answers *)

  Theorem quote_string_lexes s :
    lex_all (quote_string is_print s) =
    LOk [tok1 K_string (quote_string is_print s) s; tok_eof (length (quote_string is_print s))].
  Proof.
    unfold quote_string. cbv zeta. set (q := suitable_quote s).
    assert (HQ2 : q = dq \/ q = sq) by apply suitable_quote_cases.
    assert (HQ : qchar q) by (unfold qchar; tauto).
    set (content := quote_content is_print (length s) q s). cbn [app].
    apply lex_single; [apply starter_quote, HQ| |reflexivity].
    rewrite consume_token_quote by exact HQ2.
    rewrite quoted_literal_single by (auto; apply content_head, HQ).
    unfold content. rewrite (Q_content is_print q false HQ (length s) s (le_n _)); [|cbn [length]; lia|discriminate].
    cbn [rev app length plus]. f_equal. rewrite !app_length. cbn [length]. lia.
  Qed.

  Theorem quote_bytes_lexes b :
    lex_all (quote_bytes b) = LOk [tok1 K_bytes (quote_bytes b) b; tok_eof (length (quote_bytes b))].
  Proof.
    unfold quote_bytes. cbv zeta. set (q := suitable_quote b).
    assert (HQ2 : q = dq \/ q = sq) by apply suitable_quote_cases.
    assert (HQ : qchar q) by (unfold qchar; tauto).
    set (content := concat (map (quote_byte q) b)). cbn [app].
    apply lex_single; [repeat split| |reflexivity].
    rewrite consume_token_bquote by exact HQ2.
    rewrite quoted_literal_single.
    - unfold content. rewrite (Qb_content q HQ b); [|cbn [length]; lia].
      cbn [rev app length plus]. f_equal. rewrite !app_length. cbn [length]. lia.
    - exact HQ.
    - unfold content. destruct b as [|b0 b']; [exact I|]. cbn [map concat].
      destruct (quote_byte_head q b0 HQ) as (c & t & -> & NE). exact NE.
  Qed.
End Theorems.

(* ---- identifiers ---- *)
Lemma consume_token_backquote rest :
  consume_token false [] (bq :: rest) =
  match quoted (S (length (bq :: rest))) false [x60] false true true rest 1 [] false with
  | QDone content n herr => COk n (if herr then K_bad else K_ident) content 0 false
  | QPanic p e cls => CErr p e cls
  end.
Proof. reflexivity. Qed.

Lemma literal_prefix_none : forall n s i isb israw, forallb is_ident_part s = true -> literal_prefix n s i isb israw = None.
Proof.
  induction n as [|n IH]; intros s i isb israw F; [reflexivity|]. destruct s as [|c s']; [reflexivity|].
  cbn [forallb] in F. apply andb_true_iff in F as [Fc F']. cbn [literal_prefix].
  destruct (negb isb && (beq c x42 || beq c x62)); [apply IH, F'|].
  destruct (negb israw && (beq c x52 || beq c x72)); [apply IH, F'|].
  destruct (beq c x22 || beq c x27) eqn:E; [|reflexivity].
  exfalso. apply orb_true_iff in E as [E | E]; apply beq_eq in E; subst c; discriminate Fc.
Qed.

Lemma span_all p : forall s, forallb p s = true -> span p s = length s.
Proof. induction s as [|c s IH]; intros F; [reflexivity|]. cbn [forallb] in F. apply andb_true_iff in F as [Fc F']. cbn [span length]. rewrite Fc, IH; auto. Qed.

Lemma ident_start_starter c : is_ident_start c = true -> starter c.
Proof. intros H. destruct c; try discriminate H; repeat split. Qed.

Lemma consume_token_ident_start c rest :
  is_ident_start c = true -> forallb is_ident_part (c :: rest) = true ->
  consume_token false [] (c :: rest) = ident_or_keyword (c :: rest).
Proof.
  intros H F.
  destruct c; try discriminate H; cbn -[literal_prefix ident_or_keyword consume_quoted_literal];
    rewrite ?literal_prefix_none by exact F; reflexivity.
Qed.

Definition ident_shaped (s : bytes) : Prop :=
  match s with c :: _ => is_ident_start c = true /\ forallb is_ident_part s = true | [] => False end.

Section IdentTheorems.
  Variable is_print : N -> bool.

  Lemma need_quote_false s : need_quote_ident s = false -> is_keyword s = false /\ ident_shaped s.
  Proof.
    unfold need_quote_ident, ident_shaped. intros H. apply orb_false_iff in H as [K H]. apply orb_false_iff in K as [K _]. split; [exact K|].
    destruct s as [|c s']; [discriminate|]. apply orb_false_iff in H as [A B].
    apply negb_false_iff in A, B. auto.
  Qed.

  (* QuoteSQLIdent(s), s non-empty, lexes as exactly one identifier token named s *)
  Theorem quote_ident_lexes s : s <> [] ->
    exists q, quote_ident is_print s = Some q /\ lex_all q = LOk [tok1 K_ident q s; tok_eof (length q)].
  Proof.
    intros NE. unfold quote_ident. destruct s as [|c0 s0]; [congruence|]. set (s := c0 :: s0) in *.
    destruct (need_quote_ident s) eqn:NQ.
    - eexists. split; [reflexivity|]. set (content := quote_content is_print (length s) bq s). cbn [app].
      assert (HQ : qchar bq) by (unfold qchar; auto).
      apply lex_single; [repeat split| |reflexivity].
      rewrite consume_token_backquote. change [x60] with [bq].
      unfold content. rewrite (Q_content is_print bq true HQ (length s) s (le_n _)); [|cbn [length]; lia|intros _; left; exact NE].
      cbn [rev app]. f_equal. cbn [length]. rewrite !app_length. cbn [length]. lia.
    - exists s. split; [reflexivity|]. destruct (need_quote_false s NQ) as [K [IS FA]].
      apply lex_single; [apply ident_start_starter, IS| |reflexivity].
      rewrite consume_token_ident_start by assumption.
      unfold ident_or_keyword. fold s. rewrite (span_all _ _ FA), firstn_all, K. reflexivity.
  Qed.

  (* it is returned unquoted only if it is not a reserved keyword and already identifier-shaped *)
  Theorem quote_ident_unquoted_only_if s q :
    quote_ident is_print s = Some q -> (exists t, q = bq :: t) \/ (q = s /\ is_keyword s = false /\ ident_shaped s).
  Proof.
    unfold quote_ident. destruct s as [|c0 s0]; [discriminate|]. destruct (need_quote_ident (c0 :: s0)) eqn:NQ; intros E; inversion E; subst.
    - left. eexists. reflexivity.
    - right. split; [reflexivity|]. apply need_quote_false, NQ.
  Qed.

  (* the empty identifier: QuoteSQLIdent("") panics (index out of range) -- outside the property's quantifier *)
  Lemma quote_ident_empty : quote_ident is_print [] = None.
  Proof. reflexivity. Qed.
End IdentTheorems.
