(* Bytes/SplitProofs.v -- C12: SplitRawStatements partitions the input at ';' tokens. *)
From Verif Require Import Base.Bytes Base.Utf8 Bytes.FileModel Gen.Keywords Lex.Lexer Lex.LexFacts Lex.LexTiling Bytes.Split.
Local Open Scope nat_scope.

(* ---------- lex_loop with an accumulator = lex_loop without, prefixed ---------- *)
Definition lres_map {A B} (f : A -> B) (r : lres A) : lres B :=
  match r with LOk a => LOk (f a) | LErr e => LErr e | LCrash => LCrash end.

Lemma lex_loop_acc : forall fuel l racc,
  lex_loop fuel l racc = lres_map (fun ts => rev racc ++ ts) (lex_loop fuel l []).
Proof.
  induction fuel as [|f IH]; intros l racc; simpl; [reflexivity|].
  destruct (NextToken l) as [l'| |]; simpl; try reflexivity.
  destruct (keq (t_kind (l_tok l')) K_eof); simpl.
  - reflexivity.
  - rewrite (IH l' (l_tok l' :: racc)), (IH l' [l_tok l']).
    destruct (lex_loop f l' []); simpl; try reflexivity. rewrite <- app_assoc. reflexivity.
Qed.

(* ---------- the splitter as a function of the token sequence ---------- *)
(* cur = the current token, ts = the tokens NextToken returns from here on (up to the first <eof>) *)
Fixpoint split_toks (cur : token) (ts : list token) (first : nat) : list (nat * nat) :=
  match ts with
  | [] => if t_pos cur =? first then [] else [(first, t_pos cur)]
  | t :: ts' =>
      if keq (t_kind cur) K_semi then (first, t_pos cur) :: split_toks t ts' (start_of t)
      else if keq (t_kind t) K_eof then (if t_pos t =? first then [] else [(first, t_pos t)])
      else split_toks t ts' first
  end.

Definition range_of (p : piece) : nat * nat := (pc_pos p, pc_end p).
Definition piece_ok (buf : bytes) (p : piece) : Prop := slice buf (pc_pos p) (pc_end p) = Some (pc_stmt p).

Lemma mk_piece_ok buf a b p : mk_piece buf a b = Some p -> range_of p = (a, b) /\ piece_ok buf p.
Proof.
  unfold mk_piece, piece_ok. destruct (slice buf a b) eqn:S; [|discriminate].
  intros H. inversion H; subst. simpl. auto.
Qed.

Lemma semi_not_eof k : keq k K_semi = true -> keq k K_eof = false.
Proof. intros H. apply bytes_eqb_eq in H. subst. reflexivity. Qed.

(* the loop at a state whose current token is the <eof> that followed a ';' *)
Lemma split_loop_at_eof f l first racc :
  l_rest l = [] -> keq (t_kind (l_tok l)) K_eof = true -> l_pos l = t_pos (l_tok l) ->
  split_loop (S f) l first racc =
    (if t_pos (l_tok l) =? first then LOk (rev racc)
     else match mk_piece (l_buf l) first (t_pos (l_tok l)) with
          | None => LCrash
          | Some p => LOk (rev (p :: racc))
          end).
Proof.
  intros R E P. cbn [split_loop].
  assert (NS : keq (t_kind (l_tok l)) K_semi = false).
  { destruct (keq (t_kind (l_tok l)) K_semi) eqn:X; auto. apply semi_not_eof in X. congruence. }
  rewrite NS. unfold NextToken.
  destruct (next_token_at_eof false l R) as (l' & N & K & _ & _ & TP & _).
  rewrite N. rewrite K. change (keq K_eof K_eof) with true. cbv iota. rewrite TP, P. reflexivity.
Qed.

(* the loop computes split_toks of the remaining token sequence; lexical errors pass through *)
Lemma split_loop_spec : forall fuel l first racc,
  match split_loop fuel l first racc with
  | LOk ps =>
      exists ts new, lex_loop fuel l [] = LOk ts /\ ps = rev racc ++ new /\
                     map range_of new = split_toks (l_tok l) ts first /\ Forall (piece_ok (l_buf l)) new
  | LErr e => lex_loop fuel l [] = LErr e
  | LCrash => True
  end.
Proof.
  induction fuel as [|f IH]; intros l first racc; [simpl; exact I|].
  cbn [split_loop lex_loop].
  destruct (keq (t_kind (l_tok l)) K_semi) eqn:SEMI.
  - destruct (mk_piece (l_buf l) first (t_pos (l_tok l))) as [p|] eqn:MP; [|exact I].
    destruct (mk_piece_ok _ _ _ _ MP) as [PR PO].
    destruct (NextToken l) as [l'| |] eqn:N; [|reflexivity|exact I].
    pose proof (next_token_step _ _ _ N) as [BUF _ _ SE SL _].
    destruct (keq (t_kind (l_tok l')) K_eof) eqn:E.
    + (* the token after ';' is <eof>: the loop reads <eof> once more, then stops *)
      destruct (next_token_eof _ _ _ N E) as [R0 RW].
      assert (PP : l_pos l' = t_pos (l_tok l')) by (rewrite SL, SE, RW; simpl; lia).
      destruct f as [|f']; [simpl; exact I|].
      rewrite (split_loop_at_eof f' l' _ _ R0 E PP).
      destruct (t_pos (l_tok l') =? start_of (l_tok l')) eqn:Q.
      * exists [l_tok l'], [p]. split; [reflexivity|]. split; [reflexivity|].
        split; [cbn [map split_toks]; rewrite SEMI, PR, Q; reflexivity|]. constructor; auto.
      * destruct (mk_piece (l_buf l') (start_of (l_tok l')) (t_pos (l_tok l'))) as [p2|] eqn:MP2; [|exact I].
        destruct (mk_piece_ok _ _ _ _ MP2) as [PR2 PO2]. rewrite BUF in PO2.
        exists [l_tok l'], [p; p2]. split; [reflexivity|].
        split; [simpl; rewrite <- app_assoc; reflexivity|].
        split; [cbn [map split_toks]; rewrite SEMI, PR, PR2, Q; reflexivity|]. constructor; auto.
    + specialize (IH l' (start_of (l_tok l')) (p :: racc)).
      destruct (split_loop f l' (start_of (l_tok l')) (p :: racc)) as [ps| |] eqn:SPL; [| |exact I].
      * destruct IH as (ts & new & L & A & B & C).
        rewrite lex_loop_acc. rewrite L. simpl.
        exists (l_tok l' :: ts), (p :: new). split; [reflexivity|].
        split; [rewrite A; simpl; rewrite <- app_assoc; reflexivity|].
        split; [cbn [map split_toks]; rewrite SEMI, PR, B; reflexivity|].
        constructor; [exact PO|]. rewrite <- BUF. exact C.
      * rewrite lex_loop_acc, IH. reflexivity.
  - destruct (NextToken l) as [l'| |] eqn:N; [|reflexivity|exact I].
    pose proof (next_token_step _ _ _ N) as [BUF _ _ SE SL _].
    destruct (keq (t_kind (l_tok l')) K_eof) eqn:E.
    + destruct (t_pos (l_tok l') =? first) eqn:Q.
      * exists [l_tok l'], []. split; [reflexivity|]. split; [rewrite app_nil_r; reflexivity|].
        split; [cbn [map split_toks]; rewrite SEMI, E, Q; reflexivity|]. constructor.
      * destruct (mk_piece (l_buf l) first (t_pos (l_tok l'))) as [p|] eqn:MP; [|exact I].
        destruct (mk_piece_ok _ _ _ _ MP) as [PR PO].
        exists [l_tok l'], [p]. split; [reflexivity|]. split; [reflexivity|].
        split; [cbn [map split_toks]; rewrite SEMI, E, Q, PR; reflexivity|]. constructor; auto.
    + specialize (IH l' first racc).
      destruct (split_loop f l' first racc) as [ps| |] eqn:SPL; [| |exact I].
      * destruct IH as (ts & new & L & A & B & C).
        rewrite lex_loop_acc. rewrite L. simpl.
        exists (l_tok l' :: ts), new. split; [reflexivity|]. split; [exact A|].
        split; [cbn [split_toks]; rewrite SEMI, E; exact B|]. rewrite <- BUF. exact C.
      * rewrite lex_loop_acc, IH. reflexivity.
Qed.

(* ---------- an order-only view of a token stream ---------- *)
Fixpoint ordered (prev_end : nat) (ts : list token) : Prop :=
  match ts with
  | [] => True
  | t :: ts' =>
      prev_end <= start_of t /\ start_of t <= t_pos t /\ t_pos t <= t_end t /\
      (forall c, In c (t_comments t) -> start_of t <= c_pos c /\ c_pos c < c_end c /\ c_end c <= t_pos t) /\
      ordered (t_end t) ts'
  end.

Lemma cchain_bounds : forall cs start c,
  cchain start cs -> In c cs ->
  start <= c_pos c /\ c_pos c < c_end c /\ c_end c <= start + length (render_comments cs).
Proof.
  induction cs as [|a cs IH]; intros start c C HI; [destruct HI|].
  simpl in C. destruct C as (P & E & NE & C).
  change (render_comments (a :: cs)) with (render_comment a ++ render_comments cs).
  unfold render_comment. rewrite !app_length.
  assert (0 < length (c_raw a)) by (destruct (c_raw a); [congruence|simpl; lia]).
  destruct HI as [<-|HI]; [lia|].
  destruct (IH _ _ C HI) as (A1 & A2 & A3). lia.
Qed.

Lemma cchain_first : forall cs start c, cchain start (c :: cs) -> start <= c_pos c.
Proof. intros cs start c C. simpl in C. lia. Qed.

Lemma ordered_of_chain : forall ts src start,
  chain start ts -> tokens_wf src start ts -> ordered start ts.
Proof.
  induction ts as [|t ts IH]; intros src start C W; simpl; auto.
  simpl in C. destruct C as (P & E & C). simpl in W. destruct W as ((CC & _ & _) & W).
  assert (S1 : start <= start_of t /\ start_of t <= t_pos t /\
               (forall c, In c (t_comments t) -> start_of t <= c_pos c /\ c_pos c < c_end c /\ c_end c <= t_pos t)).
  { unfold start_of. destruct (t_comments t) as [|c0 cs] eqn:TC.
    - split; [lia|]. split; [lia|]. intros c [].
    - pose proof (cchain_first _ _ _ CC) as F.
      split; [exact F|].
      assert (B0 := cchain_bounds _ _ c0 CC (or_introl eq_refl)).
      split; [lia|].
      intros c HI. destruct (cchain_bounds _ _ c CC HI) as (A1 & A2 & A3).
      split; [|lia].
      (* the first comment has the smallest position *)
      destruct HI as [<-|HI]; [lia|].
      simpl in CC. destruct CC as (_ & E0 & _ & CC').
      destruct (cchain_bounds _ _ c CC' HI) as (A4 & _ & _). lia. }
  destruct S1 as (S1 & S2 & S3).
  split; [exact S1|]. split; [exact S2|]. split; [lia|]. split; [exact S3|].
  eapply IH; eauto.
Qed.

(* ---------- properties of the cut ---------- *)
Inductive pieces_sorted (len : nat) : nat -> list (nat * nat) -> Prop :=
| ps_nil lo : pieces_sorted len lo []
| ps_cons lo a b rest : lo <= a -> a <= b -> b <= len -> pieces_sorted len b rest ->
                        pieces_sorted len lo ((a, b) :: rest).

Definition is_semi (t : token) : bool := keq (t_kind t) K_semi.
Definition is_eof (t : token) : bool := keq (t_kind t) K_eof.

Definition covers (ps : list (nat * nat)) (lo hi : nat) : Prop :=
  exists a b, In (a, b) ps /\ a <= lo /\ hi <= b.

(* what is known about the rest of the stream: it ends with the only <eof>, which is empty; every other
   token is non-empty; every token ends inside the buffer *)
Definition tail_ok (len : nat) (cur : token) (ts : list token) : Prop :=
  Forall (fun t => t_end t <= len /\ (is_eof t = false -> t_pos t < t_end t)) ts /\
  ((ts = [] /\ is_eof cur = true /\ t_pos cur = t_end cur) \/
   (exists body e, ts = body ++ [e] /\ is_eof e = true /\ t_pos e = t_end e /\
                   Forall (fun t => is_eof t = false) body)).

Lemma tail_ok_step len cur t ts' :
  tail_ok len cur (t :: ts') ->
  tail_ok len t ts' /\ t_end t <= len /\ (is_eof t = false -> t_pos t < t_end t) /\
  (ts' = [] -> is_eof t = true) /\ (ts' <> [] -> is_eof t = false).
Proof.
  intros [F [(X & _)|(body & e & A & B & C & D)]]; [discriminate|].
  inversion F as [|? ? [F1 F2] F3]; subst.
  destruct body as [|b body]; simpl in A; inversion A; subst.
  - split; [split; [exact F3|left; auto]|]. repeat split; auto. intros X; congruence.
  - inversion D; subst. split; [split; [exact F3|right; exists body, e; auto]|].
    repeat split; auto. intros X. destruct body; discriminate.
Qed.

Lemma sorted_weaken len lo lo' ps : lo' <= lo -> pieces_sorted len lo ps -> pieces_sorted len lo' ps.
Proof. intros H S. destruct S; constructor; auto; lia. Qed.

Lemma sorted_in len : forall ps lo a b, pieces_sorted len lo ps -> In (a, b) ps -> lo <= a /\ a <= b /\ b <= len.
Proof.
  induction ps as [|[x y] ps IH]; intros lo a b S HI; [destruct HI|].
  inversion S; subst. destruct HI as [E|HI]; [inversion E; subst; lia|].
  destruct (IH _ _ _ H6 HI). lia.
Qed.

Lemma ordered_ge : forall ts pe t, ordered pe ts -> In t ts -> pe <= t_pos t.
Proof.
  induction ts as [|x ts IH]; intros pe t O HI; [destruct HI|].
  simpl in O. destruct O as (A & B & C & D & O). destruct HI as [<-|HI]; [lia|].
  specialize (IH _ _ O HI). lia.
Qed.

Lemma semi_eof_excl t : is_semi t = true -> is_eof t = false.
Proof. apply semi_not_eof. Qed.

Lemma covers_cons p ps lo hi : covers ps lo hi -> covers (p :: ps) lo hi.
Proof. intros (a & b & H & X). exists a, b. split; [right; exact H|exact X]. Qed.

Lemma split_toks_props : forall ts cur first len,
  ordered (t_end cur) ts -> tail_ok len cur ts ->
  first <= t_pos cur -> t_pos cur <= t_end cur -> t_end cur <= len ->
  (is_semi cur = true -> t_pos cur < t_end cur) ->
  let ps := split_toks cur ts first in
  (* pieces are in order, inside the buffer, starting at or after [first] *)
  pieces_sorted len first ps /\
  (* no piece contains a ';' token *)
  (forall t, In t (cur :: ts) -> is_semi t = true -> forall a b, In (a, b) ps -> ~ (a <= t_pos t /\ t_pos t < b)) /\
  (* every other token lies inside a piece *)
  (forall t, In t ts -> is_semi t = false -> is_eof t = false -> covers ps (t_pos t) (t_end t)) /\
  (* every comment lies inside a piece *)
  (forall t c, In t ts -> In c (t_comments t) -> covers ps (c_pos c) (c_end c)) /\
  (* any non-empty range of the currently open statement lies inside a piece *)
  (forall lo hi, first <= lo -> lo < hi -> hi <= (if is_semi cur then t_pos cur else t_end cur) -> covers ps lo hi).
Proof.
  induction ts as [|t ts' IH]; intros cur first len O T F1 F2 F3 F4; cbv zeta.
  - destruct T as [_ [(_ & E & PE)|(body & e & A & _)]]; [|destruct body; discriminate].
    cbn [split_toks].
    assert (NS : is_semi cur = false).
    { destruct (is_semi cur) eqn:X; auto. apply semi_eof_excl in X. congruence. }
    destruct (t_pos cur =? first) eqn:Q.
    + apply Nat.eqb_eq in Q. split; [constructor|]. split; [intros ? ? ? ? ? []|].
      split; [intros ? []|]. split; [intros ? ? []|].
      intros lo hi A B C. rewrite NS in C. lia.
    + apply Nat.eqb_neq in Q. split; [constructor; try lia; constructor|].
      split.
      { intros t0 [<-|[]] S0. congruence. }
      split; [intros ? []|]. split; [intros ? ? []|].
      intros lo hi A B C. rewrite NS in C. exists first, (t_pos cur). split; [left; reflexivity|lia].
  - destruct (tail_ok_step _ _ _ _ T) as (T' & TE & TNE & TL & TNL).
    simpl in O. destruct O as (O1 & O2 & O3 & O4 & O').
    cbn [split_toks]. fold (is_semi cur). fold (is_eof t).
    destruct (is_semi cur) eqn:SC.
    + (* cur is ';': emit (first, pos cur), restart at start_of t *)
      assert (F4' : is_semi t = true -> t_pos t < t_end t).
      { intros X. apply TNE. apply semi_eof_excl. exact X. }
      specialize (IH t (start_of t) len O' T' O2 O3 TE F4'). cbv zeta in IH.
      destruct IH as (I1 & I2 & I3 & I4 & I5).
      specialize (F4 eq_refl).
      split.
      { constructor; try lia. eapply sorted_weaken; [|exact I1]. lia. }
      split.
      { intros t0 HI S0 a b [E|HP].
        - inversion E; subst a b. destruct HI as [<-|HI]; [lia|].
          pose proof (ordered_ge (t :: ts') (t_end cur) t0 ltac:(simpl; auto) HI). lia.
        - destruct HI as [<-|HI].
          + destruct (sorted_in _ _ _ _ _ I1 HP). lia.
          + apply I2; auto. }
      split.
      { intros t0 [<-|HI] S0 E0.
        - apply covers_cons. apply I5; [lia| |].
          + apply TNE. exact E0.
          + rewrite S0. lia.
        - apply covers_cons. apply I3; auto. }
      split.
      { intros t0 c [<-|HI] HC.
        - destruct (O4 c HC) as (A & B & C). apply covers_cons. apply I5; [lia|lia|].
          destruct (is_semi t); lia.
        - apply covers_cons. eapply I4; eauto. }
      { intros lo hi A B C. exists first, (t_pos cur). split; [left; reflexivity|lia]. }
    + destruct (is_eof t) eqn:ET.
      * (* the statement runs to <eof> *)
        assert (ts' = []) as ->.
        { destruct ts' as [|x ts'']; auto. specialize (TNL ltac:(discriminate)). congruence. }
        assert (NST : is_semi t = false).
        { destruct (is_semi t) eqn:X; auto. apply semi_eof_excl in X. congruence. }
        destruct (t_pos t =? first) eqn:Q.
        -- apply Nat.eqb_eq in Q. split; [constructor|]. split; [intros ? ? ? ? ? []|].
           split; [intros t0 [<-|[]] ? ?; congruence|].
           split.
           { intros t0 c [<-|[]] HC. destruct (O4 c HC) as (A & B & C). lia. }
           intros lo hi A B C. lia.
        -- apply Nat.eqb_neq in Q.
           assert (CV : forall lo hi, first <= lo -> hi <= t_pos t -> covers [(first, t_pos t)] lo hi).
           { intros lo hi A B. exists first, (t_pos t). split; [left; reflexivity|lia]. }
           split; [constructor; try lia; constructor|].
           split.
           { intros t0 [<-|[<-|[]]] S0; congruence. }
           split; [intros t0 [<-|[]] ? ?; congruence|].
           split.
           { intros t0 c [<-|[]] HC. destruct (O4 c HC) as (A & B & C). apply CV; lia. }
           intros lo hi A B C. apply CV; lia.
      * (* an ordinary token: the statement continues *)
        assert (F4' : is_semi t = true -> t_pos t < t_end t) by (intros _; apply TNE; reflexivity).
        specialize (IH t first len O' T' ltac:(lia) O3 TE F4'). cbv zeta in IH.
        destruct IH as (I1 & I2 & I3 & I4 & I5).
        split; [exact I1|].
        split.
        { intros t0 [<-|HI] S0; [congruence|]. apply I2; auto. }
        split.
        { intros t0 [<-|HI] S0 E0.
          - apply I5; [lia|apply TNE; reflexivity|rewrite S0; lia].
          - apply I3; auto. }
        split.
        { intros t0 c [<-|HI] HC.
          - destruct (O4 c HC) as (A & B & C). apply I5; [lia|lia|]. destruct (is_semi t); lia.
          - eapply I4; eauto. }
        { intros lo hi A B C. apply I5; [lia|lia|]. destruct (is_semi t); lia. }
Qed.

(* ---------- what separates two consecutive pieces ---------- *)
Lemma split_toks_first : forall ts cur first a b rest,
  split_toks cur ts first = (a, b) :: rest -> a = first.
Proof.
  induction ts as [|t ts IH]; intros cur first a b rest H; cbn [split_toks] in H.
  - destruct (t_pos cur =? first); inversion H; reflexivity.
  - destruct (keq (t_kind cur) K_semi); [inversion H; reflexivity|].
    destruct (keq (t_kind t) K_eof); [destruct (t_pos t =? first); inversion H; reflexivity|].
    eapply IH; eauto.
Qed.

(* consecutive pieces (a,b), (c,d): b is the Pos of a ';' token s and c is where the token n that
   follows s starts (its first leading comment, or the token itself) *)
Fixpoint adjacent_ok (toks : list token) (ps : list (nat * nat)) : Prop :=
  match ps with
  | (a, b) :: (((c, d) :: _) as rest) =>
      (exists s n pre post, toks = pre ++ s :: n :: post /\ is_semi s = true /\ b = t_pos s /\ c = start_of n) /\
      adjacent_ok toks rest
  | _ => True
  end.

Lemma split_toks_adjacent : forall ts cur first pre,
  adjacent_ok (pre ++ cur :: ts) (split_toks cur ts first).
Proof.
  induction ts as [|t ts IH]; intros cur first pre; cbn [split_toks].
  - destruct (t_pos cur =? first); simpl; auto.
  - fold (is_semi cur). destruct (is_semi cur) eqn:SC.
    + specialize (IH t (start_of t) (pre ++ [cur])). rewrite <- app_assoc in IH. simpl in IH.
      destruct (split_toks t ts (start_of t)) as [|[c d] rest] eqn:R; [simpl; auto|].
      cbn [adjacent_ok]. split; [|exact IH].
      apply split_toks_first in R. subst c.
      exists cur, t, pre, ts. auto.
    + destruct (keq (t_kind t) K_eof); [destruct (t_pos t =? first); simpl; auto|].
      specialize (IH t first (pre ++ [cur])). rewrite <- app_assoc in IH. exact IH.
Qed.

(* a non-empty range is inside at most one piece *)
Lemma covers_unique len : forall ps lo0 i j a b c d lo hi,
  pieces_sorted len lo0 ps ->
  nth_error ps i = Some (a, b) -> nth_error ps j = Some (c, d) ->
  a <= lo -> hi <= b -> c <= lo -> hi <= d -> lo < hi -> i = j.
Proof.
  induction ps as [|[x y] ps IH]; intros lo0 i j a b c d lo hi S Hi Hj A1 A2 A3 A4 A5.
  - destruct i; discriminate.
  - inversion S; subst.
    destruct i as [|i], j as [|j]; simpl in Hi, Hj; auto.
    + inversion Hi; subst. apply nth_error_In in Hj. destruct (sorted_in _ _ _ _ _ H6 Hj). lia.
    + inversion Hj; subst. apply nth_error_In in Hi. destruct (sorted_in _ _ _ _ _ H6 Hi). lia.
    + f_equal. eapply IH; eauto.
Qed.

(* ---------- fuel monotonicity of lex_loop ---------- *)
Lemma lex_loop_mono : forall f l racc k,
  lex_loop f l racc <> LCrash -> lex_loop (f + k) l racc = lex_loop f l racc.
Proof.
  induction f as [|f IH]; intros l racc k H; [simpl in H; congruence|].
  simpl in *. destruct (NextToken l) as [l'| |]; auto.
  destruct (keq (t_kind (l_tok l')) K_eof); auto.
Qed.

(* ---------- assembling: SplitRawStatements = cut of the token sequence ---------- *)
Definition default_pieces (rs : list (nat * nat)) : list (nat * nat) :=
  match rs with [] => [(0, 0)] | _ => rs end.

Theorem split_spec (buf : bytes) :
  match split buf with
  | LOk ps => exists fuel ts, lex_loop fuel (init_lexer buf) [] = LOk ts /\
                              map range_of ps = default_pieces (split_toks zero_token ts 0) /\
                              Forall (piece_ok buf) ps
  | LErr e => exists fuel, lex_loop fuel (init_lexer buf) [] = LErr e
  | LCrash => True
  end.
Proof.
  unfold split. pose proof (split_loop_spec (2 * length buf + 4) (init_lexer buf) 0 []) as H.
  destruct (split_loop (2 * length buf + 4) (init_lexer buf) 0 []) as [ps| |]; [| eauto | exact I].
  destruct H as (ts & new & L & A & B & C). simpl in A. subst ps. simpl in B, C.
  destruct new as [|p new].
  - exists (2 * length buf + 4), ts. split; [exact L|]. simpl in B. rewrite <- B. simpl.
    split; [reflexivity|]. constructor; [|constructor]. unfold piece_ok, slice. simpl. reflexivity.
  - exists (2 * length buf + 4), ts. split; [exact L|]. rewrite <- B. simpl. auto.
Qed.

(* the lexer rejects the input  ->  the splitter reports that same error (or dies; C03 excludes that) *)
Theorem split_fails_when_lexer_fails (buf : bytes) e :
  lex_all buf = LErr e -> split buf = LErr e \/ split buf = LCrash.
Proof.
  intros H. unfold lex_all in H.
  assert (M : lex_loop (2 * length buf + 4) (init_lexer buf) [] = LErr e).
  { replace (2 * length buf + 4) with ((length buf + 2) + (length buf + 2)) by lia.
    rewrite lex_loop_mono; [exact H|]. rewrite H. discriminate. }
  unfold split. pose proof (split_loop_spec (2 * length buf + 4) (init_lexer buf) 0 []) as S.
  destruct (split_loop (2 * length buf + 4) (init_lexer buf) 0 []) as [ps| |]; auto.
  - destruct S as (ts & new & L & _). congruence.
  - left. congruence.
Qed.

(* ---------- the partition theorem over an accepted token stream ---------- *)
Lemma zero_token_not_semi : is_semi zero_token = false.
Proof. reflexivity. Qed.

Lemma chain_end : forall ts st t, chain st ts -> In t ts -> t_end t = t_pos t + length (t_raw t).
Proof.
  induction ts as [|x l IH]; intros st t C0 HI; [destruct HI|].
  simpl in C0. destruct C0 as (_ & E & C0). destruct HI as [<-|HI]; [exact E|]. eapply IH; eauto.
Qed.

Theorem split_partition (buf : bytes) (ts : list token) :
  lex_all buf = LOk ts ->
  let ps := split_toks zero_token ts 0 in
  pieces_sorted (length buf) 0 ps /\
  (forall t, In t ts -> is_semi t = true -> forall a b, In (a, b) ps -> ~ (a <= t_pos t /\ t_pos t < b)) /\
  (forall t, In t ts -> is_semi t = false -> is_eof t = false -> covers ps (t_pos t) (t_end t)) /\
  (forall t c, In t ts -> In c (t_comments t) -> covers ps (c_pos c) (c_end c)) /\
  adjacent_ok (zero_token :: ts) ps.
Proof.
  intros H. cbv zeta. unfold lex_all in H.
  destruct (lex_loop_full _ _ _ _ (init_inv buf) H) as (body & e & A & B & C & D & F1 & F2 & F3).
  simpl in A, B, C, D. subst ts.
  assert (O : ordered 0 (body ++ [e])) by (eapply ordered_of_chain; eauto).
  assert (SL : forall t, In t (body ++ [e]) -> slice buf (t_pos t) (t_end t) = Some (t_raw t)).
  { intros t HI. pose proof (chain_slices (body ++ [e]) [] [] t C HI) as S.
    simpl in S. rewrite app_nil_r in S. rewrite <- B in S. exact S. }
  assert (CH : forall t, In t (body ++ [e]) -> t_end t = t_pos t + length (t_raw t)).
  { intros t HI. eapply chain_end; eauto. }
  assert (T : tail_ok (length buf) zero_token (body ++ [e])).
  { split.
    - apply Forall_forall. intros t HI. split.
      + specialize (SL t HI). unfold slice in SL.
        destruct ((t_pos t <=? t_end t) && (t_end t <=? length buf)) eqn:X; [|discriminate].
        apply andb_true_iff in X as [_ X]. apply Nat.leb_le in X. exact X.
      + intros NE. rewrite (CH t HI). apply in_app_or in HI. destruct HI as [HI|[<-|[]]].
        * rewrite Forall_forall in F3. destruct (F3 t HI) as [_ R]. destruct (t_raw t); [congruence|simpl; lia].
        * unfold is_eof in NE. congruence.
    - right. exists body, e. split; [reflexivity|]. split; [exact F1|]. split.
      + rewrite (CH e ltac:(apply in_or_app; right; left; reflexivity)), F2. simpl. lia.
      + apply Forall_forall. intros t HI. rewrite Forall_forall in F3. apply (F3 t HI). }
  pose proof (split_toks_props (body ++ [e]) zero_token 0 (length buf) O T
                ltac:(simpl; lia) ltac:(simpl; lia) ltac:(simpl; lia) ltac:(rewrite zero_token_not_semi; discriminate)) as P.
  cbv zeta in P. destruct P as (P1 & P2 & P3 & P4 & _).
  split; [exact P1|]. split; [intros t HI; apply P2; right; exact HI|]. split; [exact P3|]. split; [exact P4|].
  apply (split_toks_adjacent (body ++ [e]) zero_token 0 []).
Qed.

(* ---------- C03 (splitter part): SplitRawStatements never dies ---------- *)
From Verif Require Import Lex.LexTotal.

Lemma mk_piece_some buf a b : a <= b -> b <= length buf -> exists p, mk_piece buf a b = Some p.
Proof.
  intros A B. unfold mk_piece, slice.
  destruct (a <=? b) eqn:X; [|apply Nat.leb_gt in X; lia].
  destruct (b <=? length buf) eqn:Y; [|apply Nat.leb_gt in Y; lia]. simpl. eauto.
Qed.

Lemma start_of_bounds l l' :
  next_token false l = LOk l' -> l_pos l <= start_of (l_tok l') /\ start_of (l_tok l') <= t_pos (l_tok l').
Proof.
  intros N. pose proof (next_token_trivia _ _ N) as (CC & _ & _).
  pose proof (next_token_step _ _ _ N) as [_ _ SP _ _ _].
  unfold start_of. destruct (t_comments (l_tok l')) as [|c0 cs] eqn:TC.
  - simpl in SP. lia.
  - pose proof (cchain_first _ _ _ CC). destruct (cchain_bounds _ _ c0 CC (or_introl eq_refl)) as (A & B & C). lia.
Qed.

Lemma split_loop_total : forall fuel l first racc,
  lex_inv l -> first <= t_pos (l_tok l) -> t_pos (l_tok l) <= l_pos l ->
  length (l_rest l) + 2 <= fuel -> split_loop fuel l first racc <> LCrash.
Proof.
  induction fuel as [|f IH]; intros l first racc I F1 F2 FU; [lia|].
  pose proof I as [I1 I2].
  cbn [split_loop]. unfold NextToken.
  pose proof (next_token_no_crash false l I) as NC.
  destruct (keq (t_kind (l_tok l)) K_semi) eqn:SEMI.
  - destruct (mk_piece_some (l_buf l) first (t_pos (l_tok l)) F1 ltac:(lia)) as [p ->].
    destruct (next_token false l) as [l'| |] eqn:N; [|discriminate|congruence].
    pose proof (next_token_step _ _ _ N) as S. pose proof (step_inv _ _ I S) as I'.
    destruct (start_of_bounds _ _ N) as [SB1 SB2].
    destruct S as [BUF St SP SE SL _].
    destruct (keq (t_kind (l_tok l')) K_eof) eqn:E.
    + destruct (next_token_eof _ _ _ N E) as [R0 RW].
      assert (PP : l_pos l' = t_pos (l_tok l')) by (rewrite SL, SE, RW; simpl; lia).
      destruct f as [|f']; [lia|].
      rewrite (split_loop_at_eof f' l' _ _ R0 E PP).
      destruct (t_pos (l_tok l') =? start_of (l_tok l')); [discriminate|].
      destruct I' as [_ I2'].
      destruct (mk_piece_some (l_buf l') (start_of (l_tok l')) (t_pos (l_tok l')) SB2 ltac:(lia)) as [p2 ->].
      discriminate.
    + apply IH; auto; [lia|].
      pose proof (next_token_nonempty _ _ N E) as NE.
      apply (f_equal (@length byte)) in St. unfold render in St. rewrite !app_length in St.
      destruct (t_raw (l_tok l')); [congruence|]. simpl in St. lia.
  - destruct (next_token false l) as [l'| |] eqn:N; [|discriminate|congruence].
    pose proof (next_token_step _ _ _ N) as S. pose proof (step_inv _ _ I S) as I'.
    destruct S as [BUF St SP SE SL _].
    destruct (keq (t_kind (l_tok l')) K_eof) eqn:E.
    + destruct (t_pos (l_tok l') =? first); [discriminate|].
      destruct I' as [_ I2']. rewrite BUF in I2'.
      destruct (mk_piece_some (l_buf l) first (t_pos (l_tok l')) ltac:(lia) ltac:(lia)) as [p ->]. discriminate.
    + apply IH; auto; [lia|lia|].
      pose proof (next_token_nonempty _ _ N E) as NE.
      apply (f_equal (@length byte)) in St. unfold render in St. rewrite !app_length in St.
      destruct (t_raw (l_tok l')); [congruence|]. simpl in St. lia.
Qed.

Theorem split_total buf : split buf <> LCrash.
Proof.
  unfold split.
  pose proof (split_loop_total (2 * length buf + 4) (init_lexer buf) 0 [] (init_inv buf)
                ltac:(simpl; lia) ltac:(simpl; lia) ltac:(simpl; lia)) as T.
  destruct (split_loop _ _ _ _) as [[|p ps]| |]; congruence.
Qed.
