(* Bytes/Split.v -- model of split.go (SplitRawStatements), on top of the lexer model.
   Tie: hand transcription + correspondence (harness split-* commands). *)
From Verif Require Import Base.Bytes Base.Utf8 Bytes.FileModel Gen.Keywords Lex.Lexer.
Local Open Scope nat_scope.

Record piece := mkPiece { pc_pos : nat; pc_end : nat; pc_stmt : bytes }.

Definition K_semi : bytes := [x3b].

(* firstPos after a ';': the first leading comment of the next token if there is one, else its Pos *)
Definition start_of (t : token) : nat :=
  match t_comments t with c :: _ => c_pos c | [] => t_pos t end.

(* s[firstPos:lex.Token.Pos]; None = slice bounds out of range *)
Definition mk_piece (buf : bytes) (a b : nat) : option piece :=
  match slice buf a b with Some st => Some (mkPiece a b st) | None => None end.

Fixpoint split_loop (fuel : nat) (l : lexer) (first : nat) (racc : list piece) : lres (list piece) :=
  match fuel with
  | O => LCrash
  | S f =>
      if keq (t_kind (l_tok l)) K_semi then
        match mk_piece (l_buf l) first (t_pos (l_tok l)) with
        | None => LCrash
        | Some p =>
            match NextToken l with
            | LOk l' => split_loop f l' (start_of (l_tok l')) (p :: racc)
            | LErr e => LErr e
            | LCrash => LCrash
            end
        end
      else
        match NextToken l with
        | LOk l' =>
            if keq (t_kind (l_tok l')) K_eof then
              if t_pos (l_tok l') =? first then LOk (rev racc)
              else match mk_piece (l_buf l) first (t_pos (l_tok l')) with
                   | None => LCrash
                   | Some p => LOk (rev (p :: racc))
                   end
            else split_loop f l' first racc
        | LErr e => LErr e
        | LCrash => LCrash
        end
  end.

Definition split (buf : bytes) : lres (list piece) :=
  match split_loop (2 * length buf + 4) (init_lexer buf) 0 [] with
  | LOk [] => LOk [mkPiece 0 0 []]
  | r => r
  end.
