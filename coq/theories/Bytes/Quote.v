(* Bytes/Quote.v -- model of token/quote.go (QuoteSQLString / QuoteSQLBytes / QuoteSQLIdent).
   unicode.IsPrint is a parameter: every theorem holds for every such predicate.
   Tie: hand transcription + correspondence (harness quote-* commands, is_print table dumped from Go). *)
From Verif Require Import Base.Bytes Base.Utf8 Gen.Keywords Lex.Lexer.
Local Open Scope nat_scope.

Definition dq : byte := x22.   (* double quote *)
Definition sq : byte := x27.   (* single quote *)
Definition bq : byte := x60.   (* back quote *)
Definition bsl : byte := x5c.  (* backslash *)

Definition suitable_quote (b : bytes) : byte :=
  let has_single := existsb (beq sq) b in
  let has_double := existsb (beq dq) b in
  if negb has_single && has_double then sq else dq.

Definition hex_digit_N (d : N) : byte := if (d <? 10)%N then byte_of_N (48 + d) else byte_of_N (87 + d).

(* fmt %02x / %04x / %08x of a number below 16^digits *)
Fixpoint hex_fixed (digits : nat) (n : N) : bytes :=
  match digits with
  | O => []
  | S d => hex_fixed d (n / 16) ++ [hex_digit_N (n mod 16)]
  end.

(* quoteSingleEscape *)
Definition single_escape (r : N) (quote : byte) (is_string : bool) : option bytes :=
  if (r =? bN quote)%N then Some [bsl; quote]
  else if is_string && (r =? 10)%N then Some [bsl; x6e]
  else if is_string && (r =? 13)%N then Some [bsl; x72]
  else if is_string && (r =? 9)%N then Some [bsl; x74]
  else if (r =? 92)%N then Some [bsl; bsl]
  else None.

Definition quote_byte (quote : byte) (b : byte) : bytes :=
  match single_escape (bN b) quote false with
  | Some q => q
  | None => if is_print_ascii b then [b] else [bsl; x78] ++ hex_fixed 2 (bN b)
  end.

Definition quote_bytes (bs : bytes) : bytes :=
  let q := suitable_quote bs in [x62; q] ++ concat (map (quote_byte q) bs) ++ [q].

Section WithIsPrint.
  Variable is_print : N -> bool.     (* unicode.IsPrint *)

  Definition quote_rune (quote : byte) (r : N) : bytes :=
    match single_escape r quote true with
    | Some q => q
    | None =>
        if is_print r then encode_rune r
        else if (r <? 128)%N then [bsl; x78] ++ hex_fixed 2 r
        else if (65535 <? r)%N then [bsl; x55] ++ hex_fixed 8 r
        else [bsl; x75] ++ hex_fixed 4 r
    end.

  (* quoteSQLStringContent: iterate runes; a byte that is not valid UTF-8 is emitted as \xHH *)
  Fixpoint quote_content (fuel : nat) (quote : byte) (s : bytes) : bytes :=
    match fuel with
    | O => []
    | S f =>
        match s with
        | [] => []
        | b0 :: _ =>
            let '(r, size) := decode_rune s in
            if (r =? rune_error)%N && (size =? 1) then
              [bsl; x78] ++ hex_fixed 2 (bN b0) ++ quote_content f quote (skipn 1 s)
            else quote_rune quote r ++ quote_content f quote (skipn size s)
        end
    end.

  Definition quote_string (s : bytes) : bytes :=
    let q := suitable_quote s in [q] ++ quote_content (length s) q s ++ [q].

  (* SAFE_CAST and REPLACE_FIELDS are not reserved, but the parser never reads their bare spelling as an identifier *)
  Definition always_special (s : bytes) : bool := equal_fold s (bs "SAFE_CAST") || equal_fold s (bs "REPLACE_FIELDS").

  Definition need_quote_ident (s : bytes) : bool :=
    is_keyword s || always_special s ||
    match s with
    | c :: _ => negb (is_ident_start c) || negb (forallb is_ident_part s)
    | [] => true
    end.

  (* None: QuoteSQLIdent("") indexes s[0] and panics *)
  Definition quote_ident (s : bytes) : option bytes :=
    match s with
    | [] => None
    | _ => if need_quote_ident s then Some ([bq] ++ quote_content (length s) bq s ++ [bq]) else Some s
    end.
End WithIsPrint.
