(* Bytes/FileProofs.v -- theorems about the token.File model (property C20). *)
From Verif Require Import Base.Bytes Bytes.FileModel.
Local Open Scope nat_scope.

(* ---- an independent, "editor like" specification of line / column ---- *)

(* walk n bytes of t starting at absolute offset off; track the line number and the
   absolute offset at which the current line starts *)
Fixpoint scan (t : bytes) (off n line start : nat) : nat * nat :=
  match n with
  | O => (line, start)
  | S n' =>
      match t with
      | [] => (line, start)
      | c :: t' => if beq c nl then scan t' (S off) n' (S line) (S off)
                   else scan t' (S off) n' line start
      end
  end.

Definition spec_line (b : bytes) (pos : nat) : nat := fst (scan b 0 pos 0 0).
Definition spec_start (b : bytes) (pos : nat) : nat := snd (scan b 0 pos 0 0).

(* ---- the line table ---- *)

Fixpoint lines_rec (st : nat) (t : bytes) : list nat :=
  match t with
  | [] => [st + 1]
  | c :: t' => if beq c nl then (st + 1) :: lines_rec (st + 1) t' else lines_rec (st + 1) t'
  end.

Lemma split_nl_nonempty b : split_nl b <> [].
Proof. destruct b as [|c t]; simpl; [congruence|]. destruct (beq c nl); [congruence|]. destruct (split_nl t); congruence. Qed.

Lemma build_lines_rec : forall t st, build_lines st (split_nl t) = lines_rec st t.
Proof.
  induction t as [|c t IH]; intros st; simpl.
  - f_equal. lia.
  - destruct (beq c nl) eqn:E; simpl.
    + rewrite <- IH. f_equal; [lia|]. f_equal. lia.
    + rewrite <- IH. pose proof (split_nl_nonempty t) as NE.
      destruct (split_nl t) as [|l ls]; [congruence|]. simpl.
      replace (st + S (length l) + 1) with (st + 1 + length l + 1) by lia. reflexivity.
Qed.

Lemma file_lines_rec b : file_lines b = 0 :: lines_rec 0 b.
Proof. unfold file_lines. rewrite build_lines_rec. reflexivity. Qed.

Lemma lines_rec_lower : forall t st v, In v (lines_rec st t) -> st < v.
Proof.
  induction t as [|c t IH]; intros st v H; simpl in H.
  - destruct H as [H|[]]. lia.
  - destruct (beq c nl).
    + destruct H as [H|H]; [lia|]. apply IH in H. lia.
    + apply IH in H. lia.
Qed.

Lemma lines_rec_upper : forall t st v, In v (lines_rec st t) -> v <= st + length t + 1.
Proof.
  induction t as [|c t IH]; intros st v H; simpl in H.
  - destruct H as [H|[]]. simpl. lia.
  - simpl. destruct (beq c nl).
    + destruct H as [H|H]; [lia|]. apply IH in H. lia.
    + apply IH in H. lia.
Qed.

Lemma find_line_all_greater : forall ls idx pos best,
  (forall v, In v ls -> pos < v) -> find_line ls idx pos best = best.
Proof.
  induction ls as [|lp ls IH]; intros idx pos best H; simpl; auto.
  assert (pos < lp) by (apply H; left; reflexivity).
  destruct (lp <=? pos) eqn:E; [apply Nat.leb_le in E; lia|].
  apply IH. intros v Hv. apply H. right. exact Hv.
Qed.

Lemma find_line_scan : forall t st pos l s,
  st <= pos -> pos <= st + length t -> s <= st ->
  find_line (lines_rec st t) (S l) pos (Some (l, pos - s)) =
  Some (fst (scan t st (pos - st) l s), pos - snd (scan t st (pos - st) l s)).
Proof.
  induction t as [|c t IH]; intros st pos l s H1 H2 H3.
  - simpl in *. assert (pos = st) by lia. subst.
    replace (st - st) with 0 by lia. simpl.
    destruct (st + 1 <=? st) eqn:E; [apply Nat.leb_le in E; lia|]. reflexivity.
  - simpl in H2. destruct (Nat.eq_dec pos st) as [->|NE].
    + replace (st - st) with 0 by lia. cbn [scan fst snd].
      apply find_line_all_greater. intros v Hv.
      cbn [lines_rec] in Hv. destruct (beq c nl).
      * destruct Hv as [Hv|Hv]; [lia|]. apply lines_rec_lower in Hv. lia.
      * apply lines_rec_lower in Hv. lia.
    + assert (Hp : pos - st = S (pos - (st + 1))) by lia. rewrite Hp.
      cbn [lines_rec scan]. destruct (beq c nl) eqn:E.
      * cbn [find_line]. destruct (st + 1 <=? pos) eqn:E2; [|apply Nat.leb_gt in E2; lia].
        replace (S st) with (st + 1) by lia.
        apply (IH (st + 1) pos (S l) (st + 1)); lia.
      * replace (S st) with (st + 1) by lia. apply IH; lia.
Qed.

(* ---- C20 clause 1: ResolvePos = (number of newlines before pos, distance from line start) ---- *)

Theorem resolve_pos_spec (b : bytes) (pos : nat) :
  pos <= length b ->
  resolve_pos b (Z.of_nat pos) = (Z.of_nat (spec_line b pos), Z.of_nat (pos - spec_start b pos)).
Proof.
  intros Hp. unfold resolve_pos.
  destruct (Z.of_nat pos <? 0)%Z eqn:E; [apply Z.ltb_lt in E; lia|].
  rewrite Nat2Z.id, file_lines_rec. cbn [find_line]. cbn [Nat.leb].
  rewrite (find_line_scan b 0 pos 0 0) by lia.
  unfold spec_line, spec_start. rewrite Nat.sub_0_r. reflexivity.
Qed.

(* the specification really is "count of newline bytes before pos" ... *)
Lemma scan_line_count : forall t off n line start,
  fst (scan t off n line start) = line + count_byte nl (firstn n t).
Proof.
  unfold count_byte.
  induction t as [|c t IH]; intros off n line start; destruct n; simpl; try lia.
  rewrite (beq_sym_bool nl c).
  destruct (beq c nl); rewrite IH; simpl; lia.
Qed.

Theorem spec_line_count b pos : spec_line b pos = count_byte nl (firstn pos b).
Proof. unfold spec_line. rewrite scan_line_count. lia. Qed.

(* ... and the line start is the position just after the last newline before pos (or 0) *)
Lemma scan_start_spec : forall t off n line start,
  n <= length t -> start <= off ->
  let s := snd (scan t off n line start) in
  start <= s /\ s <= off + n /\
  (s = start \/ (off < s /\ nth_error t (s - off - 1) = Some nl)) /\
  (forall i, s <= i -> i < off + n -> off <= i -> nth_error t (i - off) <> Some nl).
Proof.
  induction t as [|c t IH]; intros off n line start Hn Hs; destruct n; cbn [scan snd].
  - repeat split; first [lia | left; reflexivity | intros; lia].
  - simpl in Hn. lia.
  - repeat split; first [lia | left; reflexivity | intros; lia].
  - simpl in Hn. destruct (beq c nl) eqn:E.
    + specialize (IH (S off) n (S line) (S off) ltac:(lia) ltac:(lia)). cbv zeta in IH.
      destruct IH as (A & B & C & D). set (s := snd (scan t (S off) n (S line) (S off))) in *.
      repeat split; try lia.
      * right. destruct C as [C|[C1 C2]].
        -- rewrite C. split; [lia|]. replace (S off - off - 1) with 0 by lia. simpl. apply beq_eq in E. congruence.
        -- split; [lia|]. replace (s - off - 1) with (S (s - S off - 1)) by lia. simpl. exact C2.
      * intros i H1 H2 H3. replace (i - off) with (S (i - S off)) by lia. simpl. apply D; lia.
    + specialize (IH (S off) n line start ltac:(lia) ltac:(lia)). cbv zeta in IH.
      destruct IH as (A & B & C & D). set (s := snd (scan t (S off) n line start)) in *.
      repeat split; try lia.
      * destruct C as [C|[C1 C2]]; [left; exact C|right].
        split; [lia|]. replace (s - off - 1) with (S (s - S off - 1)) by lia. simpl. exact C2.
      * intros i H1 H2 H3. destruct (Nat.eq_dec i off) as [->|NE].
        -- replace (off - off) with 0 by lia. simpl. intro X. inversion X; subst. rewrite beq_refl in E. discriminate.
        -- replace (i - off) with (S (i - S off)) by lia. simpl. apply D; lia.
Qed.

Theorem spec_start_spec b pos :
  pos <= length b ->
  let s := spec_start b pos in
  s <= pos /\ (s = 0 \/ nth_error b (s - 1) = Some nl) /\
  (forall i, s <= i -> i < pos -> nth_error b i <> Some nl).
Proof.
  intros Hp. pose proof (scan_start_spec b 0 pos 0 0 Hp (le_n 0)) as H. cbv zeta in H.
  unfold spec_start. destruct H as (A & B & C & D). cbv zeta. repeat split; try lia.
  - destruct C as [C|[C1 C2]]; [left; exact C|right]. rewrite Nat.sub_0_r in C2. exact C2.
  - intros i H1 H2. specialize (D i H1 ltac:(lia) ltac:(lia)). rewrite Nat.sub_0_r in D. exact D.
Qed.

(* ---- structure of the line table: strictly increasing, last entry = len + 1 ---- *)

Lemma lines_rec_length : forall t st, length (lines_rec st t) = count_byte nl t + 1.
Proof.
  induction t as [|c t IH]; intros st; simpl; auto.
  unfold count_byte in *. simpl. rewrite (beq_sym_bool nl c). destruct (beq c nl); simpl; rewrite IH; lia.
Qed.

Lemma lines_rec_sorted : forall t st k lo hi,
  nth_error (st :: lines_rec st t) k = Some lo ->
  nth_error (st :: lines_rec st t) (S k) = Some hi ->
  lo < hi /\ hi <= st + length t + 1.
Proof.
  induction t as [|c t IH]; intros st k lo hi H1 H2.
  - simpl in *. destruct k; simpl in *.
    + inversion H1; inversion H2; subst. lia.
    + destruct k; simpl in *; discriminate.
  - cbn [lines_rec] in *. destruct (beq c nl).
    + destruct k.
      * simpl in H1, H2. inversion H1; inversion H2; subst. simpl. lia.
      * change (nth_error ((st + 1) :: lines_rec (st + 1) t) k = Some lo) in H1.
        change (nth_error ((st + 1) :: lines_rec (st + 1) t) (S k) = Some hi) in H2.
        specialize (IH _ _ _ _ H1 H2). simpl. lia.
    + destruct k.
      * simpl in H1. injection H1 as <-.
        change (nth_error (lines_rec (st + 1) t) 0 = Some hi) in H2.
        assert (In hi (lines_rec (st + 1) t)) by (eapply nth_error_In; eauto).
        pose proof (lines_rec_lower _ _ _ H). pose proof (lines_rec_upper _ _ _ H). simpl. lia.
      * assert (H1' : nth_error ((st + 1) :: lines_rec (st + 1) t) (S k) = Some lo) by exact H1.
        assert (H2' : nth_error ((st + 1) :: lines_rec (st + 1) t) (S (S k)) = Some hi) by exact H2.
        specialize (IH _ _ _ _ H1' H2'). simpl. lia.
Qed.

(* the line found for an in-range position has a successor entry in the table *)
Lemma spec_line_bound b pos : pos <= length b -> spec_line b pos <= count_byte nl b.
Proof.
  intros H. rewrite spec_line_count. unfold count_byte.
  rewrite <- (firstn_skipn pos b) at 2. rewrite filter_app, app_length. lia.
Qed.

Lemma line_buffer_defined b l :
  l <= count_byte nl b -> exists lb, line_buffer b (file_lines b) l = Some lb.
Proof.
  intros Hl. unfold line_buffer. rewrite file_lines_rec.
  assert (Hlen : length (0 :: lines_rec 0 b) = count_byte nl b + 2) by (simpl; rewrite lines_rec_length; lia).
  destruct (nth_error (0 :: lines_rec 0 b) l) as [lo|] eqn:E1;
    [|apply nth_error_None in E1; lia].
  destruct (nth_error (0 :: lines_rec 0 b) (S l)) as [hi1|] eqn:E2;
    [|apply nth_error_None in E2; lia].
  destruct (lines_rec_sorted _ _ _ _ _ E1 E2) as [A B].
  destruct hi1 as [|hi]; [lia|].
  unfold slice. destruct (lo <=? hi) eqn:X; [|apply Nat.leb_gt in X; lia].
  destruct (hi <=? length b) eqn:Y; [|apply Nat.leb_gt in Y; lia].
  simpl. eauto.
Qed.

Lemma multi_lines_defined b : forall n l,
  l + n <= count_byte nl b + 1 -> exists s, multi_lines b (file_lines b) l n = Some s.
Proof.
  induction n as [|n IH]; intros l H; simpl; eauto.
  destruct (line_buffer_defined b l ltac:(lia)) as [lb ->].
  destruct (IH (S l) ltac:(lia)) as [s ->]. eauto.
Qed.

(* ---- C20 clause 2: Position never panics for 0 <= pos <= end <= len ---- *)

Theorem position_total (b : bytes) (pos end_ : nat) :
  pos <= end_ -> end_ <= length b -> position_of b (Z.of_nat pos) (Z.of_nat end_) <> None.
Proof.
  intros H1 H2. unfold position_of.
  rewrite (resolve_pos_spec b pos) by lia. rewrite (resolve_pos_spec b end_) by lia.
  assert (L1 := spec_line_bound b pos ltac:(lia)). assert (L2 := spec_line_bound b end_ H2).
  set (l1 := spec_line b pos) in *. set (l2 := spec_line b end_) in *.
  destruct ((Z.of_nat pos <? 0) || (Z.of_nat end_ <? 0))%Z; [discriminate|].
  destruct (Z.of_nat l1 =? Z.of_nat l2)%Z eqn:E.
  - destruct (Z.of_nat l1 <? 0)%Z eqn:N; [apply Z.ltb_lt in N; lia|].
    rewrite Nat2Z.id. destruct (line_buffer_defined b l1 L1) as [lb ->]. discriminate.
  - destruct (Z.of_nat l1 <? Z.of_nat l2)%Z eqn:Lt; [|discriminate].
    destruct (Z.of_nat l1 <? 0)%Z eqn:N; [apply Z.ltb_lt in N; lia|].
    rewrite Nat2Z.id. apply Z.ltb_lt in Lt.
    destruct (multi_lines_defined b (Z.to_nat (Z.of_nat l2 - Z.of_nat l1 + 1)) l1 ltac:(lia)) as [s ->].
    discriminate.
Qed.

(* ---- C20 clause 3: the excerpt quotes exactly the lines line..endLine ---- *)

(* text of line l, specified independently of the table: the l-th piece between newlines *)
Definition line_text (b : bytes) (l : nat) : bytes := nth l (split_nl b) [].

Lemma split_nl_cons c t :
  split_nl (c :: t) = if beq c nl then [] :: split_nl t
                      else (c :: hd [] (split_nl t)) :: tl (split_nl t).
Proof.
  simpl. destruct (beq c nl); auto. pose proof (split_nl_nonempty t). destruct (split_nl t); [congruence|reflexivity].
Qed.

(* generalised: table entries relative to an offset st, text t *)
Lemma line_slice : forall t st l lo hi,
  nth_error (st :: lines_rec st t) l = Some lo ->
  nth_error (st :: lines_rec st t) (S l) = Some hi ->
  firstn (hi - 1 - lo) (skipn (lo - st) t) = nth l (split_nl t) [].
Proof.
  induction t as [|c t IH]; intros st l lo hi H1 H2.
  - simpl in *. destruct l; simpl in *.
    + injection H1 as <-. injection H2 as <-. replace (st + 1 - 1 - st) with 0 by lia. reflexivity.
    + destruct l; simpl in *; discriminate.
  - rewrite split_nl_cons. cbn [lines_rec] in *. destruct (beq c nl) eqn:E.
    + destruct l.
      * simpl in H1, H2. injection H1 as <-. injection H2 as <-.
        replace (st + 1 - 1 - st) with 0 by lia. reflexivity.
      * assert (H1' : nth_error ((st + 1) :: lines_rec (st + 1) t) l = Some lo) by exact H1.
        assert (H2' : nth_error ((st + 1) :: lines_rec (st + 1) t) (S l) = Some hi) by exact H2.
        pose proof (IH _ _ _ _ H1' H2') as R.
        assert (st + 1 <= lo).
        { destruct l; simpl in H1'; [inversion H1'; lia|].
          apply nth_error_In in H1'. apply lines_rec_lower in H1'. lia. }
        replace (lo - st) with (S (lo - (st + 1))) by lia. simpl. exact R.
    + destruct l.
      * simpl in H1. injection H1 as <-.
        assert (H1' : nth_error ((st + 1) :: lines_rec (st + 1) t) 0 = Some (st + 1)) by reflexivity.
        assert (H2' : nth_error ((st + 1) :: lines_rec (st + 1) t) 1 = Some hi) by exact H2.
        pose proof (IH _ _ _ _ H1' H2') as R.
        destruct (lines_rec_sorted _ _ _ _ _ H1' H2') as [A _].
        replace (st - st) with 0 by lia. replace (st + 1 - (st + 1)) with 0 in R by lia.
        simpl skipn in *. replace (hi - 1 - st) with (S (hi - 1 - (st + 1))) by lia.
        simpl. rewrite R. destruct (split_nl t); reflexivity.
      * assert (H1' : nth_error ((st + 1) :: lines_rec (st + 1) t) (S l) = Some lo) by exact H1.
        assert (H2' : nth_error ((st + 1) :: lines_rec (st + 1) t) (S (S l)) = Some hi) by exact H2.
        pose proof (IH _ _ _ _ H1' H2') as R.
        assert (st + 1 < lo).
        { simpl in H1'. apply nth_error_In in H1'. apply lines_rec_lower in H1'. lia. }
        replace (lo - st) with (S (lo - (st + 1))) by lia. simpl skipn. rewrite R.
        simpl. destruct (split_nl t); [destruct l; reflexivity|reflexivity].
Qed.

Theorem line_buffer_is_line_text b l lb :
  line_buffer b (file_lines b) l = Some lb -> lb = line_text b l.
Proof.
  unfold line_buffer. rewrite file_lines_rec.
  destruct (nth_error (0 :: lines_rec 0 b) l) as [lo|] eqn:E1; [|discriminate].
  destruct (nth_error (0 :: lines_rec 0 b) (S l)) as [hi1|] eqn:E2; [|discriminate].
  destruct hi1 as [|hi]; [discriminate|].
  unfold slice. destruct ((lo <=? hi) && (hi <=? length b)); [|discriminate].
  intros X. inversion X; subst lb. unfold line_text.
  rewrite <- (line_slice b 0 l lo (S hi) E1 E2).
  replace (S hi - 1 - lo) with (hi - lo) by lia. rewrite Nat.sub_0_r. reflexivity.
Qed.

(* split_nl really is "split at newline bytes": joining gives the text back, no piece holds a newline *)
Fixpoint join_nl (ls : list bytes) : bytes :=
  match ls with
  | [] => []
  | [l] => l
  | l :: ls' => l ++ nl :: join_nl ls'
  end.

Theorem split_nl_join b : join_nl (split_nl b) = b.
Proof.
  induction b as [|c t IH]; simpl; auto.
  destruct (beq c nl) eqn:E.
  - apply beq_eq in E. subst c. pose proof (split_nl_nonempty t).
    destruct (split_nl t) eqn:S; [congruence|]. simpl in *. rewrite IH. reflexivity.
  - pose proof (split_nl_nonempty t).
    destruct (split_nl t) as [|l ls] eqn:S; [congruence|].
    destruct ls; simpl in *; rewrite <- IH; reflexivity.
Qed.

Theorem split_nl_no_nl b : Forall (fun l => ~ In nl l) (split_nl b).
Proof.
  induction b as [|c t IH]; simpl.
  - constructor; auto.
  - destruct (beq c nl) eqn:E.
    + constructor; auto.
    + pose proof (split_nl_nonempty t).
      destruct (split_nl t) as [|l ls]; [congruence|].
      inversion IH; subst. constructor; auto.
      intros [X|X]; [subst; rewrite beq_refl in E; discriminate|contradiction].
Qed.

(* single-line excerpt *)
Theorem excerpt_single_line (b : bytes) (pos end_ : nat) p :
  pos <= end_ -> end_ <= length b ->
  position_of b (Z.of_nat pos) (Z.of_nat end_) = Some p ->
  spec_line b pos = spec_line b end_ ->
  p_source p =
    fmt_line (spec_line b pos) (line_text b (spec_line b pos)) ++ [nl] ++
    [x20; x20; x20] ++ bar2 ++ repeat_byte x20 (pos - spec_start b pos) ++ [x5e] ++
    repeat_byte x7e ((end_ - spec_start b end_) - (pos - spec_start b pos) - 1).
Proof.
  intros H1 H2 HP HL. unfold position_of in HP.
  rewrite (resolve_pos_spec b pos) in HP by lia. rewrite (resolve_pos_spec b end_) in HP by lia.
  destruct ((Z.of_nat pos <? 0) || (Z.of_nat end_ <? 0))%Z eqn:NEG.
  { apply orb_true_iff in NEG as [N|N]; apply Z.ltb_lt in N; lia. }
  rewrite <- HL in HP. rewrite Z.eqb_refl in HP.
  destruct (Z.of_nat (spec_line b pos) <? 0)%Z eqn:N; [apply Z.ltb_lt in N; lia|].
  rewrite Nat2Z.id in HP.
  destruct (line_buffer b (file_lines b) (spec_line b pos)) as [lb|] eqn:LB; [|discriminate].
  apply line_buffer_is_line_text in LB. subst lb.
  inversion HP; subst p; cbn [p_source]. rewrite Nat2Z.id.
  replace (Z.to_nat (Z.of_nat (end_ - spec_start b end_) - Z.of_nat (pos - spec_start b pos) - 1))
    with (end_ - spec_start b end_ - (pos - spec_start b pos) - 1) by lia.
  reflexivity.
Qed.

(* multi-line excerpt: lines l .. l+n-1, each rendered "%3d|  text", separated by newlines
   (with the leading newline quirk of the implementation when the first line is not line 0) *)
Fixpoint spec_multi (b : bytes) (l n : nat) : bytes :=
  match n with
  | O => []
  | S n' => (if 0 <? l then [nl] else []) ++ fmt_line l (line_text b l) ++ spec_multi b (S l) n'
  end.

Lemma multi_lines_spec b : forall n l s,
  multi_lines b (file_lines b) l n = Some s -> s = spec_multi b l n.
Proof.
  induction n as [|n IH]; intros l s H; simpl in *.
  - inversion H; reflexivity.
  - destruct (line_buffer b (file_lines b) l) as [lb|] eqn:LB; [|discriminate].
    destruct (multi_lines b (file_lines b) (S l) n) as [r|] eqn:R; [|discriminate].
    inversion H; subst s. apply line_buffer_is_line_text in LB. subst lb.
    rewrite (IH _ _ R). reflexivity.
Qed.

Theorem excerpt_multi_line (b : bytes) (pos end_ : nat) p :
  pos <= end_ -> end_ <= length b ->
  position_of b (Z.of_nat pos) (Z.of_nat end_) = Some p ->
  spec_line b pos < spec_line b end_ ->
  p_source p = spec_multi b (spec_line b pos) (spec_line b end_ - spec_line b pos + 1).
Proof.
  intros H1 H2 HP HL. unfold position_of in HP.
  rewrite (resolve_pos_spec b pos) in HP by lia. rewrite (resolve_pos_spec b end_) in HP by lia.
  destruct ((Z.of_nat pos <? 0) || (Z.of_nat end_ <? 0))%Z eqn:NEG.
  { apply orb_true_iff in NEG as [N|N]; apply Z.ltb_lt in N; lia. }
  destruct (Z.of_nat (spec_line b pos) =? Z.of_nat (spec_line b end_))%Z eqn:E; [apply Z.eqb_eq in E; lia|].
  destruct (Z.of_nat (spec_line b pos) <? Z.of_nat (spec_line b end_))%Z eqn:Lt; [|apply Z.ltb_ge in Lt; lia].
  destruct (Z.of_nat (spec_line b pos) <? 0)%Z eqn:N; [apply Z.ltb_lt in N; lia|].
  rewrite Nat2Z.id in HP.
  destruct (multi_lines _ _ _ _) as [s|] eqn:M; [|discriminate].
  inversion HP; subst p; cbn [p_source]. apply multi_lines_spec in M. rewrite M.
  f_equal. lia.
Qed.

(* lines are monotone in the position: pos <= end -> line pos <= line end *)
Lemma spec_line_mono b p q : p <= q -> spec_line b p <= spec_line b q.
Proof.
  intros H. rewrite !spec_line_count. unfold count_byte.
  replace q with (p + (q - p)) by lia. rewrite firstn_plus. rewrite filter_app, app_length. lia.
Qed.

(* ---- C20 clause 4: the message prefix is file:line+1:col+1 of the error's Pos ---- *)
Theorem error_prefix (path msg b : bytes) (pos end_ : nat) p :
  pos <= end_ -> end_ <= length b ->
  position_of b (Z.of_nat pos) (Z.of_nat end_) = Some p ->
  error_string path p msg =
    bs "syntax error: " ++ path ++ [x3a] ++ dec_of_nat (spec_line b pos + 1) ++ [x3a] ++
    dec_of_nat (pos - spec_start b pos + 1) ++ [x3a; x20] ++ msg.
Proof.
  intros H1 H2 HP. unfold position_of in HP.
  rewrite (resolve_pos_spec b pos) in HP by lia. rewrite (resolve_pos_spec b end_) in HP by lia.
  assert (PL : p_line p = Z.of_nat (spec_line b pos) /\ p_col p = Z.of_nat (pos - spec_start b pos)).
  { repeat match type of HP with
           | (if ?c then _ else _) = _ => destruct c
           | match ?c with Some _ => _ | None => _ end = _ => destruct c
           end; try discriminate; inversion HP; subst p; cbn; auto. }
  destruct PL as [PL PC]. unfold error_string, position_string. rewrite PL, PC.
  unfold dec_of_Z.
  destruct (Z.of_nat (spec_line b pos) + 1 <? 0)%Z eqn:A; [apply Z.ltb_lt in A; lia|].
  destruct (Z.of_nat (pos - spec_start b pos) + 1 <? 0)%Z eqn:B; [apply Z.ltb_lt in B; lia|].
  replace (Z.to_nat (Z.of_nat (spec_line b pos) + 1)) with (spec_line b pos + 1) by lia.
  replace (Z.to_nat (Z.of_nat (pos - spec_start b pos) + 1)) with (pos - spec_start b pos + 1) by lia.
  repeat rewrite <- app_assoc. reflexivity.
Qed.

(* non-vacuity: a CR LF text with a multi-byte character, an interior position *)
Example resolve_example :
  resolve_pos (bs "a" ++ [xc3; xa9; x0d; x0a] ++ bs "bc" ++ [x0a]) 6%Z = (1%Z, 1%Z).
Proof. vm_compute. reflexivity. Qed.
