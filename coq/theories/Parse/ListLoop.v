(* Parse/ListLoop.v -- C11: the statement-list loop of parser.go (parseStatements, generic in the statement parser doParse) and the
   list entry points, over the token list; and its relation to parsing each ';'-separated piece on its own.
   Tie: Gen/ListLoop.v (the lexemes of these function bodies, regenerated from parser.go on every run) must equal
   [expected_bodies] below, the text this model transcribes (obligation list_loop_checked in GenChecks.v); the property itself is
   evaluated on the implementation by the oracle (ParseStatements vs SplitRawStatements + ParseStatement). *)
From Coq Require Import String.
From Verif Require Import Base.Bytes Tree.Tree Parse.ExprModel.
Local Open Scope nat_scope.

Definition expected_bodies : list (string * list string) := [
  ("parseStatements", ["{"; "var"; "nodes"; "["; "]"; "T"; "for"; "p"; "."; "Token"; "."; "Kind"; "!="; "token"; "."; "TokenEOF"; "{";
     "if"; "p"; "."; "Token"; "."; "Kind"; "=="; """;"""; "{"; "p"; "."; "nextTokenOrBad"; "("; ")"; "continue"; "}";
     "nodes"; "="; "append"; "("; "nodes"; ","; "doParse"; "("; ")"; ")";
     "if"; "p"; "."; "Token"; "."; "Kind"; "!="; """;"""; "{"; "break"; "}"; "}"; "return"; "nodes"; "}"]);
  ("ParseStatements", ["{"; "p"; "."; "nextTokenOrBad"; "("; ")"; "stmts"; ":="; "parseStatements"; "("; "p"; ","; "p"; "."; "parseStatement"; ")";
     "if"; "p"; "."; "Token"; "."; "Kind"; "!="; "token"; "."; "TokenEOF"; "{"; "p"; "."; "errors"; "="; "append"; "("; "p"; "."; "errors"; ",";
     "p"; "."; "errorfAtToken"; "("; "&"; "p"; "."; "Token"; ","; """expected token: <eof>, but: %s"""; ","; "p"; "."; "Token"; "."; "Kind"; ")"; ")"; "}";
     "if"; "len"; "("; "p"; "."; "errors"; ")"; ">"; "0"; "{"; "return"; "stmts"; ","; "MultiError"; "("; "p"; "."; "errors"; ")"; "}";
     "return"; "stmts"; ","; "nil"; "}"]);
  ("ParseDDLs", ["{"; "p"; "."; "nextTokenOrBad"; "("; ")"; "ddls"; ":="; "parseStatements"; "("; "p"; ","; "p"; "."; "parseDDL"; ")";
     "if"; "p"; "."; "Token"; "."; "Kind"; "!="; "token"; "."; "TokenEOF"; "{"; "p"; "."; "errors"; "="; "append"; "("; "p"; "."; "errors"; ",";
     "p"; "."; "errorfAtToken"; "("; "&"; "p"; "."; "Token"; ","; """expected token: <eof>, but: %s"""; ","; "p"; "."; "Token"; "."; "Kind"; ")"; ")"; "}";
     "if"; "len"; "("; "p"; "."; "errors"; ")"; ">"; "0"; "{"; "return"; "ddls"; ","; "MultiError"; "("; "p"; "."; "errors"; ")"; "}";
     "return"; "ddls"; ","; "nil"; "}"]);
  ("ParseDMLs", ["{"; "p"; "."; "nextTokenOrBad"; "("; ")"; "dmls"; ":="; "parseStatements"; "("; "p"; ","; "p"; "."; "parseDML"; ")";
     "if"; "p"; "."; "Token"; "."; "Kind"; "!="; "token"; "."; "TokenEOF"; "{"; "p"; "."; "errors"; "="; "append"; "("; "p"; "."; "errors"; ",";
     "p"; "."; "errorfAtToken"; "("; "&"; "p"; "."; "Token"; ","; """expected token: <eof>, but: %s"""; ","; "p"; "."; "Token"; "."; "Kind"; ")"; ")"; "}";
     "if"; "len"; "("; "p"; "."; "errors"; ")"; ">"; "0"; "{"; "return"; "dmls"; ","; "MultiError"; "("; "p"; "."; "errors"; ")"; "}";
     "return"; "dmls"; ","; "nil"; "}"]);
  ("ParseStatement", ["{"; "p"; "."; "nextTokenOrBad"; "("; ")"; "stmt"; ":="; "p"; "."; "parseStatement"; "("; ")";
     "if"; "p"; "."; "Token"; "."; "Kind"; "!="; "token"; "."; "TokenEOF"; "{"; "p"; "."; "errors"; "="; "append"; "("; "p"; "."; "errors"; ",";
     "p"; "."; "errorfAtToken"; "("; "&"; "p"; "."; "Token"; ","; """expected token: <eof>, but: %s"""; ","; "p"; "."; "Token"; "."; "Kind"; ")"; ")"; "}";
     "if"; "len"; "("; "p"; "."; "errors"; ")"; ">"; "0"; "{"; "return"; "stmt"; ","; "MultiError"; "("; "p"; "."; "errors"; ")"; "}";
     "return"; "stmt"; ","; "nil"; "}"]);
  ("ParseDDL", ["{"; "p"; "."; "nextTokenOrBad"; "("; ")"; "ddl"; ":="; "p"; "."; "parseDDL"; "("; ")";
     "if"; "p"; "."; "Token"; "."; "Kind"; "!="; "token"; "."; "TokenEOF"; "{"; "p"; "."; "errors"; "="; "append"; "("; "p"; "."; "errors"; ",";
     "p"; "."; "errorfAtToken"; "("; "&"; "p"; "."; "Token"; ","; """expected token: <eof>, but: %s"""; ","; "p"; "."; "Token"; "."; "Kind"; ")"; ")"; "}";
     "if"; "len"; "("; "p"; "."; "errors"; ")"; ">"; "0"; "{"; "return"; "ddl"; ","; "MultiError"; "("; "p"; "."; "errors"; ")"; "}";
     "return"; "ddl"; ","; "nil"; "}"]);
  ("ParseDML", ["{"; "p"; "."; "nextTokenOrBad"; "("; ")"; "dml"; ":="; "p"; "."; "parseDML"; "("; ")";
     "if"; "p"; "."; "Token"; "."; "Kind"; "!="; "token"; "."; "TokenEOF"; "{"; "p"; "."; "errors"; "="; "append"; "("; "p"; "."; "errors"; ",";
     "p"; "."; "errorfAtToken"; "("; "&"; "p"; "."; "Token"; ","; """expected token: <eof>, but: %s"""; ","; "p"; "."; "Token"; "."; "Kind"; ")"; ")"; "}";
     "if"; "len"; "("; "p"; "."; "errors"; ")"; ">"; "0"; "{"; "return"; "dml"; ","; "MultiError"; "("; "p"; "."; "errors"; ")"; "}";
     "return"; "dml"; ","; "nil"; "}"])
]%string.

Section ListLoop.
  Variable stmt : Type.
  (* doParse (parseStatement / parseDDL / parseDML with their recover wrappers): the node, the tokens left, the number of errors recorded *)
  Variable sp : toks -> stmt * toks * nat.

  (* parseStatements *)
  Fixpoint stmts (fuel : nat) (ts : toks) (racc : list stmt) (errs : nat) : list stmt * toks * nat :=
    match fuel with
    | O => (rev racc, ts, errs)
    | S f =>
        if kis (cur ts) K_eof then (rev racc, ts, errs)
        else if kis (cur ts) ";" then stmts f (next ts) racc errs
        else let '(s, ts1, e) := sp ts in
             if kis (cur ts1) ";" then stmts f ts1 (s :: racc) (errs + e)
             else (rev (s :: racc), ts1, errs + e)
    end.

  (* ParseStatements / ParseDDLs / ParseDMLs: the nodes and the number of errors (the returned error is nil iff it is 0) *)
  Definition parse_many (ts : toks) : list stmt * nat :=
    let '(ns, rest, errs) := stmts (2 * length ts + 2) ts [] 0 in
    (ns, errs + if kis (cur rest) K_eof then 0 else 1).

  (* ParseStatement / ParseDDL / ParseDML *)
  Definition parse_one (ts : toks) : stmt * nat :=
    let '(s, rest, e) := sp ts in (s, e + if kis (cur rest) K_eof then 0 else 1).
End ListLoop.

(* ---- the list loop against parsing each piece on its own ---- *)
Section Compose.
  Variable stmt : Type.
  Variable sp : toks -> stmt * toks * nat.

  Definition is_semi (t : ptok) : bool := kis t ";".
  Definition is_eof (t : ptok) : bool := kis t K_eof.
  Definition plain (t : ptok) : Prop := is_semi t = false /\ is_eof t = false.

  Definition term_headed (k : toks) : Prop :=
    match k with t :: _ => is_semi t = true \/ is_eof t = true | [] => False end.

  (* the statement parser on a piece p does not depend on what follows the terminator, and does not consume the terminator *)
  Definition local (p : toks) : Prop :=
    forall k1 k2, term_headed k1 -> term_headed k2 ->
      exists s e j, j <= length p /\ sp (p ++ k1) = (s, skipn j (p ++ k1), e) /\ sp (p ++ k2) = (s, skipn j (p ++ k2), e).

  (* the input: pieces each followed by a ';' token, a last piece, the <eof> token *)
  Definition flatten (segs : list (toks * ptok)) : toks := flat_map (fun ps => fst ps ++ [snd ps]) segs.
  Definition pieces (segs : list (toks * ptok)) (lastp : toks) : list toks := map fst segs ++ [lastp].
  Definition nonempty (ps : list toks) : list toks := filter (fun p => match p with [] => false | _ => true end) ps.

  Variable e : ptok.
  Hypothesis e_eof : is_eof e = true.

  Definition ok (p : toks) : Prop := snd (parse_one stmt sp (p ++ [e])) = 0.
  Definition res (p : toks) : stmt := fst (parse_one stmt sp (p ++ [e])).

  Lemma semi_not_eof t : is_semi t = true -> is_eof t = false.
  Proof. unfold is_semi, is_eof, kis. intros H. apply bytes_eqb_eq in H. rewrite H. reflexivity. Qed.
  Lemma eof_not_semi t : is_eof t = true -> is_semi t = false.
  Proof. unfold is_semi, is_eof, kis. intros H. apply bytes_eqb_eq in H. rewrite H. reflexivity. Qed.

  Lemma cur_skipn_in : forall (p : toks) k j, j < length p -> In (cur (skipn j (p ++ k))) p.
  Proof.
    induction p as [|t p IH]; intros k j L; [cbn in L; lia|]. destruct j as [|j]; [left; reflexivity|].
    right. cbn [app skipn]. apply IH. cbn in L. lia.
  Qed.

  Lemma skipn_all_app (p k : toks) : skipn (length p) (p ++ k) = k.
  Proof. rewrite skipn_app, skipn_all, Nat.sub_diag. reflexivity. Qed.

  (* what one stand-alone parse of a piece looks like, given locality *)
  Lemma piece_cases p : p <> [] -> Forall plain p -> local p -> forall k, term_headed k ->
    exists s e0 j, j <= length p /\ sp (p ++ k) = (s, skipn j (p ++ k), e0) /\ res p = s /\
      ((j = length p /\ (ok p <-> e0 = 0)) \/ (j < length p /\ ~ ok p)).
  Proof.
    intros NE PL LO k TK.
    assert (TE : term_headed [e]) by (right; exact e_eof).
    destruct (LO k [e] TK TE) as (s & e0 & j & LJ & S1 & S2). exists s, e0, j. split; [exact LJ|]. split; [exact S1|].
    unfold res, ok, parse_one. rewrite S2. cbn [fst snd]. split; [reflexivity|].
    destruct (Nat.eq_dec j (length p)) as [->|NJ].
    - left. split; [reflexivity|]. rewrite skipn_all_app. change (kis (cur [e]) K_eof) with (is_eof e). rewrite e_eof. lia.
    - right. split; [lia|]. pose proof (cur_skipn_in p [e] j ltac:(lia)) as IN.
      rewrite Forall_forall in PL. destruct (PL _ IN) as [_ NEo]. unfold is_eof in NEo. rewrite NEo. lia.
  Qed.

  Theorem list_loop_composes : forall segs lastp,
    Forall (fun ps => Forall plain (fst ps) /\ is_semi (snd ps) = true /\ (fst ps <> [] -> local (fst ps))) segs ->
    Forall plain lastp -> (lastp <> [] -> local lastp) ->
    forall fuel racc errs, 2 * length (flatten segs ++ lastp ++ [e]) + 1 <= fuel ->
    let '(ns, rest, er) := stmts stmt sp fuel (flatten segs ++ lastp ++ [e]) racc errs in
    let tot := er + (if is_eof (cur rest) then 0 else 1) in
    (tot = 0 <-> errs = 0 /\ Forall ok (nonempty (pieces segs lastp))) /\
    (tot = 0 -> ns = rev racc ++ map res (nonempty (pieces segs lastp))).
  Proof.
    induction segs as [|[p sc] r IH]; intros lastp HS HL LL fuel racc errs FU.
    - (* the last piece *)
      cbn [flatten flat_map app pieces map nonempty] in *. destruct fuel as [|f]; [lia|]. cbn [stmts].
      destruct lastp as [|t lp].
      + unfold nonempty. cbn [app cur filter map]. fold (is_eof e). cbv beta iota delta [cur]. fold (is_eof e). rewrite !e_eof. cbv iota. rewrite app_nil_r.
        split; [split; [intros; split; [lia|apply Forall_nil]|intros [? _]; lia]|reflexivity].
      + inversion HL as [|? ? PT PR]; subst. destruct PT as [PS PE].
        destruct (piece_cases (t :: lp) ltac:(discriminate) HL (LL ltac:(discriminate)) [e] ltac:(right; exact e_eof))
          as (s & e0 & j & LJ & SP & RS & [[-> OK] | [LT NOK]]).
        * change (kis (cur ((t :: lp) ++ [e])) K_eof) with (is_eof t). change (kis (cur ((t :: lp) ++ [e])) ";") with (is_semi t).
          rewrite PE, PS, SP. rewrite skipn_all_app. change (kis (cur [e]) ";") with (is_semi e).
          rewrite (eof_not_semi e e_eof). cbv beta iota zeta delta [cur]. rewrite e_eof. cbv iota. unfold nonempty. cbn [filter map]. rewrite RS. split.
          -- rewrite Nat.add_0_r. split; [intros H; split; [lia|constructor; [apply OK; lia|constructor]]|].
             intros [E0 F]. inversion F as [|? ? O _]; subst. apply OK in O. lia.
          -- intros _. cbn [rev]. reflexivity.
        * change (kis (cur ((t :: lp) ++ [e])) K_eof) with (is_eof t). change (kis (cur ((t :: lp) ++ [e])) ";") with (is_semi t).
          rewrite PE, PS, SP.
          pose proof (cur_skipn_in (t :: lp) [e] j LT) as IN. rewrite Forall_forall in HL. destruct (HL _ IN) as [NS NEo].
          change (kis (cur (skipn j ((t :: lp) ++ [e]))) ";") with (is_semi (cur (skipn j ((t :: lp) ++ [e])))). rewrite NS. cbv beta iota zeta. rewrite NEo.
          unfold nonempty. cbn [filter].
          split; [split; [lia|]|lia]. intros [_ F]. inversion F; subst. contradiction.
    - (* a piece followed by ';' *)
      inversion HS as [|? ? [PP [SC LP]] HR]; subst. cbn [fst snd] in *.
      cbn [flatten flat_map fst snd] in *. fold (flatten r) in *. rewrite <- !app_assoc in *. cbn [app] in *.
      set (tail := flatten r ++ lastp ++ [e]) in *.
      assert (TN : tail <> []) by (unfold tail; destruct (flatten r); [destruct lastp|]; discriminate).
      assert (LT : length (p ++ sc :: tail) = length p + S (length tail)) by (rewrite app_length; reflexivity).
      destruct fuel as [|f]; [lia|].
      destruct p as [|t lp].
      + (* an empty statement *)
        cbn [app stmts]. change (kis (cur (sc :: tail)) K_eof) with (is_eof sc). change (kis (cur (sc :: tail)) ";") with (is_semi sc). rewrite (semi_not_eof sc SC), SC.
        assert (NX : next (sc :: tail) = tail) by (destruct tail; [congruence|reflexivity]). rewrite NX.
        unfold pieces, nonempty. cbn [map fst filter app]. apply IH; auto. unfold tail in *. cbn [app length] in *. lia.
      + inversion PP as [|? ? PT PR]; subst. destruct PT as [PS PE].
        destruct (piece_cases (t :: lp) ltac:(discriminate) PP (LP ltac:(discriminate)) (sc :: tail) ltac:(left; exact SC))
          as (s & e0 & j & LJ & SP & RS & [[-> OK] | [LTj NOK]]).
        * cbn [stmts]. change (kis (cur ((t :: lp) ++ sc :: tail)) K_eof) with (is_eof t). change (kis (cur ((t :: lp) ++ sc :: tail)) ";") with (is_semi t).
          rewrite PE, PS, SP. rewrite skipn_all_app. change (kis (cur (sc :: tail)) ";") with (is_semi sc). rewrite SC.
          destruct f as [|f']; [rewrite LT in FU; cbn [length] in *; lia|]. cbn [stmts].
          change (kis (cur (sc :: tail)) K_eof) with (is_eof sc). change (kis (cur (sc :: tail)) ";") with (is_semi sc). rewrite (semi_not_eof sc SC), SC.
          assert (NX : next (sc :: tail) = tail) by (destruct tail; [congruence|reflexivity]). rewrite NX.
          specialize (IH lastp HR HL LL f' (s :: racc) (errs + e0) ltac:(rewrite LT in FU; unfold tail in *; cbn [length] in *; lia)). fold tail in IH.
          destruct (stmts stmt sp f' tail (s :: racc) (errs + e0)) as [[ns rest] er].
          unfold pieces, nonempty in *. cbn [map fst filter app]. rewrite RS. cbv beta iota zeta in IH. destruct IH as [A B]. split.
          -- rewrite A. split.
             ++ intros [E0 F]. split; [lia|]. constructor; [apply OK; lia|exact F].
             ++ intros [E0 F]. inversion F as [|? ? O F']; subst. apply OK in O. split; [lia|exact F'].
          -- intros T. rewrite (B T). cbn [rev map]. rewrite <- app_assoc. reflexivity.
        * cbn [stmts]. change (kis (cur ((t :: lp) ++ sc :: tail)) K_eof) with (is_eof t). change (kis (cur ((t :: lp) ++ sc :: tail)) ";") with (is_semi t).
          rewrite PE, PS, SP.
          pose proof (cur_skipn_in (t :: lp) (sc :: tail) j LTj) as IN. rewrite Forall_forall in PP. destruct (PP _ IN) as [NS NEo].
          change (kis (cur (skipn j ((t :: lp) ++ sc :: tail))) ";") with (is_semi (cur (skipn j ((t :: lp) ++ sc :: tail)))). rewrite NS. cbv beta iota zeta. rewrite NEo.
          unfold pieces, nonempty. cbn [map fst filter app].
          split; [split; [lia|]|lia]. intros [_ F]. inversion F; subst. contradiction.
  Qed.

  (* C11 at the level of the entry points *)
  Corollary parse_many_composes segs lastp :
    Forall (fun ps => Forall plain (fst ps) /\ is_semi (snd ps) = true /\ (fst ps <> [] -> local (fst ps))) segs ->
    Forall plain lastp -> (lastp <> [] -> local lastp) ->
    let '(ns, errs) := parse_many stmt sp (flatten segs ++ lastp ++ [e]) in
    (errs = 0 <-> Forall ok (nonempty (pieces segs lastp))) /\
    (errs = 0 -> ns = map res (nonempty (pieces segs lastp))).
  Proof.
    intros HS HL LL. unfold parse_many.
    pose proof (list_loop_composes segs lastp HS HL LL (2 * length (flatten segs ++ lastp ++ [e]) + 2) [] 0 ltac:(lia)) as T.
    destruct (stmts stmt sp _ _ [] 0) as [[ns rest] er]. cbn zeta in T. unfold is_eof in T. destruct T as [A B]. split.
    - rewrite A. split; [intros [_ F]; exact F|intros F; split; [reflexivity|exact F]].
    - intros H. apply B in H. exact H.
  Qed.
End Compose.
