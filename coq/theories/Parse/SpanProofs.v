(* Parse/SpanProofs.v -- span exactness and soundness of the fragment parser (C05, C06):
   whatever the parser returns, the node's [epos, eend) is exactly the extent of the tokens consumed for it (first token's
   start, last token's end), and every sub-node is well spanned: in range, non-empty, nested in its parent, siblings ordered. *)
From Verif Require Import Base.Bytes Tree.Tree Parse.ExprModel Parse.ExprFacts Parse.Span.
Local Open Scope Z_scope.

(* ---------- token lists as the lexer produces them (validated on every real token list by the correspondence) ---------- *)
Definition tok_ok (t : ptok) : Prop := 0 <= ppos t <= pend t.

Inductive chain : toks -> Prop :=
| ch_one t : tok_ok t -> chain [t]
| ch_cons t u r : tok_ok t -> ppos t < pend t -> pend t <= ppos u -> chain (u :: r) -> chain (t :: u :: r).

(* keyword / punctuation tokens have the length of their spelling; a parameter token is '@' + its name *)
Definition fixed_ok (t : ptok) : Prop :=
  (kis t "NULL" = true -> pend t = ppos t + 4) /\ (kis t "TRUE" = true -> pend t = ppos t + 4) /\
  (kis t "FALSE" = true -> pend t = ppos t + 5) /\ (kis t ")" = true -> pend t = ppos t + 1) /\
  (kis t "]" = true -> pend t = ppos t + 1) /\ (kis t K_param = true -> pend t = ppos t + 1 + blen (pstr t)).

Definition lexed (ts : toks) : Prop := chain ts /\ Forall fixed_ok ts.

Lemma chain_nonempty ts : chain ts -> ts <> [].
Proof. destruct 1; discriminate. Qed.

Lemma chain_tail t r : chain (t :: r) -> r <> [] -> chain r /\ tok_ok t /\ ppos t < pend t /\ pend t <= ppos (cur r).
Proof. intros H NE. inversion H; subst; [congruence|]. cbn [cur]. auto. Qed.

Lemma lexed_tail t r : lexed (t :: r) -> r <> [] -> lexed r /\ tok_ok t /\ ppos t < pend t /\ pend t <= ppos (cur r) /\ fixed_ok t.
Proof.
  intros [C F] NE. destruct (chain_tail t r C NE) as (C' & A & B & D). inversion F; subst.
  split; [split; assumption|]. split; [exact A|]. split; [exact B|]. split; [exact D|assumption].
Qed.

Lemma chain_cur_ok ts : chain ts -> tok_ok (cur ts).
Proof. destruct 1; cbn; auto. Qed.

(* consumed segments *)
Definition eof0 := eof_tok.
Definition lastt (c : toks) : ptok := last c eof0.

Lemma lastt_app a b : b <> [] -> lastt (a ++ b) = lastt b.
Proof.
  intros NE. destruct (exists_last NE) as (b' & z & ->). unfold lastt. rewrite app_assoc, !last_last. reflexivity.
Qed.

Lemma lastt_single t : lastt [t] = t.
Proof. reflexivity. Qed.

(* [Seg ts rest c]: c (non-empty) is what was consumed between ts and rest *)
Definition Seg (ts rest c : toks) : Prop := c <> [] /\ ts = c ++ rest /\ rest <> [].

Lemma Seg_one t r : r <> [] -> Seg (t :: r) r [t].
Proof. intros NE. repeat split; auto; discriminate. Qed.

Lemma Seg_trans ts r1 r2 c1 c2 : Seg ts r1 c1 -> Seg r1 r2 c2 -> Seg ts r2 (c1 ++ c2).
Proof.
  intros (N1 & E1 & R1) (N2 & E2 & R2). repeat split; auto.
  - destruct c1; [congruence|discriminate].
  - rewrite E1, E2, app_assoc. reflexivity.
Qed.

Lemma cur_app_ne c r : c <> [] -> cur (c ++ r) = cur c.
Proof. destruct c; [congruence|reflexivity]. Qed.

(* in a lexed list: everything consumed lies before the rest, in order *)
Lemma lexed_seg ts rest c : lexed ts -> Seg ts rest c ->
  lexed rest /\ ppos (cur c) < pend (lastt c) /\ pend (lastt c) <= ppos (cur rest) /\ 0 <= ppos (cur c) /\
  ppos (cur c) < pend (cur c) /\ pend (cur c) <= pend (lastt c).
Proof.
  intros L (N & E & R). subst ts. revert L. induction c as [|t c IH]; [congruence|]. intros L.
  destruct c as [|u c].
  - cbn [app] in L. destruct (lexed_tail t rest L R) as (L' & A & B & D & _). cbn [cur lastt last]. unfold tok_ok in A. split; [exact L'|]. repeat split; lia.
  - cbn [app] in L. assert (NE : (u :: c) ++ rest <> []) by discriminate.
    destruct (lexed_tail t _ L NE) as (L' & A & B & D & _).
    destruct (IH ltac:(discriminate) L') as (L2 & P1 & P2 & P3 & P4 & P5).
    split; [exact L2|]. unfold lastt in *. cbn [cur last app] in *. unfold tok_ok in A. repeat split; try lia.
Qed.

(* ---------- the end of the token list ---------- *)
Definition well_ended (ts : toks) : Prop :=
  exists body e, ts = body ++ [e] /\ kis e K_eof = true /\ Forall (fun t => kis t K_eof = false) body.

Definition input_ok (ts : toks) : Prop := lexed ts /\ well_ended ts.

Lemma kis_pk t k : kis t k = true -> pk t = bs k.
Proof. unfold kis. apply bytes_eqb_eq. Qed.

Lemma kis_other t k k' : kis t k = true -> bytes_eqb (bs k) (bs k') = false -> kis t k' = false.
Proof. intros H N. unfold kis. rewrite (kis_pk t k H). exact N. Qed.

Lemma well_ended_tail t r : well_ended (t :: r) -> kis t K_eof = false -> r <> [] /\ well_ended r.
Proof.
  intros (body & e & E & Ke & Fb) N. destruct body as [|b body].
  - cbn in E. inversion E; subst. congruence.
  - cbn in E. inversion E; subst. inversion Fb; subst. split.
    + destruct body; discriminate.
    + exists body, e. auto.
Qed.

(* consuming the current token, known to be of a kind other than <eof> *)
Lemma consume ts k : input_ok ts -> kis (cur ts) k = true -> bytes_eqb (bs k) (bs K_eof) = false ->
  exists t r, ts = t :: r /\ t = cur ts /\ r <> [] /\ next ts = r /\ input_ok r /\
              0 <= ppos t /\ ppos t < pend t /\ pend t <= ppos (cur r) /\ fixed_ok t.
Proof.
  intros [L W] K N. destruct ts as [|t r]; [exfalso; exact (chain_nonempty _ (proj1 L) eq_refl)|].
  cbn [cur] in K. pose proof (kis_other t k K_eof K N) as NE.
  destruct (well_ended_tail t r W NE) as [Rn Wr].
  destruct (lexed_tail t r L Rn) as (Lr & A & B & D & F).
  exists t, r. split; [reflexivity|]. split; [reflexivity|]. split; [exact Rn|]. split; [destruct r; [congruence|reflexivity]|].
  split; [split; [exact Lr|exact Wr]|]. unfold tok_ok in A. cbn [cur]. split; [lia|]. split; [lia|]. split; [exact D|exact F].
Qed.

Lemma consume2 ts k : input_ok ts -> kis (cur ts) k = true -> bytes_eqb (bs k) (bs K_eof) = false ->
  exists t r, ts = t :: r /\ r <> [] /\ next ts = r /\ input_ok r /\
              0 <= ppos t /\ ppos t < pend t /\ pend t <= ppos (cur r) /\ fixed_ok t /\ kis t k = true /\ cur ts = t.
Proof.
  intros I K N. destruct (consume ts k I K N) as (t & r & E & Et & Rn & Nx & Ir & P0 & P1 & P2 & F).
  exists t, r. rewrite <- Et in K. split; [exact E|]. split; [exact Rn|]. split; [exact Nx|]. split; [exact Ir|].
  split; [exact P0|]. split; [exact P1|]. split; [exact P2|]. split; [exact F|]. split; [exact K|symmetry; exact Et].
Qed.

Lemma find_op_kis t ops op : find_op t ops = Some op -> exists k, kis t k = true /\ In (k, k) ops \/ exists k k', kis t k = true /\ In (k, k') ops.
Proof.
  induction ops as [|[k o] r IH]; cbn [find_op]; [discriminate|].
  destruct (kis t k) eqn:E; [intros _; exists k; right; exists k, o; split; [exact E|left; reflexivity]|].
  intros H. destruct (IH H) as (k0 & [[A B]|(k1 & k2 & A & B)]); exists k0; [left; split; [exact A|right; exact B]|right; exists k1, k2; split; [exact A|right; exact B]].
Qed.

(* every operator kind of the fragment differs from <eof> *)
Lemma find_op_not_eof t ops op : find_op t ops = Some op ->
  Forall (fun '(k, _) => bytes_eqb (bs k) (bs K_eof) = false) ops -> kis t K_eof = false.
Proof.
  induction ops as [|[k o] r IH]; cbn [find_op]; [discriminate|]. intros H F. inversion F; subst.
  destruct (kis t k) eqn:E; [eapply kis_other; eauto|apply IH; auto].
Qed.

Lemma level_ops_not_eof l : Forall (fun '(k, _) => bytes_eqb (bs k) (bs K_eof) = false) (level_ops l).
Proof. destruct l; repeat constructor. Qed.
Lemma cmp_ops_not_eof : Forall (fun '(k, _) => bytes_eqb (bs k) (bs K_eof) = false) cmp_ops.
Proof. repeat constructor. Qed.

Lemma consume_any ts : input_ok ts -> kis (cur ts) K_eof = false ->
  exists t r, ts = t :: r /\ t = cur ts /\ r <> [] /\ next ts = r /\ input_ok r /\
              0 <= ppos t /\ ppos t < pend t /\ pend t <= ppos (cur r) /\ fixed_ok t.
Proof.
  intros [L W] NE. destruct ts as [|t r]; [exfalso; exact (chain_nonempty _ (proj1 L) eq_refl)|].
  cbn [cur] in NE. destruct (well_ended_tail t r W NE) as [Rn Wr].
  destruct (lexed_tail t r L Rn) as (Lr & A & B & D & F).
  exists t, r. split; [reflexivity|]. split; [reflexivity|]. split; [exact Rn|]. split; [destruct r; [congruence|reflexivity]|].
  split; [split; [exact Lr|exact Wr]|]. unfold tok_ok in A. cbn [cur]. split; [lia|]. split; [lia|]. split; [exact D|exact F].
Qed.

(* ---------- well-spanned trees: every node in range and non-empty, children nested and in source order ---------- *)
Inductive SP : expr -> Prop :=
| SP_bin op l r : SP l -> SP r -> eend l <= epos r -> SP (EBinary op l r)
| SP_un p op x : SP x -> 0 <= p -> p < epos x -> SP (EUnary p op x)
| SP_in neg l c : SP l -> SPC c -> eend l <= cond_pos c -> SP (EIn neg l c)
| SP_isnull p neg l : SP l -> eend l <= p -> SP (EIsNull p neg l)
| SP_isbool p neg l v : SP l -> eend l <= p -> SP (EIsBool p neg l v)
| SP_between neg l s x : SP l -> SP s -> SP x -> eend l <= epos s -> eend s <= epos x -> SP (EBetween neg l s x)
| SP_sel x i : SP x -> eend x <= id_pos i -> id_pos i < id_end i -> SP (ESelector x i)
| SP_idx rb x ix : SP x -> SPS ix -> eend x <= sub_pos ix -> sub_end ix <= rb -> SP (EIndex rb x ix)
| SP_paren lp rp x : SP x -> 0 <= lp -> lp < epos x -> eend x <= rp -> SP (EParen lp rp x)
| SP_tuple lp rp vs : 0 <= lp -> SPL (lp + 1) vs rp -> SP (ETuple lp rp vs)
| SP_param p n : 0 <= p -> SP (EParam p n)
| SP_ident i : 0 <= id_pos i -> id_pos i < id_end i -> SP (EIdent i)
| SP_path ids : ids <> [] -> IDL 0 ids -> SP (EPath ids)
| SP_null p : 0 <= p -> SP (ENull p)
| SP_bool p v : 0 <= p -> SP (EBool p v)
| SP_int a b base v : 0 <= a -> a < b -> SP (EInt a b base v)
| SP_float a b v : 0 <= a -> a < b -> SP (EFloat a b v)
| SP_string a b v : 0 <= a -> a < b -> SP (EString a b v)
| SP_bytes a b v : 0 <= a -> a < b -> SP (EBytes a b v)
with SPC : incond -> Prop :=
| SPC_values lp rp es : 0 <= lp -> SPL (lp + 1) es rp -> SPC (CValues lp rp es)
| SPC_unnest u rp x : 0 <= u -> SP x -> u < epos x -> eend x <= rp -> SPC (CUnnest u rp x)
with SPS : subscript -> Prop :=
| SPS_kw kp rp kw x : 0 <= kp -> SP x -> kp < epos x -> eend x <= rp -> SPS (SKeyword kp rp kw x)
| SPS_arg x : SP x -> SPS (SExprArg x)
(* a list of expressions between lo and hi, in order *)
with SPL : Z -> list expr -> Z -> Prop :=
| SPL_nil lo hi : lo <= hi -> SPL lo [] hi
| SPL_cons lo x r hi : SP x -> lo <= epos x -> SPL (eend x) r hi -> SPL lo (x :: r) hi
(* identifiers of a path, in order *)
with IDL : Z -> list ident -> Prop :=
| IDL_nil lo : IDL lo []
| IDL_cons lo i r : lo <= id_pos i -> id_pos i < id_end i -> IDL (id_end i) r -> IDL lo (i :: r).

Scheme SP_mut := Induction for SP Sort Prop
  with SPC_mut := Induction for SPC Sort Prop
  with SPS_mut := Induction for SPS Sort Prop
  with SPL_mut := Induction for SPL Sort Prop
  with IDL_mut := Induction for IDL Sort Prop.
Combined Scheme SP_mutind from SP_mut, SPC_mut, SPS_mut, SPL_mut, IDL_mut.

Lemma padd_nonneg p k : 0 <= p -> padd p k = p + k.
Proof. intros H. unfold padd. destruct (p <? 0) eqn:E; [apply Z.ltb_lt in E; lia|reflexivity]. Qed.

Definition dflt_ident := {| id_pos := 0; id_end := 0; id_name := [] |}.

Lemma IDL_last lo i r : IDL lo (i :: r) -> lo <= id_pos i /\ id_pos i < id_end (last (i :: r) dflt_ident).
Proof.
  revert lo i. induction r as [|j r IH]; intros lo i H; inversion H; subst; cbn [last].
  - lia.
  - destruct (IH _ _ H5) as [A B]. split; [lia|]. cbn [last] in B. destruct r; cbn [last] in *; lia.
Qed.

(* every well-spanned node is in range and non-empty *)
Lemma SP_range :
  (forall e, SP e -> 0 <= epos e /\ epos e < eend e) /\
  (forall c, SPC c -> 0 <= cond_pos c /\ cond_pos c < cond_end c) /\
  (forall s, SPS s -> 0 <= sub_pos s /\ sub_pos s < sub_end s) /\
  (forall lo l hi, SPL lo l hi -> lo <= hi) /\
  (forall lo ids, IDL lo ids -> True).
Proof.
  apply SP_mutind; intros; cbn [epos eend cond_pos cond_end sub_pos sub_end] in *; auto;
    repeat match goal with H : _ /\ _ |- _ => destruct H end;
    try (rewrite ?padd_nonneg by lia; try (destruct v); lia).
  - (* param *) unfold padd, blen. destruct (p <? 0) eqn:E; [apply Z.ltb_lt in E; lia|].
    destruct (p + 1 <? 0) eqn:E2; [apply Z.ltb_lt in E2; lia|]. lia.
  - (* path *) destruct ids as [|i1 r1]; [congruence|].
    match goal with H : IDL _ (i1 :: r1) |- _ => destruct (IDL_last _ _ _ H) as [A B] end. fold dflt_ident. lia.
Qed.

Lemma SP_pos e : SP e -> 0 <= epos e /\ epos e < eend e.
Proof. apply (proj1 SP_range). Qed.

(* ---------- what each parser function guarantees about its result ---------- *)
Definition Good (ts rest : toks) (e : expr) : Prop :=
  exists c, Seg ts rest c /\ input_ok rest /\ SP e /\ epos e = ppos (cur ts) /\ eend e = pend (lastt c).

Definition GoodL (acc : expr) (ts rest : toks) (e : expr) : Prop :=
  SP acc -> eend acc <= ppos (cur ts) ->
  input_ok rest /\ SP e /\ epos e = epos acc /\
  ((e = acc /\ rest = ts) \/ exists c, Seg ts rest c /\ eend e = pend (lastt c)).

Definition Spec (m : mode) (ts rest : toks) (e : expr) : Prop :=
  match m with
  | MLoop _ acc | MSelLoop acc => GoodL acc ts rest e
  | _ => Good ts rest e
  end.

Lemma Good_end ts rest e : input_ok ts -> Good ts rest e -> eend e <= ppos (cur rest) /\ 0 <= epos e /\ epos e < eend e.
Proof.
  intros [L _] (c & S & _ & Sp & Ep & Ee). destruct (lexed_seg ts rest c L S) as (_ & A & B & C & _).
  destruct (SP_pos e Sp). rewrite Ee. repeat split; lia.
Qed.

(* a non-loop result followed by a loop continuation *)
Lemma Good_then_loop ts r1 rest e1 e : input_ok ts -> Good ts r1 e1 -> GoodL e1 r1 rest e -> Good ts rest e.
Proof.
  intros I G1 GL. destruct (Good_end ts r1 e1 I G1) as (E1 & _). destruct G1 as (c1 & S1 & I1 & Sp1 & Ep1 & Ee1).
  destruct (GL Sp1 E1) as (I2 & Sp & Ep & [[-> ->]|(c2 & S2 & Ee2)]).
  - exists c1. split; [exact S1|]. split; [exact I2|]. split; [exact Sp|]. split; [exact Ep1|exact Ee1].
  - exists (c1 ++ c2). split; [eapply Seg_trans; eauto|]. split; [exact I2|]. split; [exact Sp|]. split; [congruence|].
    rewrite lastt_app by apply S2. exact Ee2.
Qed.

(* one token, then a non-loop result *)
Lemma tok_then_Good t r r1 e : Seg (t :: r) r [t] -> Good r r1 e -> exists c, Seg (t :: r) r1 c /\ lastt c = lastt c /\ pend (lastt c) = eend e /\ cur c = t.
Proof.
  intros S0 (c & S & _ & _ & _ & Ee). exists ([t] ++ c). split; [eapply Seg_trans; eauto|]. split; [reflexivity|].
  rewrite lastt_app by apply S. split; [congruence|reflexivity].
Qed.

Lemma bind_ok {A B} (x : res A) (f : A -> res B) r : bind x f = Ok r -> exists a, x = Ok a /\ f a = Ok r.
Proof. destruct x; cbn; try discriminate. eauto. Qed.

Ltac inv_bind H :=
  let a := fresh "a" in let E := fresh "E" in
  apply bind_ok in H; destruct H as (a & E & H); try (destruct a as [? ?]).

Lemma expect_ok k ts t r : expect k ts = Ok (t, r) -> kis (cur ts) k = true /\ t = cur ts /\ r = next ts.
Proof. unfold expect. destruct (kis (cur ts) k); [intros H; inversion H; auto|discriminate]. Qed.

Section Step.
  Variable rec : mode -> toks -> res (expr * toks).
  Hypothesis IH : forall m ts e rest, input_ok ts -> rec m ts = Ok (e, rest) -> Spec m ts rest e.

  (* MBin: sub-level operand, then the loop *)
  Lemma span_bin l ts e rest : input_ok ts -> step rec (MBin l) ts = Ok (e, rest) -> Good ts rest e.
  Proof.
    intros I H. cbn [step] in H. inv_bind H.
    assert (G1 : Good ts t e0) by (pose proof (IH _ _ _ _ I E) as S0; destruct l; exact S0).
    assert (I1 : input_ok t) by (destruct G1 as (? & ? & ? & _); assumption).
    pose proof (IH _ _ _ _ I1 H) as GL. cbn [Spec] in GL. eapply Good_then_loop; eauto.
  Qed.

  Lemma span_sel ts e rest : input_ok ts -> step rec MSel ts = Ok (e, rest) -> Good ts rest e.
  Proof.
    intros I H. cbn [step] in H. inv_bind H.
    pose proof (IH _ _ _ _ I E) as G1. cbn [Spec] in G1.
    assert (I1 : input_ok t) by (destruct G1 as (? & ? & ? & _); assumption).
    pose proof (IH _ _ _ _ I1 H) as GL. cbn [Spec] in GL. eapply Good_then_loop; eauto.
  Qed.

  (* the loop of a binary level *)
  Lemma span_loop l acc ts e rest : input_ok ts -> step rec (MLoop l acc) ts = Ok (e, rest) -> GoodL acc ts rest e.
  Proof.
    intros I H Sa Ea. cbn [step] in H. destruct (find_op (cur ts) (level_ops l)) as [op|] eqn:F.
    - inv_bind H.
      pose proof (find_op_not_eof _ _ _ F (level_ops_not_eof l)) as NE.
      destruct (consume_any ts I NE) as (t0 & r0 & Ets & Et0 & Rn & Nx & I0 & P0 & P1 & P2 & _).
      rewrite Nx in E.
      assert (G1 : Good r0 t e0) by (pose proof (IH _ _ _ _ I0 E) as S0; destruct l; exact S0).
      destruct (Good_end _ _ _ I0 G1) as (Ge & Gp & Gn).
      destruct G1 as (c1 & S1 & I1 & Sp1 & Ep1 & Ee1).
      assert (SPb : SP (EBinary op acc e0)) by (constructor; auto; rewrite Ep1; rewrite <- Et0 in *; lia).
      pose proof (IH _ _ _ _ I1 H) as GL. cbn [Spec] in GL. destruct (GL SPb Ge) as (I2 & Sp & Ep & Alt).
      split; [exact I2|]. split; [exact Sp|]. split; [exact Ep|]. right.
      assert (S01 : Seg ts t ([t0] ++ c1)) by (rewrite Ets; eapply Seg_trans; [apply Seg_one; exact Rn|exact S1]).
      destruct Alt as [[-> ->]|(c2 & S2 & Ee2)].
      + exists ([t0] ++ c1). split; [exact S01|]. cbn [eend]. rewrite lastt_app by apply S1. exact Ee1.
      + exists (([t0] ++ c1) ++ c2). split; [eapply Seg_trans; eauto|]. rewrite lastt_app by apply S2. exact Ee2.
    - inversion H; subst. split; [exact I|]. split; [exact Sa|]. split; [reflexivity|]. left. auto.
  Qed.
End Step.

Section Step2.
  Variable rec : mode -> toks -> res (expr * toks).
  Hypothesis IH : forall m ts e rest, input_ok ts -> rec m ts = Ok (e, rest) -> Spec m ts rest e.

  Ltac consume_tok I K Hne :=
    let t0 := fresh "t0" in let r0 := fresh "r0" in let Ets := fresh "Ets" in let Et0 := fresh "Et0" in
    let Rn := fresh "Rn" in let Nx := fresh "Nx" in let I0 := fresh "I0" in
    let P0 := fresh "P0" in let P1 := fresh "P1" in let P2 := fresh "P2" in let Fx := fresh "Fx" in
    destruct (consume _ _ I K Hne) as (t0 & r0 & Ets & Et0 & Rn & Nx & I0 & P0 & P1 & P2 & Fx).

  (* a prefix token followed by an operand: NOT e, - e *)
  Lemma prefix_Good ts t0 r0 x rest p op :
    input_ok ts -> ts = t0 :: r0 -> r0 <> [] -> input_ok r0 -> 0 <= ppos t0 -> ppos t0 < pend t0 -> pend t0 <= ppos (cur r0) ->
    Good r0 rest x -> p = ppos t0 -> Good ts rest (EUnary p op x).
  Proof.
    intros I Ets Rn I0 P0 P1 P2 G -> . destruct (Good_end _ _ _ I0 G) as (Ge & Gp & Gn).
    destruct G as (c1 & S1 & I1 & Sp1 & Ep1 & Ee1).
    exists ([t0] ++ c1). split; [rewrite Ets; eapply Seg_trans; [apply Seg_one; exact Rn|exact S1]|].
    split; [exact I1|]. split; [constructor; auto; lia|]. split; [rewrite Ets; reflexivity|].
    cbn [eend]. rewrite lastt_app by apply S1. exact Ee1.
  Qed.

  Lemma span_not ts e rest : input_ok ts -> step rec MNot ts = Ok (e, rest) -> Good ts rest e.
  Proof.
    intros I H. cbn [step] in H. destruct (kis (cur ts) "NOT") eqn:K.
    - inv_bind H. inversion H; subst. consume_tok I K (eq_refl false).
      rewrite Nx in E. pose proof (IH _ _ _ _ I0 E) as G. cbn [Spec] in G.
      eapply prefix_Good; eauto. rewrite Et0. reflexivity.
    - exact (IH _ _ _ _ I H).
  Qed.

  Lemma span_unary ts e rest : input_ok ts -> step rec MUnary ts = Ok (e, rest) -> Good ts rest e.
  Proof.
    intros I H. cbn [step] in H.
    set (t := cur ts) in *.
    destruct (if kis t "+" then Some (bs "+") else if kis t "-" then Some (bs "-") else if kis t "~" then Some (bs "~") else None) as [o|] eqn:Op.
    - assert (K : exists k, kis (cur ts) k = true /\ bytes_eqb (bs k) (bs K_eof) = false).
      { fold t. destruct (kis t "+") eqn:A; [exists "+"%string; auto|]. destruct (kis t "-") eqn:B; [exists "-"%string; auto|].
        destruct (kis t "~") eqn:C; [exists "~"%string; auto|discriminate]. }
      destruct K as (k & K & Kne). consume_tok I K Kne.
      inv_bind H. rewrite Nx in E. pose proof (IH _ _ _ _ I0 E) as G. cbn [Spec] in G.
      assert (GU : Good ts t1 (EUnary (ppos t) o e0)) by (eapply prefix_Good; eauto; rewrite Et0; reflexivity).
      (* the folded literal has the same extent as the unary expression would have *)
      destruct (if kis t "~" then None else match e0 with
                 | EInt _ vend base v => if first_byte_is_sign v then None else Some (EInt (ppos t) vend base (o ++ v)%list)
                 | EFloat _ vend v => if first_byte_is_sign v then None else Some (EFloat (ppos t) vend (o ++ v)%list)
                 | _ => None end) as [e'|] eqn:Fo; inversion H; subst; [|exact GU].
      destruct (kis t "~"); [discriminate|].
      destruct GU as (c & S & I1 & Sp & Ep & Ee). inversion Sp; subst.
      destruct e0; try discriminate; destruct (first_byte_is_sign v); try discriminate; inversion Fo; subst;
        exists c; (split; [exact S|]); (split; [exact I1|]); cbn [epos eend] in *;
        match goal with H : SP _ |- _ => inversion H; subst end;
        (split; [constructor; lia|]); auto.
    - exact (IH _ _ _ _ I H).
  Qed.
End Step2.

Section More.
  Variable pexpr : toks -> res (expr * toks).
  Hypothesis Hp : forall ts e rest, input_ok ts -> pexpr ts = Ok (e, rest) -> Good ts rest e.

  Lemma more_spec n : forall acc ts l rest, input_ok ts -> more pexpr n acc ts = Ok (l, rest) ->
    exists news, l = (acc ++ news)%list /\ input_ok rest /\
      (forall lo, lo <= ppos (cur ts) -> SPL lo news (ppos (cur rest))) /\
      ((news = [] /\ rest = ts) \/ exists c, Seg ts rest c).
  Proof.
    induction n as [|n IHn]; intros acc ts l rest I H; cbn [more] in H; [discriminate|].
    destruct (kis (cur ts) ",") eqn:K.
    - inv_bind H. destruct (consume _ _ I K (eq_refl false)) as (t0 & r0 & Ets & Et0 & Rn & Nx & I0 & P0 & P1 & P2 & _).
      rewrite Nx in E. pose proof (Hp _ _ _ I0 E) as G. destruct (Good_end _ _ _ I0 G) as (Ge & Gp & Gn).
      assert (I1 : input_ok t) by (destruct G as (? & ? & ? & _); assumption).
      destruct (IHn _ _ _ _ I1 H) as (news & El & I2 & Sl & Alt).
      exists (e :: news). split; [rewrite El, <- app_assoc; reflexivity|]. split; [exact I2|]. split.
      + intros lo Hlo. constructor.
        * destruct G as (? & ? & ? & Sp & _). exact Sp.
        * destruct G as (c1 & S1 & _ & _ & Ep & _). rewrite Ep. rewrite <- Et0 in *. lia.
        * apply Sl. exact Ge.
      + right. destruct G as (c1 & S1 & _). assert (S01 : Seg ts t ([t0] ++ c1)) by (rewrite Ets; eapply Seg_trans; [apply Seg_one; exact Rn|exact S1]).
        destruct Alt as [[_ ->]|(c2 & S2)]; [eauto|exists (([t0] ++ c1) ++ c2); eapply Seg_trans; eauto].
    - inversion H; subst. exists []. split; [rewrite app_nil_r; reflexivity|]. split; [exact I|]. split.
      + intros lo Hlo. constructor. exact Hlo.
      + left. auto.
  Qed.
End More.

Section Step3.
  Variable rec : mode -> toks -> res (expr * toks).
  Hypothesis IH : forall m ts e rest, input_ok ts -> rec m ts = Ok (e, rest) -> Spec m ts rest e.

  Lemma pexpr_good ts e rest : input_ok ts -> rec (MBin BOr) ts = Ok (e, rest) -> Good ts rest e.
  Proof. intros I H. exact (IH _ _ _ _ I H). Qed.

  (* a single-token primary *)
  Lemma one_tok_Good ts k e : input_ok ts -> kis (cur ts) k = true -> bytes_eqb (bs k) (bs K_eof) = false ->
    (forall t, t = cur ts -> 0 <= ppos t -> ppos t < pend t -> fixed_ok t -> SP e /\ epos e = ppos t /\ eend e = pend t) ->
    Good ts (next ts) e.
  Proof.
    intros I K Kne He. destruct (consume _ _ I K Kne) as (t0 & r0 & Ets & Et0 & Rn & Nx & I0 & P0 & P1 & P2 & Fx).
    destruct (He t0 Et0 P0 P1 Fx) as (Sp & Ep & Ee). rewrite Nx. exists [t0].
    split; [rewrite Ets; apply Seg_one; exact Rn|]. split; [exact I0|]. split; [exact Sp|]. split; [rewrite Ep, Et0; reflexivity|exact Ee].
  Qed.

  Lemma span_lit ts e rest : input_ok ts -> step rec MLit ts = Ok (e, rest) -> Good ts rest e.
  Proof.
    intros I H. cbn [step] in H. set (t := cur ts) in *.
    destruct (kis t "NULL") eqn:K1.
    { inversion H; subst. apply (one_tok_Good ts "NULL"); auto. intros t0 -> P0 P1 (F1 & _). unfold t in *. cbn [epos eend].
      rewrite padd_nonneg by lia. split; [constructor; lia|]. split; [reflexivity|]. rewrite (F1 K1). reflexivity. }
    destruct (kis t "TRUE") eqn:K2.
    { inversion H; subst. apply (one_tok_Good ts "TRUE"); auto. intros t0 -> P0 P1 (_ & F2 & _). unfold t in *. cbn [epos eend].
      rewrite padd_nonneg by lia. split; [constructor; lia|]. split; [reflexivity|]. rewrite (F2 K2). reflexivity. }
    destruct (kis t "FALSE") eqn:K3.
    { inversion H; subst. apply (one_tok_Good ts "FALSE"); auto. intros t0 -> P0 P1 (_ & _ & F3 & _). unfold t in *. cbn [epos eend].
      rewrite padd_nonneg by lia. split; [constructor; lia|]. split; [reflexivity|]. rewrite (F3 K3). reflexivity. }
    destruct (kis t K_int) eqn:K4.
    { inversion H; subst. apply (one_tok_Good ts K_int); auto. intros t0 -> P0 P1 _. unfold t in *. cbn [epos eend]. split; [constructor; lia|auto]. }
    destruct (kis t K_float) eqn:K5.
    { inversion H; subst. apply (one_tok_Good ts K_float); auto. intros t0 -> P0 P1 _. unfold t in *. cbn [epos eend]. split; [constructor; lia|auto]. }
    destruct (kis t K_string) eqn:K6.
    { inversion H; subst. apply (one_tok_Good ts K_string); auto. intros t0 -> P0 P1 _. unfold t in *. cbn [epos eend]. split; [constructor; lia|auto]. }
    destruct (kis t K_bytes) eqn:K7.
    { inversion H; subst. apply (one_tok_Good ts K_bytes); auto. intros t0 -> P0 P1 _. unfold t in *. cbn [epos eend]. split; [constructor; lia|auto]. }
    destruct (kis t K_param) eqn:K8.
    { inversion H; subst. apply (one_tok_Good ts K_param); auto. intros t0 -> P0 P1 (_ & _ & _ & _ & _ & F6). unfold t in *. cbn [epos eend].
      split; [constructor; lia|]. split; [reflexivity|]. rewrite (F6 K8). unfold padd.
      destruct (ppos (cur ts) <? 0) eqn:A; [apply Z.ltb_lt in A; lia|]. destruct (ppos (cur ts) + 1 <? 0) eqn:B; [apply Z.ltb_lt in B; lia|]. lia. }
    destruct (kis t "CASE" || kis t "IF" || kis t "CAST" || kis t "EXISTS" || kis t "EXTRACT" || kis t "WITH" || kis t "ARRAY"
              || kis t "STRUCT" || kis t "[" || kis t "NEW" || kis t "{"); [discriminate|].
    destruct (kis t "(") eqn:K9.
    { destruct (maybe_subquery ts); [discriminate|].
      destruct (consume _ _ I K9 (eq_refl false)) as (t0 & r0 & Ets & Et0 & Rn & Nx & I0 & P0 & P1 & P2 & _).
      rewrite Nx in H. inv_bind H. pose proof (pexpr_good _ _ _ I0 E) as G. destruct (Good_end _ _ _ I0 G) as (Ge & Gp & Gn).
      destruct G as (c1 & S1 & I1 & Sp1 & Ep1 & Ee1).
      assert (S01 : Seg ts t1 ([t0] ++ c1)) by (rewrite Ets; eapply Seg_trans; [apply Seg_one; exact Rn|exact S1]).
      destruct (kis (cur t1) ")") eqn:K10.
      - injection H as He Hr; subst e rest.
        destruct (consume _ _ I1 K10 (eq_refl false)) as (t2 & r2 & Ets2 & Et2 & Rn2 & Nx2 & I2 & Q0 & Q1 & Q2 & (_ & _ & _ & F4 & _)).
        rewrite Nx2. exists (([t0] ++ c1) ++ [t2]).
        split; [eapply Seg_trans; [exact S01|rewrite Ets2; apply Seg_one; exact Rn2]|]. split; [exact I2|].
        unfold t in *. rewrite Et2 in F4. specialize (F4 K10). rewrite <- ?Et0, <- ?Et2 in *.
        split; [constructor; auto; lia|]. split; [reflexivity|].
        cbn [eend]. rewrite padd_nonneg by lia. rewrite lastt_app by discriminate. cbn. rewrite F4. reflexivity.
      - destruct (kis (cur t1) ",") eqn:K11; cbn [negb] in H; [|discriminate].
        destruct (consume _ _ I1 K11 (eq_refl false)) as (t2 & r2 & Ets2 & Et2 & Rn2 & Nx2 & I2 & Q0 & Q1 & Q2 & _).
        rewrite Nx2 in H. inv_bind H. pose proof (pexpr_good _ _ _ I2 E0) as G2. destruct (Good_end _ _ _ I2 G2) as (Ge2 & Gp2 & Gn2).
        assert (I3 : input_ok t3) by (destruct G2 as (? & ? & ? & _); assumption).
        inv_bind H. destruct (more_spec _ pexpr_good _ _ _ _ _ I3 E1) as (news & El & I4 & Sl & Alt).
        inv_bind H. destruct (expect_ok _ _ _ _ E2) as (K12 & Ep & Er). injection H as He Hr; subst e rest. subst p t5.
        destruct (consume _ _ I4 K12 (eq_refl false)) as (t5 & r5 & Ets5 & Et5 & Rn5 & Nx5 & I5 & R0 & R1 & R2 & (_ & _ & _ & F4 & _)).
        rewrite Nx5.
        destruct G2 as (c2 & S2 & _ & Sp2 & Ep2 & Ee2).
        assert (S3 : exists c, Seg ts t4 c).
        { assert (S02 : Seg ts t3 (([t0] ++ c1) ++ ([t2] ++ c2))).
          { eapply Seg_trans; [exact S01|]. rewrite Ets2. eapply Seg_trans; [apply Seg_one; exact Rn2|exact S2]. }
          destruct Alt as [[_ ->]|(c3 & S3)]; [eauto|eexists; eapply Seg_trans; eauto]. }
        destruct S3 as (c & Sc).
        exists (c ++ [t5]). split; [eapply Seg_trans; [exact Sc|rewrite Ets5; apply Seg_one; exact Rn5]|]. split; [exact I5|].
        unfold t in *. rewrite Et5 in F4. specialize (F4 K12). rewrite <- ?Et0, <- ?Et2, <- ?Et5 in *.
        split.
        + constructor; [lia|]. constructor; [exact Sp1|lia|]. rewrite El. cbn [app].
          constructor; [exact Sp2|rewrite Ep2; lia|]. apply Sl. exact Ge2.
        + split; [reflexivity|]. cbn [eend]. rewrite padd_nonneg by lia. rewrite lastt_app by discriminate. cbn.
          rewrite F4. reflexivity. }
    destruct (kis t K_ident) eqn:K13; [|discriminate].
    destruct (is_kwlike t "SAFE_CAST" || is_kwlike t "REPLACE_FIELDS"); [discriminate|].
    destruct (lookahead_call (length ts) ts); [discriminate|].
    destruct (kis (cur (next ts)) K_string && _); [discriminate|].
    inversion H; subst. apply (one_tok_Good ts K_ident); auto. intros t0 -> P0 P1 _. unfold t in *. cbn [epos eend mk_ident id_pos id_end].
    split; [constructor; cbn; lia|auto].
  Qed.
End Step3.

Lemma IDL_snoc lo ids i : IDL lo ids -> ids <> [] -> id_end (last ids dflt_ident) <= id_pos i -> id_pos i < id_end i ->
  IDL lo (ids ++ [i]).
Proof.
  revert lo. induction ids as [|j r IH]; intros lo H NE L1 L2; [congruence|].
  inversion H; subst. cbn [app]. constructor; auto. destruct r as [|k r].
  - cbn [app]. cbn [last] in L1. constructor; [lia|exact L2|constructor].
  - apply IH; [assumption|discriminate|exact L1|exact L2].
Qed.

Section Step4.
  Variable rec : mode -> toks -> res (expr * toks).
  Hypothesis IH : forall m ts e rest, input_ok ts -> rec m ts = Ok (e, rest) -> Spec m ts rest e.

  (* acc extended by consumed tokens c into e', then the loop continues *)
  Lemma loop_extend acc ts r1 c e' rest e :
    Seg ts r1 c -> input_ok r1 -> SP e' -> epos e' = epos acc -> eend e' = pend (lastt c) -> eend e' <= ppos (cur r1) ->
    GoodL e' r1 rest e ->
    input_ok rest /\ SP e /\ epos e = epos acc /\ ((e = acc /\ rest = ts) \/ exists c0, Seg ts rest c0 /\ eend e = pend (lastt c0)).
  Proof.
    intros S I1 Sp Ep Ee Le GL. destruct (GL Sp Le) as (I2 & Sp2 & Ep2 & Alt).
    split; [exact I2|]. split; [exact Sp2|]. split; [congruence|]. right.
    destruct Alt as [[-> ->]|(c2 & S2 & Ee2)]; [exists c; auto|].
    exists (c ++ c2). split; [eapply Seg_trans; eauto|]. rewrite lastt_app by apply S2. exact Ee2.
  Qed.

  Lemma span_selloop acc ts e rest : input_ok ts -> step rec (MSelLoop acc) ts = Ok (e, rest) -> GoodL acc ts rest e.
  Proof.
    intros I H Sa Ea. cbn [step] in H. destruct (SP_pos acc Sa) as (Ap & An).
    destruct (kis (cur ts) ".") eqn:K1.
    - destruct (kis (cur (next ts)) "*").
      { inversion H; subst. split; [exact I|]. split; [exact Sa|]. split; [reflexivity|]. left; auto. }
      destruct (consume _ _ I K1 (eq_refl false)) as (t0 & r0 & Ets & Et0 & Rn & Nx & I0 & P0 & P1 & P2 & _).
      rewrite Nx in H. inv_bind H. unfold parse_ident in E. inv_bind E. inversion E; subst i t. clear E.
      destruct (expect_ok _ _ _ _ E0) as (K2 & Ep & Er). subst p t1.
      destruct (consume _ _ I0 K2 (eq_refl false)) as (t2 & r2 & Ets2 & Et2 & Rn2 & Nx2 & I2 & Q0 & Q1 & Q2 & _).
      rewrite Nx2 in *. rewrite <- Et2 in *.
      assert (S02 : Seg ts r2 ([t0] ++ [t2])).
      { rewrite Ets. eapply Seg_trans; [apply Seg_one; exact Rn|]. rewrite Ets2. apply Seg_one. exact Rn2. }
      pose proof (IH _ _ _ _ I2 H) as GL. cbn [Spec] in GL.
      set (e' := match acc with EIdent a => EPath [a; mk_ident t2] | EPath ids => EPath (ids ++ [mk_ident t2])%list | _ => ESelector acc (mk_ident t2) end) in *.
      apply (loop_extend acc ts r2 ([t0] ++ [t2]) e' rest e S02 I2); [| | | |exact GL]; subst e'.
      + (* SP of the extended expression *)
        assert (Ea' : eend acc <= ppos t0) by (rewrite Et0; exact Ea).
        destruct acc; cbv iota beta;
          try (apply SP_sel; [exact Sa|cbn [mk_ident id_pos id_end]; lia|cbn [mk_ident id_pos id_end]; lia]).
        * inversion Sa; subst. constructor; [discriminate|]. cbn [epos eend] in *.
          constructor; [lia|lia|]. constructor; cbn [mk_ident id_pos id_end]; [lia|lia|constructor].
        * inversion Sa; subst. constructor; [destruct ids; discriminate|]. apply IDL_snoc; auto; cbn [mk_ident id_pos id_end]; try lia.
          cbn [eend] in Ea'. destruct ids; [congruence|]. fold dflt_ident in Ea'. lia.
      + destruct acc; cbn [epos]; try reflexivity. destruct ids as [|j r]; [inversion Sa; congruence|reflexivity].
      + destruct acc; cbn [eend mk_ident id_end]; try reflexivity.
        destruct (ids ++ [mk_ident t2])%list eqn:Ei; [destruct ids; discriminate|]. rewrite <- Ei. rewrite last_last. reflexivity.
      + assert (Ee : forall x, x = pend t2 -> x <= ppos (cur r2)) by (intros; lia).
        apply Ee. destruct acc; cbn [eend mk_ident id_end]; try reflexivity.
        destruct (ids ++ [mk_ident t2])%list eqn:Ei; [destruct ids; discriminate|]. rewrite <- Ei. rewrite last_last. reflexivity.
    - destruct (kis (cur ts) "[") eqn:K2.
      + destruct (consume _ _ I K2 (eq_refl false)) as (t0 & r0 & Ets & Et0 & Rn & Nx & I0 & P0 & P1 & P2 & _).
        rewrite Nx in H.
        assert (Ea' : eend acc <= ppos t0) by (rewrite Et0; exact Ea).
        set (kw := if is_ident_ci (cur r0) "OFFSET" then Some (bs "OFFSET")
                   else if is_ident_ci (cur r0) "ORDINAL" then Some (bs "ORDINAL")
                   else if is_ident_ci (cur r0) "SAFE_OFFSET" then Some (bs "SAFE_OFFSET")
                   else if is_ident_ci (cur r0) "SAFE_ORDINAL" then Some (bs "SAFE_ORDINAL") else None) in H.
        apply bind_ok in H. destruct H as ([ix ts2] & Eix & H).
        apply bind_ok in H. destruct H as ([rb ts3] & Erb & H).
        (* the subscript is a well-spanned item starting at the first token after '[' *)
        assert (Sub : exists c, Seg r0 ts2 c /\ input_ok ts2 /\ SPS ix /\ sub_pos ix = ppos (cur r0) /\ sub_end ix = pend (lastt c)).
        { destruct kw as [k|] eqn:Kw.
          - assert (Kid : kis (cur r0) K_ident = true).
            { unfold kw, is_ident_ci in Kw. destruct (kis (cur r0) K_ident); [reflexivity|]. cbn [andb] in Kw. discriminate. }
            destruct (consume2 _ _ I0 Kid (eq_refl false)) as (t1 & r1 & Ets1 & Rn1 & Nx1 & I1 & Q0 & Q1 & Q2 & _ & _ & C1).
            rewrite Nx1 in Eix. apply bind_ok in Eix. destruct Eix as ([lpt ts4] & Elp & Eix).
            destruct (expect_ok _ _ _ _ Elp) as (Klp & _ & ->).
            destruct (consume2 _ _ I1 Klp (eq_refl false)) as (t4 & r4 & Ets4 & Rn4 & Nx4 & I4 & R0 & R1 & R2 & _ & _ & C4).
            rewrite Nx4 in Eix. apply bind_ok in Eix. destruct Eix as ([e1 ts5] & Ee1 & Eix).
            pose proof (pexpr_good rec IH _ _ _ I4 Ee1) as G. destruct (Good_end _ _ _ I4 G) as (Ge & Gp & Gn).
            destruct G as (c1 & S1 & I5 & Sp1 & Ep1 & Eend1).
            apply bind_ok in Eix. destruct Eix as ([rpt ts6] & Erp & Eix).
            destruct (expect_ok _ _ _ _ Erp) as (Krp & -> & ->).
            destruct (consume2 _ _ I5 Krp (eq_refl false)) as (t6 & r6 & Ets6 & Rn6 & Nx6 & I6 & U0 & U1 & U2 & (_ & _ & _ & F4 & _) & K6 & C6).
            injection Eix as <- <-. rewrite Nx6. rewrite C1, C6 in *.
            exists ((([t1] ++ [t4]) ++ c1) ++ [t6]). split.
            { rewrite Ets1. eapply Seg_trans; [eapply Seg_trans; [eapply Seg_trans; [apply Seg_one; exact Rn1|rewrite Ets4; apply Seg_one; exact Rn4]|exact S1]|].
              rewrite Ets6. apply Seg_one. exact Rn6. }
            split; [exact I6|]. rewrite C4 in *.
            split; [constructor; auto; lia|]. split; [reflexivity|].
            cbn [sub_end]. rewrite padd_nonneg by lia. rewrite lastt_app by discriminate. cbn. rewrite (F4 K6). reflexivity.
          - apply bind_ok in Eix. destruct Eix as ([e1 ts5] & Ee1 & Eix). injection Eix as <- <-.
            pose proof (pexpr_good rec IH _ _ _ I0 Ee1) as G. destruct G as (c1 & S1 & I5 & Sp1 & Ep1 & Eend1).
            exists c1. split; [exact S1|]. split; [exact I5|]. split; [constructor; exact Sp1|]. split; [exact Ep1|exact Eend1]. }
        destruct Sub as (c & Sc & Ic & Sps & Spos & Send).
        destruct (expect_ok _ _ _ _ Erb) as (Krb & -> & ->).
        destruct (consume2 _ _ Ic Krb (eq_refl false)) as (t7 & r7 & Ets7 & Rn7 & Nx7 & I7 & V0 & V1 & V2 & (_ & _ & _ & _ & F5 & _) & K7 & C7).
        rewrite Nx7 in H. pose proof (IH _ _ _ _ I7 H) as GL. cbn [Spec] in GL.
        destruct (lexed_seg _ _ _ (proj1 I0) Sc) as (_ & L1 & L2 & L3 & _).
        assert (S07 : Seg ts r7 (([t0] ++ c) ++ [t7])).
        { rewrite Ets. eapply Seg_trans; [eapply Seg_trans; [apply Seg_one; exact Rn|exact Sc]|]. rewrite Ets7. apply Seg_one. exact Rn7. }
        rewrite C7 in *.
        apply (loop_extend acc ts r7 (([t0] ++ c) ++ [t7]) (EIndex (ppos t7) acc ix) rest e S07 I7); [| | | |exact GL].
        * constructor; auto; [rewrite Spos; lia|rewrite Send; lia].
        * reflexivity.
        * cbn [eend]. rewrite padd_nonneg by lia. rewrite lastt_app by discriminate. cbn. rewrite (F5 K7). reflexivity.
        * cbn [eend]. rewrite padd_nonneg by lia. rewrite (F5 K7) in V2. lia.
      + inversion H; subst. split; [exact I|]. split; [exact Sa|]. split; [reflexivity|]. left; auto.
  Qed.
End Step4.

Section Step5.
  Variable rec : mode -> toks -> res (expr * toks).
  Hypothesis IH : forall m ts e rest, input_ok ts -> rec m ts = Ok (e, rest) -> Spec m ts rest e.

  Lemma bitor_good ts e rest : input_ok ts -> rec (MBin BBitOr) ts = Ok (e, rest) -> Good ts rest e.
  Proof. intros I H. exact (IH _ _ _ _ I H). Qed.

  (* the left operand, then more consumed tokens c2 making up e *)
  Lemma extend_Good ts ts1 l c2 rest e : input_ok ts -> Good ts ts1 l -> Seg ts1 rest c2 -> input_ok rest ->
    SP e -> epos e = epos l -> eend e = pend (lastt c2) -> Good ts rest e.
  Proof.
    intros I (c1 & S1 & I1 & Sp1 & Ep1 & Ee1) S2 I2 Sp Ep Ee.
    exists (c1 ++ c2). split; [eapply Seg_trans; eauto|]. split; [exact I2|]. split; [exact Sp|]. split; [congruence|].
    rewrite lastt_app by apply S2. exact Ee.
  Qed.

  (* parseInCondition, entered on the token after IN *)
  Lemma incond_spec neg l ts2 e rest : input_ok ts2 ->
    (if maybe_subquery ts2 then Unsup
     else if kis (cur ts2) "(" then
       do (e1, ts3) <- rec (MBin BOr) (next ts2); do (es, ts4) <- more (rec (MBin BOr)) (length ts3) [e1] ts3;
       do (rp, ts5) <- expect ")" ts4; Ok (EIn neg l (CValues (ppos (cur ts2)) (ppos rp) es), ts5)
     else if kis (cur ts2) "UNNEST" then
       do (_, ts3) <- expect "(" (next ts2); do (e1, ts4) <- rec (MBin BOr) ts3; do (rp, ts5) <- expect ")" ts4;
       Ok (EIn neg l (CUnnest (ppos (cur ts2)) (ppos rp) e1), ts5)
     else Err (ppos (cur ts2))) = Ok (e, rest) ->
    exists cnd c, e = EIn neg l cnd /\ Seg ts2 rest c /\ input_ok rest /\ SPC cnd /\ cond_pos cnd = ppos (cur ts2) /\ cond_end cnd = pend (lastt c).
  Proof.
    intros I2 H. destruct (maybe_subquery ts2); [discriminate|].
    destruct (kis (cur ts2) "(") eqn:K1.
    - destruct (consume2 _ _ I2 K1 (eq_refl false)) as (t0 & r0 & Ets & Rn & Nx & I0 & P0 & P1 & P2 & _ & _ & C0).
      rewrite Nx in H. apply bind_ok in H. destruct H as ([e1 ts3] & E1 & H).
      pose proof (pexpr_good rec IH _ _ _ I0 E1) as G. destruct (Good_end _ _ _ I0 G) as (Ge & Gp & Gn).
      destruct G as (c1 & S1 & I3 & Sp1 & Ep1 & Ee1).
      apply bind_ok in H. destruct H as ([es ts4] & E2 & H).
      destruct (more_spec _ (pexpr_good rec IH) _ _ _ _ _ I3 E2) as (news & El & I4 & Sl & Alt).
      apply bind_ok in H. destruct H as ([rp ts5] & E3 & H).
      destruct (expect_ok _ _ _ _ E3) as (K3 & -> & ->).
      destruct (consume2 _ _ I4 K3 (eq_refl false)) as (t5 & r5 & Ets5 & Rn5 & Nx5 & I5 & R0 & R1 & R2 & (_ & _ & _ & F4 & _) & K5 & C5).
      injection H as <- <-. rewrite Nx5. rewrite C0, C5 in *.
      assert (S3 : exists c, Seg ts2 ts4 c).
      { assert (S01 : Seg ts2 ts3 ([t0] ++ c1)) by (rewrite Ets; eapply Seg_trans; [apply Seg_one; exact Rn|exact S1]).
        destruct Alt as [[_ ->]|(c3 & S3)]; [eauto|eexists; eapply Seg_trans; eauto]. }
      destruct S3 as (c & Sc).
      eexists _, (c ++ [t5]). split; [reflexivity|]. split; [eapply Seg_trans; [exact Sc|rewrite Ets5; apply Seg_one; exact Rn5]|].
      split; [exact I5|]. split.
      + constructor; [lia|]. rewrite El. cbn [app]. constructor; [exact Sp1|lia|]. apply Sl. exact Ge.
      + split; [reflexivity|]. cbn [cond_end]. rewrite padd_nonneg by lia. rewrite lastt_app by discriminate. cbn. rewrite (F4 K5). reflexivity.
    - destruct (kis (cur ts2) "UNNEST") eqn:K2; [|discriminate].
      destruct (consume2 _ _ I2 K2 (eq_refl false)) as (t0 & r0 & Ets & Rn & Nx & I0 & P0 & P1 & P2 & _ & _ & C0).
      rewrite Nx in H. apply bind_ok in H. destruct H as ([lpt ts3] & E0 & H).
      destruct (expect_ok _ _ _ _ E0) as (Klp & _ & ->).
      destruct (consume2 _ _ I0 Klp (eq_refl false)) as (t1 & r1 & Ets1 & Rn1 & Nx1 & I1 & Q0 & Q1 & Q2 & _ & _ & C1).
      rewrite Nx1 in H. apply bind_ok in H. destruct H as ([e1 ts4] & E1 & H).
      pose proof (pexpr_good rec IH _ _ _ I1 E1) as G. destruct (Good_end _ _ _ I1 G) as (Ge & Gp & Gn).
      destruct G as (c1 & S1 & I4 & Sp1 & Ep1 & Ee1).
      apply bind_ok in H. destruct H as ([rp ts5] & E3 & H).
      destruct (expect_ok _ _ _ _ E3) as (K3 & -> & ->).
      destruct (consume2 _ _ I4 K3 (eq_refl false)) as (t5 & r5 & Ets5 & Rn5 & Nx5 & I5 & R0 & R1 & R2 & (_ & _ & _ & F4 & _) & K5 & C5).
      injection H as <- <-. rewrite Nx5. rewrite C0, C1, C5 in *.
      eexists _, ((([t0] ++ [t1]) ++ c1) ++ [t5]). split; [reflexivity|]. split.
      { rewrite Ets. eapply Seg_trans; [eapply Seg_trans; [eapply Seg_trans; [apply Seg_one; exact Rn|rewrite Ets1; apply Seg_one; exact Rn1]|exact S1]|].
        rewrite Ets5. apply Seg_one. exact Rn5. }
      split; [exact I5|]. split; [constructor; auto; lia|]. split; [reflexivity|].
      cbn [cond_end]. rewrite padd_nonneg by lia. rewrite lastt_app by discriminate. cbn. rewrite (F4 K5). reflexivity.
  Qed.
End Step5.

Section Step6.
  Variable rec : mode -> toks -> res (expr * toks).
  Hypothesis IH : forall m ts e rest, input_ok ts -> rec m ts = Ok (e, rest) -> Spec m ts rest e.

  (* after BETWEEN *)
  Lemma between_spec neg l ts2 e rest : input_ok ts2 ->
    (do (s, ts3) <- rec (MBin BBitOr) ts2; do (_, ts4) <- expect "AND" ts3; do (e2, ts5) <- rec (MBin BBitOr) ts4;
     Ok (EBetween neg l s e2, ts5)) = Ok (e, rest) ->
    exists s e2 c, e = EBetween neg l s e2 /\ Seg ts2 rest c /\ input_ok rest /\ SP s /\ SP e2 /\
                   epos s = ppos (cur ts2) /\ eend s <= epos e2 /\ eend e2 = pend (lastt c).
  Proof.
    intros I2 H. apply bind_ok in H. destruct H as ([s ts3] & E1 & H).
    pose proof (bitor_good rec IH _ _ _ I2 E1) as G1. destruct (Good_end _ _ _ I2 G1) as (Ge1 & _ & _).
    destruct G1 as (c1 & S1 & I3 & Sp1 & Ep1 & Ee1).
    apply bind_ok in H. destruct H as ([at_ ts4] & E2 & H). destruct (expect_ok _ _ _ _ E2) as (K & _ & ->).
    destruct (consume2 _ _ I3 K (eq_refl false)) as (t0 & r0 & Ets & Rn & Nx & I0 & P0 & P1 & P2 & _ & _ & C0).
    rewrite Nx in H. apply bind_ok in H. destruct H as ([e2 ts5] & E3 & H). injection H as <- <-.
    pose proof (bitor_good rec IH _ _ _ I0 E3) as G2. destruct G2 as (c2 & S2 & I5 & Sp2 & Ep2 & Ee2).
    exists s, e2, ((c1 ++ [t0]) ++ c2). split; [reflexivity|]. split.
    { eapply Seg_trans; [eapply Seg_trans; [exact S1|rewrite Ets; apply Seg_one; exact Rn]|exact S2]. }
    split; [exact I5|]. split; [exact Sp1|]. split; [exact Sp2|]. split; [exact Ep1|]. rewrite C0 in *.
    split; [rewrite Ep2; lia|]. rewrite lastt_app by apply S2. exact Ee2.
  Qed.

  Lemma span_cmp ts e rest : input_ok ts -> step rec MCmp ts = Ok (e, rest) -> Good ts rest e.
  Proof.
    intros I H. cbn [step] in H. apply bind_ok in H. destruct H as ([l ts1] & E0 & H).
    pose proof (bitor_good rec IH _ _ _ I E0) as G. destruct (Good_end _ _ _ I G) as (Ge & Gp & Gn).
    assert (I1 : input_ok ts1) by (destruct G as (? & ? & ? & _); assumption).
    assert (Spl : SP l) by (destruct G as (? & ? & ? & ? & _); assumption).
    set (t := cur ts1) in *.
    (* IN and BETWEEN, shared by the plain and the NOT forms *)
    assert (IN_case : forall neg ts2 c0, Seg ts1 ts2 c0 -> input_ok ts2 -> eend l <= ppos (cur ts2) ->
      (if maybe_subquery ts2 then Unsup
       else if kis (cur ts2) "(" then
         do (e1, ts3) <- rec (MBin BOr) (next ts2); do (es, ts4) <- more (rec (MBin BOr)) (length ts3) [e1] ts3;
         do (rp, ts5) <- expect ")" ts4; Ok (EIn neg l (CValues (ppos (cur ts2)) (ppos rp) es), ts5)
       else if kis (cur ts2) "UNNEST" then
         do (_, ts3) <- expect "(" (next ts2); do (e1, ts4) <- rec (MBin BOr) ts3; do (rp, ts5) <- expect ")" ts4;
         Ok (EIn neg l (CUnnest (ppos (cur ts2)) (ppos rp) e1), ts5)
       else Err (ppos (cur ts2))) = Ok (e, rest) -> Good ts rest e).
    { intros neg ts2 c0 S0 I2 Le Hc. destruct (incond_spec rec IH neg l ts2 e rest I2 Hc) as (cnd & c & -> & Sc & Ic & Spc & Cp & Ce).
      eapply (extend_Good ts ts1 l (c0 ++ c)); eauto; [eapply Seg_trans; eauto|constructor; auto; lia|rewrite lastt_app by apply Sc; exact Ce]. }
    assert (BT_case : forall neg ts2 c0, Seg ts1 ts2 c0 -> input_ok ts2 -> eend l <= ppos (cur ts2) ->
      (do (s, ts3) <- rec (MBin BBitOr) ts2; do (_, ts4) <- expect "AND" ts3; do (e2, ts5) <- rec (MBin BBitOr) ts4;
       Ok (EBetween neg l s e2, ts5)) = Ok (e, rest) -> Good ts rest e).
    { intros neg ts2 c0 S0 I2 Le Hc. destruct (between_spec neg l ts2 e rest I2 Hc) as (s & e2 & c & -> & Sc & Ic & Sps & Spe & Ps & Pe & Ee).
      eapply (extend_Good ts ts1 l (c0 ++ c)); eauto; [eapply Seg_trans; eauto|constructor; auto; lia|rewrite lastt_app by apply Sc; exact Ee]. }
    destruct (find_op t cmp_ops) as [op|] eqn:F.
    { pose proof (find_op_not_eof _ _ _ F cmp_ops_not_eof) as NE.
      destruct (consume_any ts1 I1 NE) as (t0 & r0 & Ets & Et0 & Rn & Nx & I0 & P0 & P1 & P2 & _).
      rewrite Nx in H. apply bind_ok in H. destruct H as ([r ts2] & E1 & H). injection H as <- <-.
      pose proof (bitor_good rec IH _ _ _ I0 E1) as G2. destruct G2 as (c2 & S2 & I2 & Sp2 & Ep2 & Ee2).
      eapply (extend_Good ts ts1 l ([t0] ++ c2)); eauto.
      - rewrite Ets. eapply Seg_trans; [apply Seg_one; exact Rn|exact S2].
      - constructor; auto. rewrite Ep2. unfold t in *. rewrite <- Et0 in *. lia.
      - rewrite lastt_app by apply S2. exact Ee2. }
    destruct (kis t "IN") eqn:K1.
    { destruct (consume2 _ _ I1 K1 (eq_refl false)) as (t0 & r0 & Ets & Rn & Nx & I0 & P0 & P1 & P2 & _ & _ & C0).
      rewrite Nx in H. apply (IN_case false r0 [t0]); auto; [rewrite Ets; apply Seg_one; exact Rn|]. unfold t in *. rewrite C0 in *. lia. }
    destruct (kis t "BETWEEN") eqn:K2.
    { destruct (consume2 _ _ I1 K2 (eq_refl false)) as (t0 & r0 & Ets & Rn & Nx & I0 & P0 & P1 & P2 & _ & _ & C0).
      rewrite Nx in H. apply (BT_case false r0 [t0]); auto; [rewrite Ets; apply Seg_one; exact Rn|]. unfold t in *. rewrite C0 in *. lia. }
    destruct (kis t "NOT") eqn:K3.
    { destruct (consume2 _ _ I1 K3 (eq_refl false)) as (t0 & r0 & Ets & Rn & Nx & I0 & P0 & P1 & P2 & _ & _ & C0).
      rewrite Nx in H. unfold t in *. rewrite C0 in *.
      assert (S0 : Seg ts1 r0 [t0]) by (rewrite Ets; apply Seg_one; exact Rn).
      destruct (kis (cur r0) "LIKE") eqn:K4.
      - destruct (consume2 _ _ I0 K4 (eq_refl false)) as (t1 & r1 & Ets1 & Rn1 & Nx1 & I1' & Q0 & Q1 & Q2 & _ & _ & C1).
        rewrite Nx1 in H. apply bind_ok in H. destruct H as ([r ts2] & E1 & H). injection H as <- <-.
        pose proof (bitor_good rec IH _ _ _ I1' E1) as G2. destruct G2 as (c2 & S2 & I2 & Sp2 & Ep2 & Ee2). rewrite C1 in *.
        eapply (extend_Good ts ts1 l (([t0] ++ [t1]) ++ c2)); eauto.
        + eapply Seg_trans; [eapply Seg_trans; [exact S0|rewrite Ets1; apply Seg_one; exact Rn1]|exact S2].
        + constructor; auto. rewrite Ep2. lia.
        + rewrite lastt_app by apply S2. exact Ee2.
      - destruct (kis (cur r0) "IN") eqn:K5.
        + destruct (consume2 _ _ I0 K5 (eq_refl false)) as (t1 & r1 & Ets1 & Rn1 & Nx1 & I1' & Q0 & Q1 & Q2 & _ & _ & C1).
          rewrite Nx1 in H. rewrite C1 in *. apply (IN_case true r1 ([t0] ++ [t1])); auto; [|lia].
          eapply Seg_trans; [exact S0|rewrite Ets1; apply Seg_one; exact Rn1].
        + destruct (kis (cur r0) "BETWEEN") eqn:K6; [|discriminate].
          destruct (consume2 _ _ I0 K6 (eq_refl false)) as (t1 & r1 & Ets1 & Rn1 & Nx1 & I1' & Q0 & Q1 & Q2 & _ & _ & C1).
          rewrite Nx1 in H. rewrite C1 in *. apply (BT_case true r1 ([t0] ++ [t1])); auto; [|lia].
          eapply Seg_trans; [exact S0|rewrite Ets1; apply Seg_one; exact Rn1]. }
    destruct (kis t "IS") eqn:K7.
    { destruct (consume2 _ _ I1 K7 (eq_refl false)) as (t0 & r0 & Ets & Rn & Nx & I0 & P0 & P1 & P2 & _ & _ & C0).
      rewrite Nx in H. unfold t in *. rewrite C0 in *.
      assert (S0 : Seg ts1 r0 [t0]) by (rewrite Ets; apply Seg_one; exact Rn).
      (* the optional NOT *)
      assert (Skip : exists ts3 c0, (if kis (cur r0) "NOT" then next r0 else r0) = ts3 /\ Seg ts1 ts3 c0 /\ input_ok ts3 /\ eend l <= ppos (cur ts3)).
      { destruct (kis (cur r0) "NOT") eqn:K8.
        - destruct (consume2 _ _ I0 K8 (eq_refl false)) as (t1 & r1 & Ets1 & Rn1 & Nx1 & I1' & Q0 & Q1 & Q2 & _ & _ & C1).
          rewrite C1 in *. exists r1, ([t0] ++ [t1]). split; [exact Nx1|]. split; [eapply Seg_trans; [exact S0|rewrite Ets1; apply Seg_one; exact Rn1]|]. split; [exact I1'|lia].
        - exists r0, [t0]. split; [reflexivity|]. split; [exact S0|]. split; [exact I0|lia]. }
      destruct Skip as (ts3 & c0 & E3 & S3 & I3 & L3). rewrite E3 in H.
      assert (Fin : forall k (x : expr), kis (cur ts3) k = true -> bytes_eqb (bs k) (bs K_eof) = false ->
                 (forall t3, t3 = cur ts3 -> fixed_ok t3 -> kis t3 k = true -> 0 <= ppos t3 -> eend l <= ppos t3 -> SP x /\ epos x = epos l /\ eend x = pend t3 /\ ppos t3 = ppos t3) ->
                 Ok (x, next ts3) = Ok (e, rest) -> Good ts rest e).
      { intros k x Kk Kne Hx Hr. injection Hr as <- <-.
        destruct (consume2 _ _ I3 Kk Kne) as (t3 & r3 & Ets3 & Rn3 & Nx3 & I3' & R0 & R1 & R2 & Fx & K3' & C3).
        rewrite Nx3. assert (L3' : eend l <= ppos t3) by (rewrite <- C3; exact L3). destruct (Hx t3 (eq_sym C3) Fx K3' R0 L3') as (Spx & Epx & Eex & _).
        eapply (extend_Good ts ts1 l (c0 ++ [t3])); eauto.
        - eapply Seg_trans; [exact S3|rewrite Ets3; apply Seg_one; exact Rn3].
        - rewrite lastt_app by discriminate. exact Eex. }
      destruct (kis (cur ts3) "NULL") eqn:K9.
      - eapply (Fin "NULL"%string); eauto. intros t3 -> (F1 & _) Kt R0 L. cbn [epos eend]. rewrite padd_nonneg by lia.
        split; [constructor; auto|]. split; [reflexivity|]. split; [rewrite (F1 Kt); reflexivity|reflexivity].
      - destruct (kis (cur ts3) "TRUE") eqn:K10.
        + eapply (Fin "TRUE"%string); eauto. intros t3 -> (_ & F2 & _) Kt R0 L. cbn [epos eend]. rewrite padd_nonneg by lia.
          split; [constructor; auto|]. split; [reflexivity|]. split; [rewrite (F2 Kt); reflexivity|reflexivity].
        + destruct (kis (cur ts3) "FALSE") eqn:K11; [|discriminate].
          eapply (Fin "FALSE"%string); eauto. intros t3 -> (_ & _ & F3 & _) Kt R0 L. cbn [epos eend]. rewrite padd_nonneg by lia.
          split; [constructor; auto|]. split; [reflexivity|]. split; [rewrite (F3 Kt); reflexivity|reflexivity]. }
    injection H as <- <-. exact G.
  Qed.
End Step6.

(* ---------- the theorem ---------- *)
Theorem span f : forall m ts e rest, input_ok ts -> P f m ts = Ok (e, rest) -> Spec m ts rest e.
Proof.
  induction f as [|f IH]; intros m ts e rest I H; [discriminate|].
  change (P (S f) m ts) with (step (P f) m ts) in H.
  destruct m; cbn [Spec].
  - eapply span_bin; eauto.
  - eapply span_loop; eauto.
  - eapply span_not; eauto.
  - eapply span_cmp; eauto.
  - eapply span_unary; eauto.
  - eapply span_sel; eauto.
  - eapply span_selloop; eauto.
  - eapply span_lit; eauto.
Qed.

(* Whatever ParseExpr's fragment returns for a lexed input: the node spans exactly the consumed tokens and every sub-node
   is well spanned *)
Corollary parse_expr_span ts e rest : input_ok ts -> parse_expr ts = Ok (e, rest) ->
  exists c, c <> [] /\ ts = c ++ rest /\ SP e /\ epos e = ppos (cur ts) /\ eend e = pend (lastt c) /\ input_ok rest.
Proof.
  intros I H. unfold parse_expr in H. destruct (span _ _ _ _ _ I H) as (c & (N & E & R) & Ir & Sp & Ep & Ee).
  exists c. split; [exact N|]. split; [exact E|]. split; [exact Sp|]. split; [exact Ep|]. split; [exact Ee|exact Ir].
Qed.

(* ---------- the hypothesis on token lists is decidable: checked on every real token list by the correspondence ---------- *)
Definition tok_okb (t : ptok) : bool := (0 <=? ppos t) && (ppos t <=? pend t).
Fixpoint chainb (ts : toks) : bool :=
  match ts with
  | [] => false
  | [t] => tok_okb t
  | t :: ((u :: _) as r) => tok_okb t && (ppos t <? pend t) && (pend t <=? ppos u) && chainb r
  end.
Definition impb (a b : bool) : bool := negb a || b.
Definition fixed_okb (t : ptok) : bool :=
  impb (kis t "NULL") (pend t =? ppos t + 4) && impb (kis t "TRUE") (pend t =? ppos t + 4) &&
  impb (kis t "FALSE") (pend t =? ppos t + 5) && impb (kis t ")") (pend t =? ppos t + 1) &&
  impb (kis t "]") (pend t =? ppos t + 1) && impb (kis t K_param) (pend t =? ppos t + 1 + blen (pstr t)).
Fixpoint well_endedb (ts : toks) : bool :=
  match ts with
  | [] => false
  | [e] => kis e K_eof
  | t :: r => negb (kis t K_eof) && well_endedb r
  end.
Definition input_okb (ts : toks) : bool := chainb ts && forallb fixed_okb ts && well_endedb ts.

Lemma chainb_ok ts : chainb ts = true -> chain ts.
Proof.
  induction ts as [|t r IH]; [discriminate|]. destruct r as [|u r].
  - cbn. intros H. apply andb_true_iff in H as [A B]. constructor. unfold tok_ok. apply Z.leb_le in A, B. lia.
  - intros H. cbn [chainb] in H. apply andb_true_iff in H as [H D]. apply andb_true_iff in H as [H C]. apply andb_true_iff in H as [A B].
    unfold tok_okb in A. apply andb_true_iff in A as [A1 A2]. apply Z.leb_le in A1, A2, C. apply Z.ltb_lt in B.
    constructor; auto. unfold tok_ok. lia.
Qed.

Lemma fixed_okb_ok t : fixed_okb t = true -> fixed_ok t.
Proof.
  unfold fixed_okb, impb, fixed_ok. rewrite !andb_true_iff, !orb_true_iff, !negb_true_iff, !Z.eqb_eq.
  intros (((((A & B) & C) & D) & E) & F). repeat split; intros K; [destruct A|destruct B|destruct C|destruct D|destruct E|destruct F]; congruence.
Qed.

Lemma well_endedb_ok ts : well_endedb ts = true -> well_ended ts.
Proof.
  induction ts as [|t r IH]; [discriminate|]. destruct r as [|u r].
  - cbn. intros H. exists [], t. auto.
  - intros H. cbn [well_endedb] in H. apply andb_true_iff in H as [A B]. apply negb_true_iff in A.
    destruct (IH B) as (body & e & E & Ke & Fb). exists (t :: body), e. rewrite E. auto.
Qed.

Theorem input_okb_ok ts : input_okb ts = true -> input_ok ts.
Proof.
  unfold input_okb. rewrite !andb_true_iff. intros ((A & B) & C). split; [split|].
  - apply chainb_ok; exact A.
  - rewrite forallb_forall in B. apply Forall_forall. intros t Ht. apply fixed_okb_ok. auto.
  - apply well_endedb_ok; exact C.
Qed.

(* ---------- every sub-expression of a well-spanned tree is well spanned and lies inside it ---------- *)
Inductive child : expr -> expr -> Prop :=
| ch_bin_l op l r : child (EBinary op l r) l | ch_bin_r op l r : child (EBinary op l r) r
| ch_un p op x : child (EUnary p op x) x
| ch_in_l neg l c : child (EIn neg l c) l
| ch_in_v neg l lp rp es x : In x es -> child (EIn neg l (CValues lp rp es)) x
| ch_in_u neg l u rp x : child (EIn neg l (CUnnest u rp x)) x
| ch_isn p neg l : child (EIsNull p neg l) l | ch_isb p neg l v : child (EIsBool p neg l v) l
| ch_bt1 neg l s x : child (EBetween neg l s x) l | ch_bt2 neg l s x : child (EBetween neg l s x) s | ch_bt3 neg l s x : child (EBetween neg l s x) x
| ch_sel x i : child (ESelector x i) x
| ch_idx rb x ix : child (EIndex rb x ix) x
| ch_idx_k rb x kp rp kw y : child (EIndex rb x (SKeyword kp rp kw y)) y
| ch_idx_a rb x y : child (EIndex rb x (SExprArg y)) y
| ch_par lp rp x : child (EParen lp rp x) x
| ch_tup lp rp vs x : In x vs -> child (ETuple lp rp vs) x.

Lemma SPL_in lo l hi x : SPL lo l hi -> In x l -> SP x /\ lo <= epos x /\ eend x <= hi.
Proof.
  induction 1 as [|lo y r hi Sy Ly Sr IH]; intros HI; [destruct HI|].
  pose proof (proj1 (proj2 (proj2 (proj2 SP_range))) _ _ _ Sr) as Le. destruct (SP_pos y Sy) as [Y0 Y1].
  destruct HI as [->|HI]; [repeat split; auto; lia|]. destruct (IH HI) as (A & B & C). repeat split; auto; lia.
Qed.

(* children are well spanned, inside the parent's range *)
Theorem SP_child e x : SP e -> child e x -> SP x /\ epos e <= epos x /\ eend x <= eend e.
Proof.
  intros Sp Ch.
  destruct Ch; inversion Sp; subst; cbn [epos eend cond_end] in *;
    repeat match goal with
           | H : SPC _ |- _ => inversion H; subst; clear H
           | H : SPS _ |- _ => inversion H; subst; clear H
           end; cbn [cond_pos cond_end sub_pos sub_end] in *;
    try match goal with H : SPL _ ?l _, HI : In ?x ?l |- _ => destruct (SPL_in _ _ _ _ H HI) as (? & ? & ?) end;
    (split; [assumption|]); clear Sp;
    repeat match goal with H : SPL ?a ?l ?b |- _ => pose proof (proj1 (proj2 (proj2 (proj2 SP_range))) _ _ _ H); clear H end;
    repeat match goal with H : SP ?y |- _ => let R := fresh "R" in pose proof (SP_pos y H) as R; destruct R; clear H end;
    rewrite ?padd_nonneg in * by lia; try (destruct v); try lia.
Qed.
