(* Parse/Recovery.v -- the error handlers of parser.go (handleParseStatementError / handleParseQueryExprError / handleParseExprError /
   handleParseTypeError): after the lexer has been rewound to the recovery point, tokens are skipped with the non-panicking
   lexer and cloned into the Bad node.  Hand transcription over the lexer model (Lex/Lexer.v); tie: correspondence of the
   predicted Bad nodes with the Bad nodes of real trees (bin/check C10). *)
From Verif Require Import Base.Bytes Base.Utf8 Bytes.FileModel Gen.Keywords Lex.Lexer.
Local Open Scope nat_scope.

Inductive handler := HStmt | HQuery (simple : bool) | HExpr | HType.

Inductive verdict :=
| Stop                    (* break skip *)
| Go (nest : nat)         (* append the token, advance *)
| SplitStop.              (* '>>' closing one nested and the enclosing '<': the token becomes '>' at Pos+1, break *)

Definition kin (k : bytes) (ks : list String.string) : bool := existsb (fun s => bytes_eqb k (bs s)) ks.

Definition decide (h : handler) (nest : nat) (k : bytes) : verdict :=
  match h with
  | HStmt => if kin k [";"%string] then Stop else Go nest
  | HQuery simple =>
      if kin k [";"%string] then Stop
      else if kin k ["("%string] then Go (S nest)
      else if kin k [")"%string] then (match nest with O => Stop | S n => Go n end)
      else if kin k ["UNION"; "INTERSECT"; "EXCEPT"]%string then (if simple && (nest =? 0) then Stop else Go nest)
      else Go nest
  | HExpr =>
      if kin k [";"%string] then Stop
      else if kin k ["("; "["; "CASE"; "WHEN"]%string then Go (S nest)
      else if kin k [")"; "]"; "}"; "END"; "THEN"]%string then (match nest with O => Stop | S n => Go n end)
      else if kin k [","; "AS"; "FROM"; "GROUP"; "HAVING"; "ORDER"; "LIMIT"; "OFFSET"; "AT"; "UNION"; "INTERSECT"; "EXCEPT"]%string
           then (match nest with O => Stop | S _ => Go nest end)
      else Go nest
  | HType =>
      if kin k [";"; ")"]%string then Stop
      else if kin k ["<"%string] then Go (S nest)
      else if kin k [">"%string] then (match nest with O => Stop | S n => Go n end)
      else if kin k [">>"%string] then (match nest with O => Stop | S O => SplitStop | S (S n) => Go n end)
      else if kin k [","%string] then (match nest with O => Stop | S _ => Go nest end)
      else Go nest
  end.

(* the Bad node: NodePos, NodeEnd, Tokens; and the lexer the parser continues with *)
Record bad := mkBad { b_pos : nat; b_end : nat; b_toks : list token }.

Definition split_token (l : lexer) : lexer :=
  let t := l_tok l in
  mkLex (l_buf l) (l_rest l) (l_pos l)
        (mkTok [x3e] (t_comments t) (t_space t) (t_raw t) (t_str t) (t_base t) (S (t_pos t)) (t_end t))
        (l_last l) (l_dot l).

Fixpoint skip (fuel : nat) (h : handler) (nest : nat) (l : lexer) (racc : list token) (endp : nat) : option (list token * nat * lexer) :=
  match fuel with
  | O => None
  | S f =>
      let t := l_tok l in
      if keq (t_kind t) K_eof then Some (rev racc, endp, l)
      else match decide h nest (t_kind t) with
           | Stop => Some (rev racc, endp, l)
           | SplitStop => Some (rev racc, endp, split_token l)
           | Go n' =>
               match next_token true l with
               | LOk l' => skip f h n' l' (t :: racc) (t_end t)
               | _ => None
               end
           end
  end.

(* handler entry: p.Lexer = l (the lexer saved at the start of the production), pos = end = p.Token.Pos *)
Definition handle (h : handler) (l : lexer) : option (bad * lexer) :=
  match skip (length (l_rest l) + 2) h 0 l [] (t_pos (l_tok l)) with
  | Some (ts, e, l') => Some (mkBad (t_pos (l_tok l)) e ts, l')
  | None => None
  end.

(* the lexer states of the recovery-mode scan of a whole input: state i holds token i as its current token *)
Fixpoint np_states (fuel : nat) (l : lexer) : list lexer :=
  match fuel with
  | O => []
  | S f => match next_token true l with
           | LOk l' => l' :: (if keq (t_kind (l_tok l')) K_eof then [] else np_states f l')
           | _ => []
           end
  end.
Definition np_scan (buf : bytes) : list lexer := np_states (2 * length buf + 3) (init_lexer buf).
