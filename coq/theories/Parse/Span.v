(* Parse/Span.v -- positions of the fragment's nodes (C05, C06).
   [epos]/[eend]: Pos()/End() of each node type as documented in ast/ast.go; [pe_to_tree] proves that the GENERATED methods
   (Gen/PosImpl.v, regenerated from ast/pos.go every run) compute exactly these on every fragment tree. *)
From Verif Require Import Base.Bytes Tree.Tree Tree.PosLang Parse.ExprModel.
From Verif Require Import Gen.Schema Gen.PosImpl.
Local Open Scope Z_scope.

Definition blen (b : bytes) : Z := Z.of_nat (length b).
(* posAdd / PosAdd: an invalid (negative) position stays invalid *)
Definition padd (p k : Z) : Z := if p <? 0 then -1 else p + k.

Fixpoint epos (e : expr) : Z :=
  match e with
  | EBinary _ l _ | EIn _ l _ | EIsNull _ _ l | EIsBool _ _ l _ | EBetween _ l _ _ => epos l
  | EUnary p _ _ => p
  | ESelector x _ | EIndex _ x _ => epos x
  | EParen lp _ _ | ETuple lp _ _ => lp
  | EParam p _ => p
  | EIdent i => id_pos i
  | EPath ids => match ids with i :: _ => id_pos i | [] => -1 end
  | ENull p | EBool p _ => p
  | EInt a _ _ _ | EFloat a _ _ | EString a _ _ | EBytes a _ _ => a
  end.

Definition cond_end (c : incond) : Z := match c with CValues _ rp _ | CUnnest _ rp _ => padd rp 1 end.
Definition cond_pos (c : incond) : Z := match c with CValues lp _ _ => lp | CUnnest u _ _ => u end.

Fixpoint eend (e : expr) : Z :=
  match e with
  | EBinary _ _ r => eend r
  | EUnary _ _ x => eend x
  | EIn _ _ c => cond_end c
  | EIsNull p _ _ => padd p 4
  | EIsBool p _ _ v => padd p (if v then 4 else 5)
  | EBetween _ _ _ x => eend x
  | ESelector _ i => id_end i
  | EIndex rb _ _ => padd rb 1
  | EParen _ rp _ | ETuple _ rp _ => padd rp 1
  | EParam p n => padd (padd p 1) (blen n)
  | EIdent i => id_end i
  | EPath ids => match ids with [] => -1 | _ => id_end (last ids {| id_pos := 0; id_end := 0; id_name := [] |}) end
  | ENull p => padd p 4
  | EBool p v => padd p (if v then 4 else 5)
  | EInt _ b _ _ | EFloat _ b _ | EString _ b _ | EBytes _ b _ => b
  end.

Definition sub_pos (s : subscript) : Z := match s with SKeyword kp _ _ _ => kp | SExprArg x => epos x end.
Definition sub_end (s : subscript) : Z := match s with SKeyword _ rp _ _ => padd rp 1 | SExprArg x => eend x end.

(* ---------- induction principle through the nested lists ---------- *)
Section ExprInd.
  Variable P : expr -> Prop.
  Variable PC : incond -> Prop.
  Variable PS : subscript -> Prop.
  Hypothesis Hbin : forall op l r, P l -> P r -> P (EBinary op l r).
  Hypothesis Hun : forall p op x, P x -> P (EUnary p op x).
  Hypothesis Hin : forall neg l c, P l -> PC c -> P (EIn neg l c).
  Hypothesis Hisn : forall p neg l, P l -> P (EIsNull p neg l).
  Hypothesis Hisb : forall p neg l v, P l -> P (EIsBool p neg l v).
  Hypothesis Hbet : forall neg l s x, P l -> P s -> P x -> P (EBetween neg l s x).
  Hypothesis Hsel : forall x i, P x -> P (ESelector x i).
  Hypothesis Hidx : forall rb x ix, P x -> PS ix -> P (EIndex rb x ix).
  Hypothesis Hpar : forall lp rp x, P x -> P (EParen lp rp x).
  Hypothesis Htup : forall lp rp vs, Forall P vs -> P (ETuple lp rp vs).
  Hypothesis Hleaf : forall e, (match e with EParam _ _ | EIdent _ | EPath _ | ENull _ | EBool _ _ | EInt _ _ _ _ | EFloat _ _ _ | EString _ _ _ | EBytes _ _ _ => True | _ => False end) -> P e.
  Hypothesis Hvals : forall lp rp es, Forall P es -> PC (CValues lp rp es).
  Hypothesis Hunn : forall u rp x, P x -> PC (CUnnest u rp x).
  Hypothesis Hkw : forall kp rp kw x, P x -> PS (SKeyword kp rp kw x).
  Hypothesis Harg : forall x, P x -> PS (SExprArg x).

  Fixpoint expr_ind' (e : expr) : P e :=
    match e with
    | EBinary op l r => Hbin op l r (expr_ind' l) (expr_ind' r)
    | EUnary p op x => Hun p op x (expr_ind' x)
    | EIn neg l c => Hin neg l c (expr_ind' l) (cond_ind' c)
    | EIsNull p neg l => Hisn p neg l (expr_ind' l)
    | EIsBool p neg l v => Hisb p neg l v (expr_ind' l)
    | EBetween neg l s x => Hbet neg l s x (expr_ind' l) (expr_ind' s) (expr_ind' x)
    | ESelector x i => Hsel x i (expr_ind' x)
    | EIndex rb x ix => Hidx rb x ix (expr_ind' x) (sub_ind' ix)
    | EParen lp rp x => Hpar lp rp x (expr_ind' x)
    | ETuple lp rp vs => Htup lp rp vs ((fix go (l : list expr) : Forall P l :=
                                           match l with [] => Forall_nil _ | x :: r => Forall_cons _ (expr_ind' x) (go r) end) vs)
    | EParam p n => Hleaf (EParam p n) I
    | EIdent i => Hleaf (EIdent i) I
    | EPath ids => Hleaf (EPath ids) I
    | ENull p => Hleaf (ENull p) I
    | EBool p v => Hleaf (EBool p v) I
    | EInt a b c v => Hleaf (EInt a b c v) I
    | EFloat a b v => Hleaf (EFloat a b v) I
    | EString a b v => Hleaf (EString a b v) I
    | EBytes a b v => Hleaf (EBytes a b v) I
    end
  with cond_ind' (c : incond) : PC c :=
    match c with
    | CValues lp rp es => Hvals lp rp es ((fix go (l : list expr) : Forall P l :=
                                             match l with [] => Forall_nil _ | x :: r => Forall_cons _ (expr_ind' x) (go r) end) es)
    | CUnnest u rp x => Hunn u rp x (expr_ind' x)
    end
  with sub_ind' (s : subscript) : PS s :=
    match s with
    | SKeyword kp rp kw x => Hkw kp rp kw x (expr_ind' x)
    | SExprArg x => Harg x (expr_ind' x)
    end.
End ExprInd.

Lemma to_tree_is_node e : exists ty fs, to_tree e = TNode ty fs.
Proof. destruct e; cbn [to_tree]; unfold ExprModel.t_ident; eexists _, _; reflexivity. Qed.

(* ---------- the generated Pos()/End() on fragment trees ---------- *)
Ltac tables :=
  repeat match goal with
         | |- context [assoc ?k schema] => let v := eval vm_compute in (assoc k schema) in change (assoc k schema) with v
         | |- context [assoc ?k pos_impl] => let v := eval vm_compute in (assoc k pos_impl) in change (assoc k pos_impl) with v
         end.

Notation PE := (pe gbody geval_body schema pos_impl).

Lemma pe_ident i : PE (ExprModel.t_ident i) = Some (id_pos i, id_end i).
Proof. unfold ExprModel.t_ident. cbn [pe]. tables. reflexivity. Qed.

Lemma pe_idents ids : all_some (map PE (map ExprModel.t_ident ids)) = Some (map (fun i => (id_pos i, id_end i)) ids).
Proof. induction ids as [|i r IH]; [reflexivity|]. cbn [map all_some]. rewrite pe_ident, IH. reflexivity. Qed.

Ltac child x IH :=
  let ty := fresh "ty" in let fs := fresh "fs" in let E := fresh "E" in
  destruct (to_tree_is_node x) as (ty & fs & E); rewrite E in *; rewrite IH.

Lemma last_map_pair ids d : ids <> [] ->
  last (map (fun i => (id_pos i, id_end i)) ids) (0, 0) = (id_pos (last ids d), id_end (last ids d)).
Proof.
  induction ids as [|i r IH]; [congruence|]. intros _. destruct r as [|j r]; [reflexivity|].
  change (last (map _ (i :: j :: r)) (0, 0)) with (last (map (fun i => (id_pos i, id_end i)) (j :: r)) (0, 0)).
  change (last (i :: j :: r) d) with (last (j :: r) d). apply IH. discriminate.
Qed.

Theorem pe_to_tree : forall e, PE (to_tree e) = Some (epos e, eend e).
Proof.
  apply (expr_ind' (fun e => PE (to_tree e) = Some (epos e, eend e))
                   (fun c => PE (cond_tree c) = Some (cond_pos c, cond_end c))
                   (fun s => PE (sub_tree s) = Some (sub_pos s, sub_end s))).
  - intros op l r IHl IHr. cbn [to_tree pe]. tables. cbn [mk_env fval_of]. child l IHl. child r IHr. reflexivity.
  - intros p op x IH. cbn [to_tree pe]. tables. cbn [mk_env fval_of]. child x IH. reflexivity.
  - intros neg l c IHl IHc. cbn [to_tree pe]. tables. cbn [mk_env fval_of]. child l IHl.
    destruct c; cbn [cond_tree] in *; rewrite IHc; reflexivity.
  - intros p neg l IH. cbn [to_tree pe]. tables. cbn [mk_env fval_of]. child l IH. reflexivity.
  - intros p neg l v IH. cbn [to_tree pe]. tables. cbn [mk_env fval_of]. child l IH. destruct v; reflexivity.
  - intros neg l s x IHl IHs IHx. cbn [to_tree pe]. tables. cbn [mk_env fval_of]. child l IHl. child s IHs. child x IHx. reflexivity.
  - intros x i IH. cbn [to_tree pe]. tables. cbn [mk_env fval_of]. child x IH.
    unfold ExprModel.t_ident at 1. rewrite (pe_ident i). reflexivity.
  - intros rb x ix IHx IHs. cbn [to_tree pe]. tables. cbn [mk_env fval_of]. child x IHx.
    destruct ix; cbn [sub_tree] in *; rewrite IHs; reflexivity.
  - intros lp rp x IH. cbn [to_tree pe]. tables. cbn [mk_env fval_of]. child x IH. reflexivity.
  - intros lp rp vs _. cbn [to_tree pe]. tables. cbn [mk_env fval_of].
    match goal with |- context [all_some ?l] => destruct (all_some l) end; reflexivity.
  - intros e He. destruct e; try destruct He; cbn [to_tree pe]; tables; cbn [mk_env fval_of]; try reflexivity; try (apply pe_ident); try (destruct v; reflexivity).
    + (* Path *) rewrite pe_idents. destruct ids as [|i r]; [reflexivity|].
      cbn [geval_body geval_p geval_n assoc String.eqb Ascii.eqb Bool.eqb geval_i nth_z map].
      change (map (fun i0 => (id_pos i0, id_end i0)) (i :: r)) with ((id_pos i, id_end i) :: map (fun i0 => (id_pos i0, id_end i0)) r).
      cbn [Z.ltb Z.compare Z.to_nat nth_error].
      change ((id_pos i, id_end i) :: map (fun i0 => (id_pos i0, id_end i0)) r) with (map (fun i0 => (id_pos i0, id_end i0)) (i :: r)).
      rewrite (last_map_pair (i :: r) {| id_pos := 0; id_end := 0; id_name := [] |}) by discriminate. reflexivity.
  - intros lp rp es _. cbn [cond_tree pe]. tables. cbn [mk_env fval_of].
    match goal with |- context [all_some ?l] => destruct (all_some l) end; reflexivity.
  - intros u rp x IH. cbn [cond_tree pe]. tables. cbn [mk_env fval_of]. child x IH. reflexivity.
  - intros kp rp kw x IH. cbn [sub_tree pe]. tables. cbn [mk_env fval_of]. child x IH. reflexivity.
  - intros x IH. cbn [sub_tree pe]. tables. cbn [mk_env fval_of]. child x IH. reflexivity.
Qed.
