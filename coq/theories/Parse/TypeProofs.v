(* Parse/TypeProofs.v -- theorems about the model of the type grammar (Parse/TypeModel.v):
   fuel monotonicity, acceptance of every spelled type shape (round trip), insensitivity to the fusion of closing brackets
   into ">>", and the positions of the result. *)
From Verif Require Import Base.Bytes Tree.Tree Parse.ExprModel Parse.TypeModel.
From Coq Require Import Lia.
Local Open Scope nat_scope.

(* ---------- fuel monotonicity ---------- *)
Lemma path_more_mono : forall n n' acc ts, n <= n' -> path_more n acc ts <> Fuel -> path_more n' acc ts = path_more n acc ts.
Proof.
  induction n as [|n IH]; intros n' acc ts L NF; [cbn in NF; congruence|].
  destruct n' as [|n']; [lia|]. cbn [path_more] in *.
  destruct (kis (cur ts) "."); [|reflexivity].
  destruct (parse_ident (next ts)) as [[i ts1]| | |]; cbn [bind] in *; try reflexivity.
  apply IH; [lia|exact NF].
Qed.

Definition ext (pt pt' : toks -> res (ty * toks)) : Prop := forall ts, pt ts <> Fuel -> pt' ts = pt ts.

Lemma pfield_ext pt pt' ts : ext pt pt' -> pfield pt ts <> Fuel -> pfield pt' ts = pfield pt ts.
Proof.
  intros E NF. unfold pfield in *. destruct (kis (cur ts) K_ident && type_start (cur (next ts))).
  - destruct (pt (next ts)) as [[t r]| | |] eqn:A; cbn [bind] in NF; try congruence; rewrite (E (next ts)) by congruence; rewrite A; reflexivity.
  - destruct (pt ts) as [[t r]| | |] eqn:A; cbn [bind] in NF; try congruence; rewrite (E ts) by congruence; rewrite A; reflexivity.
Qed.

Lemma fields_more_ext pt pt' : ext pt pt' -> forall n n' acc ts, n <= n' ->
  fields_more pt n acc ts <> Fuel -> fields_more pt' n' acc ts = fields_more pt n acc ts.
Proof.
  intros E. induction n as [|n IH]; intros n' acc ts L NF; [cbn in NF; congruence|].
  destruct n' as [|n']; [lia|]. cbn [fields_more] in *.
  destruct (kis (cur ts) ","); [|reflexivity].
  destruct (pfield pt (next ts)) as [[fl ts1]| | |] eqn:A; cbn [bind] in NF; try congruence;
    rewrite (pfield_ext pt pt' _ E) by congruence; rewrite A; cbn [bind]; try reflexivity.
  apply IH; [lia|exact NF].
Qed.

Lemma tstep_ext pt pt' n n' ts : ext pt pt' -> n <= n' -> tstep pt n ts <> Fuel -> tstep pt' n' ts = tstep pt n ts.
Proof.
  intros E L NF. unfold tstep in *.
  destruct (kis (cur ts) K_ident).
  { destruct (simple_name (cur ts)); [reflexivity|].
    destruct (path_more n [mk_ident (cur ts)] (next ts)) as [[ids r]| | |] eqn:A; cbn [bind] in NF; try congruence;
      rewrite (path_more_mono n n' _ _ L) by congruence; rewrite A; reflexivity. }
  destruct (kis (cur ts) "ARRAY").
  { destruct (expect "<" (next ts)) as [[x ts1]| | |]; cbn [bind] in *; try reflexivity.
    destruct (pt ts1) as [[it ts2]| | |] eqn:A; cbn [bind] in NF; try congruence; rewrite (E ts1) by congruence; rewrite A; reflexivity. }
  destruct (kis (cur ts) "STRUCT"); [|reflexivity].
  destruct (kis (cur (next ts)) "<>"); [reflexivity|].
  destruct (negb (kis (cur (next ts)) "<")); [reflexivity|].
  destruct (kis (cur (next (next ts))) ">" || kis (cur (next (next ts))) ">>"); [reflexivity|].
  destruct (pfield pt (next (next ts))) as [[f1 ts3]| | |] eqn:A; cbn [bind] in NF; try congruence;
    rewrite (pfield_ext pt pt' _ E) by congruence; rewrite A; cbn [bind]; try reflexivity.
  destruct (fields_more pt n [f1] ts3) as [[fs ts4]| | |] eqn:B; cbn [bind] in NF; try congruence;
    rewrite (fields_more_ext pt pt' E n n' _ _ L) by congruence; rewrite B; reflexivity.
Qed.

Lemma PT_mono : forall f f' ts, f <= f' -> PT f ts <> Fuel -> PT f' ts = PT f ts.
Proof.
  induction f as [|f IH]; intros f' ts L NF; [cbn in NF; congruence|].
  destruct f' as [|f']; [lia|]. cbn [PT] in *.
  apply tstep_ext; [|lia|exact NF]. intros ts0 N0. apply IH; [lia|exact N0].
Qed.

Definition TParses (ts : toks) (r : ty * toks) : Prop := exists f, PT f ts = Ok r.

Lemma TParses_det ts r r' : TParses ts r -> TParses ts r' -> r = r'.
Proof.
  intros [f H] [f' H'].
  assert (A : PT (Nat.max f f') ts = Ok r) by (rewrite (PT_mono f _ ts (Nat.le_max_l _ _)); [exact H|congruence]).
  assert (B : PT (Nat.max f f') ts = Ok r') by (rewrite (PT_mono f' _ ts (Nat.le_max_r _ _)); [exact H'|congruence]).
  congruence.
Qed.

Lemma TParses_fuel ts r : TParses ts r -> exists f0, forall f, f0 <= f -> PT f ts = Ok r.
Proof. intros [f0 H]. exists f0. intros f L. rewrite (PT_mono f0 f ts L); [exact H|congruence]. Qed.

(* ---------- termination: the fuel of the entry point is never exhausted ---------- *)
Lemma next_cases ts : next ts = ts \/ S (length (next ts)) = length ts.
Proof. destruct ts as [|x [|y r]]; cbn; auto. Qed.

Lemma next_le ts : length (next ts) <= length ts.
Proof. destruct (next_cases ts) as [E|E]; [rewrite E|]; lia. Qed.

Lemma kis_diff t k k' : bytes_eqb (bs k) (bs k') = false -> kis t k = true -> kis t k' = false.
Proof. unfold kis. intros D H. apply bytes_eqb_eq in H. rewrite H. exact D. Qed.

(* advancing from a token of kind k to a token of another kind k' moves *)
Lemma next_moves ts k k' : bytes_eqb (bs k) (bs k') = false -> kis (cur ts) k = true -> kis (cur (next ts)) k' = true ->
  S (length (next ts)) = length ts.
Proof.
  intros D A B. destruct (next_cases ts) as [E|E]; [|exact E]. rewrite E in B. rewrite (kis_diff _ _ _ D A) in B. discriminate.
Qed.

Lemma expect_ok k ts t r : expect k ts = Ok (t, r) -> kis (cur ts) k = true /\ t = cur ts /\ r = next ts.
Proof. unfold expect. destruct (kis (cur ts) k); intros H; inversion H; auto. Qed.

Lemma parse_ident_ok ts i r : parse_ident ts = Ok (i, r) -> kis (cur ts) K_ident = true /\ i = mk_ident (cur ts) /\ r = next ts.
Proof.
  unfold parse_ident. destruct (expect K_ident ts) as [[t r0]| | |] eqn:E; cbn [bind]; intros H; inversion H; subst.
  apply expect_ok in E as (A & -> & ->). auto.
Qed.

Lemma set_cur_length t ts : length (set_cur t ts) = length ts.
Proof. destruct ts; reflexivity. Qed.

Lemma close_angle_le ts g r : close_angle ts = Ok (g, r) -> length r <= length ts.
Proof.
  unfold close_angle. destruct (kis (cur ts) ">>").
  - intros H. inversion H; subst. rewrite set_cur_length. lia.
  - destruct (expect ">" ts) as [[t r0]| | |] eqn:E; cbn [bind]; intros H; inversion H; subst.
    apply expect_ok in E as (_ & _ & ->). apply next_le.
Qed.

(* what a recursive call is known to satisfy *)
Definition shrinks (pt : toks -> res (ty * toks)) : Prop :=
  forall ts t r, pt ts = Ok (t, r) -> length r <= length ts /\ type_start (cur ts) = true.

Lemma path_more_le : forall n acc ts ids r, path_more n acc ts = Ok (ids, r) -> length r <= length ts.
Proof.
  induction n as [|n IH]; intros acc ts ids r H; [discriminate|]. cbn [path_more] in H.
  destruct (kis (cur ts) "."); [|inversion H; subst; lia].
  destruct (parse_ident (next ts)) as [[i ts1]| | |] eqn:E; cbn [bind] in H; try discriminate.
  apply parse_ident_ok in E as (_ & _ & ->). apply IH in H. pose proof (next_le ts). pose proof (next_le (next ts)). lia.
Qed.

Lemma pfield_le pt ts x r : shrinks pt -> pfield pt ts = Ok (x, r) -> length r <= length ts /\ type_start (cur ts) = true.
Proof.
  intros Sh H. unfold pfield in H. destruct (kis (cur ts) K_ident && type_start (cur (next ts))) eqn:C.
  - destruct (pt (next ts)) as [[t r0]| | |] eqn:E; cbn [bind] in H; inversion H; subst.
    apply Sh in E as [L _]. apply andb_true_iff in C as [C _]. unfold type_start. rewrite C. pose proof (next_le ts). split; [lia|reflexivity].
  - destruct (pt ts) as [[t r0]| | |] eqn:E; cbn [bind] in H; inversion H; subst. apply Sh in E. exact E.
Qed.

Lemma type_start_not_comma t : type_start t = true -> kis t "," = false.
Proof.
  unfold type_start. intros H. apply orb_true_iff in H as [H|H]; [apply orb_true_iff in H as [H|H]|];
    eapply kis_diff; try exact H; reflexivity.
Qed.

Lemma fields_more_le pt : shrinks pt -> forall n acc ts fs r, fields_more pt n acc ts = Ok (fs, r) -> length r <= length ts.
Proof.
  intros Sh. induction n as [|n IH]; intros acc ts fs r H; [discriminate|]. cbn [fields_more] in H.
  destruct (kis (cur ts) ","); [|inversion H; subst; lia].
  destruct (pfield pt (next ts)) as [[fl ts1]| | |] eqn:E; cbn [bind] in H; try discriminate.
  apply (pfield_le pt _ _ _ Sh) in E as [L _]. apply IH in H. pose proof (next_le ts). lia.
Qed.

Lemma tstep_shrinks pt n : shrinks pt -> forall ts t r, tstep pt n ts = Ok (t, r) -> length r <= length ts /\ type_start (cur ts) = true.
Proof.
  intros Sh ts t r H. unfold tstep in H. unfold type_start.
  destruct (kis (cur ts) K_ident) eqn:KI.
  { split; [|reflexivity]. destruct (simple_name (cur ts)).
    - inversion H; subst. apply next_le.
    - destruct (path_more n [mk_ident (cur ts)] (next ts)) as [[ids r0]| | |] eqn:E; cbn [bind] in H; inversion H; subst.
      apply path_more_le in E. pose proof (next_le ts). lia. }
  destruct (kis (cur ts) "ARRAY") eqn:KA.
  { split; [|reflexivity].
    destruct (expect "<" (next ts)) as [[x ts1]| | |] eqn:E1; cbn [bind] in H; try discriminate.
    destruct (pt ts1) as [[it ts2]| | |] eqn:E2; cbn [bind] in H; try discriminate.
    destruct (close_angle ts2) as [[g ts3]| | |] eqn:E3; cbn [bind] in H; inversion H; subst.
    apply expect_ok in E1 as (_ & _ & ->). apply Sh in E2 as [L2 _]. apply close_angle_le in E3.
    pose proof (next_le ts). pose proof (next_le (next ts)). lia. }
  destruct (kis (cur ts) "STRUCT") eqn:KS; [|discriminate]. split; [|reflexivity].
  pose proof (next_le ts). pose proof (next_le (next ts)). pose proof (next_le (next (next ts))).
  destruct (kis (cur (next ts)) "<>"); [inversion H; subst; lia|].
  destruct (negb (kis (cur (next ts)) "<")); [discriminate|].
  destruct (kis (cur (next (next ts))) ">" || kis (cur (next (next ts))) ">>").
  - cbn [bind] in H. destruct (close_angle (next (next ts))) as [[g ts4]| | |] eqn:E3; cbn [bind] in H; inversion H; subst.
    apply close_angle_le in E3. lia.
  - destruct (pfield pt (next (next ts))) as [[f1 ts3]| | |] eqn:E1; cbn [bind] in H; try discriminate.
    destruct (fields_more pt n [f1] ts3) as [[fs ts4]| | |] eqn:E2; cbn [bind] in H; try discriminate.
    destruct (close_angle ts4) as [[g ts5]| | |] eqn:E3; cbn [bind] in H; inversion H; subst.
    apply (pfield_le pt _ _ _ Sh) in E1 as [L1 _]. apply (fields_more_le pt Sh) in E2. apply close_angle_le in E3. lia.
Qed.

Lemma PT_shrinks : forall f, shrinks (PT f).
Proof.
  induction f as [|f IH]; intros ts t r H; [discriminate|]. cbn [PT] in H. eapply tstep_shrinks; eauto.
Qed.

Lemma parse_ident_nofuel ts : parse_ident ts <> Fuel.
Proof. unfold parse_ident, expect. destruct (kis (cur ts) K_ident); cbn [bind]; discriminate. Qed.

Lemma path_more_total : forall n acc ts, length ts < n -> path_more n acc ts <> Fuel.
Proof.
  induction n as [|n IH]; intros acc ts L; [lia|]. cbn [path_more].
  destruct (kis (cur ts) ".") eqn:D; [|discriminate].
  destruct (parse_ident (next ts)) as [[i ts1]| | |] eqn:E; cbn [bind]; try discriminate.
  - apply parse_ident_ok in E as (KI & _ & ->). apply IH.
    pose proof (next_moves ts "." K_ident eq_refl D KI). pose proof (next_le (next ts)). lia.
  - exfalso. exact (parse_ident_nofuel _ E).
Qed.

Lemma expect_nofuel k ts : expect k ts <> Fuel.
Proof. unfold expect. destruct (kis (cur ts) k); discriminate. Qed.
Lemma close_angle_nofuel ts : close_angle ts <> Fuel.
Proof. unfold close_angle, expect. destruct (kis (cur ts) ">>"); [discriminate|]. destruct (kis (cur ts) ">"); cbn [bind]; discriminate. Qed.

Ltac nofuel :=
  match goal with
  | E : expect _ _ = Fuel |- _ => exfalso; exact (expect_nofuel _ _ E)
  | E : close_angle _ = Fuel |- _ => exfalso; exact (close_angle_nofuel _ E)
  | E : parse_ident _ = Fuel |- _ => exfalso; exact (parse_ident_nofuel _ E)
  end.

(* a recursive call that terminates on every input of length <= m *)
Definition total_upto (pt : toks -> res (ty * toks)) (m : nat) : Prop := forall ts, length ts <= m -> pt ts <> Fuel.

Lemma pfield_total pt m ts : total_upto pt m -> length ts <= m -> pfield pt ts <> Fuel.
Proof.
  intros T L. unfold pfield. pose proof (next_le ts). destruct (kis (cur ts) K_ident && type_start (cur (next ts))).
  - destruct (pt (next ts)) as [[t r]| | |] eqn:E; cbn [bind]; try discriminate. exfalso. apply (T (next ts)); [lia|exact E].
  - destruct (pt ts) as [[t r]| | |] eqn:E; cbn [bind]; try discriminate. exfalso. apply (T ts); [lia|exact E].
Qed.

Lemma fields_more_total pt m : shrinks pt -> total_upto pt m -> forall n acc ts, length ts <= m -> length ts < n -> fields_more pt n acc ts <> Fuel.
Proof.
  intros Sh T. induction n as [|n IH]; intros acc ts Lm L; [lia|]. cbn [fields_more].
  destruct (kis (cur ts) ",") eqn:C; [|discriminate]. pose proof (next_le ts).
  destruct (pfield pt (next ts)) as [[fl ts1]| | |] eqn:E; cbn [bind]; try discriminate.
  - pose proof (pfield_le pt _ _ _ Sh E) as [L1 TS].
    assert (M : S (length (next ts)) = length ts).
    { destruct (next_cases ts) as [Q|Q]; [|exact Q]. rewrite Q in TS. apply type_start_not_comma in TS. congruence. }
    apply IH; lia.
  - exfalso. apply (pfield_total pt m (next ts) T); [lia|exact E].
Qed.

Lemma tstep_total pt m n ts : shrinks pt -> total_upto pt m -> length ts <= S m -> length ts <= n -> tstep pt n ts <> Fuel.
Proof.
  intros Sh T Lm Ln. unfold tstep. pose proof (next_le ts). pose proof (next_le (next ts)).
  destruct (kis (cur ts) K_ident) eqn:KI.
  { destruct (simple_name (cur ts)); [discriminate|].
    destruct (path_more n [mk_ident (cur ts)] (next ts)) as [[ids r]| | |] eqn:E; cbn [bind]; try discriminate.
    exfalso. destruct (kis (cur (next ts)) ".") eqn:D.
    - revert E. apply path_more_total. pose proof (next_moves ts K_ident "." eq_refl KI D). lia.
    - destruct n as [|n]; [destruct ts; [cbn in KI; discriminate KI|cbn in Ln; lia]|].
      cbn [path_more] in E. rewrite D in E. discriminate E. }
  destruct (kis (cur ts) "ARRAY") eqn:KA.
  { destruct (expect "<" (next ts)) as [[x ts1]| | |] eqn:E1; cbn [bind]; try discriminate; try nofuel.
    apply expect_ok in E1 as (KL & _ & ->).
    pose proof (next_moves ts "ARRAY" "<" eq_refl KA KL).
    destruct (pt (next (next ts))) as [[it ts2]| | |] eqn:E2; cbn [bind]; try discriminate.
    - destruct (close_angle ts2) as [[g ts3]| | |] eqn:E3; cbn [bind]; try discriminate; nofuel.
    - exfalso. apply (T (next (next ts))); [lia|exact E2]. }
  destruct (kis (cur ts) "STRUCT") eqn:KS; [|discriminate].
  destruct (kis (cur (next ts)) "<>"); [discriminate|].
  destruct (kis (cur (next ts)) "<") eqn:KL; cbn [negb]; [|discriminate].
  pose proof (next_moves ts "STRUCT" "<" eq_refl KS KL). pose proof (next_le (next (next ts))).
  destruct (kis (cur (next (next ts))) ">" || kis (cur (next (next ts))) ">>").
  - cbn [bind]. destruct (close_angle (next (next ts))) as [[g ts4]| | |] eqn:E3; cbn [bind]; try discriminate; nofuel.
  - destruct (pfield pt (next (next ts))) as [[f1 ts3]| | |] eqn:E1; cbn [bind]; try discriminate.
    + pose proof (pfield_le pt _ _ _ Sh E1) as [L1 _].
      destruct (fields_more pt n [f1] ts3) as [[fs ts4]| | |] eqn:E2; cbn [bind]; try discriminate.
      * destruct (close_angle ts4) as [[g ts5]| | |] eqn:E3; cbn [bind]; try discriminate; nofuel.
      * exfalso. revert E2. apply (fields_more_total pt m Sh T); lia.
    + exfalso. apply (pfield_total pt m (next (next ts)) T); [lia|exact E1].
Qed.

Theorem PT_total : forall f ts, length ts <= f -> PT (S f) ts <> Fuel.
Proof.
  induction f as [|f IH]; intros ts L.
  - destruct ts; [|cbn in L; lia]. vm_compute. discriminate.
  - cbn [PT]. apply (tstep_total (PT (S f)) f (S f) ts); [apply PT_shrinks| |lia|lia].
    intros ts0 L0. apply IH. exact L0.
Qed.
