(* Parse/TypeProofs.v -- theorems about the model of the type grammar (Parse/TypeModel.v):
   fuel monotonicity, acceptance of every spelled type shape (round trip), insensitivity to the fusion of closing brackets
   into ">>", and the positions of the result. *)
From Verif Require Import Base.Bytes Tree.Tree Parse.ExprModel Parse.TypeModel.
From Coq Require Import Lia.
Local Open Scope nat_scope.

(* ---------- fuel monotonicity ---------- *)
Lemma path_more_mono : forall n n' acc ts, n <= n' -> path_more n acc ts <> Fuel -> path_more n' acc ts = path_more n acc ts.
Proof.
  induction n as [|n IH]; intros n' acc ts L NF; [cbn in NF; congruence|].
  destruct n' as [|n']; [lia|]. cbn [path_more] in *.
  destruct (kis (cur ts) "."); [|reflexivity].
  destruct (parse_ident (next ts)) as [[i ts1]| | |]; cbn [bind] in *; try reflexivity.
  apply IH; [lia|exact NF].
Qed.

Definition ext (pt pt' : toks -> res (ty * toks)) : Prop := forall ts, pt ts <> Fuel -> pt' ts = pt ts.

Lemma pfield_ext pt pt' ts : ext pt pt' -> pfield pt ts <> Fuel -> pfield pt' ts = pfield pt ts.
Proof.
  intros E NF. unfold pfield in *. destruct (kis (cur ts) K_ident && type_start (cur (next ts))).
  - destruct (pt (next ts)) as [[t r]| | |] eqn:A; cbn [bind] in NF; try congruence; rewrite (E (next ts)) by congruence; rewrite A; reflexivity.
  - destruct (pt ts) as [[t r]| | |] eqn:A; cbn [bind] in NF; try congruence; rewrite (E ts) by congruence; rewrite A; reflexivity.
Qed.

Lemma fields_more_ext pt pt' : ext pt pt' -> forall n n' acc ts, n <= n' ->
  fields_more pt n acc ts <> Fuel -> fields_more pt' n' acc ts = fields_more pt n acc ts.
Proof.
  intros E. induction n as [|n IH]; intros n' acc ts L NF; [cbn in NF; congruence|].
  destruct n' as [|n']; [lia|]. cbn [fields_more] in *.
  destruct (kis (cur ts) ","); [|reflexivity].
  destruct (pfield pt (next ts)) as [[fl ts1]| | |] eqn:A; cbn [bind] in NF; try congruence;
    rewrite (pfield_ext pt pt' _ E) by congruence; rewrite A; cbn [bind]; try reflexivity.
  apply IH; [lia|exact NF].
Qed.

Lemma tstep_ext pt pt' n n' ts : ext pt pt' -> n <= n' -> tstep pt n ts <> Fuel -> tstep pt' n' ts = tstep pt n ts.
Proof.
  intros E L NF. unfold tstep in *.
  destruct (kis (cur ts) K_ident).
  { destruct (simple_name (cur ts)); [reflexivity|].
    destruct (path_more n [mk_ident (cur ts)] (next ts)) as [[ids r]| | |] eqn:A; cbn [bind] in NF; try congruence;
      rewrite (path_more_mono n n' _ _ L) by congruence; rewrite A; reflexivity. }
  destruct (kis (cur ts) "ARRAY").
  { destruct (expect "<" (next ts)) as [[x ts1]| | |]; cbn [bind] in *; try reflexivity.
    destruct (pt ts1) as [[it ts2]| | |] eqn:A; cbn [bind] in NF; try congruence; rewrite (E ts1) by congruence; rewrite A; reflexivity. }
  destruct (kis (cur ts) "STRUCT"); [|reflexivity].
  destruct (kis (cur (next ts)) "<>"); [reflexivity|].
  destruct (negb (kis (cur (next ts)) "<")); [reflexivity|].
  destruct (kis (cur (next (next ts))) ">" || kis (cur (next (next ts))) ">>"); [reflexivity|].
  destruct (pfield pt (next (next ts))) as [[f1 ts3]| | |] eqn:A; cbn [bind] in NF; try congruence;
    rewrite (pfield_ext pt pt' _ E) by congruence; rewrite A; cbn [bind]; try reflexivity.
  destruct (fields_more pt n [f1] ts3) as [[fs ts4]| | |] eqn:B; cbn [bind] in NF; try congruence;
    rewrite (fields_more_ext pt pt' E n n' _ _ L) by congruence; rewrite B; reflexivity.
Qed.

Lemma PT_mono : forall f f' ts, f <= f' -> PT f ts <> Fuel -> PT f' ts = PT f ts.
Proof.
  induction f as [|f IH]; intros f' ts L NF; [cbn in NF; congruence|].
  destruct f' as [|f']; [lia|]. cbn [PT] in *.
  apply tstep_ext; [|lia|exact NF]. intros ts0 N0. apply IH; [lia|exact N0].
Qed.

Definition TParses (ts : toks) (r : ty * toks) : Prop := exists f, PT f ts = Ok r.

Lemma TParses_det ts r r' : TParses ts r -> TParses ts r' -> r = r'.
Proof.
  intros [f H] [f' H'].
  assert (A : PT (Nat.max f f') ts = Ok r) by (rewrite (PT_mono f _ ts (Nat.le_max_l _ _)); [exact H|congruence]).
  assert (B : PT (Nat.max f f') ts = Ok r') by (rewrite (PT_mono f' _ ts (Nat.le_max_r _ _)); [exact H'|congruence]).
  congruence.
Qed.

Lemma TParses_fuel ts r : TParses ts r -> exists f0, forall f, f0 <= f -> PT f ts = Ok r.
Proof. intros [f0 H]. exists f0. intros f L. rewrite (PT_mono f0 f ts L); [exact H|congruence]. Qed.

(* ---------- termination: the fuel of the entry point is never exhausted ---------- *)
Lemma next_cases ts : next ts = ts \/ S (length (next ts)) = length ts.
Proof. destruct ts as [|x [|y r]]; cbn; auto. Qed.

Lemma next_le ts : length (next ts) <= length ts.
Proof. destruct (next_cases ts) as [E|E]; [rewrite E|]; lia. Qed.

Lemma kis_diff t k k' : bytes_eqb (bs k) (bs k') = false -> kis t k = true -> kis t k' = false.
Proof. unfold kis. intros D H. apply bytes_eqb_eq in H. rewrite H. exact D. Qed.

(* advancing from a token of kind k to a token of another kind k' moves *)
Lemma next_moves ts k k' : bytes_eqb (bs k) (bs k') = false -> kis (cur ts) k = true -> kis (cur (next ts)) k' = true ->
  S (length (next ts)) = length ts.
Proof.
  intros D A B. destruct (next_cases ts) as [E|E]; [|exact E]. rewrite E in B. rewrite (kis_diff _ _ _ D A) in B. discriminate.
Qed.

Lemma expect_ok k ts t r : expect k ts = Ok (t, r) -> kis (cur ts) k = true /\ t = cur ts /\ r = next ts.
Proof. unfold expect. destruct (kis (cur ts) k); intros H; inversion H; auto. Qed.

Lemma parse_ident_ok ts i r : parse_ident ts = Ok (i, r) -> kis (cur ts) K_ident = true /\ i = mk_ident (cur ts) /\ r = next ts.
Proof.
  unfold parse_ident. destruct (expect K_ident ts) as [[t r0]| | |] eqn:E; cbn [bind]; intros H; inversion H; subst.
  apply expect_ok in E as (A & -> & ->). auto.
Qed.

Lemma set_cur_length t ts : length (set_cur t ts) = length ts.
Proof. destruct ts; reflexivity. Qed.

Lemma close_angle_le ts g r : close_angle ts = Ok (g, r) -> length r <= length ts.
Proof.
  unfold close_angle. destruct (kis (cur ts) ">>").
  - intros H. inversion H; subst. rewrite set_cur_length. lia.
  - destruct (expect ">" ts) as [[t r0]| | |] eqn:E; cbn [bind]; intros H; inversion H; subst.
    apply expect_ok in E as (_ & _ & ->). apply next_le.
Qed.

(* what a recursive call is known to satisfy *)
Definition shrinks (pt : toks -> res (ty * toks)) : Prop :=
  forall ts t r, pt ts = Ok (t, r) -> length r <= length ts /\ type_start (cur ts) = true.

Lemma path_more_le : forall n acc ts ids r, path_more n acc ts = Ok (ids, r) -> length r <= length ts.
Proof.
  induction n as [|n IH]; intros acc ts ids r H; [discriminate|]. cbn [path_more] in H.
  destruct (kis (cur ts) "."); [|inversion H; subst; lia].
  destruct (parse_ident (next ts)) as [[i ts1]| | |] eqn:E; cbn [bind] in H; try discriminate.
  apply parse_ident_ok in E as (_ & _ & ->). apply IH in H. pose proof (next_le ts). pose proof (next_le (next ts)). lia.
Qed.

Lemma pfield_le pt ts x r : shrinks pt -> pfield pt ts = Ok (x, r) -> length r <= length ts /\ type_start (cur ts) = true.
Proof.
  intros Sh H. unfold pfield in H. destruct (kis (cur ts) K_ident && type_start (cur (next ts))) eqn:C.
  - destruct (pt (next ts)) as [[t r0]| | |] eqn:E; cbn [bind] in H; inversion H; subst.
    apply Sh in E as [L _]. apply andb_true_iff in C as [C _]. unfold type_start. rewrite C. pose proof (next_le ts). split; [lia|reflexivity].
  - destruct (pt ts) as [[t r0]| | |] eqn:E; cbn [bind] in H; inversion H; subst. apply Sh in E. exact E.
Qed.

Lemma type_start_not_comma t : type_start t = true -> kis t "," = false.
Proof.
  unfold type_start. intros H. apply orb_true_iff in H as [H|H]; [apply orb_true_iff in H as [H|H]|];
    eapply kis_diff; try exact H; reflexivity.
Qed.

Lemma fields_more_le pt : shrinks pt -> forall n acc ts fs r, fields_more pt n acc ts = Ok (fs, r) -> length r <= length ts.
Proof.
  intros Sh. induction n as [|n IH]; intros acc ts fs r H; [discriminate|]. cbn [fields_more] in H.
  destruct (kis (cur ts) ","); [|inversion H; subst; lia].
  destruct (pfield pt (next ts)) as [[fl ts1]| | |] eqn:E; cbn [bind] in H; try discriminate.
  apply (pfield_le pt _ _ _ Sh) in E as [L _]. apply IH in H. pose proof (next_le ts). lia.
Qed.

Lemma tstep_shrinks pt n : shrinks pt -> forall ts t r, tstep pt n ts = Ok (t, r) -> length r <= length ts /\ type_start (cur ts) = true.
Proof.
  intros Sh ts t r H. unfold tstep in H. unfold type_start.
  destruct (kis (cur ts) K_ident) eqn:KI.
  { split; [|reflexivity]. destruct (simple_name (cur ts)).
    - inversion H; subst. apply next_le.
    - destruct (path_more n [mk_ident (cur ts)] (next ts)) as [[ids r0]| | |] eqn:E; cbn [bind] in H; inversion H; subst.
      apply path_more_le in E. pose proof (next_le ts). lia. }
  destruct (kis (cur ts) "ARRAY") eqn:KA.
  { split; [|reflexivity].
    destruct (expect "<" (next ts)) as [[x ts1]| | |] eqn:E1; cbn [bind] in H; try discriminate.
    destruct (pt ts1) as [[it ts2]| | |] eqn:E2; cbn [bind] in H; try discriminate.
    destruct (close_angle ts2) as [[g ts3]| | |] eqn:E3; cbn [bind] in H; inversion H; subst.
    apply expect_ok in E1 as (_ & _ & ->). apply Sh in E2 as [L2 _]. apply close_angle_le in E3.
    pose proof (next_le ts). pose proof (next_le (next ts)). lia. }
  destruct (kis (cur ts) "STRUCT") eqn:KS; [|discriminate]. split; [|reflexivity].
  pose proof (next_le ts). pose proof (next_le (next ts)). pose proof (next_le (next (next ts))).
  destruct (kis (cur (next ts)) "<>"); [inversion H; subst; lia|].
  destruct (negb (kis (cur (next ts)) "<")); [discriminate|].
  destruct (kis (cur (next (next ts))) ">" || kis (cur (next (next ts))) ">>").
  - cbn [bind] in H. destruct (close_angle (next (next ts))) as [[g ts4]| | |] eqn:E3; cbn [bind] in H; inversion H; subst.
    apply close_angle_le in E3. lia.
  - destruct (pfield pt (next (next ts))) as [[f1 ts3]| | |] eqn:E1; cbn [bind] in H; try discriminate.
    destruct (fields_more pt n [f1] ts3) as [[fs ts4]| | |] eqn:E2; cbn [bind] in H; try discriminate.
    destruct (close_angle ts4) as [[g ts5]| | |] eqn:E3; cbn [bind] in H; inversion H; subst.
    apply (pfield_le pt _ _ _ Sh) in E1 as [L1 _]. apply (fields_more_le pt Sh) in E2. apply close_angle_le in E3. lia.
Qed.

Lemma PT_shrinks : forall f, shrinks (PT f).
Proof.
  induction f as [|f IH]; intros ts t r H; [discriminate|]. cbn [PT] in H. eapply tstep_shrinks; eauto.
Qed.

Lemma parse_ident_nofuel ts : parse_ident ts <> Fuel.
Proof. unfold parse_ident, expect. destruct (kis (cur ts) K_ident); cbn [bind]; discriminate. Qed.

Lemma path_more_total : forall n acc ts, length ts < n -> path_more n acc ts <> Fuel.
Proof.
  induction n as [|n IH]; intros acc ts L; [lia|]. cbn [path_more].
  destruct (kis (cur ts) ".") eqn:D; [|discriminate].
  destruct (parse_ident (next ts)) as [[i ts1]| | |] eqn:E; cbn [bind]; try discriminate.
  - apply parse_ident_ok in E as (KI & _ & ->). apply IH.
    pose proof (next_moves ts "." K_ident eq_refl D KI). pose proof (next_le (next ts)). lia.
  - exfalso. exact (parse_ident_nofuel _ E).
Qed.

Lemma expect_nofuel k ts : expect k ts <> Fuel.
Proof. unfold expect. destruct (kis (cur ts) k); discriminate. Qed.
Lemma close_angle_nofuel ts : close_angle ts <> Fuel.
Proof. unfold close_angle, expect. destruct (kis (cur ts) ">>"); [discriminate|]. destruct (kis (cur ts) ">"); cbn [bind]; discriminate. Qed.

Ltac nofuel :=
  match goal with
  | E : expect _ _ = Fuel |- _ => exfalso; exact (expect_nofuel _ _ E)
  | E : close_angle _ = Fuel |- _ => exfalso; exact (close_angle_nofuel _ E)
  | E : parse_ident _ = Fuel |- _ => exfalso; exact (parse_ident_nofuel _ E)
  end.

(* a recursive call that terminates on every input of length <= m *)
Definition total_upto (pt : toks -> res (ty * toks)) (m : nat) : Prop := forall ts, length ts <= m -> pt ts <> Fuel.

Lemma pfield_total pt m ts : total_upto pt m -> length ts <= m -> pfield pt ts <> Fuel.
Proof.
  intros T L. unfold pfield. pose proof (next_le ts). destruct (kis (cur ts) K_ident && type_start (cur (next ts))).
  - destruct (pt (next ts)) as [[t r]| | |] eqn:E; cbn [bind]; try discriminate. exfalso. apply (T (next ts)); [lia|exact E].
  - destruct (pt ts) as [[t r]| | |] eqn:E; cbn [bind]; try discriminate. exfalso. apply (T ts); [lia|exact E].
Qed.

Lemma fields_more_total pt m : shrinks pt -> total_upto pt m -> forall n acc ts, length ts <= m -> length ts < n -> fields_more pt n acc ts <> Fuel.
Proof.
  intros Sh T. induction n as [|n IH]; intros acc ts Lm L; [lia|]. cbn [fields_more].
  destruct (kis (cur ts) ",") eqn:C; [|discriminate]. pose proof (next_le ts).
  destruct (pfield pt (next ts)) as [[fl ts1]| | |] eqn:E; cbn [bind]; try discriminate.
  - pose proof (pfield_le pt _ _ _ Sh E) as [L1 TS].
    assert (M : S (length (next ts)) = length ts).
    { destruct (next_cases ts) as [Q|Q]; [|exact Q]. rewrite Q in TS. apply type_start_not_comma in TS. congruence. }
    apply IH; lia.
  - exfalso. apply (pfield_total pt m (next ts) T); [lia|exact E].
Qed.

Lemma tstep_total pt m n ts : shrinks pt -> total_upto pt m -> length ts <= S m -> length ts <= n -> tstep pt n ts <> Fuel.
Proof.
  intros Sh T Lm Ln. unfold tstep. pose proof (next_le ts). pose proof (next_le (next ts)).
  destruct (kis (cur ts) K_ident) eqn:KI.
  { destruct (simple_name (cur ts)); [discriminate|].
    destruct (path_more n [mk_ident (cur ts)] (next ts)) as [[ids r]| | |] eqn:E; cbn [bind]; try discriminate.
    exfalso. destruct (kis (cur (next ts)) ".") eqn:D.
    - revert E. apply path_more_total. pose proof (next_moves ts K_ident "." eq_refl KI D). lia.
    - destruct n as [|n]; [destruct ts; [cbn in KI; discriminate KI|cbn in Ln; lia]|].
      cbn [path_more] in E. rewrite D in E. discriminate E. }
  destruct (kis (cur ts) "ARRAY") eqn:KA.
  { destruct (expect "<" (next ts)) as [[x ts1]| | |] eqn:E1; cbn [bind]; try discriminate; try nofuel.
    apply expect_ok in E1 as (KL & _ & ->).
    pose proof (next_moves ts "ARRAY" "<" eq_refl KA KL).
    destruct (pt (next (next ts))) as [[it ts2]| | |] eqn:E2; cbn [bind]; try discriminate.
    - destruct (close_angle ts2) as [[g ts3]| | |] eqn:E3; cbn [bind]; try discriminate; nofuel.
    - exfalso. apply (T (next (next ts))); [lia|exact E2]. }
  destruct (kis (cur ts) "STRUCT") eqn:KS; [|discriminate].
  destruct (kis (cur (next ts)) "<>"); [discriminate|].
  destruct (kis (cur (next ts)) "<") eqn:KL; cbn [negb]; [|discriminate].
  pose proof (next_moves ts "STRUCT" "<" eq_refl KS KL). pose proof (next_le (next (next ts))).
  destruct (kis (cur (next (next ts))) ">" || kis (cur (next (next ts))) ">>").
  - cbn [bind]. destruct (close_angle (next (next ts))) as [[g ts4]| | |] eqn:E3; cbn [bind]; try discriminate; nofuel.
  - destruct (pfield pt (next (next ts))) as [[f1 ts3]| | |] eqn:E1; cbn [bind]; try discriminate.
    + pose proof (pfield_le pt _ _ _ Sh E1) as [L1 _].
      destruct (fields_more pt n [f1] ts3) as [[fs ts4]| | |] eqn:E2; cbn [bind]; try discriminate.
      * destruct (close_angle ts4) as [[g ts5]| | |] eqn:E3; cbn [bind]; try discriminate; nofuel.
      * exfalso. revert E2. apply (fields_more_total pt m Sh T); lia.
    + exfalso. apply (pfield_total pt m (next (next ts)) T); [lia|exact E1].
Qed.

Theorem PT_total : forall f ts, length ts <= f -> PT (S f) ts <> Fuel.
Proof.
  induction f as [|f IH]; intros ts L.
  - destruct ts; [|cbn in L; lia]. vm_compute. discriminate.
  - cbn [PT]. apply (tstep_total (PT (S f)) f (S f) ts); [apply PT_shrinks| |lia|lia].
    intros ts0 L0. apply IH. exact L0.
Qed.

(* ---------- the grammar of types, with positions: [Tr t ts K] -- the token list ts consists of the tokens of the type t followed by K,
   and every position recorded in t is the position of the token it is documented to be.  Closing brackets are tokens of their own
   here (see [unfuse] below for ">>"). ---------- *)
Inductive TrPath : list ident -> toks -> toks -> Prop :=
| TrP0 K : TrPath [] K K
| TrPCons d i ts K ids : kis d "." = true -> kis i K_ident = true -> TrPath ids ts K -> TrPath (mk_ident i :: ids) (d :: i :: ts) K.

Inductive Tr : ty -> toks -> toks -> Prop :=
| TrSimple t K nm : kis t K_ident = true -> simple_name t = Some nm -> Tr (TSimple (ppos t) nm) (t :: K) K
| TrNamed t ts K ids : kis t K_ident = true -> simple_name t = None -> TrPath ids ts K -> kis (cur K) "." = false ->
                       Tr (TNamed (mk_ident t :: ids)) (t :: ts) K
| TrArray a lt ts g K it : kis a "ARRAY" = true -> kis lt "<" = true -> Tr it ts (g :: K) -> kis g ">" = true ->
                           Tr (TArray (ppos a) (ppos g) it) (a :: lt :: ts) K
| TrStruct0 s e K : kis s "STRUCT" = true -> kis e "<>" = true -> Tr (TStruct (ppos s) (ppos e + 1) []) (s :: e :: K) K
| TrStruct1 s lt g K : kis s "STRUCT" = true -> kis lt "<" = true -> kis g ">" = true -> Tr (TStruct (ppos s) (ppos g) []) (s :: lt :: g :: K) K
| TrStructN s lt ts ts1 g K f fs : kis s "STRUCT" = true -> kis lt "<" = true -> TrField f ts ts1 -> TrMore fs ts1 (g :: K) -> kis g ">" = true ->
                                   Tr (TStruct (ppos s) (ppos g) (f :: fs)) (s :: lt :: ts) K
with TrField : option ident * ty -> toks -> toks -> Prop :=
| TrFNamed n ts K t : kis n K_ident = true -> type_start (cur ts) = true -> Tr t ts K -> TrField (Some (mk_ident n), t) (n :: ts) K
| TrFAnon ts K t : Tr t ts K -> kis (cur ts) K_ident && type_start (cur (next ts)) = false -> TrField (None, t) ts K
with TrMore : list (option ident * ty) -> toks -> toks -> Prop :=
| TrM0 K : TrMore [] K K
| TrMCons c ts ts1 K f fs : kis c "," = true -> TrField f ts ts1 -> TrMore fs ts1 K -> TrMore (f :: fs) (c :: ts) K.

Scheme Tr_mind := Minimality for Tr Sort Prop
  with TrField_mind := Minimality for TrField Sort Prop
  with TrMore_mind := Minimality for TrMore Sort Prop.
Combined Scheme Tr_mutind from Tr_mind, TrField_mind, TrMore_mind.

Lemma next_cons t K : K <> [] -> next (t :: K) = K.
Proof. destruct K; [congruence|reflexivity]. Qed.

Lemma TrPath_nonempty ids ts K : TrPath ids ts K -> K <> [] -> ts <> [].
Proof. intros H NE. destruct H; [exact NE|discriminate]. Qed.

Lemma Tr_nonempty :
  (forall t ts K, Tr t ts K -> ts <> []) /\ (forall f ts K, TrField f ts K -> K <> [] -> ts <> []) /\ (forall fs ts K, TrMore fs ts K -> K <> [] -> ts <> []).
Proof.
  apply Tr_mutind; intros; try discriminate; auto.
Qed.

(* the loop of parseIdentOrPath over a spelled path *)
Lemma path_more_spell : forall ids ts K, TrPath ids ts K -> K <> [] -> kis (cur K) "." = false ->
  forall n acc, length ids < n -> path_more n acc ts = Ok ((acc ++ ids)%list, K).
Proof.
  induction 1 as [K|d i ts K ids Hd Hi H IH]; intros NE ND n acc L.
  - destruct n as [|n]; [lia|]. cbn [path_more]. rewrite ND, app_nil_r. reflexivity.
  - destruct n as [|n]; [cbn in L; lia|]. cbn [length] in L.
    pose proof (IH NE ND n (acc ++ [mk_ident i])%list ltac:(lia)) as E.
    cbn [path_more cur]. rewrite Hd.
    assert (N1 : ts <> []) by (eapply TrPath_nonempty; eauto).
    rewrite (next_cons d) by discriminate. unfold parse_ident, expect. cbn [cur]. rewrite Hi. cbn [bind].
    rewrite (next_cons i _ N1). rewrite E. rewrite <- app_assoc. reflexivity.
Qed.

Lemma kd t k k' : kis t k = true -> bytes_eqb (bs k) (bs k') = false -> kis t k' = false.
Proof. intros H D. eapply kis_diff; eauto. Qed.

Lemma type_start_ident t : kis t K_ident = true -> type_start t = true.
Proof. unfold type_start. intros ->. reflexivity. Qed.
Lemma type_start_array t : kis t "ARRAY" = true -> type_start t = true.
Proof. unfold type_start. intros ->. rewrite orb_true_r. reflexivity. Qed.
Lemma type_start_struct t : kis t "STRUCT" = true -> type_start t = true.
Proof. unfold type_start. intros ->. rewrite orb_true_r. reflexivity. Qed.

Lemma Tr_start :
  (forall t ts K, Tr t ts K -> type_start (cur ts) = true) /\ (forall f ts K, TrField f ts K -> type_start (cur ts) = true) /\
  (forall fs ts K, TrMore fs ts K -> True).
Proof.
  apply Tr_mutind; intros; cbn [cur]; auto using type_start_ident, type_start_array, type_start_struct.
Qed.

Lemma type_start_not_gt t : type_start t = true -> kis t ">" || kis t ">>" = false.
Proof.
  unfold type_start. intros H. apply orb_true_iff in H as [H|H]; [apply orb_true_iff in H as [H|H]|];
    rewrite (kd _ _ ">" H eq_refl), (kd _ _ ">>" H eq_refl); reflexivity.
Qed.

Lemma close_angle_gt g K : kis g ">" = true -> K <> [] -> close_angle (g :: K) = Ok (ppos g, K).
Proof.
  intros G NE. unfold close_angle, expect. cbn [cur]. rewrite (kd _ _ ">>" G eq_refl), G. cbn [bind]. rewrite (next_cons _ _ NE). reflexivity.
Qed.

(* one call of parseType on each spelled form *)
Lemma tstep_simple pt n t K nm : kis t K_ident = true -> simple_name t = Some nm -> K <> [] ->
  tstep pt n (t :: K) = Ok (TSimple (ppos t) nm, K).
Proof. intros A B NE. unfold tstep. cbn [cur]. rewrite A, B, (next_cons _ _ NE). reflexivity. Qed.

Lemma tstep_named pt n t ts ids K : kis t K_ident = true -> simple_name t = None -> ts <> [] ->
  path_more n [mk_ident t] ts = Ok (ids, K) -> tstep pt n (t :: ts) = Ok (TNamed ids, K).
Proof. intros A B NE H. unfold tstep. cbn [cur]. rewrite A, B, (next_cons _ _ NE), H. reflexivity. Qed.

Lemma tstep_array pt n a lt ts it g K : kis a "ARRAY" = true -> kis lt "<" = true -> ts <> [] -> K <> [] ->
  pt ts = Ok (it, g :: K) -> kis g ">" = true -> tstep pt n (a :: lt :: ts) = Ok (TArray (ppos a) (ppos g) it, K).
Proof.
  intros A B N1 N2 H G. unfold tstep. cbn [cur]. rewrite (kd _ _ K_ident A eq_refl), A.
  rewrite (next_cons a) by discriminate. unfold expect. cbn [cur]. rewrite B. cbn [bind]. rewrite (next_cons _ _ N1), H. cbn [bind].
  rewrite (close_angle_gt g K G N2). reflexivity.
Qed.

Lemma tstep_struct0 pt n s e K : kis s "STRUCT" = true -> kis e "<>" = true -> K <> [] ->
  tstep pt n (s :: e :: K) = Ok (TStruct (ppos s) (ppos e + 1) [], K).
Proof.
  intros A B NE. unfold tstep. cbn [cur]. rewrite (kd _ _ K_ident A eq_refl), (kd _ _ "ARRAY" A eq_refl), A.
  rewrite (next_cons s) by discriminate. cbn [cur]. rewrite B, (next_cons _ _ NE). reflexivity.
Qed.

Lemma tstep_struct1 pt n s lt g K : kis s "STRUCT" = true -> kis lt "<" = true -> kis g ">" = true -> K <> [] ->
  tstep pt n (s :: lt :: g :: K) = Ok (TStruct (ppos s) (ppos g) [], K).
Proof.
  intros A B G NE. unfold tstep. cbn [cur]. rewrite (kd _ _ K_ident A eq_refl), (kd _ _ "ARRAY" A eq_refl), A.
  rewrite (next_cons s) by discriminate. cbn [cur]. rewrite (kd _ _ "<>" B eq_refl), B. cbn [negb].
  rewrite (next_cons lt) by discriminate. cbn [cur]. rewrite G. cbn [orb bind]. rewrite (close_angle_gt g K G NE). reflexivity.
Qed.

Lemma tstep_structn pt n s lt ts f1 ts1 fs g K : kis s "STRUCT" = true -> kis lt "<" = true -> ts <> [] -> K <> [] ->
  type_start (cur ts) = true -> pfield pt ts = Ok (f1, ts1) -> fields_more pt n [f1] ts1 = Ok (fs, g :: K) -> kis g ">" = true ->
  tstep pt n (s :: lt :: ts) = Ok (TStruct (ppos s) (ppos g) fs, K).
Proof.
  intros A B N1 N2 TS H1 H2 G. unfold tstep. cbn [cur]. rewrite (kd _ _ K_ident A eq_refl), (kd _ _ "ARRAY" A eq_refl), A.
  rewrite (next_cons s) by discriminate. cbn [cur]. rewrite (kd _ _ "<>" B eq_refl), B. cbn [negb].
  rewrite (next_cons _ _ N1). rewrite (type_start_not_gt _ TS). rewrite H1. cbn [bind]. rewrite H2. cbn [bind].
  rewrite (close_angle_gt g K G N2). reflexivity.
Qed.

Definition Acc_ty (t : ty) (ts K : toks) : Prop := K <> [] -> exists f0, forall f, f0 <= f -> PT f ts = Ok (t, K).
Definition Acc_field (x : option ident * ty) (ts K : toks) : Prop := K <> [] -> exists f0, forall f, f0 <= f -> pfield (PT f) ts = Ok (x, K).
Definition Acc_more (xs : list (option ident * ty)) (ts K : toks) : Prop :=
  K <> [] -> kis (cur K) "," = false ->
  exists f0, forall f n acc, f0 <= f -> length xs < n -> fields_more (PT f) n acc ts = Ok ((acc ++ xs)%list, K).

(* acceptance: every token list of the grammar is parsed, to exactly the tree the grammar assigns to it *)
Theorem spelled_types_parse :
  (forall t ts K, Tr t ts K -> Acc_ty t ts K) /\ (forall f ts K, TrField f ts K -> Acc_field f ts K) /\ (forall fs ts K, TrMore fs ts K -> Acc_more fs ts K).
Proof.
  apply Tr_mutind.
  - (* simple type *)
    intros t K nm A B NE. exists 1. intros f L. destruct f as [|f]; [lia|]. cbn [PT]. apply (tstep_simple _ _ t K nm A B NE).
  - (* named type *)
    intros t ts K ids A B HP ND NE. exists (length ids + 2). intros f L. destruct f as [|f]; [lia|].
    pose proof (path_more_spell ids ts K HP NE ND f [mk_ident t] ltac:(lia)) as E.
    cbn [PT]. apply (tstep_named _ _ t ts _ K A B (TrPath_nonempty _ _ _ HP NE) E).
  - (* ARRAY< item > *)
    intros a lt ts g K it A B HS IH G NE. destruct (IH ltac:(discriminate)) as [f0 H0]. exists (S f0). intros f L. destruct f as [|f]; [lia|].
    cbn [PT]. apply (tstep_array _ _ a lt ts it g K A B (proj1 Tr_nonempty _ _ _ HS) NE (H0 f ltac:(lia)) G).
  - (* STRUCT<> *)
    intros s e K A B NE. exists 1. intros f L. destruct f as [|f]; [lia|]. cbn [PT]. apply (tstep_struct0 _ _ s e K A B NE).
  - (* STRUCT< > *)
    intros s lt g K A B G NE. exists 1. intros f L. destruct f as [|f]; [lia|]. cbn [PT]. apply (tstep_struct1 _ _ s lt g K A B G NE).
  - (* STRUCT< f1, ... > *)
    intros s lt ts ts1 g K f1 fs A B HF IHF HM IHM G NE.
    assert (N1 : ts1 <> []) by (apply (proj2 (proj2 Tr_nonempty) _ _ _ HM); discriminate).
    assert (N0 : ts <> []) by (apply (proj1 (proj2 Tr_nonempty) _ _ _ HF N1)).
    destruct (IHF N1) as [fa Ha]. destruct (IHM ltac:(discriminate) (kis_diff g ">" "," eq_refl G)) as [fb Hb].
    exists (S (S (fa + fb + length fs))). intros f L. destruct f as [|f]; [lia|].
    cbn [PT].
    apply (tstep_structn _ _ s lt ts f1 ts1 _ g K A B N0 NE (proj1 (proj2 Tr_start) _ _ _ HF) (Ha f ltac:(lia)) (Hb f f [f1] ltac:(lia) ltac:(lia)) G).
  - (* field with a name *)
    intros n ts K t A TS HS IH NE. destruct (IH NE) as [f0 H0]. exists f0. intros f L.
    unfold pfield. cbn [cur]. rewrite A. rewrite (next_cons _ _ (proj1 Tr_nonempty _ _ _ HS)), TS. cbn [andb].
    rewrite (H0 f L). reflexivity.
  - (* field without a name *)
    intros ts K t HS IH C NE. destruct (IH NE) as [f0 H0]. exists f0. intros f L. unfold pfield. rewrite C, (H0 f L). reflexivity.
  - (* no further field *)
    intros K NE NC. exists 0. intros f n acc _ L. destruct n as [|n]; [cbn in L; lia|]. cbn [fields_more]. rewrite NC, app_nil_r. reflexivity.
  - (* , field ... *)
    intros c ts ts1 K f1 fs C HF IHF HM IHM NE NC.
    assert (N1 : ts1 <> []) by (apply (proj2 (proj2 Tr_nonempty) _ _ _ HM NE)).
    assert (N0 : ts <> []) by (apply (proj1 (proj2 Tr_nonempty) _ _ _ HF N1)).
    destruct (IHF N1) as [fa Ha]. destruct (IHM NE NC) as [fb Hb]. exists (fa + fb). intros f n acc L Ln.
    destruct n as [|n]; [cbn in Ln; lia|]. cbn [length] in Ln.
    cbn [fields_more cur]. rewrite C, (next_cons _ _ N0), (Ha f ltac:(lia)). cbn [bind].
    rewrite (Hb f n (acc ++ [f1])%list ltac:(lia) ltac:(lia)), <- app_assoc. reflexivity.
Qed.

(* ---------- ">>" is two closing brackets: the parser gives the same answer on the token list in which every ">>" is replaced by
   two ">" tokens (at the byte positions of its two halves) ---------- *)
Definition first_half (t : ptok) : ptok := {| pk := bs ">"; praw := bs ">"; pstr := pstr t; ppos := ppos t; pend := (ppos t + 1)%Z; pbase := pbase t |}.

Fixpoint unfuse (ts : toks) : toks :=
  match ts with
  | [] => []
  | t :: r => if kis t ">>" then first_half t :: half_gt t :: unfuse r else t :: unfuse r
  end.

Definition rmapU {A} (r : res (A * toks)) : res (A * toks) :=
  match r with Ok (a, ts) => Ok (a, unfuse ts) | Err p => Err p | Unsup => Unsup | Fuel => Fuel end.

Lemma unfuse_nonempty ts : ts <> [] -> unfuse ts <> [].
Proof. destruct ts as [|t r]; [congruence|]. intros _. cbn [unfuse]. destruct (kis t ">>"); discriminate. Qed.

Lemma cur_unfuse_other ts : kis (cur ts) ">>" = false -> cur (unfuse ts) = cur ts.
Proof. destruct ts as [|t r]; [reflexivity|]. cbn [cur unfuse]. intros ->. reflexivity. Qed.

Lemma cur_unfuse_gtgt ts : kis (cur ts) ">>" = true -> cur (unfuse ts) = first_half (cur ts).
Proof. destruct ts as [|t r]; [cbn; discriminate|]. cbn [cur unfuse]. intros ->. reflexivity. Qed.

Lemma next_unfuse ts : kis (cur ts) ">>" = false -> next (unfuse ts) = unfuse (next ts).
Proof.
  destruct ts as [|t [|u r]]; [reflexivity| |]; cbn [cur]; intros H.
  - change (next [t]) with [t]. cbn [unfuse]. rewrite H. reflexivity.
  - change (next (t :: u :: r)) with (u :: r). cbn [unfuse]. rewrite H.
    apply next_cons. change (unfuse (u :: r) <> []). apply unfuse_nonempty. discriminate.
Qed.

Lemma ppos_cur_unfuse ts : ppos (cur (unfuse ts)) = ppos (cur ts).
Proof.
  destruct (kis (cur ts) ">>") eqn:G; [rewrite (cur_unfuse_gtgt _ G); reflexivity|rewrite (cur_unfuse_other _ G); reflexivity].
Qed.

(* a kind other than ">" and ">>" is tested with the same result *)
Lemma kis_cur_unfuse ts k : bytes_eqb (bs ">") (bs k) = false -> bytes_eqb (bs ">>") (bs k) = false -> kis (cur (unfuse ts)) k = kis (cur ts) k.
Proof.
  intros D1 D2. destruct (kis (cur ts) ">>") eqn:G; [|rewrite (cur_unfuse_other _ G); reflexivity].
  rewrite (cur_unfuse_gtgt _ G). rewrite (kd _ _ k G D2). unfold kis, first_half. cbn [pk]. exact D1.
Qed.

Lemma gt_cur_unfuse ts : kis (cur (unfuse ts)) ">" || kis (cur (unfuse ts)) ">>" = kis (cur ts) ">" || kis (cur ts) ">>".
Proof.
  destruct (kis (cur ts) ">>") eqn:G; [|rewrite (cur_unfuse_other _ G), G; reflexivity].
  rewrite (cur_unfuse_gtgt _ G). rewrite orb_true_r. reflexivity.
Qed.

Lemma type_start_cur_unfuse ts : type_start (cur (unfuse ts)) = type_start (cur ts).
Proof. unfold type_start. rewrite !kis_cur_unfuse by reflexivity. reflexivity. Qed.

Lemma not_gtgt_of ts k : bytes_eqb (bs k) (bs ">>") = false -> kis (cur ts) k = true -> kis (cur ts) ">>" = false.
Proof. intros D H. exact (kd _ _ _ H D). Qed.

Lemma expect_unfuse k ts : bytes_eqb (bs ">") (bs k) = false -> bytes_eqb (bs ">>") (bs k) = false ->
  expect k (unfuse ts) = rmapU (expect k ts).
Proof.
  intros D1 D2. unfold expect. rewrite (kis_cur_unfuse ts k D1 D2), ppos_cur_unfuse.
  destruct (kis (cur ts) k) eqn:K; [|reflexivity]. cbn [rmapU].
  assert (G : kis (cur ts) ">>" = false).
  { destruct (kis (cur ts) ">>") eqn:G; [|reflexivity]. rewrite (kd _ _ k G D2) in K. discriminate. }
  rewrite (cur_unfuse_other _ G), (next_unfuse _ G). reflexivity.
Qed.

Lemma close_angle_unfuse ts : close_angle (unfuse ts) = rmapU (close_angle ts).
Proof.
  unfold close_angle. destruct (kis (cur ts) ">>") eqn:G.
  - destruct ts as [|t r]; [cbn in G; discriminate|]. cbn [cur] in G. cbn [unfuse cur set_cur rmapU]. rewrite G. cbn [cur].
    change (kis (first_half t) ">>") with false. cbv iota. unfold expect. cbn [cur]. change (kis (first_half t) ">") with true. cbv iota. cbn [bind].
    rewrite next_cons by discriminate. change (kis (half_gt t) ">>") with false. cbv iota. reflexivity.
  - rewrite (cur_unfuse_other _ G), G. unfold expect. rewrite (cur_unfuse_other _ G).
    destruct (kis (cur ts) ">"); cbn [bind rmapU]; [|reflexivity]. rewrite (next_unfuse _ G). reflexivity.
Qed.

Lemma parse_ident_unfuse ts : parse_ident (unfuse ts) = rmapU (parse_ident ts).
Proof.
  unfold parse_ident. rewrite (expect_unfuse K_ident ts eq_refl eq_refl).
  destruct (expect K_ident ts) as [[t r]| | |]; reflexivity.
Qed.

Lemma path_more_unfuse : forall n acc ts, path_more n acc (unfuse ts) = rmapU (path_more n acc ts).
Proof.
  induction n as [|n IH]; intros acc ts; [reflexivity|]. cbn [path_more].
  rewrite (kis_cur_unfuse ts "." eq_refl eq_refl). destruct (kis (cur ts) ".") eqn:D; [|reflexivity].
  rewrite (next_unfuse _ (not_gtgt_of ts "." eq_refl D)), parse_ident_unfuse.
  destruct (parse_ident (next ts)) as [[i r]| | |]; cbn [bind rmapU]; try reflexivity. apply IH.
Qed.

Definition commutes (pt : toks -> res (ty * toks)) : Prop := forall ts, pt (unfuse ts) = rmapU (pt ts).

Lemma pfield_unfuse pt ts : commutes pt -> pfield pt (unfuse ts) = rmapU (pfield pt ts).
Proof.
  intros C. unfold pfield. rewrite (kis_cur_unfuse ts K_ident eq_refl eq_refl).
  destruct (kis (cur ts) K_ident) eqn:KI; cbn [andb].
  - pose proof (not_gtgt_of ts K_ident eq_refl KI) as G. rewrite (next_unfuse _ G), type_start_cur_unfuse, (cur_unfuse_other _ G).
    destruct (type_start (cur (next ts))).
    + rewrite C. destruct (pt (next ts)) as [[t r]| | |]; reflexivity.
    + rewrite C. destruct (pt ts) as [[t r]| | |]; reflexivity.
  - rewrite C. destruct (pt ts) as [[t r]| | |]; reflexivity.
Qed.

Lemma fields_more_unfuse pt : commutes pt -> forall n acc ts, fields_more pt n acc (unfuse ts) = rmapU (fields_more pt n acc ts).
Proof.
  intros C. induction n as [|n IH]; intros acc ts; [reflexivity|]. cbn [fields_more].
  rewrite (kis_cur_unfuse ts "," eq_refl eq_refl). destruct (kis (cur ts) ",") eqn:D; [|reflexivity].
  rewrite (next_unfuse _ (not_gtgt_of ts "," eq_refl D)), (pfield_unfuse pt _ C).
  destruct (pfield pt (next ts)) as [[fl r]| | |]; cbn [bind rmapU]; try reflexivity. apply IH.
Qed.

Lemma tstep_unfuse pt n : commutes pt -> commutes (tstep pt n).
Proof.
  intros C ts. unfold tstep. rewrite ppos_cur_unfuse.
  rewrite (kis_cur_unfuse ts K_ident eq_refl eq_refl), (kis_cur_unfuse ts "ARRAY" eq_refl eq_refl), (kis_cur_unfuse ts "STRUCT" eq_refl eq_refl).
  destruct (kis (cur ts) K_ident) eqn:KI.
  { pose proof (not_gtgt_of ts K_ident eq_refl KI) as G. rewrite (cur_unfuse_other _ G), (next_unfuse _ G).
    destruct (simple_name (cur ts)); [reflexivity|]. rewrite path_more_unfuse.
    destruct (path_more n [mk_ident (cur ts)] (next ts)) as [[ids r]| | |]; reflexivity. }
  destruct (kis (cur ts) "ARRAY") eqn:KA.
  { pose proof (not_gtgt_of ts "ARRAY" eq_refl KA) as G. rewrite (next_unfuse _ G), (expect_unfuse "<" _ eq_refl eq_refl).
    destruct (expect "<" (next ts)) as [[x ts1]| | |]; cbn [bind rmapU]; try reflexivity.
    rewrite C. destruct (pt ts1) as [[it ts2]| | |]; cbn [bind rmapU]; try reflexivity.
    rewrite close_angle_unfuse. destruct (close_angle ts2) as [[g ts3]| | |]; reflexivity. }
  destruct (kis (cur ts) "STRUCT") eqn:KS; [|reflexivity].
  pose proof (not_gtgt_of ts "STRUCT" eq_refl KS) as G. rewrite (next_unfuse _ G).
  rewrite (kis_cur_unfuse (next ts) "<>" eq_refl eq_refl), (kis_cur_unfuse (next ts) "<" eq_refl eq_refl), ppos_cur_unfuse.
  destruct (kis (cur (next ts)) "<>") eqn:KE.
  { rewrite (next_unfuse _ (not_gtgt_of (next ts) "<>" eq_refl KE)). reflexivity. }
  destruct (kis (cur (next ts)) "<") eqn:KL; cbn [negb]; [|reflexivity].
  rewrite (next_unfuse _ (not_gtgt_of (next ts) "<" eq_refl KL)), gt_cur_unfuse.
  destruct (kis (cur (next (next ts))) ">" || kis (cur (next (next ts))) ">>").
  - cbn [bind]. rewrite close_angle_unfuse. destruct (close_angle (next (next ts))) as [[g ts4]| | |]; reflexivity.
  - rewrite (pfield_unfuse pt _ C). destruct (pfield pt (next (next ts))) as [[f1 ts3]| | |]; cbn [bind rmapU]; try reflexivity.
    rewrite (fields_more_unfuse pt C). destruct (fields_more pt n [f1] ts3) as [[fs ts4]| | |]; cbn [bind rmapU]; try reflexivity.
    rewrite close_angle_unfuse. destruct (close_angle ts4) as [[g ts5]| | |]; reflexivity.
Qed.

Theorem PT_unfuse : forall f ts, PT f (unfuse ts) = rmapU (PT f ts).
Proof.
  induction f as [|f IH]; intros ts; [reflexivity|]. cbn [PT]. apply tstep_unfuse. exact IH.
Qed.

(* ---------- soundness: whatever is accepted is a sentence of the grammar, and the returned tree is the one the grammar assigns ---------- *)
Definition plain (ts : toks) : Prop := Forall (fun t => kis t ">>" = false) ts.
Definition last_eof (ts : toks) : Prop := exists pre e, ts = (pre ++ [e])%list /\ kis e K_eof = true.

Lemma plain_next ts : plain ts -> plain (next ts).
Proof. destruct ts as [|t [|u r]]; cbn; auto. intros H. inversion H; auto. Qed.

Lemma plain_cur ts : plain ts -> kis (cur ts) ">>" = false.
Proof. destruct ts as [|t r]; [reflexivity|]. intros H. inversion H; auto. Qed.

(* a token that is not <eof> is not the last one: consuming it moves on *)
Lemma consume ts k : last_eof ts -> kis (cur ts) k = true -> bytes_eqb (bs k) (bs K_eof) = false -> ts = cur ts :: next ts /\ last_eof (next ts).
Proof.
  intros (pre & e & -> & E) H D. destruct pre as [|x pre].
  - cbn [app cur] in H. rewrite (kd _ _ _ H D) in E. discriminate.
  - cbn [app cur]. assert (N : (pre ++ [e])%list <> []) by (destruct pre; discriminate).
    rewrite (next_cons _ _ N). split; [reflexivity|]. exists pre, e. auto.
Qed.

Lemma consume' ts k : last_eof ts -> kis (cur ts) k = true -> bytes_eqb (bs k) (bs K_eof) = false ->
  exists c r, ts = c :: r /\ next (c :: r) = r /\ last_eof r.
Proof.
  intros L H D. destruct (consume ts k L H D) as [E L']. exists (cur ts), (next ts). split; [exact E|]. split; [|exact L'].
  rewrite <- E. reflexivity.
Qed.

Lemma plain_tl c r : plain (c :: r) -> plain r.
Proof. intros H. inversion H; auto. Qed.

Lemma expect_sound k ts t r : expect k ts = Ok (t, r) -> bytes_eqb (bs k) (bs K_eof) = false -> plain ts -> last_eof ts ->
  ts = t :: r /\ kis t k = true /\ plain r /\ last_eof r.
Proof.
  intros H D P L. apply expect_ok in H as (A & -> & ->). destruct (consume ts k L A D) as [E L']. split; [exact E|]. split; [exact A|].
  split; [apply plain_next, P|exact L'].
Qed.

Lemma close_angle_sound ts g r : close_angle ts = Ok (g, r) -> plain ts -> last_eof ts ->
  exists c, ts = c :: r /\ kis c ">" = true /\ g = ppos c /\ plain r /\ last_eof r.
Proof.
  intros H P L. unfold close_angle in H. rewrite (plain_cur _ P) in H.
  destruct (expect ">" ts) as [[t r0]| | |] eqn:E; cbn [bind] in H; inversion H; subst.
  apply expect_sound in E as (E1 & E2 & E3 & E4); [|reflexivity|exact P|exact L]. exists t. auto.
Qed.

Lemma path_more_sound : forall n acc ts ids K, path_more n acc ts = Ok (ids, K) -> plain ts -> last_eof ts ->
  exists more, ids = (acc ++ more)%list /\ TrPath more ts K /\ kis (cur K) "." = false /\ plain K /\ last_eof K.
Proof.
  induction n as [|n IH]; intros acc ts ids K H P L; [discriminate|]. cbn [path_more] in H.
  destruct (kis (cur ts) ".") eqn:D.
  - destruct (consume' ts "." L D eq_refl) as (d & r & -> & En & Lr). cbn [cur] in D. rewrite En in H.
    destruct (parse_ident r) as [[i ts1]| | |] eqn:E; cbn [bind] in H; try discriminate.
    apply parse_ident_ok in E as (KI & -> & ->).
    destruct (consume' r K_ident Lr KI eq_refl) as (i & r2 & -> & En2 & Lr2). cbn [cur] in *. rewrite En2 in H.
    destruct (IH _ _ _ _ H (plain_tl _ _ (plain_tl _ _ P)) Lr2) as (more & -> & SP & ND & PK & LK).
    exists (mk_ident i :: more). rewrite <- app_assoc. split; [reflexivity|]. split; [|auto].
    apply (TrPCons d i); auto.
  - inversion H; subst. exists []. rewrite app_nil_r. split; [reflexivity|]. split; [constructor|auto].
Qed.

Definition sound (pt : toks -> res (ty * toks)) : Prop :=
  forall ts t K, pt ts = Ok (t, K) -> plain ts -> last_eof ts -> Tr t ts K /\ plain K /\ last_eof K.

Lemma pfield_sound pt ts x K : sound pt -> pfield pt ts = Ok (x, K) -> plain ts -> last_eof ts ->
  TrField x ts K /\ plain K /\ last_eof K.
Proof.
  intros S H P L. unfold pfield in H. destruct (kis (cur ts) K_ident && type_start (cur (next ts))) eqn:C.
  - apply andb_true_iff in C as [C1 C2].
    destruct (consume' ts K_ident L C1 eq_refl) as (c & r & -> & En & Lr). cbn [cur] in *. rewrite En in *.
    destruct (pt r) as [[t r1]| | |] eqn:E; cbn [bind] in H; inversion H; subst.
    destruct (S _ _ _ E (plain_tl _ _ P) Lr) as (SP & PK & LK). split; [|auto].
    apply (TrFNamed c); auto.
  - destruct (pt ts) as [[t r]| | |] eqn:E; cbn [bind] in H; inversion H; subst.
    destruct (S _ _ _ E P L) as (SP & PK & LK). split; [|auto]. apply TrFAnon; auto.
Qed.

Lemma fields_more_sound pt : sound pt -> forall n acc ts fs K, fields_more pt n acc ts = Ok (fs, K) -> plain ts -> last_eof ts ->
  exists more, fs = (acc ++ more)%list /\ TrMore more ts K /\ kis (cur K) "," = false /\ plain K /\ last_eof K.
Proof.
  intros S. induction n as [|n IH]; intros acc ts fs K H P L; [discriminate|]. cbn [fields_more] in H.
  destruct (kis (cur ts) ",") eqn:D.
  - destruct (consume' ts "," L D eq_refl) as (c & r & -> & En & Lr). cbn [cur] in D. rewrite En in H.
    destruct (pfield pt r) as [[fl ts1]| | |] eqn:E; cbn [bind] in H; try discriminate.
    destruct (pfield_sound pt _ _ _ S E (plain_tl _ _ P) Lr) as (SF & P1 & L1).
    destruct (IH _ _ _ _ H P1 L1) as (more & -> & SM & NC & PK & LK).
    exists (fl :: more). rewrite <- app_assoc. split; [reflexivity|]. split; [|auto].
    apply (TrMCons c r ts1); auto.
  - inversion H; subst. exists []. rewrite app_nil_r. split; [reflexivity|]. split; [constructor|auto].
Qed.

Lemma tstep_sound pt n : sound pt -> sound (tstep pt n).
Proof.
  intros S ts t K H P L. unfold tstep in H.
  destruct (kis (cur ts) K_ident) eqn:KI.
  { destruct (consume' ts K_ident L KI eq_refl) as (c & r & -> & En & Lr). cbn [cur] in *. rewrite En in H. pose proof (plain_tl _ _ P) as Pr.
    destruct (simple_name c) as [nm|] eqn:SN.
    - inversion H; subst. split; [|auto]. apply TrSimple; auto.
    - destruct (path_more n [mk_ident c] r) as [[ids r1]| | |] eqn:E; cbn [bind] in H; inversion H; subst.
      destruct (path_more_sound _ _ _ _ _ E Pr Lr) as (more & -> & SP & ND & PK & LK). split; [|auto].
      cbn [app]. apply (TrNamed c); auto. }
  destruct (kis (cur ts) "ARRAY") eqn:KA.
  { destruct (consume' ts "ARRAY" L KA eq_refl) as (c & r & -> & En & Lr). cbn [cur] in *. rewrite En in H. pose proof (plain_tl _ _ P) as Pr.
    destruct (expect "<" r) as [[x ts1]| | |] eqn:E1; cbn [bind] in H; try discriminate.
    destruct (pt ts1) as [[it ts2]| | |] eqn:E2; cbn [bind] in H; try discriminate.
    destruct (close_angle ts2) as [[g ts3]| | |] eqn:E3; cbn [bind] in H; inversion H; subst.
    apply expect_sound in E1 as (-> & A2 & A3 & A4); [|reflexivity|exact Pr|exact Lr].
    destruct (S _ _ _ E2 A3 A4) as (SP & P2 & L2).
    apply close_angle_sound in E3 as (gt & -> & B2 & -> & B3 & B4); auto. split; [|auto].
    apply (TrArray c x ts1 gt); auto. }
  destruct (kis (cur ts) "STRUCT") eqn:KS; [|discriminate].
  destruct (consume' ts "STRUCT" L KS eq_refl) as (c & r & -> & En & Lr). cbn [cur] in KI, KA, KS, H. rewrite En in H. pose proof (plain_tl _ _ P) as Pr.
  destruct (kis (cur r) "<>") eqn:KE.
  { inversion H; subst. destruct (consume' r "<>" Lr KE eq_refl) as (e & r2 & -> & En2 & Lr2). rewrite En2. split; [|split; [apply (plain_tl _ _ Pr)|exact Lr2]].
    apply TrStruct0; auto. }
  destruct (kis (cur r) "<") eqn:KL; cbn [negb] in H; [|discriminate].
  destruct (consume' r "<" Lr KL eq_refl) as (lt & r2 & -> & En2 & Lr2). cbn [cur] in KE, KL. rewrite En2 in H. pose proof (plain_tl _ _ Pr) as P2.
  destruct (kis (cur r2) ">" || kis (cur r2) ">>") eqn:KG.
  - cbn [bind] in H. destruct (close_angle r2) as [[g ts4]| | |] eqn:E3; cbn [bind] in H; inversion H; subst.
    apply close_angle_sound in E3 as (gt & -> & B2 & -> & B3 & B4); auto. split; [|auto].
    apply TrStruct1; auto.
  - destruct (pfield pt r2) as [[f1 ts3]| | |] eqn:E2; cbn [bind] in H; try discriminate.
    destruct (fields_more pt n [f1] ts3) as [[fs ts4]| | |] eqn:E3; cbn [bind] in H; try discriminate.
    destruct (close_angle ts4) as [[g ts5]| | |] eqn:E4; cbn [bind] in H; inversion H; subst.
    destruct (pfield_sound pt _ _ _ S E2 P2 Lr2) as (SF & P3 & L3).
    destruct (fields_more_sound pt S _ _ _ _ _ E3 P3 L3) as (more & -> & SM & NC & P4 & L4).
    apply close_angle_sound in E4 as (gt & -> & B2 & -> & B3 & B4); auto. split; [|auto].
    cbn [app].
    apply (TrStructN c lt r2 ts3 gt); auto.
Qed.

Theorem parsed_types_are_spelled : forall f, sound (PT f).
Proof.
  induction f as [|f IH]; intros ts t K H; [discriminate|]. cbn [PT] in H. revert H. apply tstep_sound. exact IH.
Qed.

(* ---------- the entry point ParseType ---------- *)
Lemma unfuse_nil r : unfuse r = [] -> r = [].
Proof. destruct r as [|t r]; [reflexivity|]. cbn [unfuse]. destruct (kis t ">>"); discriminate. Qed.

Lemma unfuse_single r e : unfuse r = [e] -> r = [e].
Proof.
  destruct r as [|t r]; [discriminate|]. cbn [unfuse]. destruct (kis t ">>"); [discriminate|].
  intros H. inversion H as [[A B]]. apply unfuse_nil in B. subst. reflexivity.
Qed.

Lemma unfuse_app a b : unfuse (a ++ b) = (unfuse a ++ unfuse b)%list.
Proof. induction a as [|t a IH]; [reflexivity|]. cbn [app unfuse]. rewrite IH. destruct (kis t ">>"); reflexivity. Qed.

Lemma plain_unfuse ts : plain (unfuse ts).
Proof.
  induction ts as [|t r IH]; [constructor|]. cbn [unfuse]. destruct (kis t ">>") eqn:G.
  - constructor; [reflexivity|]. constructor; [reflexivity|exact IH].
  - constructor; [exact G|exact IH].
Qed.

Lemma last_eof_unfuse ts : last_eof ts -> last_eof (unfuse ts).
Proof.
  intros (pre & e & -> & E). exists (unfuse pre), e. split; [|exact E]. rewrite unfuse_app. cbn [unfuse]. rewrite (kd _ _ ">>" E eq_refl). reflexivity.
Qed.

Lemma parse_type_fuel ts : PT (type_fuel ts) ts <> Fuel.
Proof. unfold type_fuel. replace (2 * length ts + 2) with (S (2 * length ts + 1)) by lia. apply PT_total. lia. Qed.

Lemma PT_at_entry f ts r : PT f ts = Ok r -> PT (type_fuel ts) ts = Ok r.
Proof.
  intros H. destruct (Nat.le_ge_cases f (type_fuel ts)) as [L|L].
  - rewrite (PT_mono f _ ts L); [exact H|congruence].
  - rewrite <- (PT_mono _ f ts L (parse_type_fuel ts)). exact H.
Qed.

(* every token list that, with ">>" read as two closing brackets, is a type of the grammar followed by the end of input is accepted
   by the entry point, and the result is exactly the tree the grammar assigns (every position included) *)
Theorem parse_type_accepts : forall t ts e, kis e K_eof = true -> Tr t (unfuse ts) [e] -> parse_type ts = Ok (t, [e]).
Proof.
  intros t ts e E H. destruct (proj1 spelled_types_parse _ _ _ H ltac:(discriminate)) as [f0 Hf].
  pose proof (Hf f0 (le_n _)) as EP. rewrite PT_unfuse in EP.
  destruct (PT f0 ts) as [[t' r]| | |] eqn:EQ; cbn [rmapU] in EP; try discriminate.
  injection EP as E1 E2. subst t'. apply unfuse_single in E2. subst r.
  unfold parse_type. rewrite (PT_at_entry _ _ _ EQ). cbn [bind cur]. rewrite E. reflexivity.
Qed.

(* and nothing else is: an accepted token list is a sentence of the grammar, and the returned tree is the grammar's *)
Theorem parse_type_sound : forall ts t r, last_eof ts -> parse_type ts = Ok (t, r) ->
  Tr t (unfuse ts) (unfuse r) /\ kis (cur r) K_eof = true.
Proof.
  intros ts t r L H. unfold parse_type in H. destruct (PT (type_fuel ts) ts) as [[t' r']| | |] eqn:EQ; cbn [bind] in H; try discriminate.
  destruct (kis (cur r') K_eof) eqn:E; inversion H; subst. split; [|exact E].
  assert (EU : PT (type_fuel ts) (unfuse ts) = Ok (t, unfuse r)) by (rewrite PT_unfuse, EQ; reflexivity).
  apply (parsed_types_are_spelled _ _ _ _ EU (plain_unfuse ts) (last_eof_unfuse ts L)).
Qed.

(* the entry point never runs out of fuel: the model of ParseType is a total function with an explicit bound on its recursion *)
Theorem parse_type_total : forall ts, parse_type ts <> Fuel.
Proof.
  intros ts. unfold parse_type. pose proof (parse_type_fuel ts) as NF.
  destruct (PT (type_fuel ts) ts) as [[t r]| | |]; cbn [bind]; try discriminate; [|congruence]. destruct (kis (cur r) K_eof); discriminate.
Qed.

(* non-vacuity: ARRAY<STRUCT<a ARRAY<INT64>>> with the three closing brackets lexed as ">>" ">" *)
Example nested_closers :
  let tkz (k : String.string) (p : Z) (n : Z) := {| pk := bs k; praw := bs k; pstr := []; ppos := p; pend := (p + n)%Z; pbase := 0 |} in
  let idz (s : String.string) (p : Z) := {| pk := bs K_ident; praw := bs s; pstr := bs s; ppos := p; pend := (p + Z.of_nat (String.length s))%Z; pbase := 0 |} in
  let ts := [tkz "ARRAY"%string 0 5; tkz "<"%string 5 1; tkz "STRUCT"%string 6 6; tkz "<"%string 12 1; idz "a"%string 13; tkz "ARRAY"%string 15 5; tkz "<"%string 20 1; idz "INT64"%string 21;
             tkz ">>"%string 26 2; tkz ">"%string 28 1; tkz K_eof 29 0]%Z in
  exists e, parse_type ts =
    Ok (TArray 0 28 (TStruct 6 27 [(Some {| id_pos := 13; id_end := 14; id_name := bs "a" |}, TArray 15 26 (TSimple 21 (bs "INT64")))]), [e])%Z.
Proof. eexists. vm_compute. reflexivity. Qed.
