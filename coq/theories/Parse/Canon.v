(* Parse/Canon.v -- a decision procedure for "canonical tree" (Spell.can), used to evaluate the hypothesis of the round-trip
   theorems on the trees the parser model returns for sampled inputs. *)
From Verif Require Import Base.Bytes Tree.Tree Parse.ExprModel Parse.Spell.
Local Open Scope nat_scope.

Definition is_sign_byte (c : byte) : bool := beq c x2b || beq c x2d.

Definition atomb (e : expr) : bool :=
  match e with
  | EIdent i => Z.eqb (id_pos i) 0 && Z.eqb (id_end i) 0 && plain_name (id_name i)
  | ENull p => Z.eqb p 0
  | EBool p _ => Z.eqb p 0
  | EInt a b _ v => Z.eqb a 0 && Z.eqb b 0 && unsigned v
  | EFloat a b v => Z.eqb a 0 && Z.eqb b 0 && unsigned v
  | EString a b _ | EBytes a b _ => Z.eqb a 0 && Z.eqb b 0
  | EParam p _ => Z.eqb p 0
  | _ => false
  end.

Definition zero_ident (i : ident) : bool := Z.eqb (id_pos i) 0 && Z.eqb (id_end i) 0.
Definition position_keywordb (kw : bytes) : bool :=
  bytes_eqb kw (bs "OFFSET") || bytes_eqb kw (bs "ORDINAL") || bytes_eqb kw (bs "SAFE_OFFSET") || bytes_eqb kw (bs "SAFE_ORDINAL").

Definition le_opt (o : option nat) (n : nat) : bool := match o with Some k => Nat.leb k n | None => false end.

(* the smallest level at which the tree is canonical *)
Fixpoint minlevel (e : expr) : option nat :=
  if atomb e then Some 0 else
  match e with
  | EParen lp rp x => if Z.eqb lp 0 && Z.eqb rp 0 && le_opt (minlevel x) 12 then Some 0 else None
  | EInt a b _ (c :: v) => if Z.eqb a 0 && Z.eqb b 0 && is_sign_byte c && unsigned v then Some 2 else None
  | EFloat a b (c :: v) => if Z.eqb a 0 && Z.eqb b 0 && is_sign_byte c && unsigned v then Some 2 else None
  | EUnary p op x =>
      if negb (Z.eqb p 0) then None
      else if bytes_eqb op (bs "NOT") then (if le_opt (minlevel x) 10 then Some 10 else None)
      else if bytes_eqb op (bs "+") || bytes_eqb op (bs "-") || bytes_eqb op (bs "~") then
        (if le_opt (minlevel x) 2 && (bytes_eqb op (bs "~") || negb (is_unsigned_number x)) then Some 2 else None)
      else None
  | EBinary op l r =>
      match op_level op with
      | Some n =>
          if Nat.eqb n 9 then (if le_opt (minlevel l) 8 && le_opt (minlevel r) 8 then Some 9 else None)
          else if (Nat.leb n 8 || Nat.eqb n 11 || Nat.eqb n 12) && le_opt (minlevel l) n && le_opt (minlevel r) (Nat.pred n) then Some n
          else None
      | None => None
      end
  | EIsNull p _ l => if Z.eqb p 0 && le_opt (minlevel l) 8 then Some 9 else None
  | EIsBool p _ l _ => if Z.eqb p 0 && le_opt (minlevel l) 8 then Some 9 else None
  | EBetween _ l s x => if le_opt (minlevel l) 8 && le_opt (minlevel s) 8 && le_opt (minlevel x) 8 then Some 9 else None
  | EIn _ l (CUnnest u rp x) => if Z.eqb u 0 && Z.eqb rp 0 && le_opt (minlevel l) 8 && le_opt (minlevel x) 12 then Some 9 else None
  | EIn _ l (CValues lp rp (e1 :: es)) =>
      if Z.eqb lp 0 && Z.eqb rp 0 && le_opt (minlevel l) 8 && le_opt (minlevel e1) 12 &&
         (fix all (r : list expr) : bool := match r with [] => true | x :: r' => le_opt (minlevel x) 12 && all r' end) es
      then Some 9 else None
  | EPath (i1 :: i2 :: r) => if forallb zero_ident (i1 :: i2 :: r) && plain_name (id_name i1) then Some 1 else None
  | ESelector x i => if zero_ident i && le_opt (minlevel x) 1 && negb (pathlike x) then Some 1 else None
  | EIndex rb x (SExprArg ix) =>
      if Z.eqb rb 0 && le_opt (minlevel x) 1 && le_opt (minlevel ix) 12 && free_subscript ix then Some 1 else None
  | EIndex rb x (SKeyword kp rp kw ix) =>
      if Z.eqb rb 0 && Z.eqb kp 0 && Z.eqb rp 0 && le_opt (minlevel x) 1 && le_opt (minlevel ix) 12 && position_keywordb kw then Some 1 else None
  | ETuple lp rp (e1 :: e2 :: es) =>
      if Z.eqb lp 0 && Z.eqb rp 0 && le_opt (minlevel e1) 12 && le_opt (minlevel e2) 12 &&
         (fix all (r : list expr) : bool := match r with [] => true | x :: r' => le_opt (minlevel x) 12 && all r' end) es
      then Some 0 else None
  | _ => None
  end.

Definition canb (n : nat) (e : expr) : bool := le_opt (minlevel e) n.

Lemma zeqb0 z : Z.eqb z 0 = true -> z = 0%Z.
Proof. apply Z.eqb_eq. Qed.

Lemma atomb_ok e : atomb e = true -> atom e.
Proof.
  destruct e; cbn [atomb]; intros H; try discriminate; repeat (apply andb_true_iff in H as [H ?]);
    repeat match goal with X : Z.eqb _ 0 = true |- _ => apply zeqb0 in X end.
  - subst. constructor.
  - destruct i as [ip ie nm]. cbn in *. subst. apply (AIdent nm). assumption.
  - subst. constructor.
  - subst. constructor.
  - subst. constructor. assumption.
  - subst. constructor. assumption.
  - subst. constructor.
  - subst. constructor.
Qed.

Lemma sign_byte_ok c : is_sign_byte c = true -> c = x2b \/ c = x2d.
Proof. unfold is_sign_byte. intros H. apply orb_true_iff in H as [H | H]; apply beq_eq in H; auto. Qed.

Lemma le_opt_ok o n : le_opt o n = true -> exists k, o = Some k /\ k <= n.
Proof. destruct o as [k|]; cbn; [|discriminate]. intros H. apply Nat.leb_le in H. eauto. Qed.

Lemma zero_ident_ok i : zero_ident i = true -> i = zident (id_name i).
Proof.
  destruct i as [a b n]. unfold zero_ident. cbn. intros H. apply andb_true_iff in H as [A B]. apply zeqb0 in A, B. subst. reflexivity.
Qed.

Lemma zero_idents_ok : forall l, forallb zero_ident l = true -> l = map zident (map id_name l).
Proof.
  induction l as [|i r IH]; [reflexivity|]. cbn [forallb map]. intros H. apply andb_true_iff in H as [A B].
  rewrite <- (zero_ident_ok i A), <- (IH B). reflexivity.
Qed.

Lemma position_keywordb_ok kw : position_keywordb kw = true -> position_keyword kw.
Proof.
  unfold position_keywordb, position_keyword. intros H.
  apply orb_true_iff in H as [H|H]; [apply orb_true_iff in H as [H|H]; [apply orb_true_iff in H as [H|H]|]|]; apply bytes_eqb_eq in H; auto.
Qed.

Theorem minlevel_ok : forall e k, minlevel e = Some k -> can k e.
Proof.
  fix IH 1. intros e k H.
  destruct (atomb e) eqn:A.
  { assert (k = 0) by (destruct e; cbn [minlevel] in H; rewrite A in H; congruence). subst. apply CAtom, atomb_ok, A. }
  destruct e; cbn [minlevel] in H; rewrite ?A in H; try discriminate.
  - (* binary *)
    destruct (op_level op) as [n|] eqn:OL; [|discriminate].
    destruct (Nat.eqb n 9) eqn:N9.
    + apply Nat.eqb_eq in N9. subst n.
      destruct (le_opt (minlevel e1) 8 && le_opt (minlevel e2) 8) eqn:B; [|discriminate]. inversion H; subst k.
      apply andb_true_iff in B as [B1 B2]. destruct (le_opt_ok _ _ B1) as (k1 & M1 & L1). destruct (le_opt_ok _ _ B2) as (k2 & M2 & L2).
      apply CCmp; [exact OL| |]; eapply CUp; eauto.
    + match type of H with (if ?c then _ else _) = _ => destruct c eqn:B end; [|discriminate]. inversion H; subst k.
      apply andb_true_iff in B as [B B2]. apply andb_true_iff in B as [B0 B1].
      destruct (le_opt_ok _ _ B1) as (k1 & M1 & L1). destruct (le_opt_ok _ _ B2) as (k2 & M2 & L2).
      apply CBin; [exact OL| | |].
      * apply orb_true_iff in B0 as [B0 | B0]; [apply orb_true_iff in B0 as [B0 | B0]|].
        -- left. apply Nat.leb_le, B0. -- right; left. apply Nat.eqb_eq, B0. -- right; right. apply Nat.eqb_eq, B0.
      * eapply CUp; eauto.
      * eapply CUp; eauto.
  - (* unary *)
    destruct (Z.eqb oppos 0) eqn:Z0; cbn [negb] in H; [|discriminate]. apply zeqb0 in Z0. subst oppos.
    destruct (bytes_eqb op (bs "NOT")) eqn:ON.
    + apply bytes_eqb_eq in ON. subst op. destruct (le_opt (minlevel e) 10) eqn:B; [|discriminate]. inversion H; subst k.
      destruct (le_opt_ok _ _ B) as (k1 & M1 & L1). apply CNot. eapply CUp; eauto.
    + destruct (bytes_eqb op (bs "+") || bytes_eqb op (bs "-") || bytes_eqb op (bs "~")) eqn:OS; [|discriminate].
      match type of H with (if ?c then _ else _) = _ => destruct c eqn:B end; [|discriminate]. inversion H; subst k.
      apply andb_true_iff in B as [B1 B2]. destruct (le_opt_ok _ _ B1) as (k1 & M1 & L1).
      apply CUnary.
      * apply orb_true_iff in OS as [OS | OS]; [apply orb_true_iff in OS as [OS | OS]|]; apply bytes_eqb_eq in OS; auto.
      * eapply CUp; eauto.
      * apply orb_true_iff in B2 as [B2 | B2]; [left; apply bytes_eqb_eq, B2|right; apply negb_true_iff, B2].
  - (* IN UNNEST *)
    destruct c as [lp rp es|u rp x].
    { destruct es as [|e1 es]; [discriminate|].
      match type of H with (if ?c then _ else _) = _ => destruct c eqn:B end; [|discriminate]. inversion H; subst k.
      apply andb_true_iff in B as [B B5]. apply andb_true_iff in B as [B B4]. apply andb_true_iff in B as [B B3]. apply andb_true_iff in B as [Z1 Z2].
      apply zeqb0 in Z1, Z2. subst.
      destruct (le_opt_ok _ _ B3) as (k1 & M1 & L1). destruct (le_opt_ok _ _ B4) as (k2 & M2 & L2).
      apply CInValues; [eapply CUp; eauto|eapply CUp; eauto|].
      clear -IH B5. induction es as [|x r IHr]; [constructor|].
      apply andb_true_iff in B5 as [Bx Br]. destruct (le_opt_ok _ _ Bx) as (kx & Mx & Lx).
      constructor; [eapply CUp; [apply IH, Mx|exact Lx]|apply IHr, Br]. }
    match type of H with (if ?c then _ else _) = _ => destruct c eqn:B end; [|discriminate]. inversion H; subst k.
    apply andb_true_iff in B as [B B3]. apply andb_true_iff in B as [B B2]. apply andb_true_iff in B as [Z1 Z2]. apply zeqb0 in Z1, Z2. subst.
    destruct (le_opt_ok _ _ B2) as (k1 & M1 & L1). destruct (le_opt_ok _ _ B3) as (k2 & M2 & L2).
    apply CInUnnest; eapply CUp; eauto.
  - (* IS NULL *)
    match type of H with (if ?c then _ else _) = _ => destruct c eqn:B end; [|discriminate]. inversion H; subst k.
    apply andb_true_iff in B as [Z1 B1]. apply zeqb0 in Z1. subst. destruct (le_opt_ok _ _ B1) as (k1 & M1 & L1).
    apply CIsNull. eapply CUp; eauto.
  - (* IS TRUE / FALSE *)
    match type of H with (if ?c then _ else _) = _ => destruct c eqn:B end; [|discriminate]. inversion H; subst k.
    apply andb_true_iff in B as [Z1 B1]. apply zeqb0 in Z1. subst. destruct (le_opt_ok _ _ B1) as (k1 & M1 & L1).
    apply CIsBool. eapply CUp; eauto.
  - (* BETWEEN *)
    match type of H with (if ?c then _ else _) = _ => destruct c eqn:B end; [|discriminate]. inversion H; subst k.
    apply andb_true_iff in B as [B B3]. apply andb_true_iff in B as [B1 B2].
    destruct (le_opt_ok _ _ B1) as (k1 & M1 & L1). destruct (le_opt_ok _ _ B2) as (k2 & M2 & L2). destruct (le_opt_ok _ _ B3) as (k3 & M3 & L3).
    apply CBetween; eapply CUp; eauto.
  - (* selector *)
    match type of H with (if ?c then _ else _) = _ => destruct c eqn:B end; [|discriminate]. inversion H; subst k.
    apply andb_true_iff in B as [B B3]. apply andb_true_iff in B as [B1 B2]. apply negb_true_iff in B3.
    rewrite (zero_ident_ok _ B1). destruct (le_opt_ok _ _ B2) as (k1 & M1 & L1).
    apply CSelector; [eapply CUp; eauto|exact B3].
  - (* subscript *)
    destruct ix as [kp rp kw ix|ix]; cbn [minlevel] in H;
      (match type of H with (if ?c then _ else _) = _ => destruct c eqn:B end; [|discriminate]); inversion H; subst k.
    + apply andb_true_iff in B as [B B6]. apply andb_true_iff in B as [B B5]. apply andb_true_iff in B as [B B4].
      apply andb_true_iff in B as [B Z3]. apply andb_true_iff in B as [Z1 Z2]. apply zeqb0 in Z1, Z2, Z3. subst.
      destruct (le_opt_ok _ _ B4) as (k1 & M1 & L1). destruct (le_opt_ok _ _ B5) as (k2 & M2 & L2).
      apply CIndexKw; [eapply CUp; eauto|eapply CUp; eauto|apply position_keywordb_ok, B6].
    + apply andb_true_iff in B as [B B4]. apply andb_true_iff in B as [B B3]. apply andb_true_iff in B as [Z1 B2]. apply zeqb0 in Z1. subst.
      destruct (le_opt_ok _ _ B2) as (k1 & M1 & L1). destruct (le_opt_ok _ _ B3) as (k2 & M2 & L2).
      apply CIndex; [eapply CUp; eauto|eapply CUp; eauto|exact B4].
  - (* paren *)
    match type of H with (if ?c then _ else _) = _ => destruct c eqn:B end; [|discriminate]. inversion H; subst k.
    apply andb_true_iff in B as [B B2]. apply andb_true_iff in B as [Z1 Z2]. apply zeqb0 in Z1, Z2. subst.
    destruct (le_opt_ok _ _ B2) as (k1 & M1 & L1). apply CParen. eapply CUp; eauto.
  - (* tuple *)
    destruct vs as [|e1 [|e2 es]]; try discriminate.
    match type of H with (if ?c then _ else _) = _ => destruct c eqn:B end; [|discriminate]. inversion H; subst k.
    apply andb_true_iff in B as [B B5]. apply andb_true_iff in B as [B B4]. apply andb_true_iff in B as [B B3]. apply andb_true_iff in B as [Z1 Z2].
    apply zeqb0 in Z1, Z2. subst.
    destruct (le_opt_ok _ _ B3) as (k1 & M1 & L1). destruct (le_opt_ok _ _ B4) as (k2 & M2 & L2).
    apply CTuple; [eapply CUp; eauto|eapply CUp; eauto|].
    clear -IH B5. induction es as [|x r IHr]; [constructor|].
    apply andb_true_iff in B5 as [Bx Br]. destruct (le_opt_ok _ _ Bx) as (kx & Mx & Lx).
    constructor; [eapply CUp; [apply IH, Mx|exact Lx]|apply IHr, Br].
  - (* path *)
    destruct ids as [|i1 [|i2 r]]; try discriminate.
    match type of H with (if ?c then _ else _) = _ => destruct c eqn:B end; [|discriminate]. inversion H; subst k.
    apply andb_true_iff in B as [B1 B2]. rewrite (zero_idents_ok _ B1). cbn [map]. apply CPath. exact B2.
  - (* signed int *)
    destruct v as [|c v]; [discriminate|].
    match type of H with (if ?c then _ else _) = _ => destruct c eqn:B end; [|discriminate]. inversion H; subst k.
    repeat (apply andb_true_iff in B as [B ?]). apply zeqb0 in B. match goal with X : Z.eqb _ 0 = true |- _ => apply zeqb0 in X end. subst.
    apply CSignedInt; [apply sign_byte_ok; assumption|assumption].
  - destruct v as [|c v]; [discriminate|].
    match type of H with (if ?c then _ else _) = _ => destruct c eqn:B end; [|discriminate]. inversion H; subst k.
    repeat (apply andb_true_iff in B as [B ?]). apply zeqb0 in B. match goal with X : Z.eqb _ 0 = true |- _ => apply zeqb0 in X end. subst.
    apply CSignedFloat; [apply sign_byte_ok; assumption|assumption].
Qed.

Theorem canb_ok n e : canb n e = true -> can n e.
Proof. unfold canb. intros H. destruct (le_opt_ok _ _ H) as (k & M & L). eapply CUp; [apply minlevel_ok, M|exact L]. Qed.
