(* Parse/TypeRender.v -- C01 / C02 on the type grammar, printer half: on every type tree the GENERATED SQL() programs (Gen/PrintProg.v,
   regenerated from ast/sql.go in every run) compute the recursive function [render_ty]. *)
From Verif Require Import Base.Bytes Tree.Tree Tree.Printer Bytes.Quote Parse.ExprModel Parse.Span Parse.Render Parse.TypeModel Gen.Schema Gen.PrintProg.
Local Open Scope string_scope.

Section TypeRender.
  Variable is_print : N -> bool.
  Notation INFO := (info is_print schema sql_prog prec_table).
  Notation QID := (Render.quote_id is_print).

  Fixpoint render_ty (t : ty) : option bytes :=
    match t with
    | TSimple _ n => Some n
    | TNamed ids => join_opt (bs ".") (map QID ids) true
    | TArray _ _ it => opt_cat (opt_cat (Some (bs "ARRAY<")) (render_ty it)) (Some (bs ">"))
    | TStruct _ _ fs =>
        opt_cat (opt_cat (Some (bs "STRUCT<"))
          (join_opt (bs ", ") ((fix go (l : list (option ident * ty)) : list (option bytes) :=
                                  match l with
                                  | [] => []
                                  | (oi, x) :: r => opt_cat (match oi with Some i => opt_cat (QID i) (Some [x20]) | None => Some [] end) (render_ty x) :: go r
                                  end) fs) true)) (Some (bs ">"))
    end.

  Definition field_tree (f : option ident * ty) : tree :=
    TNode "StructField" [match fst f with Some i => ExprModel.t_ident i | None => TNil end; ty_tree (snd f)].
  Definition render_field (f : option ident * ty) : option bytes :=
    opt_cat (match fst f with Some i => opt_cat (QID i) (Some [x20]) | None => Some [] end) (render_ty (snd f)).

  Ltac tables :=
    repeat match goal with
           | |- context [assoc ?k schema] => let v := eval vm_compute in (assoc k schema) in change (assoc k schema) with v
           | |- context [assoc ?k sql_prog] => let v := eval vm_compute in (assoc k sql_prog) in change (assoc k sql_prog) with v
           | |- context [assoc ?k prec_table] => let v := eval vm_compute in (assoc k prec_table) in change (assoc k prec_table) with v
           end.

  Lemma ty_tree_is_node t : exists ty fs, ty_tree t = TNode ty fs.
  Proof. destruct t; cbn [ty_tree]; eexists _, _; reflexivity. Qed.

  Section TyInd.
    Variable P : ty -> Prop.
    Hypothesis HS : forall p n, P (TSimple p n).
    Hypothesis HN : forall ids, P (TNamed ids).
    Hypothesis HA : forall a g it, P it -> P (TArray a g it).
    Hypothesis HT : forall s g fs, Forall (fun f => P (snd f)) fs -> P (TStruct s g fs).
    Fixpoint ty_ind' (t : ty) : P t :=
      match t with
      | TSimple p n => HS p n
      | TNamed ids => HN ids
      | TArray a g it => HA a g it (ty_ind' it)
      | TStruct s g fs =>
          HT s g fs ((fix go (l : list (option ident * ty)) : Forall (fun f => P (snd f)) l :=
                        match l with [] => Forall_nil _ | (oi, x) :: r => Forall_cons (oi, x) (ty_ind' x) (go r) end) fs)
      end.
  End TyInd.

  Lemma fields_tree_map fs :
    (fix go (l : list (option ident * ty)) : list tree :=
       match l with
       | [] => []
       | (oi, x) :: r => TNode "StructField" [match oi with Some i => ExprModel.t_ident i | None => TNil end; ty_tree x] :: go r
       end) fs = map field_tree fs.
  Proof. induction fs as [|[oi x] r IH]; [reflexivity|]. cbn [map]. rewrite <- IH. reflexivity. Qed.

  Lemma fields_render_map fs :
    (fix go (l : list (option ident * ty)) : list (option bytes) :=
       match l with
       | [] => []
       | (oi, x) :: r => opt_cat (match oi with Some i => opt_cat (QID i) (Some [x20]) | None => Some [] end) (render_ty x) :: go r
       end) fs = map render_field fs.
  Proof. induction fs as [|[oi x] r IH]; [reflexivity|]. cbn [map]. rewrite <- IH. reflexivity. Qed.

  Lemma join_cinfos sep : forall (l : list cinfo) first, join_sql sep l first = join_opt sep (map ci_sql l) first.
  Proof. induction l as [|c r IH]; intros first; [reflexivity|]. cbn [map join_sql join_opt]. rewrite (IH false). reflexivity. Qed.

  Lemma ident_sql i : ci_sql (INFO (ExprModel.t_ident i)) = QID i.
  Proof. rewrite (Render.info_ident is_print i). reflexivity. Qed.

  Lemma field_sql f : ci_sql (INFO (ty_tree (snd f))) = render_ty (snd f) -> ci_sql (INFO (field_tree f)) = render_field f.
  Proof.
    intros H. destruct f as [[i|] x]; unfold field_tree, render_field; cbn [fst snd] in *.
    - cbn [info]. tables. cbn [mk_penv pval_of]. unfold ExprModel.t_ident at 1. cbn [pval_of]. fold (ExprModel.t_ident i).
      destruct (ty_tree_is_node x) as (ty & fs & E). rewrite E in *. cbn [pval_of]. unfold run_prog, prec_of. tables.
      cbn [eval_body eval_s assoc String.eqb Ascii.eqb Bool.eqb ci_sql]. rewrite H, ident_sql. unfold opt_cat.
      destruct (QID i); destruct (render_ty x); reflexivity.
    - cbn [info]. tables. cbn [mk_penv pval_of].
      destruct (ty_tree_is_node x) as (ty & fs & E). rewrite E in *. cbn [pval_of]. unfold run_prog, prec_of. tables.
      cbn [eval_body eval_s assoc String.eqb Ascii.eqb Bool.eqb ci_sql]. rewrite H. unfold opt_cat. destruct (render_ty x); reflexivity.
  Qed.

  Theorem ty_sql : forall t, ci_sql (INFO (ty_tree t)) = render_ty t.
  Proof.
    apply ty_ind'.
    - intros p n. reflexivity.
    - intros ids. cbn [ty_tree info]. tables. cbn [mk_penv pval_of]. unfold run_prog, prec_of. tables.
      cbn [eval_body eval_s assoc String.eqb Ascii.eqb Bool.eqb ci_sql]. rewrite join_cinfos, !map_map. cbn [render_ty].
      replace (map (fun x => ci_sql (INFO (ExprModel.t_ident x))) ids) with (map QID ids); [reflexivity|].
      apply map_ext. intros i. symmetry. apply ident_sql.
    - intros a g it IH. cbn [ty_tree info]. tables. cbn [mk_penv pval_of].
      destruct (ty_tree_is_node it) as (ty & fs & E). rewrite E in *. cbn [pval_of]. unfold run_prog, prec_of. tables.
      cbn [eval_body eval_s assoc String.eqb Ascii.eqb Bool.eqb ci_sql]. rewrite IH. cbn [render_ty]. unfold opt_cat. destruct (render_ty it); reflexivity.
    - intros s g fs IH. cbn [ty_tree]. rewrite fields_tree_map. cbn [info]. tables. cbn [mk_penv pval_of]. unfold run_prog, prec_of. tables.
      cbn [eval_body eval_s assoc String.eqb Ascii.eqb Bool.eqb ci_sql]. rewrite join_cinfos, !map_map. cbn [render_ty]. rewrite fields_render_map.
      replace (map (fun x => ci_sql (INFO (field_tree x))) fs) with (map render_field fs).
      + unfold opt_cat. destruct (join_opt _ (map render_field fs) true); reflexivity.
      + apply map_ext_in. intros f Hf. symmetry. apply field_sql. rewrite Forall_forall in IH. apply IH, Hf.
  Qed.

  (* what SQL() of a type node is, through the generated programs *)
  Corollary sql_ty : forall t, sql is_print schema sql_prog prec_table (ty_tree t) = render_ty t.
  Proof. intros t. unfold sql. apply ty_sql. Qed.
End TypeRender.
