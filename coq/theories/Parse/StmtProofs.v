(* Parse/StmtProofs.v -- C11 on the statement family of Parse/StmtModel.v: the statement parser (with its recovery) is LOCAL -- its answer on
   a piece does not depend on what follows the terminator, and it never consumes the terminator -- hence, by the list-loop theorem of
   Parse/ListLoop.v, ParseDDLs / ParseStatements on a list of family statements return exactly the stand-alone results, with no error
   iff every piece is accepted alone.  No hypothesis is left: locality is proved here. *)
From Coq Require Import String.
From Verif Require Import Base.Bytes Tree.Tree Parse.ExprModel Parse.TypeModel Parse.TypeProofs Parse.ListLoop Parse.StmtModel.
From Coq Require Import Lia.
Local Open Scope nat_scope.

Definition term (t : ptok) : Prop := kis t ";" = true \/ kis t K_eof = true.
Definition theaded (k : toks) : Prop := match k with t :: _ => term t | [] => False end.

(* a token test that terminators fail *)
Definition safe (f : ptok -> bool) : Prop := forall t, term t -> f t = false.

Lemma safe_kis k : bytes_eqb (bs ";") (bs k) = false -> bytes_eqb (bs K_eof) (bs k) = false -> safe (fun t => kis t k).
Proof. intros A B t [H|H]; [exact (kd _ _ k H A)|exact (kd _ _ k H B)]. Qed.

Lemma safe_kwlike s : safe (fun t => is_kwlike t s).
Proof. intros t [H|H]; unfold is_kwlike; rewrite (kd _ _ K_ident H eq_refl); reflexivity. Qed.

(* two inputs with a common part q (a tail of the piece p) followed by terminator-headed rests *)
Section Rel.
  Variables (p k1 k2 : toks).
  Hypothesis T1 : theaded k1.
  Hypothesis T2 : theaded k2.

  Definition rel (ts1 ts2 : toks) : Prop := exists pre q, p = (pre ++ q)%list /\ ts1 = (q ++ k1)%list /\ ts2 = (q ++ k2)%list.

  Definition rrel {A} (r1 r2 : ExprModel.res (A * toks)) : Prop :=
    match r1, r2 with
    | Ok (a, t1), Ok (b, t2) => a = b /\ rel t1 t2
    | Err _, Err _ => True
    | Unsup, Unsup => True
    | Fuel, Fuel => True
    | _, _ => False
    end.

  Lemma k1_ne : k1 <> []. Proof. destruct k1; [contradiction|discriminate]. Qed.
  Lemma k2_ne : k2 <> []. Proof. destruct k2; [contradiction|discriminate]. Qed.

  (* a safe test gives the same answer on both sides; when it succeeds, the current token is a common one *)
  Lemma test_rel f ts1 ts2 : safe f -> rel ts1 ts2 -> f (cur ts1) = f (cur ts2).
  Proof.
    intros S (pre & q & _ & -> & ->). destruct q as [|t q]; [|reflexivity]. cbn [app].
    destruct k1 as [|a r1]; [contradiction|]. destruct k2 as [|b r2]; [contradiction|]. cbn [cur]. rewrite (S a T1), (S b T2). reflexivity.
  Qed.

  Lemma step_rel f ts1 ts2 : safe f -> rel ts1 ts2 -> f (cur ts1) = true -> cur ts1 = cur ts2 /\ rel (next ts1) (next ts2).
  Proof.
    intros S (pre & q & E & -> & ->) H. destruct q as [|t q].
    - exfalso. cbn [app] in H. destruct k1 as [|a r1]; [contradiction|]. cbn [cur] in H. rewrite (S a T1) in H. discriminate.
    - split; [reflexivity|]. cbn [app].
      assert (N1 : (q ++ k1)%list <> []) by (destruct q; [apply k1_ne|discriminate]).
      assert (N2 : (q ++ k2)%list <> []) by (destruct q; [apply k2_ne|discriminate]).
      rewrite (next_cons _ _ N1), (next_cons _ _ N2). exists (pre ++ [t])%list, q. rewrite <- app_assoc. auto.
  Qed.

  Lemma expect_rel k ts1 ts2 : safe (fun t => kis t k) -> rel ts1 ts2 -> rrel (expect k ts1) (expect k ts2).
  Proof.
    intros S R. unfold expect. rewrite <- (test_rel _ _ _ S R). destruct (kis (cur ts1) k) eqn:K; cbn [rrel]; [|exact I].
    destruct (step_rel _ _ _ S R K) as [E R']. auto.
  Qed.

  Lemma expect_kw_rel s ts1 ts2 : rel ts1 ts2 -> rrel (expect_kw s ts1) (expect_kw s ts2).
  Proof.
    intros R. unfold expect_kw. pose proof (expect_rel K_ident ts1 ts2 (safe_kis K_ident eq_refl eq_refl) R) as E.
    destruct (expect K_ident ts1) as [[t r]| | |], (expect K_ident ts2) as [[t' r']| | |]; cbn [rrel bind] in *; try contradiction; auto.
    destruct E as [-> R']. destruct (is_kwlike t' s); cbn [rrel]; auto.
  Qed.

  Lemma parse_ident_rel ts1 ts2 : rel ts1 ts2 -> rrel (parse_ident ts1) (parse_ident ts2).
  Proof.
    intros R. unfold parse_ident. pose proof (expect_rel K_ident ts1 ts2 (safe_kis K_ident eq_refl eq_refl) R) as E.
    destruct (expect K_ident ts1) as [[t r]| | |], (expect K_ident ts2) as [[t' r']| | |]; cbn [rrel bind] in *; try contradiction; auto.
    destruct E as [-> R']. auto.
  Qed.

  Lemma if_exists_rel ts1 ts2 : rel ts1 ts2 -> rrel (if_exists ts1) (if_exists ts2).
  Proof.
    intros R. unfold if_exists. pose proof (safe_kis "IF" eq_refl eq_refl) as S. rewrite <- (test_rel _ _ _ S R).
    destruct (kis (cur ts1) "IF") eqn:K; [|cbn [rrel]; auto].
    destruct (step_rel _ _ _ S R K) as [_ R']. pose proof (expect_rel "EXISTS" _ _ (safe_kis "EXISTS" eq_refl eq_refl) R') as E.
    destruct (expect "EXISTS" (next ts1)) as [[t r]| | |], (expect "EXISTS" (next ts2)) as [[t' r']| | |]; cbn [rrel bind] in *; try contradiction; auto.
    destruct E as [_ E]. auto.
  Qed.

  Lemma term_not t k : term t -> bytes_eqb (bs ";") (bs k) = false -> bytes_eqb (bs K_eof) (bs k) = false -> kis t k = false.
  Proof. intros [H|H] A B; [exact (kd _ _ k H A)|exact (kd _ _ k H B)]. Qed.

  Lemma cur_k1 : term (cur k1). Proof. destruct k1; [contradiction|exact T1]. Qed.
  Lemma cur_k2 : term (cur k2). Proof. destruct k2; [contradiction|exact T2]. Qed.

  Lemma rel_nil : forall pre, p = (pre ++ [])%list -> rel k1 k2.
  Proof. intros pre E. exists pre, []. auto. Qed.

  (* the dotted-name loop: any two amounts of fuel that exceed the common part *)
  Lemma path_more_rel : forall n1 n2 q pre acc, p = (pre ++ q)%list -> length q < n1 -> length q < n2 ->
    rrel (path_more n1 acc (q ++ k1)) (path_more n2 acc (q ++ k2)).
  Proof.
    induction n1 as [|n1 IH]; intros n2 q pre acc E L1 L2; [lia|]. destruct n2 as [|n2]; [lia|]. cbn [path_more].
    destruct q as [|d q].
    - cbn [app]. rewrite (term_not _ "." cur_k1 eq_refl eq_refl), (term_not _ "." cur_k2 eq_refl eq_refl). cbn [rrel]. split; [reflexivity|]. exists pre, []. auto.
    - cbn [app cur]. destruct (kis d ".") eqn:K; [|cbn [rrel]; split; [reflexivity|exists pre, (d :: q); auto]].
      assert (N1 : (q ++ k1)%list <> []) by (destruct q; [apply k1_ne|discriminate]).
      assert (N2 : (q ++ k2)%list <> []) by (destruct q; [apply k2_ne|discriminate]).
      rewrite (next_cons _ _ N1), (next_cons _ _ N2). unfold parse_ident, expect.
      destruct q as [|i q].
      + cbn [app]. rewrite (term_not _ K_ident cur_k1 eq_refl eq_refl), (term_not _ K_ident cur_k2 eq_refl eq_refl). cbn [bind rrel]. exact I.
      + cbn [app cur]. destruct (kis i K_ident); cbn [bind rrel]; [|exact I].
        assert (M1 : (q ++ k1)%list <> []) by (destruct q; [apply k1_ne|discriminate]).
        assert (M2 : (q ++ k2)%list <> []) by (destruct q; [apply k2_ne|discriminate]).
        rewrite (next_cons _ _ M1), (next_cons _ _ M2). apply (IH n2 q (pre ++ [d; i])%list); [rewrite <- app_assoc; exact E|cbn [length] in *; lia|cbn [length] in *; lia].
  Qed.
End Rel.

(* ---------- the same relation with the length of the common part: loops run on any fuel that exceeds it ---------- *)
Section RelN.
  Variables (p k1 k2 : toks).
  Hypothesis T1 : theaded k1.
  Hypothesis T2 : theaded k2.

  Definition reln (m : nat) (ts1 ts2 : toks) : Prop :=
    exists pre q, p = (pre ++ q)%list /\ length q = m /\ ts1 = (q ++ k1)%list /\ ts2 = (q ++ k2)%list.

  (* equal answers; on success the common part has shrunk by at least d *)
  Definition rreln {A} (d m : nat) (r1 r2 : ExprModel.res (A * toks)) : Prop :=
    match r1, r2 with
    | Ok (a, t1), Ok (b, t2) => a = b /\ exists m', m' + d <= m /\ reln m' t1 t2
    | Err _, Err _ => True
    | Unsup, Unsup => True
    | Fuel, Fuel => True
    | _, _ => False
    end.

  Lemma reln_rel m ts1 ts2 : reln m ts1 ts2 -> rel p k1 k2 ts1 ts2.
  Proof. intros (pre & q & E & _ & A & B). exists pre, q. auto. Qed.

  Lemma rel_reln ts1 ts2 : rel p k1 k2 ts1 ts2 -> exists m, reln m ts1 ts2.
  Proof. intros (pre & q & E & A & B). exists (length q), pre, q. auto. Qed.

  Lemma rreln_rrel {A} d m (r1 r2 : ExprModel.res (A * toks)) : rreln d m r1 r2 -> rrel p k1 k2 r1 r2.
  Proof.
    destruct r1 as [[a t1]| | |], r2 as [[b t2]| | |]; cbn [rreln rrel]; auto. intros [E (m' & _ & R)]. split; [exact E|]. eapply reln_rel; eauto.
  Qed.

  Lemma rreln_weaken {A} d d' m m0 (r1 r2 : ExprModel.res (A * toks)) : d' <= d -> m <= m0 -> rreln d m r1 r2 -> rreln d' m0 r1 r2.
  Proof.
    intros L L0. destruct r1 as [[a t1]| | |], r2 as [[b t2]| | |]; cbn [rreln]; auto. intros [E (m' & Lm & R)]. split; [exact E|]. exists m'. split; [lia|exact R].
  Qed.

  Lemma test_reln f m ts1 ts2 : safe f -> reln m ts1 ts2 -> f (cur ts1) = f (cur ts2).
  Proof. intros Sf R. exact (test_rel p k1 k2 T1 T2 f _ _ Sf (reln_rel _ _ _ R)). Qed.

  Lemma step_reln f m ts1 ts2 : safe f -> reln m ts1 ts2 -> f (cur ts1) = true ->
    cur ts1 = cur ts2 /\ exists m', m = S m' /\ reln m' (next ts1) (next ts2).
  Proof.
    intros Sf (pre & q & E & L & -> & ->) H. destruct q as [|t q].
    - exfalso. cbn [app] in H. destruct k1 as [|a r1]; [contradiction|]. cbn [cur] in H. rewrite (Sf a T1) in H. discriminate.
    - split; [reflexivity|]. cbn [app].
      assert (N1 : (q ++ k1)%list <> []) by (destruct q; [apply (k1_ne k1 T1)|discriminate]).
      assert (N2 : (q ++ k2)%list <> []) by (destruct q; [apply (k2_ne k2 T2)|discriminate]).
      rewrite (next_cons _ _ N1), (next_cons _ _ N2). exists (length q). split; [cbn [length] in L; lia|].
      exists (pre ++ [t])%list, q. rewrite <- app_assoc. auto.
  Qed.

  Lemma expect_reln k m ts1 ts2 : safe (fun t => kis t k) -> reln m ts1 ts2 -> rreln 1 m (expect k ts1) (expect k ts2).
  Proof.
    intros Sf R. unfold expect. rewrite <- (test_reln _ _ _ _ Sf R). destruct (kis (cur ts1) k) eqn:K; cbn [rreln]; [|exact I].
    destruct (step_reln _ _ _ _ Sf R K) as [E (m' & -> & R')]. split; [rewrite E; reflexivity|]. exists m'. split; [lia|exact R'].
  Qed.

  Lemma expect_kw_reln s m ts1 ts2 : reln m ts1 ts2 -> rreln 1 m (expect_kw s ts1) (expect_kw s ts2).
  Proof.
    intros R. unfold expect_kw. pose proof (expect_reln K_ident m ts1 ts2 (safe_kis K_ident eq_refl eq_refl) R) as E.
    destruct (expect K_ident ts1) as [[t r]| | |], (expect K_ident ts2) as [[t' r']| | |]; cbn [rreln bind] in *; try contradiction; auto.
    destruct E as [-> R']. destruct (is_kwlike t' s); cbn [rreln]; auto.
  Qed.

  Lemma parse_ident_reln m ts1 ts2 : reln m ts1 ts2 -> rreln 1 m (parse_ident ts1) (parse_ident ts2).
  Proof.
    intros R. unfold parse_ident. pose proof (expect_reln K_ident m ts1 ts2 (safe_kis K_ident eq_refl eq_refl) R) as E.
    destruct (expect K_ident ts1) as [[t r]| | |], (expect K_ident ts2) as [[t' r']| | |]; cbn [rreln bind] in *; try contradiction; auto.
    destruct E as [-> R']. auto.
  Qed.

  (* sequencing *)
  Lemma bind_reln {A B} d1 d2 m (r1 r2 : ExprModel.res (A * toks)) (f1 f2 : A * toks -> ExprModel.res (B * toks)) :
    rreln d1 m r1 r2 ->
    (forall a t1 t2 m', m' + d1 <= m -> reln m' t1 t2 -> rreln d2 m' (f1 (a, t1)) (f2 (a, t2))) ->
    rreln (d1 + d2) m (bind r1 f1) (bind r2 f2).
  Proof.
    intros R F. destruct r1 as [[a t1]| | |], r2 as [[b t2]| | |]; cbn [rreln bind] in *; try contradiction; auto.
    destruct R as [-> (m' & L & R)]. specialize (F b t1 t2 m' L R).
    destruct (f1 (b, t1)) as [[x u1]| | |], (f2 (b, t2)) as [[y u2]| | |]; cbn [rreln] in *; try contradiction; auto.
    destruct F as [-> (m2 & L2 & R2)]. split; [reflexivity|]. exists m2. split; [lia|exact R2].
  Qed.

  (* the loop of parseCommaSeparatedList, for an item parser that is local and consumes at least one common token *)
  Section CommaList.
    Context {A : Type} (item : toks -> ExprModel.res (A * toks)).
    Hypothesis item_reln : forall m ts1 ts2, reln m ts1 ts2 -> rreln 1 m (item ts1) (item ts2).

    Lemma list_more_reln : forall n1 n2 m acc ts1 ts2, reln m ts1 ts2 -> m < n1 -> m < n2 ->
      rreln 0 m (list_more item n1 acc ts1) (list_more item n2 acc ts2).
    Proof.
      induction n1 as [|n1 IH]; intros n2 m acc ts1 ts2 R L1 L2; [lia|]. destruct n2 as [|n2]; [lia|]. cbn [list_more].
      pose proof (safe_kis "," eq_refl eq_refl) as SC. rewrite <- (test_reln _ _ _ _ SC R).
      destruct (kis (cur ts1) ",") eqn:K; [|cbn [rreln]; split; [reflexivity|exists m; split; [lia|exact R]]].
      destruct (step_reln _ _ _ _ SC R K) as [_ (m' & -> & R')].
      pose proof (item_reln _ _ _ R') as IT.
      destruct (item (next ts1)) as [[x u1]| | |], (item (next ts2)) as [[y u2]| | |]; cbn [rreln bind] in *; try contradiction; auto.
      destruct IT as [-> (m2 & Lm & R2)].
      apply (rreln_weaken 0 0 m2); [lia|lia|]. apply IH; [exact R2|lia|lia].
    Qed.

    Lemma reln_length1 m ts1 ts2 : reln m ts1 ts2 -> m < length ts1 /\ m < length ts2.
    Proof.
      intros (pre & q & _ & L & -> & ->). rewrite !app_length.
      destruct k1 as [|a r1]; [contradiction|]. destruct k2 as [|b r2]; [contradiction|]. cbn [length]. lia.
    Qed.

    Lemma comma_list_reln m ts1 ts2 : reln m ts1 ts2 -> rreln 1 m (comma_list item ts1) (comma_list item ts2).
    Proof.
      intros R. unfold comma_list. destruct (reln_length1 _ _ _ R) as [L1 L2].
      apply (bind_reln 1 0 m (item ts1) (item ts2)); [apply item_reln, R|].
      intros a t1 t2 m' Lm R'. apply list_more_reln; [exact R'|lia|lia].
    Qed.
  End CommaList.
End RelN.

(* ---------- the statement parsers under the relation ---------- *)
Definition word_ok (w : word) : Prop :=
  match w with KwLike _ => True | Kind k => bytes_eqb (bs ";") (bs k) = false /\ bytes_eqb (bs K_eof) (bs k) = false end.
Definition rows_ok (rows : list row) : Prop := Forall (fun r => Forall word_ok (r_words r)) rows.

Lemma drop_rows_ok : rows_ok drop_rows.
Proof. repeat constructor. Qed.
Lemma create_rows_ok : rows_ok create_rows.
Proof. repeat constructor. Qed.

Lemma safe_word w : word_ok w -> safe (word_matches w).
Proof. destruct w as [s|k]; cbn [word_ok word_matches]; [intros _; apply safe_kwlike|intros [A B]; apply safe_kis; auto]. Qed.

Section Rel2.
  Variables (p k1 k2 : toks).
  Hypothesis T1 : theaded k1.
  Hypothesis T2 : theaded k2.
  Notation rel := (rel p k1 k2).
  Notation rrel := (rrel p k1 k2).

  Lemma parse_path_rel ts1 ts2 : rel ts1 ts2 -> rrel (parse_path ts1) (parse_path ts2).
  Proof.
    intros (pre & q & E & -> & ->). unfold parse_path, parse_ident, expect. destruct q as [|i q].
    - cbn [app]. rewrite (term_not _ K_ident (cur_k1 k1 T1) eq_refl eq_refl), (term_not _ K_ident (cur_k2 k2 T2) eq_refl eq_refl). cbn [bind]. exact I.
    - cbn [app cur]. destruct (kis i K_ident); cbn [bind]; [|exact I].
      assert (N1 : (q ++ k1)%list <> []) by (destruct q; [apply (k1_ne k1 T1)|discriminate]).
      assert (N2 : (q ++ k2)%list <> []) by (destruct q; [apply (k2_ne k2 T2)|discriminate]).
      rewrite (next_cons _ _ N1), (next_cons _ _ N2).
      apply (path_more_rel p k1 k2 T1 T2 _ _ q (pre ++ [i])%list); [rewrite <- app_assoc; exact E| |]; cbn [length]; rewrite app_length; lia.
  Qed.

  Lemma expect_word_rel w ts1 ts2 : word_ok w -> rel ts1 ts2 -> rrel (expect_word w ts1) (expect_word w ts2).
  Proof.
    intros W R. destruct w as [s|k]; cbn [expect_word word_ok] in *; [apply (expect_kw_rel p k1 k2 T1 T2), R|].
    destruct W as [A B]. apply (expect_rel p k1 k2 T1 T2); [apply safe_kis; auto|exact R].
  Qed.

  Lemma expect_words_rel : forall ws ts1 ts2 lp, Forall word_ok ws -> rel ts1 ts2 -> rrel (expect_words ws ts1 lp) (expect_words ws ts2 lp).
  Proof.
    induction ws as [|w r IH]; intros ts1 ts2 lp F R; cbn [expect_words]; [cbn; auto|].
    inversion F as [|? ? Hw Hr]; subst. pose proof (expect_word_rel w _ _ Hw R) as E.
    destruct (expect_word w ts1) as [[t a]| | |], (expect_word w ts2) as [[t' a']| | |]; cbn [StmtProofs.rrel bind] in *; try contradiction; auto.
    destruct E as [-> R']. apply IH; auto.
  Qed.

  Lemma parse_row_rel pos r ts1 ts2 : Forall word_ok (r_words r) -> rel ts1 ts2 -> rrel (parse_row pos r ts1) (parse_row pos r ts2).
  Proof.
    intros F R. unfold parse_row. pose proof (expect_words_rel (r_words r) _ _ 0%Z F R) as E.
    destruct (expect_words (r_words r) ts1 0) as [[lp a]| | |], (expect_words (r_words r) ts2 0) as [[lp' a']| | |]; cbn [StmtProofs.rrel bind] in *; try contradiction; auto.
    destruct E as [-> R1].
    assert (IE : rrel (if r_ifexists r then if_exists a else Ok (false, a)) (if r_ifexists r then if_exists a' else Ok (false, a'))).
    { destruct (r_ifexists r); [apply (if_exists_rel p k1 k2 T1 T2), R1|cbn; auto]. }
    destruct (if r_ifexists r then if_exists a else Ok (false, a)) as [[ie b]| | |], (if r_ifexists r then if_exists a' else Ok (false, a')) as [[ie' b']| | |];
      cbn [StmtProofs.rrel bind] in *; try contradiction; auto.
    destruct IE as [-> R2]. destruct (r_name r).
    - cbn. auto.
    - pose proof (parse_ident_rel p k1 k2 T1 T2 _ _ R2) as PI.
      destruct (parse_ident b) as [[i c]| | |], (parse_ident b') as [[i' c']| | |]; cbn [StmtProofs.rrel bind] in *; try contradiction; auto.
      destruct PI as [-> R3]. auto.
    - pose proof (parse_path_rel _ _ R2) as PP.
      destruct (parse_path b) as [[ids c]| | |], (parse_path b') as [[ids' c']| | |]; cbn [StmtProofs.rrel bind] in *; try contradiction; auto.
      destruct PP as [-> R3]. auto.
  Qed.

  Lemma find_row_rel rows ts1 ts2 : rows_ok rows -> rel ts1 ts2 -> find_row rows (cur ts1) = find_row rows (cur ts2).
  Proof.
    intros F R. induction rows as [|r rest IH]; [reflexivity|]. inversion F as [|? ? Hr Hrest]; subst. cbn [find_row].
    destruct (r_words r) as [|w ws]; [apply IH, Hrest|]. inversion Hr; subst.
    rewrite <- (test_rel p k1 k2 T1 T2 _ _ _ (safe_word w ltac:(assumption)) R). destruct (word_matches w (cur ts1)); [reflexivity|apply IH, Hrest].
  Qed.

  Lemma find_row_in rows t r : find_row rows t = Some r -> In r rows.
  Proof.
    induction rows as [|x rest IH]; [discriminate|]. cbn [find_row]. destruct (r_words x) as [|w ws]; [intros H; right; apply IH, H|].
    destruct (word_matches w t); [intros H; inversion H; left; reflexivity|intros H; right; apply IH, H].
  Qed.

  Lemma safe_other_create : safe other_create.
  Proof.
    intros t [H|H]; unfold other_create, is_kwlike; rewrite (kd _ _ K_ident H eq_refl), (kd _ _ "OR" H eq_refl); reflexivity.
  Qed.

  Lemma safe_other_alter : safe other_alter.
  Proof. intros t [H|H]; unfold other_alter, is_kwlike; rewrite (kd _ _ K_ident H eq_refl); reflexivity. Qed.

  (* ----- RENAME TABLE, GRANT, REVOKE ----- *)
  Notation reln := (reln p k1 k2).
  Notation rreln := (rreln p k1 k2).

  Lemma ok_reln {A} (a : A) m t1 t2 : reln m t1 t2 -> rreln 0 m (Ok (a, t1)) (Ok (a, t2)).
  Proof. intros R. cbn. split; [reflexivity|]. exists m. split; [lia|exact R]. Qed.

  Ltac chain d1 d2 := apply (bind_reln p k1 k2 d1 d2).
  Ltac kisafe := apply safe_kis; reflexivity.

  Lemma rename_to_reln m ts1 ts2 : reln m ts1 ts2 -> rreln 1 m (rename_to ts1) (rename_to ts2).
  Proof.
    intros R. unfold rename_to. apply (rreln_weaken p k1 k2 (1 + (1 + (1 + 0))) 1 m m); [lia|lia|].
    chain 1 (1 + (1 + 0)); [apply (parse_ident_reln p k1 k2 T1 T2), R|]. intros o t1 t2 m1 _ R1.
    chain 1 (1 + 0); [apply (expect_reln p k1 k2 T1 T2); [kisafe|exact R1]|]. intros x u1 u2 m2 _ R2.
    chain 1 0; [apply (parse_ident_reln p k1 k2 T1 T2), R2|]. intros n v1 v2 m3 _ R3. apply ok_reln, R3.
  Qed.

  Lemma parse_rename_reln pos m ts1 ts2 : reln m ts1 ts2 -> rreln 0 m (parse_rename pos ts1) (parse_rename pos ts2).
  Proof.
    intros R. unfold parse_rename. apply (rreln_weaken p k1 k2 (1 + (1 + 0)) 0 m m); [lia|lia|].
    chain 1 (1 + 0); [apply (expect_kw_reln p k1 k2 T1 T2), R|]. intros x t1 t2 m1 _ R1.
    chain 1 0; [apply (comma_list_reln p k1 k2 T1 T2); [exact rename_to_reln|exact R1]|]. intros l u1 u2 m2 _ R2. apply ok_reln, R2.
  Qed.

  Lemma idents_reln m ts1 ts2 : reln m ts1 ts2 -> rreln 1 m (comma_list parse_ident ts1) (comma_list parse_ident ts2).
  Proof. apply (comma_list_reln p k1 k2 T1 T2). exact (parse_ident_reln p k1 k2 T1 T2). Qed.

  Lemma priv_columns_reln m ts1 ts2 : reln m ts1 ts2 -> rreln 0 m (priv_columns ts1) (priv_columns ts2).
  Proof.
    intros R. unfold priv_columns. pose proof (safe_kis "(" eq_refl eq_refl) as SP. rewrite <- (test_reln p k1 k2 T1 T2 _ _ _ _ SP R).
    destruct (kis (cur ts1) "(") eqn:K; [|apply ok_reln, R].
    destruct (step_reln p k1 k2 T1 T2 _ _ _ _ SP R K) as [_ (m' & -> & R')].
    apply (rreln_weaken p k1 k2 (1 + (1 + 0)) 0 m' (S m')); [lia|lia|].
    chain 1 (1 + 0); [apply idents_reln, R'|]. intros cols t1 t2 m1 _ R1.
    chain 1 0; [apply (expect_reln p k1 k2 T1 T2); [kisafe|exact R1]|]. intros rp u1 u2 m2 _ R2. apply ok_reln, R2.
  Qed.

  Lemma with_cols_reln ty (z : Z) m ts1 ts2 : reln m ts1 ts2 ->
    rreln 0 m (do (cr, r) <- priv_columns ts1; let '(cols, rp) := cr in Ok (FSub ty [FPos z; FPos rp; cols], r))
              (do (cr, r) <- priv_columns ts2; let '(cols, rp) := cr in Ok (FSub ty [FPos z; FPos rp; cols], r)).
  Proof.
    intros R. apply (rreln_weaken p k1 k2 (0 + 0) 0 m m); [lia|lia|].
    chain 0 0; [apply priv_columns_reln, R|]. intros [cols rp] t1 t2 m1 _ R1. apply ok_reln, R1.
  Qed.

  Lemma table_privilege_reln m ts1 ts2 : reln m ts1 ts2 -> rreln 1 m (table_privilege ts1) (table_privilege ts2).
  Proof.
    intros R. unfold table_privilege.
    pose proof (safe_kis "SELECT" eq_refl eq_refl) as SS. rewrite <- (test_reln p k1 k2 T1 T2 _ _ _ _ SS R).
    destruct (kis (cur ts1) "SELECT") eqn:KS.
    { destruct (step_reln p k1 k2 T1 T2 _ _ _ _ SS R KS) as [E (m' & -> & R')]. rewrite <- E.
      pose proof (with_cols_reln "SelectPrivilege" (ppos (cur ts1)) m' _ _ R') as W.
      destruct (do (cr, r) <- priv_columns (next ts1); let '(cols, rp) := cr in Ok (FSub "SelectPrivilege" [FPos (ppos (cur ts1)); FPos rp; cols], r)) as [[a t1]| | |],
               (do (cr, r) <- priv_columns (next ts2); let '(cols, rp) := cr in Ok (FSub "SelectPrivilege" [FPos (ppos (cur ts1)); FPos rp; cols], r)) as [[b t2]| | |];
        cbn in W |- *; try contradiction; auto.
      destruct W as [-> (m2 & L & R2)]. split; [reflexivity|]. exists m2. split; [lia|exact R2]. }
    pose proof (safe_kwlike "INSERT") as SI. rewrite <- (test_reln p k1 k2 T1 T2 _ _ _ _ SI R).
    destruct (is_kwlike (cur ts1) "INSERT") eqn:KI.
    { destruct (step_reln p k1 k2 T1 T2 _ _ _ _ SI R KI) as [E (m' & -> & R')]. rewrite <- E.
      pose proof (with_cols_reln "InsertPrivilege" (ppos (cur ts1)) m' _ _ R') as W.
      destruct (do (cr, r) <- priv_columns (next ts1); let '(cols, rp) := cr in Ok (FSub "InsertPrivilege" [FPos (ppos (cur ts1)); FPos rp; cols], r)) as [[a t1]| | |],
               (do (cr, r) <- priv_columns (next ts2); let '(cols, rp) := cr in Ok (FSub "InsertPrivilege" [FPos (ppos (cur ts1)); FPos rp; cols], r)) as [[b t2]| | |];
        cbn in W |- *; try contradiction; auto.
      destruct W as [-> (m2 & L & R2)]. split; [reflexivity|]. exists m2. split; [lia|exact R2]. }
    pose proof (safe_kwlike "UPDATE") as SU. rewrite <- (test_reln p k1 k2 T1 T2 _ _ _ _ SU R).
    destruct (is_kwlike (cur ts1) "UPDATE") eqn:KU.
    { destruct (step_reln p k1 k2 T1 T2 _ _ _ _ SU R KU) as [E (m' & -> & R')]. rewrite <- E.
      pose proof (with_cols_reln "UpdatePrivilege" (ppos (cur ts1)) m' _ _ R') as W.
      destruct (do (cr, r) <- priv_columns (next ts1); let '(cols, rp) := cr in Ok (FSub "UpdatePrivilege" [FPos (ppos (cur ts1)); FPos rp; cols], r)) as [[a t1]| | |],
               (do (cr, r) <- priv_columns (next ts2); let '(cols, rp) := cr in Ok (FSub "UpdatePrivilege" [FPos (ppos (cur ts1)); FPos rp; cols], r)) as [[b t2]| | |];
        cbn in W |- *; try contradiction; auto.
      destruct W as [-> (m2 & L & R2)]. split; [reflexivity|]. exists m2. split; [lia|exact R2]. }
    pose proof (safe_kwlike "DELETE") as SD. rewrite <- (test_reln p k1 k2 T1 T2 _ _ _ _ SD R).
    destruct (is_kwlike (cur ts1) "DELETE") eqn:KD; [|cbn; exact I].
    destruct (step_reln p k1 k2 T1 T2 _ _ _ _ SD R KD) as [E (m' & -> & R')]. rewrite <- E.
    cbn. split; [reflexivity|]. exists m'. split; [lia|exact R'].
  Qed.

  (* ----- dotted names with the measure; CREATE / ALTER PROTO BUNDLE, ALTER INDEX, ALTER SEARCH INDEX ----- *)
  Lemma path_more_reln : forall n1 n2 m acc ts1 ts2, reln m ts1 ts2 -> m < n1 -> m < n2 ->
    rreln 0 m (path_more n1 acc ts1) (path_more n2 acc ts2).
  Proof.
    induction n1 as [|n1 IH]; intros n2 m acc ts1 ts2 R L1 L2; [lia|]. destruct n2 as [|n2]; [lia|]. cbn [path_more].
    pose proof (safe_kis "." eq_refl eq_refl) as SD. rewrite <- (test_reln p k1 k2 T1 T2 _ _ _ _ SD R).
    destruct (kis (cur ts1) ".") eqn:K; [|apply ok_reln, R].
    destruct (step_reln p k1 k2 T1 T2 _ _ _ _ SD R K) as [_ (m' & -> & R')].
    pose proof (parse_ident_reln p k1 k2 T1 T2 _ _ _ R') as IT.
    destruct (parse_ident (next ts1)) as [[x u1]| | |], (parse_ident (next ts2)) as [[y u2]| | |]; cbn [StmtProofs.rreln bind] in *; try contradiction; auto.
    destruct IT as [-> (m2 & Lm & R2)].
    apply (rreln_weaken p k1 k2 0 0 m2); [lia|lia|]. apply IH; [exact R2|lia|lia].
  Qed.

  Lemma parse_path_reln m ts1 ts2 : reln m ts1 ts2 -> rreln 1 m (parse_path ts1) (parse_path ts2).
  Proof.
    intros R. unfold parse_path. destruct (reln_length1 p k1 k2 T1 T2 _ _ _ R) as [L1 L2].
    apply (rreln_weaken p k1 k2 (1 + 0) 1 m m); [lia|lia|].
    chain 1 0; [apply (parse_ident_reln p k1 k2 T1 T2), R|]. intros i t1 t2 m' Lm R'. apply path_more_reln; [exact R'|lia|lia].
  Qed.

  Lemma named_type_reln m ts1 ts2 : reln m ts1 ts2 -> rreln 1 m (named_type ts1) (named_type ts2).
  Proof.
    intros R. unfold named_type. apply (rreln_weaken p k1 k2 (1 + 0) 1 m m); [lia|lia|].
    chain 1 0; [apply parse_path_reln, R|]. intros ids t1 t2 m' _ R'. apply ok_reln, R'.
  Qed.

  Lemma bundle_types_reln m ts1 ts2 : reln m ts1 ts2 -> rreln 1 m (bundle_types ts1) (bundle_types ts2).
  Proof.
    intros R. unfold bundle_types. apply (rreln_weaken p k1 k2 (1 + (1 + (1 + 0))) 1 m m); [lia|lia|].
    chain 1 (1 + (1 + 0)); [apply (expect_reln p k1 k2 T1 T2); [kisafe|exact R]|]. intros lp t1 t2 m1 _ R1.
    chain 1 (1 + 0); [apply (comma_list_reln p k1 k2 T1 T2); [exact named_type_reln|exact R1]|]. intros tys u1 u2 m2 _ R2.
    chain 1 0; [apply (expect_reln p k1 k2 T1 T2); [kisafe|exact R2]|]. intros rp v1 v2 m3 _ R3. apply ok_reln, R3.
  Qed.

  Lemma bundle_clause_reln kw ty m ts1 ts2 : reln m ts1 ts2 -> rreln 0 m (bundle_clause kw ty ts1) (bundle_clause kw ty ts2).
  Proof.
    intros R. unfold bundle_clause. pose proof (safe_kwlike kw) as SK. rewrite <- (test_reln p k1 k2 T1 T2 _ _ _ _ SK R).
    destruct (is_kwlike (cur ts1) kw) eqn:K; [|apply ok_reln, R].
    destruct (step_reln p k1 k2 T1 T2 _ _ _ _ SK R K) as [E (m' & -> & R')]. rewrite <- E.
    apply (rreln_weaken p k1 k2 (1 + 0) 0 m' (S m')); [lia|lia|].
    chain 1 0; [apply bundle_types_reln, R'|]. intros tys t1 t2 m1 _ R1. apply ok_reln, R1.
  Qed.

  Lemma parse_create_bundle_reln pos m ts1 ts2 : reln m ts1 ts2 -> rreln 0 m (parse_create_bundle pos ts1) (parse_create_bundle pos ts2).
  Proof.
    intros R. unfold parse_create_bundle. apply (rreln_weaken p k1 k2 (1 + (1 + (1 + 0))) 0 m m); [lia|lia|].
    chain 1 (1 + (1 + 0)); [apply (expect_reln p k1 k2 T1 T2); [kisafe|exact R]|]. intros x t1 t2 m1 _ R1.
    chain 1 (1 + 0); [apply (expect_kw_reln p k1 k2 T1 T2), R1|]. intros y u1 u2 m2 _ R2.
    chain 1 0; [apply bundle_types_reln, R2|]. intros tys v1 v2 m3 _ R3. apply ok_reln, R3.
  Qed.

  Lemma parse_alter_bundle_reln pos m ts1 ts2 : reln m ts1 ts2 -> rreln 0 m (parse_alter_bundle pos ts1) (parse_alter_bundle pos ts2).
  Proof.
    intros R. unfold parse_alter_bundle. apply (rreln_weaken p k1 k2 (1 + (1 + (0 + (0 + (0 + 0))))) 0 m m); [lia|lia|].
    chain 1 (1 + (0 + (0 + (0 + 0)))); [apply (expect_reln p k1 k2 T1 T2); [kisafe|exact R]|]. intros x t1 t2 m1 _ R1.
    chain 1 (0 + (0 + (0 + 0))); [apply (expect_kw_reln p k1 k2 T1 T2), R1|]. intros b u1 u2 m2 _ R2.
    chain 0 (0 + (0 + 0)); [apply bundle_clause_reln, R2|]. intros i v1 v2 m3 _ R3.
    chain 0 (0 + 0); [apply bundle_clause_reln, R3|]. intros u w1 w2 m4 _ R4.
    chain 0 0; [apply bundle_clause_reln, R4|]. intros d z1 z2 m5 _ R5. apply ok_reln, R5.
  Qed.

  Lemma index_alteration_reln m ts1 ts2 : reln m ts1 ts2 -> rreln 1 m (index_alteration ts1) (index_alteration ts2).
  Proof.
    intros R. unfold index_alteration.
    assert (SA : safe (fun t => is_kwlike t "ADD" || is_kwlike t "DROP")).
    { intros t Ht. rewrite (safe_kwlike "ADD" t Ht), (safe_kwlike "DROP" t Ht). reflexivity. }
    rewrite <- (test_reln p k1 k2 T1 T2 _ _ _ _ SA R).
    destruct (is_kwlike (cur ts1) "ADD" || is_kwlike (cur ts1) "DROP") eqn:K; [|cbn; exact I].
    destruct (step_reln p k1 k2 T1 T2 _ _ _ _ SA R K) as [E (m' & -> & R')]. rewrite <- E.
    apply (rreln_weaken p k1 k2 (1 + (1 + (1 + 0))) 1 m' (S m')); [lia|lia|].
    chain 1 (1 + (1 + 0)); [apply (expect_kw_reln p k1 k2 T1 T2), R'|]. intros x t1 t2 m1 _ R1.
    chain 1 (1 + 0); [apply (expect_kw_reln p k1 k2 T1 T2), R1|]. intros y u1 u2 m2 _ R2.
    chain 1 0; [apply (parse_ident_reln p k1 k2 T1 T2), R2|]. intros i v1 v2 m3 _ R3. apply ok_reln, R3.
  Qed.

  Lemma parse_alter_index_reln pos m ts1 ts2 : reln m ts1 ts2 -> rreln 0 m (parse_alter_index pos ts1) (parse_alter_index pos ts2).
  Proof.
    intros R. unfold parse_alter_index. apply (rreln_weaken p k1 k2 (1 + (1 + (1 + 0))) 0 m m); [lia|lia|].
    chain 1 (1 + (1 + 0)); [apply (expect_kw_reln p k1 k2 T1 T2), R|]. intros x t1 t2 m1 _ R1.
    chain 1 (1 + 0); [apply parse_path_reln, R1|]. intros ids u1 u2 m2 _ R2.
    chain 1 0; [apply index_alteration_reln, R2|]. intros a v1 v2 m3 _ R3. apply ok_reln, R3.
  Qed.

  Lemma parse_alter_search_index_reln pos m ts1 ts2 : reln m ts1 ts2 ->
    rreln 0 m (parse_alter_search_index pos ts1) (parse_alter_search_index pos ts2).
  Proof.
    intros R. unfold parse_alter_search_index. apply (rreln_weaken p k1 k2 (1 + (1 + (1 + (1 + 0)))) 0 m m); [lia|lia|].
    chain 1 (1 + (1 + (1 + 0))); [apply (expect_kw_reln p k1 k2 T1 T2), R|]. intros x t1 t2 m1 _ R1.
    chain 1 (1 + (1 + 0)); [apply (expect_kw_reln p k1 k2 T1 T2), R1|]. intros y u1 u2 m2 _ R2.
    chain 1 (1 + 0); [apply (parse_ident_reln p k1 k2 T1 T2), R2|]. intros i v1 v2 m3 _ R3.
    chain 1 0; [apply index_alteration_reln, R3|]. intros a w1 w2 m4 _ R4. apply ok_reln, R4.
  Qed.

  (* look-ahead over three tokens (the tryParse... functions restore the lexer when the test fails) *)
  Lemma look3 f1 f2 f3 m ts1 ts2 : safe f1 -> safe f2 -> safe f3 -> reln m ts1 ts2 ->
    (f1 (cur ts1) && f2 (cur (next ts1)) && f3 (cur (next (next ts1)))) = (f1 (cur ts2) && f2 (cur (next ts2)) && f3 (cur (next (next ts2)))) /\
    ((f1 (cur ts1) && f2 (cur (next ts1)) && f3 (cur (next (next ts1)))) = true ->
       cur ts1 = cur ts2 /\ exists m', m' + 3 <= m /\ reln m' (next (next (next ts1))) (next (next (next ts2)))).
  Proof.
    intros S1 S2 S3 R. rewrite <- (test_reln p k1 k2 T1 T2 _ _ _ _ S1 R).
    destruct (f1 (cur ts1)) eqn:F1; cbn [andb]; [|split; [reflexivity|discriminate]].
    destruct (step_reln p k1 k2 T1 T2 _ _ _ _ S1 R F1) as [E (m1 & -> & R1)].
    rewrite <- (test_reln p k1 k2 T1 T2 _ _ _ _ S2 R1).
    destruct (f2 (cur (next ts1))) eqn:F2; cbn [andb]; [|split; [reflexivity|discriminate]].
    destruct (step_reln p k1 k2 T1 T2 _ _ _ _ S2 R1 F2) as [_ (m2 & -> & R2)].
    rewrite <- (test_reln p k1 k2 T1 T2 _ _ _ _ S3 R2).
    split; [reflexivity|]. intros F3.
    destruct (step_reln p k1 k2 T1 T2 _ _ _ _ S3 R2 F3) as [_ (m3 & -> & R3)].
    split; [exact E|]. exists m3. split; [lia|exact R3].
  Qed.

  Lemma privilege_reln m ts1 ts2 : reln m ts1 ts2 -> rreln 1 m (privilege ts1) (privilege ts2).
  Proof.
    intros R. unfold privilege.
    destruct (look3 (fun t => kis t "SELECT") (fun t => kis t "ON") (fun t => is_kwlike t "VIEW") m ts1 ts2
                ltac:(kisafe) ltac:(kisafe) (safe_kwlike "VIEW") R) as [EV LV].
    rewrite <- EV.
    destruct (kis (cur ts1) "SELECT" && kis (cur (next ts1)) "ON" && is_kwlike (cur (next (next ts1))) "VIEW").
    { destruct (LV eq_refl) as [E (m' & L & R')]. rewrite <- E.
      apply (rreln_weaken p k1 k2 (1 + 0) 1 m' m); [lia|lia|].
      chain 1 0; [apply idents_reln, R'|]. intros names t1 t2 m1 _ R1. apply ok_reln, R1. }
    clear EV LV.
    pose proof (safe_kwlike "EXECUTE") as SE. rewrite <- (test_reln p k1 k2 T1 T2 _ _ _ _ SE R).
    destruct (is_kwlike (cur ts1) "EXECUTE") eqn:KE.
    { destruct (step_reln p k1 k2 T1 T2 _ _ _ _ SE R KE) as [E (m' & -> & R')]. rewrite <- E.
      apply (rreln_weaken p k1 k2 (1 + (1 + (1 + (1 + 0)))) 1 m' (S m')); [lia|lia|].
      chain 1 (1 + (1 + (1 + 0))); [apply (expect_reln p k1 k2 T1 T2); [kisafe|exact R']|]. intros x1 t1 t2 m1 _ R1.
      chain 1 (1 + (1 + 0)); [apply (expect_kw_reln p k1 k2 T1 T2), R1|]. intros x2 u1 u2 m2 _ R2.
      chain 1 (1 + 0); [apply (expect_kw_reln p k1 k2 T1 T2), R2|]. intros x3 v1 v2 m3 _ R3.
      chain 1 0; [apply idents_reln, R3|]. intros names w1 w2 m4 _ R4. apply ok_reln, R4. }
    pose proof (safe_kwlike "ROLE") as SR. rewrite <- (test_reln p k1 k2 T1 T2 _ _ _ _ SR R).
    destruct (is_kwlike (cur ts1) "ROLE") eqn:KR.
    { destruct (step_reln p k1 k2 T1 T2 _ _ _ _ SR R KR) as [E (m' & -> & R')]. rewrite <- E.
      apply (rreln_weaken p k1 k2 (1 + 0) 1 m' (S m')); [lia|lia|].
      chain 1 0; [apply idents_reln, R'|]. intros names t1 t2 m1 _ R1. apply ok_reln, R1. }
    destruct (look3 (fun t => kis t "SELECT") (fun t => kis t "ON") (fun t => is_kwlike t "CHANGE") m ts1 ts2
                ltac:(kisafe) ltac:(kisafe) (safe_kwlike "CHANGE") R) as [EC LC].
    rewrite <- EC.
    destruct (kis (cur ts1) "SELECT" && kis (cur (next ts1)) "ON" && is_kwlike (cur (next (next ts1))) "CHANGE").
    { destruct (LC eq_refl) as [E (m' & L & R')]. rewrite <- E.
      apply (rreln_weaken p k1 k2 (1 + (1 + 0)) 1 m' m); [lia|lia|].
      chain 1 (1 + 0); [apply (expect_kw_reln p k1 k2 T1 T2), R'|]. intros x t1 t2 m1 _ R1.
      chain 1 0; [apply idents_reln, R1|]. intros names u1 u2 m2 _ R2. apply ok_reln, R2. }
    apply (rreln_weaken p k1 k2 (1 + (1 + (1 + (1 + 0)))) 1 m m); [lia|lia|].
    chain 1 (1 + (1 + (1 + 0))); [apply (comma_list_reln p k1 k2 T1 T2); [exact table_privilege_reln|exact R]|]. intros privs t1 t2 m1 _ R1.
    chain 1 (1 + (1 + 0)); [apply (expect_reln p k1 k2 T1 T2); [kisafe|exact R1]|]. intros x1 u1 u2 m2 _ R2.
    chain 1 (1 + 0); [apply (expect_kw_reln p k1 k2 T1 T2), R2|]. intros x2 v1 v2 m3 _ R3.
    chain 1 0; [apply idents_reln, R3|]. intros names w1 w2 m4 _ R4. apply ok_reln, R4.
  Qed.

  Lemma parse_grant_reln rv pos m ts1 ts2 : reln m ts1 ts2 -> rreln 0 m (parse_grant rv pos ts1) (parse_grant rv pos ts2).
  Proof.
    intros R. unfold parse_grant. apply (rreln_weaken p k1 k2 (1 + (1 + (1 + (1 + 0)))) 0 m m); [lia|lia|].
    chain 1 (1 + (1 + (1 + 0))); [apply privilege_reln, R|]. intros pv t1 t2 m1 _ R1.
    chain 1 (1 + (1 + 0)); [apply (expect_reln p k1 k2 T1 T2); [destruct rv; kisafe|exact R1]|]. intros x1 u1 u2 m2 _ R2.
    chain 1 (1 + 0); [apply (expect_kw_reln p k1 k2 T1 T2), R2|]. intros x2 v1 v2 m3 _ R3.
    chain 1 0; [apply idents_reln, R3|]. intros roles w1 w2 m4 _ R4. apply ok_reln, R4.
  Qed.

  Definition orel (o1 o2 : option (ExprModel.res (dnode * toks))) : Prop :=
    match o1, o2 with None, None => True | Some r1, Some r2 => rrel r1 r2 | _, _ => False end.

  Lemma ddl_body_rel ts1 ts2 : rel ts1 ts2 -> orel (ddl_body ts1) (ddl_body ts2).
  Proof.
    intros R. unfold ddl_body.
    pose proof (safe_kis "CREATE" eq_refl eq_refl) as SC. rewrite <- (test_rel p k1 k2 T1 T2 _ _ _ SC R).
    destruct (kis (cur ts1) "CREATE") eqn:KC.
    { destruct (step_rel p k1 k2 T1 T2 _ _ _ SC R KC) as [EC R1]. rewrite <- EC.
      rewrite <- (find_row_rel create_rows _ _ create_rows_ok R1).
      destruct (find_row create_rows (cur (next ts1))) as [r|] eqn:FR.
      - cbn [orel]. apply parse_row_rel; [|exact R1]. pose proof (find_row_in _ _ _ FR) as IN.
        pose proof create_rows_ok as RO. unfold rows_ok in RO. rewrite Forall_forall in RO. apply RO, IN.
      - pose proof (safe_kis "PROTO" eq_refl eq_refl) as SP. rewrite <- (test_rel p k1 k2 T1 T2 _ _ _ SP R1).
        destruct (kis (cur (next ts1)) "PROTO").
        { destruct (rel_reln p k1 k2 _ _ R1) as [m1 RN1]. cbn [orel]. eapply rreln_rrel. apply parse_create_bundle_reln, RN1. }
        rewrite <- (test_rel p k1 k2 T1 T2 _ _ _ safe_other_create R1). destruct (other_create (cur (next ts1))); cbn; auto. }
    pose proof (safe_kwlike "DROP") as SD. rewrite <- (test_rel p k1 k2 T1 T2 _ _ _ SD R).
    destruct (is_kwlike (cur ts1) "DROP") eqn:KD.
    { destruct (step_rel p k1 k2 T1 T2 _ _ _ SD R KD) as [EC R1]. rewrite <- EC.
      rewrite <- (find_row_rel drop_rows _ _ drop_rows_ok R1).
      destruct (find_row drop_rows (cur (next ts1))) as [r|] eqn:FR; [|cbn; auto].
      cbn [orel]. apply parse_row_rel; [|exact R1]. pose proof (find_row_in _ _ _ FR) as IN.
      pose proof drop_rows_ok as RO. unfold rows_ok in RO. rewrite Forall_forall in RO. apply RO, IN. }
    rewrite <- (test_rel p k1 k2 T1 T2 _ _ _ (safe_kwlike "ANALYZE") R).
    destruct (is_kwlike (cur ts1) "ANALYZE").
    { cbn [orel]. pose proof (expect_kw_rel p k1 k2 T1 T2 "ANALYZE" _ _ R) as E.
      destruct (expect_kw "ANALYZE" ts1) as [[t a]| | |], (expect_kw "ANALYZE" ts2) as [[t' a']| | |]; cbn [StmtProofs.rrel bind] in *; try contradiction; auto.
      destruct E as [-> R1]. auto. }
    destruct (rel_reln p k1 k2 _ _ R) as [m RN].
    pose proof (safe_kwlike "RENAME") as SRN. rewrite <- (test_rel p k1 k2 T1 T2 _ _ _ SRN R).
    destruct (is_kwlike (cur ts1) "RENAME") eqn:KRN.
    { destruct (step_reln p k1 k2 T1 T2 _ _ _ _ SRN RN KRN) as [E (m' & -> & R')]. rewrite <- E. cbn [orel].
      eapply rreln_rrel. apply parse_rename_reln, R'. }
    pose proof (safe_kwlike "GRANT") as SG. rewrite <- (test_rel p k1 k2 T1 T2 _ _ _ SG R).
    destruct (is_kwlike (cur ts1) "GRANT") eqn:KG.
    { destruct (step_reln p k1 k2 T1 T2 _ _ _ _ SG RN KG) as [E (m' & -> & R')]. rewrite <- E. cbn [orel].
      eapply rreln_rrel. apply parse_grant_reln, R'. }
    pose proof (safe_kwlike "REVOKE") as SV. rewrite <- (test_rel p k1 k2 T1 T2 _ _ _ SV R).
    destruct (is_kwlike (cur ts1) "REVOKE") eqn:KV.
    { destruct (step_reln p k1 k2 T1 T2 _ _ _ _ SV RN KV) as [E (m' & -> & R')]. rewrite <- E. cbn [orel].
      eapply rreln_rrel. apply parse_grant_reln, R'. }
    pose proof (safe_kwlike "ALTER") as SA. rewrite <- (test_rel p k1 k2 T1 T2 _ _ _ SA R).
    destruct (is_kwlike (cur ts1) "ALTER") eqn:KA; [|cbn; auto].
    destruct (step_reln p k1 k2 T1 T2 _ _ _ _ SA RN KA) as [E (m' & -> & R')]. rewrite <- E.
    pose proof (reln_rel p k1 k2 _ _ _ R') as R1. cbv zeta.
    rewrite <- (test_rel p k1 k2 T1 T2 _ _ _ (safe_kis "PROTO" eq_refl eq_refl) R1).
    destruct (kis (cur (next ts1)) "PROTO"); [cbn [orel]; eapply rreln_rrel; apply parse_alter_bundle_reln, R'|].
    rewrite <- (test_rel p k1 k2 T1 T2 _ _ _ (safe_kwlike "INDEX") R1).
    destruct (is_kwlike (cur (next ts1)) "INDEX"); [cbn [orel]; eapply rreln_rrel; apply parse_alter_index_reln, R'|].
    rewrite <- (test_rel p k1 k2 T1 T2 _ _ _ (safe_kwlike "SEARCH") R1).
    destruct (is_kwlike (cur (next ts1)) "SEARCH"); [cbn [orel]; eapply rreln_rrel; apply parse_alter_search_index_reln, R'|].
    rewrite <- (test_rel p k1 k2 T1 T2 _ _ _ safe_other_alter R1).
    destruct (other_alter (cur (next ts1))); cbn; auto.
  Qed.
End Rel2.

(* ---------- the recovery skip stops exactly at the terminator ---------- *)
Definition plainT (t : ptok) : Prop := kis t ";" = false /\ kis t K_eof = false.

Fixpoint last_pend (e : Z) (q : toks) : Z := match q with [] => e | t :: r => last_pend (pend t) r end.

Lemma sskip_plain : forall q acc e k, Forall plainT q -> theaded k -> sskip (q ++ k) acc e = ((acc ++ q)%list, last_pend e q, k).
Proof.
  induction q as [|t q IH]; intros acc e k F T.
  - cbn [app last_pend]. rewrite app_nil_r. destruct k as [|h r]; [contradiction|]. cbn [sskip]. destruct T as [H|H]; rewrite H; [rewrite orb_true_r|]; reflexivity.
  - inversion F as [|? ? [A B] Fr]; subst. cbn [app sskip last_pend]. rewrite A, B. cbn [orb]. rewrite (IH _ _ _ Fr T), <- app_assoc. reflexivity.
Qed.

Lemma skipn_pre {A} (pre q k : list A) : skipn (length pre) ((pre ++ q) ++ k) = (q ++ k)%list.
Proof. rewrite <- app_assoc. rewrite skipn_app, skipn_all, Nat.sub_diag. reflexivity. Qed.

(* ---------- locality ---------- *)
Definition local_opt (sp0 : toks -> option (dnode * toks * nat)) (p : toks) : Prop :=
  forall k1 k2, theaded k1 -> theaded k2 ->
    (sp0 (p ++ k1) = None /\ sp0 (p ++ k2) = None) \/
    exists s e j, j <= length p /\ sp0 (p ++ k1) = Some (s, skipn j (p ++ k1), e) /\ sp0 (p ++ k2) = Some (s, skipn j (p ++ k2), e).

Lemma cur_app_ne p k : p <> [] -> cur (p ++ k) = cur p.
Proof. destruct p; [congruence|reflexivity]. Qed.

Theorem sp_ddl_local : forall p, p <> [] -> Forall plainT p -> local_opt sp_ddl p.
Proof.
  intros p NE F k1 k2 T1 T2.
  assert (R : rel p k1 k2 (p ++ k1) (p ++ k2)) by (exists [], p; auto).
  pose proof (ddl_body_rel p k1 k2 T1 T2 _ _ R) as B. unfold sp_ddl.
  assert (BAD : forall k, theaded k ->
            (let '(sk, endp, rest) := sskip (p ++ k) [] (ppos (cur (p ++ k))) in Some (DBad false (ppos (cur (p ++ k))) endp sk, rest, 1))
            = Some (DBad false (ppos (cur p)) (last_pend (ppos (cur p)) p) p, skipn (length p) (p ++ k), 1)).
  { intros k T. rewrite (cur_app_ne p k NE), (sskip_plain p [] _ k F T). cbn [app]. rewrite skipn_app, skipn_all, Nat.sub_diag. reflexivity. }
  destruct (ddl_body (p ++ k1)) as [r1|], (ddl_body (p ++ k2)) as [r2|]; cbn [orel] in B; try contradiction; [|left; auto].
  right. destruct r1 as [[d a]|e1| |], r2 as [[d' a']|e2| |]; cbn [rrel] in B; try contradiction.
  - destruct B as [-> (pre & q & E & -> & ->)]. exists d', 0, (length pre). subst p. rewrite !skipn_pre.
    split; [rewrite app_length; lia|]. auto.
  - exists (DBad false (ppos (cur p)) (last_pend (ppos (cur p)) p) p), 1, (length p). split; [lia|]. rewrite (BAD k1 T1), (BAD k2 T2). auto.
  - exists (DBad false (ppos (cur p)) (last_pend (ppos (cur p)) p) p), 1, (length p). split; [lia|]. rewrite (BAD k1 T1), (BAD k2 T2). auto.
  - exists (DBad false (ppos (cur p)) (last_pend (ppos (cur p)) p) p), 1, (length p). split; [lia|]. rewrite (BAD k1 T1), (BAD k2 T2). auto.
Qed.

Theorem sp_stmt_local : forall p, p <> [] -> Forall plainT p -> local_opt sp_stmt p.
Proof.
  intros p NE F k1 k2 T1 T2. unfold sp_stmt. rewrite !(cur_app_ne p _ NE).
  destruct (kis (cur p) "@"); [left; auto|].
  destruct (kis (cur p) "SELECT" || kis (cur p) "WITH" || kis (cur p) "(" || kis (cur p) "FROM"); [left; auto|].
  destruct (is_kwlike (cur p) "INSERT" || is_kwlike (cur p) "DELETE" || is_kwlike (cur p) "UPDATE"); [left; auto|].
  destruct (kis (cur p) "CREATE" || is_kwlike (cur p) "ALTER" || is_kwlike (cur p) "DROP" || is_kwlike (cur p) "RENAME" || is_kwlike (cur p) "GRANT"
            || is_kwlike (cur p) "REVOKE" || is_kwlike (cur p) "ANALYZE"); [apply (sp_ddl_local p NE F k1 k2 T1 T2)|].
  destruct (is_kwlike (cur p) "CALL"); [left; auto|].
  right. rewrite (sskip_plain p [] _ k1 F T1), (sskip_plain p [] _ k2 F T2). cbn [app].
  exists (DBad true (ppos (cur p)) (last_pend (ppos (cur p)) p) p), 1, (length p). split; [lia|].
  rewrite !skipn_app, !skipn_all, !Nat.sub_diag. auto.
Qed.

(* ---------- lists of family statements compose (C11, no hypothesis left) ---------- *)
Section Family.
  (* whatever the rest of the grammar does *)
  Variable other : toks -> dnode * toks * nat.
  Variable sp0 : toks -> option (dnode * toks * nat).
  Hypothesis sp0_local : forall p, p <> [] -> Forall plainT p -> local_opt sp0 p.
  Definition spT (ts : toks) : dnode * toks * nat := match sp0 ts with Some r => r | None => other ts end.

  Variable e : ptok.
  Hypothesis e_eof : is_eof e = true.

  (* the piece is a statement of the family (accepted or rejected by it) *)
  Definition in_family (p : toks) : Prop := sp0 (p ++ [e]) <> None.

  Lemma theaded_iff k : term_headed k <-> theaded k.
  Proof. destruct k; cbn; unfold term, is_semi, is_eof; tauto. Qed.

  Lemma plain_iff t : plain t <-> plainT t.
  Proof. unfold plain, plainT, is_semi, is_eof. tauto. Qed.

  Lemma family_local p : p <> [] -> Forall plain p -> in_family p -> local dnode spT p.
  Proof.
    intros NE F IN k1 k2 T1 T2. apply theaded_iff in T1, T2.
    assert (F' : Forall plainT p) by (eapply Forall_impl; [|exact F]; intros a; apply plain_iff).
    assert (TE : theaded [e]) by (right; exact e_eof).
    unfold spT.
    destruct (sp0_local p NE F' k1 [e] T1 TE) as [[_ N]|(s & er & j & LJ & A & B)]; [contradiction|].
    destruct (sp0_local p NE F' k1 k2 T1 T2) as [[N _]|(s2 & er2 & j2 & LJ2 & A2 & B2)]; [rewrite A in N; discriminate|].
    exists s2, er2, j2. rewrite A2, B2. auto.
  Qed.

  Theorem family_lists_compose : forall segs lastp,
    Forall (fun ps => Forall plain (fst ps) /\ is_semi (snd ps) = true /\ (fst ps <> [] -> in_family (fst ps))) segs ->
    Forall plain lastp -> (lastp <> [] -> in_family lastp) ->
    let '(ns, errs) := parse_many dnode spT (flatten segs ++ lastp ++ [e]) in
    (errs = 0 <-> Forall (ok dnode spT e) (nonempty (pieces segs lastp))) /\
    (errs = 0 -> ns = map (ListLoop.res dnode spT e) (nonempty (pieces segs lastp))).
  Proof.
    intros segs lastp HS HL LL. apply (parse_many_composes dnode spT e e_eof).
    - eapply Forall_impl; [|exact HS]. intros [pp sc] (A & B & C). cbn [fst snd] in *. split; [exact A|]. split; [exact B|].
      intros NE. apply family_local; auto.
    - exact HL.
    - intros NE. apply family_local; auto.
  Qed.
End Family.

(* ---------- further facts about the family ---------- *)
Lemma parse_row_node pos r ts d r' : parse_row pos r ts = Ok (d, r') -> exists fs, d = DNode (r_node r) fs.
Proof.
  unfold parse_row. destruct (expect_words (r_words r) ts 0) as [[lp a]| | |]; cbn [bind]; try discriminate.
  destruct (if r_ifexists r then if_exists a else Ok (false, a)) as [[ie b]| | |]; cbn [bind]; try discriminate.
  destruct (r_name r).
  - intros H. inversion H; subst. eauto.
  - destruct (parse_ident b) as [[i c]| | |]; cbn [bind]; try discriminate. intros H. inversion H; subst. eauto.
  - destruct (parse_path b) as [[ids c]| | |]; cbn [bind]; try discriminate. intros H. inversion H; subst. eauto.
Qed.

Lemma ddl_body_node ts d r : ddl_body ts = Some (Ok (d, r)) -> exists ty fs, d = DNode ty fs.
Proof.
  unfold ddl_body. destruct (kis (cur ts) "CREATE").
  { destruct (find_row create_rows (cur (next ts))) as [rw|].
    - intros H. inversion H as [H1]. destruct (parse_row_node _ _ _ _ _ H1) as [fs ->]. eauto.
    - destruct (kis (cur (next ts)) "PROTO"); [|destruct (other_create (cur (next ts))); discriminate].
      unfold parse_create_bundle. destruct (expect "PROTO" (next ts)) as [[x a]| | |]; cbn [bind]; try discriminate.
      destruct (expect_kw "BUNDLE" a) as [[y b]| | |]; cbn [bind]; try discriminate.
      destruct (bundle_types b) as [[tys c]| | |]; cbn [bind]; try discriminate. intros H. inversion H; subst. eauto. }
  destruct (is_kwlike (cur ts) "DROP").
  { destruct (find_row drop_rows (cur (next ts))) as [rw|]; [|discriminate].
    intros H. inversion H as [H1]. destruct (parse_row_node _ _ _ _ _ H1) as [fs ->]. eauto. }
  destruct (is_kwlike (cur ts) "ANALYZE").
  { destruct (expect_kw "ANALYZE" ts) as [[a ts1]| | |]; cbn [bind]; try discriminate. intros H. inversion H; subst. eauto. }
  destruct (is_kwlike (cur ts) "RENAME").
  { unfold parse_rename. destruct (expect_kw "TABLE" (next ts)) as [[a ts1]| | |]; cbn [bind]; try discriminate.
    destruct (comma_list rename_to ts1) as [[l ts2]| | |]; cbn [bind]; try discriminate. intros H. inversion H; subst. eauto. }
  assert (G : forall rv pos ts0, parse_grant rv pos ts0 = Ok (d, r) -> exists ty fs, d = DNode ty fs).
  { intros rv pos ts0. unfold parse_grant. destruct (privilege ts0) as [[pv a]| | |]; cbn [bind]; try discriminate.
    destruct (expect (if rv then "FROM" else "TO") a) as [[x b]| | |]; cbn [bind]; try discriminate.
    destruct (expect_kw "ROLE" b) as [[y c]| | |]; cbn [bind]; try discriminate.
    destruct (comma_list parse_ident c) as [[roles e]| | |]; cbn [bind]; try discriminate. intros H. inversion H; subst. eauto. }
  destruct (is_kwlike (cur ts) "GRANT"); [intros H; inversion H as [H1]; exact (G _ _ _ H1)|].
  destruct (is_kwlike (cur ts) "REVOKE"); [intros H; inversion H as [H1]; exact (G _ _ _ H1)|].
  destruct (is_kwlike (cur ts) "ALTER"); [|discriminate]. cbv zeta.
  destruct (kis (cur (next ts)) "PROTO").
  { unfold parse_alter_bundle. destruct (expect "PROTO" (next ts)) as [[x a]| | |]; cbn [bind]; try discriminate.
    destruct (expect_kw "BUNDLE" a) as [[y b]| | |]; cbn [bind]; try discriminate.
    destruct (bundle_clause "INSERT" "AlterProtoBundleInsert" b) as [[i c]| | |]; cbn [bind]; try discriminate.
    destruct (bundle_clause "UPDATE" "AlterProtoBundleUpdate" c) as [[u e]| | |]; cbn [bind]; try discriminate.
    destruct (bundle_clause "DELETE" "AlterProtoBundleDelete" e) as [[dl f]| | |]; cbn [bind]; try discriminate. intros H. inversion H; subst. eauto. }
  destruct (is_kwlike (cur (next ts)) "INDEX").
  { unfold parse_alter_index. destruct (expect_kw "INDEX" (next ts)) as [[x a]| | |]; cbn [bind]; try discriminate.
    destruct (parse_path a) as [[ids b]| | |]; cbn [bind]; try discriminate.
    destruct (index_alteration b) as [[al c]| | |]; cbn [bind]; try discriminate. intros H. inversion H; subst. eauto. }
  destruct (is_kwlike (cur (next ts)) "SEARCH").
  { unfold parse_alter_search_index. destruct (expect_kw "SEARCH" (next ts)) as [[x a]| | |]; cbn [bind]; try discriminate.
    destruct (expect_kw "INDEX" a) as [[y b]| | |]; cbn [bind]; try discriminate.
    destruct (parse_ident b) as [[i c]| | |]; cbn [bind]; try discriminate.
    destruct (index_alteration c) as [[al e]| | |]; cbn [bind]; try discriminate. intros H. inversion H; subst. eauto. }
  destruct (other_alter (cur (next ts))); discriminate.
Qed.

(* C09 on the family: no error exactly when the success path returned its node; otherwise one error and one Bad node *)
Theorem sp_ddl_errors ts d r e : sp_ddl ts = Some (d, r, e) ->
  (e = 0 /\ ddl_body ts = Some (Ok (d, r)) /\ exists ty fs, d = DNode ty fs) \/ (e = 1 /\ exists p q sk, d = DBad false p q sk).
Proof.
  unfold sp_ddl. destruct (ddl_body ts) as [[[d0 r0]|p| |]|] eqn:B; try discriminate.
  - intros H. inversion H; subst. left. split; [reflexivity|]. split; [reflexivity|]. eapply ddl_body_node; eauto.
  - destruct (sskip ts [] (ppos (cur ts))) as [[sk endp] rest]. intros H. inversion H; subst. right. eauto.
  - destruct (sskip ts [] (ppos (cur ts))) as [[sk endp] rest]. intros H. inversion H; subst. right. eauto.
  - destruct (sskip ts [] (ppos (cur ts))) as [[sk endp] rest]. intros H. inversion H; subst. right. eauto.
Qed.

(* C10 on the family: the Bad node of a rejected piece holds exactly the tokens of the piece, and parsing resumes at the terminator *)
Theorem sp_ddl_bad p k d r : p <> [] -> Forall plainT p -> theaded k -> sp_ddl (p ++ k) = Some (d, r, 1) ->
  d = DBad false (ppos (cur p)) (last_pend (ppos (cur p)) p) p /\ r = k.
Proof.
  intros NE F T. unfold sp_ddl. destruct (ddl_body (p ++ k)) as [[[d0 r0]|e0| |]|]; try discriminate;
    rewrite (cur_app_ne p k NE), (sskip_plain p [] _ k F T); cbn [app]; intros H; inversion H; auto.
Qed.

(* C08 on the family: ParseStatement and ParseDDL return the same node for a statement that starts with CREATE, DROP or ANALYZE *)
Lemma kwlike_excl t a b : bytes_eqb (to_upper (bs a)) (to_upper (bs b)) = false -> is_kwlike t a = true -> is_kwlike t b = false.
Proof.
  unfold is_kwlike, equal_fold_s, equal_fold. intros D H. apply andb_true_iff in H as [K E]. rewrite K. cbn [andb].
  apply bytes_eqb_eq in E. rewrite E. exact D.
Qed.

Lemma kwlike_kind t a k : bytes_eqb (bs K_ident) (bs k) = false -> is_kwlike t a = true -> kis t k = false.
Proof. unfold is_kwlike. intros D H. apply andb_true_iff in H as [K _]. exact (kd _ _ k K D). Qed.

Lemma kind_kwlike t k a : bytes_eqb (bs k) (bs K_ident) = false -> kis t k = true -> is_kwlike t a = false.
Proof. unfold is_kwlike. intros D H. rewrite (kd _ _ K_ident H D). reflexivity. Qed.

Lemma kwlike_head_agrees ts w :
  bytes_eqb (to_upper (bs w)) (to_upper (bs "INSERT")) = false -> bytes_eqb (to_upper (bs w)) (to_upper (bs "DELETE")) = false ->
  bytes_eqb (to_upper (bs w)) (to_upper (bs "UPDATE")) = false ->
  is_kwlike (cur ts) w = true ->
  (is_kwlike (cur ts) "ALTER" || is_kwlike (cur ts) "DROP" || is_kwlike (cur ts) "RENAME" || is_kwlike (cur ts) "GRANT"
   || is_kwlike (cur ts) "REVOKE" || is_kwlike (cur ts) "ANALYZE" = true) ->
  sp_stmt ts = sp_ddl ts.
Proof.
  intros NI ND NU W HD. unfold sp_stmt. set (t := cur ts) in *.
  rewrite (kwlike_kind t w "@" eq_refl W), (kwlike_kind t w "SELECT" eq_refl W), (kwlike_kind t w "WITH" eq_refl W),
          (kwlike_kind t w "(" eq_refl W), (kwlike_kind t w "FROM" eq_refl W).
  rewrite (kwlike_excl t w "INSERT" NI W), (kwlike_excl t w "DELETE" ND W), (kwlike_excl t w "UPDATE" NU W).
  cbn [orb]. rewrite (kwlike_kind t w "CREATE" eq_refl W). cbn [orb]. rewrite HD. reflexivity.
Qed.

Theorem family_entry_points_agree ts :
  kis (cur ts) "CREATE" || is_kwlike (cur ts) "DROP" || is_kwlike (cur ts) "ANALYZE" || is_kwlike (cur ts) "RENAME"
  || is_kwlike (cur ts) "GRANT" || is_kwlike (cur ts) "REVOKE" || is_kwlike (cur ts) "ALTER" = true -> sp_stmt ts = sp_ddl ts.
Proof.
  intros H.
  apply orb_true_iff in H as [H|AL]; [|apply (kwlike_head_agrees ts "ALTER" eq_refl eq_refl eq_refl AL); rewrite AL; rewrite ?orb_true_r; reflexivity].
  apply orb_true_iff in H as [H|V]; [|apply (kwlike_head_agrees ts "REVOKE" eq_refl eq_refl eq_refl V); rewrite V; rewrite ?orb_true_r; reflexivity].
  apply orb_true_iff in H as [H|G]; [|apply (kwlike_head_agrees ts "GRANT" eq_refl eq_refl eq_refl G); rewrite G; rewrite ?orb_true_r; reflexivity].
  apply orb_true_iff in H as [H|RN]; [|apply (kwlike_head_agrees ts "RENAME" eq_refl eq_refl eq_refl RN); rewrite RN; rewrite ?orb_true_r; reflexivity].
  unfold sp_stmt. set (t := cur ts) in *.
  apply orb_true_iff in H as [H|A]; [apply orb_true_iff in H as [C|D]|].
  - rewrite (kd _ _ "@" C eq_refl), (kd _ _ "SELECT" C eq_refl), (kd _ _ "WITH" C eq_refl), (kd _ _ "(" C eq_refl), (kd _ _ "FROM" C eq_refl).
    rewrite !(kind_kwlike t "CREATE" _ eq_refl C). rewrite C. reflexivity.
  - rewrite (kwlike_kind t "DROP" "@" eq_refl D), (kwlike_kind t "DROP" "SELECT" eq_refl D), (kwlike_kind t "DROP" "WITH" eq_refl D),
            (kwlike_kind t "DROP" "(" eq_refl D), (kwlike_kind t "DROP" "FROM" eq_refl D).
    rewrite (kwlike_excl t "DROP" "INSERT" eq_refl D), (kwlike_excl t "DROP" "DELETE" eq_refl D), (kwlike_excl t "DROP" "UPDATE" eq_refl D).
    rewrite D. cbn [orb]. rewrite !orb_true_r. reflexivity.
  - rewrite (kwlike_kind t "ANALYZE" "@" eq_refl A), (kwlike_kind t "ANALYZE" "SELECT" eq_refl A), (kwlike_kind t "ANALYZE" "WITH" eq_refl A),
            (kwlike_kind t "ANALYZE" "(" eq_refl A), (kwlike_kind t "ANALYZE" "FROM" eq_refl A).
    rewrite (kwlike_excl t "ANALYZE" "INSERT" eq_refl A), (kwlike_excl t "ANALYZE" "DELETE" eq_refl A), (kwlike_excl t "ANALYZE" "UPDATE" eq_refl A).
    rewrite A. cbn [orb]. rewrite !orb_true_r. reflexivity.
Qed.

(* C03 on the family: the statement parser never runs out of fuel (its only loop, over a dotted name, is bounded by the input) *)
Lemma parse_path_nofuel ts : parse_path ts <> Fuel.
Proof.
  unfold parse_path. destruct (parse_ident ts) as [[i ts1]| | |] eqn:E; cbn [bind]; try discriminate; [|exfalso; exact (parse_ident_nofuel _ E)].
  apply parse_ident_ok in E as (KI & _ & ->). destruct (next_cases ts) as [Q|Q].
  - rewrite Q. destruct ts as [|t r]; [cbn in KI; discriminate|]. cbn [length path_more cur]. cbn [cur] in KI.
    rewrite (kd _ _ "." KI eq_refl). discriminate.
  - apply path_more_total. lia.
Qed.

Lemma expect_words_nofuel : forall ws ts lp, expect_words ws ts lp <> Fuel.
Proof.
  induction ws as [|w r IH]; intros ts lp; cbn [expect_words]; [discriminate|].
  destruct w as [s|k]; cbn [expect_word]; unfold expect_kw, expect.
  - destruct (kis (cur ts) K_ident); cbn [bind]; [|discriminate]. destruct (is_kwlike (cur ts) s); cbn [bind]; [apply IH|discriminate].
  - destruct (kis (cur ts) k); cbn [bind]; [apply IH|discriminate].
Qed.

Lemma parse_row_nofuel pos r ts : parse_row pos r ts <> Fuel.
Proof.
  unfold parse_row. pose proof (expect_words_nofuel (r_words r) ts 0%Z) as W.
  destruct (expect_words (r_words r) ts 0) as [[lp a]| | |]; cbn [bind]; try discriminate; [|congruence].
  assert (IE : (if r_ifexists r then if_exists a else Ok (false, a)) <> Fuel).
  { destruct (r_ifexists r); [|discriminate]. unfold if_exists, expect. destruct (kis (cur a) "IF"); [|discriminate].
    destruct (kis (cur (next a)) "EXISTS"); cbn [bind]; discriminate. }
  destruct (if r_ifexists r then if_exists a else Ok (false, a)) as [[ie b]| | |]; cbn [bind]; try discriminate; [|congruence].
  destruct (r_name r); [discriminate| |].
  - pose proof (parse_ident_nofuel b). destruct (parse_ident b) as [[i c]| | |]; cbn [bind]; congruence.
  - pose proof (parse_path_nofuel b). destruct (parse_path b) as [[ids c]| | |]; cbn [bind]; congruence.
Qed.

(* the comma-separated lists: the fuel of the model (the input length) is always enough *)
Section ListTotal.
  Context {A : Type} (item : toks -> ExprModel.res (A * toks)).
  Hypothesis item_nofuel : forall ts, item ts <> Fuel.
  Hypothesis item_shrinks : forall ts x r, item ts = Ok (x, r) -> length r <= length ts /\ kis (cur ts) "," = false.

  Lemma comma_moves ts x r : kis (cur ts) "," = true -> item (next ts) = Ok (x, r) -> length r < length ts.
  Proof.
    intros K E. destruct (item_shrinks _ _ _ E) as [L NC]. destruct (next_cases ts) as [Q|Q]; [rewrite Q in NC; congruence|lia].
  Qed.

  Lemma list_more_total : forall n acc ts, length ts < n -> list_more item n acc ts <> Fuel.
  Proof.
    induction n as [|n IH]; intros acc ts L; [lia|]. cbn [list_more]. destruct (kis (cur ts) ",") eqn:K; [|discriminate].
    destruct (item (next ts)) as [[x r]| | |] eqn:E; cbn [bind]; try discriminate; [|exfalso; exact (item_nofuel _ E)].
    apply IH. pose proof (comma_moves _ _ _ K E). lia.
  Qed.

  Lemma list_more_le : forall n acc ts l r, list_more item n acc ts = Ok (l, r) -> length r <= length ts.
  Proof.
    induction n as [|n IH]; intros acc ts l r; cbn [list_more]; [discriminate|]. destruct (kis (cur ts) ",") eqn:K; [|intros H; inversion H; subst; lia].
    destruct (item (next ts)) as [[x r0]| | |] eqn:E; cbn [bind]; try discriminate.
    intros H. apply IH in H. pose proof (comma_moves _ _ _ K E). lia.
  Qed.

  Lemma comma_list_nofuel ts : comma_list item ts <> Fuel.
  Proof.
    unfold comma_list. destruct (item ts) as [[x r]| | |] eqn:E; cbn [bind]; try discriminate; [|exfalso; exact (item_nofuel _ E)].
    apply list_more_total. destruct (item_shrinks _ _ _ E). lia.
  Qed.

  Lemma comma_list_shrinks ts l r : comma_list item ts = Ok (l, r) -> length r <= length ts /\ kis (cur ts) "," = false.
  Proof.
    unfold comma_list. destruct (item ts) as [[x r0]| | |] eqn:E; cbn [bind]; try discriminate.
    intros H. apply list_more_le in H. destruct (item_shrinks _ _ _ E). split; [lia|assumption].
  Qed.
End ListTotal.

Lemma expect_shrinks k ts t r : expect k ts = Ok (t, r) -> length r <= length ts /\ kis (cur ts) k = true.
Proof. intros H. apply expect_ok in H as (K & _ & ->). split; [apply next_le|exact K]. Qed.

Lemma expect_kw_shrinks s ts t r : expect_kw s ts = Ok (t, r) -> length r <= length ts /\ is_kwlike (cur ts) s = true.
Proof.
  unfold expect_kw. destruct (expect K_ident ts) as [[t0 r0]| | |] eqn:E; cbn [bind]; try discriminate.
  apply expect_ok in E as (K & -> & ->). destruct (is_kwlike (cur ts) s) eqn:W; intros H; inversion H; subst. split; [apply next_le|reflexivity].
Qed.

Lemma expect_kw_nofuel s ts : expect_kw s ts <> Fuel.
Proof. unfold expect_kw, expect. destruct (kis (cur ts) K_ident); cbn [bind]; [|discriminate]. destruct (is_kwlike (cur ts) s); discriminate. Qed.

Lemma ident_shrinks ts i r : parse_ident ts = Ok (i, r) -> length r <= length ts /\ kis (cur ts) "," = false.
Proof. intros H. apply parse_ident_ok in H as (K & _ & ->). split; [apply next_le|exact (kd _ _ "," K eq_refl)]. Qed.

Lemma idents_nofuel ts : comma_list parse_ident ts <> Fuel.
Proof. apply comma_list_nofuel; [exact parse_ident_nofuel|exact ident_shrinks]. Qed.

Lemma idents_shrinks ts l r : comma_list parse_ident ts = Ok (l, r) -> length r <= length ts /\ kis (cur ts) "," = false.
Proof. apply comma_list_shrinks. exact ident_shrinks. Qed.

Lemma rename_to_nofuel ts : rename_to ts <> Fuel.
Proof.
  unfold rename_to. pose proof (parse_ident_nofuel ts). destruct (parse_ident ts) as [[o a]| | |]; cbn [bind]; try congruence.
  pose proof (expect_nofuel "TO" a). destruct (expect "TO" a) as [[x b]| | |]; cbn [bind]; try congruence.
  pose proof (parse_ident_nofuel b). destruct (parse_ident b) as [[n c]| | |]; cbn [bind]; congruence.
Qed.

Lemma rename_to_shrinks ts x r : rename_to ts = Ok (x, r) -> length r <= length ts /\ kis (cur ts) "," = false.
Proof.
  unfold rename_to. destruct (parse_ident ts) as [[o a]| | |] eqn:E1; cbn [bind]; try discriminate.
  destruct (expect "TO" a) as [[y b]| | |] eqn:E2; cbn [bind]; try discriminate.
  destruct (parse_ident b) as [[n c]| | |] eqn:E3; cbn [bind]; try discriminate. intros H. inversion H; subst.
  apply ident_shrinks in E1 as [L1 NC]. apply expect_shrinks in E2 as [L2 _]. apply ident_shrinks in E3 as [L3 _]. split; [lia|exact NC].
Qed.

Lemma parse_rename_nofuel pos ts : parse_rename pos ts <> Fuel.
Proof.
  unfold parse_rename. pose proof (expect_kw_nofuel "TABLE" ts). destruct (expect_kw "TABLE" ts) as [[x a]| | |]; cbn [bind]; try congruence.
  pose proof (comma_list_nofuel rename_to rename_to_nofuel rename_to_shrinks a). destruct (comma_list rename_to a) as [[l b]| | |]; cbn [bind]; congruence.
Qed.

Lemma priv_columns_nofuel ts : priv_columns ts <> Fuel.
Proof.
  unfold priv_columns. destruct (kis (cur ts) "("); [|discriminate].
  pose proof (idents_nofuel (next ts)). destruct (comma_list parse_ident (next ts)) as [[cols a]| | |]; cbn [bind]; try congruence.
  pose proof (expect_nofuel ")" a). destruct (expect ")" a) as [[rp b]| | |]; cbn [bind]; congruence.
Qed.

Lemma priv_columns_le ts c r : priv_columns ts = Ok (c, r) -> length r <= length ts.
Proof.
  unfold priv_columns. destruct (kis (cur ts) "("); [|intros H; inversion H; subst; lia].
  destruct (comma_list parse_ident (next ts)) as [[cols a]| | |] eqn:E1; cbn [bind]; try discriminate.
  destruct (expect ")" a) as [[rp b]| | |] eqn:E2; cbn [bind]; try discriminate. intros H. inversion H; subst.
  apply idents_shrinks in E1 as [L1 _]. apply expect_shrinks in E2 as [L2 _]. pose proof (next_le ts). lia.
Qed.

Lemma kwlike_not_comma t s : is_kwlike t s = true -> kis t "," = false.
Proof. intros H. exact (kwlike_kind t s "," eq_refl H). Qed.

Lemma table_privilege_nofuel ts : table_privilege ts <> Fuel.
Proof.
  unfold table_privilege. pose proof (priv_columns_nofuel (next ts)) as N.
  destruct (kis (cur ts) "SELECT"); [destruct (priv_columns (next ts)) as [[[c z] a]| | |]; cbn [bind]; congruence|].
  destruct (is_kwlike (cur ts) "INSERT"); [destruct (priv_columns (next ts)) as [[[c z] a]| | |]; cbn [bind]; congruence|].
  destruct (is_kwlike (cur ts) "UPDATE"); [destruct (priv_columns (next ts)) as [[[c z] a]| | |]; cbn [bind]; congruence|].
  destruct (is_kwlike (cur ts) "DELETE"); discriminate.
Qed.

Lemma table_privilege_shrinks ts x r : table_privilege ts = Ok (x, r) -> length r <= length ts /\ kis (cur ts) "," = false.
Proof.
  unfold table_privilege. pose proof (next_le ts) as NL.
  destruct (kis (cur ts) "SELECT") eqn:KS.
  { destruct (priv_columns (next ts)) as [[[c z] a]| | |] eqn:E; cbn [bind]; try discriminate. intros H. inversion H; subst.
    apply priv_columns_le in E. split; [lia|exact (kd _ _ "," KS eq_refl)]. }
  destruct (is_kwlike (cur ts) "INSERT") eqn:KI.
  { destruct (priv_columns (next ts)) as [[[c z] a]| | |] eqn:E; cbn [bind]; try discriminate. intros H. inversion H; subst.
    apply priv_columns_le in E. split; [lia|exact (kwlike_not_comma _ _ KI)]. }
  destruct (is_kwlike (cur ts) "UPDATE") eqn:KU.
  { destruct (priv_columns (next ts)) as [[[c z] a]| | |] eqn:E; cbn [bind]; try discriminate. intros H. inversion H; subst.
    apply priv_columns_le in E. split; [lia|exact (kwlike_not_comma _ _ KU)]. }
  destruct (is_kwlike (cur ts) "DELETE") eqn:KD; [|discriminate]. intros H. inversion H; subst. split; [lia|exact (kwlike_not_comma _ _ KD)].
Qed.

Lemma privilege_nofuel ts : privilege ts <> Fuel.
Proof.
  unfold privilege.
  destruct (kis (cur ts) "SELECT" && kis (cur (next ts)) "ON" && is_kwlike (cur (next (next ts))) "VIEW").
  { pose proof (idents_nofuel (next (next (next ts)))). destruct (comma_list parse_ident (next (next (next ts)))) as [[l a]| | |]; cbn [bind]; congruence. }
  destruct (is_kwlike (cur ts) "EXECUTE").
  { pose proof (expect_nofuel "ON" (next ts)). destruct (expect "ON" (next ts)) as [[x a]| | |]; cbn [bind]; try congruence.
    pose proof (expect_kw_nofuel "TABLE" a). destruct (expect_kw "TABLE" a) as [[y b]| | |]; cbn [bind]; try congruence.
    pose proof (expect_kw_nofuel "FUNCTION" b). destruct (expect_kw "FUNCTION" b) as [[z c]| | |]; cbn [bind]; try congruence.
    pose proof (idents_nofuel c). destruct (comma_list parse_ident c) as [[l e]| | |]; cbn [bind]; congruence. }
  destruct (is_kwlike (cur ts) "ROLE").
  { pose proof (idents_nofuel (next ts)). destruct (comma_list parse_ident (next ts)) as [[l a]| | |]; cbn [bind]; congruence. }
  destruct (kis (cur ts) "SELECT" && kis (cur (next ts)) "ON" && is_kwlike (cur (next (next ts))) "CHANGE").
  { pose proof (expect_kw_nofuel "STREAM" (next (next (next ts)))). destruct (expect_kw "STREAM" (next (next (next ts)))) as [[x a]| | |]; cbn [bind]; try congruence.
    pose proof (idents_nofuel a). destruct (comma_list parse_ident a) as [[l b]| | |]; cbn [bind]; congruence. }
  pose proof (comma_list_nofuel table_privilege table_privilege_nofuel table_privilege_shrinks ts).
  destruct (comma_list table_privilege ts) as [[pv a]| | |]; cbn [bind]; try congruence.
  pose proof (expect_nofuel "ON" a). destruct (expect "ON" a) as [[x b]| | |]; cbn [bind]; try congruence.
  pose proof (expect_kw_nofuel "TABLE" b). destruct (expect_kw "TABLE" b) as [[y c]| | |]; cbn [bind]; try congruence.
  pose proof (idents_nofuel c). destruct (comma_list parse_ident c) as [[l e]| | |]; cbn [bind]; congruence.
Qed.

Lemma parse_grant_nofuel rv pos ts : parse_grant rv pos ts <> Fuel.
Proof.
  unfold parse_grant. pose proof (privilege_nofuel ts). destruct (privilege ts) as [[pv a]| | |]; cbn [bind]; try congruence.
  pose proof (expect_nofuel (if rv then "FROM" else "TO") a). destruct (expect (if rv then "FROM" else "TO") a) as [[x b]| | |]; cbn [bind]; try congruence.
  pose proof (expect_kw_nofuel "ROLE" b). destruct (expect_kw "ROLE" b) as [[y c]| | |]; cbn [bind]; try congruence.
  pose proof (idents_nofuel c). destruct (comma_list parse_ident c) as [[l e]| | |]; cbn [bind]; congruence.
Qed.

Lemma path_more_le : forall n acc ts l r, path_more n acc ts = Ok (l, r) -> length r <= length ts.
Proof.
  induction n as [|n IH]; intros acc ts l r; cbn [path_more]; [discriminate|]. destruct (kis (cur ts) "."); [|intros H; inversion H; subst; lia].
  destruct (parse_ident (next ts)) as [[i a]| | |] eqn:E; cbn [bind]; try discriminate.
  intros H. apply IH in H. apply ident_shrinks in E as [L _]. pose proof (next_le ts). lia.
Qed.

Lemma parse_path_shrinks ts ids r : parse_path ts = Ok (ids, r) -> length r <= length ts /\ kis (cur ts) "," = false.
Proof.
  unfold parse_path. destruct (parse_ident ts) as [[i a]| | |] eqn:E; cbn [bind]; try discriminate.
  intros H. apply path_more_le in H. apply ident_shrinks in E as [L NC]. split; [lia|exact NC].
Qed.

Lemma named_type_nofuel ts : named_type ts <> Fuel.
Proof. unfold named_type. pose proof (parse_path_nofuel ts). destruct (parse_path ts) as [[ids a]| | |]; cbn [bind]; congruence. Qed.

Lemma named_type_shrinks ts x r : named_type ts = Ok (x, r) -> length r <= length ts /\ kis (cur ts) "," = false.
Proof.
  unfold named_type. destruct (parse_path ts) as [[ids a]| | |] eqn:E; cbn [bind]; try discriminate. intros H. inversion H; subst.
  exact (parse_path_shrinks _ _ _ E).
Qed.

Lemma bundle_types_nofuel ts : bundle_types ts <> Fuel.
Proof.
  unfold bundle_types. pose proof (expect_nofuel "(" ts). destruct (expect "(" ts) as [[lp a]| | |]; cbn [bind]; try congruence.
  pose proof (comma_list_nofuel named_type named_type_nofuel named_type_shrinks a). destruct (comma_list named_type a) as [[tys b]| | |]; cbn [bind]; try congruence.
  pose proof (expect_nofuel ")" b). destruct (expect ")" b) as [[rp c]| | |]; cbn [bind]; congruence.
Qed.

Lemma bundle_clause_nofuel kw ty ts : bundle_clause kw ty ts <> Fuel.
Proof.
  unfold bundle_clause. destruct (is_kwlike (cur ts) kw); [|discriminate].
  pose proof (bundle_types_nofuel (next ts)). destruct (bundle_types (next ts)) as [[tys a]| | |]; cbn [bind]; congruence.
Qed.

Lemma parse_create_bundle_nofuel pos ts : parse_create_bundle pos ts <> Fuel.
Proof.
  unfold parse_create_bundle. pose proof (expect_nofuel "PROTO" ts). destruct (expect "PROTO" ts) as [[x a]| | |]; cbn [bind]; try congruence.
  pose proof (expect_kw_nofuel "BUNDLE" a). destruct (expect_kw "BUNDLE" a) as [[y b]| | |]; cbn [bind]; try congruence.
  pose proof (bundle_types_nofuel b). destruct (bundle_types b) as [[tys c]| | |]; cbn [bind]; congruence.
Qed.

Lemma parse_alter_bundle_nofuel pos ts : parse_alter_bundle pos ts <> Fuel.
Proof.
  unfold parse_alter_bundle. pose proof (expect_nofuel "PROTO" ts). destruct (expect "PROTO" ts) as [[x a]| | |]; cbn [bind]; try congruence.
  pose proof (expect_kw_nofuel "BUNDLE" a). destruct (expect_kw "BUNDLE" a) as [[y b]| | |]; cbn [bind]; try congruence.
  pose proof (bundle_clause_nofuel "INSERT" "AlterProtoBundleInsert" b). destruct (bundle_clause "INSERT" "AlterProtoBundleInsert" b) as [[i c]| | |]; cbn [bind]; try congruence.
  pose proof (bundle_clause_nofuel "UPDATE" "AlterProtoBundleUpdate" c). destruct (bundle_clause "UPDATE" "AlterProtoBundleUpdate" c) as [[u e]| | |]; cbn [bind]; try congruence.
  pose proof (bundle_clause_nofuel "DELETE" "AlterProtoBundleDelete" e). destruct (bundle_clause "DELETE" "AlterProtoBundleDelete" e) as [[d f]| | |]; cbn [bind]; congruence.
Qed.

Lemma index_alteration_nofuel ts : index_alteration ts <> Fuel.
Proof.
  unfold index_alteration. destruct (is_kwlike (cur ts) "ADD" || is_kwlike (cur ts) "DROP"); [|discriminate].
  pose proof (expect_kw_nofuel "STORED" (next ts)). destruct (expect_kw "STORED" (next ts)) as [[x a]| | |]; cbn [bind]; try congruence.
  pose proof (expect_kw_nofuel "COLUMN" a). destruct (expect_kw "COLUMN" a) as [[y b]| | |]; cbn [bind]; try congruence.
  pose proof (parse_ident_nofuel b). destruct (parse_ident b) as [[i c]| | |]; cbn [bind]; congruence.
Qed.

Lemma parse_alter_index_nofuel pos ts : parse_alter_index pos ts <> Fuel.
Proof.
  unfold parse_alter_index. pose proof (expect_kw_nofuel "INDEX" ts). destruct (expect_kw "INDEX" ts) as [[x a]| | |]; cbn [bind]; try congruence.
  pose proof (parse_path_nofuel a). destruct (parse_path a) as [[ids b]| | |]; cbn [bind]; try congruence.
  pose proof (index_alteration_nofuel b). destruct (index_alteration b) as [[al c]| | |]; cbn [bind]; congruence.
Qed.

Lemma parse_alter_search_index_nofuel pos ts : parse_alter_search_index pos ts <> Fuel.
Proof.
  unfold parse_alter_search_index. pose proof (expect_kw_nofuel "SEARCH" ts). destruct (expect_kw "SEARCH" ts) as [[x a]| | |]; cbn [bind]; try congruence.
  pose proof (expect_kw_nofuel "INDEX" a). destruct (expect_kw "INDEX" a) as [[y b]| | |]; cbn [bind]; try congruence.
  pose proof (parse_ident_nofuel b). destruct (parse_ident b) as [[i c]| | |]; cbn [bind]; try congruence.
  pose proof (index_alteration_nofuel c). destruct (index_alteration c) as [[al e]| | |]; cbn [bind]; congruence.
Qed.

Theorem ddl_body_nofuel ts : ddl_body ts <> Some Fuel.
Proof.
  unfold ddl_body. destruct (kis (cur ts) "CREATE").
  { destruct (find_row create_rows (cur (next ts))) as [r|]; [intros H; inversion H as [H1]; exact (parse_row_nofuel _ _ _ H1)|].
    destruct (kis (cur (next ts)) "PROTO"); [intros H; inversion H as [H1]; exact (parse_create_bundle_nofuel _ _ H1)|].
    destruct (other_create (cur (next ts))); discriminate. }
  destruct (is_kwlike (cur ts) "DROP").
  { destruct (find_row drop_rows (cur (next ts))) as [r|]; [|discriminate]. intros H. inversion H as [H1]. exact (parse_row_nofuel _ _ _ H1). }
  destruct (is_kwlike (cur ts) "ANALYZE").
  { unfold expect_kw, expect. destruct (kis (cur ts) K_ident); cbn [bind]; [|discriminate]. destruct (is_kwlike (cur ts) "ANALYZE"); cbn [bind]; discriminate. }
  destruct (is_kwlike (cur ts) "RENAME"); [intros H; inversion H as [H1]; exact (parse_rename_nofuel _ _ H1)|].
  destruct (is_kwlike (cur ts) "GRANT"); [intros H; inversion H as [H1]; exact (parse_grant_nofuel _ _ _ H1)|].
  destruct (is_kwlike (cur ts) "REVOKE"); [intros H; inversion H as [H1]; exact (parse_grant_nofuel _ _ _ H1)|].
  destruct (is_kwlike (cur ts) "ALTER"); [|discriminate]. cbv zeta.
  destruct (kis (cur (next ts)) "PROTO"); [intros H; inversion H as [H1]; exact (parse_alter_bundle_nofuel _ _ H1)|].
  destruct (is_kwlike (cur (next ts)) "INDEX"); [intros H; inversion H as [H1]; exact (parse_alter_index_nofuel _ _ H1)|].
  destruct (is_kwlike (cur (next ts)) "SEARCH"); [intros H; inversion H as [H1]; exact (parse_alter_search_index_nofuel _ _ H1)|].
  destruct (other_alter (cur (next ts))); discriminate.
Qed.

(* C05 on the family: the first field of the node of an accepted statement is the position of the statement's first token (for all
   twenty-four node types Pos() is that field) *)
Lemma parse_row_pos pos r ts d r' : parse_row pos r ts = Ok (d, r') -> exists ty fs, d = DNode ty (FPos pos :: fs).
Proof.
  unfold parse_row. destruct (expect_words (r_words r) ts 0) as [[lp a]| | |]; cbn [bind]; try discriminate.
  destruct (if r_ifexists r then if_exists a else Ok (false, a)) as [[ie b]| | |]; cbn [bind]; try discriminate.
  destruct (r_name r).
  - intros H. inversion H; subst. eauto.
  - destruct (parse_ident b) as [[i c]| | |]; cbn [bind]; try discriminate. intros H. inversion H; subst. cbn [app]. eauto.
  - destruct (parse_path b) as [[ids c]| | |]; cbn [bind]; try discriminate. intros H. inversion H; subst. cbn [app]. eauto.
Qed.

Theorem ddl_body_pos ts d r : ddl_body ts = Some (Ok (d, r)) -> exists ty fs, d = DNode ty (FPos (ppos (cur ts)) :: fs).
Proof.
  unfold ddl_body. destruct (kis (cur ts) "CREATE").
  { destruct (find_row create_rows (cur (next ts))) as [rw|].
    - intros H. inversion H as [H1]. exact (parse_row_pos _ _ _ _ _ H1).
    - destruct (kis (cur (next ts)) "PROTO"); [|destruct (other_create (cur (next ts))); discriminate].
      unfold parse_create_bundle. destruct (expect "PROTO" (next ts)) as [[x a]| | |]; cbn [bind]; try discriminate.
      destruct (expect_kw "BUNDLE" a) as [[y b]| | |]; cbn [bind]; try discriminate.
      destruct (bundle_types b) as [[tys c]| | |]; cbn [bind]; try discriminate. intros H. inversion H; subst. eauto. }
  destruct (is_kwlike (cur ts) "DROP").
  { destruct (find_row drop_rows (cur (next ts))) as [rw|]; [|discriminate].
    intros H. inversion H as [H1]. exact (parse_row_pos _ _ _ _ _ H1). }
  destruct (is_kwlike (cur ts) "ANALYZE").
  { destruct (expect_kw "ANALYZE" ts) as [[a ts1]| | |] eqn:E; cbn [bind]; try discriminate. intros H. inversion H; subst.
    unfold expect_kw in E. destruct (expect K_ident ts) as [[t0 r0]| | |] eqn:E0; cbn [bind] in E; try discriminate.
    apply expect_ok in E0 as (_ & -> & ->). destruct (is_kwlike (cur ts) "ANALYZE"); inversion E; subst. eauto. }
  destruct (is_kwlike (cur ts) "RENAME").
  { unfold parse_rename. destruct (expect_kw "TABLE" (next ts)) as [[a ts1]| | |]; cbn [bind]; try discriminate.
    destruct (comma_list rename_to ts1) as [[l ts2]| | |]; cbn [bind]; try discriminate. intros H. inversion H; subst. eauto. }
  assert (G : forall rv ts0, parse_grant rv (ppos (cur ts)) ts0 = Ok (d, r) -> exists ty fs, d = DNode ty (FPos (ppos (cur ts)) :: fs)).
  { intros rv ts0. unfold parse_grant. destruct (privilege ts0) as [[pv a]| | |]; cbn [bind]; try discriminate.
    destruct (expect (if rv then "FROM" else "TO") a) as [[x b]| | |]; cbn [bind]; try discriminate.
    destruct (expect_kw "ROLE" b) as [[y c]| | |]; cbn [bind]; try discriminate.
    destruct (comma_list parse_ident c) as [[roles e]| | |]; cbn [bind]; try discriminate. intros H. inversion H; subst. eauto. }
  destruct (is_kwlike (cur ts) "GRANT"); [intros H; inversion H as [H1]; exact (G _ _ H1)|].
  destruct (is_kwlike (cur ts) "REVOKE"); [intros H; inversion H as [H1]; exact (G _ _ H1)|].
  destruct (is_kwlike (cur ts) "ALTER"); [|discriminate]. cbv zeta.
  destruct (kis (cur (next ts)) "PROTO").
  { unfold parse_alter_bundle. destruct (expect "PROTO" (next ts)) as [[x a]| | |]; cbn [bind]; try discriminate.
    destruct (expect_kw "BUNDLE" a) as [[y b]| | |]; cbn [bind]; try discriminate.
    destruct (bundle_clause "INSERT" "AlterProtoBundleInsert" b) as [[i c]| | |]; cbn [bind]; try discriminate.
    destruct (bundle_clause "UPDATE" "AlterProtoBundleUpdate" c) as [[u e]| | |]; cbn [bind]; try discriminate.
    destruct (bundle_clause "DELETE" "AlterProtoBundleDelete" e) as [[dl f]| | |]; cbn [bind]; try discriminate. intros H. inversion H; subst. eauto. }
  destruct (is_kwlike (cur (next ts)) "INDEX").
  { unfold parse_alter_index. destruct (expect_kw "INDEX" (next ts)) as [[x a]| | |]; cbn [bind]; try discriminate.
    destruct (parse_path a) as [[ids b]| | |]; cbn [bind]; try discriminate.
    destruct (index_alteration b) as [[al c]| | |]; cbn [bind]; try discriminate. intros H. inversion H; subst. eauto. }
  destruct (is_kwlike (cur (next ts)) "SEARCH").
  { unfold parse_alter_search_index. destruct (expect_kw "SEARCH" (next ts)) as [[x a]| | |]; cbn [bind]; try discriminate.
    destruct (expect_kw "INDEX" a) as [[y b]| | |]; cbn [bind]; try discriminate.
    destruct (parse_ident b) as [[i c]| | |]; cbn [bind]; try discriminate.
    destruct (index_alteration c) as [[al e]| | |]; cbn [bind]; try discriminate. intros H. inversion H; subst. eauto. }
  destruct (other_alter (cur (next ts))); discriminate.
Qed.

(* C10 under ParseStatement: whichever recover point catches the failure (parseDDL's or parseStatementInternal's), the Bad node of a rejected
   piece holds exactly the tokens of the piece and parsing resumes at the terminator *)
Theorem sp_stmt_bad p k d r : p <> [] -> Forall plainT p -> theaded k -> sp_stmt (p ++ k) = Some (d, r, 1) ->
  (exists lvl, d = DBad lvl (ppos (cur p)) (last_pend (ppos (cur p)) p) p) /\ r = k.
Proof.
  intros NE F T. unfold sp_stmt. rewrite (cur_app_ne p k NE).
  destruct (kis (cur p) "@"); [discriminate|].
  destruct (kis (cur p) "SELECT" || kis (cur p) "WITH" || kis (cur p) "(" || kis (cur p) "FROM"); [discriminate|].
  destruct (is_kwlike (cur p) "INSERT" || is_kwlike (cur p) "DELETE" || is_kwlike (cur p) "UPDATE"); [discriminate|].
  destruct (kis (cur p) "CREATE" || is_kwlike (cur p) "ALTER" || is_kwlike (cur p) "DROP" || is_kwlike (cur p) "RENAME" || is_kwlike (cur p) "GRANT"
            || is_kwlike (cur p) "REVOKE" || is_kwlike (cur p) "ANALYZE").
  { intros H. destruct (sp_ddl_bad p k d r NE F T H) as [-> ->]. split; [eexists; reflexivity|reflexivity]. }
  destruct (is_kwlike (cur p) "CALL"); [discriminate|].
  rewrite (sskip_plain p [] _ k F T). cbn [app]. intros H. inversion H; subst. split; [eexists; reflexivity|reflexivity].
Qed.
