(* Parse/Respell.v -- C16, parser half on the expression fragment: the result of the parser model, up to position values, is
   a function of the token KINDS and VALUES only.  Positions, the spelling (letter case) of keywords and -- in the second
   instance -- the letter case of identifiers used as pseudo keywords do not influence acceptance or the shape of the tree.
   (Whitespace and comments are not even part of the model's input: ParseExpr is tied to this function of the bare token list
   by the correspondence of C07.) *)
From Verif Require Import Base.Bytes Tree.Tree Parse.ExprModel Parse.ExprFacts.
Local Open Scope Z_scope.

Section Sim.
  (* how identifier names are compared: the identity (exact spelling) or to_upper (spelling up to letter case) *)
  Variable norm : bytes -> bytes.
  Hypothesis norm_fold : forall a b, norm a = norm b -> to_upper a = to_upper b.

  Definition lit_kind (t : ptok) : bool := kis t K_int || kis t K_float.

  (* two tokens that differ at most in position, in the case of a keyword's spelling and (up to norm) of an identifier's *)
  Definition tsim (t t' : ptok) : Prop :=
    pk t = pk t' /\ pbase t = pbase t' /\
    (if kis t K_ident then norm (pstr t) = norm (pstr t') /\ to_upper (praw t) = to_upper (praw t') else pstr t = pstr t') /\
    (lit_kind t = true -> praw t = praw t').

  Definition er_ident (i : ident) : ident := {| id_pos := 0; id_end := 0; id_name := norm (id_name i) |}.

  (* forget every position *)
  Fixpoint erase (e : expr) : expr :=
    match e with
    | EBinary op l r => EBinary op (erase l) (erase r)
    | EUnary _ op x => EUnary 0 op (erase x)
    | EIn neg l c => EIn neg (erase l) (erase_c c)
    | EIsNull _ neg l => EIsNull 0 neg (erase l)
    | EIsBool _ neg l v => EIsBool 0 neg (erase l) v
    | EBetween neg l s x => EBetween neg (erase l) (erase s) (erase x)
    | ESelector x i => ESelector (erase x) (er_ident i)
    | EIndex _ x ix => EIndex 0 (erase x) (erase_s ix)
    | EParen _ _ x => EParen 0 0 (erase x)
    | ETuple _ _ vs => ETuple 0 0 ((fix go (l : list expr) := match l with [] => [] | x :: r => erase x :: go r end) vs)
    | EParam _ n => EParam 0 n
    | EIdent i => EIdent (er_ident i)
    | EPath ids => EPath (map er_ident ids)
    | ENull _ => ENull 0
    | EBool _ v => EBool 0 v
    | EInt _ _ base v => EInt 0 0 base v
    | EFloat _ _ v => EFloat 0 0 v
    | EString _ _ v => EString 0 0 v
    | EBytes _ _ v => EBytes 0 0 v
    end
  with erase_c (c : incond) : incond :=
    match c with
    | CValues _ _ es => CValues 0 0 ((fix go (l : list expr) := match l with [] => [] | x :: r => erase x :: go r end) es)
    | CUnnest _ _ x => CUnnest 0 0 (erase x)
    end
  with erase_s (s : subscript) : subscript :=
    match s with
    | SKeyword _ _ kw x => SKeyword 0 0 kw (erase x)
    | SExprArg x => SExprArg (erase x)
    end.

  Definition erase_l (l : list expr) : list expr := map erase l.
  Lemma erase_go l : (fix go (l : list expr) := match l with [] => [] | x :: r => erase x :: go r end) l = erase_l l.
  Proof. induction l as [|x l IH]; [reflexivity|]. unfold erase_l in *. cbn [map]. rewrite <- IH. reflexivity. Qed.

  Definition tssim (ts ts' : toks) : Prop := Forall2 tsim ts ts'.

  Definition rsim (r r' : res (expr * toks)) : Prop :=
    match r, r' with
    | Ok (e, ts), Ok (e', ts') => erase e = erase e' /\ tssim ts ts'
    | Err _, Err _ => True
    | Unsup, Unsup => True
    | Fuel, Fuel => True
    | _, _ => False
    end.

  Definition msim (m m' : mode) : Prop :=
    match m, m' with
    | MBin l, MBin l' => l = l'
    | MLoop l a, MLoop l' a' => l = l' /\ erase a = erase a'
    | MNot, MNot | MCmp, MCmp | MUnary, MUnary | MSel, MSel | MLit, MLit => True
    | MSelLoop a, MSelLoop a' => erase a = erase a'
    | _, _ => False
    end.

  (* ---- tokens ---- *)
  Lemma tsim_eof : tsim eof_tok eof_tok.
  Proof. unfold tsim. cbn. repeat split; auto. Qed.

  Lemma cur_sim ts ts' : tssim ts ts' -> tsim (cur ts) (cur ts').
  Proof. intros [|t t' r r' H _]; [apply tsim_eof|exact H]. Qed.

  Lemma next_sim ts ts' : tssim ts ts' -> tssim (next ts) (next ts').
  Proof.
    intros H. destruct H as [|t t' r r' H1 H2]; [constructor|].
    destruct H2 as [|u u' q q' H3 H4]; cbn [next].
    - apply Forall2_cons; [exact H1|apply Forall2_nil].
    - apply Forall2_cons; [exact H3|exact H4].
  Qed.

  Lemma kis_sim t t' : tsim t t' -> forall k, kis t k = kis t' k.
  Proof. intros (H & _) k. unfold kis. rewrite H. reflexivity. Qed.

  Lemma find_op_sim t t' ops : tsim t t' -> find_op t ops = find_op t' ops.
  Proof. intros H. induction ops as [|[k op] r IH]; [reflexivity|]. cbn [find_op]. rewrite (kis_sim _ _ H), IH. reflexivity. Qed.

  Lemma is_ident_ci_sim t t' s : tsim t t' -> is_ident_ci t s = is_ident_ci t' s.
  Proof.
    intros H. unfold is_ident_ci. rewrite <- (kis_sim _ _ H). destruct (kis t K_ident) eqn:K; [|reflexivity]. cbn [andb].
    destruct H as (_ & _ & H & _). rewrite K in H. destruct H as [H _]. unfold equal_fold_s, equal_fold. rewrite (norm_fold _ _ H). reflexivity.
  Qed.

  Lemma is_kwlike_sim t t' s : tsim t t' -> is_kwlike t s = is_kwlike t' s.
  Proof.
    intros H. unfold is_kwlike. rewrite <- (kis_sim _ _ H). destruct (kis t K_ident) eqn:K; [|reflexivity]. cbn [andb].
    destruct H as (_ & _ & H & _). rewrite K in H. destruct H as [_ H]. unfold equal_fold_s, equal_fold. rewrite H. reflexivity.
  Qed.

  Lemma tssim_length ts ts' : tssim ts ts' -> length ts = length ts'.
  Proof. induction 1; cbn; auto. Qed.

  Lemma skip_lparens_sim : forall f ts ts', tssim ts ts' -> tssim (skip_lparens f ts) (skip_lparens f ts').
  Proof.
    induction f as [|f IH]; intros ts ts' H; [exact H|]. cbn [skip_lparens].
    rewrite (kis_sim _ _ (cur_sim _ _ H)). destruct (kis (cur ts') "("); [apply IH, next_sim, H|exact H].
  Qed.

  Lemma maybe_subquery_sim ts ts' : tssim ts ts' -> maybe_subquery ts = maybe_subquery ts'.
  Proof.
    intros H. unfold maybe_subquery. rewrite (kis_sim _ _ (cur_sim _ _ H)), (tssim_length _ _ H).
    rewrite (kis_sim _ _ (cur_sim _ _ (skip_lparens_sim (length ts') _ _ H))). reflexivity.
  Qed.

  Lemma lookahead_call_sim : forall f ts ts', tssim ts ts' -> lookahead_call f ts = lookahead_call f ts'.
  Proof.
    induction f as [|f IH]; intros ts ts' H; [reflexivity|]. cbn [lookahead_call].
    rewrite (kis_sim _ _ (cur_sim _ _ H)). destruct (kis (cur ts') K_ident); [|reflexivity]. cbn [negb].
    pose proof (next_sim _ _ H) as H1. rewrite !(kis_sim _ _ (cur_sim _ _ H1)).
    destruct (kis (cur (next ts')) "("); [reflexivity|]. destruct (kis (cur (next ts')) "."); [|reflexivity].
    apply IH, next_sim, H1.
  Qed.

  (* ---- the parser functions ---- *)
  Definition Rrec (rec rec' : rec_t) : Prop :=
    forall m m' ts ts', msim m m' -> tssim ts ts' -> rsim (rec m ts) (rec' m' ts').

  Lemma expect_sim k ts ts' : tssim ts ts' ->
    match expect k ts, expect k ts' with
    | Ok (t, r), Ok (t', r') => tsim t t' /\ tssim r r'
    | Err _, Err _ => True
    | _, _ => False
    end.
  Proof.
    intros H. unfold expect. rewrite (kis_sim _ _ (cur_sim _ _ H)).
    destruct (kis (cur ts') k); [split; [apply cur_sim|apply next_sim]; exact H|exact I].
  Qed.

  Definition rlsim (r r' : res (list expr * toks)) : Prop :=
    match r, r' with
    | Ok (es, ts), Ok (es', ts') => erase_l es = erase_l es' /\ tssim ts ts'
    | Err _, Err _ | Unsup, Unsup | Fuel, Fuel => True
    | _, _ => False
    end.

  Lemma more_sim p p' : (forall ts ts', tssim ts ts' -> rsim (p ts) (p' ts')) ->
    forall n acc acc' ts ts', erase_l acc = erase_l acc' -> tssim ts ts' -> rlsim (more p n acc ts) (more p' n acc' ts').
  Proof.
    intros HP. induction n as [|n IH]; intros acc acc' ts ts' HA HT; [exact I|].
    cbn [more]. rewrite (kis_sim _ _ (cur_sim _ _ HT)). destruct (kis (cur ts') ","); [|split; assumption].
    pose proof (HP _ _ (next_sim _ _ HT)) as X.
    destruct (p (next ts)) as [[e r]| | |]; destruct (p' (next ts')) as [[e' r']| | |]; cbn [rsim] in X; try contradiction; cbn [bind rlsim]; try exact I.
    destruct X as [HE HR]. apply IH; [|exact HR]. unfold erase_l in *. rewrite !map_app, HA. cbn [map]. rewrite HE. reflexivity.
  Qed.

  Lemma kis_excl t k1 k2 : kis t k1 = true -> bytes_eqb (bs k1) (bs k2) = false -> kis t k2 = false.
  Proof. unfold kis. intros H1 H2. apply bytes_eqb_eq in H1. rewrite H1. exact H2. Qed.

  Lemma tsim_str t t' : tsim t t' -> kis t' K_ident = false -> pstr t = pstr t'.
  Proof. intros H K. rewrite <- (kis_sim _ _ H) in K. destruct H as (_ & _ & H & _). rewrite K in H. exact H. Qed.

  Lemma tsim_name t t' : tsim t t' -> kis t' K_ident = true -> norm (pstr t) = norm (pstr t').
  Proof. intros H K. rewrite <- (kis_sim _ _ H) in K. destruct H as (_ & _ & H & _). rewrite K in H. apply H. Qed.

  Lemma tsim_raw t t' : tsim t t' -> kis t' K_int || kis t' K_float = true -> praw t = praw t'.
  Proof. intros H K. rewrite <- !(kis_sim _ _ H) in K. destruct H as (_ & _ & _ & H). apply H, K. Qed.

  Lemma tsim_base t t' : tsim t t' -> pbase t = pbase t'.
  Proof. intros H. apply H. Qed.

  Lemma msim_sub l : msim (sub_mode l) (sub_mode l).
  Proof. destruct l; cbn; auto. Qed.

  Ltac use_cur :=
    match goal with
    | HT : tssim ?ts ?ts' |- context[kis (cur ?ts) _] => rewrite !(kis_sim _ _ (cur_sim _ _ HT))
    | HT : tssim ?ts ?ts' |- context[find_op (cur ?ts) ?ops] => rewrite (find_op_sim _ _ ops (cur_sim _ _ HT))
    | HT : tssim ?ts ?ts' |- context[is_ident_ci (cur ?ts) ?s] => rewrite !(is_ident_ci_sim _ _ _ (cur_sim _ _ HT))
    | HT : tssim ?ts ?ts' |- context[is_kwlike (cur ?ts) ?s] => rewrite !(is_kwlike_sim _ _ _ (cur_sim _ _ HT))
    | HT : tssim ?ts ?ts' |- context[maybe_subquery ?ts] => rewrite (maybe_subquery_sim _ _ HT)
    | HT : tssim ?ts ?ts' |- context[lookahead_call _ ?ts] => rewrite (tssim_length _ _ HT), (lookahead_call_sim _ _ _ HT)
    end.

  Ltac new_next :=
    match goal with
    | HT : tssim ?ts ?ts' |- context[next ?ts] =>
        lazymatch goal with
        | _ : tssim (next ts) (next ts') |- _ => fail
        | _ => pose proof (next_sim _ _ HT)
        end
    end.

  Ltac call R :=
    match goal with
    | |- rsim (bind (?rec ?m ?ts) _) (bind (?rec' ?m' ?ts') _) =>
        let X := fresh "X" in
        assert (X : rsim (rec m ts) (rec' m' ts')) by (apply R; cbn [msim]; auto using msim_sub);
        destruct (rec m ts) as [[? ?]| | |]; destruct (rec' m' ts') as [[? ?]| | |]; cbn [rsim] in X; try contradiction;
        cbn [bind rsim]; try exact I; destruct X as [? ?]
    | |- rsim (?rec ?m ?ts) (?rec' ?m' ?ts') => apply R; cbn [msim]; auto using msim_sub
    end.

  Ltac call_expect :=
    match goal with
    | HT : tssim ?ts ?ts' |- rsim (bind (expect ?k ?ts) _) (bind (expect ?k ?ts') _) =>
        let X := fresh "X" in
        pose proof (expect_sim k _ _ HT) as X;
        destruct (expect k ts) as [[? ?]| | |]; destruct (expect k ts') as [[? ?]| | |]; try contradiction;
        cbn [bind rsim]; try exact I; destruct X as [? ?]
    end.

  Ltac call_more HP :=
    match goal with
    | HT : tssim ?ts ?ts' |- rsim (bind (more ?p (length ?ts) ?acc ?ts) _) (bind (more ?p' (length ?ts') ?acc' ?ts') _) =>
        let X := fresh "X" in
        rewrite (tssim_length _ _ HT);
        assert (X : rlsim (more p (length ts') acc ts) (more p' (length ts') acc' ts'))
          by (apply more_sim; [exact HP| unfold erase_l; cbn [map]; congruence | exact HT]);
        destruct (more p (length ts') acc ts) as [[? ?]| | |]; destruct (more p' (length ts') acc' ts') as [[? ?]| | |];
        cbn [rlsim] in X; try contradiction; cbn [bind rsim]; try exact I; destruct X as [? ?]
    end.

  Lemma bind_assoc {A B C} (a : res A) (f : A -> res B) (g : B -> res C) :
    bind (bind a f) g = bind a (fun x => bind (f x) g).
  Proof. destruct a; reflexivity. Qed.

  Lemma parse_ident_sim ts ts' : tssim ts ts' ->
    match parse_ident ts, parse_ident ts' with
    | Ok (i, r), Ok (i', r') => er_ident i = er_ident i' /\ tssim r r'
    | Err _, Err _ => True
    | _, _ => False
    end.
  Proof.
    intros H. unfold parse_ident, expect. rewrite (kis_sim _ _ (cur_sim _ _ H)).
    destruct (kis (cur ts') K_ident) eqn:K; cbn [bind]; [|exact I].
    split; [|apply next_sim, H]. unfold er_ident, mk_ident. cbn [id_name]. rewrite (tsim_name _ _ (cur_sim _ _ H) K). reflexivity.
  Qed.

  (* the two local functions of parseComparison *)
  Definition incond_f (rec : rec_t) (e : expr) (neg : bool) (ts2 : toks) : res (expr * toks) :=
    let pexpr := rec (MBin BOr) in
    if maybe_subquery ts2 then Unsup
    else if kis (cur ts2) "(" then
      do (e1, ts3) <- pexpr (next ts2);
      do (es, ts4) <- more pexpr (length ts3) [e1] ts3;
      do (rp, ts5) <- expect ")" ts4;
      Ok (EIn neg e (CValues (ppos (cur ts2)) (ppos rp) es), ts5)
    else if kis (cur ts2) "UNNEST" then
      do (_, ts3) <- expect "(" (next ts2);
      do (e1, ts4) <- pexpr ts3;
      do (rp, ts5) <- expect ")" ts4;
      Ok (EIn neg e (CUnnest (ppos (cur ts2)) (ppos rp) e1), ts5)
    else Err (ppos (cur ts2)).

  Definition between_f (rec : rec_t) (e : expr) (neg : bool) (ts2 : toks) : res (expr * toks) :=
    do (s, ts3) <- rec (MBin BBitOr) ts2;
    do (_, ts4) <- expect "AND" ts3;
    do (e2, ts5) <- rec (MBin BBitOr) ts4;
    Ok (EBetween neg e s e2, ts5).

  Lemma step_cmp_unfold rec ts :
    step rec MCmp ts =
    do (e, ts1) <- rec (MBin BBitOr) ts;
    let t := cur ts1 in
    match find_op t cmp_ops with
    | Some op => do (r, ts2) <- rec (MBin BBitOr) (next ts1); Ok (EBinary op e r, ts2)
    | None =>
        if kis t "IN" then incond_f rec e false (next ts1)
        else if kis t "BETWEEN" then between_f rec e false (next ts1)
        else if kis t "NOT" then
          let ts2 := next ts1 in
          if kis (cur ts2) "LIKE" then do (r, ts3) <- rec (MBin BBitOr) (next ts2); Ok (EBinary (bs "NOT LIKE") e r, ts3)
          else if kis (cur ts2) "IN" then incond_f rec e true (next ts2)
          else if kis (cur ts2) "BETWEEN" then between_f rec e true (next ts2)
          else Err (ppos (cur ts2))
        else if kis t "IS" then
          let ts2 := next ts1 in
          let neg := kis (cur ts2) "NOT" in
          let ts3 := if neg then next ts2 else ts2 in
          let pos := ppos (cur ts3) in
          if kis (cur ts3) "NULL" then Ok (EIsNull pos neg e, next ts3)
          else if kis (cur ts3) "TRUE" then Ok (EIsBool pos neg e true, next ts3)
          else if kis (cur ts3) "FALSE" then Ok (EIsBool pos neg e false, next ts3)
          else Err pos
        else Ok (e, ts1)
    end.
  Proof. reflexivity. Qed.

  Section Cmp.
    Variables rec rec' : rec_t.
    Hypothesis R : Rrec rec rec'.
    Let HP : forall a b, tssim a b -> rsim (rec (MBin BOr) a) (rec' (MBin BOr) b).
    Proof. intros; apply R; [reflexivity|assumption]. Qed.

    Lemma incond_sim e e' neg ts2 ts2' : erase e = erase e' -> tssim ts2 ts2' ->
      rsim (incond_f rec e neg ts2) (incond_f rec' e' neg ts2').
    Proof.
      intros HE HT. unfold incond_f. cbv zeta. pose proof (cur_sim _ _ HT) as HC. pose proof (next_sim _ _ HT) as HN.
      rewrite (maybe_subquery_sim _ _ HT), !(kis_sim _ _ HC).
      destruct (maybe_subquery ts2'); [exact I|].
      destruct (kis (cur ts2') "(").
      { call R. call_more HP. call_expect. split; [|assumption]. cbn [erase erase_c]. rewrite (erase_go l), (erase_go l0). congruence. }
      destruct (kis (cur ts2') "UNNEST"); [|exact I].
      call_expect. call R. call_expect. split; [|assumption]. cbn [erase erase_c]. congruence.
    Qed.

    Lemma between_sim e e' neg ts2 ts2' : erase e = erase e' -> tssim ts2 ts2' ->
      rsim (between_f rec e neg ts2) (between_f rec' e' neg ts2').
    Proof.
      intros HE HT. unfold between_f. call R. call_expect. call R. split; [|assumption]. cbn [erase]. congruence.
    Qed.
  End Cmp.

  Lemma step_sim rec rec' : Rrec rec rec' -> Rrec (step rec) (step rec').
  Proof.
    intros R m m' ts ts' HM HT.
    assert (HP : forall a b, tssim a b -> rsim (rec (MBin BOr) a) (rec' (MBin BOr) b)) by (intros; apply R; [reflexivity|assumption]).
    destruct m, m'; cbn [msim] in HM; try contradiction.
    - (* MBin *) cbn [step]. subst. call R. call R.
    - (* MLoop *) cbn [step]. destruct HM as [-> HA]. use_cur. destruct (find_op (cur ts') (level_ops l0)).
      + new_next. call R. call R. split; [reflexivity|]. cbn [erase]. congruence.
      + split; assumption.
    - (* MNot *) cbn [step]. use_cur. destruct (kis (cur ts') "NOT").
      + new_next. call R. split; [|assumption]. cbn [erase]. congruence.
      + call R.
    - (* MCmp *)
      rewrite !step_cmp_unfold. call R. cbv zeta.
      match goal with H : tssim ?a ?b |- context[find_op (cur ?a) cmp_ops] => rename H into H1; pose proof (cur_sim _ _ H1) as HC1; pose proof (next_sim _ _ H1) as HN1 end.
      rewrite (find_op_sim _ _ cmp_ops HC1), !(kis_sim _ _ HC1).
      destruct (find_op (cur t0) cmp_ops).
      { call R. split; [|assumption]. cbn [erase]. congruence. }
      destruct (kis (cur t0) "IN"); [apply incond_sim; assumption|].
      destruct (kis (cur t0) "BETWEEN"); [apply between_sim; assumption|].
      pose proof (next_sim _ _ HN1) as HN2.
      destruct (kis (cur t0) "NOT").
      { rewrite !(kis_sim _ _ (cur_sim _ _ HN1)).
        destruct (kis (cur (next t0)) "LIKE"). { call R. split; [|assumption]. cbn [erase]. congruence. }
        destruct (kis (cur (next t0)) "IN"); [apply incond_sim; assumption|].
        destruct (kis (cur (next t0)) "BETWEEN"); [apply between_sim; assumption|]. exact I. }
      destruct (kis (cur t0) "IS"); [|split; assumption].
      rewrite !(kis_sim _ _ (cur_sim _ _ HN1)).
      destruct (kis (cur (next t0)) "NOT").
      { rewrite !(kis_sim _ _ (cur_sim _ _ HN2)).
        repeat match goal with |- rsim (if ?c then _ else _) (if ?c then _ else _) => destruct c end; cbn [rsim]; try exact I;
          (split; [cbn [erase]; congruence|apply next_sim; assumption]). }
      rewrite !(kis_sim _ _ (cur_sim _ _ HN1)).
      repeat match goal with |- rsim (if ?c then _ else _) (if ?c then _ else _) => destruct c end; cbn [rsim]; try exact I;
        (split; [cbn [erase]; congruence|apply next_sim; assumption]).
    - (* MUnary *) cbn [step].
      cbv zeta. pose proof (cur_sim _ _ HT) as HC. rewrite !(kis_sim _ _ HC).
      assert (FOLD : forall o e e0 (t1 t2 : toks) p p', erase e = erase e0 -> tssim t1 t2 ->
                rsim (match (match e with
                             | EInt _ vend base v => if first_byte_is_sign v then None else Some (EInt p vend base (o ++ v)%list)
                             | EFloat _ vend v => if first_byte_is_sign v then None else Some (EFloat p vend (o ++ v)%list)
                             | _ => None end) with Some e' => Ok (e', t1) | None => Ok (EUnary p o e, t1) end)
                     (match (match e0 with
                             | EInt _ vend base v => if first_byte_is_sign v then None else Some (EInt p' vend base (o ++ v)%list)
                             | EFloat _ vend v => if first_byte_is_sign v then None else Some (EFloat p' vend (o ++ v)%list)
                             | _ => None end) with Some e' => Ok (e', t2) | None => Ok (EUnary p' o e0, t2) end)).
      { intros o e e0 t1 t2 p p' HE H12.
        destruct e, e0; cbn [erase] in HE; try discriminate HE; try (split; [cbn [erase]; congruence|assumption]).
        - injection HE as -> ->. destruct (first_byte_is_sign v0); (split; [reflexivity|assumption]).
        - injection HE as ->. destruct (first_byte_is_sign v0); (split; [reflexivity|assumption]). }
      destruct (kis (cur ts') "+").
      { new_next. call R. destruct (kis (cur ts') "~"); [split; [cbn [erase]; congruence|assumption]|apply FOLD; assumption]. }
      destruct (kis (cur ts') "-").
      { new_next. call R. destruct (kis (cur ts') "~"); [split; [cbn [erase]; congruence|assumption]|apply FOLD; assumption]. }
      destruct (kis (cur ts') "~").
      { new_next. call R. split; [cbn [erase]; congruence|assumption]. }
      call R.
    - (* MSel *) cbn [step]. call R. call R.
    - (* MSelLoop *) cbn [step].
      rename acc into a, acc0 into a'.
      pose proof (cur_sim _ _ HT) as HC. pose proof (next_sim _ _ HT) as HN. rewrite !(kis_sim _ _ HC).
      destruct (kis (cur ts') ".").
      { cbv zeta. rewrite (kis_sim _ _ (cur_sim _ _ HN)). destruct (kis (cur (next ts')) "*"); [split; assumption|].
        pose proof (parse_ident_sim _ _ HN) as PI.
        destruct (parse_ident (next ts)) as [[i r]| | |]; destruct (parse_ident (next ts')) as [[i' r']| | |]; try contradiction;
          cbn [bind rsim]; try exact I.
        destruct PI as [HI HR]. apply R; [|exact HR]. cbn [msim].
        destruct a, a'; cbn [erase] in HM; try discriminate HM; cbn [erase]; try congruence.
        - injection HM as HM. cbn [map]. unfold er_ident in *. congruence.
        - injection HM as HM. rewrite !map_app. cbn [map]. congruence. }
      destruct (kis (cur ts') "["); [|split; assumption].
      cbv zeta. rewrite !(is_ident_ci_sim _ _ _ (cur_sim _ _ HN)).
      assert (KW : forall k, rsim
         (do (ix, ts2) <- (do (_, ts2) <- expect "(" (next (next ts)); do (e1, ts3) <- rec (MBin BOr) ts2; do (rp, ts4) <- expect ")" ts3;
                           Ok (SKeyword (ppos (cur (next ts))) (ppos rp) k e1, ts4));
          do (rb, ts3) <- expect "]" ts2; rec (MSelLoop (EIndex (ppos rb) a ix)) ts3)
         (do (ix, ts2) <- (do (_, ts2) <- expect "(" (next (next ts')); do (e1, ts3) <- rec' (MBin BOr) ts2; do (rp, ts4) <- expect ")" ts3;
                           Ok (SKeyword (ppos (cur (next ts'))) (ppos rp) k e1, ts4));
          do (rb, ts3) <- expect "]" ts2; rec' (MSelLoop (EIndex (ppos rb) a' ix)) ts3)).
      { intros k. rewrite !bind_assoc. pose proof (next_sim _ _ HN) as HNN. call_expect. rewrite !bind_assoc. call R.
        rewrite !bind_assoc. call_expect. cbn [bind]. call_expect. apply R; [|assumption]. cbn [msim erase erase_s]. congruence. }
      repeat match goal with |- rsim (bind (match (if ?c then _ else _) with _ => _ end) _) _ => destruct c end; try apply KW.
      rewrite !bind_assoc. call R. cbn [bind]. call_expect. apply R; [|assumption]. cbn [msim erase erase_s]. congruence.
    - (* MLit *) cbn [step].
      pose proof (cur_sim _ _ HT) as HC. pose proof (next_sim _ _ HT) as HN.
      rewrite !(kis_sim _ _ HC), !(is_kwlike_sim _ _ _ HC), (maybe_subquery_sim _ _ HT), (tssim_length _ _ HT), (lookahead_call_sim _ _ _ HT).
      rewrite !(kis_sim _ _ (cur_sim _ _ HN)).
      repeat match goal with
             | |- rsim (if ?c then _ else _) (if ?c then _ else _) => destruct c eqn:?
             end; cbn [rsim]; try exact I; try (split; [cbn [erase]|assumption]).
      all: try reflexivity.
      + (* int *) rewrite (tsim_base _ _ HC), (tsim_raw _ _ HC) by (rewrite Heqb2; reflexivity). reflexivity.
      + (* float *) rewrite (tsim_raw _ _ HC) by (rewrite Heqb3; apply orb_true_r). reflexivity.
      + (* string *) rewrite (tsim_str _ _ HC) by (eapply kis_excl; [eassumption|reflexivity]). reflexivity.
      + (* bytes *) rewrite (tsim_str _ _ HC) by (eapply kis_excl; [eassumption|reflexivity]). reflexivity.
      + (* param *) rewrite (tsim_str _ _ HC) by (eapply kis_excl; [eassumption|reflexivity]). reflexivity.
      + (* parenthesised *)
        call R. use_cur. destruct (kis (cur t0) ")").
        { split; [cbn [erase]; congruence|apply next_sim; assumption]. }
        destruct (kis (cur t0) ","); cbn [negb rsim]; [|exact I].
        new_next. call R. call_more HP. call_expect.
        split; [|assumption]. cbn [erase]. rewrite (erase_go l), (erase_go l0). unfold erase_l in *. cbn [map]. congruence.
      + (* identifier *) unfold er_ident, mk_ident. cbn [id_name]. rewrite (tsim_name _ _ HC) by assumption. reflexivity.
  Qed.
End Sim.

Section Main.
  Variable norm : bytes -> bytes.
  Hypothesis norm_fold : forall a b, norm a = norm b -> to_upper a = to_upper b.

  Theorem P_sim : forall f, Rrec norm (P f) (P f).
  Proof.
    induction f as [|f IH]; intros m m' ts ts' HM HT.
    - cbn [P]. exact I.
    - cbn [P]. apply (step_sim norm norm_fold); assumption.
  Qed.

  Theorem parse_expr_sim ts ts' : tssim norm ts ts' -> rsim norm (parse_expr ts) (parse_expr ts').
  Proof.
    intros H. unfold parse_expr. rewrite (tssim_length norm _ _ H). apply P_sim; [reflexivity|exact H].
  Qed.
End Main.

(* instance 1: exact identifier spelling.  Tokens may differ in positions and in the spelling of keywords / punctuation raw text *)
Definition same_tokens : toks -> toks -> Prop := tssim (fun b => b).
Definition same_result : res (expr * toks) -> res (expr * toks) -> Prop := rsim (fun b => b).
Definition strip : expr -> expr := erase (fun b => b).

Theorem respell_exact ts ts' : same_tokens ts ts' -> same_result (parse_expr ts) (parse_expr ts').
Proof. apply parse_expr_sim. intros a b H. rewrite H. reflexivity. Qed.

(* instance 2: identifiers compared up to letter case: changing the case of an identifier used as a pseudo keyword (OFFSET,
   ORDINAL, SAFE_OFFSET, SAFE_ORDINAL here) cannot change acceptance or the tree shape; names are compared upper-cased *)
Definition same_tokens_ci : toks -> toks -> Prop := tssim to_upper.
Definition same_result_ci : res (expr * toks) -> res (expr * toks) -> Prop := rsim to_upper.

Theorem respell_case_insensitive ts ts' : same_tokens_ci ts ts' -> same_result_ci (parse_expr ts) (parse_expr ts').
Proof. apply parse_expr_sim. intros a b H. exact H. Qed.

(* decidable version of same_tokens for the correspondence *)
Definition tsimb (t t' : ptok) : bool :=
  bytes_eqb (pk t) (pk t') && Z.eqb (pbase t) (pbase t') &&
  (if kis t K_ident then bytes_eqb (pstr t) (pstr t') && bytes_eqb (to_upper (praw t)) (to_upper (praw t')) else bytes_eqb (pstr t) (pstr t')) &&
  (if lit_kind t then bytes_eqb (praw t) (praw t') else true).

Fixpoint same_tokensb (a b : toks) : bool :=
  match a, b with
  | [], [] => true
  | x :: a', y :: b' => tsimb x y && same_tokensb a' b'
  | _, _ => false
  end.

Lemma tsimb_ok t t' : tsimb t t' = true -> tsim (fun b => b) t t'.
Proof.
  unfold tsimb, tsim. intros H. repeat (apply andb_true_iff in H as [H ?]).
  apply bytes_eqb_eq in H. apply Z.eqb_eq in H2. repeat split; auto.
  - destruct (kis t K_ident).
    + apply andb_true_iff in H1 as [A B]. apply bytes_eqb_eq in A, B. auto.
    + apply bytes_eqb_eq in H1. exact H1.
  - intros L. rewrite L in H0. apply bytes_eqb_eq in H0. exact H0.
Qed.

Lemma same_tokensb_ok : forall a b, same_tokensb a b = true -> same_tokens a b.
Proof.
  induction a as [|x a IH]; intros [|y b] H; try discriminate; [constructor|].
  cbn [same_tokensb] in H. apply andb_true_iff in H as [H1 H2]. constructor; [apply tsimb_ok, H1|apply IH, H2].
Qed.

(* decidable version of same_tokens_ci *)
Definition tsim_cib (t t' : ptok) : bool :=
  bytes_eqb (pk t) (pk t') && Z.eqb (pbase t) (pbase t') &&
  (if kis t K_ident then bytes_eqb (to_upper (pstr t)) (to_upper (pstr t')) && bytes_eqb (to_upper (praw t)) (to_upper (praw t'))
   else bytes_eqb (pstr t) (pstr t')) &&
  (if lit_kind t then bytes_eqb (praw t) (praw t') else true).

Fixpoint same_tokens_cib (a b : toks) : bool :=
  match a, b with
  | [], [] => true
  | x :: a', y :: b' => tsim_cib x y && same_tokens_cib a' b'
  | _, _ => false
  end.

Lemma tsim_cib_ok t t' : tsim_cib t t' = true -> tsim to_upper t t'.
Proof.
  unfold tsim_cib, tsim. intros H. repeat (apply andb_true_iff in H as [H ?]).
  apply bytes_eqb_eq in H. apply Z.eqb_eq in H2. repeat split; auto.
  - destruct (kis t K_ident).
    + apply andb_true_iff in H1 as [A B]. apply bytes_eqb_eq in A, B. auto.
    + apply bytes_eqb_eq in H1. exact H1.
  - intros L. rewrite L in H0. apply bytes_eqb_eq in H0. exact H0.
Qed.

Lemma same_tokens_cib_ok : forall a b, same_tokens_cib a b = true -> same_tokens_ci a b.
Proof.
  induction a as [|x a IH]; intros [|y b] H; try discriminate; [constructor|].
  cbn [same_tokens_cib] in H. apply andb_true_iff in H as [H1 H2]. constructor; [apply tsim_cib_ok, H1|apply IH, H2].
Qed.
