(* Parse/TypeRecover.v -- ParseType as a TOTAL function of the token list: the type grammar of Parse/TypeModel.v together with the
   error recovery of parser.go.  Every activation of parseType has its own recover point (handleParseTypeError): a panic raised in it
   -- not in a nested activation that returned -- restores the lexer to the activation's first token, records the error, skips tokens
   up to a stop token (";", ")", end of input; "," ">" ">>" outside angle brackets; a ">>" closing one nested bracket is split) and
   yields a BadType holding the skipped tokens.  The entry point appends one more error when input is left over.
   Tie: correspondence with ParseType on the real lexer's tokens in every run -- the whole tree with its Bad nodes and their tokens,
   and the position of EVERY recorded error, on accepted and rejected inputs alike. *)
From Verif Require Import Base.Bytes Tree.Tree Parse.ExprModel Parse.TypeModel.
Local Open Scope Z_scope.

Inductive rty :=
| RSimple (pos : Z) (name : bytes)
| RNamed (ids : list ident)
| RArray (apos gt : Z) (item : rty)
| RStruct (spos gt : Z) (fields : list (option ident * rty))
| RBad (pos end_ : Z) (skipped : list ptok).

Fixpoint embed (t : ty) : rty :=
  match t with
  | TSimple p n => RSimple p n
  | TNamed ids => RNamed ids
  | TArray a g it => RArray a g (embed it)
  | TStruct s g fs =>
      RStruct s g ((fix go (l : list (option ident * ty)) : list (option ident * rty) :=
                      match l with [] => [] | (oi, x) :: r => (oi, embed x) :: go r end) fs)
  end.

(* results carry the errors recorded so far (positions, oldest first), also when the activation fails *)
Inductive rres (A : Type) := ROk (a : A) (errs : list Z) | RErr (p : Z) (errs : list Z) | RFuel.
Arguments ROk {A}. Arguments RErr {A}. Arguments RFuel {A}.

Definition rbind {A B} (r : rres A) (f : A -> list Z -> rres B) : rres B :=
  match r with ROk a e => f a e | RErr p e => RErr p e | RFuel => RFuel end.

(* a step that records no error itself *)
Definition lift {A} (r : res A) (errs : list Z) : rres A :=
  match r with Ok a => ROk a errs | Err p => RErr p errs | Unsup => RErr 0 errs | Fuel => RFuel end.

(* the split inside the recovery loop keeps the token's text (p.Token.Kind = ">"; p.Token.Pos += 1) *)
Definition half_keep (t : ptok) : ptok := {| pk := bs ">"; praw := praw t; pstr := pstr t; ppos := ppos t + 1; pend := pend t; pbase := pbase t |}.

(* the skip loop of handleParseTypeError *)
Fixpoint tskip (nest : nat) (ts : toks) (acc : list ptok) (endp : Z) : list ptok * Z * toks :=
  match ts with
  | [] => (acc, endp, [])
  | t :: r =>
      if kis t K_eof || kis t ";" || kis t ")" then (acc, endp, ts)
      else if kis t "<" then tskip (S nest) r (acc ++ [t])%list (pend t)
      else if kis t ">" then match nest with O => (acc, endp, ts) | S n => tskip n r (acc ++ [t])%list (pend t) end
      else if kis t ">>" then
        match nest with
        | O => (acc, endp, ts)
        | S O => (acc, endp, half_keep t :: r)
        | S (S n) => tskip n r (acc ++ [t])%list (pend t)
        end
      else if kis t "," then match nest with O => (acc, endp, ts) | S _ => tskip nest r (acc ++ [t])%list (pend t) end
      else tskip nest r (acc ++ [t])%list (pend t)
  end.

(* handleParseTypeError, from the first token of the failed activation *)
Definition recover (ts : toks) (p : Z) (errs : list Z) : rres (rty * toks) :=
  let '(skipped, endp, rest) := tskip 0 ts [] (ppos (cur ts)) in
  ROk (RBad (ppos (cur ts)) endp skipped, rest) (errs ++ [p])%list.

Definition pfieldR (pt : toks -> list Z -> rres (rty * toks)) (ts : toks) (errs : list Z) : rres ((option ident * rty) * toks) :=
  if kis (cur ts) K_ident && type_start (cur (next ts)) then
    rbind (pt (next ts) errs) (fun '(t, ts1) e => ROk ((Some (mk_ident (cur ts)), t), ts1) e)
  else rbind (pt ts errs) (fun '(t, ts1) e => ROk ((None, t), ts1) e).

Fixpoint fields_moreR (pt : toks -> list Z -> rres (rty * toks)) (n : nat) (acc : list (option ident * rty)) (ts : toks) (errs : list Z)
  : rres (list (option ident * rty) * toks) :=
  match n with
  | O => RFuel
  | S n' => if kis (cur ts) "," then rbind (pfieldR pt (next ts) errs) (fun '(fl, ts1) e => fields_moreR pt n' (acc ++ [fl])%list ts1 e)
            else ROk (acc, ts) errs
  end.

Definition tstepR (pt : toks -> list Z -> rres (rty * toks)) (n : nat) (ts : toks) (errs : list Z) : rres (rty * toks) :=
  let t := cur ts in
  if kis t K_ident then
    match simple_name t with
    | Some nm => ROk (RSimple (ppos t) nm, next ts) errs
    | None => rbind (lift (path_more n [mk_ident t] (next ts)) errs) (fun '(ids, ts1) e => ROk (RNamed ids, ts1) e)
    end
  else if kis t "ARRAY" then
    rbind (lift (expect "<" (next ts)) errs) (fun '(_, ts1) e1 =>
    rbind (pt ts1 e1) (fun '(it, ts2) e2 =>
    rbind (lift (close_angle ts2) e2) (fun '(gt, ts3) e3 =>
    ROk (RArray (ppos t) gt it, ts3) e3)))
  else if kis t "STRUCT" then
    let ts1 := next ts in
    if kis (cur ts1) "<>" then ROk (RStruct (ppos t) (ppos (cur ts1) + 1) [], next ts1) errs
    else if negb (kis (cur ts1) "<") then RErr (ppos (cur ts1)) errs
    else
      let ts2 := next ts1 in
      rbind (if kis (cur ts2) ">" || kis (cur ts2) ">>" then ROk ([], ts2) errs
             else rbind (pfieldR pt ts2 errs) (fun '(f1, ts3) e => fields_moreR pt n [f1] ts3 e)) (fun '(fs, ts3) e =>
      rbind (lift (close_angle ts3) e) (fun '(gt, ts4) e4 =>
      ROk (RStruct (ppos t) gt fs, ts4) e4))
  else RErr (ppos t) errs.

(* parseType with its recover point: never fails *)
Fixpoint PTR (fuel : nat) (ts : toks) (errs : list Z) {struct fuel} : rres (rty * toks) :=
  match fuel with
  | O => RFuel
  | S f =>
      match tstepR (PTR f) f ts errs with
      | ROk r e => ROk r e
      | RErr p e => recover ts p e
      | RFuel => RFuel
      end
  end.

(* the entry point ParseType: the tree (always) and the recorded errors; None = out of fuel *)
Definition parse_typeR (ts : toks) : option (rty * list Z) :=
  match PTR (type_fuel ts) ts [] with
  | ROk (t, ts1) e => Some (t, if kis (cur ts1) K_eof then e else (e ++ [ppos (cur ts1)])%list)
  | _ => None
  end.

(* ---------- the AST as a universal tree ---------- *)
Definition tok_tree (t : ptok) : tree := TTok (pk t) (praw t) (pstr t) (ppos t) (pend t) false.

Fixpoint rty_tree (t : rty) : tree :=
  match t with
  | RSimple p n => TNode "SimpleType" [TPos p; TStr n]
  | RNamed ids => TNode "NamedType" [TList (map t_ident ids)]
  | RArray a g it => TNode "ArrayType" [TPos a; TPos g; rty_tree it]
  | RStruct s g fs =>
      TNode "StructType" [TPos s; TPos g;
        TList ((fix go (l : list (option ident * rty)) : list tree :=
                  match l with
                  | [] => []
                  | (oi, x) :: r => TNode "StructField" [match oi with Some i => t_ident i | None => TNil end; rty_tree x] :: go r
                  end) fs)]
  | RBad p e sk => TNode "BadType" [TNode "BadNode" [TPos p; TPos e; TList (map tok_tree sk)]]
  end.

(* number of Bad nodes *)
Fixpoint bads (t : rty) : nat :=
  match t with
  | RSimple _ _ | RNamed _ => 0
  | RArray _ _ it => bads it
  | RStruct _ _ fs => (fix go (l : list (option ident * rty)) : nat := match l with [] => 0 | (_, x) :: r => bads x + go r end) fs
  | RBad _ _ _ => 1
  end%nat.
