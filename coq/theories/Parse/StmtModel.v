(* Parse/StmtModel.v -- a family of STATEMENTS modelled whole, with error recovery: twenty-four DDL statements -- the seventeen that consist of
   fixed words, an optional IF EXISTS and a name --
     DROP SCHEMA | LOCALITY GROUP | PROTO BUNDLE | TABLE | INDEX | SEARCH INDEX | VECTOR INDEX | SEQUENCE | VIEW | ROLE | CHANGE STREAM |
          MODEL | PROPERTY GRAPH,   ANALYZE,   CREATE SCHEMA,   CREATE DATABASE,   CREATE ROLE
   -- and three with comma-separated lists (parseCommaSeparatedList), nested nodes and, for the privileges, look-ahead with backtracking --
     RENAME TABLE a TO b {, c TO d},   GRANT privilege TO ROLE r {, r},   REVOKE privilege FROM ROLE r {, r}
   -- and four more with lists of dotted names, optional clauses and alternatives --
     CREATE PROTO BUNDLE (a.b, c),   ALTER PROTO BUNDLE [INSERT (..)] [UPDATE (..)] [DELETE (..)],
     ALTER INDEX a.b ADD | DROP STORED COLUMN c,   ALTER SEARCH INDEX i ADD | DROP STORED COLUMN c
   -- as parsed by parseDDL (parser.go) and reached from parseStatement, together with handleParseStatementError (the recover point of
   parseDDL: restore the lexer, record the error, skip to the next ";" or the end of input, return a BadDDL holding the skipped tokens).
   Statements outside the family answer None (not modelled).  With the list loop of Parse/ListLoop.v this gives a model of
   ParseDDL / ParseStatement / ParseDDLs / ParseStatements on lists of such statements.
   Tie: hand transcription + correspondence with the four entry points in every run (bin/check C11). *)
From Coq Require Import String.
From Verif Require Import Base.Bytes Tree.Tree Parse.ExprModel Parse.TypeModel.
Local Open Scope Z_scope.

(* a field of a node: a position, a flag, an identifier, a dotted name, a list of identifiers, a child node, a list of child nodes *)
Inductive dfield := FPos (z : Z) | FBool (b : bool) | FIdent (i : ident) | FPath (ids : list ident) | FIdents (ids : list ident)
                  | FSub (ty : string) (fs : list dfield) | FSubs (l : list dfield) | FNil.
Inductive dnode :=
| DNode (ty : string) (fs : list dfield)
| DBad (stmt_level : bool) (pos end_ : Z) (skipped : list ptok).   (* BadDDL { BadNode } / BadStatement { Hint: nil, BadNode } *)

(* p.expectKeywordLike(s): an identifier token spelled s (any case, not quoted) *)
Definition expect_kw (s : string) (ts : toks) : res (ptok * toks) :=
  do (t, ts1) <- expect K_ident ts; if is_kwlike t s then Ok (t, ts1) else Err (ppos t).

(* parseIfExists *)
Definition if_exists (ts : toks) : res (bool * toks) :=
  if kis (cur ts) "IF" then do (_, ts1) <- expect "EXISTS" (next ts); Ok (true, ts1) else Ok (false, ts).

(* parsePath = parseIdentOrPath *)
Definition parse_path (ts : toks) : res (list ident * toks) :=
  do (i, ts1) <- parse_ident ts; path_more (length ts) [i] ts1.

(* one word of a statement's fixed part: a pseudo keyword (identifier spelled so) or a token kind *)
Inductive word := KwLike (s : string) | Kind (k : string).
Inductive namekind := NoName | NIdent | NPath.

Definition word_matches (w : word) (t : ptok) : bool := match w with KwLike s => is_kwlike t s | Kind k => kis t k end.
Definition expect_word (w : word) (ts : toks) : res (ptok * toks) := match w with KwLike s => expect_kw s ts | Kind k => expect k ts end.

(* the words after DROP / CREATE, whether IF EXISTS may follow, the kind of name, the node type, and whether the position of the last word
   is a field (DropProtoBundle.Bundle) *)
Record row := { r_words : list word; r_ifexists : bool; r_name : namekind; r_node : string; r_lastpos : bool }.

Definition drop_rows : list row := [
  {| r_words := [KwLike "SCHEMA"]; r_ifexists := false; r_name := NIdent; r_node := "DropSchema"; r_lastpos := false |};
  {| r_words := [KwLike "LOCALITY"; Kind "GROUP"]; r_ifexists := false; r_name := NIdent; r_node := "DropLocalityGroup"; r_lastpos := false |};
  {| r_words := [Kind "PROTO"; KwLike "BUNDLE"]; r_ifexists := false; r_name := NoName; r_node := "DropProtoBundle"; r_lastpos := true |};
  {| r_words := [KwLike "TABLE"]; r_ifexists := true; r_name := NPath; r_node := "DropTable"; r_lastpos := false |};
  {| r_words := [KwLike "INDEX"]; r_ifexists := true; r_name := NPath; r_node := "DropIndex"; r_lastpos := false |};
  {| r_words := [KwLike "SEARCH"; KwLike "INDEX"]; r_ifexists := true; r_name := NIdent; r_node := "DropSearchIndex"; r_lastpos := false |};
  {| r_words := [KwLike "VECTOR"; KwLike "INDEX"]; r_ifexists := true; r_name := NIdent; r_node := "DropVectorIndex"; r_lastpos := false |};
  {| r_words := [KwLike "SEQUENCE"]; r_ifexists := true; r_name := NPath; r_node := "DropSequence"; r_lastpos := false |};
  {| r_words := [KwLike "VIEW"]; r_ifexists := false; r_name := NPath; r_node := "DropView"; r_lastpos := false |};
  {| r_words := [KwLike "ROLE"]; r_ifexists := false; r_name := NIdent; r_node := "DropRole"; r_lastpos := false |};
  {| r_words := [KwLike "CHANGE"; KwLike "STREAM"]; r_ifexists := false; r_name := NIdent; r_node := "DropChangeStream"; r_lastpos := false |};
  {| r_words := [KwLike "MODEL"]; r_ifexists := true; r_name := NIdent; r_node := "DropModel"; r_lastpos := false |};
  {| r_words := [KwLike "PROPERTY"; KwLike "GRAPH"]; r_ifexists := true; r_name := NIdent; r_node := "DropPropertyGraph"; r_lastpos := false |}
]%string.

Definition create_rows : list row := [
  {| r_words := [KwLike "SCHEMA"]; r_ifexists := false; r_name := NIdent; r_node := "CreateSchema"; r_lastpos := false |};
  {| r_words := [KwLike "DATABASE"]; r_ifexists := false; r_name := NIdent; r_node := "CreateDatabase"; r_lastpos := false |};
  {| r_words := [KwLike "ROLE"]; r_ifexists := false; r_name := NIdent; r_node := "CreateRole"; r_lastpos := false |}
]%string.

(* expect the words in turn; the position of the last one *)
Fixpoint expect_words (ws : list word) (ts : toks) (lastp : Z) : res (Z * toks) :=
  match ws with
  | [] => Ok (lastp, ts)
  | w :: r => do (t, ts1) <- expect_word w ts; expect_words r ts1 (ppos t)
  end.

(* parseDropXxx(pos) / parseCreateXxx(pos) *)
Definition parse_row (pos : Z) (r : row) (ts : toks) : res (dnode * toks) :=
  do (lp, ts1) <- expect_words (r_words r) ts 0;
  do (ie, ts2) <- (if r_ifexists r then if_exists ts1 else Ok (false, ts1));
  let pre := FPos pos :: (if r_lastpos r then [FPos lp] else []) ++ (if r_ifexists r then [FBool ie] else []) in
  match r_name r with
  | NoName => Ok (DNode (r_node r) pre, ts2)
  | NIdent => do (i, ts3) <- parse_ident ts2; Ok (DNode (r_node r) (pre ++ [FIdent i]), ts3)
  | NPath => do (ids, ts3) <- parse_path ts2; Ok (DNode (r_node r) (pre ++ [FPath ids]), ts3)
  end.

(* the switch over the word after DROP / CREATE: the first row whose first word matches *)
Fixpoint find_row (rows : list row) (t : ptok) : option row :=
  match rows with
  | [] => None
  | r :: rest => match r_words r with w :: _ => if word_matches w t then Some r else find_row rest t | [] => find_row rest t end
  end.

(* the other words the switch after CREATE / the first token of parseDDL know: statements outside the family *)
Definition other_create (t : ptok) : bool :=
  is_kwlike t "LOCALITY" || is_kwlike t "PLACEMENT" || is_kwlike t "TABLE" || is_kwlike t "SEQUENCE" || is_kwlike t "VIEW"
  || is_kwlike t "INDEX" || is_kwlike t "UNIQUE" || is_kwlike t "NULL_FILTERED" || is_kwlike t "SEARCH" || is_kwlike t "VECTOR"
  || is_kwlike t "CHANGE" || is_kwlike t "MODEL" || kis t "OR" || is_kwlike t "PROPERTY".

(* ---------- comma-separated lists (parseCommaSeparatedList): the loop runs on fuel; the input length is always enough ---------- *)
Fixpoint list_more {A} (item : toks -> res (A * toks)) (n : nat) (acc : list A) (ts : toks) : res (list A * toks) :=
  match n with
  | O => Fuel
  | S n' => if kis (cur ts) "," then do (x, ts1) <- item (next ts); list_more item n' (acc ++ [x])%list ts1 else Ok (acc, ts)
  end.
Definition comma_list {A} (item : toks -> res (A * toks)) (ts : toks) : res (list A * toks) :=
  do (x, ts1) <- item ts; list_more item (S (length ts)) [x] ts1.

(* parseRenameTableTo, parseRenameTable *)
Definition rename_to (ts : toks) : res (dfield * toks) :=
  do (o, ts1) <- parse_ident ts; do (_, ts2) <- expect "TO" ts1; do (n, ts3) <- parse_ident ts2;
  Ok (FSub "RenameTableTo" [FIdent o; FIdent n], ts3).
Definition parse_rename (pos : Z) (ts : toks) : res (dnode * toks) :=
  do (_, ts1) <- expect_kw "TABLE" ts; do (l, ts2) <- comma_list rename_to ts1; Ok (DNode "RenameTable" [FPos pos; FSubs l], ts2).

(* tryParseTablePrivilegeColumns: the columns (nil without parentheses) and the position of ")" (InvalidPos = -1 without) *)
Definition priv_columns (ts : toks) : res ((dfield * Z) * toks) :=
  if kis (cur ts) "(" then
    do (cols, ts1) <- comma_list parse_ident (next ts); do (rp, ts2) <- expect ")" ts1; Ok ((FIdents cols, ppos rp), ts2)
  else Ok ((FIdents [], -1), ts).

(* parseTablePrivilege *)
Definition table_privilege (ts : toks) : res (dfield * toks) :=
  let t := cur ts in
  let with_cols (ty : string) := do (cr, ts1) <- priv_columns (next ts); let '(cols, rp) := cr in Ok (FSub ty [FPos (ppos t); FPos rp; cols], ts1) in
  if kis t "SELECT" then with_cols "SelectPrivilege"%string
  else if is_kwlike t "INSERT" then with_cols "InsertPrivilege"%string
  else if is_kwlike t "UPDATE" then with_cols "UpdatePrivilege"%string
  else if is_kwlike t "DELETE" then Ok (FSub "DeletePrivilege" [FPos (ppos t)], next ts)
  else Err (ppos t).

(* parsePrivilege: the two SELECT ... ON forms are tried first by look-ahead (the lexer is restored when they do not apply) *)
Definition privilege (ts : toks) : res (dfield * toks) :=
  let t := cur ts in
  let t1 := cur (next ts) in
  let t2 := cur (next (next ts)) in
  let after3 := next (next (next ts)) in
  if kis t "SELECT" && kis t1 "ON" && is_kwlike t2 "VIEW" then
    do (names, r) <- comma_list parse_ident after3; Ok (FSub "SelectPrivilegeOnView" [FPos (ppos t); FIdents names], r)
  else if is_kwlike t "EXECUTE" then
    do (_, r1) <- expect "ON" (next ts); do (_, r2) <- expect_kw "TABLE" r1; do (_, r3) <- expect_kw "FUNCTION" r2;
    do (names, r) <- comma_list parse_ident r3; Ok (FSub "ExecutePrivilegeOnTableFunction" [FPos (ppos t); FIdents names], r)
  else if is_kwlike t "ROLE" then
    do (names, r) <- comma_list parse_ident (next ts); Ok (FSub "RolePrivilege" [FPos (ppos t); FIdents names], r)
  else if kis t "SELECT" && kis t1 "ON" && is_kwlike t2 "CHANGE" then
    do (_, r1) <- expect_kw "STREAM" after3;
    do (names, r) <- comma_list parse_ident r1; Ok (FSub "SelectPrivilegeOnChangeStream" [FPos (ppos t); FIdents names], r)
  else
    do (privs, r1) <- comma_list table_privilege ts; do (_, r2) <- expect "ON" r1; do (_, r3) <- expect_kw "TABLE" r2;
    do (names, r) <- comma_list parse_ident r3; Ok (FSub "PrivilegeOnTable" [FSubs privs; FIdents names], r).

(* parseGrant / parseRevoke *)
Definition parse_grant (revoke : bool) (pos : Z) (ts : toks) : res (dnode * toks) :=
  do (pv, ts1) <- privilege ts;
  do (_, ts2) <- expect (if revoke then "FROM" else "TO") ts1;
  do (_, ts3) <- expect_kw "ROLE" ts2;
  do (roles, ts4) <- comma_list parse_ident ts3;
  Ok (DNode (if revoke then "Revoke" else "Grant") [FPos pos; pv; FIdents roles], ts4).

(* parseNamedType, parseProtoBundleTypes *)
Definition named_type (ts : toks) : res (dfield * toks) := do (ids, r) <- parse_path ts; Ok (FSub "NamedType" [FIdents ids], r).
Definition bundle_types (ts : toks) : res (dfield * toks) :=
  do (lp, r1) <- expect "(" ts; do (tys, r2) <- comma_list named_type r1; do (rp, r3) <- expect ")" r2;
  Ok (FSub "ProtoBundleTypes" [FPos (ppos lp); FPos (ppos rp); FSubs tys], r3).

(* tryParseAlterProtoBundleInsert / Update / Delete: nil when the word is not there *)
Definition bundle_clause (kw ty : string) (ts : toks) : res (dfield * toks) :=
  if is_kwlike (cur ts) kw then do (tys, r) <- bundle_types (next ts); Ok (FSub ty [FPos (ppos (cur ts)); tys], r) else Ok (FNil, ts).

Definition parse_create_bundle (pos : Z) (ts : toks) : res (dnode * toks) :=
  do (_, r1) <- expect "PROTO" ts; do (_, r2) <- expect_kw "BUNDLE" r1; do (tys, r3) <- bundle_types r2;
  Ok (DNode "CreateProtoBundle" [FPos pos; tys], r3).

Definition parse_alter_bundle (pos : Z) (ts : toks) : res (dnode * toks) :=
  do (_, r1) <- expect "PROTO" ts; do (b, r2) <- expect_kw "BUNDLE" r1;
  do (i, r3) <- bundle_clause "INSERT" "AlterProtoBundleInsert" r2;
  do (u, r4) <- bundle_clause "UPDATE" "AlterProtoBundleUpdate" r3;
  do (d, r5) <- bundle_clause "DELETE" "AlterProtoBundleDelete" r4;
  Ok (DNode "AlterProtoBundle" [FPos pos; FPos (ppos b); i; u; d], r5).

(* parseIndexAlteration = parseAddStoredColumn | parseDropStoredColumn *)
Definition index_alteration (ts : toks) : res (dfield * toks) :=
  let t := cur ts in
  if is_kwlike t "ADD" || is_kwlike t "DROP" then
    do (_, r1) <- expect_kw "STORED" (next ts); do (_, r2) <- expect_kw "COLUMN" r1; do (i, r3) <- parse_ident r2;
    Ok (FSub (if is_kwlike t "ADD" then "AddStoredColumn" else "DropStoredColumn") [FPos (ppos t); FIdent i], r3)
  else Err (ppos t).

Definition parse_alter_index (pos : Z) (ts : toks) : res (dnode * toks) :=
  do (_, r1) <- expect_kw "INDEX" ts; do (ids, r2) <- parse_path r1; do (a, r3) <- index_alteration r2;
  Ok (DNode "AlterIndex" [FPos pos; FPath ids; a], r3).

Definition parse_alter_search_index (pos : Z) (ts : toks) : res (dnode * toks) :=
  do (_, r1) <- expect_kw "SEARCH" ts; do (_, r2) <- expect_kw "INDEX" r1; do (i, r3) <- parse_ident r2; do (a, r4) <- index_alteration r3;
  Ok (DNode "AlterSearchIndex" [FPos pos; FIdent i; a], r4).

(* the other words the switch after ALTER knows: statements outside the family *)
Definition other_alter (t : ptok) : bool :=
  is_kwlike t "TABLE" || is_kwlike t "DATABASE" || is_kwlike t "LOCALITY" || is_kwlike t "SEQUENCE" || is_kwlike t "CHANGE"
  || is_kwlike t "STATISTICS" || is_kwlike t "MODEL".

(* parseDDL, success path; None = a statement outside the family *)
Definition ddl_body (ts : toks) : option (res (dnode * toks)) :=
  let t := cur ts in
  if kis t "CREATE" then
    let ts1 := next ts in
    match find_row create_rows (cur ts1) with
    | Some r => Some (parse_row (ppos t) r ts1)
    | None => if kis (cur ts1) "PROTO" then Some (parse_create_bundle (ppos t) ts1)
              else if other_create (cur ts1) then None             (* the other CREATE statements: not modelled *)
              else Some (Err (ppos (cur ts1)))                   (* expected pseudo keyword: DATABASE, TABLE, ... *)
    end
  else if is_kwlike t "DROP" then
    let ts1 := next ts in
    match find_row drop_rows (cur ts1) with
    | Some r => Some (parse_row (ppos t) r ts1)
    | None => Some (Err (ppos (cur ts1)))           (* expected pseudo keyword: TABLE, INDEX, ... *)
    end
  else if is_kwlike t "ANALYZE" then Some (do (a, ts1) <- expect_kw "ANALYZE" ts; Ok (DNode "Analyze" [FPos (ppos a)], ts1))
  else if is_kwlike t "RENAME" then Some (parse_rename (ppos t) (next ts))
  else if is_kwlike t "GRANT" then Some (parse_grant false (ppos t) (next ts))
  else if is_kwlike t "REVOKE" then Some (parse_grant true (ppos t) (next ts))
  else if is_kwlike t "ALTER" then
    let ts1 := next ts in
    let u := cur ts1 in
    if kis u "PROTO" then Some (parse_alter_bundle (ppos t) ts1)
    else if is_kwlike u "INDEX" then Some (parse_alter_index (ppos t) ts1)
    else if is_kwlike u "SEARCH" then Some (parse_alter_search_index (ppos t) ts1)
    else if other_alter u then None                                (* the other ALTER statements: not modelled *)
    else Some (Err (ppos u))                                       (* expected pseudo keyword: TABLE, CHANGE *)
  else Some (Err (ppos t)).                          (* expected token: CREATE, <ident> / expected pseudo keyword: ALTER, DROP *)

(* handleParseStatementError: from the first token of the failed statement, everything up to the next ";" or the end of input *)
Fixpoint sskip (ts : toks) (acc : list ptok) (endp : Z) : list ptok * Z * toks :=
  match ts with
  | [] => (acc, endp, [])
  | t :: r => if kis t K_eof || kis t ";" then (acc, endp, ts) else sskip r (acc ++ [t])%list (pend t)
  end.

(* parseDDL with its recover point: the node, the tokens left, the number of errors recorded *)
Definition sp_ddl (ts : toks) : option (dnode * toks * nat) :=
  match ddl_body ts with
  | None => None
  | Some (Ok (d, r)) => Some (d, r, 0%nat)
  | Some _ => let '(sk, endp, rest) := sskip ts [] (ppos (cur ts)) in Some (DBad false (ppos (cur ts)) endp sk, rest, 1%nat)
  end.

(* parseStatement on the family: no statement hint, then the dispatch of parseStatementInternal reaches parseDDL *)
Definition sp_stmt (ts : toks) : option (dnode * toks * nat) :=
  let t := cur ts in
  if kis t "@" then None                                                                  (* a statement hint *)
  else if kis t "SELECT" || kis t "WITH" || kis t "(" || kis t "FROM" then None             (* queries *)
  else if is_kwlike t "INSERT" || is_kwlike t "DELETE" || is_kwlike t "UPDATE" then None    (* DML *)
  else if kis t "CREATE" || is_kwlike t "ALTER" || is_kwlike t "DROP" || is_kwlike t "RENAME" || is_kwlike t "GRANT" || is_kwlike t "REVOKE"
          || is_kwlike t "ANALYZE" then sp_ddl ts
  else if is_kwlike t "CALL" then None
  else (* unexpected token: the recover point of parseStatementInternal *)
    let '(sk, endp, rest) := sskip ts [] (ppos t) in Some (DBad true (ppos t) endp sk, rest, 1%nat).

(* ---------- the AST as a universal tree ---------- *)
Fixpoint field_tree (f : dfield) : tree :=
  match f with
  | FPos z => TPos z
  | FBool b => TBool b
  | FIdent i => t_ident i
  | FPath ids => TNode "Path" [TList (map t_ident ids)]
  | FIdents ids => TList (map t_ident ids)
  | FSub ty fs => TNode ty (map field_tree fs)
  | FSubs l => TList (map field_tree l)
  | FNil => TNil
  end.
Definition dnode_tree (d : dnode) : tree :=
  match d with
  | DNode ty fs => TNode ty (map field_tree fs)
  | DBad lvl p e sk =>
      let bn := TNode "BadNode" [TPos p; TPos e; TList (map (fun t => TTok (pk t) (praw t) (pstr t) (ppos t) (pend t) false) sk)] in
      if lvl then TNode "BadStatement" [TNil; bn] else TNode "BadDDL" [bn]
  end.
