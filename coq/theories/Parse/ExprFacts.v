(* Parse/ExprFacts.v -- fuel monotonicity of the fragment parser and the big-step view [Parses]. *)
From Verif Require Import Base.Bytes Tree.Tree Parse.ExprModel.
Local Open Scope Z_scope.

Definition rec_t := mode -> toks -> res (expr * toks).

(* [r'] extends [r]: wherever r has decided (anything but out-of-fuel), r' gives the same answer *)
Definition ext (r r' : rec_t) : Prop := forall m ts, r m ts <> Fuel -> r' m ts = r m ts.

Lemma bind_not_fuel {A B} (x : res A) (f : A -> res B) : bind x f <> Fuel -> x <> Fuel.
Proof. destruct x; cbn; congruence. Qed.

Lemma more_ext (p p' : toks -> res (expr * toks)) :
  (forall ts, p ts <> Fuel -> p' ts = p ts) ->
  forall n acc ts, more p n acc ts <> Fuel -> more p' n acc ts = more p n acc ts.
Proof.
  intros H n; induction n as [|n IH]; intros acc ts NF; cbn [more] in *; [congruence|].
  destruct (kis (cur ts) ","); [|reflexivity].
  pose proof (bind_not_fuel _ _ NF) as N1. rewrite (H _ N1).
  destruct (p (next ts)) as [[e ts1]| | |]; cbn [bind] in *; try reflexivity. apply IH. exact NF.
Qed.

Ltac use_ext H :=
  repeat match goal with
         | NF : bind (?r ?m ?t) _ <> Fuel |- _ =>
             let N := fresh "N" in pose proof (bind_not_fuel _ _ NF) as N;
             rewrite (H m t N); destruct (r m t) as [[? ?]| | |]; cbn [bind] in NF |- *; try reflexivity; try congruence
         | NF : ?r ?m ?t <> Fuel |- _ => rewrite (H m t NF); clear NF
         end; try reflexivity.

Lemma step_ext r r' : ext r r' -> ext (step r) (step r').
Proof.
  intros H m ts NF. unfold ext in H.
  assert (HP : forall t, r (MBin BOr) t <> Fuel -> r' (MBin BOr) t = r (MBin BOr) t) by (intros; apply H; assumption).
  pose proof (more_ext _ _ HP) as HM.
  destruct m; cbn [step] in *.
  - (* MBin *) use_ext H.
  - (* MLoop *) destruct (find_op _ _); [use_ext H|reflexivity].
  - (* MNot *) destruct (kis (cur ts) "NOT"); use_ext H.
  - (* MCmp *)
    pose proof (bind_not_fuel _ _ NF) as N0. rewrite (H _ _ N0).
    destruct (r (MBin BBitOr) ts) as [[e ts1]| | |]; cbn [bind] in NF |- *; try reflexivity.
    set (t := cur ts1) in *.
    (* the two local helpers, shown extensional once *)
    assert (IC : forall neg ts2,
      (if maybe_subquery ts2 then Unsup
       else if kis (cur ts2) "(" then
         do (e1, ts3) <- r (MBin BOr) (next ts2); do (es, ts4) <- more (r (MBin BOr)) (length ts3) [e1] ts3;
         do (rp, ts5) <- expect ")" ts4; Ok (EIn neg e (CValues (ppos (cur ts2)) (ppos rp) es), ts5)
       else if kis (cur ts2) "UNNEST" then
         do (_, ts3) <- expect "(" (next ts2); do (e1, ts4) <- r (MBin BOr) ts3; do (rp, ts5) <- expect ")" ts4;
         Ok (EIn neg e (CUnnest (ppos (cur ts2)) (ppos rp) e1), ts5)
       else Err (ppos (cur ts2))) <> Fuel ->
      (if maybe_subquery ts2 then Unsup
       else if kis (cur ts2) "(" then
         do (e1, ts3) <- r' (MBin BOr) (next ts2); do (es, ts4) <- more (r' (MBin BOr)) (length ts3) [e1] ts3;
         do (rp, ts5) <- expect ")" ts4; Ok (EIn neg e (CValues (ppos (cur ts2)) (ppos rp) es), ts5)
       else if kis (cur ts2) "UNNEST" then
         do (_, ts3) <- expect "(" (next ts2); do (e1, ts4) <- r' (MBin BOr) ts3; do (rp, ts5) <- expect ")" ts4;
         Ok (EIn neg e (CUnnest (ppos (cur ts2)) (ppos rp) e1), ts5)
       else Err (ppos (cur ts2))) =
      (if maybe_subquery ts2 then Unsup
       else if kis (cur ts2) "(" then
         do (e1, ts3) <- r (MBin BOr) (next ts2); do (es, ts4) <- more (r (MBin BOr)) (length ts3) [e1] ts3;
         do (rp, ts5) <- expect ")" ts4; Ok (EIn neg e (CValues (ppos (cur ts2)) (ppos rp) es), ts5)
       else if kis (cur ts2) "UNNEST" then
         do (_, ts3) <- expect "(" (next ts2); do (e1, ts4) <- r (MBin BOr) ts3; do (rp, ts5) <- expect ")" ts4;
         Ok (EIn neg e (CUnnest (ppos (cur ts2)) (ppos rp) e1), ts5)
       else Err (ppos (cur ts2)))).
    { intros neg ts2 F. destruct (maybe_subquery ts2); [reflexivity|].
      destruct (kis (cur ts2) "(").
      - pose proof (bind_not_fuel _ _ F) as N1. rewrite (H _ _ N1).
        destruct (r (MBin BOr) (next ts2)) as [[e1 ts3]| | |]; cbn [bind] in F |- *; try reflexivity.
        pose proof (bind_not_fuel _ _ F) as N2. rewrite (HM _ _ _ N2). reflexivity.
      - destruct (kis (cur ts2) "UNNEST"); [|reflexivity].
        destruct (expect "(" (next ts2)) as [[x ts3]| | |]; cbn [bind] in F |- *; try reflexivity.
        pose proof (bind_not_fuel _ _ F) as N1. rewrite (H _ _ N1). reflexivity. }
    assert (BT : forall neg ts2,
      (do (s, ts3) <- r (MBin BBitOr) ts2; do (_, ts4) <- expect "AND" ts3; do (e2, ts5) <- r (MBin BBitOr) ts4;
       Ok (EBetween neg e s e2, ts5)) <> Fuel ->
      (do (s, ts3) <- r' (MBin BBitOr) ts2; do (_, ts4) <- expect "AND" ts3; do (e2, ts5) <- r' (MBin BBitOr) ts4;
       Ok (EBetween neg e s e2, ts5)) =
      (do (s, ts3) <- r (MBin BBitOr) ts2; do (_, ts4) <- expect "AND" ts3; do (e2, ts5) <- r (MBin BBitOr) ts4;
       Ok (EBetween neg e s e2, ts5))).
    { intros neg ts2 F. pose proof (bind_not_fuel _ _ F) as N1. rewrite (H _ _ N1).
      destruct (r (MBin BBitOr) ts2) as [[s ts3]| | |]; cbn [bind] in F |- *; try reflexivity.
      destruct (expect "AND" ts3) as [[x ts4]| | |]; cbn [bind] in F |- *; try reflexivity.
      pose proof (bind_not_fuel _ _ F) as N2. rewrite (H _ _ N2). reflexivity. }
    destruct (find_op t cmp_ops).
    { pose proof (bind_not_fuel _ _ NF) as N1. rewrite (H _ _ N1). reflexivity. }
    destruct (kis t "IN"); [apply IC; exact NF|].
    destruct (kis t "BETWEEN"); [apply BT; exact NF|].
    destruct (kis t "NOT").
    { destruct (kis (cur (next ts1)) "LIKE").
      { pose proof (bind_not_fuel _ _ NF) as N1. rewrite (H _ _ N1). reflexivity. }
      destruct (kis (cur (next ts1)) "IN"); [apply IC; exact NF|].
      destruct (kis (cur (next ts1)) "BETWEEN"); [apply BT; exact NF|]. reflexivity. }
    reflexivity.
  - (* MUnary *)
    destruct (if kis (cur ts) "+" then _ else _); [|use_ext H].
    pose proof (bind_not_fuel _ _ NF) as N1. rewrite (H _ _ N1). reflexivity.
  - (* MSel *) use_ext H.
  - (* MSelLoop *)
    destruct (kis (cur ts) ".").
    { destruct (kis (cur (next ts)) "*"); [reflexivity|].
      destruct (parse_ident (next ts)) as [[i ts2]| | |]; cbn [bind] in NF |- *; try reflexivity.
      rewrite (H _ _ NF). reflexivity. }
    destruct (kis (cur ts) "["); [|reflexivity].
    match goal with |- context [match ?k with Some _ => _ | None => _ end] => destruct k end.
    + destruct (expect "(" _) as [[x ts2]| | |]; cbn [bind] in NF |- *; try reflexivity.
      pose proof (bind_not_fuel _ _ NF) as N1. pose proof (bind_not_fuel _ _ N1) as N2. rewrite (H _ _ N2).
      destruct (r (MBin BOr) ts2) as [[e1 ts3]| | |]; cbn [bind] in NF |- *; try reflexivity.
      destruct (expect ")" ts3) as [[rp ts4]| | |]; cbn [bind] in NF |- *; try reflexivity.
      destruct (expect "]" ts4) as [[rb ts5]| | |]; cbn [bind] in NF |- *; try reflexivity.
      rewrite (H _ _ NF). reflexivity.
    + pose proof (bind_not_fuel _ _ NF) as N1. pose proof (bind_not_fuel _ _ N1) as N2. rewrite (H _ _ N2).
      destruct (r (MBin BOr) (next ts)) as [[e1 ts2]| | |]; cbn [bind] in NF |- *; try reflexivity.
      destruct (expect "]" ts2) as [[rb ts3]| | |]; cbn [bind] in NF |- *; try reflexivity.
      rewrite (H _ _ NF). reflexivity.
  - (* MLit *)
    repeat match goal with |- context [if ?c then _ else _] => destruct c; try reflexivity end.
    all: try (pose proof (bind_not_fuel _ _ NF) as N1; rewrite (HP _ N1);
              destruct (r (MBin BOr) (next ts)) as [[e ts1]| | |]; cbn [bind] in NF |- *; try reflexivity;
              repeat match goal with |- context [if ?c then _ else _] => destruct c; try reflexivity end;
              pose proof (bind_not_fuel _ _ NF) as N2; rewrite (HP _ N2);
              destruct (r (MBin BOr) (next ts1)) as [[e2 ts2]| | |]; cbn [bind] in NF |- *; try reflexivity;
              pose proof (bind_not_fuel _ _ NF) as N3; rewrite (HM _ _ _ N3); reflexivity).
Qed.

Lemma P_ext f : ext (P f) (P (S f)).
Proof.
  induction f as [|f IH]; intros m ts NF; [cbn in NF; congruence|].
  change (P (S (S f)) m ts) with (step (P (S f)) m ts). change (P (S f) m ts) with (step (P f) m ts) in *.
  apply (step_ext _ _ IH). exact NF.
Qed.

Lemma P_mono f f' m ts : (f <= f')%nat -> P f m ts <> Fuel -> P f' m ts = P f m ts.
Proof.
  induction 1 as [|f' L IH]; intros NF; [reflexivity|].
  rewrite <- (IH NF). apply P_ext. rewrite (IH NF). exact NF.
Qed.

(* big-step view: some amount of fuel gives this result *)
Definition Parses (m : mode) (ts : toks) (r : expr * toks) : Prop := exists f, P f m ts = Ok r.

Lemma Parses_det m ts r r' : Parses m ts r -> Parses m ts r' -> r = r'.
Proof.
  intros [f H] [f' H'].
  assert (A : P (Nat.max f f') m ts = Ok r) by (rewrite (P_mono f _ m ts (Nat.le_max_l _ _)); [exact H|congruence]).
  assert (B : P (Nat.max f f') m ts = Ok r') by (rewrite (P_mono f' _ m ts (Nat.le_max_r _ _)); [exact H'|congruence]).
  congruence.
Qed.

(* if some fuel gives a result, the fuel parse_expr uses gives the same result or runs out *)
Lemma parse_expr_of_Parses ts r : Parses (MBin BOr) ts r -> parse_expr ts = Ok r \/ parse_expr ts = Fuel.
Proof.
  intros [f H]. unfold parse_expr. set (g := (16 * length ts + 16)%nat).
  destruct (P g (MBin BOr) ts) eqn:E; auto; left.
  - destruct (Nat.le_ge_cases f g) as [L|L].
    + rewrite (P_mono f g _ _ L) in E; congruence.
    + rewrite (P_mono g f _ _ L) in H; congruence.
  - destruct (Nat.le_ge_cases f g) as [L|L]; [rewrite (P_mono f g _ _ L) in E; congruence|rewrite (P_mono g f _ _ L) in H; congruence].
  - destruct (Nat.le_ge_cases f g) as [L|L]; [rewrite (P_mono f g _ _ L) in E; congruence|rewrite (P_mono g f _ _ L) in H; congruence].
Qed.
