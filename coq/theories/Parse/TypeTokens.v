(* Parse/TypeTokens.v -- C02 on the type grammar: the spelling of the tree the parser returns is the token list it consumed, up to the two
   canonicalisations of the printer: builtin type names are printed in upper case, an empty struct is printed STRUCT<> (one "<>" token
   instead of "<" ">").  Together with the hypothesis of type_roundtrip (lexing the printed text gives the spelling of the tree) this is
   the token-level round trip: lex(SQL(parse x)) = lex x modulo these canonicalisations and the fusion of ">>". *)
From Verif Require Import Base.Bytes Tree.Tree Parse.ExprModel Parse.ExprFacts Parse.Spell Parse.Respell Parse.TypeModel Parse.TypeProofs
                          Parse.TypeRespell Parse.TypeRoundTrip.
From Coq Require Import Lia.
Local Open Scope Z_scope.

Notation tsimU := (TypeRespell.tsim to_upper).
Notation tssimU := (TypeRespell.tssim to_upper).

(* "<>" read as "<" ">" *)
Definition lt_of (t : ptok) : ptok := {| pk := bs "<"; praw := bs "<"; pstr := pstr t; ppos := ppos t; pend := ppos t + 1; pbase := pbase t |}.
Definition gt_of (t : ptok) : ptok := {| pk := bs ">"; praw := bs ">"; pstr := pstr t; ppos := ppos t + 1; pend := pend t; pbase := pbase t |}.
Fixpoint split_ltgt (ts : toks) : toks :=
  match ts with
  | [] => []
  | t :: r => if kis t "<>" then lt_of t :: gt_of t :: split_ltgt r else t :: split_ltgt r
  end.

Lemma split_app a b : split_ltgt (a ++ b) = (split_ltgt a ++ split_ltgt b)%list.
Proof. induction a as [|t a IH]; [reflexivity|]. cbn [app split_ltgt]. rewrite IH. destruct (kis t "<>"); reflexivity. Qed.

Lemma tssimU_app a a' b b' : tssimU a a' -> tssimU b b' -> tssimU (a ++ b) (a' ++ b').
Proof. intros H1 H2. apply Forall2_app; auto. Qed.

Lemma tsimU_kind_nonident t k : kis t k = true -> bytes_eqb (bs k) (bs K_ident) = false -> tsimU (tk k) t.
Proof.
  intros H D. split; [unfold kis in H; apply bytes_eqb_eq in H; rewrite H; reflexivity|].
  intros K. unfold kis in K. cbn [pk tk] in K. rewrite D in K. discriminate.
Qed.

Lemma tsimU_ident t : kis t K_ident = true -> tsimU (t_ident (pstr t)) t.
Proof. intros H. split; [unfold kis in H; apply bytes_eqb_eq in H; rewrite H; reflexivity|]. intros _. reflexivity. Qed.

Lemma find_simple_fold t : forall l nm, find_simple t l = Some nm -> to_upper (pstr t) = to_upper nm.
Proof.
  induction l as [|n r IH]; intros nm H; [discriminate|]. cbn [find_simple] in H. destruct (is_ident_ci t n) eqn:E; [|apply IH, H].
  inversion H; subst. unfold is_ident_ci in E. apply andb_true_iff in E as [_ E]. unfold equal_fold_s, equal_fold in E.
  apply bytes_eqb_eq in E. exact E.
Qed.

Lemma tsimU_simple t nm : kis t K_ident = true -> simple_name t = Some nm -> tsimU (t_ident nm) t.
Proof.
  intros K S. split; [unfold kis in K; apply bytes_eqb_eq in K; rewrite K; reflexivity|]. intros _. cbn [pstr t_ident].
  symmetry. eapply find_simple_fold; eauto.
Qed.

Definition C_path (ids : list ident) (ts K : toks) : Prop := exists pre, ts = (pre ++ K)%list /\ tssimU (path_tail ids) pre /\ split_ltgt pre = pre.

Lemma path_tokens : forall ids ts K, TrPath ids ts K -> C_path ids ts K.
Proof.
  induction 1 as [K|d i ts K ids Hd Hi H (pre & -> & S & SP)].
  - exists []. split; [reflexivity|]. split; [constructor|reflexivity].
  - exists (d :: i :: pre). split; [reflexivity|]. split.
    + cbn [path_tail mk_ident id_name]. constructor; [apply tsimU_kind_nonident; [exact Hd|reflexivity]|]. constructor; [apply tsimU_ident, Hi|exact S].
    + cbn [split_ltgt]. rewrite (kd _ _ "<>" Hd eq_refl), (kd _ _ "<>" Hi eq_refl), SP. reflexivity.
Qed.

Definition C_ty (t : ty) (ts K : toks) : Prop := exists pre, ts = (pre ++ K)%list /\ tssimU (split_ltgt (zspell t)) (split_ltgt pre).
Definition C_field (f : option ident * ty) (ts K : toks) : Prop := exists pre, ts = (pre ++ K)%list /\ tssimU (split_ltgt (zfield f)) (split_ltgt pre).
Definition C_more (fs : list (option ident * ty)) (ts K : toks) : Prop := exists pre, ts = (pre ++ K)%list /\ tssimU (split_ltgt (zmore fs)) (split_ltgt pre).

Lemma split_single t : kis t "<>" = false -> split_ltgt [t] = [t].
Proof. intros H. cbn [split_ltgt]. rewrite H. reflexivity. Qed.

(* the spelling of the parsed tree is the consumed token list *)
Theorem parsed_tokens :
  (forall t ts K, Tr t ts K -> C_ty t ts K) /\ (forall f ts K, TrField f ts K -> C_field f ts K) /\ (forall fs ts K, TrMore fs ts K -> C_more fs ts K).
Proof.
  apply Tr_mutind.
  - intros t K nm A B. exists [t]. split; [reflexivity|]. cbn [zspell]. rewrite (split_single t (kd _ _ "<>" A eq_refl)).
    cbn [split_ltgt]. change (kis (t_ident nm) "<>") with false. cbv iota. constructor; [apply tsimU_simple; auto|constructor].
  - intros t ts K ids A B HP ND. destruct (path_tokens _ _ _ HP) as (pre & -> & S & SP). exists (t :: pre). split; [reflexivity|].
    cbn [zspell mk_ident id_name]. cbn [split_ltgt]. change (kis (t_ident (pstr t)) "<>") with false. rewrite (kd _ _ "<>" A eq_refl). cbv iota.
    constructor; [apply tsimU_ident, A|]. rewrite SP.
    assert (E : split_ltgt (path_tail ids) = path_tail ids).
    { clear. induction ids as [|j r IH]; [reflexivity|]. cbn [path_tail split_ltgt]. change (kis (tk ".") "<>") with false.
      change (kis (t_ident (id_name j)) "<>") with false. cbv iota. rewrite IH. reflexivity. }
    rewrite E. exact S.
  - intros a lt ts g K it A B HS (pre & -> & S) G. exists (a :: lt :: pre ++ [g])%list. split; [cbn [app]; rewrite <- app_assoc; reflexivity|].
    cbn [zspell]. cbn [split_ltgt]. change (kis (tk "ARRAY") "<>") with false. change (kis (tk "<") "<>") with false. cbv iota.
    rewrite (kd _ _ "<>" A eq_refl), (kd _ _ "<>" B eq_refl). rewrite !split_app. cbn [split_ltgt]. change (kis (tk ">") "<>") with false.
    rewrite (kd _ _ "<>" G eq_refl). cbv iota.
    constructor; [apply tsimU_kind_nonident; [exact A|reflexivity]|]. constructor; [apply tsimU_kind_nonident; [exact B|reflexivity]|].
    apply tssimU_app; [exact S|]. constructor; [apply tsimU_kind_nonident; [exact G|reflexivity]|constructor].
  - intros s e K A B. exists [s; e]. split; [reflexivity|]. cbn [zspell split_ltgt]. change (kis (tk "STRUCT") "<>") with false.
    change (kis (tk "<>") "<>") with true. rewrite (kd _ _ "<>" A eq_refl), B. cbv iota.
    constructor; [apply tsimU_kind_nonident; [exact A|reflexivity]|]. constructor; [split; [reflexivity|intros X; discriminate X]|].
    constructor; [split; [reflexivity|intros X; discriminate X]|constructor].
  - intros s lt g K A B G. exists [s; lt; g]. split; [reflexivity|]. cbn [zspell split_ltgt]. change (kis (tk "STRUCT") "<>") with false.
    change (kis (tk "<>") "<>") with true. rewrite (kd _ _ "<>" A eq_refl), (kd _ _ "<>" B eq_refl), (kd _ _ "<>" G eq_refl). cbv iota.
    constructor; [apply tsimU_kind_nonident; [exact A|reflexivity]|].
    constructor; [split; [unfold kis in B; apply bytes_eqb_eq in B; rewrite B; reflexivity|intros X; discriminate X]|].
    constructor; [split; [unfold kis in G; apply bytes_eqb_eq in G; rewrite G; reflexivity|intros X; discriminate X]|constructor].
  - intros s lt ts ts1 g K f fs A B HF (p1 & -> & S1) HM (p2 & -> & S2) G.
    exists (s :: lt :: p1 ++ p2 ++ [g])%list. split; [cbn [app]; rewrite <- !app_assoc; reflexivity|].
    rewrite zspell_struct. cbn [split_ltgt]. change (kis (tk "STRUCT") "<>") with false. change (kis (tk "<") "<>") with false. cbv iota.
    rewrite (kd _ _ "<>" A eq_refl), (kd _ _ "<>" B eq_refl). rewrite !split_app. cbn [split_ltgt]. change (kis (tk ">") "<>") with false.
    rewrite (kd _ _ "<>" G eq_refl). cbv iota.
    constructor; [apply tsimU_kind_nonident; [exact A|reflexivity]|]. constructor; [apply tsimU_kind_nonident; [exact B|reflexivity]|].
    apply tssimU_app; [exact S1|]. apply tssimU_app; [exact S2|]. constructor; [apply tsimU_kind_nonident; [exact G|reflexivity]|constructor].
  - intros n ts K t A TS HS (pre & -> & S). exists (n :: pre). split; [reflexivity|]. unfold zfield. cbn [fst snd zfield_name mk_ident id_name app split_ltgt].
    change (kis (t_ident (pstr n)) "<>") with false. rewrite (kd _ _ "<>" A eq_refl). cbv iota. constructor; [apply tsimU_ident, A|exact S].
  - intros ts K t HS (pre & -> & S) C. exists pre. split; [reflexivity|]. unfold zfield. cbn [fst snd zfield_name app]. exact S.
  - intros K. exists []. split; [reflexivity|constructor].
  - intros c ts ts1 K f fs C HF (p1 & -> & S1) HM (p2 & -> & S2). exists (c :: p1 ++ p2)%list. split; [cbn [app]; rewrite <- app_assoc; reflexivity|].
    cbn [zmore split_ltgt]. change (kis (tk ",") "<>") with false. rewrite (kd _ _ "<>" C eq_refl). cbv iota. rewrite !split_app.
    constructor; [apply tsimU_kind_nonident; [exact C|reflexivity]|]. apply tssimU_app; auto.
Qed.

(* the entry point: what ParseType's model accepts spells back to the input tokens *)
Theorem parse_type_tokens : forall ts t r, last_eof ts -> parse_type ts = Ok (t, r) ->
  exists pre, unfuse ts = (pre ++ unfuse r)%list /\ tssimU (split_ltgt (zspell t)) (split_ltgt pre).
Proof.
  intros ts t r L H. destruct (parse_type_sound ts t r L H) as [T _]. exact (proj1 parsed_tokens _ _ _ T).
Qed.
