(* Parse/Spell.v -- the reference side of C07: the GoogleSQL operator table, canonical expression trees (those whose
   grouping needs no parenthesis beyond their own ParenExpr nodes) and their token-level spelling.  Written from the
   precedence table of the GoogleSQL documentation, not from parser.go. *)
From Verif Require Import Base.Bytes Tree.Tree Parse.ExprModel.
Local Open Scope Z_scope.

(* a token of fixed spelling (keyword / punctuation); positions are irrelevant for grouping and set to 0 *)
Definition tk (k : String.string) : ptok := {| pk := bs k; praw := bs k; pstr := []; ppos := 0; pend := 0; pbase := 0 |}.
Definition t_ident (n : bytes) : ptok := {| pk := bs K_ident; praw := n; pstr := n; ppos := 0; pend := 0; pbase := 0 |}.
Definition t_int (base : Z) (v : bytes) : ptok := {| pk := bs K_int; praw := v; pstr := []; ppos := 0; pend := 0; pbase := base |}.
Definition t_float (v : bytes) : ptok := {| pk := bs K_float; praw := v; pstr := []; ppos := 0; pend := 0; pbase := 0 |}.
Definition t_string (v : bytes) : ptok := {| pk := bs K_string; praw := []; pstr := v; ppos := 0; pend := 0; pbase := 0 |}.
Definition t_bytes (v : bytes) : ptok := {| pk := bs K_bytes; praw := []; pstr := v; ppos := 0; pend := 0; pbase := 0 |}.
Definition t_param (v : bytes) : ptok := {| pk := bs K_param; praw := []; pstr := v; ppos := 0; pend := 0; pbase := 0 |}.

(* ---------- the operator table: level of every binary operator (smaller binds tighter) ---------- *)
(* 3: * / ||   4: + -   5: << >>   6: &   7: ^   8: |   9: comparison family (non-associative)   10: NOT   11: AND   12: OR
   2: unary + - ~    1: field access / subscript    0: primary *)
Definition bin_table : list (String.string * nat) :=
  [("*", 3); ("/", 3); ("||", 3); ("+", 4); ("-", 4); ("<<", 5); (">>", 5); ("&", 6); ("^", 7); ("|", 8);
   ("=", 9); ("!=", 9); ("<", 9); ("<=", 9); (">", 9); (">=", 9); ("LIKE", 9); ("NOT LIKE", 9); ("AND", 11); ("OR", 12)]%string%nat.

Fixpoint table_level (op : bytes) (t : list (String.string * nat)) : option nat :=
  match t with [] => None | (k, n) :: r => if bytes_eqb op (bs k) then Some n else table_level op r end.
Definition op_level (op : bytes) : option nat := table_level op bin_table.

(* tokens of a binary operator *)
Definition op_toks (op : bytes) : toks :=
  if bytes_eqb op (bs "NOT LIKE") then [tk "NOT"; tk "LIKE"]
  else [{| pk := op; praw := op; pstr := []; ppos := 0; pend := 0; pbase := 0 |}].

Definition zident (n : bytes) : ident := {| id_pos := 0; id_end := 0; id_name := n |}.

Definition unsigned (v : bytes) : bool := match v with [] => false | _ => negb (first_byte_is_sign v) end.
Definition sign_tok (c : byte) : ptok := if beq c x2b then tk "+" else tk "-".

(* ---------- spelling: no parenthesis is ever added; ParenExpr nodes spell their own ---------- *)
Fixpoint spell (e : expr) : toks :=
  match e with
  | EBinary op l r => spell l ++ op_toks op ++ spell r
  | EUnary _ op x => {| pk := op; praw := op; pstr := []; ppos := 0; pend := 0; pbase := 0 |} :: spell x
  | EParen _ _ x => tk "(" :: spell x ++ [tk ")"]
  | EIdent i => [t_ident (id_name i)]
  | ENull _ => [tk "NULL"]
  | EBool _ v => [tk (if v then "TRUE" else "FALSE")]
  | EInt _ _ base v => match v with
                       | c :: v' => if first_byte_is_sign v then [sign_tok c; t_int base v'] else [t_int base v]
                       | [] => [t_int base v]
                       end
  | EFloat _ _ v => match v with
                    | c :: v' => if first_byte_is_sign v then [sign_tok c; t_float v'] else [t_float v]
                    | [] => [t_float v]
                    end
  | EString _ _ v => [t_string v]
  | EBytes _ _ v => [t_bytes v]
  | EParam _ n => [t_param n]
  | _ => []            (* outside the part of the fragment covered by the round-trip theorem *)
  end.

(* identifiers that parseLit treats specially when followed by "(" or a string are excluded by the follow condition;
   these two are special on their own *)
Definition plain_name (n : bytes) : bool :=
  negb (equal_fold_s n "SAFE_CAST") && negb (equal_fold_s n "REPLACE_FIELDS").

(* primaries with all positions 0 *)
Inductive atom : expr -> Prop :=
| AIdent n : plain_name n = true -> atom (EIdent (zident n))
| ANull : atom (ENull 0)
| ABool v : atom (EBool 0 v)
| AInt base v : unsigned v = true -> atom (EInt 0 0 base v)
| AFloat v : unsigned v = true -> atom (EFloat 0 0 v)
| AString v : atom (EString 0 0 v)
| ABytes v : atom (EBytes 0 0 v)
| AParam n : atom (EParam 0 n).

(* parseUnary folds + / - into a numeric literal that does not already start with a sign *)
Definition is_unsigned_number (e : expr) : bool :=
  match e with EInt _ _ _ v | EFloat _ _ v => negb (first_byte_is_sign v) | _ => false end.

(* [can n e]: e is a tree the table allows at level n without any parenthesis (cumulative in n) *)
Inductive can : nat -> expr -> Prop :=
| CUp n m e : can n e -> (n <= m)%nat -> can m e
| CAtom e : atom e -> can 0 e
| CParen e : can 12 e -> can 0 (EParen 0 0 e)
(* a sign folded into a numeric literal: spelled with the sign token, parsed at the unary level *)
| CSignedInt c base v : (c = x2b \/ c = x2d) -> unsigned v = true -> can 2 (EInt 0 0 base (c :: v))
| CSignedFloat c v : (c = x2b \/ c = x2d) -> unsigned v = true -> can 2 (EFloat 0 0 (c :: v))
| CUnary op e : (op = bs "+" \/ op = bs "-" \/ op = bs "~") -> can 2 e ->
                (op = bs "~" \/ is_unsigned_number e = false) ->      (* + / - over an unsigned number is folded, never a UnaryExpr *)
                can 2 (EUnary 0 op e)
| CNot e : can 10 e -> can 10 (EUnary 0 (bs "NOT") e)
(* left-associative levels: left operand at the same level, right operand one level tighter *)
| CBin op n l r : op_level op = Some n -> (n <= 8 \/ n = 11 \/ n = 12)%nat ->
                  can n l -> can (Nat.pred n) r -> can n (EBinary op l r)
(* the comparison family is non-associative: both operands one level tighter *)
| CCmp op l r : op_level op = Some 9%nat -> can 8 l -> can 8 r -> can 9 (EBinary op l r).
