(* Parse/Spell.v -- the reference side of C07: the GoogleSQL operator table, canonical expression trees (those whose
   grouping needs no parenthesis beyond their own ParenExpr nodes) and their token-level spelling.  Written from the
   precedence table of the GoogleSQL documentation, not from parser.go. *)
From Verif Require Import Base.Bytes Tree.Tree Parse.ExprModel.
Local Open Scope Z_scope.

(* a token of fixed spelling (keyword / punctuation); positions are irrelevant for grouping and set to 0 *)
Definition tk (k : String.string) : ptok := {| pk := bs k; praw := bs k; pstr := []; ppos := 0; pend := 0; pbase := 0 |}.
Definition t_ident (n : bytes) : ptok := {| pk := bs K_ident; praw := n; pstr := n; ppos := 0; pend := 0; pbase := 0 |}.
Definition t_int (base : Z) (v : bytes) : ptok := {| pk := bs K_int; praw := v; pstr := []; ppos := 0; pend := 0; pbase := base |}.
Definition t_float (v : bytes) : ptok := {| pk := bs K_float; praw := v; pstr := []; ppos := 0; pend := 0; pbase := 0 |}.
Definition t_string (v : bytes) : ptok := {| pk := bs K_string; praw := []; pstr := v; ppos := 0; pend := 0; pbase := 0 |}.
Definition t_bytes (v : bytes) : ptok := {| pk := bs K_bytes; praw := []; pstr := v; ppos := 0; pend := 0; pbase := 0 |}.
Definition t_param (v : bytes) : ptok := {| pk := bs K_param; praw := []; pstr := v; ppos := 0; pend := 0; pbase := 0 |}.

(* ---------- the operator table: level of every binary operator (smaller binds tighter) ---------- *)
(* 3: * / ||   4: + -   5: << >>   6: &   7: ^   8: |   9: comparison family (non-associative)   10: NOT   11: AND   12: OR
   2: unary + - ~    1: field access / subscript    0: primary *)
Definition bin_table : list (String.string * nat) :=
  [("*", 3); ("/", 3); ("||", 3); ("+", 4); ("-", 4); ("<<", 5); (">>", 5); ("&", 6); ("^", 7); ("|", 8);
   ("=", 9); ("!=", 9); ("<", 9); ("<=", 9); (">", 9); (">=", 9); ("LIKE", 9); ("NOT LIKE", 9); ("AND", 11); ("OR", 12)]%string%nat.

Fixpoint table_level (op : bytes) (t : list (String.string * nat)) : option nat :=
  match t with [] => None | (k, n) :: r => if bytes_eqb op (bs k) then Some n else table_level op r end.
Definition op_level (op : bytes) : option nat := table_level op bin_table.

(* tokens of a binary operator *)
Definition op_toks (op : bytes) : toks :=
  if bytes_eqb op (bs "NOT LIKE") then [tk "NOT"; tk "LIKE"]
  else [{| pk := op; praw := op; pstr := []; ppos := 0; pend := 0; pbase := 0 |}].

Definition zident (n : bytes) : ident := {| id_pos := 0; id_end := 0; id_name := n |}.

Definition unsigned (v : bytes) : bool := match v with [] => false | _ => negb (first_byte_is_sign v) end.
Definition sign_tok (c : byte) : ptok := if beq c x2b then tk "+" else tk "-".

(* the further components of a path: . b . c *)
Fixpoint path_tail (r : list ident) : toks :=
  match r with [] => [] | j :: r' => tk "." :: t_ident (id_name j) :: path_tail r' end.

(* ---------- spelling: no parenthesis is ever added; ParenExpr nodes spell their own ---------- *)
Fixpoint spell (e : expr) : toks :=
  match e with
  | EBinary op l r => spell l ++ op_toks op ++ spell r
  | EUnary _ op x => {| pk := op; praw := op; pstr := []; ppos := 0; pend := 0; pbase := 0 |} :: spell x
  | EParen _ _ x => tk "(" :: spell x ++ [tk ")"]
  | EIdent i => [t_ident (id_name i)]
  | ENull _ => [tk "NULL"]
  | EBool _ v => [tk (if v then "TRUE" else "FALSE")]
  | EInt _ _ base v => match v with
                       | c :: v' => if first_byte_is_sign v then [sign_tok c; t_int base v'] else [t_int base v]
                       | [] => [t_int base v]
                       end
  | EFloat _ _ v => match v with
                    | c :: v' => if first_byte_is_sign v then [sign_tok c; t_float v'] else [t_float v]
                    | [] => [t_float v]
                    end
  | EString _ _ v => [t_string v]
  | EBytes _ _ v => [t_bytes v]
  | EParam _ n => [t_param n]
  | EIsNull _ neg l => spell l ++ tk "IS" :: (if neg then [tk "NOT"] else []) ++ [tk "NULL"]
  | EIsBool _ neg l v => spell l ++ tk "IS" :: (if neg then [tk "NOT"] else []) ++ [tk (if v then "TRUE" else "FALSE")]
  | EBetween neg l s x => spell l ++ (if neg then [tk "NOT"] else []) ++ tk "BETWEEN" :: spell s ++ tk "AND" :: spell x
  | EIn neg l (CUnnest _ _ x) => spell l ++ (if neg then [tk "NOT"] else []) ++ tk "IN" :: tk "UNNEST" :: tk "(" :: spell x ++ [tk ")"]
  | EIn neg l (CValues _ _ (e1 :: es)) =>
      spell l ++ (if neg then [tk "NOT"] else []) ++ tk "IN" :: tk "(" :: spell e1 ++
      (fix go (r : list expr) : toks := match r with [] => [] | x :: r' => tk "," :: spell x ++ go r' end) es ++ [tk ")"]
  | EPath (i :: r) => t_ident (id_name i) :: path_tail r
  | ESelector x i => spell x ++ [tk "."; t_ident (id_name i)]
  | EIndex _ x (SExprArg ix) => spell x ++ tk "[" :: spell ix ++ [tk "]"]
  | EIndex _ x (SKeyword _ _ kw ix) => spell x ++ tk "[" :: t_ident kw :: tk "(" :: spell ix ++ [tk ")"; tk "]"]
  | ETuple _ _ (e1 :: e2 :: es) =>
      tk "(" :: spell e1 ++ tk "," :: spell e2 ++
      (fix go (r : list expr) : toks := match r with [] => [] | x :: r' => tk "," :: spell x ++ go r' end) es ++ [tk ")"]
  | _ => []            (* ill-formed: empty path, empty value list, tuple of fewer than two elements *)
  end.

(* identifiers that parseLit treats specially when followed by "(" or a string are excluded by the follow condition;
   these two are special on their own *)
Definition plain_name (n : bytes) : bool :=
  negb (equal_fold_s n "SAFE_CAST") && negb (equal_fold_s n "REPLACE_FIELDS").

(* primaries with all positions 0 *)
Inductive atom : expr -> Prop :=
| AIdent n : plain_name n = true -> atom (EIdent (zident n))
| ANull : atom (ENull 0)
| ABool v : atom (EBool 0 v)
| AInt base v : unsigned v = true -> atom (EInt 0 0 base v)
| AFloat v : unsigned v = true -> atom (EFloat 0 0 v)
| AString v : atom (EString 0 0 v)
| ABytes v : atom (EBytes 0 0 v)
| AParam n : atom (EParam 0 n).

(* parseUnary folds + / - into a numeric literal that does not already start with a sign *)
Definition is_unsigned_number (e : expr) : bool :=
  match e with EInt _ _ _ v | EFloat _ _ v => negb (first_byte_is_sign v) | _ => false end.

(* a subscript expression must not begin with one of the four position keywords (as an identifier, quoted or not, in any
   case): the parser then insists on the keyword form *)
Definition subscript_word (t : ptok) : bool :=
  is_ident_ci t "OFFSET" || is_ident_ci t "ORDINAL" || is_ident_ci t "SAFE_OFFSET" || is_ident_ci t "SAFE_ORDINAL".
Definition free_subscript (e : expr) : bool := match spell e with t :: _ => negb (subscript_word t) | [] => true end.
Definition position_keyword (kw : bytes) : Prop :=
  kw = bs "OFFSET" \/ kw = bs "ORDINAL" \/ kw = bs "SAFE_OFFSET" \/ kw = bs "SAFE_ORDINAL".
(* a field access on a name extends the path instead *)
Definition pathlike (e : expr) : bool := match e with EIdent _ | EPath _ => true | _ => false end.

(* [can n e]: e is a tree the table allows at level n without any parenthesis (cumulative in n) *)
Inductive can : nat -> expr -> Prop :=
| CUp n m e : can n e -> (n <= m)%nat -> can m e
| CAtom e : atom e -> can 0 e
| CParen e : can 12 e -> can 0 (EParen 0 0 e)
(* a sign folded into a numeric literal: spelled with the sign token, parsed at the unary level *)
| CSignedInt c base v : (c = x2b \/ c = x2d) -> unsigned v = true -> can 2 (EInt 0 0 base (c :: v))
| CSignedFloat c v : (c = x2b \/ c = x2d) -> unsigned v = true -> can 2 (EFloat 0 0 (c :: v))
| CUnary op e : (op = bs "+" \/ op = bs "-" \/ op = bs "~") -> can 2 e ->
                (op = bs "~" \/ is_unsigned_number e = false) ->      (* + / - over an unsigned number is folded, never a UnaryExpr *)
                can 2 (EUnary 0 op e)
| CNot e : can 10 e -> can 10 (EUnary 0 (bs "NOT") e)
(* left-associative levels: left operand at the same level, right operand one level tighter *)
| CBin op n l r : op_level op = Some n -> (n <= 8 \/ n = 11 \/ n = 12)%nat ->
                  can n l -> can (Nat.pred n) r -> can n (EBinary op l r)
(* the comparison family is non-associative: both operands one level tighter *)
| CCmp op l r : op_level op = Some 9%nat -> can 8 l -> can 8 r -> can 9 (EBinary op l r)
(* IS [NOT] NULL / TRUE / FALSE and [NOT] BETWEEN belong to the comparison family: operands one level tighter *)
| CIsNull neg l : can 8 l -> can 9 (EIsNull 0 neg l)
| CIsBool neg l v : can 8 l -> can 9 (EIsBool 0 neg l v)
| CBetween neg l s x : can 8 l -> can 8 s -> can 8 x -> can 9 (EBetween neg l s x)
| CInUnnest neg l x : can 8 l -> can 12 x -> can 9 (EIn neg l (CUnnest 0 0 x))
| CInValues neg l e1 es : can 8 l -> can 12 e1 -> Forall (can 12) es -> can 9 (EIn neg l (CValues 0 0 (e1 :: es)))
(* level 1: field access and subscripts, left-associative; a dotted name is one Path node *)
| CPath n1 n2 ns : plain_name n1 = true -> can 1 (EPath (zident n1 :: zident n2 :: map zident ns))
| CSelector x n : can 1 x -> pathlike x = false -> can 1 (ESelector x (zident n))
| CIndex x ix : can 1 x -> can 12 ix -> free_subscript ix = true -> can 1 (EIndex 0 x (SExprArg ix))
| CIndexKw x kw ix : can 1 x -> can 12 ix -> position_keyword kw -> can 1 (EIndex 0 x (SKeyword 0 0 kw ix))
(* ( e1, e2, ... ) with at least two elements is a tuple *)
| CTuple e1 e2 es : can 12 e1 -> can 12 e2 -> Forall (can 12) es -> can 0 (ETuple 0 0 (e1 :: e2 :: es)).

(* the tokens of the further elements of a list: , e2 , e3 ... *)
Fixpoint spell_more (r : list expr) : toks := match r with [] => [] | x :: r' => tk "," :: spell x ++ spell_more r' end.

(* induction principle that also gives the hypothesis for the elements of a value list *)
Section CanInd.
  Variable P : nat -> expr -> Prop.
  Hypothesis HUp : forall n m e, can n e -> P n e -> (n <= m)%nat -> P m e.
  Hypothesis HAtom : forall e, atom e -> P 0%nat e.
  Hypothesis HParen : forall e, can 12 e -> P 12%nat e -> P 0%nat (EParen 0 0 e).
  Hypothesis HSInt : forall c base v, (c = x2b \/ c = x2d) -> unsigned v = true -> P 2%nat (EInt 0 0 base (c :: v)).
  Hypothesis HSFloat : forall c v, (c = x2b \/ c = x2d) -> unsigned v = true -> P 2%nat (EFloat 0 0 (c :: v)).
  Hypothesis HUnary : forall op e, (op = bs "+" \/ op = bs "-" \/ op = bs "~") -> can 2 e -> P 2%nat e ->
                                   (op = bs "~" \/ is_unsigned_number e = false) -> P 2%nat (EUnary 0 op e).
  Hypothesis HNot : forall e, can 10 e -> P 10%nat e -> P 10%nat (EUnary 0 (bs "NOT") e).
  Hypothesis HBin : forall op n l r, op_level op = Some n -> (n <= 8 \/ n = 11 \/ n = 12)%nat ->
                                     can n l -> P n l -> can (Nat.pred n) r -> P (Nat.pred n) r -> P n (EBinary op l r).
  Hypothesis HCmp : forall op l r, op_level op = Some 9%nat -> can 8 l -> P 8%nat l -> can 8 r -> P 8%nat r -> P 9%nat (EBinary op l r).
  Hypothesis HIsNull : forall neg l, can 8 l -> P 8%nat l -> P 9%nat (EIsNull 0 neg l).
  Hypothesis HIsBool : forall neg l v, can 8 l -> P 8%nat l -> P 9%nat (EIsBool 0 neg l v).
  Hypothesis HBetween : forall neg l s x, can 8 l -> P 8%nat l -> can 8 s -> P 8%nat s -> can 8 x -> P 8%nat x -> P 9%nat (EBetween neg l s x).
  Hypothesis HInUnnest : forall neg l x, can 8 l -> P 8%nat l -> can 12 x -> P 12%nat x -> P 9%nat (EIn neg l (CUnnest 0 0 x)).
  Hypothesis HInValues : forall neg l e1 es, can 8 l -> P 8%nat l -> can 12 e1 -> P 12%nat e1 -> Forall (can 12) es -> Forall (P 12%nat) es ->
                                             P 9%nat (EIn neg l (CValues 0 0 (e1 :: es))).
  Hypothesis HPath : forall n1 n2 ns, plain_name n1 = true -> P 1%nat (EPath (zident n1 :: zident n2 :: map zident ns)).
  Hypothesis HSelector : forall x n, can 1 x -> P 1%nat x -> pathlike x = false -> P 1%nat (ESelector x (zident n)).
  Hypothesis HIndex : forall x ix, can 1 x -> P 1%nat x -> can 12 ix -> P 12%nat ix -> free_subscript ix = true -> P 1%nat (EIndex 0 x (SExprArg ix)).
  Hypothesis HIndexKw : forall x kw ix, can 1 x -> P 1%nat x -> can 12 ix -> P 12%nat ix -> position_keyword kw -> P 1%nat (EIndex 0 x (SKeyword 0 0 kw ix)).
  Hypothesis HTuple : forall e1 e2 es, can 12 e1 -> P 12%nat e1 -> can 12 e2 -> P 12%nat e2 -> Forall (can 12) es -> Forall (P 12%nat) es ->
                                       P 0%nat (ETuple 0 0 (e1 :: e2 :: es)).

  Fixpoint can_ind' n e (c : can n e) {struct c} : P n e :=
    let all := (fix go (es : list expr) (f : Forall (can 12) es) {struct f} : Forall (P 12%nat) es :=
                  match f in Forall _ es return Forall (P 12%nat) es with
                  | Forall_nil _ => Forall_nil _
                  | @Forall_cons _ _ x l hx ht => Forall_cons x (can_ind' _ x hx) (go l ht)
                  end) in
    match c in can n e return P n e with
    | CUp n m e h l => HUp n m e h (can_ind' n e h) l
    | CAtom e a => HAtom e a
    | CParen e h => HParen e h (can_ind' _ e h)
    | CSignedInt c base v hc hu => HSInt c base v hc hu
    | CSignedFloat c v hc hu => HSFloat c v hc hu
    | CUnary op e ho h hf => HUnary op e ho h (can_ind' _ e h) hf
    | CNot e h => HNot e h (can_ind' _ e h)
    | CBin op n l r ho hn hl hr => HBin op n l r ho hn hl (can_ind' _ l hl) hr (can_ind' _ r hr)
    | CCmp op l r ho hl hr => HCmp op l r ho hl (can_ind' _ l hl) hr (can_ind' _ r hr)
    | CIsNull neg l hl => HIsNull neg l hl (can_ind' _ l hl)
    | CIsBool neg l v hl => HIsBool neg l v hl (can_ind' _ l hl)
    | CBetween neg l s x hl hs hx => HBetween neg l s x hl (can_ind' _ l hl) hs (can_ind' _ s hs) hx (can_ind' _ x hx)
    | CInUnnest neg l x hl hx => HInUnnest neg l x hl (can_ind' _ l hl) hx (can_ind' _ x hx)
    | CInValues neg l e1 es hl h1 hes =>
        HInValues neg l e1 es hl (can_ind' _ l hl) h1 (can_ind' _ e1 h1) hes (all es hes)
    | CPath n1 n2 ns hp => HPath n1 n2 ns hp
    | CSelector x n hx hp => HSelector x n hx (can_ind' _ x hx) hp
    | CIndex x ix hx hi hf => HIndex x ix hx (can_ind' _ x hx) hi (can_ind' _ ix hi) hf
    | CIndexKw x kw ix hx hi hk => HIndexKw x kw ix hx (can_ind' _ x hx) hi (can_ind' _ ix hi) hk
    | CTuple e1 e2 es h1 h2 hes => HTuple e1 e2 es h1 (can_ind' _ e1 h1) h2 (can_ind' _ e2 h2) hes (all es hes)
    end.
End CanInd.
