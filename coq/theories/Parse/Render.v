(* Parse/Render.v -- C01/C02 on the expression fragment, printer half: on every tree of the fragment the GENERATED SQL() programs
   (Gen/PrintProg.v, regenerated from ast/sql.go on every run) compute the simple recursive function [render], and exprPrec computes
   [eprec].  None = the Go code panics (unknown operator string, empty identifier). *)
From Verif Require Import Base.Bytes Tree.Tree Tree.Printer Bytes.Quote Parse.ExprModel Parse.Span Gen.Schema Gen.PrintProg.
Local Open Scope string_scope.

Section Render.
  Variable is_print : N -> bool.

  Definition bin_prec : list (bytes * nat) :=
    [([x2a], 3); ([x2f], 3); ([x7c; x7c], 3); ([x2b], 4); ([x2d], 4); ([x3c; x3c], 5); ([x3e; x3e], 5); ([x26], 6); ([x5e], 7); ([x7c], 8);
     ([x3d], 9); ([x21; x3d], 9); ([x3c], 9); ([x3c; x3d], 9); ([x3e], 9); ([x3e; x3d], 9); ([x4c; x49; x4b; x45], 9);
     ([x4e; x4f; x54; x20; x4c; x49; x4b; x45], 9); ([x41; x4e; x44], 11); ([x4f; x52], 12)]%nat.
  Definition un_prec : list (bytes * nat) := [([x2b], 2); ([x2d], 2); ([x7e], 2); ([x4e; x4f; x54], 10)]%nat.

  (* exprPrec *)
  Definition eprec (e : expr) : option nat :=
    match e with
    | EBinary op _ _ => assocb op bin_prec
    | EUnary _ op _ => assocb op un_prec
    | EIn _ _ _ | EIsNull _ _ _ | EIsBool _ _ _ _ | EBetween _ _ _ _ => Some 9%nat
    | ESelector _ _ | EIndex _ _ _ => Some 1%nat
    | _ => Some 0%nat
    end.

  Definition opt_app (a b : option bytes) : option bytes := opt_cat a b.
  Definition lit (s : string) : option bytes := Some (bs s).

  Fixpoint join_opt (sep : bytes) (l : list (option bytes)) (first : bool) : option bytes :=
    match l with
    | [] => Some []
    | s :: r => match s, join_opt sep r false with
                | Some v, Some rest => Some ((if first then [] else sep) ++ v ++ rest)%list
                | _, _ => None
                end
    end.

  Definition wrap (p : option nat) (ep : option nat) (s : option bytes) : option bytes :=
    match p, ep, s with
    | Some pv, Some epv, Some v => Some (if Nat.leb epv pv then v else [x28] ++ v ++ [x29])%list
    | _, _, _ => None
    end.

  Definition quote_id (i : ident) : option bytes := quote_ident is_print (id_name i).

  Fixpoint render (e : expr) : option bytes :=
    match e with
    | EBinary op l r =>
        let p := assocb op bin_prec in
        match p with
        | Some _ => opt_app (opt_app (opt_app (opt_app (wrap p (eprec l) (render l)) (lit " ")) (Some op)) (lit " ")) (wrap p (eprec r) (render r))
        | None => None
        end
    | EUnary _ op x =>
        let p := assocb op un_prec in
        match p, wrap p (eprec x) (render x) with
        | Some _, Some operand =>
            let need_space := bytes_eqb op (bs "NOT") || (bytes_eqb op (bs "-") && Printer.has_prefix operand (bs "-")) in
            Some (op ++ (if need_space then [x20] else []) ++ operand)%list
        | _, _ => None
        end
    | EIn neg l c =>
        opt_app (opt_app (opt_app (wrap (Some 9%nat) (eprec l) (render l)) (Some (if neg then bs " NOT" else []))) (lit " IN ")) (render_c c)
    | EIsNull _ neg l =>
        opt_app (opt_app (opt_app (wrap (Some 9%nat) (eprec l) (render l)) (lit " IS ")) (Some (if neg then bs "NOT " else []))) (lit "NULL")
    | EIsBool _ neg l v =>
        opt_app (opt_app (opt_app (wrap (Some 9%nat) (eprec l) (render l)) (lit " IS ")) (Some (if neg then bs "NOT " else []))) (Some (if v then bs_TRUE else bs_FALSE))
    | EBetween neg l s x =>
        opt_app (opt_app (opt_app (opt_app (opt_app (wrap (Some 9%nat) (eprec l) (render l)) (Some (if neg then bs " NOT" else []))) (lit " BETWEEN "))
                                  (wrap (Some 9%nat) (eprec s) (render s))) (lit " AND ")) (wrap (Some 9%nat) (eprec x) (render x))
    | ESelector x i =>
        (* an integer literal and the dot are kept apart: "1.x" would lex as a number glued to an identifier *)
        opt_app (opt_app (wrap (Some 1%nat) (eprec x) (render x)) (Some (match x with EInt _ _ _ _ => [x20; x2e] | _ => [x2e] end))) (quote_id i)
    | EIndex _ x ix => opt_app (opt_app (opt_app (wrap (Some 1%nat) (eprec x) (render x)) (lit "[")) (render_s ix)) (lit "]")
    | EParen _ _ x => opt_app (opt_app (lit "(") (render x)) (lit ")")
    | ETuple _ _ vs => opt_app (opt_app (lit "(") (join_opt (bs ", ") ((fix go (l : list expr) := match l with [] => [] | x :: r => render x :: go r end) vs) true)) (lit ")")
    | EParam _ n => Some ([x40] ++ n)%list
    | EIdent i => quote_id i
    | EPath ids => join_opt (bs ".") (map quote_id ids) true
    | ENull _ => lit "NULL"
    | EBool _ v => Some (if v then bs_TRUE else bs_FALSE)
    | EInt _ _ _ v => Some v
    | EFloat _ _ v => Some v
    | EString _ _ v => Some (quote_string is_print v)
    | EBytes _ _ v => Some (quote_bytes v)
    end
  with render_c (c : incond) : option bytes :=
    match c with
    | CValues _ _ es => opt_app (opt_app (lit "(") (join_opt (bs ", ") ((fix go (l : list expr) := match l with [] => [] | x :: r => render x :: go r end) es) true)) (lit ")")
    | CUnnest _ _ x => opt_app (opt_app (lit "UNNEST(") (render x)) (lit ")")
    end
  with render_s (s : subscript) : option bytes :=
    match s with
    | SKeyword _ _ kw x => opt_app (opt_app (opt_app (Some kw) (lit "(")) (render x)) (lit ")")
    | SExprArg x => render x
    end.

  Definition ty_of (e : expr) : string :=
    match to_tree e with TNode ty _ => ty | _ => "" end.

  Notation INFO := (info is_print schema sql_prog prec_table).

  Definition einfo (e : expr) : cinfo := {| ci_ty := ty_of e; ci_sql := render e; ci_prec := eprec e; ci_tree := to_tree e |}.
End Render.

Section Proof.
  Variable is_print : N -> bool.
  Notation INFO := (info is_print schema sql_prog prec_table).
  Notation RENDER := (render is_print).

  Ltac tables :=
    repeat match goal with
           | |- context [assoc ?k schema] => let v := eval vm_compute in (assoc k schema) in change (assoc k schema) with v
           | |- context [assoc ?k sql_prog] => let v := eval vm_compute in (assoc k sql_prog) in change (assoc k sql_prog) with v
           | |- context [assoc ?k prec_table] => let v := eval vm_compute in (assoc k prec_table) in change (assoc k prec_table) with v
           end.

  Ltac child x IH :=
    let ty := fresh "ty" in let fs := fresh "fs" in let E := fresh "E" in
    destruct (to_tree_is_node x) as (ty & fs & E); rewrite E in *; cbn [pval_of]; rewrite IH.

  Ltac run :=
    cbn [run_prog prec_of eval_body eval_s eval_b assoc String.eqb Ascii.eqb Bool.eqb ci_sql ci_prec ci_ty opt_cat option_map].

  Ltac start := unfold einfo; cbn [to_tree cond_tree sub_tree info]; tables; cbn [mk_penv].
  Ltac prep :=
    cbn [pval_of]; unfold run_prog, prec_of; tables; run; cbn [render render_c render_s eprec ty_of to_tree cond_tree sub_tree];
    (let b := eval vm_compute in bin_prec in change bin_prec with b); (let u := eval vm_compute in un_prec in change un_prec with u);
    unfold einfo, wrap, opt_app, opt_cat, lit; cbn [ci_prec ci_sql ci_ty render]; unfold quote_id;
    repeat match goal with |- context[bs ?s] => let v := eval vm_compute in (bs s) in change (bs s) with v end.
  Ltac crunch := repeat (match goal with |- context[match ?x with _ => _ end] => destruct x eqn:? end); try reflexivity.
  Ltac fin :=
    cbn [pval_of]; unfold run_prog, prec_of; tables; run; cbn [render eprec ty_of to_tree];
    (let b := eval vm_compute in bin_prec in change bin_prec with b); (let u := eval vm_compute in un_prec in change un_prec with u);
    unfold einfo, wrap, opt_app, opt_cat, lit; cbn [ci_prec ci_sql ci_ty];
    repeat match goal with |- context[bs ?s] => let v := eval vm_compute in (bs s) in change (bs s) with v end;
    repeat (match goal with |- context[match ?x with _ => _ end] => destruct x eqn:? end); try reflexivity.

  Lemma info_ident i : INFO (ExprModel.t_ident i) = einfo is_print (EIdent i).
  Proof. unfold ExprModel.t_ident, einfo. cbn [info]. tables. cbn [mk_penv pval_of]. tables. run. reflexivity. Qed.

  Definition go_tree (l : list expr) : list tree := (fix go (l : list expr) := match l with [] => [] | x :: r => to_tree x :: go r end) l.
  Definition go_render (l : list expr) : list (option bytes) := (fix go (l : list expr) := match l with [] => [] | x :: r => render is_print x :: go r end) l.

  Lemma join_exprs sep : forall l first, Forall (fun e => INFO (to_tree e) = einfo is_print e) l ->
    join_sql sep (map INFO (go_tree l)) first = join_opt sep (go_render l) first.
  Proof.
    induction l as [|x r IH]; intros first F; [reflexivity|]. inversion F as [|? ? Hx Hr]; subst.
    cbn [go_tree go_render map join_sql join_opt]. fold (go_tree r) (go_render r). rewrite Hx, (IH false Hr). reflexivity.
  Qed.

  Lemma join_idents sep : forall ids first,
    join_sql sep (map INFO (map ExprModel.t_ident ids)) first = join_opt sep (map (quote_id is_print) ids) first.
  Proof.
    induction ids as [|i r IH]; intros first; [reflexivity|]. cbn [map join_sql join_opt]. rewrite info_ident, IH. reflexivity.
  Qed.

  Lemma cond_is_node c : exists ty fs, cond_tree c = TNode ty fs.
  Proof. destruct c; cbn [cond_tree]; eexists _, _; reflexivity. Qed.
  Lemma sub_is_node s : exists ty fs, sub_tree s = TNode ty fs.
  Proof. destruct s; cbn [sub_tree]; eexists _, _; reflexivity. Qed.

  Lemma render_in neg l c : render is_print (EIn neg l c) =
    opt_app (opt_app (opt_app (wrap (Some 9%nat) (eprec l) (render is_print l)) (Some (if neg then bs " NOT" else []))) (lit " IN ")) (render_c is_print c).
  Proof. reflexivity. Qed.
  Lemma render_index p x ix : render is_print (EIndex p x ix) =
    opt_app (opt_app (opt_app (wrap (Some 1%nat) (eprec x) (render is_print x)) (lit "[")) (render_s is_print ix)) (lit "]").
  Proof. reflexivity. Qed.

  Lemma render_c_values lp rp es : render_c is_print (CValues lp rp es) =
    opt_app (opt_app (lit "(") (join_opt (bs ", ") (go_render es) true)) (lit ")").
  Proof. reflexivity. Qed.
  Lemma render_c_unnest u rp x : render_c is_print (CUnnest u rp x) = opt_app (opt_app (lit "UNNEST(") (render is_print x)) (lit ")").
  Proof. reflexivity. Qed.
  Lemma render_s_keyword kp rp kw x : render_s is_print (SKeyword kp rp kw x) = opt_app (opt_app (opt_app (Some kw) (lit "(")) (render is_print x)) (lit ")").
  Proof. reflexivity. Qed.
  Lemma render_s_arg x : render_s is_print (SExprArg x) = render is_print x.
  Proof. reflexivity. Qed.

  Theorem info_to_tree : forall e, INFO (to_tree e) = einfo is_print e.
  Proof.
    apply (expr_ind' (fun e => INFO (to_tree e) = einfo is_print e)
                     (fun c => ci_sql (INFO (cond_tree c)) = render_c is_print c)
                     (fun s => ci_sql (INFO (sub_tree s)) = render_s is_print s)).
    - intros op l r IHl IHr. start. child l IHl. child r IHr. fin.
    - intros p op x IH. start. child x IH. prep.
      destruct (assocb op _) as [pv|]; [|reflexivity]. destruct (eprec x) as [ep|]; [|reflexivity]. destruct (render is_print x) as [sx|]; [|reflexivity].
      set (operand := if (ep <=? pv)%nat then sx else ([x28] ++ sx ++ [x29])%list).
      destruct (bytes_eqb op [x4e; x4f; x54]); cbn [orb andb]; [rewrite <- app_assoc; reflexivity|].
      destruct (bytes_eqb op [x2d]); cbn [orb andb]; [|rewrite <- app_assoc; reflexivity].
      destruct (Printer.has_prefix operand [x2d]); rewrite <- app_assoc; reflexivity.
    - intros neg l c IHl IHc. start. child l IHl.
      destruct (cond_is_node c) as (tc & fc & Ec). rewrite Ec in *. rewrite render_in. prep. rewrite IHc. crunch.
    - intros p neg l IH. start. child l IH. fin.
    - intros p neg l v IH. start. child l IH. fin.
    - intros neg l s x IHl IHs IHx. start. child l IHl. child s IHs. child x IHx. fin.
    - intros x i IH. start. child x IH. unfold ExprModel.t_ident at 1. cbn [pval_of]. fold (ExprModel.t_ident i). rewrite info_ident.
      destruct x; cbn [to_tree] in E; unfold ExprModel.t_ident in E; inversion E; subst ty fs; prep; prep;
        unfold ty_of; cbn [to_tree]; unfold ExprModel.t_ident; cbn [String.eqb Ascii.eqb Bool.eqb]; crunch.
    - intros rb x ix IHx IHs. start. child x IHx.
      destruct (sub_is_node ix) as (ts & fss & Es). rewrite Es in *. rewrite render_index. prep. rewrite IHs. crunch.
    - intros lp rp x IH. start. child x IH. fin.
    - intros lp rp vs IH. start. fold (go_tree vs). prep. fold (go_render vs). rewrite (join_exprs _ vs true IH). crunch.
    - intros e He. destruct e; try destruct He; start; try fin.
      all: rewrite join_idents; reflexivity.
    - intros lp rp es IH. rewrite render_c_values. start. fold (go_tree es). prep. rewrite (join_exprs _ es true IH). crunch.
    - intros u rp x IH. rewrite render_c_unnest. start. child x IH. prep. crunch.
    - intros kp rp kw x IH. rewrite render_s_keyword. start. child x IH. prep. crunch.
    - intros x IH. rewrite render_s_arg. start. child x IH. prep. crunch.
  Qed.
End Proof.

(* ---- positions do not influence the printed text ---- *)
From Verif Require Import Parse.ExprFacts Parse.Spell Parse.RoundTrip Parse.Respell.

Section Compose.
  Variable is_print : N -> bool.
  Notation RENDER := (render is_print).

  Definition strip_l (l : list expr) : list expr := map strip l.

  Lemma go_render_map l : (fix go (l : list expr) := match l with [] => [] | x :: r => RENDER x :: go r end) l = map RENDER l.
  Proof. induction l as [|x r IH]; [reflexivity|]. cbn [map]. rewrite <- IH. reflexivity. Qed.

  Lemma eprec_strip e : eprec (strip e) = eprec e.
  Proof. destruct e; reflexivity. Qed.

  Theorem render_strip : forall e, RENDER (strip e) = RENDER e.
  Proof.
    apply (expr_ind' (fun e => RENDER (strip e) = RENDER e)
                     (fun c => render_c is_print (erase_c (fun b => b) c) = render_c is_print c)
                     (fun s => render_s is_print (erase_s (fun b => b) s) = render_s is_print s)); unfold strip in *.
    - intros op l r IHl IHr. cbn [erase render]. rewrite IHl, IHr. fold (strip l) (strip r). rewrite !eprec_strip. reflexivity.
    - intros p op x IH. cbn [erase render]. rewrite IH. fold (strip x). rewrite eprec_strip. reflexivity.
    - intros neg l c IHl IHc. change (erase (fun b => b) (EIn neg l c)) with (EIn neg (erase (fun b => b) l) (erase_c (fun b => b) c)).
      rewrite !render_in. rewrite IHl, IHc. fold (strip l). rewrite eprec_strip. reflexivity.
    - intros p neg l IH. cbn [erase render]. rewrite IH. fold (strip l). rewrite eprec_strip. reflexivity.
    - intros p neg l v IH. cbn [erase render]. rewrite IH. fold (strip l). rewrite eprec_strip. reflexivity.
    - intros neg l s x IHl IHs IHx. cbn [erase render]. rewrite IHl, IHs, IHx. fold (strip l) (strip s) (strip x). rewrite !eprec_strip. reflexivity.
    - intros x i IH. cbn [erase render]. rewrite IH. fold (strip x). rewrite eprec_strip. destruct x; reflexivity.
    - intros rb x ix IHx IHs. change (erase (fun b => b) (EIndex rb x ix)) with (EIndex 0 (erase (fun b => b) x) (erase_s (fun b => b) ix)).
      rewrite !render_index. rewrite IHx, IHs. fold (strip x). rewrite eprec_strip. reflexivity.
    - intros lp rp x IH. cbn [erase render]. rewrite IH. reflexivity.
    - intros lp rp vs IH. cbn [erase render]. rewrite erase_go. rewrite !go_render_map. unfold erase_l. rewrite map_map.
      f_equal. f_equal. f_equal. apply map_ext_in. intros a Ha. rewrite Forall_forall in IH. apply IH, Ha.
    - intros e He. destruct e; try destruct He; cbn [erase render]; try reflexivity.
      unfold quote_id. rewrite map_map. reflexivity.
    - intros lp rp es IH. change (erase_c (fun b => b) (CValues lp rp es)) with (CValues 0 0 ((fix go (l : list expr) := match l with [] => [] | x :: r => erase (fun b => b) x :: go r end) es)). rewrite !render_c_values. rewrite erase_go. unfold go_render. rewrite !go_render_map. unfold erase_l. rewrite map_map.
      f_equal. f_equal. f_equal. apply map_ext_in. intros a Ha. rewrite Forall_forall in IH. apply IH, Ha.
    - intros u rp x IH. change (erase_c (fun b => b) (CUnnest u rp x)) with (CUnnest 0 0 (erase (fun b => b) x)). rewrite !render_c_unnest, IH. reflexivity.
    - intros kp rp kw x IH. change (erase_s (fun b => b) (SKeyword kp rp kw x)) with (SKeyword 0 0 kw (erase (fun b => b) x)). rewrite !render_s_keyword, IH. reflexivity.
    - intros x IH. change (erase_s (fun b => b) (SExprArg x)) with (SExprArg (erase (fun b => b) x)). rewrite !render_s_arg, IH. reflexivity.
  Qed.
End Compose.

(* canonical trees carry no position information: erasing positions leaves them unchanged *)
Lemma atom_strip e : atom e -> strip e = e.
Proof. intros H; destruct H; reflexivity. Qed.

Lemma can_strip n e : can n e -> strip e = e.
Proof.
  intros C. induction C as [n m e H IH L | e A | e H IH | c base v C U | c v C U | op e O H IH F | e H IH | op n l r OL R Hl IHl Hr IHr | op l r OL Hl IHl Hr IHr
                 | neg l Hl IHl | neg l v Hl IHl | neg l s x Hl IHl Hs IHs Hx IHx | neg l x Hl IHl Hx IHx | neg l e1 es Hl IHl H1 IH1 Hes IHes
                 | n1 n2 ns Hp | x n Hx IHx Hpl | x ix Hx IHx Hi IHi Hf | x kw ix Hx IHx Hi IHi Hk | e1 e2 es H1 IH1 H2 IH2 Hes IHes] using can_ind';
    unfold strip in *.
  19: { change (erase (fun b => b) (ETuple 0 0 (e1 :: e2 :: es)))
          with (ETuple 0 0 (erase (fun b => b) e1 :: erase (fun b => b) e2 :: (fix go (l : list expr) := match l with [] => [] | x :: r => erase (fun b => b) x :: go r end) es)).
        rewrite IH1, IH2, erase_go. f_equal. f_equal. f_equal. unfold erase_l.
        clear -IHes. induction es as [|x r IHr]; [reflexivity|]. inversion IHes; subst. cbn [map]. f_equal; auto. }
  18: { change (erase (fun b => b) (EIndex 0 x (SKeyword 0 0 kw ix))) with (EIndex 0 (erase (fun b => b) x) (SKeyword 0 0 kw (erase (fun b => b) ix))).
        rewrite IHx, IHi. reflexivity. }
  17: { change (erase (fun b => b) (EIndex 0 x (SExprArg ix))) with (EIndex 0 (erase (fun b => b) x) (SExprArg (erase (fun b => b) ix))).
        rewrite IHx, IHi. reflexivity. }
  16: { cbn [erase]. rewrite IHx. reflexivity. }
  15: { cbn [erase map]. f_equal. f_equal. f_equal. rewrite map_map. apply map_ext. reflexivity. }
  14: { change (erase (fun b => b) (EIn neg l (CValues 0 0 (e1 :: es))))
          with (EIn neg (erase (fun b => b) l) (CValues 0 0 (erase (fun b => b) e1 :: (fix go (l : list expr) := match l with [] => [] | x :: r => erase (fun b => b) x :: go r end) es))).
        rewrite IHl, IH1, erase_go. f_equal. f_equal. f_equal. unfold erase_l.
        clear -IHes. induction es as [|x r IHr]; [reflexivity|]. inversion IHes; subst. cbn [map]. f_equal; auto. }
  13: { change (erase (fun b => b) (EIn neg l (CUnnest 0 0 x))) with (EIn neg (erase (fun b => b) l) (CUnnest 0 0 (erase (fun b => b) x))).
        rewrite IHl, IHx. reflexivity. }
  all: cbn [erase]; try rewrite IH; try rewrite IHl; try rewrite IHr; try rewrite IHs; try rewrite IHx; try reflexivity; auto.
  apply atom_strip, A.
Qed.

(* C01 on the operator core: if the token list obtained by lexing the printed text agrees with the canonical spelling (in kinds,
   values and literal text; positions are whatever the lexer assigned), then parsing it gives back the tree -- up to positions --
   and printing the result gives the same text again *)
Theorem fragment_roundtrip (is_print : N -> bool) : forall e ts, can 12 e -> same_tokens (spell e ++ [eof_tok])%list ts ->
  exists f e' r, P f (MBin BOr) ts = Ok (e', r) /\ strip e' = e /\ same_tokens [eof_tok] r /\
                 render is_print e' = render is_print e /\
                 sql is_print schema sql_prog prec_table (to_tree e') = sql is_print schema sql_prog prec_table (to_tree e).
Proof.
  intros e ts C ST. destruct (parse_spell e C) as [f PF].
  pose proof (P_sim (fun b => b) (fun a b H => f_equal to_upper H) f (MBin BOr) (MBin BOr) _ _ eq_refl ST) as R.
  rewrite PF in R. destruct (P f (MBin BOr) ts) as [[e' r]| | |] eqn:PT; cbn [rsim] in R; try contradiction.
  destruct R as [RE RT]. exists f, e', r. split; [exact PT|].
  assert (SE : strip e' = e) by (unfold strip; rewrite <- RE; apply (can_strip 12 e C)).
  split; [exact SE|]. split; [exact RT|].
  assert (RR : render is_print e' = render is_print e) by (rewrite <- (render_strip is_print e'), SE; reflexivity).
  split; [exact RR|]. unfold sql. rewrite !info_to_tree. exact RR.
Qed.
