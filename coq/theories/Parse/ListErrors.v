(* Parse/ListErrors.v -- C09 through the list loop of Parse/ListLoop.v: when the statement parser records exactly one error per Bad node it
   returns (and none otherwise), the list entry point's error count is the number of Bad nodes in the returned list, plus one when input is
   left over; in particular no error is reported iff no returned statement is a Bad node and the whole input was consumed. *)
From Coq Require Import String.
From Verif Require Import Base.Bytes Tree.Tree Parse.ExprModel Parse.TypeModel Parse.ListLoop Parse.StmtModel Parse.StmtProofs.
From Coq Require Import Lia.
Local Open Scope nat_scope.

Section Count.
  Variable stmt : Type.
  Variable sp : toks -> stmt * toks * nat.
  Variable w : stmt -> nat.                       (* 1 for a Bad node, 0 otherwise *)
  Hypothesis sp_counts : forall ts, let '(s, _, e) := sp ts in e = w s.

  Fixpoint sumw (l : list stmt) : nat := match l with [] => 0 | s :: r => w s + sumw r end.

  Lemma sumw_app a b : sumw (a ++ b) = sumw a + sumw b.
  Proof. induction a as [|x a IH]; cbn [app sumw]; lia. Qed.

  Lemma sumw_rev l : sumw (rev l) = sumw l.
  Proof. induction l as [|x l IH]; [reflexivity|]. cbn [rev]. rewrite sumw_app, IH. cbn [sumw]. lia. Qed.

  Lemma stmts_counts : forall f ts racc errs,
    let '(ns, _, e') := stmts stmt sp f ts racc errs in e' + sumw racc = errs + sumw ns.
  Proof.
    induction f as [|f IH]; intros ts racc errs; cbn [stmts]; [rewrite sumw_rev; lia|].
    destruct (kis (cur ts) K_eof); [rewrite sumw_rev; lia|].
    destruct (kis (cur ts) ";"); [apply IH|].
    pose proof (sp_counts ts) as C. destruct (sp ts) as [[s ts1] e]. subst e.
    destruct (kis (cur ts1) ";").
    - specialize (IH ts1 (s :: racc) (errs + w s)). destruct (stmts stmt sp f ts1 (s :: racc) (errs + w s)) as [[ns rest] e'].
      cbn [sumw] in IH. lia.
    - rewrite sumw_rev. cbn [sumw]. lia.
  Qed.

  Theorem parse_many_counts ts :
    let '(ns, errs) := parse_many stmt sp ts in
    sumw ns <= errs <= sumw ns + 1 /\ (errs = 0 -> sumw ns = 0).
  Proof.
    unfold parse_many. pose proof (stmts_counts (2 * length ts + 2) ts [] 0) as C.
    destruct (stmts stmt sp (2 * length ts + 2) ts [] 0) as [[ns rest] e]. cbn [sumw] in C.
    destruct (kis (cur rest) K_eof); lia.
  Qed.
End Count.

(* the statement family: a Bad node weighs one *)
Definition bad_weight (d : dnode) : nat := match d with DBad _ _ _ _ => 1 | DNode _ _ => 0 end.

Lemma sp_ddl_counts ts d r e : sp_ddl ts = Some (d, r, e) -> e = bad_weight d.
Proof.
  intros H. destruct (sp_ddl_errors _ _ _ _ H) as [(-> & _ & ty & fs & ->)|(-> & p & q & sk & ->)]; reflexivity.
Qed.

Lemma sp_stmt_counts ts d r e : sp_stmt ts = Some (d, r, e) -> e = bad_weight d.
Proof.
  unfold sp_stmt. destruct (kis (cur ts) "@"); [discriminate|].
  destruct (kis (cur ts) "SELECT" || kis (cur ts) "WITH" || kis (cur ts) "(" || kis (cur ts) "FROM"); [discriminate|].
  destruct (is_kwlike (cur ts) "INSERT" || is_kwlike (cur ts) "DELETE" || is_kwlike (cur ts) "UPDATE"); [discriminate|].
  destruct (kis (cur ts) "CREATE" || is_kwlike (cur ts) "ALTER" || is_kwlike (cur ts) "DROP" || is_kwlike (cur ts) "RENAME" || is_kwlike (cur ts) "GRANT"
            || is_kwlike (cur ts) "REVOKE" || is_kwlike (cur ts) "ANALYZE"); [apply sp_ddl_counts|].
  destruct (is_kwlike (cur ts) "CALL"); [discriminate|].
  destruct (sskip ts [] (ppos (cur ts))) as [[sk endp] rest]. intros H. inversion H; subst. reflexivity.
Qed.

(* ParseDDLs / ParseStatements on the family, whatever the rest of the parser does as long as it keeps the same discipline *)
Theorem family_list_errors (sp0 : toks -> option (dnode * toks * nat)) (other : toks -> dnode * toks * nat) :
  (forall ts d r e, sp0 ts = Some (d, r, e) -> e = bad_weight d) ->
  (forall ts, let '(s, _, e) := other ts in e = bad_weight s) ->
  forall ts, let '(ns, errs) := parse_many dnode (spT other sp0) ts in
    sumw dnode bad_weight ns <= errs <= sumw dnode bad_weight ns + 1 /\ (errs = 0 -> sumw dnode bad_weight ns = 0).
Proof.
  intros H0 HO ts. apply parse_many_counts. intros ts0. unfold spT. destruct (sp0 ts0) as [[[d r] e]|] eqn:E; [exact (H0 _ _ _ _ E)|apply HO].
Qed.
