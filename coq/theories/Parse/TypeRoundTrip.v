(* Parse/TypeRoundTrip.v -- C01 on the type grammar: every well-formed type tree, spelled from its shape, is a sentence of the grammar;
   composed with the insensitivity theorems (positions, ">>" fusion) and the printer lemma: if the tokens lexed from the printed text
   agree with that spelling, the parser returns the tree up to positions and printing the result gives the same text. *)
From Verif Require Import Base.Bytes Tree.Tree Tree.Printer Parse.ExprModel Parse.ExprFacts Parse.Spell Parse.Respell Parse.Render
                          Parse.TypeModel Parse.TypeProofs Parse.TypeRespell Parse.TypeRender Gen.Schema Gen.PrintProg.
From Verif Require Export Parse.TypeSpell.
From Coq Require Import Lia.
Local Open Scope Z_scope.

(* what may follow a type: not a dot (it would extend a dotted name) and not the start of a type (a preceding single name would be read
   as a field name) *)
Definition okK (K : toks) : Prop := K <> [] /\ kis (cur K) "." = false /\ type_start (cur K) = false.

Lemma okK_cons t K : kis t "." = false -> type_start t = false -> okK (t :: K).
Proof. intros A B. split; [discriminate|]. auto. Qed.

Lemma path_tail_Tr : forall r K, K <> [] -> TrPath (map (fun i => zident (id_name i)) r) (path_tail r ++ K) K.
Proof.
  induction r as [|j r IH]; intros K NE; [constructor|]. cbn [path_tail map app].
  change (zident (id_name j)) with (mk_ident (t_ident (id_name j))). apply TrPCons; [reflexivity|reflexivity|apply IH, NE].
Qed.

Lemma zspell_start t : wf_tyb t = true -> exists x r, zspell t = x :: r /\ type_start x = true.
Proof.
  destruct t as [p n|ids|a g it|s g fs]; cbn [zspell wf_tyb]; intros W.
  - eexists _, _; split; reflexivity.
  - destruct ids as [|i r]; [discriminate|]. eexists _, _; split; reflexivity.
  - eexists _, _; split; reflexivity.
  - destruct fs as [|[oi x] r]; eexists _, _; split; reflexivity.
Qed.

(* a type that is one identifier long is followed by K itself *)
Lemma zspell_anon_ok t K : wf_tyb t = true -> okK K ->
  kis (cur (zspell t ++ K)) K_ident && type_start (cur (next (zspell t ++ K))) = false.
Proof.
  intros W (NE & ND & NT). destruct t as [p n|ids|a g it|s g fs]; cbn [zspell wf_tyb] in *.
  - cbn [app cur]. rewrite (next_cons _ _ NE), NT. apply andb_false_r.
  - destruct ids as [|i [|j r]]; [discriminate| |].
    + cbn [path_tail app cur]. rewrite (next_cons _ _ NE), NT. apply andb_false_r.
    + cbn [path_tail app cur]. rewrite next_cons by discriminate. cbn [cur]. reflexivity.
  - reflexivity.
  - destruct fs as [|[oi x] r]; reflexivity.
Qed.

Definition zero_named (ids : list ident) : list ident := map (fun i => zident (id_name i)) ids.

Section TyInd2.
  Variable P : ty -> Prop.
  Hypothesis HS : forall p n, P (TSimple p n).
  Hypothesis HN : forall ids, P (TNamed ids).
  Hypothesis HA : forall a g it, P it -> P (TArray a g it).
  Hypothesis HT : forall s g fs, Forall (fun f => P (snd f)) fs -> P (TStruct s g fs).
  Fixpoint ty_ind2 (t : ty) : P t :=
    match t with
    | TSimple p n => HS p n
    | TNamed ids => HN ids
    | TArray a g it => HA a g it (ty_ind2 it)
    | TStruct s g fs =>
        HT s g fs ((fix go (l : list (option ident * ty)) : Forall (fun f => P (snd f)) l :=
                      match l with [] => Forall_nil _ | (oi, x) :: r => Forall_cons (oi, x) (ty_ind2 x) (go r) end) fs)
    end.
End TyInd2.

(* every well-formed tree's spelling is a sentence of the grammar, for a tree that differs from it in positions only *)
Definition Spelled (t : ty) : Prop := wf_tyb t = true -> forall K, okK K -> exists t0, Tr t0 (zspell t ++ K) K /\ erase0 t0 = erase0 t.

Lemma er_id i : Respell.er_ident (fun b => b) i = zident (id_name i).
Proof. reflexivity. Qed.

Lemma field_Tr f K : Spelled (snd f) -> wf_tyb (snd f) = true -> okK K ->
  exists f0, TrField f0 (zfield f ++ K) K /\ erase_field (fun b => b) f0 = erase_field (fun b => b) f.
Proof.
  intros S W OK. destruct (S W K OK) as (t0 & T & E). destruct f as [[i|] x]; unfold zfield; cbn [fst snd zfield_name app] in *.
  - exists (Some (mk_ident (t_ident (id_name i))), t0). split.
    + apply TrFNamed; [reflexivity| |exact T]. destruct (zspell_start x W) as (y & r & Z & TS). rewrite Z. exact TS.
    + unfold erase_field. cbn [fst snd option_map]. rewrite E. reflexivity.
  - exists (None, t0). split; [apply TrFAnon; [exact T|apply zspell_anon_ok; auto]|]. unfold erase_field. cbn [fst snd option_map]. rewrite E. reflexivity.
Qed.

Lemma more_Tr : forall fs K, Forall (fun f => Spelled (snd f)) fs -> forallb (fun f => wf_tyb (snd f)) fs = true -> K <> [] ->
  kis (cur K) "," = false -> kis (cur K) "." = false -> type_start (cur K) = false ->
  exists fs0, TrMore fs0 (zmore fs ++ K) K /\ map (erase_field (fun b => b)) fs0 = map (erase_field (fun b => b)) fs.
Proof.
  induction fs as [|f r IH]; intros K F W NE NC ND NT.
  - exists []. split; [constructor|reflexivity].
  - inversion F as [|? ? Sf Fr]; subst. cbn [forallb] in W. apply andb_true_iff in W as [Wf Wr].
    destruct (IH K Fr Wr NE NC ND NT) as (fs0 & TM & EM).
    assert (OKr : okK (zmore r ++ K)).
    { destruct r as [|g r']; cbn [zmore app]; [split; auto|apply okK_cons; reflexivity]. }
    destruct (field_Tr f (zmore r ++ K) Sf Wf OKr) as (f0 & TF & EF).
    exists (f0 :: fs0). cbn [zmore app]. rewrite <- app_assoc. split; [apply (TrMCons (tk ",") _ (zmore r ++ K)); [reflexivity|exact TF|exact TM]|].
    cbn [map]. rewrite EF, EM. reflexivity.
Qed.

Theorem zspell_Tr : forall t, Spelled t.
Proof.
  apply ty_ind2; unfold Spelled.
  - (* simple *)
    intros p n W K (NE & _). cbn [wf_tyb] in W. unfold canonical_simple in W.
    destruct (simple_name (t_ident n)) as [m|] eqn:SN; [|discriminate]. apply bytes_eqb_eq in W. subst m.
    exists (TSimple 0 n). split; [|reflexivity]. cbn [zspell app]. apply (TrSimple (t_ident n)); [reflexivity|exact SN].
  - (* named *)
    intros ids W K (NE & ND & _). cbn [wf_tyb] in W. destruct ids as [|i r]; [discriminate|].
    destruct (simple_name (t_ident (id_name i))) eqn:SN; [discriminate|].
    exists (TNamed (mk_ident (t_ident (id_name i)) :: zero_named r)). split.
    + cbn [zspell app]. apply TrNamed; [reflexivity|exact SN|apply path_tail_Tr, NE|exact ND].
    + cbn [erase_ty map]. unfold zero_named. rewrite map_map. reflexivity.
  - (* array *)
    intros a g it IH W K (NE & _). cbn [wf_tyb] in W.
    destruct (IH W (tk ">" :: K) (okK_cons (tk ">") K eq_refl eq_refl)) as (t0 & T & E).
    exists (TArray 0 0 t0). split; [|cbn [erase_ty]; rewrite E; reflexivity].
    cbn [zspell app]. rewrite <- app_assoc. cbn [app]. apply (TrArray (tk "ARRAY") (tk "<") _ (tk ">")); [reflexivity|reflexivity|exact T|reflexivity].
  - (* struct *)
    intros s g fs IH W K (NE & _). rewrite wf_struct in W. destruct fs as [|f r].
    + exists (TStruct 0 1 []). split; [|reflexivity]. cbn [zspell app]. apply (TrStruct0 (tk "STRUCT") (tk "<>")); reflexivity.
    + inversion IH as [|? ? Sf Fr]; subst. cbn [forallb] in W. apply andb_true_iff in W as [Wf Wr].
      destruct (more_Tr r (tk ">" :: K) Fr Wr ltac:(discriminate) eq_refl eq_refl eq_refl) as (fs0 & TM & EM).
      assert (OKr : okK (zmore r ++ tk ">" :: K)).
      { destruct r as [|g0 r']; cbn [zmore app]; apply okK_cons; reflexivity. }
      destruct (field_Tr f _ Sf Wf OKr) as (f0 & TF & EF).
      exists (TStruct 0 0 (f0 :: fs0)). split.
      * rewrite zspell_struct. cbn [app]. rewrite <- !app_assoc. cbn [app].
        apply (TrStructN (tk "STRUCT") (tk "<") _ (zmore r ++ tk ">" :: K) (tk ">")); [reflexivity|reflexivity|exact TF|exact TM|reflexivity].
      * rewrite !erase_struct. cbn [map]. rewrite EF, EM. reflexivity.
Qed.

(* ---------- composition ---------- *)
Lemma unfuse_plain : forall ts, plain ts -> unfuse ts = ts.
Proof. induction 1 as [|t r H _ IH]; [reflexivity|]. cbn [unfuse]. rewrite H, IH. reflexivity. Qed.

Lemma okK_eof : okK [eof_tok].
Proof. split; [discriminate|]. split; reflexivity. Qed.

Section Compose.
  Variable is_print : N -> bool.

  Lemma render_erase : forall t, render_ty is_print (erase0 t) = render_ty is_print t.
  Proof.
    apply ty_ind2.
    - reflexivity.
    - intros ids. cbn [erase_ty render_ty]. rewrite map_map. reflexivity.
    - intros a g it IH. cbn [erase_ty render_ty]. rewrite IH. reflexivity.
    - intros s g fs IH. rewrite erase_struct. cbn [render_ty]. rewrite !fields_render_map, map_map. do 3 f_equal.
      apply map_ext_in. intros f Hf. rewrite Forall_forall in IH. specialize (IH f Hf). unfold render_field, erase_field. cbn [fst snd].
      rewrite IH. destruct (fst f); reflexivity.
  Qed.

  (* C01 on the type grammar: if the token list obtained by lexing the printed text of a well-formed type tree agrees -- with every ">>"
     read as two closing brackets -- with the spelling of the tree (kinds, names; positions are whatever the lexer assigned), then the
     entry point accepts it, returns the tree up to positions, and printing the result gives the same text again *)
  Theorem type_roundtrip : forall t ts, wf_tyb t = true -> same_type_tokens (zspell t ++ [eof_tok])%list (unfuse ts) ->
    exists t' e', parse_type ts = Ok (t', [e']) /\ erase0 t' = erase0 t /\
                  render_ty is_print t' = render_ty is_print t /\
                  sql is_print schema sql_prog prec_table (ty_tree t') = sql is_print schema sql_prog prec_table (ty_tree t).
  Proof.
    intros t ts W ST. destruct (zspell_Tr t W [eof_tok] okK_eof) as (t0 & T & E0).
    destruct (proj1 spelled_types_parse _ _ _ T ltac:(discriminate)) as [f0 Hf]. pose proof (Hf f0 (le_n _)) as P0.
    pose proof (PT_sim (fun b => b) (fun a b H => f_equal to_upper H) f0 _ _ ST) as S. unfold rsimT in S. rewrite P0 in S.
    destruct (PT f0 (unfuse ts)) as [[t1 r1]| | |] eqn:P1; cbn [rsimG] in S; try contradiction. destruct S as [S1 S2].
    rewrite PT_unfuse in P1. destruct (PT f0 ts) as [[t2 r]| | |] eqn:P2; cbn [rmapU] in P1; try discriminate.
    injection P1 as Q1 Q2. subst t2.
    destruct r1 as [|e' [|x y]]; [inversion S2| |inversion S2 as [|? ? ? ? ? TL]; inversion TL].
    inversion S2 as [|? ? ? ? TE _]; subst. apply unfuse_single in Q2. subst r.
    assert (KE : kis e' K_eof = true) by (destruct TE as (A & _); unfold kis; rewrite <- A; reflexivity).
    exists t1, e'. split.
    { unfold parse_type. rewrite (PT_at_entry _ _ _ P2). cbn [bind cur]. rewrite KE. reflexivity. }
    assert (EE : erase0 t1 = erase0 t) by (rewrite <- S1; exact E0).
    split; [exact EE|].
    assert (RR : render_ty is_print t1 = render_ty is_print t) by (rewrite <- (render_erase t1), EE; apply render_erase).
    split; [exact RR|]. rewrite !sql_ty. exact RR.
  Qed.
End Compose.

(* the hypothesis on the tree is decidable; so is same_type_tokens (TypeRespell.same_type_tokensb_ok) *)
Example wf_example : wf_tyb (TArray 0 0 (TStruct 0 0 [(Some (zident (bs "a")), TSimple 0 (bs "INT64")); (None, TNamed [zident (bs "p"); zident (bs "M")])])) = true.
Proof. reflexivity. Qed.
