(* Parse/StmtWellTyped.v -- C04 on the statement family: every node the statement model returns for an accepted statement is well typed with
   respect to the schema REGENERATED from ast/ast.go in every run (each node has exactly the fields of its struct, of the declared kinds;
   node-typed fields hold nil or a node of a type implementing the declared interface; slices hold conforming nodes). *)
From Coq Require Import String.
From Verif Require Import Base.Bytes Tree.Tree Parse.ExprModel Parse.TypeModel Parse.TypeProofs Parse.StmtModel Parse.StmtProofs Gen.Schema.
Local Open Scope string_scope.

Notation WT := (wt schema ifaces).

Ltac tables :=
  repeat match goal with
         | |- context [assoc ?k schema] => let v := eval vm_compute in (assoc k schema) in change (assoc k schema) with v
         end.

Lemma wt_idents ids : forallb (fun x => match x with TNode ty' _ => conforms ifaces "Ident" false ty' && WT x | _ => false end) (map ExprModel.t_ident ids) = true.
Proof. induction ids as [|i r IH]; [reflexivity|]. cbn [map forallb]. rewrite IH. reflexivity. Qed.

(* a child stored in a field (or slice element) of static type [target] *)
Definition okf (target : string) (is_iface : bool) (x : dfield) : bool :=
  match StmtModel.field_tree x with TNode ty' _ => conforms ifaces target is_iface ty' && WT (StmtModel.field_tree x) | _ => false end.

Lemma okf_list target i l : Forall (fun x => okf target i x = true) l ->
  forallb (fun x => match x with TNode ty' _ => conforms ifaces target i ty' && WT x | _ => false end) (map StmtModel.field_tree l) = true.
Proof. induction 1 as [|x r Hx Hr IH]; [reflexivity|]. cbn [map forallb]. rewrite IH. unfold okf in Hx. rewrite Hx. reflexivity. Qed.

(* what a comma-separated list returns: every element satisfies what every item does *)
Section ListAll.
  Context {A : Type} (item : toks -> ExprModel.res (A * toks)) (P : A -> Prop).
  Hypothesis item_P : forall ts x r, item ts = Ok (x, r) -> P x.

  Lemma list_more_all : forall n acc ts l r, Forall P acc -> list_more item n acc ts = Ok (l, r) -> Forall P l.
  Proof.
    induction n as [|n IH]; intros acc ts l r HA; cbn [list_more]; [discriminate|].
    destruct (kis (cur ts) ","); [|intros H; inversion H; subst; exact HA].
    destruct (item (next ts)) as [[x r0]| | |] eqn:E; cbn [bind]; try discriminate.
    apply IH. apply Forall_app. split; [exact HA|]. constructor; [exact (item_P _ _ _ E)|constructor].
  Qed.

  Lemma comma_list_all ts l r : comma_list item ts = Ok (l, r) -> Forall P l.
  Proof.
    unfold comma_list. destruct (item ts) as [[x r0]| | |] eqn:E; cbn [bind]; try discriminate.
    apply list_more_all. constructor; [exact (item_P _ _ _ E)|constructor].
  Qed.
End ListAll.

(* ---------- the fixed-word statements: every row of the two tables ---------- *)
Definition row_wt (r : row) : Prop :=
  forall pos lp ie,
    let pre := FPos pos :: (if r_lastpos r then [FPos lp] else []) ++ (if r_ifexists r then [FBool ie] else []) in
    match r_name r with
    | NoName => WT (dnode_tree (DNode (r_node r) pre)) = true
    | NIdent => forall i, WT (dnode_tree (DNode (r_node r) (pre ++ [FIdent i]))) = true
    | NPath => forall ids, WT (dnode_tree (DNode (r_node r) (pre ++ [FPath ids]))) = true
    end.

Ltac row_solve :=
  intros pos lp ie; cbn; try (intros x); cbn [dnode_tree map StmtModel.field_tree app wt]; tables;
  cbn [wt_fields wt_field conforms String.eqb Ascii.eqb Bool.eqb andb wt]; tables; cbn [wt_fields wt_field andb]; rewrite ?wt_idents; reflexivity.

Lemma rows_wt : Forall row_wt (drop_rows ++ create_rows).
Proof. repeat (constructor; [row_solve|]). constructor. Qed.

Ltac wt_open :=
  cbn [okf dnode_tree map StmtModel.field_tree app wt]; tables; cbn [wt_fields wt_field wt]; tables; cbn [wt_fields wt_field wt]; tables;
  cbn [wt_fields wt_field]; rewrite ?wt_idents.
Ltac wt_solve := wt_open; try reflexivity.

Lemma parse_row_wt pos r ts d r' : row_wt r -> parse_row pos r ts = Ok (d, r') -> WT (dnode_tree d) = true.
Proof.
  intros W. unfold parse_row. destruct (expect_words (r_words r) ts 0) as [[lp a]| | |]; cbn [bind]; try discriminate.
  destruct (if r_ifexists r then if_exists a else Ok (false, a)) as [[ie b]| | |]; cbn [bind]; try discriminate.
  specialize (W pos lp ie). cbv zeta in W. destruct (r_name r).
  - intros H. inversion H; subst. exact W.
  - destruct (parse_ident b) as [[i c]| | |]; cbn [bind]; try discriminate. intros H. inversion H; subst. apply W.
  - destruct (parse_path b) as [[ids c]| | |]; cbn [bind]; try discriminate. intros H. inversion H; subst. apply W.
Qed.

(* ---------- items of the lists ---------- *)
Lemma rename_to_ok ts x r : rename_to ts = Ok (x, r) -> okf "RenameTableTo" false x = true.
Proof.
  unfold rename_to. destruct (parse_ident ts) as [[o a]| | |]; cbn [bind]; try discriminate.
  destruct (expect "TO" a) as [[y b]| | |]; cbn [bind]; try discriminate.
  destruct (parse_ident b) as [[n c]| | |]; cbn [bind]; try discriminate. intros H. inversion H; subst. reflexivity.
Qed.

Lemma with_cols_ok ty (z : Z) ts x r : In ty ["SelectPrivilege"; "InsertPrivilege"; "UpdatePrivilege"] ->
  (do (cr, r0) <- priv_columns ts; let '(cols, rp) := cr in Ok (FSub ty [FPos z; FPos rp; cols], r0)) = Ok (x, r) -> okf "TablePrivilege" true x = true.
Proof.
  intros IN. unfold priv_columns. destruct (kis (cur ts) "(").
  - destruct (comma_list parse_ident (next ts)) as [[cols a]| | |]; cbn [bind]; try discriminate.
    destruct (expect ")" a) as [[rp b]| | |]; cbn [bind]; try discriminate. intros H. inversion H; subst.
    destruct IN as [<-|[<-|[<-|[]]]]; wt_solve.
  - cbn [bind]. intros H. inversion H; subst. destruct IN as [<-|[<-|[<-|[]]]]; reflexivity.
Qed.

Lemma table_privilege_ok ts x r : table_privilege ts = Ok (x, r) -> okf "TablePrivilege" true x = true.
Proof.
  unfold table_privilege. cbv zeta.
  destruct (kis (cur ts) "SELECT"); [apply with_cols_ok; cbn; auto|].
  destruct (is_kwlike (cur ts) "INSERT"); [apply with_cols_ok; cbn; auto|].
  destruct (is_kwlike (cur ts) "UPDATE"); [apply with_cols_ok; cbn; auto|].
  destruct (is_kwlike (cur ts) "DELETE"); [|discriminate]. intros H. inversion H; subst. reflexivity.
Qed.

Lemma privilege_ok ts x r : privilege ts = Ok (x, r) -> okf "Privilege" true x = true.
Proof.
  unfold privilege. cbv zeta.
  destruct (kis (cur ts) "SELECT" && kis (cur (next ts)) "ON" && is_kwlike (cur (next (next ts))) "VIEW").
  { destruct (comma_list parse_ident (next (next (next ts)))) as [[names a]| | |]; cbn [bind]; try discriminate. intros H. inversion H; subst. wt_solve. }
  destruct (is_kwlike (cur ts) "EXECUTE").
  { destruct (expect "ON" (next ts)) as [[x1 a]| | |]; cbn [bind]; try discriminate.
    destruct (expect_kw "TABLE" a) as [[x2 b]| | |]; cbn [bind]; try discriminate.
    destruct (expect_kw "FUNCTION" b) as [[x3 c]| | |]; cbn [bind]; try discriminate.
    destruct (comma_list parse_ident c) as [[names e]| | |]; cbn [bind]; try discriminate. intros H. inversion H; subst. wt_solve. }
  destruct (is_kwlike (cur ts) "ROLE").
  { destruct (comma_list parse_ident (next ts)) as [[names a]| | |]; cbn [bind]; try discriminate. intros H. inversion H; subst. wt_solve. }
  destruct (kis (cur ts) "SELECT" && kis (cur (next ts)) "ON" && is_kwlike (cur (next (next ts))) "CHANGE").
  { destruct (expect_kw "STREAM" (next (next (next ts)))) as [[x1 a]| | |]; cbn [bind]; try discriminate.
    destruct (comma_list parse_ident a) as [[names b]| | |]; cbn [bind]; try discriminate. intros H. inversion H; subst. wt_solve. }
  destruct (comma_list table_privilege ts) as [[privs a]| | |] eqn:E; cbn [bind]; try discriminate.
  destruct (expect "ON" a) as [[x1 b]| | |]; cbn [bind]; try discriminate.
  destruct (expect_kw "TABLE" b) as [[x2 c]| | |]; cbn [bind]; try discriminate.
  destruct (comma_list parse_ident c) as [[names e]| | |]; cbn [bind]; try discriminate. intros H. inversion H; subst.
  pose proof (comma_list_all table_privilege (fun x => okf "TablePrivilege" true x = true) table_privilege_ok _ _ _ E) as F.
  wt_open. rewrite (okf_list "TablePrivilege" true privs F). reflexivity.
Qed.

Lemma named_type_ok ts x r : named_type ts = Ok (x, r) -> okf "NamedType" false x = true.
Proof.
  unfold named_type. destruct (parse_path ts) as [[ids a]| | |]; cbn [bind]; try discriminate. intros H. inversion H; subst. wt_solve.
Qed.

Lemma bundle_types_ok ts x r : bundle_types ts = Ok (x, r) -> okf "ProtoBundleTypes" false x = true.
Proof.
  unfold bundle_types. destruct (expect "(" ts) as [[lp a]| | |]; cbn [bind]; try discriminate.
  destruct (comma_list named_type a) as [[tys b]| | |] eqn:E; cbn [bind]; try discriminate.
  destruct (expect ")" b) as [[rp c]| | |]; cbn [bind]; try discriminate. intros H. inversion H; subst.
  pose proof (comma_list_all named_type (fun x => okf "NamedType" false x = true) named_type_ok _ _ _ E) as F.
  wt_open. rewrite (okf_list "NamedType" false tys F). reflexivity.
Qed.

Lemma bundle_clause_ok kw ty ts x r : In ty ["AlterProtoBundleInsert"; "AlterProtoBundleUpdate"; "AlterProtoBundleDelete"] ->
  bundle_clause kw ty ts = Ok (x, r) -> StmtModel.field_tree x = TNil \/ okf ty false x = true.
Proof.
  intros IN. unfold bundle_clause. destruct (is_kwlike (cur ts) kw); [|intros H; inversion H; subst; left; reflexivity].
  destruct (bundle_types (next ts)) as [[tys a]| | |] eqn:E; cbn [bind]; try discriminate. intros H. inversion H; subst. right.
  pose proof (bundle_types_ok _ _ _ E) as B. unfold okf in B. destruct (StmtModel.field_tree tys) as [| | | | |ty' _| |] eqn:T; try discriminate.
  destruct IN as [<-|[<-|[<-|[]]]]; cbn [okf StmtModel.field_tree map wt]; rewrite T; tables; cbn [wt_fields wt_field conforms String.eqb Ascii.eqb Bool.eqb andb];
    cbn [conforms] in B; rewrite B; reflexivity.
Qed.

Lemma index_alteration_ok ts x r : index_alteration ts = Ok (x, r) -> okf "IndexAlteration" true x = true.
Proof.
  unfold index_alteration. cbv zeta. destruct (is_kwlike (cur ts) "ADD" || is_kwlike (cur ts) "DROP"); [|discriminate].
  destruct (expect_kw "STORED" (next ts)) as [[x1 a]| | |]; cbn [bind]; try discriminate.
  destruct (expect_kw "COLUMN" a) as [[x2 b]| | |]; cbn [bind]; try discriminate.
  destruct (parse_ident b) as [[i c]| | |]; cbn [bind]; try discriminate. intros H. inversion H; subst.
  destruct (is_kwlike (cur ts) "ADD"); reflexivity.
Qed.

Lemma row_in_tables rows t r : find_row rows t = Some r -> Forall row_wt rows -> row_wt r.
Proof. intros F A. rewrite Forall_forall in A. apply A. exact (find_row_in _ _ _ F). Qed.

Lemma okf_field target i x : okf target i x = true ->
  match StmtModel.field_tree x with TNode ty' _ => conforms ifaces target i ty' && WT (StmtModel.field_tree x) | _ => false end = true.
Proof. exact (fun H => H). Qed.

(* the node of every accepted statement of the family is well typed *)
Theorem ddl_body_wt ts d r : ddl_body ts = Some (Ok (d, r)) -> WT (dnode_tree d) = true.
Proof.
  pose proof rows_wt as RW. apply Forall_app in RW as [RD RC].
  unfold ddl_body. destruct (kis (cur ts) "CREATE").
  { destruct (find_row create_rows (cur (next ts))) as [rw|] eqn:FR.
    - intros H. inversion H as [H1]. exact (parse_row_wt _ _ _ _ _ (row_in_tables _ _ _ FR RC) H1).
    - destruct (kis (cur (next ts)) "PROTO"); [|destruct (other_create (cur (next ts))); discriminate].
      unfold parse_create_bundle. destruct (expect "PROTO" (next ts)) as [[x a]| | |]; cbn [bind]; try discriminate.
      destruct (expect_kw "BUNDLE" a) as [[y b]| | |]; cbn [bind]; try discriminate.
      destruct (bundle_types b) as [[tys c]| | |] eqn:E; cbn [bind]; try discriminate. intros H. inversion H; subst.
      pose proof (okf_field _ _ _ (bundle_types_ok _ _ _ E)) as B.
      cbn [dnode_tree map StmtModel.field_tree wt]. tables. cbn [wt_fields wt_field].
      destruct (StmtModel.field_tree tys); try discriminate. rewrite B. reflexivity. }
  destruct (is_kwlike (cur ts) "DROP").
  { destruct (find_row drop_rows (cur (next ts))) as [rw|] eqn:FR; [|discriminate].
    intros H. inversion H as [H1]. exact (parse_row_wt _ _ _ _ _ (row_in_tables _ _ _ FR RD) H1). }
  destruct (is_kwlike (cur ts) "ANALYZE").
  { destruct (expect_kw "ANALYZE" ts) as [[a ts1]| | |]; cbn [bind]; try discriminate. intros H. inversion H; subst. reflexivity. }
  destruct (is_kwlike (cur ts) "RENAME").
  { unfold parse_rename. destruct (expect_kw "TABLE" (next ts)) as [[a ts1]| | |]; cbn [bind]; try discriminate.
    destruct (comma_list rename_to ts1) as [[l ts2]| | |] eqn:E; cbn [bind]; try discriminate. intros H. inversion H; subst.
    pose proof (comma_list_all rename_to (fun x => okf "RenameTableTo" false x = true) rename_to_ok _ _ _ E) as F.
    cbn [dnode_tree map StmtModel.field_tree wt]. tables. cbn [wt_fields wt_field]. rewrite (okf_list "RenameTableTo" false l F). reflexivity. }
  assert (G : forall rv pos ts0, parse_grant rv pos ts0 = Ok (d, r) -> WT (dnode_tree d) = true).
  { intros rv pos ts0. unfold parse_grant. destruct (privilege ts0) as [[pv a]| | |] eqn:E; cbn [bind]; try discriminate.
    destruct (expect (if rv then "FROM" else "TO") a) as [[x b]| | |]; cbn [bind]; try discriminate.
    destruct (expect_kw "ROLE" b) as [[y c]| | |]; cbn [bind]; try discriminate.
    destruct (comma_list parse_ident c) as [[roles e]| | |]; cbn [bind]; try discriminate. intros H. inversion H; subst.
    pose proof (okf_field _ _ _ (privilege_ok _ _ _ E)) as B.
    destruct rv; cbn [dnode_tree map StmtModel.field_tree wt]; tables; cbn [wt_fields wt_field]; rewrite wt_idents;
      destruct (StmtModel.field_tree pv); try discriminate; rewrite B; reflexivity. }
  destruct (is_kwlike (cur ts) "GRANT"); [intros H; inversion H as [H1]; exact (G _ _ _ H1)|].
  destruct (is_kwlike (cur ts) "REVOKE"); [intros H; inversion H as [H1]; exact (G _ _ _ H1)|].
  destruct (is_kwlike (cur ts) "ALTER"); [|discriminate]. cbv zeta.
  destruct (kis (cur (next ts)) "PROTO").
  { unfold parse_alter_bundle. destruct (expect "PROTO" (next ts)) as [[x a]| | |]; cbn [bind]; try discriminate.
    destruct (expect_kw "BUNDLE" a) as [[y b]| | |]; cbn [bind]; try discriminate.
    destruct (bundle_clause "INSERT" "AlterProtoBundleInsert" b) as [[i c]| | |] eqn:E1; cbn [bind]; try discriminate.
    destruct (bundle_clause "UPDATE" "AlterProtoBundleUpdate" c) as [[u e]| | |] eqn:E2; cbn [bind]; try discriminate.
    destruct (bundle_clause "DELETE" "AlterProtoBundleDelete" e) as [[dl f]| | |] eqn:E3; cbn [bind]; try discriminate. intros H. inversion H; subst.
    pose proof (bundle_clause_ok "INSERT" "AlterProtoBundleInsert" _ _ _ (or_introl eq_refl) E1) as B1.
    pose proof (bundle_clause_ok "UPDATE" "AlterProtoBundleUpdate" _ _ _ (or_intror (or_introl eq_refl)) E2) as B2.
    pose proof (bundle_clause_ok "DELETE" "AlterProtoBundleDelete" _ _ _ (or_intror (or_intror (or_introl eq_refl))) E3) as B3.
    cbn [dnode_tree map StmtModel.field_tree wt]. tables. cbn [wt_fields wt_field].
    assert (K : forall ty x, StmtModel.field_tree x = TNil \/ okf ty false x = true ->
                wt_field ifaces WT (KNode ty false) (StmtModel.field_tree x) = true).
    { intros ty x0 [N|O]; [rewrite N; reflexivity|]. unfold okf in O. destruct (StmtModel.field_tree x0); try discriminate. exact O. }
    pose proof (K _ _ B1) as K1. pose proof (K _ _ B2) as K2. pose proof (K _ _ B3) as K3. cbn [wt_field] in K1, K2, K3.
    rewrite K1, K2, K3. reflexivity. }
  destruct (is_kwlike (cur (next ts)) "INDEX").
  { unfold parse_alter_index. destruct (expect_kw "INDEX" (next ts)) as [[x a]| | |]; cbn [bind]; try discriminate.
    destruct (parse_path a) as [[ids b]| | |]; cbn [bind]; try discriminate.
    destruct (index_alteration b) as [[al c]| | |] eqn:E; cbn [bind]; try discriminate. intros H. inversion H; subst.
    pose proof (okf_field _ _ _ (index_alteration_ok _ _ _ E)) as B.
    cbn [dnode_tree map StmtModel.field_tree wt]. tables. cbn [wt_fields wt_field wt]. tables. cbn [wt_fields wt_field]. rewrite wt_idents.
    destruct (StmtModel.field_tree al); try discriminate. rewrite B. reflexivity. }
  destruct (is_kwlike (cur (next ts)) "SEARCH").
  { unfold parse_alter_search_index. destruct (expect_kw "SEARCH" (next ts)) as [[x a]| | |]; cbn [bind]; try discriminate.
    destruct (expect_kw "INDEX" a) as [[y b]| | |]; cbn [bind]; try discriminate.
    destruct (parse_ident b) as [[i c]| | |]; cbn [bind]; try discriminate.
    destruct (index_alteration c) as [[al e]| | |] eqn:E; cbn [bind]; try discriminate. intros H. inversion H; subst.
    pose proof (okf_field _ _ _ (index_alteration_ok _ _ _ E)) as B.
    cbn [dnode_tree map StmtModel.field_tree wt]. tables. cbn [wt_fields wt_field wt]. tables. cbn [wt_fields wt_field].
    destruct (StmtModel.field_tree al); try discriminate. rewrite B. reflexivity. }
  destruct (other_alter (cur (next ts))); discriminate.
Qed.
Print Assumptions ddl_body_wt.

(* Bad nodes: BadDDL { BadNode } and BadStatement { Hint: nil, BadNode } holding tokens *)
Theorem bad_wt lvl p e sk : WT (dnode_tree (DBad lvl p e sk)) = true.
Proof.
  destruct lvl; cbn [dnode_tree wt]; tables; cbn [wt_fields wt_field wt]; tables; cbn [wt_fields wt_field];
    (assert (F : forallb (fun x => match x with TTok _ _ _ _ _ _ => true | _ => false end)
                         (map (fun t => TTok (pk t) (praw t) (pstr t) (ppos t) (pend t) false) sk) = true)
       by (induction sk as [|t r IH]; [reflexivity|exact IH])); rewrite F; reflexivity.
Qed.

(* whatever parseDDL / parseStatement return on the family -- a node or a Bad node -- is well typed *)
Theorem sp_ddl_wt ts d r e : sp_ddl ts = Some (d, r, e) -> WT (dnode_tree d) = true.
Proof.
  unfold sp_ddl. destruct (ddl_body ts) as [[[d0 r0]|p0| |]|] eqn:B; try discriminate.
  - intros H. inversion H; subst. exact (ddl_body_wt _ _ _ B).
  - destruct (sskip ts [] (ppos (cur ts))) as [[sk endp] rest]. intros H. inversion H; subst. apply bad_wt.
  - destruct (sskip ts [] (ppos (cur ts))) as [[sk endp] rest]. intros H. inversion H; subst. apply bad_wt.
  - destruct (sskip ts [] (ppos (cur ts))) as [[sk endp] rest]. intros H. inversion H; subst. apply bad_wt.
Qed.

Theorem sp_stmt_wt ts d r e : sp_stmt ts = Some (d, r, e) -> WT (dnode_tree d) = true.
Proof.
  unfold sp_stmt. destruct (kis (cur ts) "@"); [discriminate|].
  destruct (kis (cur ts) "SELECT" || kis (cur ts) "WITH" || kis (cur ts) "(" || kis (cur ts) "FROM"); [discriminate|].
  destruct (is_kwlike (cur ts) "INSERT" || is_kwlike (cur ts) "DELETE" || is_kwlike (cur ts) "UPDATE"); [discriminate|].
  destruct (kis (cur ts) "CREATE" || is_kwlike (cur ts) "ALTER" || is_kwlike (cur ts) "DROP" || is_kwlike (cur ts) "RENAME" || is_kwlike (cur ts) "GRANT"
            || is_kwlike (cur ts) "REVOKE" || is_kwlike (cur ts) "ANALYZE"); [apply sp_ddl_wt|].
  destruct (is_kwlike (cur ts) "CALL"); [discriminate|].
  destruct (sskip ts [] (ppos (cur ts))) as [[sk endp] rest]. intros H. inversion H; subst. apply bad_wt.
Qed.
