(* Parse/TypeRespell.v -- C16 / C01 on the type grammar: the result of the type parser, up to position values, is a function of the
   token kinds and values only (positions, the letter case of keywords and of builtin type names do not matter); every type tree of
   the grammar, spelled from its shape, parses back to itself up to positions. *)
From Verif Require Import Base.Bytes Tree.Tree Parse.ExprModel Parse.ExprFacts Parse.Respell Parse.TypeModel Parse.TypeProofs.
From Coq Require Import Lia.
Local Open Scope Z_scope.

Section Sim.
  Variable norm : bytes -> bytes.
  Hypothesis norm_fold : forall a b, norm a = norm b -> to_upper a = to_upper b.
  Notation er_ident := (er_ident norm).

  (* two tokens of the same kind; identifiers (quoted or not) with the same name up to norm.  Nothing else of a token is read by the
     type parser: not its position, not its spelling *)
  Definition tsim (t t' : ptok) : Prop := pk t = pk t' /\ (kis t K_ident = true -> norm (pstr t) = norm (pstr t')).
  Definition tssim (ts ts' : toks) : Prop := Forall2 tsim ts ts'.

  Lemma tsim_eof : tsim eof_tok eof_tok.
  Proof. split; [reflexivity|]. intros H. discriminate H. Qed.

  Lemma cur_sim ts ts' : tssim ts ts' -> tsim (cur ts) (cur ts').
  Proof. intros [|t t' r r' H _]; [apply tsim_eof|exact H]. Qed.

  Lemma next_sim ts ts' : tssim ts ts' -> tssim (next ts) (next ts').
  Proof.
    intros H. destruct H as [|t t' r r' H1 H2]; [constructor|].
    destruct H2 as [|u u' q q' H3 H4]; cbn [next].
    - apply Forall2_cons; [exact H1|apply Forall2_nil].
    - apply Forall2_cons; [exact H3|exact H4].
  Qed.

  Lemma kis_sim t t' : tsim t t' -> forall k, kis t k = kis t' k.
  Proof. intros (H & _) k. unfold kis. rewrite H. reflexivity. Qed.

  Lemma is_ident_ci_sim t t' s : tsim t t' -> is_ident_ci t s = is_ident_ci t' s.
  Proof.
    intros H. unfold is_ident_ci. rewrite <- (kis_sim _ _ H). destruct (kis t K_ident) eqn:K; [|reflexivity]. cbn [andb].
    destruct H as (_ & H). specialize (H K). unfold equal_fold_s, equal_fold. rewrite (norm_fold _ _ H). reflexivity.
  Qed.

  Lemma tssim_length ts ts' : tssim ts ts' -> length ts = length ts'.
  Proof. induction 1; cbn; auto. Qed.

  (* forget every position *)
  Fixpoint erase_ty (t : ty) : ty :=
    match t with
    | TSimple _ n => TSimple 0 n
    | TNamed ids => TNamed (map er_ident ids)
    | TArray _ _ it => TArray 0 0 (erase_ty it)
    | TStruct _ _ fs =>
        TStruct 0 0 ((fix go (l : list (option ident * ty)) : list (option ident * ty) :=
                        match l with [] => [] | (oi, x) :: r => (option_map er_ident oi, erase_ty x) :: go r end) fs)
    end.
  Definition erase_field (f : option ident * ty) : option ident * ty := (option_map er_ident (fst f), erase_ty (snd f)).

  Lemma erase_struct a b fs : erase_ty (TStruct a b fs) = TStruct 0 0 (map erase_field fs).
  Proof. cbn [erase_ty]. f_equal. induction fs as [|[oi x] r IH]; [reflexivity|]. cbn [map]. rewrite <- IH. reflexivity. Qed.

  Definition rsimG {A} (eqv : A -> A -> Prop) (r r' : res (A * toks)) : Prop :=
    match r, r' with
    | Ok (a, ts), Ok (a', ts') => eqv a a' /\ tssim ts ts'
    | Err _, Err _ => True
    | Unsup, Unsup => True
    | Fuel, Fuel => True
    | _, _ => False
    end.
  Definition rsimT := rsimG (fun t t' => erase_ty t = erase_ty t').

  Lemma simple_name_sim t t' : tsim t t' -> simple_name t = simple_name t'.
  Proof.
    intros H. unfold simple_name. induction simple_types as [|n r IH]; [reflexivity|]. cbn [find_simple].
    rewrite (is_ident_ci_sim _ _ n H), IH. reflexivity.
  Qed.

  Lemma type_start_sim t t' : tsim t t' -> type_start t = type_start t'.
  Proof. intros H. unfold type_start. rewrite !(kis_sim _ _ H). reflexivity. Qed.

  Lemma er_ident_sim t t' : tsim t t' -> kis t K_ident = true -> er_ident (mk_ident t) = er_ident (mk_ident t').
  Proof.
    intros H K. unfold Respell.er_ident, mk_ident. cbn [id_name]. destruct H as (_ & H). rewrite (H K). reflexivity.
  Qed.

  Lemma expect_sim k ts ts' : tssim ts ts' -> rsimG (fun t t' => tsim t t') (expect k ts) (expect k ts').
  Proof.
    intros H. unfold expect. rewrite (kis_sim _ _ (cur_sim _ _ H)). destruct (kis (cur ts') k); cbn [rsimG]; [|exact I].
    split; [apply cur_sim, H|apply next_sim, H].
  Qed.

  Lemma half_gt_sim t t' : tsim (half_gt t) (half_gt t').
  Proof. split; [reflexivity|]. intros H. discriminate H. Qed.

  Lemma set_cur_sim x x' ts ts' : tsim x x' -> tssim ts ts' -> tssim (set_cur x ts) (set_cur x' ts').
  Proof. intros H T. destruct T as [|t t' r r' H1 H2]; [constructor|]. cbn [set_cur]. constructor; auto. Qed.

  Lemma close_angle_sim ts ts' : tssim ts ts' -> rsimG (fun _ _ => True) (close_angle ts) (close_angle ts').
  Proof.
    intros H. unfold close_angle. pose proof (cur_sim _ _ H) as C. rewrite <- (kis_sim _ _ C ">>").
    destruct (kis (cur ts) ">>") eqn:G.
    - cbn [rsimG]. split; [exact I|]. apply set_cur_sim; [apply half_gt_sim|exact H].
    - pose proof (expect_sim ">" ts ts' H) as E. destruct (expect ">" ts) as [[t r]| | |], (expect ">" ts') as [[t' r']| | |]; cbn [rsimG bind] in *; try contradiction; auto.
      destruct E as [_ E]. auto.
  Qed.

  Lemma path_more_sim : forall n acc acc' ts ts', map er_ident acc = map er_ident acc' -> tssim ts ts' ->
    rsimG (fun a a' => map er_ident a = map er_ident a') (path_more n acc ts) (path_more n acc' ts').
  Proof.
    induction n as [|n IH]; intros acc acc' ts ts' A H; [exact I|]. cbn [path_more].
    rewrite (kis_sim _ _ (cur_sim _ _ H)). destruct (kis (cur ts') "."); [|cbn [rsimG]; auto].
    pose proof (next_sim _ _ H) as H1. unfold parse_ident.
    pose proof (expect_sim K_ident _ _ H1) as E. pose proof (cur_sim _ _ H1) as C1.
    unfold expect in *. rewrite <- (kis_sim _ _ C1 K_ident) in *.
    destruct (kis (cur (next ts)) K_ident) eqn:KI; cbn [bind rsimG] in *; [|exact I].
    apply IH; [|apply next_sim, H1]. rewrite !map_app. cbn [map]. rewrite A, (er_ident_sim _ _ C1 KI). reflexivity.
  Qed.

  Definition RrecT (pt pt' : toks -> res (ty * toks)) : Prop := forall ts ts', tssim ts ts' -> rsimT (pt ts) (pt' ts').

  Lemma pfield_sim pt pt' ts ts' : RrecT pt pt' -> tssim ts ts' ->
    rsimG (fun f f' => erase_field f = erase_field f') (pfield pt ts) (pfield pt' ts').
  Proof.
    intros R H. unfold pfield. pose proof (cur_sim _ _ H) as C. pose proof (next_sim _ _ H) as H1.
    rewrite <- (kis_sim _ _ C K_ident), <- (type_start_sim _ _ (cur_sim _ _ H1)).
    destruct (kis (cur ts) K_ident && type_start (cur (next ts))) eqn:B.
    - specialize (R _ _ H1). unfold rsimT in R. destruct (pt (next ts)) as [[t r]| | |], (pt' (next ts')) as [[t' r']| | |]; cbn [rsimG bind] in *; try contradiction; auto.
      destruct R as [R1 R2]. split; [|exact R2]. unfold erase_field. cbn [fst snd option_map]. rewrite R1.
      apply andb_true_iff in B as [B _]. rewrite (er_ident_sim _ _ C B). reflexivity.
    - specialize (R _ _ H). unfold rsimT in R. destruct (pt ts) as [[t r]| | |], (pt' ts') as [[t' r']| | |]; cbn [rsimG bind] in *; try contradiction; auto.
      destruct R as [R1 R2]. split; [|exact R2]. unfold erase_field. cbn [fst snd option_map]. rewrite R1. reflexivity.
  Qed.

  Lemma fields_more_sim pt pt' : RrecT pt pt' -> forall n acc acc' ts ts', map erase_field acc = map erase_field acc' -> tssim ts ts' ->
    rsimG (fun a a' => map erase_field a = map erase_field a') (fields_more pt n acc ts) (fields_more pt' n acc' ts').
  Proof.
    intros R. induction n as [|n IH]; intros acc acc' ts ts' A H; [exact I|]. cbn [fields_more].
    rewrite (kis_sim _ _ (cur_sim _ _ H)). destruct (kis (cur ts') ","); [|cbn [rsimG]; auto].
    pose proof (pfield_sim pt pt' _ _ R (next_sim _ _ H)) as P.
    destruct (pfield pt (next ts)) as [[fl r]| | |], (pfield pt' (next ts')) as [[fl' r']| | |]; cbn [rsimG bind] in *; try contradiction; auto.
    destruct P as [P1 P2]. apply IH; [|exact P2]. rewrite !map_app. cbn [map]. rewrite A, P1. reflexivity.
  Qed.

  Lemma tstep_sim pt pt' n : RrecT pt pt' -> RrecT (tstep pt n) (tstep pt' n).
  Proof.
    intros R ts ts' H. unfold tstep, rsimT. pose proof (cur_sim _ _ H) as C. pose proof (next_sim _ _ H) as H1. pose proof (next_sim _ _ H1) as H2.
    rewrite <- !(kis_sim _ _ C). rewrite <- (simple_name_sim _ _ C).
    destruct (kis (cur ts) K_ident) eqn:KI.
    { destruct (simple_name (cur ts)); [cbn [rsimG erase_ty]; auto|].
      assert (A : map er_ident [mk_ident (cur ts)] = map er_ident [mk_ident (cur ts')]) by (cbn [map]; rewrite (er_ident_sim _ _ C KI); reflexivity).
      pose proof (path_more_sim n _ _ _ _ A H1) as P.
      destruct (path_more n [mk_ident (cur ts)] (next ts)) as [[ids r]| | |], (path_more n [mk_ident (cur ts')] (next ts')) as [[ids' r']| | |];
        cbn [rsimG bind] in *; try contradiction; auto.
      destruct P as [P1 P2]. cbn [erase_ty]. rewrite P1. auto. }
    destruct (kis (cur ts) "ARRAY").
    { pose proof (expect_sim "<" _ _ H1) as E.
      destruct (expect "<" (next ts)) as [[x ts1]| | |], (expect "<" (next ts')) as [[x' ts1']| | |]; cbn [rsimG bind] in *; try contradiction; auto.
      destruct E as [_ E]. specialize (R _ _ E). unfold rsimT in R.
      destruct (pt ts1) as [[it ts2]| | |], (pt' ts1') as [[it' ts2']| | |]; cbn [rsimG bind] in *; try contradiction; auto.
      destruct R as [R1 R2]. pose proof (close_angle_sim _ _ R2) as Q.
      destruct (close_angle ts2) as [[g ts3]| | |], (close_angle ts2') as [[g' ts3']| | |]; cbn [rsimG bind] in *; try contradiction; auto.
      destruct Q as [_ Q]. cbn [erase_ty]. rewrite R1. auto. }
    destruct (kis (cur ts) "STRUCT"); [|cbn [rsimG]; exact I].
    pose proof (cur_sim _ _ H1) as C1. rewrite <- !(kis_sim _ _ C1).
    destruct (kis (cur (next ts)) "<>"); [cbn [rsimG]; split; [rewrite !erase_struct; reflexivity|apply next_sim, H1]|].
    destruct (negb (kis (cur (next ts)) "<")); [cbn [rsimG]; exact I|].
    pose proof (cur_sim _ _ H2) as C2. rewrite <- !(kis_sim _ _ C2).
    destruct (kis (cur (next (next ts))) ">" || kis (cur (next (next ts))) ">>").
    - cbn [bind]. pose proof (close_angle_sim _ _ H2) as Q.
      destruct (close_angle (next (next ts))) as [[g ts4]| | |], (close_angle (next (next ts'))) as [[g' ts4']| | |]; cbn [rsimG bind] in *; try contradiction; auto.
      destruct Q as [_ Q]. rewrite !erase_struct. auto.
    - pose proof (pfield_sim pt pt' _ _ R H2) as P.
      destruct (pfield pt (next (next ts))) as [[f1 ts3]| | |], (pfield pt' (next (next ts'))) as [[f1' ts3']| | |]; cbn [rsimG bind] in *; try contradiction; auto.
      destruct P as [P1 P2].
      assert (A : map erase_field [f1] = map erase_field [f1']) by (cbn [map]; rewrite P1; reflexivity).
      pose proof (fields_more_sim pt pt' R n _ _ _ _ A P2) as F.
      destruct (fields_more pt n [f1] ts3) as [[fs ts4]| | |], (fields_more pt' n [f1'] ts3') as [[fs' ts4']| | |]; cbn [rsimG bind] in *; try contradiction; auto.
      destruct F as [F1 F2]. pose proof (close_angle_sim _ _ F2) as Q.
      destruct (close_angle ts4) as [[g ts5]| | |], (close_angle ts4') as [[g' ts5']| | |]; cbn [rsimG bind] in *; try contradiction; auto.
      destruct Q as [_ Q]. rewrite !erase_struct, F1. auto.
  Qed.

  Theorem PT_sim : forall f, RrecT (PT f) (PT f).
  Proof. induction f as [|f IH]; intros ts ts' H; [exact I|]. cbn [PT]. apply tstep_sim; auto. Qed.

  (* the entry point: same verdict, same tree up to positions *)
  Theorem parse_type_sim ts ts' : tssim ts ts' -> rsimT (parse_type ts) (parse_type ts').
  Proof.
    intros H. unfold parse_type, type_fuel. rewrite (tssim_length _ _ H). set (F := (2 * length ts' + 2)%nat).
    pose proof (PT_sim F ts ts' H) as S. unfold rsimT in *.
    destruct (PT F ts) as [[t r]| | |], (PT F ts') as [[t' r']| | |]; cbn [rsimG bind] in *; try contradiction; auto.
    destruct S as [S1 S2]. rewrite (kis_sim _ _ (cur_sim _ _ S2)). destruct (kis (cur r') K_eof); cbn [rsimG]; auto.
  Qed.
End Sim.

(* decidable version of the token relation at norm = identity, for the correspondence runs *)
Definition tsimTb (t t' : ptok) : bool := bytes_eqb (pk t) (pk t') && (negb (kis t K_ident) || bytes_eqb (pstr t) (pstr t')).
Fixpoint same_type_tokensb (a b : toks) : bool :=
  match a, b with
  | [], [] => true
  | x :: a', y :: b' => tsimTb x y && same_type_tokensb a' b'
  | _, _ => false
  end.
Definition same_type_tokens : toks -> toks -> Prop := tssim (fun b => b).

Lemma same_type_tokensb_ok : forall a b, same_type_tokensb a b = true -> same_type_tokens a b.
Proof.
  induction a as [|x a IH]; intros [|y b] H; try discriminate; [constructor|].
  cbn [same_type_tokensb] in H. apply andb_true_iff in H as [H1 H2]. constructor; [|apply IH, H2].
  unfold tsimTb in H1. apply andb_true_iff in H1 as [A B]. apply bytes_eqb_eq in A. split; [exact A|].
  intros K. rewrite K in B. cbn [negb orb] in B. apply bytes_eqb_eq in B. exact B.
Qed.
