(* Parse/TypeSpan.v -- positions of type nodes (C05 / C06 on the type grammar): for every sentence of the grammar Tr whose tokens are laid
   out like lexer output, the tree starts at its first token, ends no later than the next token starts, every child lies strictly
   inside its parent and siblings are ordered without overlap. *)
From Verif Require Import Base.Bytes Tree.Tree Parse.ExprModel Parse.TypeModel Parse.TypeProofs.
From Coq Require Import Lia.
Local Open Scope Z_scope.

(* tokens in source order, without overlap; every token but the last one of the list is non-empty *)
Inductive chain : toks -> Prop :=
| ch0 : chain []
| ch1 t : chain [t]
| ch2 t u r : ppos t < pend t -> pend t <= ppos u -> chain (u :: r) -> chain (t :: u :: r).

(* what the node formulas assume about the extent of two kinds of token: a builtin type name covers at least its letters (exactly,
   unless it is back-quoted), "<>" covers two bytes *)
Definition tok_ok (t : ptok) : Prop :=
  (forall nm, simple_name t = Some nm -> ppos t + Z.of_nat (length nm) <= pend t) /\ (kis t "<>" = true -> ppos t + 2 <= pend t).
Definition toks_ok (ts : toks) : Prop := Forall tok_ok ts.

Lemma chain_cons t K : chain (t :: K) -> K <> [] -> ppos t < pend t /\ pend t <= ppos (cur K) /\ chain K.
Proof. intros H NE. inversion H; subst; [congruence|]. cbn [cur]. auto. Qed.

Lemma toks_ok_tl t K : toks_ok (t :: K) -> tok_ok t /\ toks_ok K.
Proof. intros H. inversion H; auto. Qed.

(* ---------- well-spanned trees ---------- *)
Fixpoint wpath (lo : Z) (ids : list ident) : Prop :=
  match ids with [] => True | i :: r => lo <= id_pos i /\ id_pos i < id_end i /\ wpath (id_end i) r end.

Definition fpos (f : option ident * ty) : Z := match fst f with Some i => id_pos i | None => ty_pos (snd f) end.

Fixpoint wspan (t : ty) : Prop :=
  ty_pos t < ty_end t /\
  match t with
  | TSimple _ _ => True
  | TNamed ids => match ids with [] => False | i :: r => id_pos i < id_end i /\ wpath (id_end i) r end
  | TArray a g it => a < ty_pos it /\ ty_end it <= g /\ wspan it
  | TStruct s g fs =>
      s < g /\
      (fix go (lo : Z) (l : list (option ident * ty)) : Prop :=
         match l with
         | [] => lo <= g
         | (oi, x) :: r =>
             lo <= fpos (oi, x) /\ match oi with Some i => id_pos i < id_end i /\ id_end i <= ty_pos x | None => True end /\ wspan x /\ go (ty_end x) r
         end) (s + 1) fs
  end.

Definition wfield (f : option ident * ty) : Prop :=
  match fst f with Some i => id_pos i < id_end i /\ id_end i <= ty_pos (snd f) | None => True end /\ wspan (snd f).

Fixpoint wfields (lo : Z) (fs : list (option ident * ty)) (hi : Z) : Prop :=
  match fs with
  | [] => lo <= hi
  | f :: r => lo <= fpos f /\ wfield f /\ wfields (ty_end (snd f)) r hi
  end.

Lemma wspan_struct s g fs : wspan (TStruct s g fs) <-> (s < g + 1 /\ s < g /\ wfields (s + 1) fs g).
Proof.
  cbn [wspan ty_pos ty_end]. 
  assert (E : forall lo, (fix go (lo : Z) (l : list (option ident * ty)) : Prop :=
         match l with
         | [] => lo <= g
         | (oi, x) :: r =>
             lo <= fpos (oi, x) /\ match oi with Some i => id_pos i < id_end i /\ id_end i <= ty_pos x | None => True end /\ wspan x /\ go (ty_end x) r
         end) lo fs <-> wfields lo fs g).
  { induction fs as [|[oi x] r IH]; intros lo; [reflexivity|]. cbn [wfields]. unfold wfield. cbn [fst snd]. rewrite <- IH. tauto. }
  rewrite E. tauto.
Qed.

Lemma last_end_ge : forall ids d, wpath d ids -> d <= last_end d ids.
Proof.
  induction ids as [|i r IH]; intros d H; cbn [last_end]; [lia|]. destruct H as (A & B & C). specialize (IH _ C). lia.
Qed.

Lemma simple_name_nonempty t nm : simple_name t = Some nm -> (0 < length nm)%nat.
Proof.
  unfold simple_name, simple_types. cbn [find_simple].
  repeat (destruct (is_ident_ci t _); [intros H; inversion H; cbn; lia|]). discriminate.
Qed.

Lemma wspan_lt t : wspan t -> ty_pos t < ty_end t.
Proof. destruct t; cbn [wspan]; tauto. Qed.

Lemma wfield_lt f : wfield f -> fpos f < ty_end (snd f).
Proof.
  unfold wfield, fpos. destruct f as [[i|] x]; cbn [fst snd]; intros [A B]; pose proof (wspan_lt _ B); lia.
Qed.

Lemma wfields_le : forall fs lo hi, wfields lo fs hi -> lo <= hi.
Proof.
  induction fs as [|f r IH]; intros lo hi H; cbn [wfields] in H; [exact H|].
  destruct H as (A & B & C). pose proof (wfield_lt _ B). specialize (IH _ _ C). lia.
Qed.

(* ---------- the theorem ---------- *)
Definition S_path (ids : list ident) (ts K : toks) : Prop :=
  K <> [] -> chain ts -> toks_ok ts -> forall d, d <= ppos (cur ts) -> wpath d ids /\ last_end d ids <= ppos (cur K) /\ chain K /\ toks_ok K.

Lemma path_span : forall ids ts K, TrPath ids ts K -> S_path ids ts K.
Proof.
  induction 1 as [K|dt i ts K ids Hd Hi H IH]; intros NE C O d L.
  - cbn [wpath last_end]. repeat split; auto.
  - assert (N1 : ts <> []) by (eapply TrPath_nonempty; eauto).
    destruct (chain_cons _ _ C ltac:(discriminate)) as (A1 & A2 & C1). cbn [cur] in A2.
    destruct (chain_cons _ _ C1 N1) as (B1 & B2 & C2).
    destruct (toks_ok_tl _ _ O) as [_ O1]. destruct (toks_ok_tl _ _ O1) as [_ O2].
    destruct (IH NE C2 O2 (pend i) B2) as (W & LE & CK & OK). cbn [wpath last_end mk_ident id_pos id_end].
    cbn [cur] in L. repeat split; auto; try lia.
Qed.

Definition S_ty (t : ty) (ts K : toks) : Prop :=
  K <> [] -> chain ts -> toks_ok ts -> ty_pos t = ppos (cur ts) /\ ty_end t <= ppos (cur K) /\ wspan t /\ chain K /\ toks_ok K.
Definition S_field (f : option ident * ty) (ts K : toks) : Prop :=
  K <> [] -> chain ts -> toks_ok ts -> fpos f = ppos (cur ts) /\ ty_end (snd f) <= ppos (cur K) /\ wfield f /\ chain K /\ toks_ok K.
Definition S_more (fs : list (option ident * ty)) (ts K : toks) : Prop :=
  K <> [] -> chain ts -> toks_ok ts -> forall lo, lo <= ppos (cur ts) -> wfields lo fs (ppos (cur K)) /\ chain K /\ toks_ok K.

Theorem type_span :
  (forall t ts K, Tr t ts K -> S_ty t ts K) /\ (forall f ts K, TrField f ts K -> S_field f ts K) /\ (forall fs ts K, TrMore fs ts K -> S_more fs ts K).
Proof.
  apply Tr_mutind.
  - (* simple *)
    intros t K nm A B NE C O. destruct (chain_cons _ _ C NE) as (A1 & A2 & CK). destruct (toks_ok_tl _ _ O) as [[O1 _] OK].
    pose proof (O1 nm B) as L1. pose proof (simple_name_nonempty t nm B) as L2.
    cbn [ty_pos ty_end wspan cur]. repeat split; auto; lia.
  - (* named *)
    intros t ts K ids A B HP ND NE C O. assert (N1 : ts <> []) by (eapply TrPath_nonempty; eauto).
    destruct (chain_cons _ _ C N1) as (A1 & A2 & C1). destruct (toks_ok_tl _ _ O) as [_ O1].
    destruct (path_span ids ts K HP NE C1 O1 (pend t) A2) as (W & LE & CK & OK).
    pose proof (last_end_ge ids (pend t) W) as GE.
    unfold last_ident_end. cbn [ty_pos ty_end wspan cur last_end mk_ident id_pos id_end]. unfold last_ident_end. cbn [last_end mk_ident id_end].
    repeat split; auto; try lia.
  - (* array *)
    intros a lt ts g K it A B HS IH G NE C O. assert (N1 : ts <> []) by (apply (proj1 Tr_nonempty _ _ _ HS)).
    destruct (chain_cons _ _ C ltac:(discriminate)) as (A1 & A2 & C1). cbn [cur] in A2.
    destruct (chain_cons _ _ C1 N1) as (B1 & B2 & C2).
    destruct (toks_ok_tl _ _ O) as [_ O1]. destruct (toks_ok_tl _ _ O1) as [_ O2].
    destruct (IH ltac:(discriminate) C2 O2) as (P1 & E1 & W1 & CG & OG). cbn [cur] in E1.
    destruct (chain_cons _ _ CG NE) as (G1 & G2 & CK). destruct (toks_ok_tl _ _ OG) as [_ OK].
    pose proof (wspan_lt _ W1) as LT1. cbn [ty_pos ty_end wspan cur]. repeat split; auto; lia.
  - (* STRUCT<> *)
    intros s e K A B NE C O.
    destruct (chain_cons _ _ C ltac:(discriminate)) as (A1 & A2 & C1). cbn [cur] in A2.
    destruct (chain_cons _ _ C1 NE) as (B1 & B2 & CK).
    destruct (toks_ok_tl _ _ O) as [_ O1]. destruct (toks_ok_tl _ _ O1) as [[_ OE] OK]. specialize (OE B).
    split; [reflexivity|]. split; [cbn [ty_end]; lia|]. split; [|auto]. apply wspan_struct. cbn [wfields]. lia.
  - (* STRUCT< > *)
    intros s lt g K A B G NE C O.
    destruct (chain_cons _ _ C ltac:(discriminate)) as (A1 & A2 & C1). cbn [cur] in A2.
    destruct (chain_cons _ _ C1 ltac:(discriminate)) as (B1 & B2 & C2). cbn [cur] in B2.
    destruct (chain_cons _ _ C2 NE) as (G1 & G2 & CK).
    destruct (toks_ok_tl _ _ O) as [_ O1]. destruct (toks_ok_tl _ _ O1) as [_ O2]. destruct (toks_ok_tl _ _ O2) as [_ OK].
    split; [reflexivity|]. split; [cbn [ty_end]; lia|]. split; [|auto]. apply wspan_struct. cbn [wfields]. lia.
  - (* STRUCT< f1, ... > *)
    intros s lt ts ts1 g K f1 fs A B HF IHF HM IHM G NE C O.
    assert (N1 : ts1 <> []) by (apply (proj2 (proj2 Tr_nonempty) _ _ _ HM); discriminate).
    assert (N0 : ts <> []) by (apply (proj1 (proj2 Tr_nonempty) _ _ _ HF N1)).
    destruct (chain_cons _ _ C ltac:(discriminate)) as (A1 & A2 & C1). cbn [cur] in A2.
    destruct (chain_cons _ _ C1 N0) as (B1 & B2 & C2).
    destruct (toks_ok_tl _ _ O) as [_ O1]. destruct (toks_ok_tl _ _ O1) as [_ O2].
    destruct (IHF N1 C2 O2) as (P1 & E1 & W1 & C3 & O3).
    destruct (IHM ltac:(discriminate) C3 O3 (ty_end (snd f1)) E1) as (WM & CG & OG). cbn [cur] in WM.
    destruct (chain_cons _ _ CG NE) as (G1 & G2 & CK). destruct (toks_ok_tl _ _ OG) as [_ OK].
    pose proof (wfields_le _ _ _ WM) as LE. pose proof (wfield_lt _ W1) as LT.
    split; [reflexivity|]. split; [cbn [ty_end]; lia|]. split; [|auto]. apply wspan_struct. cbn [wfields]. split; [lia|]. split; [lia|]. split; [lia|]. split; [exact W1|exact WM].
  - (* field with a name *)
    intros n ts K t A TS HS IH NE C O. assert (N1 : ts <> []) by (apply (proj1 Tr_nonempty _ _ _ HS)).
    destruct (chain_cons _ _ C N1) as (A1 & A2 & C1). destruct (toks_ok_tl _ _ O) as [_ O1].
    destruct (IH NE C1 O1) as (P1 & E1 & W1 & CK & OK).
    unfold fpos, wfield. cbn [fst snd cur mk_ident id_pos id_end]. repeat split; auto; lia.
  - (* field without a name *)
    intros ts K t HS IH Cn NE C O. destruct (IH NE C O) as (P1 & E1 & W1 & CK & OK).
    unfold fpos, wfield. cbn [fst snd]. repeat split; auto.
  - (* no further field *)
    intros K NE C O lo L. cbn [wfields]. auto.
  - (* , field ... *)
    intros c ts ts1 K f1 fs Cm HF IHF HM IHM NE C O lo L.
    assert (N1 : ts1 <> []) by (apply (proj2 (proj2 Tr_nonempty) _ _ _ HM NE)).
    assert (N0 : ts <> []) by (apply (proj1 (proj2 Tr_nonempty) _ _ _ HF N1)).
    destruct (chain_cons _ _ C N0) as (A1 & A2 & C1). destruct (toks_ok_tl _ _ O) as [_ O1]. cbn [cur] in L.
    destruct (IHF N1 C1 O1) as (P1 & E1 & W1 & C2 & O2).
    destruct (IHM NE C2 O2 (ty_end (snd f1)) E1) as (WM & CK & OK).
    cbn [wfields]. split; [split; [lia|split; [exact W1|exact WM]]|auto].
Qed.

(* ---------- lexer output: ">>" tokens cover two bytes ---------- *)
Definition gtgt_ok (ts : toks) : Prop := Forall (fun t => kis t ">>" = true -> pend t = ppos t + 2) ts.

Lemma unfuse_head u r : exists x rest, unfuse (u :: r) = x :: rest /\ ppos x = ppos u.
Proof. cbn [unfuse]. destruct (kis u ">>"); eexists _, _; split; reflexivity. Qed.

Lemma chain_unfuse : forall ts, chain ts -> gtgt_ok ts -> chain (unfuse ts).
Proof.
  induction 1 as [|t|t u r A B C IH]; intros G.
  - constructor.
  - cbn [unfuse]. destruct (kis t ">>") eqn:K; [|constructor]. inversion G as [|? ? Gt _]; subst. specialize (Gt K).
    apply ch2; cbn [first_half half_gt ppos pend]; [lia|lia|constructor].
  - inversion G as [|? ? Gt Gr]; subst. specialize (IH Gr). destruct (unfuse_head u r) as (x & rest & E & Px). rewrite E in IH.
    change (unfuse (t :: u :: r)) with (if kis t ">>" then first_half t :: half_gt t :: unfuse (u :: r) else t :: unfuse (u :: r)). rewrite E.
    destruct (kis t ">>") eqn:K.
    + specialize (Gt eq_refl). apply ch2; cbn [first_half half_gt ppos pend]; [lia|lia|]. apply ch2; cbn [half_gt ppos pend]; [lia|lia|exact IH].
    + apply ch2; [exact A|lia|exact IH].
Qed.

Lemma toks_ok_unfuse : forall ts, toks_ok ts -> toks_ok (unfuse ts).
Proof.
  induction 1 as [|t r Ht Hr IH]; [constructor|]. cbn [unfuse]. destruct (kis t ">>").
  - constructor; [split; [intros nm H; discriminate H|intros H; discriminate H]|].
    constructor; [split; [intros nm H; discriminate H|intros H; discriminate H]|exact IH].
  - constructor; [exact Ht|exact IH].
Qed.

(* C05 on the type grammar: whatever ParseType's model accepts from a token list laid out like lexer output is a tree that starts at
   the first token, ends before the token that follows it, and is well spanned: every child strictly inside its parent, siblings in
   source order without overlap, every identifier and type non-empty *)
Theorem parse_type_span : forall ts t r, last_eof ts -> chain ts -> toks_ok ts -> gtgt_ok ts -> parse_type ts = Ok (t, r) ->
  ty_pos t = ppos (cur ts) /\ ty_end t <= ppos (cur r) /\ wspan t.
Proof.
  intros ts t r L C O G H. unfold parse_type in H.
  destruct (PT (type_fuel ts) ts) as [[t' r']| | |] eqn:EQ; cbn [bind] in H; try discriminate.
  destruct (kis (cur r') K_eof); inversion H; subst.
  assert (EU : PT (type_fuel ts) (unfuse ts) = Ok (t, unfuse r)) by (rewrite PT_unfuse, EQ; reflexivity).
  destruct (parsed_types_are_spelled _ _ _ _ EU (plain_unfuse ts) (last_eof_unfuse ts L)) as (T & _ & LK).
  assert (NE : unfuse r <> []) by (destruct LK as (pre & e & E & _); rewrite E; destruct pre; discriminate).
  destruct (proj1 type_span _ _ _ T NE (chain_unfuse _ C G) (toks_ok_unfuse _ O)) as (P1 & E1 & W & _).
  rewrite ppos_cur_unfuse in P1, E1. auto.
Qed.

(* the hypotheses are decidable: they are evaluated on every token list of the correspondence runs *)
Fixpoint chainb (ts : toks) : bool :=
  match ts with
  | t :: ((u :: _) as r) => Z.ltb (ppos t) (pend t) && Z.leb (pend t) (ppos u) && chainb r
  | _ => true
  end.
Definition tok_okb (t : ptok) : bool :=
  match simple_name t with Some nm => Z.leb (ppos t + Z.of_nat (length nm)) (pend t) | None => true end
  && (if kis t "<>" then Z.leb (ppos t + 2) (pend t) else true)
  && (if kis t ">>" then Z.eqb (pend t) (ppos t + 2) else true).
Definition type_input_okb (ts : toks) : bool := chainb ts && forallb tok_okb ts.

Lemma chainb_ok : forall ts, chainb ts = true -> chain ts.
Proof.
  induction ts as [|t [|u r] IH]; intros H; [constructor|constructor|].
  cbn [chainb] in H. apply andb_true_iff in H as [H H3]. apply andb_true_iff in H as [H1 H2].
  apply Z.ltb_lt in H1. apply Z.leb_le in H2. apply ch2; auto.
Qed.

Theorem type_input_okb_ok ts : type_input_okb ts = true -> chain ts /\ toks_ok ts /\ gtgt_ok ts.
Proof.
  unfold type_input_okb. intros H. apply andb_true_iff in H as [H1 H2]. split; [apply chainb_ok, H1|].
  rewrite forallb_forall in H2. split; apply Forall_forall; intros t Ht; specialize (H2 t Ht); unfold tok_okb in H2;
    apply andb_true_iff in H2 as [H2 H5]; apply andb_true_iff in H2 as [H3 H4].
  - split.
    + intros nm E. rewrite E in H3. apply Z.leb_le in H3. exact H3.
    + intros E. rewrite E in H4. apply Z.leb_le in H4. exact H4.
  - intros E. rewrite E in H5. apply Z.eqb_eq in H5. exact H5.
Qed.

