(* Parse/WellTyped.v -- C04 on the modelled parts of the parser: every tree the expression-fragment model and the type models can
   return is well typed with respect to the schema REGENERATED from ast/ast.go in every run (every node has exactly the fields of its
   struct, of the declared kinds; node-typed fields hold nil or a node of a type implementing the declared interface).  With the totality
   theorems on well-typed trees (SQL(), Pos(), End(), Walk never panic) this closes C04 on these parts. *)
From Verif Require Import Base.Bytes Tree.Tree Parse.ExprModel Parse.Span Parse.TypeModel Parse.TypeRecover Parse.TypeRender Gen.Schema.
Local Open Scope string_scope.

Notation WT := (wt schema ifaces).

Ltac tables :=
  repeat match goal with
         | |- context [assoc ?k schema] => let v := eval vm_compute in (assoc k schema) in change (assoc k schema) with v
         end.

Lemma wt_ident i : WT (ExprModel.t_ident i) = true.
Proof. reflexivity. Qed.

Lemma wt_idents ids : forallb (fun x => match x with TNode ty' _ => conforms ifaces "Ident" false ty' && WT x | _ => false end) (map ExprModel.t_ident ids) = true.
Proof. induction ids as [|i r IH]; [reflexivity|]. cbn [map forallb]. rewrite IH. reflexivity. Qed.

Lemma ty_conforms t : exists ty fs, ty_tree t = TNode ty fs /\ conforms ifaces "Type" true ty = true.
Proof. destruct t; cbn [ty_tree]; eexists _, _; split; reflexivity. Qed.

Lemma wt_field_tree f : WT (ty_tree (snd f)) = true -> WT (field_tree f) = true.
Proof.
  intros H. destruct f as [[i|] x]; unfold field_tree; cbn [fst snd] in *; destruct (ty_conforms x) as (ty & fs & E & C); rewrite E in *;
    cbn [wt]; tables; cbn [wt_fields wt_field]; unfold ExprModel.t_ident; cbn [wt_fields wt_field]; rewrite C, H; reflexivity.
Qed.

Theorem wt_ty : forall t, WT (ty_tree t) = true.
Proof.
  apply ty_ind'.
  - intros p n. reflexivity.
  - intros ids. cbn [ty_tree wt]. tables. cbn [wt_fields wt_field]. rewrite wt_idents. reflexivity.
  - intros a g it IH. cbn [ty_tree wt]. tables. cbn [wt_fields wt_field]. destruct (ty_conforms it) as (ty & fs & E & C). rewrite E in *.
    rewrite C, IH. reflexivity.
  - intros s g fs IH. cbn [ty_tree]. rewrite fields_tree_map. cbn [wt]. tables. cbn [wt_fields wt_field].
    assert (F : forallb (fun x => match x with TNode ty' _ => conforms ifaces "StructField" false ty' && WT x | _ => false end) (map field_tree fs) = true).
    { clear s g. induction fs as [|f r IHr]; [reflexivity|]. inversion IH as [|? ? Hf Hr]; subst. cbn [map forallb].
      rewrite (IHr Hr). unfold field_tree at 1. rewrite (wt_field_tree f Hf). reflexivity. }
    rewrite F. reflexivity.
Qed.
Print Assumptions wt_ty.

(* ---------- the expression fragment ---------- *)
Lemma expr_conforms e : exists ty fs, to_tree e = TNode ty fs /\ conforms ifaces "Expr" true ty = true.
Proof. destruct e; cbn [to_tree]; unfold ExprModel.t_ident; eexists _, _; split; reflexivity. Qed.

Ltac child x IH :=
  let ty := fresh "ty" in let fs := fresh "fs" in let E := fresh "E" in let C := fresh "C" in
  destruct (expr_conforms x) as (ty & fs & E & C); rewrite E in *; rewrite ?C, ?IH.

Lemma wt_exprs l : Forall (fun e => WT (to_tree e) = true) l ->
  forallb (fun x => match x with TNode ty' _ => conforms ifaces "Expr" true ty' && WT x | _ => false end)
          ((fix go (l : list expr) := match l with [] => [] | x :: r => to_tree x :: go r end) l) = true.
Proof.
  induction 1 as [|e r He Hr IH]; [reflexivity|]. cbn [forallb]. rewrite IH. destruct (expr_conforms e) as (ty & fs & E & C). rewrite E in *. rewrite C, He. reflexivity.
Qed.

Theorem wt_expr : forall e, WT (to_tree e) = true.
Proof.
  apply (expr_ind' (fun e => WT (to_tree e) = true) (fun c => WT (cond_tree c) = true) (fun s => WT (sub_tree s) = true)).
  - intros op l r IHl IHr. cbn [to_tree wt]. tables. cbn [wt_fields wt_field]. child l IHl. child r IHr. reflexivity.
  - intros p op x IH. cbn [to_tree wt]. tables. cbn [wt_fields wt_field]. child x IH. reflexivity.
  - intros neg l c IHl IHc. cbn [to_tree wt]. tables. cbn [wt_fields wt_field]. child l IHl.
    destruct c; cbn [cond_tree] in *; rewrite IHc; reflexivity.
  - intros p neg l IH. cbn [to_tree wt]. tables. cbn [wt_fields wt_field]. child l IH. reflexivity.
  - intros p neg l v IH. cbn [to_tree wt]. tables. cbn [wt_fields wt_field]. child l IH. reflexivity.
  - intros neg l s x IHl IHs IHx. cbn [to_tree wt]. tables. cbn [wt_fields wt_field]. child l IHl. child s IHs. child x IHx. reflexivity.
  - intros x i IH. cbn [to_tree wt]. tables. cbn [wt_fields wt_field]. child x IH. reflexivity.
  - intros rb x ix IHx IHs. cbn [to_tree wt]. tables. cbn [wt_fields wt_field]. child x IHx.
    destruct ix; cbn [sub_tree] in *; rewrite IHs; reflexivity.
  - intros lp rp x IH. cbn [to_tree wt]. tables. cbn [wt_fields wt_field]. child x IH. reflexivity.
  - intros lp rp vs IH. cbn [to_tree wt]. tables. cbn [wt_fields wt_field]. rewrite (wt_exprs vs IH). reflexivity.
  - intros e He. destruct e; try destruct He; cbn [to_tree wt]; tables; cbn [wt_fields wt_field]; try reflexivity.
    rewrite wt_idents. reflexivity.
  - intros lp rp es IH. cbn [cond_tree wt]. tables. cbn [wt_fields wt_field]. rewrite (wt_exprs es IH). reflexivity.
  - intros u rp x IH. cbn [cond_tree wt]. tables. cbn [wt_fields wt_field]. child x IH. reflexivity.
  - intros kp rp kw x IH. cbn [sub_tree wt]. tables. cbn [wt_fields wt_field]. child x IH. reflexivity.
  - intros x IH. cbn [sub_tree wt]. tables. cbn [wt_fields wt_field]. child x IH. reflexivity.
Qed.
Print Assumptions wt_expr.

(* ---------- trees of the recovering type parser (with BadType nodes) ---------- *)
Section RtyInd.
  Variable P : rty -> Prop.
  Hypothesis HS : forall p n, P (RSimple p n).
  Hypothesis HN : forall ids, P (RNamed ids).
  Hypothesis HA : forall a g it, P it -> P (RArray a g it).
  Hypothesis HT : forall s g fs, Forall (fun f => P (snd f)) fs -> P (RStruct s g fs).
  Hypothesis HB : forall p e sk, P (RBad p e sk).
  Fixpoint rty_ind' (t : rty) : P t :=
    match t with
    | RSimple p n => HS p n
    | RNamed ids => HN ids
    | RArray a g it => HA a g it (rty_ind' it)
    | RStruct s g fs =>
        HT s g fs ((fix go (l : list (option ident * rty)) : Forall (fun f => P (snd f)) l :=
                      match l with [] => Forall_nil _ | (oi, x) :: r => Forall_cons (oi, x) (rty_ind' x) (go r) end) fs)
    | RBad p e sk => HB p e sk
    end.
End RtyInd.

Lemma rty_conforms t : exists ty fs, rty_tree t = TNode ty fs /\ conforms ifaces "Type" true ty = true.
Proof. destruct t; cbn [rty_tree]; eexists _, _; split; reflexivity. Qed.

Definition rfield_tree (f : option ident * rty) : tree :=
  TNode "StructField" [match fst f with Some i => ExprModel.t_ident i | None => TNil end; rty_tree (snd f)].

Lemma rfields_tree_map fs :
  (fix go (l : list (option ident * rty)) : list tree :=
     match l with
     | [] => []
     | (oi, x) :: r => TNode "StructField" [match oi with Some i => ExprModel.t_ident i | None => TNil end; rty_tree x] :: go r
     end) fs = map rfield_tree fs.
Proof. induction fs as [|[oi x] r IH]; [reflexivity|]. cbn [map]. rewrite <- IH. reflexivity. Qed.

Lemma wt_rfield_tree f : WT (rty_tree (snd f)) = true -> WT (rfield_tree f) = true.
Proof.
  intros H. destruct f as [[i|] x]; unfold rfield_tree; cbn [fst snd] in *; destruct (rty_conforms x) as (ty & fs & E & C); rewrite E in *;
    cbn [wt]; tables; cbn [wt_fields wt_field]; unfold ExprModel.t_ident; cbn [wt_fields wt_field]; rewrite C, H; reflexivity.
Qed.

Lemma wt_toks sk : forallb (fun x => match x with TTok _ _ _ _ _ _ => true | _ => false end) (map tok_tree sk) = true.
Proof. induction sk as [|t r IH]; [reflexivity|]. cbn [map forallb]. exact IH. Qed.

Theorem wt_rty : forall t, WT (rty_tree t) = true.
Proof.
  apply rty_ind'.
  - intros p n. reflexivity.
  - intros ids. cbn [rty_tree wt]. tables. cbn [wt_fields wt_field]. rewrite wt_idents. reflexivity.
  - intros a g it IH. cbn [rty_tree wt]. tables. cbn [wt_fields wt_field]. destruct (rty_conforms it) as (ty & fs & E & C). rewrite E in *.
    rewrite C, IH. reflexivity.
  - intros s g fs IH. cbn [rty_tree]. rewrite rfields_tree_map. cbn [wt]. tables. cbn [wt_fields wt_field].
    assert (F : forallb (fun x => match x with TNode ty' _ => conforms ifaces "StructField" false ty' && WT x | _ => false end) (map rfield_tree fs) = true).
    { clear s g. induction fs as [|f r IHr]; [reflexivity|]. inversion IH as [|? ? Hf Hr]; subst. cbn [map forallb].
      rewrite (IHr Hr). unfold rfield_tree at 1. rewrite (wt_rfield_tree f Hf). reflexivity. }
    rewrite F. reflexivity.
  - intros p e sk. cbn [rty_tree wt]. tables. cbn [wt_fields wt_field wt]. tables. cbn [wt_fields wt_field]. rewrite wt_toks. reflexivity.
Qed.
Print Assumptions wt_rty.
