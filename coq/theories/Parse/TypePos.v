(* Parse/TypePos.v -- the generated Pos() / End() on type trees: the programs regenerated from ast/pos.go in every run compute [ty_pos] /
   [ty_end] (kept apart from Parse/TypeSpan.v so that the extracted driver does not depend on regenerated tables). *)
From Verif Require Import Base.Bytes Tree.Tree Tree.PosLang Tree.PosProofs Parse.ExprModel Parse.Span Parse.TypeModel Parse.TypeProofs Parse.TypeSpan Gen.Schema Gen.PosSpec Gen.PosImpl.
From Coq Require Import Lia.
Local Open Scope Z_scope.

(* ---------- the generated Pos() / End() on type trees: the programs regenerated from ast/pos.go compute [ty_pos] / [ty_end] ---------- *)
Notation PE := (pe gbody geval_body schema pos_impl).
Ltac tables :=
  repeat match goal with
         | |- context [assoc ?k schema] => let v := eval vm_compute in (assoc k schema) in change (assoc k schema) with v
         | |- context [assoc ?k pos_impl] => let v := eval vm_compute in (assoc k pos_impl) in change (assoc k pos_impl) with v
         end.
Lemma last_end_last : forall ids d0 d, ids <> [] -> last_end d0 ids = id_end (last ids d).
Proof.
  induction ids as [|i r IH]; intros d0 d NE; [congruence|]. cbn [last_end]. destruct r as [|j r]; [reflexivity|].
  change (last (i :: j :: r) d) with (last (j :: r) d). apply IH. discriminate.
Qed.
Definition valid_end (t : ty) : Prop :=
  match t with TSimple p _ => 0 <= p | TArray _ g _ | TStruct _ g _ => 0 <= g | TNamed ids => ids <> [] end.
Lemma invalid_nonneg p : 0 <= p -> invalid p = false.
Proof. unfold invalid. intros H. apply Z.ltb_ge. exact H. Qed.
Theorem pe_ty_tree : forall t, valid_end t -> PE (ty_tree t) = Some (ty_pos t, ty_end t).
Proof.
  intros t H. destruct t as [p n|ids|a g it|s g fs]; cbn [ty_tree pe]; tables; cbn [mk_env fval_of].
  - cbn. cbn in H. rewrite (invalid_nonneg _ H). reflexivity.
  - destruct ids as [|i r]; [cbn in H; congruence|]. rewrite pe_idents.
    cbn [geval_body geval_p geval_n assoc String.eqb Ascii.eqb Bool.eqb geval_i nth_z map].
    change (map (fun i0 => (id_pos i0, id_end i0)) (i :: r)) with ((id_pos i, id_end i) :: map (fun i0 => (id_pos i0, id_end i0)) r).
    cbn [Z.ltb Z.compare Z.to_nat nth_error].
    change ((id_pos i, id_end i) :: map (fun i0 => (id_pos i0, id_end i0)) r) with (map (fun i0 => (id_pos i0, id_end i0)) (i :: r)).
    rewrite (last_map_pair (i :: r) {| id_pos := 0; id_end := 0; id_name := [] |}) by discriminate.
    cbn [ty_pos ty_end]. unfold last_ident_end. rewrite (last_end_last (i :: r) 0 {| id_pos := 0; id_end := 0; id_name := [] |}) by discriminate. reflexivity.
  - match goal with |- context [("Item"%string, ?v)] => generalize v end. intros v. cbn. cbn in H. rewrite (invalid_nonneg _ H). reflexivity.
  - match goal with |- context [("Fields"%string, ?v)] => generalize v end. intros v. cbn. cbn in H. rewrite (invalid_nonneg _ H). reflexivity.
Qed.

(* the rest is a suffix of the input *)
Lemma TrPath_suffix ids ts K : TrPath ids ts K -> exists pre, ts = (pre ++ K)%list.
Proof.
  induction 1 as [K|d i ts K ids _ _ _ [pre ->]]; [exists []; reflexivity|]. exists (d :: i :: pre). reflexivity.
Qed.

Lemma Tr_suffix :
  (forall t ts K, Tr t ts K -> exists pre, ts = (pre ++ K)%list) /\ (forall f ts K, TrField f ts K -> exists pre, ts = (pre ++ K)%list) /\
  (forall fs ts K, TrMore fs ts K -> exists pre, ts = (pre ++ K)%list).
Proof.
  apply Tr_mutind.
  - intros t K nm _ _. exists [t]. reflexivity.
  - intros t ts K ids _ _ HP _. destruct (TrPath_suffix _ _ _ HP) as [pre ->]. exists (t :: pre). reflexivity.
  - intros a lt ts g K it _ _ _ [pre ->] _. exists (a :: lt :: pre ++ [g])%list. cbn [app]. rewrite <- app_assoc. reflexivity.
  - intros s e K _ _. exists [s; e]. reflexivity.
  - intros s lt g K _ _ _. exists [s; lt; g]. reflexivity.
  - intros s lt ts ts1 g K f fs _ _ _ [p1 ->] _ [p2 ->] _. exists (s :: lt :: p1 ++ p2 ++ [g])%list. cbn [app]. rewrite <- !app_assoc. reflexivity.
  - intros n ts K t _ _ _ [pre ->]. exists (n :: pre). reflexivity.
  - intros ts K t _ [pre ->] _. exists pre. reflexivity.
  - intros K. exists []. reflexivity.
  - intros c ts ts1 K f fs _ _ [p1 ->] _ [p2 ->]. exists (c :: p1 ++ p2)%list. cbn [app]. rewrite <- app_assoc. reflexivity.
Qed.

(* the trees of the grammar over tokens at non-negative offsets have valid positions *)
Lemma Tr_valid_end t ts K : Tr t ts K -> Forall (fun x => 0 <= ppos x) ts -> valid_end t.
Proof.
  intros H F. destruct H as [t K nm|t ts K ids|a lt ts g K it A B HS G|s e K|s lt g K|s lt ts ts1 g K f fs A B HF HM G]; cbn [valid_end]; try discriminate.
  - inversion F; auto.
  - destruct (proj1 Tr_suffix _ _ _ HS) as [pre ->]. inversion F as [|? ? _ F1]; subst. inversion F1 as [|? ? _ F2]; subst.
    apply Forall_app in F2 as [_ F3]. inversion F3; auto.
  - inversion F as [|? ? _ F1]; subst. inversion F1 as [|? ? E _]; subst. lia.
  - inversion F as [|? ? _ F1]; subst. inversion F1 as [|? ? _ F2]; subst. inversion F2; auto.
  - destruct (proj1 (proj2 Tr_suffix) _ _ _ HF) as [p1 ->]. destruct (proj2 (proj2 Tr_suffix) _ _ _ HM) as [p2 ->].
    inversion F as [|? ? _ F1]; subst. inversion F1 as [|? ? _ F2]; subst.
    apply Forall_app in F2 as [_ F3]. apply Forall_app in F3 as [_ F4]. inversion F4; auto.
Qed.
