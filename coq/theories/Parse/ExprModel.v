(* Parse/ExprModel.v -- the expression fragment F1 of parser.go as total Gallina functions over a pre-lexed token list.
   Same function structure and statement order as parser.go: parseExpr / parseOr / parseAnd / parseNot / parseComparison /
   parseBitOr / parseBitXor / parseBitAnd / parseBitShift / parseAddSub / parseMulDiv / parseUnary / parseSelector /
   parseIndexSpecifier / parseLit / parseParenExpr / parseInCondition / parseCommaSeparatedList, one mode each.
   Outside the fragment (calls, CASE/IF/CAST/EXTRACT/ARRAY/STRUCT/NEW/braces, typed literals, sub-queries) the model
   answers [Unsup]; such inputs are skipped by the correspondence and excluded by hypothesis in the theorems.
   Tie: hand transcription + correspondence with ParseExpr on every check run (bin/check C07). *)
From Verif Require Import Base.Bytes Tree.Tree.
Local Open Scope Z_scope.

Record ptok := { pk : bytes; praw : bytes; pstr : bytes; ppos : Z; pend : Z; pbase : Z }.
Definition toks := list ptok.

Definition kis (t : ptok) (k : String.string) : bool := bytes_eqb (pk t) (bs k).
Definition K_ident := "<ident>"%string.  Definition K_int := "<int>"%string.  Definition K_float := "<float>"%string.
Definition K_string := "<string>"%string. Definition K_bytes := "<bytes>"%string. Definition K_param := "<param>"%string.
Definition K_eof := "<eof>"%string.

Definition eof_tok : ptok := {| pk := bs K_eof; praw := []; pstr := []; ppos := 0; pend := 0; pbase := 0 |}.
Definition cur (ts : toks) : ptok := match ts with t :: _ => t | [] => eof_tok end.
(* nextToken: the lexer keeps returning <eof> at the end of input *)
Definition next (ts : toks) : toks := match ts with _ :: (_ :: _) as r => r | _ => ts end.

Record ident := { id_pos : Z; id_end : Z; id_name : bytes }.

Inductive expr :=
| EBinary (op : bytes) (l r : expr)
| EUnary (oppos : Z) (op : bytes) (e : expr)
| EIn (neg : bool) (l : expr) (c : incond)
| EIsNull (nullpos : Z) (neg : bool) (l : expr)
| EIsBool (rpos : Z) (neg : bool) (l : expr) (v : bool)
| EBetween (neg : bool) (l s e : expr)
| ESelector (e : expr) (i : ident)
| EIndex (rbrack : Z) (e : expr) (ix : subscript)
| EParen (lp rp : Z) (e : expr)
| ETuple (lp rp : Z) (vs : list expr)
| EParam (atmark : Z) (name : bytes)
| EIdent (i : ident)
| EPath (ids : list ident)
| ENull (p : Z)
| EBool (p : Z) (v : bool)
| EInt (vpos vend base : Z) (v : bytes)
| EFloat (vpos vend : Z) (v : bytes)
| EString (vpos vend : Z) (v : bytes)
| EBytes (vpos vend : Z) (v : bytes)
with incond :=
| CValues (lp rp : Z) (es : list expr)
| CUnnest (unnest rp : Z) (e : expr)
with subscript :=
| SKeyword (kwpos rp : Z) (kw : bytes) (e : expr)
| SExprArg (e : expr).

Inductive res (A : Type) := Ok (a : A) | Err (at_pos : Z) | Unsup | Fuel.
Arguments Ok {A}. Arguments Err {A}. Arguments Unsup {A}. Arguments Fuel {A}.

Definition bind {A B} (r : res A) (f : A -> res B) : res B :=
  match r with Ok a => f a | Err p => Err p | Unsup => Unsup | Fuel => Fuel end.
Notation "'do' x <- r ; k" := (bind r (fun x => k)) (at level 200, x pattern, r at level 100, k at level 200).

(* p.expect(kind): panic at the current token, or clone it and advance *)
Definition expect (k : String.string) (ts : toks) : res (ptok * toks) :=
  if kis (cur ts) k then Ok (cur ts, next ts) else Err (ppos (cur ts)).

Definition mk_ident (t : ptok) : ident := {| id_pos := ppos t; id_end := pend t; id_name := pstr t |}.
Definition parse_ident (ts : toks) : res (ident * toks) :=
  do (t, ts1) <- expect K_ident ts; Ok (mk_ident t, ts1).

(* binary left-associative levels: which token kinds they consume, the BinaryOp they build, the next tighter level *)
Inductive blevel := BOr | BAnd | BBitOr | BBitXor | BBitAnd | BShift | BAdd | BMul.

Definition level_ops (l : blevel) : list (String.string * String.string) :=
  match l with
  | BOr => [("OR", "OR")]
  | BAnd => [("AND", "AND")]
  | BBitOr => [("|", "|")]
  | BBitXor => [("^", "^")]
  | BBitAnd => [("&", "&")]
  | BShift => [("<<", "<<"); (">>", ">>")]
  | BAdd => [("+", "+"); ("-", "-")]
  | BMul => [("*", "*"); ("/", "/"); ("||", "||")]
  end%string.

Fixpoint find_op (t : ptok) (ops : list (String.string * String.string)) : option bytes :=
  match ops with
  | [] => None
  | (k, op) :: r => if kis t k then Some (bs op) else find_op t r
  end.

Inductive mode :=
| MBin (l : blevel)                 (* parseOr, parseAnd, parseBitOr, ..., parseMulDiv *)
| MLoop (l : blevel) (acc : expr)   (* the `for` loop of such a level with its accumulator *)
| MNot | MCmp | MUnary | MSel | MSelLoop (acc : expr) | MLit.

Definition equal_fold_s (b : bytes) (s : String.string) : bool := equal_fold b (bs s).
Definition is_ident_ci (t : ptok) (s : String.string) : bool := kis t K_ident && equal_fold_s (pstr t) s.    (* Token.IsIdent *)
Definition is_kwlike (t : ptok) (s : String.string) : bool := kis t K_ident && equal_fold_s (praw t) s.      (* Token.IsKeywordLike *)

(* lookaheadSubQuery answers true only when, after "(" and any further "(", a SELECT follows: outside the fragment *)
Fixpoint skip_lparens (fuel : nat) (ts : toks) : toks :=
  match fuel with O => ts | S f => if kis (cur ts) "(" then skip_lparens f (next ts) else ts end.
Definition maybe_subquery (ts : toks) : bool :=
  kis (cur ts) "(" && kis (cur (skip_lparens (length ts) ts)) "SELECT".

(* lookaheadCallExpr: ident (. ident)* followed by "(" *)
Fixpoint lookahead_call (fuel : nat) (ts : toks) : bool :=
  match fuel with
  | O => false
  | S f =>
      if negb (kis (cur ts) K_ident) then false
      else let ts1 := next ts in
           if kis (cur ts1) "(" then true
           else if kis (cur ts1) "." then lookahead_call f (next ts1) else false
  end.

Definition first_byte_is_sign (v : bytes) : bool :=
  match v with c :: _ => beq c x2b || beq c x2d | [] => false end.

Definition sub_mode (l : blevel) : mode :=
  match l with
  | BOr => MBin BAnd | BAnd => MNot
  | BBitOr => MBin BBitXor | BBitXor => MBin BBitAnd | BBitAnd => MBin BShift
  | BShift => MBin BAdd | BAdd => MBin BMul | BMul => MUnary
  end.

Definition cmp_ops : list (String.string * String.string) :=
  [("<", "<"); (">", ">"); ("<=", "<="); (">=", ">="); ("=", "="); ("!=", "!="); ("<>", "!="); ("LIKE", "LIKE")]%string.

(* parseCommaSeparatedList(p, p.parseExpr) after a first element: `for Token.Kind == "," { nextToken; append(parseExpr()) }` *)
Fixpoint more (pexpr : toks -> res (expr * toks)) (n : nat) (acc : list expr) (ts : toks) : res (list expr * toks) :=
  match n with
  | O => Fuel
  | S n' => if kis (cur ts) "," then do (e, ts1) <- pexpr (next ts); more pexpr n' (acc ++ [e])%list ts1
            else Ok (acc, ts)
  end.

(* one call of the parser function selected by [m]; every recursive call goes through [rec] *)
Definition step (rec : mode -> toks -> res (expr * toks)) (m : mode) (ts : toks) : res (expr * toks) :=
  let pexpr := rec (MBin BOr) in                 (* parseExpr (success path; the recover wrapper is in Entry) *)
  match m with
  | MBin l => do (e, ts1) <- rec (sub_mode l) ts; rec (MLoop l e) ts1
  | MLoop l acc =>
      match find_op (cur ts) (level_ops l) with
      | Some op => do (r, ts1) <- rec (sub_mode l) (next ts); rec (MLoop l (EBinary op acc r)) ts1
      | None => Ok (acc, ts)
      end
  | MNot =>
      if kis (cur ts) "NOT" then
        do (e, ts1) <- rec MNot (next ts); Ok (EUnary (ppos (cur ts)) (bs "NOT") e, ts1)
      else rec MCmp ts
  | MCmp =>
      do (e, ts1) <- rec (MBin BBitOr) ts;
      let t := cur ts1 in
      let incond (neg : bool) (ts2 : toks) : res (expr * toks) :=     (* after IN: parseInCondition *)
          if maybe_subquery ts2 then Unsup
          else if kis (cur ts2) "(" then
            do (e1, ts3) <- pexpr (next ts2);
            do (es, ts4) <- more pexpr (length ts3) [e1] ts3;
            do (rp, ts5) <- expect ")" ts4;
            Ok (EIn neg e (CValues (ppos (cur ts2)) (ppos rp) es), ts5)
          else if kis (cur ts2) "UNNEST" then
            do (_, ts3) <- expect "(" (next ts2);
            do (e1, ts4) <- pexpr ts3;
            do (rp, ts5) <- expect ")" ts4;
            Ok (EIn neg e (CUnnest (ppos (cur ts2)) (ppos rp) e1), ts5)
          else Err (ppos (cur ts2)) in
      let between (neg : bool) (ts2 : toks) : res (expr * toks) :=
          do (s, ts3) <- rec (MBin BBitOr) ts2;
          do (_, ts4) <- expect "AND" ts3;
          do (e2, ts5) <- rec (MBin BBitOr) ts4;
          Ok (EBetween neg e s e2, ts5) in
      match find_op t cmp_ops with
      | Some op => do (r, ts2) <- rec (MBin BBitOr) (next ts1); Ok (EBinary op e r, ts2)
      | None =>
          if kis t "IN" then incond false (next ts1)
          else if kis t "BETWEEN" then between false (next ts1)
          else if kis t "NOT" then
            let ts2 := next ts1 in
            if kis (cur ts2) "LIKE" then do (r, ts3) <- rec (MBin BBitOr) (next ts2); Ok (EBinary (bs "NOT LIKE") e r, ts3)
            else if kis (cur ts2) "IN" then incond true (next ts2)
            else if kis (cur ts2) "BETWEEN" then between true (next ts2)
            else Err (ppos (cur ts2))
          else if kis t "IS" then
            let ts2 := next ts1 in
            let neg := kis (cur ts2) "NOT" in
            let ts3 := if neg then next ts2 else ts2 in
            let pos := ppos (cur ts3) in
            if kis (cur ts3) "NULL" then Ok (EIsNull pos neg e, next ts3)
            else if kis (cur ts3) "TRUE" then Ok (EIsBool pos neg e true, next ts3)
            else if kis (cur ts3) "FALSE" then Ok (EIsBool pos neg e false, next ts3)
            else Err pos
          else Ok (e, ts1)
      end
  | MUnary =>
      let t := cur ts in
      let op := if kis t "+" then Some (bs "+") else if kis t "-" then Some (bs "-") else if kis t "~" then Some (bs "~") else None in
      match op with
      | None => rec MSel ts
      | Some o =>
          do (e, ts1) <- rec MUnary (next ts);
          let folded :=
              if kis t "~" then None
              else match e with
                   | EInt _ vend base v => if first_byte_is_sign v then None else Some (EInt (ppos t) vend base (o ++ v)%list)
                   | EFloat _ vend v => if first_byte_is_sign v then None else Some (EFloat (ppos t) vend (o ++ v)%list)
                   | _ => None
                   end in
          match folded with
          | Some e' => Ok (e', ts1)
          | None => Ok (EUnary (ppos t) o e, ts1)
          end
      end
  | MSel => do (e, ts1) <- rec MLit ts; rec (MSelLoop e) ts1
  | MSelLoop acc =>
      if kis (cur ts) "." then
        let ts1 := next ts in
        if kis (cur ts1) "*" then Ok (acc, ts)                  (* expr.* : the lexer is restored to the "." *)
        else
          do (i, ts2) <- parse_ident ts1;
          let e' := match acc with
                    | EIdent a => EPath [a; i]
                    | EPath ids => EPath (ids ++ [i])%list
                    | _ => ESelector acc i
                    end in
          rec (MSelLoop e') ts2
      else if kis (cur ts) "[" then
        let ts1 := next ts in
        let t := cur ts1 in
        let kw := if is_ident_ci t "OFFSET" then Some (bs "OFFSET")
                  else if is_ident_ci t "ORDINAL" then Some (bs "ORDINAL")
                  else if is_ident_ci t "SAFE_OFFSET" then Some (bs "SAFE_OFFSET")
                  else if is_ident_ci t "SAFE_ORDINAL" then Some (bs "SAFE_ORDINAL") else None in
        do (ix, ts2) <-
           match kw with
           | Some k =>
               do (_, ts2) <- expect "(" (next ts1);
               do (e1, ts3) <- pexpr ts2;
               do (rp, ts4) <- expect ")" ts3;
               Ok (SKeyword (ppos t) (ppos rp) k e1, ts4)
           | None => do (e1, ts2) <- pexpr ts1; Ok (SExprArg e1, ts2)
           end;
        do (rb, ts3) <- expect "]" ts2;
        rec (MSelLoop (EIndex (ppos rb) acc ix)) ts3
      else Ok (acc, ts)
  | MLit =>
      let t := cur ts in
      if kis t "NULL" then Ok (ENull (ppos t), next ts)
      else if kis t "TRUE" then Ok (EBool (ppos t) true, next ts)
      else if kis t "FALSE" then Ok (EBool (ppos t) false, next ts)
      else if kis t K_int then Ok (EInt (ppos t) (pend t) (pbase t) (praw t), next ts)
      else if kis t K_float then Ok (EFloat (ppos t) (pend t) (praw t), next ts)
      else if kis t K_string then Ok (EString (ppos t) (pend t) (pstr t), next ts)
      else if kis t K_bytes then Ok (EBytes (ppos t) (pend t) (pstr t), next ts)
      else if kis t K_param then Ok (EParam (ppos t) (pstr t), next ts)
      else if kis t "CASE" || kis t "IF" || kis t "CAST" || kis t "EXISTS" || kis t "EXTRACT" || kis t "WITH" || kis t "ARRAY"
              || kis t "STRUCT" || kis t "[" || kis t "NEW" || kis t "{" then Unsup
      else if kis t "(" then
        (* parseParenExpr *)
        if maybe_subquery ts then Unsup
        else
          do (e, ts1) <- pexpr (next ts);
          if kis (cur ts1) ")" then Ok (EParen (ppos t) (ppos (cur ts1)) e, next ts1)
          else if negb (kis (cur ts1) ",") then Err (ppos t)
          else
            do (e2, ts2) <- pexpr (next ts1);
            do (es, ts3) <- more pexpr (length ts2) [e2] ts2;
            do (rp, ts4) <- expect ")" ts3;
            Ok (ETuple (ppos t) (ppos rp) (e :: es), ts4)
      else if kis t K_ident then
        if is_kwlike t "SAFE_CAST" || is_kwlike t "REPLACE_FIELDS" then Unsup
        else if lookahead_call (length ts) ts then Unsup
        else
          let ts1 := next ts in
          if kis (cur ts1) K_string && (is_kwlike t "DATE" || is_kwlike t "TIMESTAMP" || is_kwlike t "NUMERIC" || is_kwlike t "JSON") then Unsup
          else Ok (EIdent (mk_ident t), ts1)
      else Err (ppos t)
  end.

Fixpoint P (fuel : nat) (m : mode) (ts : toks) {struct fuel} : res (expr * toks) :=
  match fuel with
  | O => Fuel
  | S f => step (P f) m ts
  end.

(* fuel: every recursive call goes through at most 16 modes before consuming a token *)
Definition parse_expr (ts : toks) : res (expr * toks) := P (16 * (length ts) + 16) (MBin BOr) ts.

(* ---------- the AST as a universal tree (field order of ast/ast.go) ---------- *)
Definition t_ident (i : ident) : tree := TNode "Ident" [TPos (id_pos i); TPos (id_end i); TStr (id_name i)].

Fixpoint to_tree (e : expr) : tree :=
  match e with
  | EBinary op l r => TNode "BinaryExpr" [TStr op; to_tree l; to_tree r]
  | EUnary p op x => TNode "UnaryExpr" [TPos p; TStr op; to_tree x]
  | EIn neg l c => TNode "InExpr" [TBool neg; to_tree l; cond_tree c]
  | EIsNull p neg l => TNode "IsNullExpr" [TPos p; TBool neg; to_tree l]
  | EIsBool p neg l v => TNode "IsBoolExpr" [TPos p; TBool neg; to_tree l; TBool v]
  | EBetween neg l s x => TNode "BetweenExpr" [TBool neg; to_tree l; to_tree s; to_tree x]
  | ESelector x i => TNode "SelectorExpr" [to_tree x; t_ident i]
  | EIndex rb x ix => TNode "IndexExpr" [TPos rb; to_tree x; sub_tree ix]
  | EParen lp rp x => TNode "ParenExpr" [TPos lp; TPos rp; to_tree x]
  | ETuple lp rp vs => TNode "TupleStructLiteral" [TPos lp; TPos rp; TList ((fix go (l : list expr) := match l with [] => [] | x :: r => to_tree x :: go r end) vs)]
  | EParam p n => TNode "Param" [TPos p; TStr n]
  | EIdent i => t_ident i
  | EPath ids => TNode "Path" [TList (map t_ident ids)]
  | ENull p => TNode "NullLiteral" [TPos p]
  | EBool p v => TNode "BoolLiteral" [TPos p; TBool v]
  | EInt a b base v => TNode "IntLiteral" [TPos a; TPos b; TInt base; TStr v]
  | EFloat a b v => TNode "FloatLiteral" [TPos a; TPos b; TStr v]
  | EString a b v => TNode "StringLiteral" [TPos a; TPos b; TStr v]
  | EBytes a b v => TNode "BytesLiteral" [TPos a; TPos b; TStr v]
  end
with cond_tree (c : incond) : tree :=
  match c with
  | CValues lp rp es => TNode "ValuesInCondition" [TPos lp; TPos rp; TList ((fix go (l : list expr) := match l with [] => [] | x :: r => to_tree x :: go r end) es)]
  | CUnnest u rp x => TNode "UnnestInCondition" [TPos u; TPos rp; to_tree x]
  end
with sub_tree (s : subscript) : tree :=
  match s with
  | SKeyword kp rp kw x => TNode "SubscriptSpecifierKeyword" [TPos kp; TPos rp; TStr kw; to_tree x]
  | SExprArg x => TNode "ExprArg" [to_tree x]
  end.
